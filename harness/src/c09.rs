//! C09 — ST-MOC construction represents exactly the observations given.
//! Streaming builders (from_fixed_depth_cells, from_ranges_and_fixed_depth_cells, all
//! buffer capacities) and the range-2D path (HpxRanges2D::create_from_*).  Each output
//! is judged by the extracted checkers: pts_eqb against the observations' point set
//! (C09_observations_pointset, C09_built_moc_checker_exact) and the validity checker of
//! its form (valid2db / r2d_okb).
use crate::c08::{panic_class, Verdict};
use crate::common::*;
use crate::st::*;
use moc::elemset::range::MocRanges;
use moc::hpxranges2d::HpxRanges2D;
use moc::moc2d::range::RangeMOC2;
use moc::qty::{Hpx, Time};
use std::ops::Range;

pub type R2D = HpxRanges2D<u64, Time<u64>, u64>;

pub fn from_r2d(dt: u8, ds: u8, r: &R2D) -> StMoc {
  let x = &r.0.ranges2d.x;
  let y = &r.0.ranges2d.y;
  let elems = x.iter().zip(y.iter()).map(|(t, s)| (vec![(t.start, t.end)], s.0.iter().map(|r| (r.start, r.end)).collect())).collect();
  StMoc { dt, ds, elems }
}

/// the conversion the store applies to every range-2D result before keeping it
/// (storage/u64idx: `moc.time_space_iter(dt, ds).into_range_moc2()`)
pub fn via_tsi(dt: u8, ds: u8, r: &R2D) -> StMoc {
  use moc::moc2d::RangeMOC2Iterator;
  from_moc2(r.time_space_iter(dt, ds).into_range_moc2())
}

/// observation: time range at max depth + space coverage (ranges) ; `cell` = Some(depth-ds cell) when positional
#[derive(Clone, Debug)]
pub struct Obs {
  pub ta: u64,
  pub tb: u64,
  pub cell: Option<u64>,
  pub s: Vec<(u64, u64)>,
}
pub fn obs_wire(o: &[Obs]) -> String {
  let mut s = format!("{}", o.len());
  for x in o {
    s.push_str(&format!(" {} {} {}", x.ta, x.tb, ranges_str(&x.s)));
  }
  s
}

pub fn judge_obs(orc: &mut Oracle, form: &str, out: &StMoc, obs: &[Obs]) -> Result<Verdict, String> {
  let line = format!("STOBS {} {} {} {} {}", form, out.dt, out.ds, out.wire(), obs_wire(obs));
  let ans = orc.ask(&line);
  let t: Vec<&str> = ans.split_whitespace().collect();
  if t.len() < 4 || t[0] != "OK" {
    return Err(format!("oracle: {} on {}", ans, line));
  }
  Ok(Verdict { valid: t[1] == "1", pts: t[2] == "1", flags: t[3].to_string() })
}

fn caps(rng: &mut Rng, len: usize) -> Vec<Option<usize>> {
  let c = [Some(1), Some(2), Some(3), Some(len.max(1)), Some(len + 1), None];
  vec![c[rng.below(6) as usize], None]
}

pub fn run(ctx: &Ctx) -> Report {
  let mut rep = Report::default();
  let mut orc = Oracle::spawn();
  let mut rng = Rng::new(ctx.seed);
  rep.rule = "observation lists (<= 12; time-sorted, reversed, shuffled, first not the earliest, simultaneous at different positions, duplicated, touching and overlapping time ranges, at the bottom or top of the time domain) of three kinds: (instant, position cell), (time range, position cell), (time range, space coverage); depths dt in {0,3,10,61} x ds in {0,1,5,29}; streaming builders with capacities {1,2,3,len,len+1,default} and the range-2D path (create_from_times_positions, create_from_time_ranges_positions, create_from_time_ranges_spatial_coverage; observations with an empty space coverage included), each range-2D result both read directly and through time_space_iter().into_range_moc2() (the conversion the store applies). Outputs judged by extracted pts_eqb + validity checkers. non-trivial = >= 2 observations; distinct = distinct (observations, capacity)".to_string();
  let n = ctx.n(3_000, 100_000);
  for _ in 0..n {
    let dt = *rng.pick(&[0u8, 3, 10, 61]);
    let ds = *rng.pick(&[0u8, 1, 5, 29]);
    let sh_t = Q::T.shift(64, dt);
    let sh_s = Q::S.shift(64, ds);
    let ncells_t = 2u64 << dt;
    let ncells_s = 12u64 << (2 * ds as u32);
    let nslots = rng.range(3, 8).min(ncells_t);
    let base = if rng.chance(1, 2) { 0 } else { ncells_t - nslots };
    let k = rng.range(0, 12) as usize;
    let pool = s_pool(ds);
    let kind = rng.below(3); // 0 instants, 1 ranges+cell, 2 ranges+coverage
    let mut obs: Vec<Obs> = (0..k)
      .map(|_| {
        let c0 = base + rng.below(nslots);
        let (ta, tb) = if kind == 0 {
          let t = (c0 << sh_t) + if sh_t > 0 { rng.below(1u64 << sh_t.min(30)) } else { 0 };
          (t, t + 1)
        } else {
          let len = 1 + rng.below(3.min(base + nslots - c0));
          let mut a = c0 << sh_t;
          let mut b = (c0 + len) << sh_t;
          if sh_t > 0 && rng.chance(1, 2) {
            // unaligned bounds (to be degraded)
            a += rng.below(1u64 << sh_t.min(30));
            b -= rng.below(1u64 << sh_t.min(30));
          }
          (a, b.max(a + 1))
        };
        if kind == 2 {
          // an observation may have an EMPTY space coverage (it then contributes nothing)
          let sc = if rng.chance(1, 6) { Vec::new() } else { pool[rng.below(pool.len() as u64) as usize].clone() };
          Obs { ta, tb, cell: None, s: sc }
        } else {
          let cell = if rng.chance(1, 4) { ncells_s - 1 - rng.below(2) } else { rng.below(ncells_s.min(5)) };
          Obs { ta, tb, cell: Some(cell), s: vec![(cell << sh_s, (cell + 1) << sh_s)] }
        }
      })
      .collect();
    match rng.below(4) {
      0 => obs.sort_by_key(|o| o.ta),
      1 => {
        obs.sort_by_key(|o| o.ta);
        obs.reverse();
      }
      2 => {
        if let Some(x) = obs.first().cloned() {
          obs.push(x);
        }
      }
      _ => {}
    }
    let case = format!("STBUILD kind={} dt={} ds={} obs={}", kind, dt, ds, obs_wire(&obs));
    let mut outs: Vec<(String, &str, Result<StMoc, String>)> = Vec::new();
    // ---- streaming builders
    if kind <= 1 {
      for cap in caps(&mut rng, obs.len()) {
        if kind == 0 {
          let v: Vec<(u64, u64)> = obs.iter().map(|o| (o.ta >> sh_t, o.cell.unwrap())).collect();
          outs.push((format!("from_fixed_depth_cells(cap={:?})", cap), "M2", catch(move || from_moc2(RangeMOC2::<u64, Time<u64>, u64, Hpx<u64>>::from_fixed_depth_cells(dt, ds, v.into_iter(), cap)))));
          // the same observations given as (microsecond, longitude, latitude): the centre of each cell
          let v3: Vec<(u64, f64, f64)> = obs.iter().map(|o| { let (lon, lat) = cdshealpix::nested::center(ds, o.cell.unwrap()); (o.ta, lon, lat) }).collect();
          if obs.iter().zip(v3.iter()).all(|(o, (_, lon, lat))| cdshealpix::nested::hash(ds, *lon, *lat) == o.cell.unwrap()) {
            outs.push((format!("from_time_and_coos(cap={:?})", cap), "M2", catch(move || from_moc2(RangeMOC2::<u64, Time<u64>, u64, Hpx<u64>>::from_time_and_coos(dt, ds, v3.into_iter(), cap)))));
          }
          // the same instants as degenerate ranges through the other builder
          let v2: Vec<(Range<u64>, u64)> = obs.iter().map(|o| (o.ta..o.tb, o.cell.unwrap())).collect();
          outs.push((format!("from_ranges_and_fixed_depth_cells(cap={:?})", cap), "M2", catch(move || from_moc2(RangeMOC2::<u64, Time<u64>, u64, Hpx<u64>>::from_ranges_and_fixed_depth_cells(dt, ds, v2.into_iter(), cap)))));
        } else {
          let v2: Vec<(Range<u64>, u64)> = obs.iter().map(|o| (o.ta..o.tb, o.cell.unwrap())).collect();
          outs.push((format!("from_ranges_and_fixed_depth_cells(cap={:?})", cap), "M2", catch(move || from_moc2(RangeMOC2::<u64, Time<u64>, u64, Hpx<u64>>::from_ranges_and_fixed_depth_cells(dt, ds, v2.into_iter(), cap)))));
        }
      }
    }
    // ---- range-2D path
    {
      let x: Vec<Range<u64>> = obs.iter().map(|o| o.ta..o.tb).collect();
      match kind {
        0 => {
          let xs: Vec<u64> = obs.iter().map(|o| o.ta).collect();
          let ys: Vec<u64> = obs.iter().map(|o| o.cell.unwrap()).collect();
          let (xs2, ys2) = (xs.clone(), ys.clone());
          outs.push(("create_from_times_positions".to_string(), "R2D", catch(move || from_r2d(dt, ds, &R2D::create_from_times_positions(xs, ys, dt, ds)))));
          outs.push(("create_from_times_positions.time_space_iter".to_string(), "M2", catch(move || via_tsi(dt, ds, &R2D::create_from_times_positions(xs2, ys2, dt, ds)))));
        }
        1 => {
          let ys: Vec<u64> = obs.iter().map(|o| o.cell.unwrap()).collect();
          let (x2, ys2) = (x.clone(), ys.clone());
          outs.push(("create_from_time_ranges_positions".to_string(), "R2D", catch(move || from_r2d(dt, ds, &R2D::create_from_time_ranges_positions(x, ys, dt, ds)))));
          outs.push(("create_from_time_ranges_positions.time_space_iter".to_string(), "M2", catch(move || via_tsi(dt, ds, &R2D::create_from_time_ranges_positions(x2, ys2, dt, ds)))));
        }
        _ => {
          let ys: Vec<MocRanges<u64, Hpx<u64>>> = obs.iter().map(|o| MocRanges::new_unchecked(o.s.iter().map(|(a, b)| *a..*b).collect())).collect();
          let (x2, ys2) = (x.clone(), ys.clone());
          outs.push(("create_from_time_ranges_spatial_coverage".to_string(), "R2D", catch(move || from_r2d(dt, ds, &R2D::create_from_time_ranges_spatial_coverage(x, ys, dt)))));
          outs.push(("create_from_time_ranges_spatial_coverage.time_space_iter".to_string(), "M2", catch(move || via_tsi(dt, ds, &R2D::create_from_time_ranges_spatial_coverage(x2, ys2, dt)))));
        }
      }
    }
    // the range-2D construction as the code performs it (Model/Sweep2D.v: bounds sorted by (x, end
    // before start), sweep with the set of open entries, empty unions skipped, touching equal entries
    // fused), on the entries the library hands to make_consistent: (degraded time range, coverage)
    let r2d_model: Option<String> = {
      let mask = if sh_t == 0 { u64::MAX } else { !((1u64 << sh_t) - 1) };
      let off = if sh_t == 0 { 0 } else { (1u64 << sh_t) - 1 };
      let mut line = format!("R2DB {}", obs.len());
      for o in &obs {
        line.push_str(&format!(" {} {} {}", o.ta & mask, (o.tb + off) & mask, ranges_str(&o.s)));
      }
      let ans = orc.ask(&line);
      ans.strip_prefix("OK ").map(|x| x.trim().to_string())
    };
    // the (time cell, space cell) builder without flush (Model/STBuilder.v), element for element
    let stb_model: Option<String> = if kind == 0 {
      let mut line = format!("STBM {} {} {}", dt, ds, obs.len());
      for o in &obs {
        line.push_str(&format!(" {} {}", o.ta >> sh_t, o.cell.unwrap()));
      }
      orc.ask(&line).strip_prefix("OK ").map(|x| x.trim().to_string())
    } else {
      None
    };
    // the (time range, space cell) sweep-line builder without flush (Model/SweepLine.v), element for element;
    // the observations are given with their time range degraded to the time depth, as push() does
    let sw_model: Option<String> = if kind <= 1 {
      let mask = if sh_t == 0 { u64::MAX } else { !((1u64 << sh_t) - 1) };
      let off = if sh_t == 0 { 0 } else { (1u64 << sh_t) - 1 };
      let mut line = format!("STSW {} {}", ds, obs.len());
      for o in &obs {
        line.push_str(&format!(" {} {} {}", o.ta & mask, (o.tb + off) & mask, o.cell.unwrap()));
      }
      orc.ask(&line).strip_prefix("OK ").map(|x| x.trim().to_string())
    } else {
      None
    };
    for (name, form, r) in outs {
      if name == "from_ranges_and_fixed_depth_cells(cap=None)" {
        if let (Ok(out), Some(m)) = (&r, &sw_model) {
          rep.evaluations += 1;
          let single = out.elems.iter().all(|(t, _)| t.len() == 1);
          let got = format!("{} {}", out.elems.len(), out.elems.iter().map(|(t, sp)| format!("{} {} {}", t[0].0, t.last().unwrap().1, ranges_str(sp))).collect::<Vec<_>>().join(" ")).trim().to_string();
          if !single || &got != m {
            rep.violation("from_ranges_and_fixed_depth_cells (no flush): the result differs, element for element, from the model of the sweep-line builder", &format!("{} # path={}", case, name), &format!("{} (single-range elements: {})", got, single), m, "C09_sweep_line_builder_as_written");
          }
        }
      }
      if name == "from_fixed_depth_cells(cap=None)" {
        if let (Ok(out), Some(m)) = (&r, &stb_model) {
          rep.evaluations += 1;
          let got = format!("{} {}", out.elems.len(), out.elems.iter().map(|(t, sp)| format!("{} {}", ranges_str(t), ranges_str(sp))).collect::<Vec<_>>().join(" ")).trim().to_string();
          if &got != m {
            rep.violation("from_fixed_depth_cells (no flush): the result differs, element for element, from the model of buff_to_moc", &format!("{} # path={}", case, name), &got, m, "C09_cell_builder_as_written");
          }
        }
      }
      if form == "R2D" {
        if let (Ok(out), Some(m)) = (&r, &r2d_model) {
          rep.evaluations += 1;
          let got = out.elems.iter().map(|(t, sp)| format!("{} {} {}", t[0].0, t[0].1, ranges_str(sp))).collect::<Vec<_>>().join(" ");
          let got = format!("{} {}", out.elems.len(), got).trim().to_string();
          if &got != m {
            rep.violation(&format!("{}: the range-2D result differs, entry for entry, from the model of make_consistent + compress", name), &format!("{} # path={}", case, name), &got, m, "C09_range2d_construction_as_written");
          }
        }
      }
      rep.evaluations += 1;
      rep.count(&format!("path:{}", name.split('(').next().unwrap()));
      let shown = format!("{} # path={}", case, name);
      // D10d (known findings) needs a flush that interleaves with what was flushed before: observations
      // pushed in chronological order (non-decreasing start AND end) never do that
      let chrono = obs.windows(2).all(|p| p[0].ta <= p[1].ta && p[0].tb <= p[1].tb);
      let site = if form == "M2" { if chrono { "build|chrono" } else { "build|any" } } else { "r2d" };
      match r {
        Err(p) => rep.violation_c(&format!("{} fails: {}", name, p), &shown, &p, "", "C09 (construction is total)", &format!("{}|{}", panic_class(&p), if form == "M2" && chrono { "chrono" } else { "any" })),
        Ok(out) => match judge_obs(&mut orc, form, &out, &obs) {
          Err(e) => rep.violation("oracle-error", &shown, &e, "", "internal"),
          Ok(v) => {
            if !v.pts {
              rep.violation_c(&format!("{}: the built ST-MOC does not cover exactly the observations", name), &shown, &out.show(), "", "C09_observations_pointset + C09_built_moc_checker_exact", &format!("{}|valid={}|pts=0|{}", site, v.valid as u8, v.flags));
            } else if !v.valid {
              rep.violation_c(&format!("{}: the built ST-MOC is not valid ({})", name, v.flags), &shown, &out.show(), "", if form == "M2" { "C09_stmoc_validity_checker_exact" } else { "C09_range2d_validity_checker_exact" }, &format!("{}|valid=0|pts=1|{}", site, v.flags));
            }
          }
        },
      }
      if obs.len() >= 2 {
        rep.nontrivial(&shown);
      }
    }
    rep.sample(&case);
  }
  rep.notes.push(format!("oracle calls: {}", orc.calls));
  rep
}
