//! Shared infrastructure: PRNG, u64-frame MOC representation, (quantity, width)
//! instance dispatch, oracle co-process, report structure.
#![allow(dead_code)]
use std::io::{BufRead, BufReader, Write};
use std::ops::Range;
use std::process::{Child, ChildStdin, ChildStdout, Command, Stdio};

use moc::idx::Idx;
use moc::moc::range::RangeMOC;
use moc::qty::{Frequency, Hpx, MocQty, Time};
use moc::elemset::range::MocRanges;

// ---------------------------------------------------------------- PRNG
#[derive(Clone)]
pub struct Rng(pub u64);
impl Rng {
  pub fn new(seed: u64) -> Self {
    Rng(seed ^ 0x9E3779B97F4A7C15)
  }
  pub fn next(&mut self) -> u64 {
    // splitmix64
    self.0 = self.0.wrapping_add(0x9E3779B97F4A7C15);
    let mut z = self.0;
    z = (z ^ (z >> 30)).wrapping_mul(0xBF58476D1CE4E5B9);
    z = (z ^ (z >> 27)).wrapping_mul(0x94D049BB133111EB);
    z ^ (z >> 31)
  }
  pub fn below(&mut self, n: u64) -> u64 {
    if n == 0 {
      0
    } else {
      self.next() % n
    }
  }
  pub fn range(&mut self, lo: u64, hi_incl: u64) -> u64 {
    lo + self.below(hi_incl - lo + 1)
  }
  pub fn chance(&mut self, num: u64, den: u64) -> bool {
    self.below(den) < num
  }
  pub fn pick<'a, T>(&mut self, v: &'a [T]) -> &'a T {
    &v[self.below(v.len() as u64) as usize]
  }
  pub fn shuffle<T>(&mut self, v: &mut [T]) {
    for i in (1..v.len()).rev() {
      let j = self.below(i as u64 + 1) as usize;
      v.swap(i, j);
    }
  }
}

// ---------------------------------------------------------------- quantities
#[derive(Clone, Copy, Debug, PartialEq, Eq, Hash)]
pub enum Q {
  S,
  T,
  F,
}
impl Q {
  pub fn c(self) -> &'static str {
    match self {
      Q::S => "s",
      Q::T => "t",
      Q::F => "f",
    }
  }
  pub fn dim(self) -> u32 {
    match self {
      Q::S => 2,
      _ => 1,
    }
  }
  pub fn nd0(self) -> u64 {
    match self {
      Q::S => 12,
      _ => 2,
    }
  }
  /// independent re-statement of MAX_DEPTH (checked against the crate in selftest)
  pub fn max_depth(self, w: u8) -> u8 {
    match (self, w) {
      (Q::S, 64) => 29,
      (Q::S, 32) => 13,
      (Q::S, 16) => 5,
      (Q::T, 64) => 61,
      (Q::T, 32) => 29,
      (Q::T, 16) => 13,
      (Q::F, 64) => 59,
      (Q::F, 32) => 27,
      (Q::F, 16) => 11,
      _ => panic!("bad width"),
    }
  }
  pub fn n_cells_max(self, w: u8) -> u64 {
    self.nd0() << (self.dim() * self.max_depth(w) as u32)
  }
  pub fn shift(self, w: u8, d: u8) -> u32 {
    self.dim() * (self.max_depth(w) - d) as u32
  }
}
pub const ALL_Q: [Q; 3] = [Q::S, Q::T, Q::F];
pub const ALL_W: [u8; 3] = [16, 32, 64];

/// A 1-D MOC in the u64 *numeric* frame of its own width (values are the
/// integers stored in the width-w ranges, not the shifted "idx" frame).
#[derive(Clone, Debug, PartialEq, Eq, Hash)]
pub struct Moc {
  pub q: Q,
  pub w: u8,
  pub d: u8,
  pub r: Vec<(u64, u64)>,
}
impl Moc {
  pub fn line(&self) -> String {
    format!("{} {} {}", self.q.c(), self.w, self.dr())
  }
  /// depth + ranges
  pub fn dr(&self) -> String {
    format!("{} {}", self.d, ranges_str(&self.r))
  }
}
pub fn ranges_str(r: &[(u64, u64)]) -> String {
  let mut s = format!("{}", r.len());
  for (a, b) in r {
    s.push_str(&format!(" {} {}", a, b));
  }
  s
}

pub fn to_range_moc<T: Idx, QQ: MocQty<T>>(m: &Moc) -> RangeMOC<T, QQ> {
  let v: Vec<Range<T>> = m.r.iter().map(|(a, b)| T::from_u64(*a)..T::from_u64(*b)).collect();
  RangeMOC::new(m.d, MocRanges::new_unchecked(v))
}
pub fn from_range_moc<T: Idx, QQ: MocQty<T>>(q: Q, m: &RangeMOC<T, QQ>) -> Moc {
  Moc {
    q,
    w: T::N_BITS,
    d: m.depth_max(),
    r: m.moc_ranges().iter().map(|r| (r.start.to_u64(), r.end.to_u64())).collect(),
  }
}
pub fn ranges_of<T: Idx, I: Iterator<Item = Range<T>>>(it: I) -> Vec<(u64, u64)> {
  it.map(|r| (r.start.to_u64(), r.end.to_u64())).collect()
}

/// Dispatch a generic function over the 9 (T, Q) instances.
/// usage: dispatch!(q, w, func::<T, QQ>(args))  where T and QQ are bound by the macro
#[macro_export]
macro_rules! dispatch {
  ($q:expr, $w:expr, |$T:ident, $QQ:ident| $body:expr) => {{
    use moc::qty::{Frequency, Hpx, Time};
    match ($q, $w) {
      ($crate::common::Q::S, 16) => { type $T = u16; type $QQ = Hpx<u16>; $body }
      ($crate::common::Q::S, 32) => { type $T = u32; type $QQ = Hpx<u32>; $body }
      ($crate::common::Q::S, 64) => { type $T = u64; type $QQ = Hpx<u64>; $body }
      ($crate::common::Q::T, 16) => { type $T = u16; type $QQ = Time<u16>; $body }
      ($crate::common::Q::T, 32) => { type $T = u32; type $QQ = Time<u32>; $body }
      ($crate::common::Q::T, 64) => { type $T = u64; type $QQ = Time<u64>; $body }
      ($crate::common::Q::F, 16) => { type $T = u16; type $QQ = Frequency<u16>; $body }
      ($crate::common::Q::F, 32) => { type $T = u32; type $QQ = Frequency<u32>; $body }
      ($crate::common::Q::F, 64) => { type $T = u64; type $QQ = Frequency<u64>; $body }
      _ => panic!("bad (q,w)"),
    }
  }};
}

pub fn selftest_constants() -> Result<(), String> {
  macro_rules! chk {
    ($q:expr, $w:expr) => {{
      let (md, ncm) = dispatch!($q, $w, |T, QQ| (<QQ as MocQty<T>>::MAX_DEPTH, <QQ as MocQty<T>>::n_cells_max().to_u64()));
      if md != $q.max_depth($w) || ncm != $q.n_cells_max($w) {
        return Err(format!("constants differ for {:?} {}: MAX_DEPTH {} n_cells_max {}", $q, $w, md, ncm));
      }
    }};
  }
  for q in ALL_Q {
    for w in ALL_W {
      chk!(q, w);
    }
  }
  let _ = (Hpx::<u64>::MAX_DEPTH, Time::<u64>::MAX_DEPTH, Frequency::<u64>::MAX_DEPTH);
  Ok(())
}

// ---------------------------------------------------------------- generators
/// Random canonical MOC of quantity q, width w; depth d random; ranges are aligned at depth d.
/// `shape` biases: 0 = anywhere, 1 = near bottom of domain, 2 = near top, 3 = dense small domain
pub fn gen_moc(rng: &mut Rng, q: Q, w: u8, d: u8, max_ranges: usize) -> Moc {
  let sh = q.shift(w, d);
  let ncells: u64 = q.nd0() << (q.dim() * d as u32); // number of depth-d cells
  let kind = rng.below(10);
  let n = if kind == 0 { 0 } else { rng.range(1, max_ranges as u64) as usize };
  if kind == 1 {
    return Moc { q, w, d, r: vec![(0, ncells << sh)] };
  }
  // choose 2n distinct-ish cut points in 0..=ncells in a window
  let window: u64 = match rng.below(4) {
    0 => ncells,
    1 => ncells.min(4 * n as u64 + 4),
    2 => ncells.min(64),
    _ => ncells.min(1 << rng.range(2, 20)),
  };
  let base: u64 = match rng.below(3) {
    0 => 0,
    1 => ncells - window,
    _ => rng.below(ncells - window + 1),
  };
  let mut pts: Vec<u64> = (0..2 * n).map(|_| base + rng.below(window + 1)).collect();
  if rng.chance(1, 3) && !pts.is_empty() {
    pts[0] = base; // touch the lower bound of the window (0 when base==0)
  }
  if rng.chance(1, 3) && pts.len() > 1 {
    let l = pts.len();
    pts[l - 1] = base + window;
  }
  pts.sort_unstable();
  pts.dedup();
  if pts.len() % 2 == 1 {
    pts.pop();
  }
  let r: Vec<(u64, u64)> = pts.chunks(2).map(|c| (c[0] << sh, c[1] << sh)).collect();
  Moc { q, w, d, r }
}

/// A MOC related to `a` (same q, w): equal, shifted, complement-ish, adjacent, nested, disjoint
pub fn gen_related(rng: &mut Rng, a: &Moc, d: u8, max_ranges: usize) -> Moc {
  let q = a.q;
  let w = a.w;
  let sh = q.shift(w, d);
  let unit = 1u64 << sh;
  let ncm = q.n_cells_max(w);
  let align_dn = |x: u64| (x >> sh) << sh;
  let align_up = |x: u64| if x == 0 { 0 } else { (((x - 1) >> sh) + 1) << sh };
  let mut r: Vec<(u64, u64)> = Vec::new();
  match rng.below(7) {
    0 => {
      // same cover, re-aligned outward at depth d
      for (s, e) in &a.r {
        r.push((align_dn(*s), align_up(*e).min(ncm)));
      }
    }
    1 => {
      // gaps of a (adjacent everywhere)
      let mut prev = 0u64;
      for (s, e) in &a.r {
        if prev < *s && align_up(prev) < align_dn(*s) {
          r.push((align_up(prev), align_dn(*s)));
        }
        prev = *e;
      }
      if prev < ncm && align_up(prev.max(1)) < ncm {
        r.push((align_up(prev.max(1)), ncm));
      }
    }
    2 => {
      // ranges starting exactly at ends of a's ranges (touching) of one unit
      for (_, e) in &a.r {
        let s = align_up(*e);
        if s + unit <= ncm {
          r.push((s, s + unit));
        }
      }
    }
    3 => {
      // strictly after the last range of a / strictly before the first
      if let Some((s0, _)) = a.r.first() {
        if rng.chance(1, 2) {
          let e = align_dn(*s0);
          if e >= unit {
            let s = e - unit * rng.range(1, (e / unit).min(5));
            r.push((s, e - if rng.chance(1, 2) && e - s > unit { unit } else { 0 }));
          }
        } else {
          let (_, el) = a.r.last().unwrap();
          let s = align_up(*el);
          if s + unit <= ncm {
            let off = if rng.chance(1, 2) && s + 2 * unit <= ncm { unit } else { 0 };
            r.push((s + off, (s + off + unit * rng.range(1, 4)).min(ncm)));
          }
        }
      }
    }
    4 => {
      // nested: sub-ranges of a's ranges
      for (s, e) in &a.r {
        let s2 = align_up((*s).max(1));
        let e2 = align_dn(*e);
        if s2 < e2 && rng.chance(2, 3) {
          let n = (e2 - s2) / unit;
          let x = rng.below(n);
          let y = rng.range(x + 1, n);
          r.push((s2 + x * unit, s2 + y * unit));
        }
      }
    }
    5 => {
      // interleaved: each bound of a moved by +-1 unit
      for (s, e) in &a.r {
        let s2 = if rng.chance(1, 2) { align_dn(*s).saturating_sub(unit) } else { align_up(*s + 1) };
        let e2 = if rng.chance(1, 2) { align_dn(*e).saturating_sub(unit) } else { (align_up(*e) + unit).min(ncm) };
        r.push((s2, e2));
      }
    }
    _ => {
      return gen_moc(rng, q, w, d, max_ranges);
    }
  }
  // canonicalise (sort, merge overlapping or touching, drop empty)
  r.retain(|(s, e)| s < e && *e <= ncm);
  r.sort_unstable();
  let mut out: Vec<(u64, u64)> = Vec::new();
  for (s, e) in r {
    if let Some(l) = out.last_mut() {
      if s <= l.1 {
        l.1 = l.1.max(e);
        continue;
      }
    }
    out.push((s, e));
  }
  Moc { q, w, d, r: out }
}

/// all canonical range lists over the slots 0..n (cut points 0..=n), as lists of (start,end) slot ids
pub fn all_canonical(n: u32) -> Vec<Vec<(u64, u64)>> {
  // each of the n slots is in/out: 2^n subsets -> maximal runs
  let mut res = Vec::new();
  for mask in 0u64..(1u64 << n) {
    let mut v = Vec::new();
    let mut i = 0;
    while i < n {
      if mask >> i & 1 == 1 {
        let s = i;
        while i < n && mask >> i & 1 == 1 {
          i += 1;
        }
        v.push((s as u64, i as u64));
      } else {
        i += 1;
      }
    }
    res.push(v);
  }
  res
}

// ---------------------------------------------------------------- oracle co-process
pub struct Oracle {
  child: Child,
  stdin: ChildStdin,
  stdout: BufReader<ChildStdout>,
  pub calls: u64,
}
impl Oracle {
  pub fn spawn() -> Oracle {
    let path = std::env::var("VERIF_ORACLE").unwrap_or_else(|_| "/verif/.cache/oracle/oracle".to_string());
    let mut child = Command::new(&path)
      .stdin(Stdio::piped())
      .stdout(Stdio::piped())
      .spawn()
      .unwrap_or_else(|e| panic!("cannot spawn oracle {}: {}", path, e));
    let stdin = child.stdin.take().unwrap();
    let stdout = BufReader::new(child.stdout.take().unwrap());
    Oracle { child, stdin, stdout, calls: 0 }
  }
  pub fn ask(&mut self, line: &str) -> String {
    self.calls += 1;
    if std::env::var("VERIF_TRACE").is_ok() {
      eprintln!("ORACLE< {}", line.chars().take(400).collect::<String>());
    }
    self.stdin.write_all(line.as_bytes()).unwrap();
    self.stdin.write_all(b"\n").unwrap();
    self.stdin.flush().unwrap();
    let mut s = String::new();
    self.stdout.read_line(&mut s).unwrap();
    if s.is_empty() {
      panic!("oracle died on: {}", line);
    }
    s.trim_end().to_string()
  }
}
impl Drop for Oracle {
  fn drop(&mut self) {
    let _ = self.child.kill();
    let _ = self.child.wait();
  }
}

// ---------------------------------------------------------------- outcome of running implementation code
pub fn catch<R>(f: impl FnOnce() -> R) -> Result<R, String> {
  IN_CATCH.with(|c| *c.borrow_mut() += 1);
  let res = std::panic::catch_unwind(std::panic::AssertUnwindSafe(f));
  IN_CATCH.with(|c| *c.borrow_mut() -= 1);
  match res {
    Ok(r) => Ok(r),
    Err(e) => {
      let msg = if let Some(s) = e.downcast_ref::<&str>() {
        s.to_string()
      } else if let Some(s) = e.downcast_ref::<String>() {
        s.clone()
      } else {
        "?".to_string()
      };
      let loc = LAST_PANIC_LOC.with(|l| l.borrow().clone());
      Err(format!("PANIC {} @ {}", msg.replace('\n', " "), loc))
    }
  }
}
thread_local! {
  pub static IN_CATCH: std::cell::RefCell<u32> = std::cell::RefCell::new(0);
  pub static LAST_PANIC_LOC: std::cell::RefCell<String> = std::cell::RefCell::new(String::new());
}
pub fn install_quiet_panic_hook() {
  std::panic::set_hook(Box::new(|info| {
    let loc = info.location().map(|l| format!("{}:{}", l.file(), l.line())).unwrap_or_default();
    let quiet = IN_CATCH.with(|c| *c.borrow() > 0);
    if !quiet {
      eprintln!("harness panic: {}", info);
    }
    LAST_PANIC_LOC.with(|l| *l.borrow_mut() = loc);
  }));
}

// ---------------------------------------------------------------- report
#[derive(Default)]
pub struct Report {
  pub evaluations: u64,
  pub distinct: std::collections::HashSet<u64>,
  pub rule: String,
  pub samples: Vec<String>,
  pub dist: std::collections::BTreeMap<String, u64>,
  pub violations: Vec<Violation>,
  pub known_hits: std::collections::BTreeMap<String, (u64, String)>,
  pub exhaustive: bool,
  pub notes: Vec<String>,
}
pub struct Violation {
  pub class: String,
  pub what: String,
  pub case_line: String,
  pub impl_obs: String,
  pub model_obs: String,
  pub contradicts: String,
}
impl Report {
  pub fn count(&mut self, key: &str) {
    *self.dist.entry(key.to_string()).or_insert(0) += 1;
  }
  pub fn nontrivial(&mut self, case: &str) {
    use std::hash::{Hash, Hasher};
    let mut h = std::collections::hash_map::DefaultHasher::new();
    case.hash(&mut h);
    self.distinct.insert(h.finish());
  }
  pub fn sample(&mut self, s: &str) {
    if self.samples.len() < 8 {
      self.samples.push(s.chars().take(600).collect());
    }
  }
  pub fn violation(&mut self, what: &str, case_line: &str, impl_obs: &str, model_obs: &str, contradicts: &str) {
    self.violation_c(what, case_line, impl_obs, model_obs, contradicts, "");
  }
  /// violation with a classification string (matched against known_findings.json by bin/check);
  /// at most 20 are kept per class so that a new class is never hidden by a frequent one
  pub fn violation_c(&mut self, what: &str, case_line: &str, impl_obs: &str, model_obs: &str, contradicts: &str, class: &str) {
    let n = self.violations.iter().filter(|v| v.class == class).count();
    *self.dist.entry(format!("violation-class:{}", if class.is_empty() { "(unclassified)" } else { class })).or_insert(0) += 1;
    if n < 20 {
      self.violations.push(Violation {
        class: class.to_string(),
        what: what.to_string(),
        case_line: case_line.to_string(),
        impl_obs: impl_obs.to_string(),
        model_obs: model_obs.to_string(),
        contradicts: contradicts.to_string(),
      });
    }
  }
  /// the implementation differs from the faithful model on a behaviour the property does not fix
  /// (bin/check reports it as a broken correspondence, "no-failing-input-found", unless a
  /// property-level violation is found in the same run)
  pub fn corr_break(&mut self, what: &str, case_line: &str, impl_obs: &str, model_obs: &str, correspondence: &str) {
    self.violation_c(what, case_line, impl_obs, model_obs, correspondence, &format!("CORR:{}", correspondence));
  }
  pub fn known(&mut self, id: &str, what: &str) {
    let e = self.known_hits.entry(id.to_string()).or_insert((0, what.to_string()));
    e.0 += 1;
  }
  pub fn to_json(&self) -> serde_json::Value {
    serde_json::json!({
      "evaluations": self.evaluations,
      "distinct_nontrivial": self.distinct.len(),
      "rule": self.rule,
      "samples": self.samples,
      "distribution": self.dist,
      "exhaustive": self.exhaustive,
      "notes": self.notes,
      "known_findings_hit": self.known_hits.iter().map(|(k, v)| serde_json::json!({"id": k, "count": v.0, "what": v.1})).collect::<Vec<_>>(),
      "violations": self.violations.iter().map(|v| serde_json::json!({
        "class": v.class, "what": v.what, "case_line": v.case_line, "impl_obs": v.impl_obs, "model_obs": v.model_obs, "contradicts": v.contradicts
      })).collect::<Vec<_>>(),
    })
  }
}

pub struct Ctx {
  pub seed: u64,
  pub thorough: bool,
  pub replay: Option<String>,
}
impl Ctx {
  pub fn n(&self, quick: u64, thorough: u64) -> u64 {
    if self.thorough {
      thorough
    } else {
      quick
    }
  }
}
