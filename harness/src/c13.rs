//! C13 — the in-memory MOC store is a faithful, linearizable registry.
//! (a) sequential histories on the real global store vs the extracted slab/registry model
//!     (Store.exec; theorems C13_sequential_refinement, C13_handle_denotation_stable,
//!     C13_no_reissue_of_live_handle) with library results from the extracted operator models;
//!     real indices are related to model keys by a run-time bijection (exact slab indices are
//!     not part of the property);
//! (b) concurrent histories: 2-8 threads on shared read-only operands; every result must be
//!     the library result on the operands' values, live handles must be pairwise distinct,
//!     no error mentions a poisoned lock, and a watchdog detects deadlock.
use crate::common::*;
use crate::st::*;
use moc::qty::{Frequency, Hpx, Time};
use moc::storage::u64idx::common::MocQType;
use moc::storage::u64idx::U64MocStore;
use std::collections::{HashMap, HashSet};
use std::sync::mpsc;

#[derive(Clone, Debug)]
enum Call {
  Add(Moc),
  AddSt(StMoc),
  Copy(usize),
  Drop(usize),
  Read(usize),
  Not(usize),
  Deg(usize, u8),
  Op2(&'static str, usize, usize),
  OpN(&'static str, Vec<usize>),
  /// multi-result call (split / split_indirect): checked on the spot, its results are dropped at once
  Split(usize, bool),
}
impl Call {
  fn creates(&self) -> bool {
    matches!(self, Call::Add(_) | Call::AddSt(_) | Call::Not(_) | Call::Deg(..) | Call::Op2(..) | Call::OpN(..))
  }
  fn wire(&self) -> String {
    match self {
      Call::Add(m) => format!("ADD {} {}", m.q.c(), m.dr()),
      Call::AddSt(s) => format!("ADDST {} {} {}", s.dt, s.ds, s.wire()),
      Call::Copy(h) => format!("COPY #{}", h),
      Call::Drop(h) => format!("DROP #{}", h),
      Call::Read(h) => format!("READ #{}", h),
      Call::Not(h) => format!("NOT #{}", h),
      Call::Deg(h, d) => format!("DEG #{} {}", h, d),
      Call::Op2(o, a, b) => format!("OP2 {} #{} #{}", o, a, b),
      Call::OpN(o, v) => format!("OPN {} {} {}", o, v.len(), v.iter().map(|h| format!("#{}", h)).collect::<Vec<_>>().join(" ")),
      // for the reference registry a batch of transient results is a read of the operand
      // (Store.transient_result_neutral): the expected answer carries the operand's value
      Call::Split(h, _) => format!("READ #{}", h),
    }
  }
}

fn store() -> &'static U64MocStore {
  U64MocStore::get_global_store()
}

fn read_value(i: usize) -> Result<String, String> {
  let st = store();
  match st.get_qty_type(i)? {
    MocQType::Space => Ok(format!("V s {} {}", st.get_smoc_depth(i)?, ranges_str(&st.to_ranges(i)?.iter().map(|r| (r.start, r.end)).collect::<Vec<_>>()))),
    MocQType::Time => Ok(format!("V t {} {}", st.get_tmoc_depth(i)?, ranges_str(&st.to_ranges(i)?.iter().map(|r| (r.start, r.end)).collect::<Vec<_>>()))),
    MocQType::Frequency => Ok(format!("V f {} {}", st.get_fmoc_depth(i)?, ranges_str(&st.to_ranges(i)?.iter().map(|r| (r.start, r.end)).collect::<Vec<_>>()))),
    MocQType::TimeSpace => {
      let (dt, ds) = st.get_stmoc_depths(i)?;
      let n = st.get_n_ranges(i).unwrap_or(0);
      let _ = n;
      Ok(format!("V st {} {}", dt, ds))
    }
  }
}

fn add_moc(m: &Moc) -> Result<usize, String> {
  match m.q {
    Q::S => store().insert_smoc(rm::<Hpx<u64>>(m.d, &m.r)),
    Q::T => store().insert_tmoc(rm::<Time<u64>>(m.d, &m.r)),
    Q::F => store().insert_fmoc(rm::<Frequency<u64>>(m.d, &m.r)),
  }
}

/// run one call on the real store; `real` maps creation index -> real index (None when the creation failed)
fn exec_real(c: &Call, real: &[Option<usize>]) -> Result<Result<String, String>, String> {
  // unknown creation indices are mapped to an index that was never handed out
  let idx = |h: usize| -> usize { real.get(h).copied().flatten().unwrap_or(1_000_000 + h) };
  catch(|| -> Result<String, String> {
    let st = store();
    match c {
      Call::Add(m) => add_moc(m).map(|i| format!("K{}", i)),
      Call::AddSt(s) => st.insert_stmoc(to_moc2(s)).map(|i| format!("K{}", i)),
      Call::Copy(h) => st.copy(idx(*h)).map(|_| "OK".to_string()),
      Call::Drop(h) => st.drop(idx(*h)).map(|_| "OK".to_string()),
      Call::Read(h) | Call::Split(h, _) => {
        // a read also asks the store whether the MOC equals itself: true for a live index, an error for a dead one
        let i = idx(*h);
        let v = read_value(i);
        let e = st.eq(i, i);
        // every read-only accessor must refuse a dead index
        if v.is_err() {
          let probes: Vec<(&str, bool)> = vec![
            ("is_empty", st.is_empty(i).is_ok()),
            ("get_n_ranges", st.get_n_ranges(i).is_ok()),
            ("get_ranges_sum", st.get_ranges_sum(i).is_ok()),
            ("get_coverage_percentage", st.get_coverage_percentage(i).is_ok()),
            ("get_1st_axis_min", st.get_1st_axis_min(i).is_ok()),
            ("get_1st_axis_max", st.get_1st_axis_max(i).is_ok()),
            ("to_ascii_str", st.to_ascii_str(i, None).is_ok()),
            ("to_json_str", st.to_json_str(i, None).is_ok()),
            ("to_ranges", st.to_ranges(i).is_ok()),
            ("get_smoc_depth", st.get_smoc_depth(i).is_ok()),
            ("get_stmoc_depths", st.get_stmoc_depths(i).is_ok()),
          ];
          if let Some((name, _)) = probes.iter().find(|(_, ok)| *ok) {
            return Ok(format!("DEAD-INDEX-ACCEPTED by {}", name));
          }
        }
        match (&v, &e) {
          (Ok(_), Ok(true)) | (Err(_), Err(_)) => v,
          _ => Ok(format!("EQ-INCONSISTENT read={:?} eq(i,i)={:?}", v, e)),
        }
      }
      Call::Not(h) => st.not(idx(*h)).map(|i| format!("K{}", i)),
      Call::Deg(h, d) => st.degrade(idx(*h), *d).map(|i| format!("K{}", i)),
      Call::Op2(o, a, b) => match *o {
        "and" => st.and(idx(*a), idx(*b)),
        "or" => st.or(idx(*a), idx(*b)),
        "xor" => st.xor(idx(*a), idx(*b)),
        "minus" => st.minus(idx(*a), idx(*b)),
        "tfold" => st.time_fold(idx(*a), idx(*b)),
        _ => st.space_fold(idx(*a), idx(*b)),
      }
      .map(|i| format!("K{}", i)),
      Call::OpN(o, v) => {
        let ids: Vec<usize> = v.iter().map(|h| idx(*h)).collect();
        match *o {
          "and" => st.multi_intersection(&ids),
          "or" => st.multi_union(&ids),
          _ => st.multi_symmetric_difference(&ids),
        }
        .map(|i| format!("K{}", i))
      }
    }
  })
}

fn gen_history(rng: &mut Rng, len: usize) -> Vec<Call> {
  let mut h: Vec<Call> = Vec::new();
  let mut ncreated = 0usize; // creation indices handed so far (successful or not)
  let dpool = [0u8, 2, 5];
  let base: Vec<Moc> = [Q::S, Q::T, Q::F].iter().map(|q| gen_moc(rng, *q, 64, 3, 4)).collect();
  for _ in 0..len {
    let pick = |rng: &mut Rng, n: usize| -> usize { if n == 0 { 0 } else { rng.below(n as u64) as usize } };
    let c = if ncreated < 3 || rng.chance(1, 5) {
      if rng.chance(1, 6) {
        Call::AddSt(gen_stmoc(rng, 3, 1, 8, 0, 3, 2))
      } else {
        let q = ALL_Q[rng.below(3) as usize];
        let d = *rng.pick(&dpool);
        Call::Add(gen_related(rng, &base[match q { Q::S => 0, Q::T => 1, Q::F => 2 }], d, 4))
      }
    } else {
      match rng.below(15) {
        0 | 1 => Call::Copy(pick(rng, ncreated)),
        2 | 3 | 4 => Call::Drop(pick(rng, ncreated)),
        5 | 6 => Call::Read(pick(rng, ncreated)),
        7 => Call::Not(pick(rng, ncreated)),
        8 => Call::Deg(pick(rng, ncreated), *rng.pick(&dpool)),
        9 | 10 => Call::Op2(*rng.pick(&["and", "or", "xor", "minus"]), pick(rng, ncreated), pick(rng, ncreated)),
        11 => Call::Op2(*rng.pick(&["tfold", "sfold"]), pick(rng, ncreated), pick(rng, ncreated)),
        12 => {
          let k = rng.range(0, 6) as usize;
          Call::OpN(*rng.pick(&["and", "or", "xor"]), (0..k).map(|_| pick(rng, ncreated)).collect())
        }
        13 => Call::Split(pick(rng, ncreated), rng.chance(1, 2)),
        _ => Call::Read(ncreated + 5), // a handle that was never handed out
      }
    };
    if c.creates() {
      ncreated += 1;
    }
    h.push(c);
  }
  // copies up to and beyond the 255 limit on one handle, in a few histories
  if rng.chance(1, 12) && ncreated > 0 {
    let t = rng.below(ncreated as u64) as usize;
    for _ in 0..257 {
      h.push(Call::Copy(t));
    }
    h.push(Call::Read(t));
  }
  h
}


/// multi-result call: `split` / `split_indirect` of the S-MOC behind creation index `hh`.
/// `e` is the reference registry's answer to a read of that handle.  Checked: success exactly when
/// the handle denotes an S-MOC; the returned indices are pairwise distinct and none was live
/// (Store.batch_results_distinct, C13_no_reissue_of_live_handle); each denotes the corresponding
/// component computed by the library on the operand's value; the operand still reads the same;
/// dropping every result succeeds once, and once only.  The results are dropped, so the rest of
/// the history runs on an unchanged registry (Store.transient_result_neutral).
fn check_split(hh: usize, indirect: bool, e: &str, real: &[Option<usize>], live_real: &HashMap<usize, i64>) -> Result<(), (String, String)> {
  use moc::moc::range::RangeMOC;
  use moc::moc::{CellMOCIntoIterator, CellMOCIterator, RangeMOCIterator};
  let st = store();
  let ridx = real.get(hh).copied().flatten().unwrap_or(1_000_000 + hh);
  let name = if indirect { "split_indirect" } else { "split" };
  let got = catch(|| if indirect { st.split_indirect(ridx) } else { st.split(ridx) }).map_err(|p| (format!("{} panics", name), p))?;
  let t: Vec<&str> = e.split_whitespace().collect();
  let is_smoc = t.len() >= 4 && t[0] == "V" && t[1] == "s";
  let ids = match (got, is_smoc) {
    (Err(_), false) => return Ok(()),
    (Err(m), true) => return Err((format!("{} fails on a live S-MOC", name), m)),
    (Ok(ids), false) => {
      for i in &ids {
        let _ = st.drop(*i);
      }
      return Err((format!("{} succeeds on a handle that does not denote an S-MOC", name), format!("{:?}", ids)));
    }
    (Ok(ids), true) => ids,
  };
  let cleanup = |ids: &[usize]| {
    let mut seen = HashSet::new();
    for i in ids {
      if seen.insert(*i) && !live_real.contains_key(i) {
        let _ = st.drop(*i);
      }
    }
  };
  let mut seen = HashSet::new();
  for i in &ids {
    if !seen.insert(*i) {
      cleanup(&ids);
      return Err((format!("{} returns the same index twice", name), format!("{:?}", ids)));
    }
    if live_real.contains_key(i) {
      cleanup(&ids);
      return Err((format!("{} hands out an index that is still live", name), format!("{:?} (live: {:?})", ids, live_real.keys().collect::<Vec<_>>())));
    }
  }
  // expected components: the library function on the operand's value
  let d: u8 = t[2].parse().unwrap_or(0);
  let n: usize = t[3].parse().unwrap_or(0);
  let r: Vec<(u64, u64)> = (0..n).map(|k| (t[4 + 2 * k].parse().unwrap(), t[5 + 2 * k].parse().unwrap())).collect();
  let m: RangeMOC<u64, Hpx<u64>> = rm::<Hpx<u64>>(d, &r);
  let comps: Vec<Vec<(u64, u64)>> = m.split_into_joint_mocs(indirect).into_iter().map(|c| c.into_cell_moc_iter().ranges().map(|x| (x.start, x.end)).collect()).collect();
  if comps.len() != ids.len() {
    cleanup(&ids);
    return Err((format!("{} returns {} indices for {} components", name, ids.len(), comps.len()), format!("{:?}", ids)));
  }
  for (k, i) in ids.iter().enumerate() {
    let v: Result<Vec<(u64, u64)>, String> = st.to_ranges(*i).map(|v| v.iter().map(|x| (x.start, x.end)).collect());
    if v.as_ref().ok() != Some(&comps[k]) {
      cleanup(&ids);
      return Err((format!("result #{} of {} does not denote component #{} of the operand", k, name, k), format!("index {} reads {:?}, expected {:?}", i, v, comps[k])));
    }
  }
  match read_value(ridx) {
    Ok(v) if v == e => {}
    other => {
      cleanup(&ids);
      return Err((format!("the operand of {} no longer reads the same", name), format!("{:?}", other)));
    }
  }
  // dropped in REVERSE order of creation: the slab's LIFO free list is then exactly as before the
  // call (slots appended at the end are re-used in the same order as fresh slots would be), so the
  // reference registry - for which the call was a read - keeps allocating the same slots, which
  // matters for the calls of the history that use a dangling (dropped, possibly re-used) handle
  for i in ids.iter().rev() {
    if let Err(m) = st.drop(*i) {
      return Err((format!("dropping a result of {} fails", name), m));
    }
  }
  if let Some(i) = ids.first() {
    // (the first result is at the top of the free list: a second drop must be refused)
    if st.drop(*i).is_ok() && !live_real.contains_key(i) {
      return Err((format!("a result of {} can be dropped twice", name), format!("{}", i)));
    }
  }
  Ok(())
}

fn sequential_history(rep: &mut Report, orc: &mut Oracle, rng: &mut Rng, len: usize) {
  let h = gen_history(rng, len);
  let line = format!("HIST {} {}", h.len(), h.iter().map(|c| c.wire()).collect::<Vec<_>>().join(" "));
  let ans = orc.ask(&line);
  let exp: Vec<String> = ans.trim_start_matches("OK").split(';').map(|s| s.trim().to_string()).filter(|s| !s.is_empty()).collect();
  if exp.len() != h.len() {
    rep.violation("oracle-error", &line, "", &ans, "internal");
    return;
  }
  let mut real: Vec<Option<usize>> = Vec::new(); // creation index -> real index
  let mut live_real: HashMap<usize, i64> = HashMap::new(); // real index -> expected count (from the model's results)
  let mut ok = true;
  for (i, c) in h.iter().enumerate() {
    rep.evaluations += 1;
    let e = &exp[i];
    if let Call::Split(hh, indirect) = c {
      rep.count("multi-result-call");
      if let Err((what, obs)) = check_split(*hh, *indirect, e, &real, &live_real) {
        ok = false;
        rep.violation(&format!("store call #{} ({} #{}) {}", i, if *indirect { "split_indirect" } else { "split" }, hh, what), &format!("{} # first differing call index {} (multi-result call on #{})", line, i, hh), &obs, e, "C13_sequential_refinement + C13_no_reissue_of_live_handle (batch of transient results)");
        break;
      }
      continue;
    }
    let got = exec_real(c, &real);
    let mut mismatch = |what: &str, g: String, rep: &mut Report| {
      rep.violation(&format!("store call #{} ({}) {}", i, c.wire().chars().take(60).collect::<String>(), what), &format!("{} # first differing call index {}", line, i), &g, e, "C13_sequential_refinement");
    };
    match got {
      Err(p) => {
        ok = false;
        mismatch("panics", p, rep);
        if c.creates() {
          real.push(None);
        }
      }
      Ok(Ok(g)) => {
        if c.creates() {
          let ridx: usize = g[1..].parse().unwrap_or(usize::MAX);
          if !e.starts_with('K') {
            ok = false;
            mismatch("succeeds where the reference registry returns an error", g.clone(), rep);
            real.push(Some(ridx));
          } else {
            if live_real.contains_key(&ridx) {
              ok = false;
              mismatch("hands out an index that is still live", g.clone(), rep);
            }
            live_real.insert(ridx, 1);
            real.push(Some(ridx));
          }
        } else if g.starts_with('V') {
          // ST values: kind and depths only
          let en = if e.starts_with("V st") { e.split_whitespace().take(4).collect::<Vec<_>>().join(" ") } else { e.clone() };
          if g != en {
            ok = false;
            mismatch("returns another value than the one the handle denotes", g.clone(), rep);
          }
        } else if g != *e {
          ok = false;
          mismatch("succeeds where the reference registry returns an error", g.clone(), rep);
        } else {
          // bookkeeping of counts for the freshness check
          let idx = |hh: usize| real.get(hh).copied().flatten();
          match c {
            Call::Copy(hh) => {
              if let Some(r) = idx(*hh) {
                *live_real.entry(r).or_insert(0) += 1;
              }
            }
            Call::Drop(hh) => {
              if let Some(r) = idx(*hh) {
                let n = live_real.entry(r).or_insert(1);
                *n -= 1;
                if *n <= 0 {
                  live_real.remove(&r);
                }
              }
            }
            _ => {}
          }
        }
      }
      Ok(Err(msg)) => {
        if c.creates() {
          real.push(None);
        }
        if msg.contains("poison") {
          ok = false;
          mismatch("reports a poisoned lock", msg.clone(), rep);
        } else if e != "ERR" {
          ok = false;
          mismatch("returns an error where the reference registry succeeds", msg, rep);
        }
      }
    }
    if !ok {
      break;
    }
  }
  // clean-up: drop everything that is still live
  for (r, n) in live_real {
    for _ in 0..n {
      let _ = store().drop(r);
    }
  }
  rep.count("sequential-history");
  if h.len() >= 5 {
    rep.nontrivial(&line);
  }
  rep.sample(&line.chars().take(500).collect::<String>());
}

// ------------------------------------------------------------------ concurrent
fn expected_op(orc: &mut Oracle, line: &str) -> Option<(u8, Vec<(u64, u64)>)> {
  let a = orc.ask(line);
  let mut t = a.split_whitespace();
  if t.next()? != "OK" {
    return None;
  }
  let d: u8 = t.next()?.parse().ok()?;
  let n: usize = t.next()?.parse().ok()?;
  let mut r = Vec::new();
  for _ in 0..n {
    r.push((t.next()?.parse().ok()?, t.next()?.parse().ok()?));
  }
  Some((d, r))
}

/// returns false when the store stopped answering (dead-lock): no further store call may be made
fn concurrent_history(rep: &mut Report, orc: &mut Oracle, rng: &mut Rng) -> bool {
  // shared read-only operands
  let n_shared = 4usize;
  let q = ALL_Q[rng.below(3) as usize];
  let basem = gen_moc(rng, q, 64, 4, 5);
  let shared: Vec<Moc> = (0..n_shared).map(|_| { let d = rng.range(0, 6) as u8; gen_related(rng, &basem, d, 5) }).collect();
  let shared_idx: Vec<usize> = shared.iter().map(|m| add_moc(m).unwrap()).collect();
  let nthreads = rng.range(2, 8) as usize;
  let ncalls = rng.range(5, 40) as usize;
  // per-thread scripts: (op kind, operand a, operand b)
  let scripts: Vec<Vec<(u8, usize, usize)>> = (0..nthreads).map(|_| (0..ncalls).map(|_| (rng.below(7) as u8, rng.below(n_shared as u64) as usize, rng.below(n_shared as u64) as usize)).collect()).collect();
  let (tx, rx) = mpsc::channel();
  let mut handles = Vec::new();
  for (tid, script) in scripts.iter().cloned().enumerate() {
    let tx = tx.clone();
    let sidx = shared_idx.clone();
    handles.push(std::thread::spawn(move || {
      let st = store();
      let mut out: Vec<(u8, usize, usize, Result<usize, String>, Option<String>)> = Vec::new();
      let mut mine: Vec<usize> = Vec::new();
      for (k, a, b) in script {
        let r: Result<usize, String> = match k {
          0 => st.and(sidx[a], sidx[b]),
          1 => st.or(sidx[a], sidx[b]),
          2 => st.xor(sidx[a], sidx[b]),
          3 => st.minus(sidx[a], sidx[b]),
          4 => st.not(sidx[a]),
          5 => {
            // copy then drop a shared operand: net effect zero, never reaches count 0
            st.copy(sidx[a]).and_then(|_| st.drop(sidx[a])).map(|_| usize::MAX)
          }
          _ => {
            // drop one of this thread's own results (then it must be dead)
            if let Some(i) = mine.pop() {
              st.drop(i).map(|_| usize::MAX)
            } else {
              Ok(usize::MAX)
            }
          }
        };
        let val = match &r {
          Ok(i) if *i != usize::MAX => {
            mine.push(*i);
            read_value(*i).ok()
          }
          _ => None,
        };
        out.push((k, a, b, r, val));
      }
      let _ = tx.send((tid, out, mine));
    }));
  }
  drop(tx);
  let mut results = Vec::new();
  let deadline = std::time::Duration::from_secs(25);
  for _ in 0..nthreads {
    match rx.recv_timeout(deadline) {
      Ok(x) => results.push(x),
      Err(_) => {
        rep.violation("concurrent store calls do not complete (deadlock or livelock suspected)", &format!("CONC q={} threads={} calls={} shared={} scripts={:?}", q.c(), nthreads, ncalls, shared.iter().map(|m| m.dr()).collect::<Vec<_>>().join(" | "), scripts).chars().take(3000).collect::<String>(), "no answer from the store for 25 s", "every call returns", "C13 (no sequence of calls deadlocks the store)");
        return false;
      }
    }
  }
  for h in handles {
    let _ = h.join();
  }
  // checks
  let mut all_live: Vec<usize> = shared_idx.clone();
  let case = format!("CONC q={} threads={} calls={} shared={}", q.c(), nthreads, ncalls, shared.iter().map(|m| m.dr()).collect::<Vec<_>>().join(" | "));
  for (tid, out, mine) in &results {
    for (k, a, b, r, val) in out {
      rep.evaluations += 1;
      match r {
        Err(msg) => {
          rep.violation(&format!("concurrent store call fails: {}", msg), &format!("{} # thread {} op {} {} {}", case, tid, k, a, b), msg, "", if msg.contains("poison") { "C13 (no poisoning)" } else { "C13_two_phase_calls_linearize_at_their_write_phase" });
        }
        Ok(i) if *i != usize::MAX => {
          let line = match k {
            0 => format!("OP2 and {} 64 {} {}", q.c(), shared[*a].dr(), shared[*b].dr()),
            1 => format!("OP2 or {} 64 {} {}", q.c(), shared[*a].dr(), shared[*b].dr()),
            2 => format!("OP2 xor {} 64 {} {}", q.c(), shared[*a].dr(), shared[*b].dr()),
            3 => format!("OP2 minus {} 64 {} {}", q.c(), shared[*a].dr(), shared[*b].dr()),
            _ => format!("NOT {} 64 {}", q.c(), shared[*a].dr()),
          };
          if let Some((d, rr)) = expected_op(orc, &line) {
            let e = format!("V {} {} {}", q.c(), d, ranges_str(&rr));
            if val.as_deref() != Some(e.as_str()) {
              rep.violation("a concurrent operation result is not the library result on the operands' values", &format!("{} # thread {} {}", case, tid, line), &format!("{:?}", val), &e, "C13_two_phase_calls_linearize_at_their_write_phase + C13_handle_denotation_stable");
            }
          }
        }
        _ => {}
      }
    }
    all_live.extend(mine.iter().cloned());
  }
  let set: HashSet<usize> = all_live.iter().cloned().collect();
  if set.len() != all_live.len() {
    rep.violation("two live handles are equal (an index was handed out twice while live)", &case, &format!("{:?}", all_live), "", "C13_no_reissue_of_live_handle");
  }
  // the shared operands still denote their values
  for (m, i) in shared.iter().zip(shared_idx.iter()) {
    let e = format!("V {} {} {}", q.c(), m.d, ranges_str(&m.r));
    if read_value(*i).ok().as_deref() != Some(e.as_str()) {
      rep.violation("a shared operand no longer denotes its MOC after the concurrent run", &case, &format!("{:?}", read_value(*i)), &e, "C13_handle_denotation_stable");
    }
  }
  for i in all_live {
    let _ = store().drop(i);
  }
  rep.count(&format!("concurrent-history:threads={}", nthreads));
  rep.nontrivial(&case);
  rep.sample(&case.chars().take(300).collect::<String>());
  true
}

pub fn run(ctx: &Ctx) -> Report {
  let mut rep = Report::default();
  let mut orc = Oracle::spawn();
  let mut rng = Rng::new(ctx.seed);
  rep.rule = "(a) sequential histories of 20-200 calls (add of S/T/F/ST MOCs, copy, drop, read, complement, degrade, and/or/xor/minus, time fold, space fold, n-ary and/or/xor over 0-6 operands, calls on never-issued and on dead handles, ill-kinded operand pairs, 257 copies of one handle) on the real global store vs the extracted slab/registry model with a run-time handle bijection; (b) concurrent histories: 2-8 threads x 5-40 calls on 4 shared read-only operands (binary ops, complement, copy+drop of a shared operand, drop of own results), results compared with the extracted operator models, pairwise distinct live handles, 25 s watchdog, no poisoned-lock error. non-trivial = history of >= 5 calls; distinct = distinct history".to_string();
  let nseq = ctx.n(400, 15_000);
  for _ in 0..nseq {
    let len = rng.range(20, 200) as usize;
    sequential_history(&mut rep, &mut orc, &mut rng, len);
  }
  let nconc = ctx.n(150, 6_000);
  for _ in 0..nconc {
    if !concurrent_history(&mut rep, &mut orc, &mut rng) {
      rep.notes.push("the store stopped answering: the run was cut short".to_string());
      break;
    }
  }
  rep.notes.push(format!("oracle calls: {}", orc.calls));
  rep
}
