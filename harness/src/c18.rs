//! C18 — physical quantities map to MOC indices monotonically and invertibly.
//! Implementation: Frequency::<T>::{freq2hash, hash2freq}, RangeMOC::from_freq_in_hz,
//! from_freq_ranges_in_hz, from_microsec_since_jd0, from_microsec_ranges_since_jd0 for the three
//! index widths, U64MocStore::{from_hz_values, from_hz_ranges, to_hz_ranges}.
//! Oracle: extracted Freq.{freq2hash, hash2freq, from_u64_idx, moc_of_values, moc_of_ranges}
//! (theorems C18_*).  The doubles are handled as bit patterns on both sides.
use crate::common::*;
use moc::idx::Idx;
use moc::moc::range::RangeMOC;
use moc::qty::{Frequency, MocQty, Time};
use moc::storage::u64idx::U64MocStore;

const MANT: u64 = (1u64 << 52) - 1;
const MIN_BITS: u64 = 929u64 << 52;
const MAX_BITS: u64 = (1184u64 << 52) | MANT;

fn f2h_impl(w: u8, b: u64) -> Result<u64, String> {
  let f = f64::from_bits(b);
  catch(move || match w {
    16 => Frequency::<u16>::freq2hash(f) as u64,
    32 => Frequency::<u32>::freq2hash(f) as u64,
    _ => Frequency::<u64>::freq2hash(f),
  })
}
fn h2f_impl(h: u64) -> Result<u64, String> {
  catch(move || Frequency::<u64>::hash2freq(h).to_bits())
}

fn toks(ans: &str) -> Option<Vec<String>> {
  ans.strip_prefix("OK").map(|b| b.split_whitespace().map(|s| s.to_string()).collect())
}

fn patterns(rng: &mut Rng, thorough: bool) -> Vec<u64> {
  let mut v: Vec<u64> = Vec::new();
  let per = if thorough { 24 } else { 4 };
  for e in 0u64..2048 {
    let mut ms = vec![0u64, 1, MANT, MANT - 1, 1u64 << 51, (1u64 << 51) - 1];
    for _ in 0..per {
      ms.push(rng.next() & MANT);
    }
    // only the exponents around the interval get the full mantissa set; the others a few
    let near = (900..=1200).contains(&e);
    for (i, m) in ms.iter().enumerate() {
      if near || i < 3 {
        v.push((e << 52) | m);
      }
    }
  }
  // both bounds and their neighbours, special values, negative numbers
  for b in [MIN_BITS, MIN_BITS - 1, MIN_BITS + 1, MAX_BITS, MAX_BITS - 1, MAX_BITS + 1, 0, 1, f64::NAN.to_bits(), f64::INFINITY.to_bits(), f64::NEG_INFINITY.to_bits(), (-1.0f64).to_bits(), (1u64 << 63) | MIN_BITS, (1u64 << 63) | MAX_BITS, 1.0f64.to_bits(), 1.4e9f64.to_bits(), u64::MAX] {
    v.push(b);
  }
  v
}

fn check_hash(rep: &mut Report, orc: &mut Oracle, rng: &mut Rng, thorough: bool) {
  let pats = patterns(rng, thorough);
  for chunk in pats.chunks(512) {
    let line = format!("F2H {} {}", chunk.len(), chunk.iter().map(|b| b.to_string()).collect::<Vec<_>>().join(" "));
    let ans = orc.ask(&line);
    let t = match toks(&ans) {
      Some(t) if t.len() == chunk.len() => t,
      _ => {
        rep.violation("oracle-error", &line.chars().take(300).collect::<String>(), "", &ans.chars().take(200).collect::<String>(), "internal");
        return;
      }
    };
    let mut accepted: Vec<(u64, u64)> = Vec::new();
    for (b, exp) in chunk.iter().zip(t.iter()) {
      rep.evaluations += 1;
      let got = f2h_impl(64, *b);
      let case = format!("F2H 1 {}", b);
      match (&got, exp.as_str()) {
        (Err(_), "R") => rep.count("freq2hash:rejected"),
        (Ok(h), e) if e != "R" && e.parse::<u64>().ok() == Some(*h) => {
          rep.count("freq2hash:accepted");
          rep.nontrivial(&case);
          accepted.push((*b, *h));
        }
        _ => {
          rep.violation(&format!("freq2hash({:e}) (pattern {:#018x}) differs from the model", f64::from_bits(*b), b), &case, &format!("{:?}", got), exp, "C18_freq2hash_is_bias_translation / C18_accepted_iff_in_interval");
          continue;
        }
      }
      // narrower widths: the hash is the top bits of the 64-bit hash
      if let Ok(h) = got {
        for w in [16u8, 32] {
          rep.evaluations += 1;
          let gw = f2h_impl(w, *b);
          if gw != Ok(h >> (64 - w as u32)) {
            rep.violation(&format!("freq2hash at width {} is not the 64-bit hash narrowed", w), &case, &format!("{:?}", gw), &format!("{}", h >> (64 - w as u32)), "C18_moc_from_values_exact (from_u64_idx)");
          }
        }
      }
    }
    // inverse, bit for bit; monotonicity on neighbours; order of the floats = order of the patterns
    if !accepted.is_empty() {
      let line = format!("H2F {} {}", accepted.len(), accepted.iter().map(|(_, h)| h.to_string()).collect::<Vec<_>>().join(" "));
      let ans = orc.ask(&line);
      let t = toks(&ans).unwrap_or_default();
      for (i, (b, h)) in accepted.iter().enumerate() {
        rep.evaluations += 1;
        let back = h2f_impl(*h);
        if back != Ok(*b) || t.get(i).map(|s| s.as_str()) != Some(&b.to_string()) {
          rep.violation("hash2freq(freq2hash(f)) is not f bit for bit", &format!("F2H 1 {}", b), &format!("{:?}", back), &format!("{} (model: {:?})", b, t.get(i)), "C18_hash2freq_inverts_bit_for_bit");
        }
        if *b < MAX_BITS {
          rep.evaluations += 1;
          let h2 = f2h_impl(64, b + 1);
          let fo = f64::from_bits(*b) < f64::from_bits(b + 1);
          if !fo || !matches!(h2, Ok(x) if x > *h) {
            rep.violation("freq2hash is not strictly increasing between two neighbouring doubles", &format!("F2H 2 {} {}", b, b + 1), &format!("{} then {:?} (float order {})", h, h2, fo), "increasing", "C18_freq2hash_strictly_increasing / C18_pattern_order_is_value_order");
          }
        }
      }
    }
  }
  // hash2freq on arbitrary hashes (incl. the exclusive upper bound 2^60 and beyond)
  let mut hs: Vec<u64> = vec![0, 1, (1u64 << 60) - 1, 1u64 << 60, (1u64 << 60) + 1, 257u64 << 52, (257u64 << 52) - 1, 1u64 << 63, u64::MAX];
  for _ in 0..200 {
    hs.push(rng.next() >> rng.below(8));
  }
  let line = format!("H2F {} {}", hs.len(), hs.iter().map(|h| h.to_string()).collect::<Vec<_>>().join(" "));
  let ans = orc.ask(&line);
  let t = toks(&ans).unwrap_or_default();
  for (i, h) in hs.iter().enumerate() {
    rep.evaluations += 1;
    let got = h2f_impl(*h);
    let exp = t.get(i).cloned().unwrap_or_default();
    let ok = match &got {
      Ok(b) => exp == b.to_string(),
      Err(_) => exp == "R",
    };
    if !ok {
      rep.violation("hash2freq differs from the model", &format!("H2F 1 {}", h), &format!("{:?}", got), &exp, "C18_hash2freq_strictly_increasing / hash2freq_arith");
    }
  }
}

/// values clustered on cell boundaries of depth d in the 64-bit frame
fn gen_values(rng: &mut Rng, q: Q, d: u8, n: usize, top: u64) -> Vec<u64> {
  let sh = q.shift(64, d);
  let ncells = top >> sh; // number of depth-d cells below `top`
  let mut v = Vec::new();
  let base = match rng.below(3) {
    0 => 0,
    1 => ncells.saturating_sub(4),
    _ => rng.below(ncells.max(1)),
  };
  for _ in 0..n {
    let c = (base + rng.below(4)).min(ncells.saturating_sub(1));
    let lo = c << sh;
    let hi = lo + ((1u64 << sh) - 1);
    let x = match rng.below(6) {
      0 => lo,
      1 => hi,
      2 => lo + 1.min(hi - lo),
      3 => hi - 1.min(hi - lo),
      _ => lo + rng.below(hi - lo + 1),
    };
    v.push(x.min(top - 1));
  }
  v
}

fn moc_obs<T: Idx, QQ: MocQty<T>>(q: Q, m: &RangeMOC<T, QQ>) -> String {
  format!("OK {}", from_range_moc(q, m).dr())
}

fn build_values(q: Q, w: u8, d: u8, hs: &[u64], cap: Option<usize>) -> Result<String, String> {
  let hs = hs.to_vec();
  catch(move || match (q, w) {
    (Q::T, 16) => moc_obs(q, &RangeMOC::<u16, Time<u16>>::from_microsec_since_jd0(d, hs.into_iter(), cap)),
    (Q::T, 32) => moc_obs(q, &RangeMOC::<u32, Time<u32>>::from_microsec_since_jd0(d, hs.into_iter(), cap)),
    (Q::T, _) => moc_obs(q, &RangeMOC::<u64, Time<u64>>::from_microsec_since_jd0(d, hs.into_iter(), cap)),
    (_, 16) => moc_obs(q, &RangeMOC::<u16, Frequency<u16>>::from_freq_in_hz(d, hs.into_iter().map(|h| f64::from_bits(h + MIN_BITS)), cap)),
    (_, 32) => moc_obs(q, &RangeMOC::<u32, Frequency<u32>>::from_freq_in_hz(d, hs.into_iter().map(|h| f64::from_bits(h + MIN_BITS)), cap)),
    (_, _) => moc_obs(q, &RangeMOC::<u64, Frequency<u64>>::from_freq_in_hz(d, hs.into_iter().map(|h| f64::from_bits(h + MIN_BITS)), cap)),
  })
}
fn build_ranges(q: Q, w: u8, d: u8, rs: &[(u64, u64)], cap: Option<usize>) -> Result<String, String> {
  let rs = rs.to_vec();
  let fr = |(a, b): (u64, u64)| f64::from_bits(a + MIN_BITS)..f64::from_bits(b + MIN_BITS);
  catch(move || match (q, w) {
    (Q::T, 16) => moc_obs(q, &RangeMOC::<u16, Time<u16>>::from_microsec_ranges_since_jd0(d, rs.into_iter().map(|(a, b)| a..b), cap)),
    (Q::T, 32) => moc_obs(q, &RangeMOC::<u32, Time<u32>>::from_microsec_ranges_since_jd0(d, rs.into_iter().map(|(a, b)| a..b), cap)),
    (Q::T, _) => moc_obs(q, &RangeMOC::<u64, Time<u64>>::from_microsec_ranges_since_jd0(d, rs.into_iter().map(|(a, b)| a..b), cap)),
    (_, 16) => moc_obs(q, &RangeMOC::<u16, Frequency<u16>>::from_freq_ranges_in_hz(d, rs.into_iter().map(fr), cap)),
    (_, 32) => moc_obs(q, &RangeMOC::<u32, Frequency<u32>>::from_freq_ranges_in_hz(d, rs.into_iter().map(fr), cap)),
    (_, _) => moc_obs(q, &RangeMOC::<u64, Frequency<u64>>::from_freq_ranges_in_hz(d, rs.into_iter().map(fr), cap)),
  })
}

fn check_builders(rep: &mut Report, orc: &mut Oracle, rng: &mut Rng, n: u64) {
  let store = U64MocStore::get_global_store();
  for _ in 0..n {
    let q = if rng.chance(1, 2) { Q::T } else { Q::F };
    let w = *rng.pick(&ALL_W);
    let d = match rng.below(4) {
      0 => q.max_depth(w),
      1 => 0,
      _ => rng.range(0, q.max_depth(w) as u64) as u8,
    };
    // the property's domain: microseconds below 2^62; frequencies = every accepted double (hash below 2^60)
    let top: u64 = if q == Q::T { 1u64 << 62 } else { 1u64 << 60 };
    let nv = rng.range(0, 6) as usize;
    let cap = if rng.chance(1, 2) { None } else { Some(rng.range(1, 4) as usize) };
    // ---- values
    let hs = gen_values(rng, q, d, nv, top);
    let line = format!("MOCV {} {} {} {} {}", q.c(), w, d, hs.len(), hs.iter().map(|h| h.to_string()).collect::<Vec<_>>().join(" "));
    let exp = orc.ask(&line);
    let got = build_values(q, w, d, &hs, cap);
    rep.evaluations += 1;
    rep.count(&format!("values:{}{}", q.c(), w));
    if !hs.is_empty() {
      rep.nontrivial(&line);
    }
    if got.as_deref() != Ok(exp.as_str()) {
      rep.violation(&format!("{} does not contain exactly the depth-{} cells of the values (capacity {:?})", if q == Q::T { "from_microsec_since_jd0" } else { "from_freq_in_hz" }, d, cap), &line, &format!("{:?}", got), &exp, "C18_moc_from_values_exact");
    }
    // ---- ranges (non-empty in the 64-bit frame; some end exactly where they start + 1)
    let mut rs: Vec<(u64, u64)> = Vec::new();
    for _ in 0..rng.range(0, 4) {
      let v = gen_values(rng, q, d, 2, top);
      let (a, mut b) = (v[0].min(v[1]), v[0].max(v[1]));
      if rng.chance(1, 4) {
        b = a; // one value wide
      }
      // exclusive upper bound; for frequencies it must itself be an accepted double
      let b = (b + 1).min(top - if q == Q::F { 1 } else { 0 });
      if a < b {
        rs.push((a, b));
      }
    }
    let line = format!("MOCR {} {} {} {}", q.c(), w, d, ranges_str(&rs));
    let exp = orc.ask(&line);
    let got = build_ranges(q, w, d, &rs, cap);
    rep.evaluations += 1;
    rep.count(&format!("ranges:{}{}", q.c(), w));
    if !rs.is_empty() {
      rep.nontrivial(&line);
      rep.sample(&line);
    }
    if got.as_deref() != Ok(exp.as_str()) {
      rep.violation(&format!("{} does not contain exactly the depth-{} cells meeting the ranges (capacity {:?})", if q == Q::T { "from_microsec_ranges_since_jd0" } else { "from_freq_ranges_in_hz" }, d, cap), &line, &format!("{:?}", got), &exp, "C18_moc_from_ranges_exact");
    }
    // ---- store front-end (64 bits): from_hz_values / from_hz_ranges / to_hz_ranges enclose the values
    if q == Q::F && w == 64 {
      let hs2 = hs.clone();
      let r = catch(|| {
        let id = store.from_hz_values(d, hs2.iter().map(|h| f64::from_bits(h + MIN_BITS)))?;
        let hz = store.to_hz_ranges(id);
        let rr = store.to_ranges(id);
        let _ = store.drop(id);
        Ok::<_, String>((hz?, rr?))
      });
      rep.evaluations += 1;
      match r {
        Ok(Ok((hz, rr))) => {
          let exp_moc = orc.ask(&format!("MOCV f 64 {} {} {}", d, hs.len(), hs.iter().map(|h| h.to_string()).collect::<Vec<_>>().join(" ")));
          let got_moc = format!("OK {} {}", d, ranges_str(&rr.iter().map(|r| (r.start, r.end)).collect::<Vec<_>>()));
          let bounds: Vec<u64> = rr.iter().flat_map(|r| [r.start, r.end]).collect();
          let hb = toks(&orc.ask(&format!("H2F {} {}", bounds.len(), bounds.iter().map(|h| h.to_string()).collect::<Vec<_>>().join(" ")))).unwrap_or_default();
          let hzb: Vec<String> = hz.iter().flat_map(|r| [r.start.to_bits().to_string(), r.end.to_bits().to_string()]).collect();
          let enclosed = hs.iter().all(|h| {
            let f = f64::from_bits(h + MIN_BITS);
            hz.iter().any(|r| r.start <= f && f < r.end)
          });
          if got_moc != exp_moc || hb != hzb || !enclosed {
            rep.violation("U64MocStore::from_hz_values / to_hz_ranges: the hertz ranges do not enclose the values or differ from the model", &line, &format!("{} hz {:?}", got_moc, hzb), &format!("{} hz {:?}", exp_moc, hb), "C18_hz_ranges_enclose");
          }
        }
        other => rep.violation("U64MocStore::from_hz_values / to_hz_ranges fails", &line, &format!("{:?}", other), "Ok", "C18_hz_ranges_enclose"),
      }
      let rs2 = rs.clone();
      let r = catch(|| {
        let id = store.from_hz_ranges(d, rs2.iter().map(|(a, b)| f64::from_bits(a + MIN_BITS)..f64::from_bits(b + MIN_BITS)))?;
        let rr = store.to_ranges(id);
        let _ = store.drop(id);
        rr
      });
      rep.evaluations += 1;
      let got_moc = match r {
        Ok(Ok(rr)) => format!("OK {} {}", d, ranges_str(&rr.iter().map(|r| (r.start, r.end)).collect::<Vec<_>>())),
        other => format!("{:?}", other),
      };
      if got_moc != exp {
        rep.violation("U64MocStore::from_hz_ranges differs from the model", &line, &got_moc, &exp, "C18_moc_from_ranges_exact");
      }
    }
  }
}

/// values outside the accepted interval are rejected by every entry point (never wrapped into a cell)
fn check_rejections(rep: &mut Report, rng: &mut Rng) {
  let store = U64MocStore::get_global_store();
  let bad: Vec<u64> = vec![MIN_BITS - 1, MAX_BITS + 1, 0, f64::INFINITY.to_bits(), f64::NAN.to_bits(), (-1.0f64).to_bits(), (1u64 << 63) | (1000u64 << 52), 900u64 << 52, 1190u64 << 52];
  for b in bad {
    let f = f64::from_bits(b);
    let d = rng.range(0, 59) as u8;
    let good = f64::from_bits(MIN_BITS + (rng.next() >> 5));
    let outs: Vec<(&str, bool)> = vec![
      ("from_freq_in_hz", catch(|| RangeMOC::<u64, Frequency<u64>>::from_freq_in_hz(d, vec![good, f].into_iter(), None)).is_err()),
      ("from_freq_in_hz u32", catch(|| RangeMOC::<u32, Frequency<u32>>::from_freq_in_hz(d.min(27), vec![f].into_iter(), None)).is_err()),
      ("from_freq_ranges_in_hz (start)", catch(|| RangeMOC::<u64, Frequency<u64>>::from_freq_ranges_in_hz(d, vec![f..good].into_iter(), None)).is_err()),
      ("from_freq_ranges_in_hz (end)", catch(|| RangeMOC::<u64, Frequency<u64>>::from_freq_ranges_in_hz(d, vec![good..f].into_iter(), None)).is_err()),
      ("U64MocStore::from_hz_values", !matches!(catch(|| store.from_hz_values(d, vec![f].into_iter())), Ok(Ok(_)))),
    ];
    for (name, rejected) in outs {
      rep.evaluations += 1;
      rep.count("rejection");
      if !rejected {
        rep.violation(&format!("{} accepts a frequency outside the supported interval", name), &format!("F2H 1 {}", b), "accepted", "rejected", "C18_accepted_iff_in_interval");
      }
    }
  }
}

pub fn run(ctx: &Ctx) -> Report {
  let mut rep = Report::default();
  let mut orc = Oracle::spawn();
  let mut rng = Rng::new(ctx.seed);
  rep.rule = "freq2hash / hash2freq on bit patterns: EVERY binary exponent 0..2047 x mantissas {0, 1, all-ones, ...} (+ random mantissas for exponents 900..1200), both bounds of the interval and their floating-point neighbours, NaN, infinities, negative numbers; for every accepted pattern: equality with the model, inverse bit for bit, strict increase to the next double, hardware float order = pattern order, narrowing to u16/u32; builders from_microsec_since_jd0 / from_microsec_ranges_since_jd0 / from_freq_in_hz / from_freq_ranges_in_hz for u16/u32/u64 at depths 0..MAX_DEPTH with values on, next to and between cell boundaries at the bottom / top / middle of the domain and buffer capacities None / 1..4, U64MocStore::{from_hz_values, from_hz_ranges, to_hz_ranges}; rejection of out-of-interval values by every entry point. non-trivial = accepted pattern / non-empty value list; distinct = distinct case line".to_string();
  if let Some(r) = &ctx.replay {
    let ans = orc.ask(r);
    rep.notes.push(format!("replay: model answers {}", ans));
    let t: Vec<&str> = r.split_whitespace().collect();
    if t.first() == Some(&"F2H") || t.first() == Some(&"H2F") {
      let exp = toks(&ans).unwrap_or_default();
      for (i, x) in t.iter().skip(2).enumerate() {
        if let Ok(b) = x.parse::<u64>() {
          let got = if t[0] == "F2H" { f2h_impl(64, b) } else { h2f_impl(b) };
          rep.evaluations += 1;
          let e = exp.get(i).cloned().unwrap_or_default();
          let ok = match &got {
            Ok(h) => e == h.to_string(),
            Err(_) => e == "R",
          };
          if !ok {
            rep.violation("replayed case differs", r, &format!("{:?}", got), &e, "C18");
          }
        }
      }
    } else if t.len() > 4 && (t[0] == "MOCV" || t[0] == "MOCR") {
      let q = if t[1] == "t" { Q::T } else { Q::F };
      let w: u8 = t[2].parse().unwrap_or(64);
      let d: u8 = t[3].parse().unwrap_or(0);
      let nums: Vec<u64> = t[5..].iter().filter_map(|x| x.parse().ok()).collect();
      for cap in [None, Some(1), Some(2)] {
        let got = if t[0] == "MOCV" { build_values(q, w, d, &nums, cap) } else { build_ranges(q, w, d, &nums.chunks(2).filter(|c| c.len() == 2).map(|c| (c[0], c[1])).collect::<Vec<_>>(), cap) };
        rep.evaluations += 1;
        if got.as_deref() != Ok(ans.as_str()) {
          rep.violation("replayed case differs", r, &format!("{:?}", got), &ans, "C18");
        }
      }
    }
    return rep;
  }
  check_hash(&mut rep, &mut orc, &mut rng, ctx.thorough);
  check_builders(&mut rep, &mut orc, &mut rng, ctx.n(6_000, 150_000));
  check_rejections(&mut rep, &mut rng);
  cli_from_checks(&mut rep, &mut rng);
  rep.notes.push(format!("oracle calls: {}", orc.calls));
  rep
}

/// `moc from freqval|timestamp <depth> <list> fits <out>` (the tool narrows the index width of the file to the
/// smallest one that can hold the depth): the file decoded in the 64-bit frame must be the MOC the library
/// builds from the same values at that depth, whatever the width chosen
fn cli_from_checks(rep: &mut Report, rng: &mut Rng) {
  use moc::moc::RangeMOCIterator;
  let bin = match std::env::var("VERIF_BIN_DIR") {
    Ok(b) => std::path::PathBuf::from(b).join("moc"),
    Err(_) => return,
  };
  if !bin.exists() {
    rep.count("cli:not-built");
    return;
  }
  let scratch = std::env::var("VERIF_SCRATCH").unwrap_or_else(|_| std::env::temp_dir().display().to_string());
  let _ = std::fs::create_dir_all(&scratch);
  let (inp, out) = (format!("{}/c18_list.txt", scratch), format!("{}/c18_out.fits", scratch));
  let freqs = [1.35e9f64, 2.4e9, 1.0e3, 5.0e14, 1.0e-9, 7.7e20];
  for d in [0u8, 5, 10, 11, 12, 13, 14, 26, 27, 28, 29, 30, 45, 59] {
    let vals: Vec<f64> = (0..3).map(|_| *rng.pick(&freqs)).collect();
    let _ = std::fs::remove_file(&out);
    std::fs::write(&inp, vals.iter().map(|v| format!("{:e}\n", v)).collect::<String>()).unwrap();
    let res = std::process::Command::new(&bin).args(["from", "freqval", &d.to_string(), &inp, "fits", &out]).output();
    rep.evaluations += 1;
    rep.count("cli:from-freqval");
    let exp = RangeMOC::<u64, Frequency<u64>>::from_freq_in_hz(d, vals.iter().cloned(), None);
    let expr: Vec<(u64, u64)> = exp.moc_ranges().iter().map(|r| (r.start, r.end)).collect();
    let case = format!("CLI from freqval depth={} values={:?}", d, vals);
    match res {
      Ok(o) => {
        let got = crate::c19::decode_out(Q::F, "fits", std::path::Path::new(&out));
        match got {
          Ok((_, gd, gr)) if o.status.success() => {
            if gd != d || gr != expr {
              rep.violation("`moc from freqval` writes a file that does not decode to the F-MOC of the values at that depth", &case, &format!("depth {} {}", gd, ranges_str(&gr)), &format!("depth {} {}", d, ranges_str(&expr)), "C18 (frequency MOC from values; a narrower index width covers the same physical interval)");
            }
          }
          other => rep.violation("`moc from freqval` fails on in-range values", &case, &format!("exit {:?} {:?}", o.status.code(), other.map(|x| x.1)), "Ok", "C18"),
        }
      }
      Err(e) => rep.notes.push(format!("moc could not be run: {}", e)),
    }
  }
  for d in [0u8, 7, 13, 14, 15, 29, 30, 31, 47, 61] {
    let sh = 61 - d as u32;
    let vals: Vec<u64> = (0..3).map(|_| (rng.below(1u64 << 20) << sh.min(40)) + rng.below(1000)).collect();
    let _ = std::fs::remove_file(&out);
    std::fs::write(&inp, vals.iter().map(|v| format!("{}\n", v)).collect::<String>()).unwrap();
    let res = std::process::Command::new(&bin).args(["from", "timestamp", "--time-type", "usec", &d.to_string(), &inp, "fits", &out]).output();
    rep.evaluations += 1;
    rep.count("cli:from-timestamp");
    let exp = RangeMOC::<u64, Time<u64>>::from_microsec_since_jd0(d, vals.iter().cloned(), None);
    let expr: Vec<(u64, u64)> = exp.moc_ranges().iter().map(|r| (r.start, r.end)).collect();
    let case = format!("CLI from timestamp depth={} values={:?}", d, vals);
    match res {
      Ok(o) => match crate::c19::decode_out(Q::T, "fits", std::path::Path::new(&out)) {
        Ok((_, gd, gr)) if o.status.success() => {
          if gd != d || gr != expr {
            rep.violation("`moc from timestamp` writes a file that does not decode to the T-MOC of the instants at that depth", &case, &format!("depth {} {}", gd, ranges_str(&gr)), &format!("depth {} {}", d, ranges_str(&expr)), "C18 (time MOC from microseconds, every index width)");
          }
        }
        other => rep.violation("`moc from timestamp` fails on valid instants", &case, &format!("exit {:?} {:?}", o.status.code(), other.map(|x| x.1)), "Ok", "C18"),
      },
      Err(e) => rep.notes.push(format!("moc could not be run: {}", e)),
    }
  }
}
