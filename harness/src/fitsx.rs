//! Byte-level tie between src/deser/fits (writer of range MOCs, reader from_fits_ivoa) and the
//! faithful model Model/FitsCodec.v: whole files compared byte for byte, the reader's verdict
//! (leaf, width, depths, decoded rows / cells, or error kind) compared with the model's on
//! written, mutated and truncated documents.
use crate::common::*;
use moc::deser::fits::{from_fits_ivoa, MocIdxType, MocQtyType, MocType, STMocType};
use moc::idx::Idx;
use moc::moc::{CellMOCIntoIterator, CellMOCIterator, HasMaxDepth, RangeMOCIterator};
use moc::moc2d::HasTwoMaxDepth;
use moc::qty::MocQty;
use std::io::{BufRead, Cursor};

fn one<T: Idx, R: BufRead>(w: u8, t: MocQtyType<T, R>) -> String {
  fn rg<T: Idx, Q: MocQty<T>, R: BufRead>(tag: &str, w: u8, m: MocType<T, Q, R>) -> String {
    match m {
      MocType::Ranges(it) => {
        let d = it.depth_max();
        let v: Vec<(u64, u64)> = it.map(|r| (r.start.to_u64(), r.end.to_u64())).collect();
        format!("OK {}-ranges {} {} 0 {}", tag, w, d, ranges_str(&v))
      }
      MocType::Cells(c) => {
        let d = c.depth_max();
        let v: Vec<(u64, u64)> = c.into_cell_moc_iter().map(|c| (c.depth as u64, c.idx.to_u64())).collect();
        format!("OK {}-cells {} {} 0 {}", tag, w, d, ranges_str(&v))
      }
    }
  }
  match t {
    MocQtyType::Hpx(m) => rg("s", w, m),
    MocQtyType::Time(m) => rg("t", w, m),
    MocQtyType::Freq(m) => rg("f", w, m),
    MocQtyType::TimeHpx(STMocType::V2(it)) => {
      let (d1, d2) = (it.depth_max_1(), it.depth_max_2());
      let mut out = Vec::new();
      for e in it {
        let (t, sp) = e.mocs();
        let tr: Vec<(u64, u64)> = t.moc_ranges().iter().map(|r| (r.start.to_u64(), r.end.to_u64())).collect();
        let sr: Vec<(u64, u64)> = sp.moc_ranges().iter().map(|r| (r.start.to_u64(), r.end.to_u64())).collect();
        out.push(format!("{} {}", ranges_str(&tr), ranges_str(&sr)));
      }
      if out.is_empty() {
        format!("OK st-v2 {} {} {} 0", w, d1, d2)
      } else {
        format!("OK st-v2 {} {} {} {} {}", w, d1, d2, out.len(), out.join(" "))
      }
    }
    MocQtyType::TimeHpx(STMocType::PreV2(it)) => format!("OK st-prev2 {} {} {}", w, it.depth_max_1(), it.depth_max_2()),
    #[allow(unreachable_patterns)]
    _ => "OK other".to_string(),
  }
}

/// what from_fits_ivoa (+ collect) makes of a byte string, in the oracle's answer format
pub fn impl_read_fits(bytes: &[u8]) -> String {
  let b = bytes.to_vec();
  let r = catch(move || match from_fits_ivoa(Cursor::new(b)) {
    Ok(MocIdxType::U16(t)) => one(16, t),
    Ok(MocIdxType::U32(t)) => one(32, t),
    Ok(MocIdxType::U64(t)) => one(64, t),
    Err(e) => {
      let d = format!("{:?}", e);
      format!("ERR {}", d.split(|c: char| !c.is_alphanumeric()).next().unwrap_or(""))
    }
  });
  match r {
    Ok(x) => x,
    Err(p) => p,
  }
}

/// from_fits_ivoa followed by the collect of whatever it returns (cells are turned into ranges, as the
/// store loaders and the CLI do): Err(panic message) when the decoder does not return a value
pub fn full_decode_panics(bytes: &[u8]) -> Option<String> {
  let b = bytes.to_vec();
  let r = catch(move || {
    fn fin<T: Idx, Q: MocQty<T>, R: BufRead>(m: MocType<T, Q, R>) -> usize {
      match m {
        MocType::Ranges(it) => it.into_range_moc().len(),
        MocType::Cells(c) => c.into_cell_moc_iter().ranges().into_range_moc().len(),
      }
    }
    fn one<T: Idx, R: BufRead>(t: MocQtyType<T, R>) -> usize {
      match t {
        MocQtyType::Hpx(m) => fin(m),
        MocQtyType::Time(m) => fin(m),
        MocQtyType::Freq(m) => fin(m),
        MocQtyType::TimeHpx(STMocType::V2(it)) => it.count(),
        MocQtyType::TimeHpx(STMocType::PreV2(it)) => it.count(),
        #[allow(unreachable_patterns)]
        _ => 0,
      }
    }
    match from_fits_ivoa(Cursor::new(b)) {
      Ok(MocIdxType::U16(t)) => one(t),
      Ok(MocIdxType::U32(t)) => one(t),
      Ok(MocIdxType::U64(t)) => one(t),
      Err(_) => 0,
    }
  });
  r.err()
}

pub fn compare_reader_fits(rep: &mut Report, orc: &mut Oracle, bytes: &[u8], origin: &str, what: &str) -> bool {
  rep.evaluations += 1;
  let h: String = if bytes.is_empty() { "-".to_string() } else { bytes.iter().map(|x| format!("{:02x}", x)).collect() };
  let model = orc.ask(&format!("FITSR {}", h));
  let got = impl_read_fits(bytes);
  let key = model.split_whitespace().take(2).collect::<Vec<_>>().join(" ");
  rep.count(&format!("fits-reader:{}:{}", origin, key));
  if let Some(p) = full_decode_panics(bytes) {
    rep.violation_c(&format!("from_fits_ivoa + collect does not return a value: {}", p), &format!("FITSR {} ({} bytes) # origin={} mutation={}", h, bytes.len(), origin, what), &p, &model.chars().take(200).collect::<String>(), "C12 (decoders are total)", "");
    return false;
  }
  if got != model {
    let shown: String = h.clone();
    rep.corr_break(
      "from_fits_ivoa differs from the byte-level model of the reader",
      &format!("FITSR {} ({} bytes) # origin={} mutation={}", shown, bytes.len(), origin, what),
      &got.chars().take(400).collect::<String>(),
      &model.chars().take(400).collect::<String>(),
      "src/deser/fits from_fits_ivoa == Model/FitsCodec.v fits_read (C07_fits_file_roundtrip)",
    );
    return false;
  }
  true
}

fn card(s: &str) -> Vec<u8> {
  let mut v = s.as_bytes().to_vec();
  v.truncate(80);
  v.resize(80, b' ');
  v
}
fn block(cards: &[Vec<u8>]) -> Vec<u8> {
  let mut b: Vec<u8> = cards.concat();
  let n = (b.len() + 2879) / 2880 * 2880;
  b.resize(n.max(2880), b' ');
  b
}

/// a FITS document assembled from a random "header program": mostly valid, with the choices the
/// reader branches on (version, dimension, ordering, depth keywords and their aliases, TFORM1 x
/// NAXIS1, duplicates - the first occurrence wins -, cards pushed into a second header block,
/// END missing, value syntax variants)
pub fn header_program(rng: &mut Rng) -> (String, Vec<u8>) {
  let mut what = Vec::new();
  // primary
  let mut p = vec![card("SIMPLE  =                    T"), card("BITPIX  =                    8"), card("NAXIS   =                    0"), card("EXTEND  =                    T")];
  match rng.below(40) {
    0 => { p[0] = card("SIMPLE  =                    F"); what.push("SIMPLE=F"); }
    1 => { p[2] = card("NAXIS   =                    1"); what.push("NAXIS=1"); }
    2 => { for _ in 0..40 { p.push(card("COMMENT filler")); } what.push("primary spans two blocks"); }
    3 => { p[0] = card("SIMPLE  = T"); what.push("SIMPLE compact"); }
    4 => { p[0] = card("SIMPLE =T"); what.push("SIMPLE no indicator"); }
    _ => {}
  }
  let primary_end = rng.below(40) != 0;
  if primary_end { p.push(card("END")); } else { what.push("primary END missing"); }
  let mut out = block(&p);
  // extension: fixed cards
  let nb = *rng.pick(&[2u64, 4, 8, 8, 8, 1, 16, 0]);
  let nrows = *rng.pick(&[0u64, 1, 2, 4, 6, 3, 5, 1000]);
  let mut e = vec![
    card("XTENSION= 'BINTABLE'"), card("BITPIX  =                    8"), card("NAXIS   =                    2"),
    card(&format!("NAXIS1  = {:>20}", nb)), card(&format!("NAXIS2  = {:>20}", nrows)),
    card("PCOUNT  =                    0"), card("GCOUNT  =                    1"), card("TFIELDS =                    1"),
  ];
  match rng.below(50) {
    0 => { e[0] = card("XTENSION= 'IMAGE   '"); what.push("XTENSION=IMAGE"); }
    1 => { e[0] = card("XTENSION=   'BINTABLE'   / comment"); what.push("XTENSION spaced"); }
    2 => { e[3] = card("NAXIS1  = 8 / bytes"); what.push("NAXIS1 compact"); }
    3 => { e[4] = card("NAXIS2  = 99999999999999999999"); what.push("NAXIS2 overflow"); }
    4 => { e[3] = card("NAXIS1  = 256"); what.push("NAXIS1=256"); }
    5 => { e[7] = card("TFIELDS =                    2"); what.push("TFIELDS=2"); }
    6 => { e[4] = card("NAXIS2  =                    x"); what.push("NAXIS2=x"); }
    _ => {}
  }
  // keyword pool
  let pool: Vec<&str> = vec![
    "MOCVERS = '2.0'", "MOCVERS = '1.1'", "MOCVERS = '3.0'", "MOCVERS = 2.0", "MOCVERS = '2.0 '", "MOCVERS = ' 2.0'",
    "MOCDIM  = 'SPACE'", "MOCDIM  = 'TIME'", "MOCDIM  = 'TIME.SPACE'", "MOCDIM  = 'FREQUENCY'", "MOCDIM  = 'FREQUENCY.SPACE'", "MOCDIM  = 'space'",
    "ORDERING= 'RANGE'", "ORDERING= 'NUNIQ'", "ORDERING= 'RANGE29'", "ORDERING= 'NESTED'", "ORDERING= 'RING'", "ORDERING= 'RANGE",
    "COORDSYS= 'C'", "COORDSYS= 'G'", "TIMESYS = 'TCB'", "TIMESYS = 'JD'", "TIMESYS = 'UTC'",
    "MOCID   = 'x'", "MOCTOOL = 'CDS MOC Rust lib'", "MOCTOOL = nothing", "MOCTYPE = 'IMAGE'", "MOCTYPE = 'CATALOG'", "MOCTYPE = 'OTHER'",
    "MOCORD_S= 3", "MOCORD_S=                   29", "MOCORD_S= 30", "MOCORD_S= 300", "MOCORD_S= x", "MOCORD_1= 5", "TORDER  = 7", "MOCORD_T= 61", "MOCORD_T= 10", "MOCORD_T= 200",
    "MOCORD_F= 20", "MOCORD_F= 59", "MOCORDER= 4", "MOCORDER= 29", "MOCORDER= 130", "PIXTYPE = 'HEALPIX'", "PIXTYPE = 'OTHER'",
    "TFORM1  = '1I'", "TFORM1  = '1J'", "TFORM1  = '1K'", "TFORM1  = '1B'", "TFORM1  = '2K'", "TFORM1  = '1E'", "TFORM1  = 1K", "TTYPE1  = 'RANGE'", "TTYPE1  = 'UNIQ'", "TTYPE1  = ",
    "NSIDE   = 64", "NSIDE   = 99999999999", "INDXSCHM= 'IMPLICIT'", "INDXSCHM= 'EXPLICIT'", "INDXSCHM= 'X'", "COMMENT hello", "HISTORY MOCVERS = '2.0'", "MOCVERS= '2.0'", "        ", "ENDX",
  ];
  // a coherent core, then noise
  let core: Vec<&str> = match rng.below(8) {
    0 => vec!["MOCVERS = '2.0'", "MOCDIM  = 'SPACE'", "ORDERING= 'RANGE'", "COORDSYS= 'C'", "MOCORD_S= 3", "TFORM1  = '1K'"],
    1 => vec!["MOCVERS = '2.0'", "MOCDIM  = 'TIME'", "ORDERING= 'RANGE'", "TIMESYS = 'TCB'", "MOCORD_T= 10", "TFORM1  = '1J'"],
    2 => vec!["MOCVERS = '2.0'", "MOCDIM  = 'FREQUENCY'", "ORDERING= 'RANGE'", "MOCORD_F= 20", "TFORM1  = '1I'"],
    3 => vec!["MOCVERS = '2.0'", "MOCDIM  = 'SPACE'", "ORDERING= 'NUNIQ'", "COORDSYS= 'C'", *rng.pick(&["MOCORD_S= 3", "MOCORD_S= 13", "MOCORD_S= 14", "MOCORD_S=                   29", "MOCORD_S= 5", "MOCORD_S= 6"]), *rng.pick(&["TFORM1  = '1K'", "TFORM1  = '1J'", "TFORM1  = '1I'"])],
    4 => vec!["MOCVERS = '2.0'", "MOCDIM  = 'TIME.SPACE'", "ORDERING= 'RANGE'", "MOCORD_S= 3", "MOCORD_T= 10", "TFORM1  = '1K'"],
    5 => vec!["ORDERING= 'NUNIQ'", *rng.pick(&["MOCORDER= 4", "MOCORDER= 13", "MOCORDER= 14", "MOCORDER= 29", "MOCORDER= 6"]), "PIXTYPE = 'HEALPIX'", *rng.pick(&["TFORM1  = '1J'", "TFORM1  = '1I'", "TFORM1  = '1K'"])],
    6 => vec!["ORDERING= 'RANGE29'", "MOCORDER= 4", "TORDER  = 7", "TFORM1  = '1K'"],
    _ => vec![],
  };
  if rng.below(5) != 0 {
    // NAXIS1 consistent with the core's TFORM1
    let nb2 = if core.contains(&"TFORM1  = '1I'") { 2 } else if core.contains(&"TFORM1  = '1J'") { 4 } else { 8 };
    e[3] = card(&format!("NAXIS1  = {:>20}", nb2));
  }
  let mut kws: Vec<Vec<u8>> = Vec::new();
  for c in &core {
    if rng.below(25) != 0 { kws.push(card(c)); } else { what.push("a core card dropped"); }
  }
  let benign: Vec<&str> = pool.iter().cloned().filter(|c| {
    !(c.contains("'3.0'") || c.contains("= 2.0") || c.contains("'space'") || c.contains("'RANGE ") || c.ends_with("'RANGE") || c.contains("'G'") || c.contains("'UTC'") || c.contains("nothing") || c.contains("'OTHER'")
      || c.contains("= 300") || c.contains("= x") || c.contains("= 200") || c.contains("= 1K") || c.contains("'1E'") || c.ends_with("= ") || c.contains("99999999999") || c.contains("'X'"))
  }).collect();
  for _ in 0..rng.below(4) {
    let c = if rng.below(5) == 0 { *rng.pick(&pool) } else { *rng.pick(&benign) };
    let at = rng.below(kws.len() as u64 + 1) as usize;
    kws.insert(at, card(c));
  }
  if rng.below(6) == 0 {
    for _ in 0..30 { kws.insert(0, card("COMMENT filler")); }
    what.push("keywords pushed into a second block");
  }
  e.extend(kws);
  if rng.below(30) != 0 { e.push(card("END")); } else { what.push("extension END missing"); }
  out.extend(block(&e));
  // data
  let is_nuniq = core.contains(&"ORDERING= 'NUNIQ'");
  if is_nuniq && rng.below(4) != 0 {
    // NUNIQ rows at the boundaries of the uniq decoding for the column width: 0 (skipped), < 4 (rejected),
    // first / last uniq of the depths around the maximum depth of the index type, top of the type
    let nbw: usize = if core.contains(&"TFORM1  = '1I'") { 2 } else if core.contains(&"TFORM1  = '1J'") { 4 } else { 8 };
    let maxd: u32 = match nbw { 2 => 5, 4 => 13, _ => 29 };
    let mut vals: Vec<u64> = vec![0, 1, 3, 4, 5, 15, 16, 17];
    for d in [maxd.saturating_sub(1), maxd, maxd + 1] {
      let first = 4u128 << (2 * d);
      for v in [first.saturating_sub(1), first, first + 1, first + (12u128 << (2 * d)) - 1, first + (12u128 << (2 * d))] {
        if v < (1u128 << (8 * nbw)) {
          vals.push(v as u64);
        }
      }
    }
    vals.push(((1u128 << (8 * nbw)) - 1) as u64);
    let n = 1 + rng.below(6) as usize;
    for _ in 0..n {
      let v = *rng.pick(&vals);
      out.extend_from_slice(&v.to_be_bytes()[8 - nbw..]);
    }
    what.push("NUNIQ boundary rows");
  } else {
    let n_data = rng.below(60) as usize;
    for i in 0..n_data {
      out.push(if rng.below(3) == 0 { rng.next() as u8 } else { [0u8, 0, 0, 1, 4, 16, 128, 255][i % 8] });
    }
  }
  if rng.below(3) == 0 {
    let n = (out.len() + 2879) / 2880 * 2880;
    out.resize(n, 0);
  }
  (what.join("; "), out)
}

/// the multi-order-map reader beside its byte-level model (Model/FitsCodec.v mom_read): same error kind,
/// or - when the model decodes the rows - the MOC the selection returns on those rows
pub fn compare_reader_mom(rep: &mut Report, orc: &mut Oracle, bytes: &[u8], origin: &str, what: &str) -> bool {
  use moc::deser::fits::multiordermap::from_fits_multiordermap;
  use moc::elem::valuedcell::valued_cells_to_moc_with_opt;
  if bytes.len() >= 2 && bytes[0] == 0x1f && bytes[1] == 0x8b {
    return true; // gzip magic: the implementation would inflate the stream first
  }
  rep.evaluations += 1;
  let h: String = if bytes.is_empty() { "-".to_string() } else { bytes.iter().map(|x| format!("{:02x}", x)).collect() };
  let model = orc.ask(&format!("MOMR {}", h));
  let (from, to, asc, strict, no_split, rev) = (0.0, 0.9, false, true, false, false);
  let b = bytes.to_vec();
  let got = catch(move || {
    from_fits_multiordermap(std::io::BufReader::new(Cursor::new(b)), from, to, asc, strict, no_split, rev)
      .map(|m| (m.depth_max(), m.moc_ranges().iter().map(|x| (x.start, x.end)).collect::<Vec<(u64, u64)>>()))
      .map_err(|e| {
        let d = format!("{:?}", e);
        d.split(|c: char| !c.is_alphanumeric()).next().unwrap_or("").to_string()
      })
  });
  let key = model.split_whitespace().take(2).collect::<Vec<_>>().join(" ");
  rep.count(&format!("mom-reader:{}:{}", origin, if model.starts_with("OK") { "OK".to_string() } else { key }));
  let shown = format!("MOMR {} ({} bytes) # origin={} mutation={}", h.clone(), bytes.len(), origin, what);
  let got = match got {
    Err(p) => {
      rep.violation_c(&format!("from_fits_multiordermap does not return a value: {}", p), &format!("MOMR {} ({} bytes) # origin={} mutation={}", h, bytes.len(), origin, what), &p, &model.chars().take(200).collect::<String>(), "C12 (decoders are total)", "");
      return false;
    }
    Ok(g) => g,
  };
  let corr = "src/deser/fits/multiordermap.rs MultiOrderMapIterator == Model/FitsCodec.v mom_read";
  if let Some(kind) = model.strip_prefix("ERR ") {
    if got != Err(kind.to_string()) {
      rep.corr_break("from_fits_multiordermap differs from the byte-level model of the reader (error kind)", &shown, &format!("{:?}", got.map(|x| x.0)), &model, corr);
      return false;
    }
    return true;
  }
  // OK depth n (uniq bits)*
  let t: Vec<&str> = model.split_whitespace().collect();
  if t.len() < 3 || t[0] != "OK" {
    rep.violation("oracle-error", &shown, "", &model, "internal");
    return false;
  }
  let dm: u8 = t[1].parse().unwrap_or(0);
  let n: usize = t[2].parse().unwrap_or(0);
  let apc = (std::f64::consts::PI / 3.0) / (1u64 << ((dm as u32) << 1)) as f64;
  let mut triples: Vec<(u64, f64, f64)> = Vec::new();
  for k in 0..n {
    let u: u64 = t[3 + 2 * k].parse().unwrap_or(0);
    let bits: u64 = t[4 + 2 * k].parse().unwrap_or(0);
    let dens = f64::from_bits(bits);
    let cd = ((63 - u.leading_zeros()) as u8 - 2) >> 1;
    let nsub = (1u64 << (((dm - cd.min(dm)) as u32) << 1)) as f64;
    triples.push((u, dens * nsub * apc, dens));
  }
  let direct = catch(move || valued_cells_to_moc_with_opt(dm, triples, from, to, asc, strict, no_split, rev).iter().map(|x| (x.start, x.end)).collect::<Vec<(u64, u64)>>());
  match (direct, got) {
    (Ok(d), Ok((gd, g))) => {
      if gd != dm || g != d {
        rep.corr_break("from_fits_multiordermap does not return the selection of the rows the model decodes", &shown, &format!("depth {} {}", gd, ranges_str(&g)), &format!("depth {} {}", dm, ranges_str(&d)), corr);
        return false;
      }
      true
    }
    (Err(_), _) => true, // the selection itself does not accept these values (NaN densities ...): judged by C20
    (Ok(_), Err(k)) => {
      rep.corr_break("from_fits_multiordermap rejects a document the byte-level model decodes", &shown, &k, &model.chars().take(200).collect::<String>(), corr);
      false
    }
  }
}

/// the sky-map reader beside its byte-level model (Model/FitsCodec.v sky_read): same error kind, or Ok
/// with the same depth (the pixel values and the selection are judged by C20)
pub fn compare_reader_sky(rep: &mut Report, orc: &mut Oracle, bytes: &[u8], origin: &str, what: &str) -> bool {
  use moc::deser::fits::skymap::from_fits_skymap;
  if bytes.len() >= 2 && bytes[0] == 0x1f && bytes[1] == 0x8b {
    return true;
  }
  // extent of the headers: up to the end of the block holding the END card of the extension (the whole file when
  // there is none)
  let mut hdr_end = bytes.len();
  let mut pos = 0;
  let mut n_end = 0;
  while pos + 80 <= bytes.len() {
    if &bytes[pos..pos + 4] == b"END " {
      n_end += 1;
      let block_end = ((pos / 2880) + 1) * 2880;
      if n_end == 2 {
        // END of the extension header (the first one closes the primary header, which may span several blocks)
        hdr_end = block_end;
        break;
      }
      pos = block_end;
      continue;
    }
    pos += 80;
  }
  if !bytes.iter().take(hdr_end.min(bytes.len())).all(|b| b.is_ascii()) {
    rep.count("sky-reader:non-ascii-header(outside the model)");
    return true; // a non-ASCII header byte: the string keywords go through from_utf8 in the implementation
  }
  rep.evaluations += 1;
  let h: String = if bytes.is_empty() { "-".to_string() } else { bytes.iter().map(|x| format!("{:02x}", x)).collect() };
  let model = orc.ask(&format!("SKYR {}", h));
  let b = bytes.to_vec();
  let got = catch(move || {
    from_fits_skymap(std::io::BufReader::new(Cursor::new(b)), 0.0, 0.0, 0.9, false, true, false, false)
      .map(|m| m.depth_max())
      .map_err(|e| {
        let d = format!("{:?}", e);
        d.split(|c: char| !c.is_alphanumeric()).next().unwrap_or("").to_string()
      })
  });
  rep.count(&format!("sky-reader:{}:{}", origin, model.split_whitespace().take(2).collect::<Vec<_>>().join(" ")));
  let shown = format!("SKYR {} ({} bytes) # origin={} mutation={}", h.clone(), bytes.len(), origin, what);
  match got {
    Err(p) => {
      rep.violation_c(&format!("from_fits_skymap does not return a value: {}", p), &format!("SKYR {} ({} bytes) # origin={} mutation={}", h, bytes.len(), origin, what), &p, &model, "C12 (decoders are total)", "");
      false
    }
    Ok(g) => {
      let gs = match &g {
        Ok(d) => format!("OK {}", d),
        Err(k) => format!("ERR {}", k),
      };
      if gs != model {
        rep.corr_break("from_fits_skymap differs from the byte-level model of the reader (verdict)", &shown, &gs, &model, "src/deser/fits/skymap.rs header / row reader == Model/FitsCodec.v sky_read");
        return false;
      }
      true
    }
  }
}
