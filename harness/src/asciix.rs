//! Character-level tie between src/deser/ascii.rs and the faithful model Model/AsciiCodec.v
//! (theorems C07_ascii_* / C11_ascii_*): the writer's characters are compared one by one with the
//! model's, the reader is run beside the model's reader on the written documents and on
//! structurally mutated / hand-written malformed documents (verdict, error kind, decoded elements).
//! A difference here is a broken correspondence (`Report::corr_break`): the property itself is
//! judged by the round-trip checks of c07.rs / c11.rs.
use crate::common::*;
use moc::deser::ascii::{from_ascii_ivoa, from_ascii_stream, moc2d_from_ascii_ivoa, AsciiError};
use moc::elem::cellcellrange::CellOrCellRange;
use moc::idx::Idx;
use moc::moc::{CellOrCellRangeMOCIntoIterator, CellOrCellRangeMOCIterator, HasMaxDepth, RangeMOCIntoIterator, RangeMOCIterator};
use moc::moc2d::{CellOrCellRangeMOC2IntoIterator, HasTwoMaxDepth};
use moc::qty::{Hpx, MocQty, Time};

pub fn hex(b: &[u8]) -> String {
  if b.is_empty() {
    "-".to_string()
  } else {
    b.iter().map(|x| format!("{:02x}", x)).collect()
  }
}

pub fn err_kind(e: &AsciiError) -> String {
  let d = format!("{:?}", e);
  let k = d.split(|c: char| !c.is_alphanumeric()).next().unwrap_or("").to_string();
  match k.as_str() {
    "ParseError" => "Parse",
    "RemainingData" => "Remaining",
    "WrongFirstTokenDepthExpected" => "FirstToken",
    "WrongDepthType" => "DepthType",
    "DepthIsNotValid" => "Depth",
    "IndexIsNotValid" => "Index",
    "NotValid" => "NotValid",
    "ElemNotFound" => "ElemNotFound",
    "EmptyReader" => "EmptyReader",
    "QtyExpectedAtFirstLine" => "QtyExpectedAtFirstLine",
    "NoData" => "NoData",
    "DepthExpectedAtSecondLine" => "DepthExpectedAtSecondLine",
    other => return format!("Other({})", other),
  }
  .to_string()
}

fn elems_str<T: Idx, I: Iterator<Item = CellOrCellRange<T>>>(it: I) -> String {
  let v: Vec<String> = it
    .map(|e| match e {
      CellOrCellRange::Cell(c) => format!("c {} {}", c.depth, c.idx.to_u64()),
      CellOrCellRange::CellRange(r) => format!("r {} {} {}", r.depth, r.range.start.to_u64(), r.range.end.to_u64()),
    })
    .collect();
  if v.is_empty() {
    "0".to_string()
  } else {
    format!("{} {}", v.len(), v.join(" "))
  }
}

/// what the implementation's 1-D reader makes of a document, in the oracle's answer format
pub fn impl_read_1d<T: Idx, Q: MocQty<T>>(s: &str) -> String {
  let s1 = s.to_string();
  let r = catch(move || match from_ascii_ivoa::<T, Q>(&s1) {
    Ok(m) => {
      let d = m.depth_max();
      let es = elems_str(m.into_cellcellrange_moc_iter());
      let m2 = from_ascii_ivoa::<T, Q>(&s1).unwrap();
      let rg: Vec<(u64, u64)> = m2.into_cellcellrange_moc_iter().ranges().into_range_moc().moc_ranges().iter().map(|r| (r.start.to_u64(), r.end.to_u64())).collect();
      format!("OK {} {} {}", d, es, ranges_str(&rg))
    }
    Err(e) => format!("ERR {}", err_kind(&e)),
  });
  match r {
    Ok(x) => x,
    Err(p) => p,
  }
}

pub fn impl_read_2d(s: &str) -> String {
  let s1 = s.to_string();
  let r = catch(move || match moc2d_from_ascii_ivoa::<u64, Time<u64>, u64, Hpx<u64>>(&s1) {
    Ok(m) => {
      let (d1, d2) = (m.depth_max_1(), m.depth_max_2());
      let mut out = Vec::new();
      for e in m.into_cellcellrange_moc2_iter() {
        let (l, r) = e.mocs();
        out.push(format!("{} {}", elems_str(l.into_cellcellrange_moc_iter()), elems_str(r.into_cellcellrange_moc_iter())));
      }
      if out.is_empty() {
        format!("OK {} {} 0", d1, d2)
      } else {
        format!("OK {} {} {} {}", d1, d2, out.len(), out.join(" "))
      }
    }
    Err(e) => format!("ERR {}", err_kind(&e)),
  });
  match r {
    Ok(x) => x,
    Err(p) => p,
  }
}

const ALPHABET: &[u8] = b"0123456789/-+ \n\t\rxts9";

/// structural mutations of a document (ASCII only)
pub fn mutations(rng: &mut Rng, s: &str, n: usize) -> Vec<String> {
  let b = s.as_bytes();
  let mut out = Vec::new();
  for _ in 0..n {
    let mut v = b.to_vec();
    let k = rng.below(7);
    let pos = if v.is_empty() { 0 } else { rng.below(v.len() as u64) as usize };
    match k {
      0 => {
        if !v.is_empty() {
          v.remove(pos);
        }
      }
      1 => v.insert(pos, ALPHABET[rng.below(ALPHABET.len() as u64) as usize]),
      2 => {
        if !v.is_empty() {
          v[pos] = ALPHABET[rng.below(ALPHABET.len() as u64) as usize];
        }
      }
      3 => v.truncate(pos),
      4 => {
        // duplicate a whitespace-separated token somewhere else
        let toks: Vec<&str> = s.split_whitespace().collect();
        if !toks.is_empty() {
          let t = toks[rng.below(toks.len() as u64) as usize];
          let mut w: Vec<u8> = v[..pos].to_vec();
          w.extend_from_slice(b" ");
          w.extend_from_slice(t.as_bytes());
          w.extend_from_slice(b" ");
          w.extend_from_slice(&v[pos..]);
          v = w;
        }
      }
      5 => {
        // swap two tokens
        let mut toks: Vec<String> = s.split_whitespace().map(|x| x.to_string()).collect();
        if toks.len() >= 2 {
          let i = rng.below(toks.len() as u64) as usize;
          let j = rng.below(toks.len() as u64) as usize;
          toks.swap(i, j);
          v = toks.join(" ").into_bytes();
        }
      }
      _ => {
        // grow a number: append a digit to a digit run
        if let Some(p) = v.iter().position(|c| c.is_ascii_digit()) {
          let q = p + rng.below((v.len() - p) as u64) as usize;
          if v[q].is_ascii_digit() {
            v.insert(q, b'0' + rng.below(10) as u8);
          }
        }
      }
    }
    if v.is_ascii() {
      out.push(String::from_utf8(v).unwrap());
    }
  }
  out
}

/// hand-written documents around every branch of the reader
pub fn crafted_1d(w: u8, md: u8, ncells_md: u64) -> Vec<String> {
  let tmax: u128 = (1u128 << w) - 1;
  let mut v: Vec<String> = vec![
    "", " ", "\n", "3", "3/", " 3/ ", "3/ 5-", "3/5-4", "3/5-5", "3/5+", "3/5+0", "3/5+1", "3/5-x", "300/", "256/", "255/", "99999999999999999999/",
    "1/1 1/1", "1/2 0/0", "0/0 1/0", "0/0 1/3", "0/0 1/4", "1/0-3 0/0", "1/4-7 0/0", "0/1 1/0-3", "1/0-1 1/2-3", "1/0-1 1/1-2", "1/0 1 2 3", "1/3 2 1 0",
    "0/0\t1/4\r\n2/", "0/ 1/ 2/", "2/ 1/ 0/", "0/0-0", "0/+", "/", "-", "0 /", "0/ -1", "1/1,2", "1/1;", "1/0-", "1/0+", "1/00001", "0001/1", "1/1 /",
    "0/0 0/0", "0/0-1 0/1-2", "1/1-2 0/0", "2/16 1/4 0/0", "0/0 1/4 2/16", "2/17 1/4", "2/15 1/4-5 2/24",
  ]
  .into_iter()
  .map(|x| x.to_string())
  .collect();
  v.push(format!("{}/", md));
  v.push(format!("{}/", md as u32 + 1));
  v.push(format!("{}/{}", md, ncells_md - 1));
  v.push(format!("{}/{}", md, ncells_md));
  v.push(format!("{}/0-{}", md, ncells_md - 1));
  v.push(format!("{}/0-{}", md, ncells_md));
  v.push(format!("{}/0+{}", md, ncells_md - 1));
  v.push(format!("{}/0+{}", md, ncells_md));
  v.push(format!("0/{}", tmax));
  v.push(format!("0/{}", tmax + 1));
  v.push(format!("0/0-{}", tmax));
  v.push(format!("0/0-{}", tmax - 1));
  v.push(format!("0/1+{}", tmax));
  v.push(format!("0/{}+{}", tmax, tmax));
  v.push(format!("0/{}-{}", tmax, tmax));
  v.push(format!("{}/", tmax));
  v.push(format!("{}/", tmax + 1));
  v
}

pub fn crafted_2d() -> Vec<String> {
  vec![
    "", "t", "s", "t61/ s29/", "t61/s29/", "t 61/ s 29/", "t61/1 s29/", "t61/ s29/1", "t61/1 s29/1", "t61/1 s29/1 t61/ s29/\n", "t61/1s29/1t61/s29/",
    "t61/1 29/1", "61/1 s29/1", "x t61/1 s29/1", " t61/1 s29/1 ", "t61/1 s29/1 s29/2", "t61/1 t61/2 s29/1", "tt61/1 s3/1", "t62/1 s3/1", "t61/1 s30/1",
    "t60/3 61/ s28/1 29/ t61/ s29/\n", "t60/3 61/ s29/7 t61/ s29/", "t61/5 s28/1 29/ t61/ s29/", "t61/1 s3/1 t61/1 s3/2", "t61/2 s3/1 t61/1 s3/2",
    "t10/ s3/ t61/ s29/", "t0/0-1 s0/0-11 t61/ s29/", "t0/0-2 s0/0", "t0/0 s0/12", "t61/1-0 s0/1", "t61/1 s0/1 garbage", "t61/1 s0/1\n\nt61/ s29/\n\n",
  ]
  .into_iter()
  .map(|x| x.to_string())
  .collect()
}

/// model reader vs implementation reader on one 1-D document
pub fn compare_reader_1d<T: Idx, Q: MocQty<T>>(rep: &mut Report, orc: &mut Oracle, qc: &str, w: u8, s: &str, origin: &str) -> bool {
  rep.evaluations += 1;
  let model = orc.ask(&format!("ASCR {} {} {}", qc, w, hex(s.as_bytes())));
  let got = impl_read_1d::<T, Q>(s);
  rep.count(&format!("ascii-reader:{}:{}", origin, if model.starts_with("OK") { "accepted".to_string() } else { model.clone() }));
  if got != model {
    rep.corr_break(
      "from_ascii_ivoa differs from the character-level model of the reader",
      &format!("ASCR {} {} {} # document={:?} origin={}", qc, w, hex(s.as_bytes()), s, origin),
      &got,
      &model,
      "src/deser/ascii.rs from_ascii_ivoa == Model/AsciiCodec.v from_ascii (C07_ascii_reader_sound)",
    );
    return false;
  }
  true
}

pub fn compare_reader_2d(rep: &mut Report, orc: &mut Oracle, s: &str, origin: &str) -> bool {
  rep.evaluations += 1;
  let model = orc.ask(&format!("ASC2R t 64 s 64 116 115 {}", hex(s.as_bytes())));
  let got = impl_read_2d(s);
  rep.count(&format!("ascii2-reader:{}:{}", origin, if model.starts_with("OK") { "accepted".to_string() } else { model.clone() }));
  if got != model {
    rep.corr_break(
      "moc2d_from_ascii_ivoa differs from the character-level model of the reader",
      &format!("ASC2R t 64 s 64 116 115 {} # document={:?} origin={}", hex(s.as_bytes()), s, origin),
      &got,
      &model,
      "src/deser/ascii.rs moc2d_from_ascii_ivoa == Model/AsciiCodec.v st_from_ascii (C11_ascii_st_roundtrip)",
    );
    return false;
  }
  true
}

/// what the implementation's streaming reader makes of a document (elements in file order)
pub fn impl_read_stream<T: Idx, Q: MocQty<T>>(s: &str) -> String {
  let b = s.as_bytes().to_vec();
  let r = catch(move || match from_ascii_stream::<T, Q, _>(std::io::Cursor::new(b)) {
    Ok(rd) => {
      let d = rd.depth_max();
      format!("OK {} {}", d, elems_str(rd))
    }
    Err(e) => format!("ERR {}", err_kind(&e)),
  });
  match r {
    Ok(x) => x,
    Err(p) => p,
  }
}

pub fn compare_reader_stream<T: Idx, Q: MocQty<T>>(rep: &mut Report, orc: &mut Oracle, qc: &str, w: u8, s: &str, origin: &str) -> bool {
  rep.evaluations += 1;
  let model = orc.ask(&format!("ASSR {} {} {}", qc, w, hex(s.as_bytes())));
  let got = impl_read_stream::<T, Q>(s);
  rep.count(&format!("ascii-stream-reader:{}:{}", origin, if model.starts_with("OK") { "accepted".to_string() } else { model.clone() }));
  if got != model {
    rep.corr_break(
      "from_ascii_stream differs from the character-level model of the reader",
      &format!("ASSR {} {} {} # document={:?} origin={}", qc, w, hex(s.as_bytes()), s, origin),
      &got,
      &model,
      "src/deser/ascii.rs from_ascii_stream == Model/AsciiCodec.v from_ascii_stream (C07_ascii_stream_roundtrip)",
    );
    return false;
  }
  true
}

pub fn crafted_stream(name: &str, w: u8, md: u8, ncells_md: u64) -> Vec<String> {
  let tmax: u128 = (1u128 << w) - 1;
  let mut v: Vec<String> = vec![
    "".to_string(), "\n".to_string(), format!("qty={}", name), format!("qty={}\n", name), format!("qty={}\ndepth=3", name), format!("qty={}\ndepth=3\n", name),
    format!(" qty = {} \r\n depth = 3 \r\n 3/1 \r\n\r\n 2/0-2\n1/1+2\n", name), format!("qty={}\ndepth=+3\n+1/+2\n1/+1-+2\n1/1++1\n", name),
    format!("QTY={}\ndepth=3\n", name), format!("qty=X{}\ndepth=3\n", name), format!("qty={}\nDepth=3\n", name), format!("qty={}\ndepth=\n", name),
    format!("qty={}\ndepth=256\n", name), format!("qty={}\ndepth={}\n", name, md as u32 + 1), format!("qty={}\ndepth={}\n{}/{}\n{}/{}\n{}/0-{}\n{}/0-{}\n{}/1+{}\n{}/0+{}\n", name, md, md, ncells_md - 1, md, ncells_md, md, ncells_md, md, ncells_md as u128 + 1, md, ncells_md - 1, md, ncells_md as u128 + 1),
    format!("qty={}\ndepth=1\n1/5-5\n1/5-4\n1/5+0\n1/5-6-7\n1/5+1+1\n1/5-6+1\n1/5+1-7\n1/-5\n1/5-\n1/+\n1/\n/1\n1\n\n2/1\n300/1\n1/1 2\n1/ 1\n 1 / 1 \n1/0x1\n", name),
    format!("qty={}\ndepth=0\n0/{}\n0/{}\n0/0-{}\n0/1+{}\n0/{}+{}\n", name, tmax, tmax + 1, tmax, tmax, tmax, tmax),
    format!("qty={}=x\ndepth=1\n", name), format!("qty {}\ndepth=1\n", name), format!("qty={}\ndepth=1=2\n", name), format!("qty={}\ndepth=1\n0/1\n0/0\n0/1\n", name),
  ];
  v.push(format!("qty={}\ndepth={}\n", name, md));
  v
}

// ---------------------------------------------------------------------------------------------------
// JSON (src/deser/json.rs) beside Model/JsonCodec.v from_json / st_from_json: the model covers a SUBSET
// of JSON (answer OUT outside of it: no claim, counted); inside, verdict and decoded cells must agree.

fn cells_str<T: Idx, I: Iterator<Item = moc::elem::cell::Cell<T>>>(it: I) -> String {
  let v: Vec<String> = it.map(|c| format!("c {} {}", c.depth, c.idx.to_u64())).collect();
  if v.is_empty() {
    "0".to_string()
  } else {
    format!("{} {}", v.len(), v.join(" "))
  }
}

pub fn impl_read_json_1d<T: Idx, Q: MocQty<T>>(s: &str) -> String {
  use moc::deser::json::from_json_aladin;
  use moc::moc::{CellMOCIntoIterator, CellMOCIterator};
  let s1 = s.to_string();
  let r = catch(move || match from_json_aladin::<T, Q>(&s1) {
    Ok(m) => {
      let d = m.depth_max();
      let es = cells_str(m.into_cell_moc_iter());
      let m2 = from_json_aladin::<T, Q>(&s1).unwrap();
      let rg: Vec<(u64, u64)> = m2.into_cell_moc_iter().ranges().into_range_moc().moc_ranges().iter().map(|r| (r.start.to_u64(), r.end.to_u64())).collect();
      format!("OK {} {} {}", d, es, ranges_str(&rg))
    }
    Err(_) => "ERR".to_string(),
  });
  match r {
    Ok(x) => x,
    Err(p) => p,
  }
}

pub fn impl_read_json_2d(s: &str) -> String {
  use moc::deser::json::cellmoc2d_from_json_aladin;
  use moc::moc2d::{CellMOC2ElemIt, CellMOC2IntoIterator};
  let s1 = s.to_string();
  let r = catch(move || match cellmoc2d_from_json_aladin::<u64, Time<u64>, u64, Hpx<u64>>(&s1) {
    Ok(m) => {
      let (d1, d2) = (m.depth_max_1(), m.depth_max_2());
      let mut out = Vec::new();
      for e in m.into_cell_moc2_iter() {
        let (l, r) = e.cell_mocs_it();
        out.push(format!("{} {}", cells_str(l), cells_str(r)));
      }
      if out.is_empty() {
        format!("OK {} {} 0", d1, d2)
      } else {
        format!("OK {} {} {} {}", d1, d2, out.len(), out.join(" "))
      }
    }
    Err(_) => "ERR".to_string(),
  });
  match r {
    Ok(x) => x,
    Err(p) => p,
  }
}

const JSON_ALPHABET: &[u8] = b"0123456789{}[]:,\" \n\t\r0123456789{}[]:,\"ts.e-x\\";

/// structural mutations of a JSON document
pub fn json_mutations(rng: &mut Rng, s: &str, n: usize) -> Vec<String> {
  let b = s.as_bytes();
  let mut out = Vec::new();
  for _ in 0..n {
    let mut v = b.to_vec();
    let k = rng.below(8);
    let pos = if v.is_empty() { 0 } else { rng.below(v.len() as u64) as usize };
    let pick = |rng: &mut Rng| JSON_ALPHABET[rng.below(JSON_ALPHABET.len() as u64) as usize];
    match k {
      0 => {
        if !v.is_empty() {
          v.remove(pos);
        }
      }
      1 => v.insert(pos, pick(rng)),
      2 => {
        if !v.is_empty() {
          v[pos] = pick(rng);
        }
      }
      3 => v.truncate(pos),
      4 => {
        // duplicate a "key": [ ... ] member (repeated key) or an element
        if let (Some(a), Some(z)) = (s.find('"'), s.find(']')) {
          if a < z {
            let piece = format!("{}, ", &s[a..=z]);
            let mut w: Vec<u8> = v[..a].to_vec();
            w.extend_from_slice(piece.as_bytes());
            w.extend_from_slice(&v[a..]);
            v = w;
          }
        }
      }
      5 => {
        // grow a number
        if let Some(p) = v.iter().position(|c| c.is_ascii_digit()) {
          let q = p + rng.below((v.len() - p) as u64) as usize;
          if v[q].is_ascii_digit() {
            v.insert(q, b'0' + rng.below(10) as u8);
          }
        }
      }
      6 => {
        // a non-number element / a nested value in an array
        if let Some(p) = v.iter().rposition(|c| *c == b'[') {
          let ins: &[u8] = [&b"\"x\", "[..], &b"[1], "[..], &b"{\"0\": [2]}, "[..], &b"7, "[..]][rng.below(4) as usize];
          let mut w: Vec<u8> = v[..=p].to_vec();
          w.extend_from_slice(ins);
          w.extend_from_slice(&v[p + 1..]);
          v = w;
        }
      }
      _ => {
        // swap two characters
        if v.len() >= 2 {
          let j = rng.below(v.len() as u64) as usize;
          v.swap(pos, j);
        }
      }
    }
    if v.is_ascii() {
      out.push(String::from_utf8(v).unwrap());
    }
  }
  out
}

pub fn crafted_json_1d(w: u8, md: u8, ncells_md: u64) -> Vec<String> {
  let mut v: Vec<String> = vec![
    "", " ", "{}", " { } ", "[]", "[1]", "1", "\"a\"", "{", "}", "{}{}", "{} x", "{},", "{\"0\":[]}", "{\"0\":[0]}", "{\"0\":[0,]}", "{\"0\":[,0]}", "{\"0\":[0 1]}",
    "{\"0\":[0],}", "{\"0\" [0]}", "{\"0\":}", "{\"0\"}", "{0:[1]}", "{\"0\":[0]", "{\"0\":[0}", "{\"0\":[01]}", "{\"0\":[00]}", "{\"0\":[0.0]}", "{\"0\":[1e0]}", "{\"0\":[-1]}",
    "{\"0\":[1,1]}", "{\"0\":[1],\"1\":[4]}", "{\"0\":[1],\"1\":[3]}", "{\"1\":[4],\"0\":[1]}", "{\"1\":[3,2,1,0]}", "{\"0\":[1],\"0\":[2]}", "{\"0\":[1],\"0\":3}", "{\"0\":3,\"0\":[1]}",
    "{\"0\":[1,\"x\",2]}", "{\"0\":[1,[5],2]}", "{\"0\":[1,{\"0\":[5]},2]}", "{\"00\":[1]}", "{\"+0\":[1]}", "{\" 0\":[1]}", "{\"x\":[99999],\"0\":[1]}", "{\"0\":{\"0\":[1]}}", "{\"0\":\"1\"}",
    "{\"0\":[11]}", "{\"0\":[12]}", "{\"1\":[47]}", "{\"1\":[48]}", "{\"0\":[18446744073709551615]}", "{\"0\":[18446744073709551616]}", "{\"300\":[1]}", "{\"255\":[1]}", "{\"0\":[1]}\n\n", "\t{\r\n\"0\"\t:\r[ 1 ,\n2 ]\n}\t",
    "{\"0\":[1],\"x\":[[[[[[[[[[1]]]]]]]]]]}", "{\"0\":[1],\"a\\\"b\":[2]}", "{\"0\":[1],\"a\\u0030\":[2]}", "{\"\\u0030\":[1]}", "{\"0\":[true]}", "{\"0\":[null,1]}",
  ]
  .into_iter()
  .map(|x| x.to_string())
  .collect();
  v.push(format!("{{\"{}\":[]}}", md));
  v.push(format!("{{\"{}\":[]}}", md as u32 + 1));
  v.push(format!("{{\"{}\":[5]}}", md as u32 + 1));
  v.push(format!("{{\"{}\":[{}]}}", md, ncells_md - 1));
  v.push(format!("{{\"{}\":[{}]}}", md, ncells_md));
  v.push(format!("{{\"{}\":[0],\"{}\":[1]}}", md, md));
  v.push(format!("{{\"{}\":[0],\"{}\":[]}}", md - 1, md));
  v.push(format!("{{\"0\":[0],\"{}\":[0]}}", md));
  v.push(format!("{{\"0\":[0],\"{}\":[{}]}}", md, ncells_md - 1));
  let _ = w;
  // deep nesting: beyond the model's subset (100) and beyond serde_json's recursion limit (128)
  v.push(format!("{{\"x\":{}1{}}}", "[".repeat(99), "]".repeat(99)));
  v.push(format!("{{\"x\":{}1{}}}", "[".repeat(120), "]".repeat(120)));
  v.push(format!("{{\"x\":{}1{}}}", "[".repeat(200), "]".repeat(200)));
  v
}

pub fn crafted_json_2d() -> Vec<String> {
  vec![
    "", "[]", " [ ] ", "{}", "[{}]", "[1]", "[[]]", "[{\"t\":{},\"s\":{}}]", "[{\"t\":{\"61\":[1]},\"s\":{\"29\":[2]}}]", "[{\"t\":{\"61\":[1]},\"s\":{\"29\":[]}}]", "[{\"t\":{\"61\":[]},\"s\":{\"29\":[2]}}]",
    "[{\"t\":{\"61\":[1]}}]", "[{\"s\":{\"29\":[2]}}]", "[{\"t\":{\"61\":[1]},\"s\":[2]}]", "[{\"t\":1,\"s\":{\"29\":[2]}}]", "[{\"t\":{\"62\":[1]},\"s\":{\"30\":[2]}}]", "[{\"t\":{\"0\":[2]},\"s\":{\"0\":[1]}}]", "[{\"t\":{\"0\":[1]},\"s\":{\"0\":[12]}}]",
    "[{\"t\":{\"1\":[1]},\"s\":{\"0\":[1]}},{\"t\":{\"2\":[1]},\"s\":{\"3\":[1]}}]", "[{\"t\":{\"1\":[1]},\"s\":{\"0\":[1]}},{\"t\":{\"1\":[1]},\"s\":{\"0\":[1]}}]", "[{\"t\":{\"1\":[1]},\"s\":{\"0\":[1]}},7]", "[7,{\"t\":{\"1\":[1]},\"s\":{\"0\":[1]}}]",
    "[{\"t\":{\"1\":[1]},\"s\":{\"0\":[1]},\"t\":{\"2\":[2]}}]", "[{\"x\":5,\"t\":{\"1\":[1]},\"s\":{\"0\":[1]}}]", "[{\"t\":{\"1\":[1,1]},\"s\":{\"0\":[1]}}]", "[{\"t\":{\"1\":[1]},\"s\":{\"0\":[1]}},]", "[{\"t\":{\"1\":[1]},\"s\":{\"0\":[1]}}]]",
    "[{\"tt\":{\"1\":[1]},\"s\":{\"0\":[1]}}]", "[{\"f\":{\"1\":[1]},\"s\":{\"0\":[1]}}]", "[\n{\n  \"t\": {\n    \"3\": [1, \n    2]\n  },\n  \"s\": {\n    \"1\": [5]\n  }\n},\n{ \"t\": { \"61\": [] }, \"s\": { \"29\": [] } }\n]\n",
  ]
  .into_iter()
  .map(|x| x.to_string())
  .collect()
}

/// model reader vs implementation reader on one 1-D JSON document; false = they differ
pub fn compare_reader_json_1d<T: Idx, Q: MocQty<T>>(rep: &mut Report, orc: &mut Oracle, qc: &str, w: u8, s: &str, origin: &str) -> bool {
  rep.evaluations += 1;
  let model = orc.ask(&format!("JSONR {} {} {}", qc, w, hex(s.as_bytes())));
  rep.count(&format!("json-reader:{}:{}", origin, if model.starts_with("OK") { "accepted" } else { model.as_str() }));
  if model == "OUT" {
    return true;
  }
  let got = impl_read_json_1d::<T, Q>(s);
  if got != model {
    rep.corr_break(
      "from_json_aladin differs from the character-level model of the reader",
      &format!("JSONR {} {} {} # document={:?} origin={}", qc, w, hex(s.as_bytes()), s, origin),
      &got,
      &model,
      "src/deser/json.rs from_json_aladin == Model/JsonCodec.v from_json (C07_json_roundtrip)",
    );
    return false;
  }
  true
}

pub fn compare_reader_json_2d(rep: &mut Report, orc: &mut Oracle, s: &str, origin: &str) -> bool {
  rep.evaluations += 1;
  let model = orc.ask(&format!("JSON2R {}", hex(s.as_bytes())));
  rep.count(&format!("json2-reader:{}:{}", origin, if model.starts_with("OK") { "accepted" } else { model.as_str() }));
  if model == "OUT" {
    return true;
  }
  let got = impl_read_json_2d(s);
  if got != model {
    rep.corr_break(
      "cellmoc2d_from_json_aladin differs from the character-level model of the reader",
      &format!("JSON2R {} # document={:?} origin={}", hex(s.as_bytes()), s, origin),
      &got,
      &model,
      "src/deser/json.rs cellmoc2d_from_json_aladin == Model/JsonCodec.v st_from_json (C11_json_st_roundtrip)",
    );
    return false;
  }
  true
}
