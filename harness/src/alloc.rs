//! Counting global allocator: records the largest single allocation request, so that a
//! decoder asking for memory unrelated to its input size is observable.
use std::alloc::{GlobalAlloc, Layout, System};
use std::sync::atomic::{AtomicUsize, Ordering};

pub struct Counting;
pub static MAX_REQ: AtomicUsize = AtomicUsize::new(0);

unsafe impl GlobalAlloc for Counting {
  unsafe fn alloc(&self, layout: Layout) -> *mut u8 {
    MAX_REQ.fetch_max(layout.size(), Ordering::Relaxed);
    System.alloc(layout)
  }
  unsafe fn dealloc(&self, ptr: *mut u8, layout: Layout) {
    System.dealloc(ptr, layout)
  }
  unsafe fn alloc_zeroed(&self, layout: Layout) -> *mut u8 {
    MAX_REQ.fetch_max(layout.size(), Ordering::Relaxed);
    System.alloc_zeroed(layout)
  }
  unsafe fn realloc(&self, ptr: *mut u8, layout: Layout, new_size: usize) -> *mut u8 {
    MAX_REQ.fetch_max(new_size, Ordering::Relaxed);
    System.realloc(ptr, layout, new_size)
  }
}
pub fn reset() {
  MAX_REQ.store(0, Ordering::Relaxed);
}
pub fn max_req() -> usize {
  MAX_REQ.load(Ordering::Relaxed)
}
