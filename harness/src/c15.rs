//! C15 — moc-set queries return exactly the matching identifiers.
//! Real `mocset` binary (rebuilt from /repo): make + chgstatus build a population, then
//! `mocset query` (pos / cone / moc in ascii, json, fits u16/u32/u64, file or stdin; intersect and
//! included mode; with/without deprecated; sequential, --parallel, --print-coverage) and
//! `mocset union` (pos / moc / ids) are compared with the extracted model
//! SetQuery.{query, query_pos, union_query, union_pos, union_ids} (theorems C15_*).
//! Cones and positions are turned into the same region / index by the harness with the library
//! functions the tool calls (cdshealpix geometry is outside the property).
use crate::c14::{bin, read_moc_fits, run_cmd, write_moc_fits};
use crate::common::*;
use crate::dispatch;
use moc::deser::ascii::to_ascii_ivoa;
use moc::deser::json::to_json_aladin;
use moc::moc::range::{CellSelection, RangeMOC};
use moc::moc::{CellMOCIterator, RangeMOCIntoIterator, RangeMOCIterator};
use moc::qty::Hpx;
use std::path::PathBuf;

#[derive(Clone)]
struct Entry {
  id: u64,
  st: char, // v d r
  m: Moc,   // 64-bit frame
}
impl Entry {
  fn wire(&self) -> String {
    let k = if self.m.d <= 13 { 32 } else { 0 };
    let r: Vec<(u64, u64)> = self.m.r.iter().map(|(a, b)| (a >> k, b >> k)).collect();
    format!("{} {} {} {}", self.st, self.id, self.m.d, ranges_str(&r))
  }
}

fn canon(mut r: Vec<(u64, u64)>) -> Vec<(u64, u64)> {
  r.retain(|(a, b)| a < b);
  r.sort_unstable();
  let mut out: Vec<(u64, u64)> = Vec::new();
  for (s, e) in r {
    if let Some(l) = out.last_mut() {
      if s <= l.1 {
        l.1 = l.1.max(e);
        continue;
      }
    }
    out.push((s, e));
  }
  out
}

const NCM: u64 = 12u64 << 58;

/// a region made of a few cells of depth dd located relative to the bounds of the stored MOCs
fn gen_region(rng: &mut Rng, ents: &[Entry]) -> Moc {
  let bounds: Vec<u64> = ents.iter().flat_map(|e| e.m.r.iter().flat_map(|(a, b)| [*a, *b])).collect();
  if bounds.is_empty() || rng.chance(1, 6) {
    let d = rng.range(0, 29) as u8;
    return gen_moc(rng, Q::S, 64, d, 3);
  }
  let dd = match rng.below(4) {
    0 => rng.range(0, 13),
    1 => 14,
    _ => rng.range(14, 29),
  } as u8;
  let sh = 2 * (29 - dd as u32);
  let mut r = Vec::new();
  for _ in 0..rng.range(1, 3) {
    let b = *rng.pick(&bounds);
    // a point next to the bound: just inside / just outside at the resolution of dd or of depth 29,
    // or strictly inside the depth-13 storage cell that starts / ends at the bound
    let p: u64 = match rng.below(8) {
      0 => b,
      1 => b.saturating_sub(1),
      2 => b.saturating_sub(1u64 << sh),
      3 => b + (1u64 << sh),
      4 => b + rng.below(1u64 << 32),
      5 => b.saturating_sub(1 + rng.below(1u64 << 32)),
      6 => b + (1u64 << 31),
      _ => b.saturating_sub(1u64 << 31),
    }
    .min(NCM - 1);
    let c = p >> sh;
    let len = if rng.chance(1, 4) { rng.range(1, 5) } else { 1 };
    r.push((c << sh, ((c + len) << sh).min(NCM)));
  }
  Moc { q: Q::S, w: 64, d: dd, r: canon(r) }
}

/// writes the region in the given format; returns the arguments for `moc <...>` (file, optional -f) and optional stdin
fn write_region(rng: &mut Rng, dir: &PathBuf, m: &Moc) -> (Vec<String>, Option<String>, String) {
  let mm: RangeMOC<u64, Hpx<u64>> = to_range_moc(m);
  let fmt = rng.below(5);
  match fmt {
    0 | 1 => {
      let mut buf: Vec<u8> = Vec::new();
      if fmt == 0 {
        to_ascii_ivoa((&mm).into_range_moc_iter().cells().cellranges(), &None, false, &mut buf).unwrap();
      } else {
        to_json_aladin((&mm).into_range_moc_iter().cells(), &None, "", &mut buf).unwrap();
      }
      let s = String::from_utf8(buf).unwrap();
      let (ext, name) = if fmt == 0 { ("txt", "ascii") } else { ("json", "json") };
      if rng.chance(1, 3) {
        (vec!["-".to_string(), "-f".to_string(), name.to_string()], Some(s), format!("{}-stdin", name))
      } else {
        let p = dir.join(format!("region.{}", ext));
        std::fs::write(&p, s).unwrap();
        if rng.chance(1, 2) {
          (vec![p.to_str().unwrap().to_string()], None, format!("{}-ext", name))
        } else {
          (vec![p.to_str().unwrap().to_string(), "-f".to_string(), name.to_string()], None, format!("{}-opt", name))
        }
      }
    }
    _ => {
      let w = if m.d <= 5 && rng.chance(1, 3) { 16 } else if m.d <= 13 && rng.chance(1, 2) { 32 } else { 64 };
      let p = dir.join("region.fits");
      write_moc_fits(&p, m, w);
      (vec![p.to_str().unwrap().to_string()], None, format!("fits-u{}", w))
    }
  }
}

fn parse_ids(stdout: &str, coverage: bool) -> Option<Vec<u64>> {
  let mut lines = stdout.lines();
  let h = lines.next()?;
  if h != if coverage { "id,moc_coverage" } else { "id" } {
    return None;
  }
  let mut v = Vec::new();
  for l in lines {
    let t = if coverage { l.split(',').next()? } else { l };
    v.push(t.trim().parse().ok()?);
  }
  Some(v)
}

fn population(rep: &mut Report, orc: &mut Oracle, rng: &mut Rng, scratch: &str, pid: u64, nq: u64) {
  let mocset = bin("mocset");
  let dir = PathBuf::from(scratch).join(format!("q{}", pid % 4));
  let _ = std::fs::remove_dir_all(&dir);
  std::fs::create_dir_all(&dir).unwrap();
  let file = dir.join("set.bin");
  let files = file.to_str().unwrap().to_string();
  // ---- population: related MOCs so that regions meet several of them
  let n = rng.range(1, 8) as usize;
  let mut ents: Vec<Entry> = Vec::new();
  let mut list = String::new();
  for k in 0..n {
    let d = match rng.below(6) {
      0 => rng.range(14, 29) as u8,
      1 => 13,
      2 => 14,
      _ => rng.range(0, 12) as u8,
    };
    let m = if rng.chance(1, 10) {
      Moc { q: Q::S, w: 64, d, r: vec![] }
    } else if !ents.is_empty() && rng.chance(1, 2) {
      let a = ents[rng.below(ents.len() as u64) as usize].m.clone();
      gen_related(rng, &a, d, 4)
    } else {
      gen_moc(rng, Q::S, 64, d, 4)
    };
    let w = if d <= 5 && rng.chance(1, 3) { 16 } else if d <= 13 && rng.chance(1, 2) { 32 } else { 64 };
    let p = dir.join(format!("m{}.fits", k));
    write_moc_fits(&p, &m, w);
    let id = 10 + k as u64;
    let dep = rng.chance(1, 4);
    list.push_str(&format!("{} {}\n", if dep { -(id as i64) } else { id as i64 }, p.to_str().unwrap()));
    ents.push(Entry { id, st: if dep { 'd' } else { 'v' }, m });
  }
  let lf = dir.join("list.txt");
  std::fs::write(&lf, &list).unwrap();
  let r = run_cmd(&mocset, &["make", "-l", lf.to_str().unwrap(), "-n", "1", &files], None);
  rep.evaluations += 1;
  if r.code != Some(0) {
    rep.violation("mocset make fails on a valid list", &format!("SETQ-make {:?}", list), &format!("exit {:?} {}", r.code, r.stderr), "", "C15");
    return;
  }
  // some entries removed / deprecated afterwards
  for e in ents.iter_mut() {
    if rng.chance(1, 6) {
      let st = if rng.chance(1, 2) { ("removed", 'r') } else { ("deprecated", 'd') };
      let r = run_cmd(&mocset, &["chgstatus", &files, st.0, &e.id.to_string()], None);
      rep.evaluations += 1;
      if r.code == Some(0) {
        e.st = st.1;
      }
    }
  }
  let ents_wire = format!("{} {}", ents.len(), ents.iter().map(|e| e.wire()).collect::<Vec<_>>().join(" "));
  // ---- queries
  for _ in 0..nq {
    let dep = rng.chance(1, 2);
    let par: Option<u64> = if rng.chance(1, 3) { Some(rng.range(1, 4)) } else { None };
    let cov = rng.chance(1, 5);
    let du = rng.range(0, 29) as u8;
    let kind = rng.below(10);
    let mut pre: Vec<String> = vec!["query".into(), files.clone()];
    if dep {
      pre.push("-d".into());
    }
    if cov {
      pre.push("-c".into());
    }
    if let Some(p) = par {
      pre.push("-p".into());
      pre.push(p.to_string());
    }
    let mut upre: Vec<String> = vec!["union".into(), files.clone()];
    if dep {
      upre.push("-d".into());
    }
    upre.push(du.to_string());
    let uout = dir.join("union_out.fits");
    let _ = std::fs::remove_file(&uout);
    let (qargs, stdin, wire, label): (Vec<String>, Option<String>, String, String) = if kind < 2 {
      // ---- position
      let live: Vec<&Entry> = ents.iter().filter(|e| !e.m.r.is_empty()).collect();
      let idx: u64 = if live.is_empty() || rng.chance(1, 5) {
        rng.below(NCM)
      } else {
        let e = live[rng.below(live.len() as u64) as usize];
        let (a, b) = e.m.r[rng.below(e.m.r.len() as u64) as usize];
        match rng.below(5) {
          0 => a,
          1 => b - 1,
          2 => b.min(NCM - 1),
          3 => a.saturating_sub(1),
          _ => a + rng.below(b - a),
        }
      };
      // centre of a cell of depth <= 29 containing idx
      let dd = rng.range(8, 29) as u8;
      let (lon, lat) = cdshealpix::nested::center(dd, idx >> (2 * (29 - dd as u32)));
      let (lons, lats) = (format!("{}", lon.to_degrees()), format!("{}", lat.to_degrees()));
      let (lon2, lat2) = (lons.parse::<f64>().unwrap().to_radians(), lats.parse::<f64>().unwrap().to_radians());
      if !(0.0..2.0 * std::f64::consts::PI).contains(&lon2) || !(-0.5 * std::f64::consts::PI..0.5 * std::f64::consts::PI).contains(&lat2) {
        continue;
      }
      let x = cdshealpix::nested::hash(29, lon2, lat2);
      (vec!["pos".into(), lons, lats], None, format!("SETQ p {} 1 {} 0 {} {}", dep as u8, x, du, ents_wire), "pos".into())
    } else if kind < 4 {
      // ---- cone: the harness builds the same region with the library call the tool makes
      let live: Vec<&Entry> = ents.iter().filter(|e| !e.m.r.is_empty()).collect();
      let idx = if live.is_empty() { rng.below(NCM) } else { let e = live[rng.below(live.len() as u64) as usize]; let (a, b) = e.m.r[rng.below(e.m.r.len() as u64) as usize]; if rng.chance(1, 2) { a } else { b - 1 } };
      // a third of the cones are centred INSIDE a stored MOC (on its first / last index); the others
      // are centred in a neighbouring cell just OUTSIDE a stored MOC, with a radius comparable to that
      // cell: the cone comes within a fraction of a cell of the border (touching it or not)
      let mut near: Option<(f64, f64, f64)> = None;
      if rng.chance(2, 3) && !live.is_empty() {
        let dd = *rng.pick(&[12u8, 13, 14, 14, 15, 15, 16, 16, 17, 18]);
        let c = idx >> (2 * (29 - dd as u32));
        let neigh: Vec<u64> = cdshealpix::nested::neighbours(dd, c, false).values_vec();
        let outside: Vec<u64> = neigh
          .into_iter()
          .filter(|n| {
            let (a, b) = (n << (2 * (29 - dd as u32)), (n + 1) << (2 * (29 - dd as u32)));
            !ents.iter().any(|e| e.m.r.iter().any(|&(s, t)| s < b && a < t))
          })
          .collect();
        if !outside.is_empty() {
          let n = outside[rng.below(outside.len() as u64) as usize];
          let (lo, la) = cdshealpix::nested::center(dd, n);
          let cell_arcsec = (4.0 * std::f64::consts::PI / (12.0 * 4f64.powi(dd as i32))).sqrt().to_degrees() * 3600.0;
          let f = *rng.pick(&[0.2, 0.35, 0.45, 0.5, 0.6, 0.8]);
          near = Some((lo, la, (cell_arcsec * f * 1000.0).round() / 1000.0));
        }
      }
      let (lon, lat) = match near { Some((lo, la, _)) => (lo, la), None => cdshealpix::nested::center(29, idx) };
      let (lons, lats) = (format!("{}", lon.to_degrees()), format!("{}", lat.to_degrees()));
      let (lon2, lat2) = (lons.parse::<f64>().unwrap().to_radians(), lats.parse::<f64>().unwrap().to_radians());
      if !(0.0..2.0 * std::f64::consts::PI).contains(&lon2) || !(-0.5 * std::f64::consts::PI..0.5 * std::f64::consts::PI).contains(&lat2) {
        continue;
      }
      let r_arcsec: f64 = match near { Some((_, _, r)) => r, None => *rng.pick(&[0.05, 1.0, 30.0, 600.0, 7200.0, 72000.0]) };
      let rs = format!("{}", r_arcsec);
      let r_rad = (rs.parse::<f64>().unwrap() / 3600.0).to_radians();
      let prec = rng.range(0, 3) as u8;
      let depth = if !cdshealpix::has_best_starting_depth(r_rad) { prec } else { (cdshealpix::best_starting_depth(r_rad) + prec).min(29) };
      let region = match catch(|| RangeMOC::<u64, Hpx<u64>>::from_cone(lon2, lat2, r_rad, depth, 2, CellSelection::All)) {
        Ok(m) => from_range_moc(Q::S, &m),
        Err(_) => continue,
      };
      let full = rng.chance(1, 2);
      let mut a: Vec<String> = vec!["cone".into(), lons, lats, rs, "-p".into(), prec.to_string()];
      if full {
        a.push("-i".into());
      }
      (a, None, format!("SETQ {} {} {} {} {}", if full { "c" } else { "i" }, dep as u8, ranges_str(&region.r), du, ents_wire), if near.is_some() { "cone-near-border".into() } else { "cone".into() })
    } else {
      // ---- MOC region
      let region = gen_region(rng, &ents);
      let full = rng.chance(1, 2);
      let (mut a, stdin, lab) = write_region(rng, &dir, &region);
      a.insert(0, "moc".into());
      if full {
        a.push("-i".into());
      }
      (a, stdin, format!("SETQ {} {} {} {} {}", if full { "c" } else { "i" }, dep as u8, ranges_str(&region.r), du, ents_wire), format!("moc:{}:d{}", lab, if region.d <= 13 { "le13" } else { "gt13" }))
    };
    let ans = orc.ask(&wire);
    let (exp_ids, exp_union): (Vec<u64>, Vec<(u64, u64)>) = match ans.strip_prefix("OK").and_then(|b| {
      let mut parts = b.split('|');
      let ids: Vec<u64> = parts.next()?.split_whitespace().skip(1).filter_map(|x| x.parse().ok()).collect();
      let u: Vec<u64> = parts.next()?.split_whitespace().skip(1).filter_map(|x| x.parse().ok()).collect();
      Some((ids, u.chunks(2).map(|c| (c[0], c[1])).collect()))
    }) {
      Some(x) => x,
      None => {
        rep.violation("oracle-error", &wire.chars().take(400).collect::<String>(), "", &ans.chars().take(200).collect::<String>(), "internal");
        continue;
      }
    };
    // ---- query
    let args: Vec<String> = pre.iter().cloned().chain(qargs.iter().cloned()).collect();
    let argr: Vec<&str> = args.iter().map(|s| s.as_str()).collect();
    let r = run_cmd(&mocset, &argr, stdin.as_deref());
    rep.evaluations += 1;
    rep.count(&format!("query:{}", label));
    rep.count(&format!("options:{}{}{}", if dep { "d" } else { "-" }, if par.is_some() { "p" } else { "-" }, if cov { "c" } else { "-" }));
    let shown = format!("{} # mocset {}", wire.chars().take(3000).collect::<String>(), args[2..].join(" "));
    let mut got = parse_ids(&r.stdout, cov);
    if let Some(g) = got.as_mut() {
      if par.is_some() {
        g.sort_unstable(); // the parallel mode prints in any order: same set required
      }
    }
    let mut exp_sorted = exp_ids.clone();
    if par.is_some() {
      exp_sorted.sort_unstable();
    }
    if r.code != Some(0) || got.as_ref() != Some(&exp_sorted) {
      rep.violation("mocset query does not report exactly the matching identifiers", &shown, &format!("exit {:?} ids {:?} {}", r.code, got, r.stderr.chars().take(200).collect::<String>()), &format!("{:?}", exp_sorted), "C15_query_exact / C15_position_query_exact");
      continue;
    }
    if !exp_ids.is_empty() {
      rep.nontrivial(&wire);
      rep.sample(&shown);
    }
    // ---- union with the same selection
    if rng.chance(1, 2) {
      let mut args: Vec<String> = upre.iter().cloned().chain(qargs.iter().cloned()).collect();
      args.push("fits".into());
      args.push(uout.to_str().unwrap().to_string());
      let argr: Vec<&str> = args.iter().map(|s| s.as_str()).collect();
      let r = run_cmd(&mocset, &argr, stdin.as_deref());
      rep.evaluations += 1;
      rep.count("union");
      let got = read_moc_fits(&uout);
      if r.code != Some(0) || got != Ok((du, exp_union.clone())) {
        rep.violation("mocset union is not the union of the selected MOCs at the requested depth", &format!("{} # mocset {}", wire.chars().take(3000).collect::<String>(), args[2..].join(" ")), &format!("exit {:?} {:?} {}", r.code, got, r.stderr.chars().take(200).collect::<String>()), &format!("{} {}", du, ranges_str(&exp_union)), "C15_union_exact");
      }
    }
  }
  // ---- union by identifiers
  let sel: Vec<u64> = ents.iter().filter(|_| rng.chance(1, 2)).map(|e| e.id).chain(std::iter::once(999)).collect();
  let du = rng.range(0, 29) as u8;
  let wire = format!("SETQ l 0 {} {} {} {}", sel.len(), sel.iter().map(|i| format!("{} 0", i)).collect::<Vec<_>>().join(" "), du, ents_wire);
  let ans = orc.ask(&wire);
  if let Some(u) = ans.split('|').nth(1) {
    let u: Vec<u64> = u.split_whitespace().skip(1).filter_map(|x| x.parse().ok()).collect();
    let exp: Vec<(u64, u64)> = u.chunks(2).map(|c| (c[0], c[1])).collect();
    let uout = dir.join("union_ids.fits");
    let ids = sel.iter().map(|i| i.to_string()).collect::<Vec<_>>().join(",");
    let r = run_cmd(&mocset, &["union", &files, &du.to_string(), "ids", &ids, "fits", uout.to_str().unwrap()], None);
    rep.evaluations += 1;
    rep.count("union-ids");
    let got = read_moc_fits(&uout);
    if r.code != Some(0) || got != Ok((du, exp.clone())) {
      rep.violation("mocset union ids is not the union of the listed MOCs", &wire.chars().take(3000).collect::<String>(), &format!("exit {:?} {:?} {}", r.code, got, r.stderr.chars().take(200).collect::<String>()), &format!("{} {}", du, ranges_str(&exp)), "C15_union_exact");
    }
  }
  let _ = std::fs::remove_dir_all(&dir);
}

pub fn run(ctx: &Ctx) -> Report {
  let mut rep = Report::default();
  let mut orc = Oracle::spawn();
  let mut rng = Rng::new(ctx.seed);
  rep.rule = "populations of 1-8 space MOCs (depth 0..29 = 32- and 64-bit storage, empty MOCs, FITS written with u16/u32/u64, valid / deprecated / removed) in a real moc-set file; queries: positions (centres of cells on the first / last index of a stored range, next to it, random), cones (centred on the first / last index of a stored range, or in a neighbouring cell of depth 11..18 just outside every stored MOC with a radius of 0.2-0.8 cell so that the cone comes close to a border; region rebuilt by the harness with the tool's own library call), MOC regions made of 1-3 cells of depth 0..29 placed on / just inside / just outside / strictly inside the storage cell at the bounds of the stored ranges, in ascii / json / fits (u16, u32, u64), given as file (extension or -f) or stdin; intersect and included mode; with / without deprecated; sequential, --parallel 1..4 (set comparison), --print-coverage; `mocset union` (same selections, and ids) at depths 0..29 decoded from its FITS output. non-trivial = query with a non-empty expected answer; distinct = distinct case line".to_string();
  let scratch = std::env::var("VERIF_SCRATCH").unwrap_or_else(|_| "/tmp".to_string());
  let _ = dispatch!(Q::S, 64, |T, QQ| 0);
  let np = ctx.n(40, 1_500);
  for i in 0..np {
    population(&mut rep, &mut orc, &mut rng, &scratch, i, 25);
  }
  rep.notes.push(format!("oracle calls: {}", orc.calls));
  rep
}
