//! C03 — membership / containment / overlap / measure queries agree with the covered set.
//! Oracle: extracted Query.{contains_val, contains_range, intersects_range, intersects,
//! contains, overlapped_by, msum, width} (theorems C03_*).
use crate::common::*;
use crate::dispatch;
use crate::iters::*;
use moc::elem::range::MocRange;
use moc::idx::Idx;
use moc::mom::{HpxMOMIterator, HpxMomIter, MOMIterator};
use moc::qty::{Hpx, MocQty};
use moc::moc::range::RangeMOC;
use moc::moc::{HasMaxDepth, RangeMOCIterator, RangeMOCIntoIterator};
use moc::ranges::SNORanges;
use std::ops::Range;

struct QObs {
  cv: Result<bool, String>,
  cr: Result<bool, String>,
  ir: Result<bool, String>,
  frac: Result<f64, String>,
  cdv: Result<bool, String>,
}

fn impl_queries<T: Idx, QQ: Inst<T>>(m: &Moc, qs: &[(u64, u64)]) -> Vec<QObs> {
  let mm: RangeMOC<T, QQ> = to_range_moc(m);
  qs.iter()
    .map(|&(a, b)| {
      let ta = T::from_u64(a);
      let r: Range<T> = T::from_u64(a)..T::from_u64(b);
      QObs {
        cv: catch(|| mm.contains_val(&ta)),
        cr: catch(|| mm.moc_ranges().contains_range(&r)),
        ir: catch(|| mm.moc_ranges().intersects_range(&r)),
        frac: catch(|| mm.range_fraction(&MocRange::<T, QQ>::from(r.clone()))),
        // the same point given as the index of its cell of the depth of the MOC
        cdv: catch(|| mm.contains_depth_max_val(&ta.unsigned_shr(<QQ as MocQty<T>>::shift_from_depth_max(m.d) as u32))),
      }
    })
    .collect()
}

struct CellObs {
  cc: Result<bool, String>,
  cf: Result<f64, String>,
}
fn impl_cell_queries<T: Idx, QQ: Inst<T>>(m: &Moc, cells: &[(u8, u64)]) -> Vec<CellObs> {
  let mm: RangeMOC<T, QQ> = to_range_moc(m);
  cells
    .iter()
    .map(|&(d, i)| CellObs {
      cc: catch(|| mm.contains_cell(d, T::from_u64(i))),
      cf: catch(|| mm.cell_fraction(d, T::from_u64(i))),
    })
    .collect()
}

struct MObs {
  inter: Result<bool, String>,
  inter_moc: Result<bool, String>,
  cont: Result<bool, String>,
  sum: Result<u64, String>,
  sum_it: Result<u64, String>,
  ndmc: Result<u64, String>,
  covp: Result<f64, String>,
  covp_it: Result<f64, String>,
  ovl: Result<Vec<(u64, u64)>, String>,
}
fn impl_moc_queries<T: Idx, QQ: Inst<T>>(a: &Moc, b: &Moc) -> MObs {
  let ma: RangeMOC<T, QQ> = to_range_moc(a);
  let mb: RangeMOC<T, QQ> = to_range_moc(b);
  MObs {
    inter: catch(|| ma.moc_ranges().intersects(mb.moc_ranges())),
    inter_moc: catch(|| ma.moc_ranges().ranges().intersects(mb.moc_ranges().ranges())),
    cont: catch(|| ma.moc_ranges().contains(mb.moc_ranges())),
    sum: catch(|| ma.range_sum().to_u64()),
    sum_it: catch(|| (&ma).into_range_moc_iter().range_sum().to_u64()),
    ndmc: catch(|| ma.n_depth_max_cells().to_u64()),
    covp: catch(|| ma.coverage_percentage()),
    covp_it: catch(|| (&ma).into_range_moc_iter().coverage_percentage()),
    ovl: catch(|| ranges_of(ma.overlapped_by_iter(&mb))),
  }
}

fn close(x: f64, num: u64, den: u64) -> bool {
  if den == 0 {
    return false;
  }
  if num == 0 {
    return x == 0.0;
  }
  if num == den {
    return x == 1.0;
  }
  let e = num as f64 / den as f64;
  // strictly partial cover: the documented tolerance is that of an f64 quotient after both
  // operands were reduced to 52 bits (absolute error < 2^-50); the result stays inside [0,1]
  (0.0..=1.0).contains(&x) && (x - e).abs() <= 1e-12
}

fn bres(r: &Result<bool, String>) -> String {
  match r {
    Ok(b) => format!("{}", *b as u8),
    Err(p) => p.clone(),
  }
}

pub fn check_case(rep: &mut Report, orc: &mut Oracle, m: &Moc, qs: &[(u64, u64)], b: &Moc) -> bool {
  let mut ok = true;
  // --- value / range queries
  let case = format!("QRY {} {} # q={} w={} d={}", ranges_str(&m.r), ranges_str(qs), m.q.c(), m.w, m.d);
  let ans = orc.ask(case.split('#').next().unwrap());
  let toks: Vec<&str> = ans.split_whitespace().collect();
  if toks.first() != Some(&"OK") || toks.len() != 1 + 4 * qs.len() {
    rep.violation("oracle-error", &case, "", &ans, "internal");
    return false;
  }
  let obs = dispatch!(m.q, m.w, |T, QQ| impl_queries::<T, QQ>(m, qs));
  for (i, (o, &(a, bb))) in obs.iter().zip(qs.iter()).enumerate() {
    let cv = toks[1 + 4 * i] == "1";
    let cr = toks[2 + 4 * i] == "1";
    let ir = toks[3 + 4 * i] == "1";
    let w: u64 = toks[4 + 4 * i].parse().unwrap_or(u64::MAX);
    rep.evaluations += 4;
    let mut bad = |what: &str, implv: String, modelv: String, thm: &str, rep: &mut Report| {
      rep.violation(
        &format!("{} differs from the covered set", what),
        &format!("QRY {} 1 {} {} # q={} w={} d={}", ranges_str(&m.r), a, bb, m.q.c(), m.w, m.d),
        &implv,
        &modelv,
        thm,
      );
    };
    if o.cv != Ok(cv) {
      ok = false;
      bad("contains_val", bres(&o.cv), format!("{}", cv as u8), "C03_contains_val", rep);
    }
    if o.cdv != Ok(cv) {
      ok = false;
      bad("contains_depth_max_val (the cell of the MOC depth that holds the point)", bres(&o.cdv), format!("{}", cv as u8), "C03_contains_val", rep);
    }
    if o.cr != Ok(cr) {
      ok = false;
      bad("contains_range", bres(&o.cr), format!("{}", cr as u8), "C03_contains_range", rep);
    }
    if o.ir != Ok(ir) {
      ok = false;
      bad("intersects_range", bres(&o.ir), format!("{}", ir as u8), "C03_intersects_range", rep);
    }
    match &o.frac {
      Ok(x) if close(*x, w, bb - a) => {}
      other => {
        ok = false;
        bad("range_fraction", format!("{:?}", other), format!("{}/{}", w, bb - a), "C03_fraction_zero / C03_fraction_one", rep);
      }
    }
  }
  rep.count("queries:value/range");
  if !m.r.is_empty() {
    rep.nontrivial(&case);
  }
  rep.sample(&format!("{} => {}", case, ans));

  // --- cell queries derived from the range queries: cells of depth <= max containing a bound
  let md = m.q.max_depth(m.w);
  let mut cells: Vec<(u8, u64)> = Vec::new();
  for (k, &(a, _)) in qs.iter().enumerate().take(6) {
    let d = ((k as u8) * 7 + m.d) % (md + 1);
    let sh = m.q.shift(m.w, d);
    cells.push((d, a >> sh));
  }
  let cell_ranges: Vec<(u64, u64)> = cells.iter().map(|&(d, i)| { let sh = m.q.shift(m.w, d); (i << sh, (i + 1) << sh) }).collect();
  let ans2 = orc.ask(&format!("QRY {} {}", ranges_str(&m.r), ranges_str(&cell_ranges)));
  let t2: Vec<&str> = ans2.split_whitespace().collect();
  if t2.len() == 1 + 4 * cells.len() {
    let cobs = dispatch!(m.q, m.w, |T, QQ| impl_cell_queries::<T, QQ>(m, &cells));
    for (i, o) in cobs.iter().enumerate() {
      rep.evaluations += 2;
      let cr = t2[2 + 4 * i] == "1";
      let w: u64 = t2[4 + 4 * i].parse().unwrap_or(u64::MAX);
      let (a, bb) = cell_ranges[i];
      if o.cc != Ok(cr) {
        ok = false;
        rep.violation("contains_cell differs from the covered set", &format!("CELL {} {} in {}", cells[i].0, cells[i].1, m.line()), &bres(&o.cc), &format!("{}", cr as u8), "C03_contains_range");
      }
      match &o.cf {
        Ok(x) if close(*x, w, bb - a) => {}
        other => {
          ok = false;
          rep.violation("cell_fraction differs from the covered set", &format!("CELL {} {} in {}", cells[i].0, cells[i].1, m.line()), &format!("{:?}", other), &format!("{}/{}", w, bb - a), "C03_fraction_zero / C03_fraction_one");
        }
      }
    }
    rep.count("queries:cell");
  }

  // --- MOC x MOC queries
  let case3 = format!("QMOC {} {} # q={} w={} dA={} dB={}", ranges_str(&m.r), ranges_str(&b.r), m.q.c(), m.w, m.d, b.d);
  let ans3 = orc.ask(case3.split('#').next().unwrap());
  let t3: Vec<&str> = ans3.split_whitespace().collect();
  if t3.first() != Some(&"OK") || t3.len() < 5 {
    rep.violation("oracle-error", &case3, "", &ans3, "internal");
    return false;
  }
  let e_inter = t3[1] == "1";
  let e_cont = t3[2] == "1";
  let e_sum: u64 = t3[3].parse().unwrap_or(u64::MAX);
  let n: usize = t3[4].parse().unwrap_or(0);
  let e_ovl: Vec<(u64, u64)> = (0..n).map(|i| (t3[5 + 2 * i].parse().unwrap(), t3[6 + 2 * i].parse().unwrap())).collect();
  let o = dispatch!(m.q, m.w, |T, QQ| impl_moc_queries::<T, QQ>(m, b));
  rep.evaluations += 9;
  let mut bad = |what: &str, implv: String, modelv: String, thm: &str, rep: &mut Report| {
    rep.violation(&format!("{} differs from the covered set", what), &case3, &implv, &modelv, thm);
  };
  if o.inter != Ok(e_inter) {
    ok = false;
    bad("intersects (MocRanges)", bres(&o.inter), format!("{}", e_inter as u8), "C03_intersects", rep);
  }
  if o.inter_moc != Ok(e_inter) {
    ok = false;
    bad("intersects (Ranges)", bres(&o.inter_moc), format!("{}", e_inter as u8), "C03_intersects", rep);
  }
  if o.cont != Ok(e_cont) {
    ok = false;
    bad("contains (sub-set test)", bres(&o.cont), format!("{}", e_cont as u8), "C03_subset", rep);
  }
  if o.sum != Ok(e_sum) || o.sum_it != Ok(e_sum) {
    ok = false;
    bad("range_sum", format!("{:?} {:?}", o.sum, o.sum_it), format!("{}", e_sum), "C03_range_sum_is_full_width", rep);
  }
  let sh = m.q.shift(m.w, m.d);
  if o.ndmc != Ok(e_sum >> sh) {
    ok = false;
    bad("n_depth_max_cells", format!("{:?}", o.ndmc), format!("{}", e_sum >> sh), "C03_range_sum_is_full_width", rep);
  }
  let ncm = m.q.n_cells_max(m.w);
  for cp in [&o.covp, &o.covp_it] {
    match cp {
      Ok(x) if close(*x, e_sum, ncm) => {}
      other => {
        ok = false;
        bad("coverage_percentage", format!("{:?}", other), format!("{}/{}", e_sum, ncm), "C03_range_sum_is_full_width", rep);
      }
    }
  }
  if o.ovl.as_ref().ok() != Some(&e_ovl) {
    ok = false;
    bad("overlapped_by_iter", format!("{:?}", o.ovl), ranges_str(&e_ovl), "C03_overlapped_by (+ never fails on an empty MOC)", rep);
  }
  rep.count("queries:moc-x-moc");
  if !m.r.is_empty() && !b.r.is_empty() {
    rep.nontrivial(&case3);
  }
  rep.sample(&format!("{} => {}", case3, ans3));
  ok
}


// ------------------------------------------------------------------ multi-order map
struct MomObs {
  sum_hpx: Result<f64, String>,
  sum_zuniq: Result<f64, String>,
  filt: Result<Vec<(f64, f64)>, String>,
}
fn impl_mom<T: Idx>(m: &Moc, cells: &[(u8, u64, i64)]) -> MomObs {
  let mm: RangeMOC<T, Hpx<T>> = to_range_moc(m);
  let uniq: Vec<(T, f64)> = cells.iter().map(|&(d, i, v)| (Hpx::<T>::uniq_hpx(d, T::from_u64(i)), v as f64)).collect();
  let zuniq: Vec<(T, f64)> = cells.iter().map(|&(d, i, v)| (<Hpx<T> as moc::qty::MocQty<T>>::to_zuniq(d, T::from_u64(i)), v as f64)).collect();
  MomObs {
    sum_hpx: catch(|| HpxMomIter::<T, Hpx<T>, f64, _>::new(uniq.clone().into_iter()).sum_values_in_hpxmoc(&mm)),
    sum_zuniq: catch(|| HpxMomIter::<T, Hpx<T>, f64, _>::new(zuniq.clone().into_iter()).sum_values_in_moc(&mm)),
    filt: catch(|| HpxMomIter::<T, Hpx<T>, f64, _>::new(uniq.clone().into_iter()).retain_values_with_weights_in_hpxmoc(&mm).collect()),
  }
}

/// MOM cells derived from the MOC: cells shallower than, at, and deeper than the MOC depth that
/// contain / neighbour one of its bounds, plus random ones; small integer values (some negative)
fn derive_mom(rng: &mut Rng, m: &Moc) -> Vec<(u8, u64, i64)> {
  let md = m.q.max_depth(m.w);
  let mut cells = Vec::new();
  let k = rng.range(0, 8);
  let mut bounds: Vec<u64> = m.r.iter().flat_map(|&(s, e)| [s, e]).collect();
  bounds.push(0);
  let ncm = m.q.n_cells_max(m.w);
  for _ in 0..k {
    let d = match rng.below(4) {
      0 => rng.range(0, md as u64) as u8,
      1 => m.d,
      2 => m.d.saturating_sub(rng.range(1, 3) as u8),
      _ => (m.d + rng.range(1, 3) as u8).min(md),
    };
    let sh = m.q.shift(m.w, d);
    let ncells = ncm >> sh;
    let base = if rng.chance(3, 4) { bounds[rng.below(bounds.len() as u64) as usize] } else { rng.below(ncm) };
    let mut i = (base >> sh) as i64 + rng.range(0, 2) as i64 - 1;
    if i < 0 { i = 0; }
    let i = (i as u64).min(ncells - 1);
    let v = rng.range(0, 72) as i64 - 8;
    cells.push((d, i, v));
  }
  cells
}

pub fn check_mom(rep: &mut Report, orc: &mut Oracle, m: &Moc, cells: &[(u8, u64, i64)]) -> bool {
  if m.q != Q::S {
    return true;
  }
  let mut ok = true;
  let kv = |f: &dyn Fn(u8, u64) -> u64| -> String {
    let mut s = format!("{}", cells.len());
    for &(d, i, v) in cells {
      s.push_str(&format!(" {} {}", f(d, i), v));
    }
    s
  };
  let md = m.q.max_depth(m.w);
  let uniq = |d: u8, i: u64| i + (4u64 << (2 * d as u32));
  let zuniq = |d: u8, i: u64| ((i << 1) | 1) << (2 * (md - d) as u32);
  let case_h = format!("MOM hpx s {} {} {} # d={}", m.w, ranges_str(&m.r), kv(&uniq), m.d);
  let case_z = format!("MOM zuniq s {} {} {} # d={}", m.w, ranges_str(&m.r), kv(&zuniq), m.d);
  let ans_h = orc.ask(case_h.split('#').next().unwrap());
  let ans_z = orc.ask(case_z.split('#').next().unwrap());
  let th: Vec<&str> = ans_h.split_whitespace().collect();
  let tz: Vec<&str> = ans_z.split_whitespace().collect();
  if th.first() != Some(&"OK") || th.len() < 3 || tz.first() != Some(&"OK") || tz.len() != 2 {
    rep.violation("oracle-error", &case_h, "", &format!("{} | {}", ans_h, ans_z), "internal");
    return false;
  }
  let s0 = 2 * md as i32; // shift of depth 0
  let expect = |num: &str| -> f64 { num.parse::<f64>().unwrap() * (2.0f64).powi(-s0) };
  let abs_v: f64 = cells.iter().map(|c| (c.2 as f64).abs()).sum();
  let tol = 1e-11 * (1.0 + abs_v);
  let o = match m.w {
    16 => impl_mom::<u16>(m, cells),
    32 => impl_mom::<u32>(m, cells),
    _ => impl_mom::<u64>(m, cells),
  };
  rep.evaluations += 3;
  for (what, got, num, case) in [("sum_values_in_hpxmoc", &o.sum_hpx, th[1], &case_h), ("sum_values_in_moc (zuniq keys)", &o.sum_zuniq, tz[1], &case_z)] {
    let e = expect(num);
    match got {
      Ok(x) if (x - e).abs() <= tol => {}
      other => {
        ok = false;
        rep.violation(&format!("{} differs from the sum of value x covered fraction", what), case, &format!("{:?}", other), &format!("{} (= {} / 2^{})", e, num, s0), "C03_mom_weighted_sum_exact");
      }
    }
  }
  // the filter: (value, cell_area x fraction) for the cells of positive fraction, in order
  let n: usize = th[2].parse().unwrap_or(usize::MAX);
  let mut exp_f: Vec<(f64, f64, u64, u64)> = Vec::new();
  if th.len() == 3 + 3 * n {
    for j in 0..n {
      let v: f64 = th[3 + 3 * j].parse().unwrap();
      let wd: u64 = th[4 + 3 * j].parse().unwrap();
      let sh: u32 = th[5 + 3 * j].parse().unwrap();
      let depth = md as u32 - sh / 2;
      let area = std::f64::consts::FRAC_PI_3 / (1u64 << (2 * depth)) as f64;
      exp_f.push((v, area, wd, 1u64 << sh));
    }
    // an entry whose exact fraction is below the tolerance of the f64 quotient (the code drops
    // the low bits of both operands when the cell is wider than 2^52) may legitimately come out
    // as 0.0 and be skipped; every other expected entry must be present, in order
    let optional = |wd: u64, size: u64| (wd as f64 / size as f64) <= 1e-12;
    let good = match &o.filt {
      Ok(f) => {
        let mut j = 0usize;
        let mut all = true;
        for &(v, wgt) in f.iter() {
          while j < n && !(v == exp_f[j].0 && close(wgt / exp_f[j].1, exp_f[j].2, exp_f[j].3)) && optional(exp_f[j].2, exp_f[j].3) {
            j += 1;
          }
          if j < n && v == exp_f[j].0 && close(wgt / exp_f[j].1, exp_f[j].2, exp_f[j].3) && wgt > 0.0 {
            j += 1;
          } else {
            all = false;
            break;
          }
        }
        all && exp_f[j.min(n)..].iter().all(|e| optional(e.2, e.3))
      }
      Err(_) => false,
    };
    if !good {
      ok = false;
      rep.violation("retain_values_with_weights_in_hpxmoc differs from (value, area x covered fraction) of the cells of positive fraction", &case_h, &format!("{:?}", o.filt), &format!("{:?}", exp_f.iter().map(|&(v, a, w, s)| (v, a, w, s)).collect::<Vec<_>>()), "C03_mom_filter");
    }
  } else {
    rep.violation("oracle-error", &case_h, "", &ans_h, "internal");
    return false;
  }
  rep.count("queries:multi-order-map");
  if !m.r.is_empty() && !cells.is_empty() {
    rep.nontrivial(&case_h);
  }
  rep.sample(&format!("{} => {}", case_h, ans_h));
  ok
}

/// query ranges derived from the MOC's own bounds
fn derive_queries(rng: &mut Rng, m: &Moc) -> Vec<(u64, u64)> {
  let ncm = m.q.n_cells_max(m.w);
  let mut pts: Vec<u64> = vec![0, 1, ncm - 1, ncm];
  for (s, e) in &m.r {
    for b in [*s, *e] {
      for d in [-1i64, 0, 1] {
        let x = b as i64 + d;
        if x >= 0 && (x as u64) <= ncm {
          pts.push(x as u64);
        }
      }
    }
  }
  for _ in 0..4 {
    pts.push(rng.below(ncm + 1));
  }
  let mut qs = Vec::new();
  // every bound paired with a few others
  for i in 0..pts.len() {
    for _ in 0..2 {
      let j = rng.below(pts.len() as u64) as usize;
      let (a, b) = (pts[i].min(pts[j]), pts[i].max(pts[j]));
      if a < b && a < ncm {
        qs.push((a, b));
      }
    }
    if pts[i] < ncm {
      qs.push((pts[i], pts[i] + 1));
    }
  }
  // ranges equal to the MOC's ranges, and spanning two consecutive ranges
  for w in m.r.windows(2) {
    qs.push((w[0].0, w[1].1));
    qs.push((w[0].1, w[1].0));
  }
  for r in &m.r {
    qs.push(*r);
  }
  if qs.len() > 60 {
    rng.shuffle(&mut qs);
    qs.truncate(60);
  }
  qs
}

pub fn run(ctx: &Ctx) -> Report {
  let mut rep = Report::default();
  let mut orc = Oracle::spawn();
  let mut rng = Rng::new(ctx.seed);
  rep.rule = "MOCs: all canonical lists over a 5-slot domain at both ends of each (quantity,width) domain + structured random MOCs (<= 40 ranges, all depths); queries are DERIVED from the MOC's own bounds (b-1,b,b+1, ranges equal to / spanning / between the MOC's ranges, beyond the last range, first/last index) plus random ones; second MOC related to the first (equal, gaps, touching, separated, nested, interleaved, empty). non-trivial = MOC non-empty (value/range queries), both non-empty (MOC x MOC); distinct = distinct case line".to_string();
  // exhaustive small scope
  let lists = all_canonical(5);
  for q in ALL_Q {
    for w in ALL_W {
      let d: u8 = if q == Q::S { 0 } else { 4 };
      let sh = q.shift(w, d);
      let ncells = q.nd0() << (q.dim() * d as u32);
      for top in [false, true] {
        let off = if top { ncells - 5 } else { 0 };
        let mk = |l: &Vec<(u64, u64)>| Moc { q, w, d, r: l.iter().map(|(s, e)| ((s + off) << sh, (e + off) << sh)).collect() };
        for (i, la) in lists.iter().enumerate() {
          let a = mk(la);
          let b = mk(&lists[(i * 7 + 3) % lists.len()]);
          let qs = derive_queries(&mut rng, &a);
          check_case(&mut rep, &mut orc, &a, &qs, &b);
          let b2 = mk(&lists[(i * 13 + 5) % lists.len()]);
          check_case(&mut rep, &mut orc, &a, &[], &b2);
          if q == Q::S {
            let cells = derive_mom(&mut rng, &a);
            check_mom(&mut rep, &mut orc, &a, &cells);
          }
        }
      }
    }
  }
  let n = ctx.n(3_000, 100_000);
  for _ in 0..n {
    let q = ALL_Q[rng.below(3) as usize];
    let w = ALL_W[rng.below(3) as usize];
    let md = q.max_depth(w);
    let da = rng.range(0, md as u64) as u8;
    let db = rng.range(0, md as u64) as u8;
    let maxr = if rng.chance(1, 10) { 40 } else { 6 };
    let a = gen_moc(&mut rng, q, w, da, maxr);
    let b = gen_related(&mut rng, &a, db, maxr);
    let qs = derive_queries(&mut rng, &a);
    if rng.chance(1, 2) {
      check_case(&mut rep, &mut orc, &a, &qs, &b);
    } else {
      let qs2 = derive_queries(&mut rng, &b);
      check_case(&mut rep, &mut orc, &b, &qs2, &a);
    }
    if q == Q::S {
      let cells = derive_mom(&mut rng, &a);
      check_mom(&mut rep, &mut orc, &a, &cells);
    }
  }
  rep.notes.push(format!("oracle calls: {}", orc.calls));
  rep
}
