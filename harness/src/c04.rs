//! C04 — lazy operator pipelines equal eager evaluation; hints never lie.
//! Random operator trees over leaves of the five source kinds.  For the root AND
//! for every sub-tree (rebuilt stand-alone) a monitor records size_hint() and
//! peek_last() before every next() and checks them against what is then yielded.
//! The root is compared with the extracted eager reference (Expr.eval; theorems
//! C04_eager_reference_correct, C04_pipeline_output_determined) and is also piped
//! into the FITS writer (which trusts size_hint) and read back.
use crate::common::*;
use crate::dispatch;
use crate::iters::*;
use moc::deser::fits::ranges_to_fits_ivoa;
use moc::idx::Idx;
use moc::moc::range::RangeMOC;
use moc::moc::{
  CellMOCIterator, CellOrCellRangeMOCIterator, HasMaxDepth, RangeMOCIterator,
};
use std::ops::Range;

#[derive(Clone, Debug)]
pub enum Tree {
  Leaf(u64, Moc), // source kind, moc
  Op2(u8, Box<Tree>, Box<Tree>), // 0 and 1 or 2 xor 3 minus
  Not(Box<Tree>),
  Deg(u8, Box<Tree>),
  Id(u8, Box<Tree>), // 0 cells->ranges 1 cells->cellranges->ranges 2 merge? (unused) 3 check 4 collect+borrow
}
const OPC: [&str; 4] = ["A", "O", "X", "M"];

impl Tree {
  pub fn encode(&self) -> String {
    match self {
      Tree::Leaf(_, m) => format!("L {}", m.dr()),
      Tree::Op2(o, a, b) => format!("{} {} {}", OPC[*o as usize], a.encode(), b.encode()),
      Tree::Not(a) => format!("N {}", a.encode()),
      Tree::Deg(t, a) => format!("D {} {}", t, a.encode()),
      Tree::Id(k, a) => format!("I {} {}", k, a.encode()),
    }
  }
  /// human readable with source kinds
  pub fn show(&self) -> String {
    match self {
      Tree::Leaf(k, m) => format!("{}[{}]", SRC_NAMES[*k as usize], m.dr()),
      Tree::Op2(o, a, b) => format!("{}({}, {})", ["and", "or", "xor", "minus"][*o as usize], a.show(), b.show()),
      Tree::Not(a) => format!("not({})", a.show()),
      Tree::Deg(t, a) => format!("degrade{}({})", t, a.show()),
      Tree::Id(k, a) => format!("{}({})", ["cells.ranges", "cells.cellranges.ranges", "merge", "check", "collect"][*k as usize], a.show()),
    }
  }
  pub fn subtrees(&self, out: &mut Vec<Tree>) {
    out.push(self.clone());
    match self {
      Tree::Leaf(..) => {}
      Tree::Op2(_, a, b) => {
        a.subtrees(out);
        b.subtrees(out);
      }
      Tree::Not(a) | Tree::Deg(_, a) | Tree::Id(_, a) => a.subtrees(out),
    }
  }
  pub fn size(&self) -> usize {
    let mut v = Vec::new();
    self.subtrees(&mut v);
    v.len()
  }
  fn leaves_nonempty(&self) -> bool {
    match self {
      Tree::Leaf(_, m) => !m.r.is_empty(),
      Tree::Op2(_, a, b) => a.leaves_nonempty() && b.leaves_nonempty(),
      Tree::Not(a) | Tree::Deg(_, a) | Tree::Id(_, a) => a.leaves_nonempty(),
    }
  }
}

/// collect the leaves as RangeMOCs (arena) in traversal order
fn collect_leaves<T: Idx, QQ: Inst<T>>(t: &Tree, arena: &mut Vec<RangeMOC<T, QQ>>) {
  match t {
    Tree::Leaf(_, m) => arena.push(to_range_moc(m)),
    Tree::Op2(_, a, b) => {
      collect_leaves(a, arena);
      collect_leaves(b, arena);
    }
    Tree::Not(a) | Tree::Deg(_, a) | Tree::Id(_, a) => collect_leaves(a, arena),
  }
}

fn build<'a, T: Idx, QQ: Inst<T>>(t: &Tree, arena: &'a [RangeMOC<T, QQ>], next_leaf: &mut usize) -> DynIt<'a, T, QQ> {
  match t {
    Tree::Leaf(k, _) => {
      let i = *next_leaf;
      *next_leaf += 1;
      leaf(*k, &arena[i])
    }
    Tree::Op2(o, a, b) => {
      let la = build(a, arena, next_leaf);
      let lb = build(b, arena, next_leaf);
      match o {
        0 => DynIt::new(la.and(lb)),
        1 => DynIt::new(la.or(lb)),
        2 => DynIt::new(la.xor(lb)),
        _ => DynIt::new(la.minus(lb)),
      }
    }
    Tree::Not(a) => DynIt::new(build(a, arena, next_leaf).not()),
    Tree::Deg(d, a) => DynIt::new(build(a, arena, next_leaf).degrade(*d)),
    Tree::Id(k, a) => {
      let it = build(a, arena, next_leaf);
      match k {
        0 => DynIt::new(it.cells().ranges()),
        1 => DynIt::new(it.cells().cellranges().ranges()),
        3 => DynIt::new(it.into_checked()),
        _ => DynIt::new(it.into_range_moc().into_range_moc_iter_owned()),
      }
    }
  }
}

trait IntoOwnedIt<T: Idx, QQ: Inst<T>> {
  fn into_range_moc_iter_owned(self) -> moc::moc::range::RangeMocIter<T, QQ>;
}
impl<T: Idx, QQ: Inst<T>> IntoOwnedIt<T, QQ> for RangeMOC<T, QQ> {
  fn into_range_moc_iter_owned(self) -> moc::moc::range::RangeMocIter<T, QQ> {
    use moc::moc::RangeMOCIntoIterator;
    self.into_range_moc_iter()
  }
}

pub struct Monitored {
  pub depth: u8,
  pub yielded: Vec<(u64, u64)>,
  pub hint_errors: Vec<String>,
}

/// consume `it` completely, recording hints before every next()
fn consume_monitored<T: Idx, I: RangeMOCIterator<T>>(mut it: I) -> Monitored {
  let depth = it.depth_max();
  let mut hints: Vec<((usize, Option<usize>), Option<(u64, u64)>)> = Vec::new();
  let mut yielded: Vec<(u64, u64)> = Vec::new();
  loop {
    let sh = it.size_hint();
    let pl = it.peek_last().map(|r| (r.start.to_u64(), r.end.to_u64()));
    hints.push((sh, pl));
    match it.next() {
      Some(Range { start, end }) => yielded.push((start.to_u64(), end.to_u64())),
      None => break,
    }
    if yielded.len() > 100_000 {
      break;
    }
  }
  let total = yielded.len();
  let mut errs = Vec::new();
  for (i, ((lo, hi), pl)) in hints.iter().enumerate() {
    let remaining = total - i.min(total);
    if *lo > remaining {
      errs.push(format!("size_hint lower bound {} > {} ranges actually remaining (before next() #{})", lo, remaining, i));
    }
    if let Some(h) = hi {
      if *h < remaining {
        errs.push(format!("size_hint upper bound {} < {} ranges actually remaining (before next() #{})", h, remaining, i));
      }
    }
    if let Some((_, pe)) = pl {
      if let Some(mx) = yielded[i.min(total)..].iter().map(|r| r.1).max() {
        if mx > *pe {
          errs.push(format!("peek_last end {} < end {} of a range yielded later (before next() #{})", pe, mx, i));
        }
      }
    }
    if errs.len() > 3 {
      break;
    }
  }
  Monitored { depth, yielded, hint_errors: errs }
}

fn run_tree<T: Idx, QQ: Inst<T>>(t: &Tree) -> Result<Monitored, String> {
  let mut arena: Vec<RangeMOC<T, QQ>> = Vec::new();
  collect_leaves(t, &mut arena);
  catch(|| {
    let mut k = 0;
    let it = build(t, &arena, &mut k);
    consume_monitored(it)
  })
}

/// pipe the lazy pipeline into the FITS writer, read back
fn fits_roundtrip<T: Idx, QQ: Inst<T>>(t: &Tree) -> Result<Result<(u8, Vec<(u64, u64)>), String>, String> {
  let mut arena: Vec<RangeMOC<T, QQ>> = Vec::new();
  collect_leaves(t, &mut arena);
  catch(|| {
    let mut k = 0;
    let it = build(t, &arena, &mut k);
    let mut bytes: Vec<u8> = Vec::new();
    match ranges_to_fits_ivoa(it, None, None, &mut bytes) {
      Err(e) => Err(format!("fits write error: {:?}", e)),
      Ok(()) => match QQ::fits_stream(bytes) {
        None => Err("fits read error".to_string()),
        Some(rd) => {
          let d = rd.depth_max();
          Ok((d, ranges_of(rd)))
        }
      },
    }
  })
}

fn parse_ok_moc(ans: &str) -> Option<(u8, Vec<(u64, u64)>)> {
  let mut t = ans.split_whitespace();
  if t.next()? != "OK" {
    return None;
  }
  let d: u8 = t.next()?.parse().ok()?;
  let n: usize = t.next()?.parse().ok()?;
  let mut r = Vec::with_capacity(n);
  for _ in 0..n {
    r.push((t.next()?.parse().ok()?, t.next()?.parse().ok()?));
  }
  Some((d, r))
}

pub fn check_tree(rep: &mut Report, orc: &mut Oracle, q: Q, w: u8, t: &Tree, with_subtrees: bool) -> bool {
  let mut ok = true;
  let case = format!("EXPR {} {} {}", q.c(), w, t.encode());
  let ans = orc.ask(&case);
  let exp = match parse_ok_moc(&ans) {
    Some(x) => x,
    None => {
      rep.violation("oracle-error", &case, "", &ans, "internal");
      return false;
    }
  };
  let shown = format!("{} # {}", case, t.show());
  rep.evaluations += 1;
  match dispatch!(q, w, |T, QQ| run_tree::<T, QQ>(t)) {
    Err(p) => {
      ok = false;
      rep.violation("lazy pipeline panics", &shown, &p, &ans, "C04_eager_reference_correct");
    }
    Ok(m) => {
      if (m.depth, &m.yielded) != (exp.0, &exp.1) {
        ok = false;
        rep.violation("lazy pipeline differs from eager evaluation", &shown, &format!("OK {} {}", m.depth, ranges_str(&m.yielded)), &ans, "C04_pipeline_output_determined");
      }
      for e in &m.hint_errors {
        ok = false;
        rep.violation(&format!("hint inconsistent with what is yielded: {}", e), &shown, e, "", "C04 hint clause");
      }
    }
  }
  // FITS writer fed by the lazy pipeline
  rep.evaluations += 1;
  match dispatch!(q, w, |T, QQ| fits_roundtrip::<T, QQ>(t)) {
    Err(p) => {
      ok = false;
      rep.violation("FITS writer fed by the lazy pipeline panics", &shown, &p, &ans, "C04 hint clause (serialiser fast path)");
    }
    Ok(Err(e)) => {
      ok = false;
      rep.violation("FITS writer fed by the lazy pipeline fails", &shown, &e, &ans, "C04 hint clause (serialiser fast path)");
    }
    Ok(Ok(got)) => {
      if got != exp {
        ok = false;
        rep.violation("FITS written from the lazy pipeline decodes to another MOC", &shown, &format!("OK {} {}", got.0, ranges_str(&got.1)), &ans, "C04 hint clause (serialiser fast path)");
      }
    }
  }
  if with_subtrees {
    let mut subs = Vec::new();
    t.subtrees(&mut subs);
    for s in subs.iter().skip(1) {
      if let Tree::Leaf(..) = s {
        // leaves too: their hints are what the operators consume
      }
      rep.evaluations += 1;
      match dispatch!(q, w, |T, QQ| run_tree::<T, QQ>(s)) {
        Err(p) => {
          ok = false;
          rep.violation("lazy sub-pipeline panics", &format!("EXPR {} {} {} # {}", q.c(), w, s.encode(), s.show()), &p, "", "C04_eager_reference_correct");
        }
        Ok(m) => {
          for e in &m.hint_errors {
            ok = false;
            rep.violation(&format!("hint inconsistent with what is yielded: {}", e), &format!("EXPR {} {} {} # {}", q.c(), w, s.encode(), s.show()), e, "", "C04 hint clause");
          }
        }
      }
    }
  }
  if t.leaves_nonempty() && t.size() >= 3 {
    rep.nontrivial(&shown);
  }
  rep.sample(&format!("{} => {}", shown, ans));
  ok
}

fn gen_tree(rng: &mut Rng, q: Q, w: u8, height: u32, base: &Moc) -> Tree {
  let md = q.max_depth(w);
  if height == 0 || rng.chance(1, 6) {
    let d = rng.range(0, md as u64) as u8;
    let maxr = if rng.chance(1, 10) { 20 } else { 5 };
    let m = if rng.chance(2, 3) { gen_related(rng, base, d, maxr) } else { gen_moc(rng, q, w, d, maxr) };
    return Tree::Leaf(rng.below(N_SRC_KINDS), m);
  }
  match rng.below(10) {
    0..=5 => {
      let o = rng.below(4) as u8;
      Tree::Op2(o, Box::new(gen_tree(rng, q, w, height - 1, base)), Box::new(gen_tree(rng, q, w, height - 1, base)))
    }
    6 => Tree::Not(Box::new(gen_tree(rng, q, w, height - 1, base))),
    7 | 8 => Tree::Deg(rng.range(0, md as u64) as u8, Box::new(gen_tree(rng, q, w, height - 1, base))),
    _ => Tree::Id(*rng.pick(&[0u8, 1, 3, 4]), Box::new(gen_tree(rng, q, w, height - 1, base))),
  }
}

/// lazy evaluation of a tree: (depth, ranges) of what the pipeline yields
pub fn lazy_eval(q: Q, w: u8, t: &Tree) -> Result<(u8, Vec<(u64, u64)>), String> {
  dispatch!(q, w, |T, QQ| run_tree::<T, QQ>(t)).map(|m| (m.depth, m.yielded))
}

pub fn gen_tree_pub(rng: &mut Rng, q: Q, w: u8, height: u32, base: &Moc) -> Tree {
  gen_tree(rng, q, w, height, base)
}

fn shrink(orc: &mut Oracle, q: Q, w: u8, t: &Tree) -> Tree {
  // replace the tree by a failing sub-tree, then drop ranges from leaves
  let fails = |t: &Tree, orc: &mut Oracle| {
    let mut tmp = Report::default();
    !check_tree(&mut tmp, orc, q, w, t, false)
  };
  let mut cur = t.clone();
  loop {
    let mut subs = Vec::new();
    cur.subtrees(&mut subs);
    let mut found = false;
    for s in subs.into_iter().skip(1) {
      if fails(&s, orc) {
        cur = s;
        found = true;
        break;
      }
    }
    if !found {
      break;
    }
  }
  // drop ranges
  fn leaves_mut<'a>(t: &'a mut Tree, out: &mut Vec<&'a mut Moc>) {
    match t {
      Tree::Leaf(_, m) => out.push(m),
      Tree::Op2(_, a, b) => {
        leaves_mut(a, out);
        leaves_mut(b, out);
      }
      Tree::Not(a) | Tree::Deg(_, a) | Tree::Id(_, a) => leaves_mut(a, out),
    }
  }
  let mut progress = true;
  while progress {
    progress = false;
    let nleaves = {
      let mut v = Vec::new();
      leaves_mut(&mut cur, &mut v);
      v.len()
    };
    'outer: for li in 0..nleaves {
      let nr = {
        let mut v = Vec::new();
        leaves_mut(&mut cur, &mut v);
        v[li].r.len()
      };
      for ri in 0..nr {
        let mut cand = cur.clone();
        {
          let mut v = Vec::new();
          leaves_mut(&mut cand, &mut v);
          v[li].r.remove(ri);
        }
        if fails(&cand, orc) {
          cur = cand;
          progress = true;
          break 'outer;
        }
      }
    }
  }
  cur
}

pub fn run(ctx: &Ctx) -> Report {
  let mut rep = Report::default();
  let mut orc = Oracle::spawn();
  let mut rng = Rng::new(ctx.seed);
  rep.rule = "random operator trees (and/or/xor/minus/not/degrade/cells.ranges/cells.cellranges.ranges/check/collect) of height <= 4 over structured related canonical leaves (all quantities, widths, depths) fed through the 5 source kinds (owned, borrowed, cell-adapter, FITS stream, builder iterator); the root and every sub-tree are consumed under a monitor that checks size_hint and peek_last before EVERY next() against what is then yielded; the root is compared with the extracted eager evaluation and also piped into the FITS writer and read back; plus all height-1 trees over an exhaustive 4-slot scope, plus the compositions outer(C, middle(inner(A,B))) (4 binary inner x {none, not, check, degrade} x 4 binary outer x both operand orders) over all canonical lists of a 3-slot window at both ends of every (quantity, width) domain (quick: every 61st (shape, triple) pair; thorough: every 5th; the stride is coprime with the 128 shapes so shapes rotate over the triples). non-trivial = all leaves non-empty and >= 3 nodes; distinct = distinct tree".to_string();
  let mut first_fail: Option<(Q, u8, Tree)> = None;
  // exhaustive height-1 over small scope
  let lists = all_canonical(4);
  for q in ALL_Q {
    for w in ALL_W {
      let d: u8 = if q == Q::S { 0 } else { 4 };
      let sh = q.shift(w, d);
      let ncells = q.nd0() << (q.dim() * d as u32);
      for top in [false, true] {
        let off = if top { ncells - 4 } else { 0 };
        let mk = |l: &Vec<(u64, u64)>| Moc { q, w, d, r: l.iter().map(|(s, e)| ((s + off) << sh, (e + off) << sh)).collect() };
        let mut idx = 0u64;
        for la in &lists {
          for lb in &lists {
            idx += 1;
            let (ka, kb) = (idx % N_SRC_KINDS, (idx / N_SRC_KINDS) % N_SRC_KINDS);
            let o = (idx % 4) as u8;
            let t = Tree::Op2(o, Box::new(Tree::Leaf(ka, mk(la))), Box::new(Tree::Leaf(kb, mk(lb))));
            if !check_tree(&mut rep, &mut orc, q, w, &t, false) && first_fail.is_none() {
              first_fail = Some((q, w, t));
            }
          }
          for k in 0..N_SRC_KINDS {
            let inner = Tree::Leaf(k, mk(la));
            for t in [Tree::Not(Box::new(inner.clone())), Tree::Id(3, Box::new(inner.clone())), Tree::Id(0, Box::new(inner.clone())), Tree::Id(1, Box::new(inner.clone())), Tree::Deg(d.saturating_sub(1), Box::new(inner.clone())), inner.clone()] {
              if !check_tree(&mut rep, &mut orc, q, w, &t, false) && first_fail.is_none() {
                first_fail = Some((q, w, t));
              }
            }
          }
        }
      }
    }
  }
  rep.count("phase:exhaustive-height-1-done");
  // exhaustive small scope over COMPOSITIONS: outer(C, middle(inner(A, B))) for every binary inner
  // operator, every unary middle node (none, not, check, degrade) and every binary outer operator in
  // both operand orders, over all canonical lists of a 3-slot window at both ends of the domain:
  // a hint computed by one operator from the hint of another (e.g. not over xor) is consumed by a third
  let lists3 = all_canonical(3);
  let stride = ctx.n(61, 5); // coprime with the 128 shapes per (A,B,C): the sampled shapes rotate over the triples
  let mut shape_idx = 0u64;
  for q in ALL_Q {
    for w in ALL_W {
      let d: u8 = if q == Q::S { 0 } else { 4 };
      let sh = q.shift(w, d);
      let ncells = q.nd0() << (q.dim() * d as u32);
      for top in [true, false] {
        let off = if top { ncells - 3 } else { 0 };
        let mk = |l: &Vec<(u64, u64)>| Moc { q, w, d, r: l.iter().map(|(s, e)| ((s + off) << sh, (e + off) << sh)).collect() };
        for la in &lists3 {
          for lb in &lists3 {
            for lc in &lists3 {
              for inner in 0..4u8 {
                for middle in 0..4u8 {
                  for outer in 0..8u8 {
                    shape_idx += 1;
                    if shape_idx % stride != 0 {
                      continue;
                    }
                    let k = shape_idx / stride;
                    let (ka, kb, kc) = (k % N_SRC_KINDS, (k / N_SRC_KINDS) % N_SRC_KINDS, (k / (N_SRC_KINDS * N_SRC_KINDS)) % N_SRC_KINDS);
                    let x0 = Tree::Op2(inner, Box::new(Tree::Leaf(ka, mk(la))), Box::new(Tree::Leaf(kb, mk(lb))));
                    let x = match middle {
                      0 => x0,
                      1 => Tree::Not(Box::new(x0)),
                      2 => Tree::Id(3, Box::new(x0)),
                      _ => Tree::Deg(d.saturating_sub(1), Box::new(x0)),
                    };
                    let c = Tree::Leaf(kc, mk(lc));
                    let t = if outer < 4 { Tree::Op2(outer, Box::new(x), Box::new(c)) } else { Tree::Op2(outer - 4, Box::new(c), Box::new(x)) };
                    if !check_tree(&mut rep, &mut orc, q, w, &t, false) && first_fail.is_none() {
                      first_fail = Some((q, w, t));
                    }
                  }
                }
              }
            }
          }
        }
      }
    }
  }
  rep.count("phase:exhaustive-compositions-done");
  let n = ctx.n(4_000, 150_000);
  for _ in 0..n {
    let q = ALL_Q[rng.below(3) as usize];
    let w = ALL_W[rng.below(3) as usize];
    let md = q.max_depth(w);
    let bd = rng.range(0, md as u64) as u8;
    let base = gen_moc(&mut rng, q, w, bd, 6);
    let h = rng.range(1, 4) as u32;
    let t = gen_tree(&mut rng, q, w, h, &base);
    rep.count(&format!("tree-height<={}", h));
    if !check_tree(&mut rep, &mut orc, q, w, &t, true) && first_fail.is_none() {
      first_fail = Some((q, w, t));
    }
  }
  if let Some((q, w, t)) = first_fail {
    let s = shrink(&mut orc, q, w, &t);
    let mut tmp = Report::default();
    check_tree(&mut tmp, &mut orc, q, w, &s, false);
    let mut v = tmp.violations;
    for x in v.iter_mut() {
      x.what = format!("[shrunk] {}", x.what);
    }
    v.append(&mut rep.violations);
    rep.violations = v;
  }
  rep.notes.push(format!("oracle calls: {}", orc.calls));
  rep
}
