//! C02 — every produced MOC is canonical.  Dedicated run: constructors on arbitrary
//! (unsorted / overlapping / touching) valid range lists, eager expression trees whose
//! EVERY intermediate result is passed through the extracted validity predicate
//! (theorem C02_validity_checker_exact) and whose final result must equal the reference
//! (C02_compositions_are_canonical, C02_equal_iff_same_set).
use crate::c04::Tree;
use crate::common::*;
use crate::dispatch;
use crate::iters::*;
use moc::elemset::range::MocRanges;
use moc::idx::Idx;
use moc::moc::range::op::merge::{merge_random, merge_sorted};
use moc::moc::range::RangeMOC;
use moc::moc::RangeMOCIterator;
use std::ops::Range;

fn eval_eager<T: Idx, QQ: Inst<T>>(q: Q, t: &Tree, inter: &mut Vec<Moc>) -> RangeMOC<T, QQ> {
  let r = match t {
    Tree::Leaf(_, m) => to_range_moc(m),
    Tree::Op2(o, a, b) => {
      let ra = eval_eager::<T, QQ>(q, a, inter);
      let rb = eval_eager::<T, QQ>(q, b, inter);
      match o {
        0 => ra.and(&rb),
        1 => ra.or(&rb),
        2 => ra.xor(&rb),
        _ => ra.minus(&rb),
      }
    }
    Tree::Not(a) => eval_eager::<T, QQ>(q, a, inter).not(),
    Tree::Deg(d, a) => eval_eager::<T, QQ>(q, a, inter).degraded(*d),
    Tree::Id(_, a) => eval_eager::<T, QQ>(q, a, inter),
  };
  inter.push(from_range_moc(q, &r));
  r
}

fn ctor<T: Idx, QQ: Inst<T>>(which: u8, d: u8, v: &[(u64, u64)], cap: usize) -> Result<Vec<(u64, u64)>, String> {
  let data: Vec<Range<T>> = v.iter().map(|(a, b)| T::from_u64(*a)..T::from_u64(*b)).collect();
  // the same input as depth-d cell numbers, in the order given (builders fed with cells)
  let sh = <QQ as moc::qty::MocQty<T>>::shift_from_depth_max(d) as u32;
  let cells: Vec<T> = v.iter().flat_map(|(a, b)| (a >> sh)..(b >> sh)).map(T::from_u64).collect();
  let out = |m: &RangeMOC<T, QQ>| -> Vec<(u64, u64)> { m.moc_ranges().iter().map(|r| (r.start.to_u64(), r.end.to_u64())).collect() };
  catch(move || match which {
    6 => out(&RangeMOC::<T, QQ>::from_fixed_depth_cells(d, cells.into_iter(), Some(cap))),
    7 => out(&RangeMOC::<T, QQ>::from_cells(d, cells.into_iter().map(|c| (d, c)), Some(cap))),
    8 => {
      let k = cells.len() / 2;
      let first = RangeMOC::<T, QQ>::from_fixed_depth_cells(d, cells[..k].iter().cloned(), Some(cap));
      out(&first.append_fixed_depth_cells(d, cells[k..].iter().cloned(), Some(cap)))
    }
    0 => MocRanges::<T, QQ>::new_from(data).iter().map(|r| (r.start.to_u64(), r.end.to_u64())).collect(),
    1 => MocRanges::<T, QQ>::new_from_sorted(data).iter().map(|r| (r.start.to_u64(), r.end.to_u64())).collect(),
    2 => ranges_of(merge_random::<T, QQ>(d, data)),
    3 => ranges_of(merge_sorted::<T, QQ, _>(d, data.into_iter())),
    4 => {
      let m = RangeMOC::<T, QQ>::from_maxdepth_ranges(d, data.into_iter(), Some(3));
      m.moc_ranges().iter().map(|r| (r.start.to_u64(), r.end.to_u64())).collect()
    }
    _ => {
      let it = merge_sorted::<T, QQ, _>(d, data.into_iter()).into_range_moc();
      it.moc_ranges().iter().map(|r| (r.start.to_u64(), r.end.to_u64())).collect()
    }
  })
}

pub fn run(ctx: &Ctx) -> Report {
  let mut rep = Report::default();
  let mut orc = Oracle::spawn();
  let mut rng = Rng::new(ctx.seed);
  rep.rule = "constructors (new_from, new_from_sorted, merge_random, merge_sorted, from_maxdepth_ranges, merge_sorted.into_range_moc, and the cell-fed builders from_fixed_depth_cells / from_cells / append_fixed_depth_cells with buffer capacities 1..4, fed sorted or unsorted) on random valid range lists (non-empty ranges; unsorted / overlapping / touching / duplicated) compared with extracted canon_of; eager expression trees (height <= 4) over canonical leaves: every intermediate result through extracted valid_mocb, final result = extracted Expr.eval. non-trivial = input has >= 2 ranges (constructors) / tree has >= 3 nodes; distinct = distinct case line".to_string();
  let n = ctx.n(4_000, 120_000);
  for i in 0..n {
    let q = ALL_Q[rng.below(3) as usize];
    let w = ALL_W[rng.below(3) as usize];
    let md = q.max_depth(w);
    // ---- constructors
    let d = rng.range(0, md as u64) as u8;
    let sh = q.shift(w, d);
    let ncells = q.nd0() << (q.dim() * d as u32);
    let k = rng.range(0, 8) as usize;
    let window = ncells.min(if rng.chance(1, 2) { 12 } else { 1 << 16 });
    let base = if rng.chance(1, 2) { 0 } else { ncells - window };
    let mut v: Vec<(u64, u64)> = (0..k)
      .map(|_| {
        let a = base + rng.below(window);
        let b = (a + 1 + rng.below(4)).min(ncells);
        (a << sh, b << sh)
      })
      .collect();
    if rng.chance(1, 4) && !v.is_empty() {
      let x = v[0];
      v.push(x);
    }
    let which = (i % 9) as u8;
    let cap = 1 + ((i / 9) % 4) as usize;
    if which % 2 == 1 || which == 5 || (which >= 6 && (i / 36) % 2 == 0) {
      v.sort_unstable_by_key(|r| r.0);
    }
    let case = format!("CANON {} # ctor={} q={} w={} d={} cap={}", ranges_str(&v), which, q.c(), w, d, cap);
    let ans = orc.ask(case.split('#').next().unwrap());
    let got = dispatch!(q, w, |T, QQ| ctor::<T, QQ>(which, d, &v, cap));
    rep.evaluations += 1;
    rep.count(&format!("ctor:{}", ["new_from", "new_from_sorted", "merge_random", "merge_sorted", "from_maxdepth_ranges", "merge_sorted.into_range_moc", "from_fixed_depth_cells", "from_cells", "append_fixed_depth_cells"][which as usize]));
    let obs = match &got {
      Ok(r) => format!("OK {}", ranges_str(r)),
      Err(p) => p.clone(),
    };
    if obs != ans {
      rep.violation("constructor output is not the canonical form of its input", &case, &obs, &ans, "C02_canon_of + canon_unique");
    }
    if v.len() >= 2 {
      rep.nontrivial(&case);
    }
    rep.sample(&format!("{} => {}", case, ans));

    // ---- eager trees
    let bd = rng.range(0, md as u64) as u8;
    let basem = gen_moc(&mut rng, q, w, bd, 6);
    let h = rng.range(1, 4) as u32;
    let t = crate::c04::gen_tree_pub(&mut rng, q, w, h, &basem);
    let case = format!("EXPR {} {} {}", q.c(), w, t.encode());
    let ans = orc.ask(&case);
    let mut inter: Vec<Moc> = Vec::new();
    let res = dispatch!(q, w, |T, QQ| catch(|| {
      let r = eval_eager::<T, QQ>(q, &t, &mut inter);
      from_range_moc(q, &r)
    }));
    rep.evaluations += 1;
    rep.count("eager-tree");
    match res {
      Err(p) => rep.violation("eager evaluation panics", &case, &p, &ans, "C02_compositions_are_canonical"),
      Ok(m) => {
        let obs = format!("OK {}", m.dr());
        if obs != ans {
          rep.violation("eager evaluation differs from the reference", &case, &obs, &ans, "C02_compositions_are_canonical + C02_equal_iff_same_set");
        }
        for im in &inter {
          rep.evaluations += 1;
          let a = orc.ask(&format!("VALID {}", im.line()));
          if a != "OK 1" {
            rep.violation("intermediate result is not a canonical MOC", &format!("{} # intermediate={}", case, im.line()), &im.line(), &a, "C02_validity_checker_exact");
          }
        }
      }
    }
    // the same tree and every sub-tree evaluated LAZILY (streaming operators over mixed source
    // kinds): what each pipeline yields must be a canonical MOC too
    let mut subs = Vec::new();
    t.subtrees(&mut subs);
    for s in &subs {
      if let Tree::Leaf(..) = s {
        continue;
      }
      rep.evaluations += 1;
      rep.count("lazy-subtree");
      match crate::c04::lazy_eval(q, w, s) {
        Err(p) => rep.violation("lazy evaluation panics", &format!("EXPR {} {} {} # {}", q.c(), w, s.encode(), s.show()), &p, "", "C02_compositions_are_canonical"),
        Ok((d, r)) => {
          let m = Moc { q, w, d, r };
          let a = orc.ask(&format!("VALID {}", m.line()));
          if a != "OK 1" {
            rep.violation("a streaming operator pipeline yields a non-canonical MOC", &format!("EXPR {} {} {} # {}", q.c(), w, s.encode(), s.show()), &m.line(), &a, "C02_validity_checker_exact");
          }
        }
      }
    }
    if t.size() >= 3 {
      rep.nontrivial(&case);
    }
  }
  // ---- exhaustive small scope: every binary streaming operator over every pair of canonical
  // lists on 4 slots (touching / adjacent / separated operands in both orders), all source kinds
  let lists = all_canonical(4);
  for q in ALL_Q {
    let w = 32u8;
    let d: u8 = if q == Q::S { 0 } else { 4 };
    let sh = q.shift(w, d);
    let mk = |l: &Vec<(u64, u64)>| Moc { q, w, d, r: l.iter().map(|(s, e)| (s << sh, e << sh)).collect() };
    let mut idx = 0u64;
    for la in &lists {
      for lb in &lists {
        for o in 0..4u8 {
          idx += 1;
          let t = Tree::Op2(o, Box::new(Tree::Leaf(idx % 5, mk(la))), Box::new(Tree::Leaf((idx / 5) % 5, mk(lb))));
          rep.evaluations += 1;
          rep.count("lazy-exhaustive-pairs");
          match crate::c04::lazy_eval(q, w, &t) {
            Err(p) => rep.violation("lazy evaluation panics", &format!("EXPR {} {} {} # {}", q.c(), w, t.encode(), t.show()), &p, "", "C02_compositions_are_canonical"),
            Ok((dd, r)) => {
              let m = Moc { q, w, d: dd, r };
              let a = orc.ask(&format!("VALID {}", m.line()));
              if a != "OK 1" {
                rep.violation("a streaming operator yields a non-canonical MOC", &format!("EXPR {} {} {} # {}", q.c(), w, t.encode(), t.show()), &m.line(), &a, "C02_validity_checker_exact");
              }
            }
          }
        }
      }
    }
  }
  rep.notes.push(format!("oracle calls: {}", orc.calls));
  rep
}
