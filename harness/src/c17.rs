//! C17 — HEALPix expansion, borders, hole filling and splitting obey their definitions;
//! Time / Frequency expansion and contraction.
//! Implementation: RangeMOC<_, Hpx<_>>::{expanded, contracted, external_border, internal_border,
//! split_into_joint_mocs, fill_holes, fill_holes_smaller_than}, RangeMOC<_, Time|Frequency>::
//! {expanded, contracted}.
//! Oracle: extracted Neigh.{nb8, nb4, expanded_spec, contracted_spec, ext_border_spec,
//! int_border_spec, split_okb, fill_okb, tf_expanded, tf_contracted} (theorems C17_*).
//! The adjacency tables of the model are validated against cdshealpix on every run (A-hpx).
use crate::common::*;
use crate::dispatch;
use cdshealpix::compass_point::MainWind;
use moc::idx::Idx;
use moc::moc::range::RangeMOC;
use moc::moc::{CellMOCIntoIterator, CellMOCIterator, RangeMOCIntoIterator, RangeMOCIterator};
use moc::qty::{Hpx, MocQty};

fn moc_obs<T: Idx, QQ: MocQty<T>>(q: Q, m: &RangeMOC<T, QQ>) -> String {
  format!("OK {}", from_range_moc(q, m).dr())
}

/// A-hpx: the model's adjacency equals cdshealpix `neighbours` (8- and 4-connectivity) for every cell
fn check_adjacency(rep: &mut Report, orc: &mut Oracle, max_depth: u8) {
  for d in 0..=max_depth {
    let n = 12u64 << (2 * d as u32);
    let cells: Vec<u64> = (0..n).collect();
    for chunk in cells.chunks(256) {
      for conn in [8u8, 4] {
        let line = format!("NB {} {} {} {}", conn, d, chunk.len(), chunk.iter().map(|c| c.to_string()).collect::<Vec<_>>().join(" "));
        let ans = orc.ask(&line);
        let t: Vec<u64> = ans.strip_prefix("OK").unwrap_or("").split_whitespace().filter_map(|x| x.parse().ok()).collect();
        let mut i = 0;
        for c in chunk {
          rep.evaluations += 1;
          let k = *t.get(i).unwrap_or(&0) as usize;
          let mut model: Vec<u64> = t.get(i + 1..i + 1 + k).map(|s| s.to_vec()).unwrap_or_default();
          i += 1 + k;
          model.sort_unstable();
          let nm = cdshealpix::nested::neighbours(d, *c, false);
          let mut real: Vec<u64> = if conn == 8 {
            nm.values_vec()
          } else {
            vec![nm.get(MainWind::NE), nm.get(MainWind::NW), nm.get(MainWind::SE), nm.get(MainWind::SW)].into_iter().flatten().cloned().collect()
          };
          real.sort_unstable();
          real.dedup();
          real.retain(|x| x != c);
          if model != real {
            rep.violation("the adjacency table of the model differs from cdshealpix (assumption A-hpx broken)", &format!("NB {} {} 1 {}", conn, d, c), &format!("{:?}", real), &format!("{:?}", model), "internal");
          }
        }
      }
    }
    rep.count(&format!("adjacency:depth{}", d));
  }
}

/// a space MOC at depth d: random subset of cells clustered on a few base cells / corners / poles
fn gen_space(rng: &mut Rng, w: u8, d: u8, max_cells: usize) -> Moc {
  let n = 12u64 << (2 * d as u32);
  let sh = Q::S.shift(w, d);
  let mut cells: Vec<u64> = Vec::new();
  match rng.below(8) {
    0 => {}
    1 => cells = (0..n).collect(),
    2 => {
      // everything but a few holes
      let holes: Vec<u64> = (0..rng.range(1, 6)).map(|_| rng.below(n)).collect();
      cells = (0..n).filter(|c| !holes.contains(c)).collect();
    }
    3 => {
      // a ring: a block minus its interior (hole filling)
      let base = rng.below(12) << (2 * d as u32);
      let per = 1u64 << (2 * d as u32);
      let inner: Vec<u64> = (0..rng.range(1, 3)).map(|_| base + rng.below(per)).collect();
      cells = (base..base + per).filter(|c| !inner.contains(c)).collect();
    }
    _ => {
      let k = rng.range(1, max_cells as u64) as usize;
      let nb = rng.range(1, 3);
      let bases: Vec<u64> = (0..nb).map(|_| rng.below(12)).collect();
      for _ in 0..k {
        let b = *rng.pick(&bases);
        let per = 1u64 << (2 * d as u32);
        // corners of the base cell are over-represented
        let c = match rng.below(6) {
          0 => 0,
          1 => per - 1,
          2 => (per - 1) / 3,     // 0101..01 : one corner
          3 => 2 * ((per - 1) / 3), // 1010..10 : the other
          _ => rng.below(per),
        };
        cells.push((b << (2 * d as u32)) + c);
      }
    }
  }
  cells.sort_unstable();
  cells.dedup();
  if cells.len() > max_cells && rng.chance(1, 2) {
    cells.truncate(max_cells);
  }
  let mut r: Vec<(u64, u64)> = Vec::new();
  for c in cells {
    if let Some(l) = r.last_mut() {
      if l.1 == c << sh {
        l.1 = (c + 1) << sh;
        continue;
      }
    }
    r.push((c << sh, (c + 1) << sh));
  }
  // sometimes declare a deeper depth than the cells need (mixed-depth cells in the cell view)
  Moc { q: Q::S, w, d, r }
}

fn space_case<T: Idx>(rep: &mut Report, orc: &mut Oracle, rng: &mut Rng, m: &Moc, heavy: bool) {
  let mm: RangeMOC<T, Hpx<T>> = to_range_moc(m);
  let base = format!("{} {} {}", m.w, m.d, ranges_str(&m.r));
  let ncells: u64 = m.r.iter().map(|(a, b)| (b - a) >> Q::S.shift(m.w, m.d)).sum();
  let total: u64 = 12u64 << (2 * m.d as u32);
  // ---- expansion, contraction, borders: exact comparison with the specification
  let ops: Vec<(&str, &str, Result<String, String>)> = vec![
    ("exp", "expanded", catch(|| moc_obs(Q::S, &mm.expanded()))),
    ("con", "contracted", catch(|| moc_obs(Q::S, &mm.contracted()))),
    ("ext", "external_border", catch(|| moc_obs(Q::S, &mm.external_border()))),
    ("int", "internal_border", catch(|| moc_obs(Q::S, &mm.internal_border()))),
    ("exp", "expanded_iter", catch(|| moc_obs(Q::S, &mm.expanded_iter().into_range_moc()))),
    ("con", "contracted_iter", catch(|| moc_obs(Q::S, &mm.contracted_iter().into_range_moc()))),
    ("ext", "external_border_iter", catch(|| moc_obs(Q::S, &mm.external_border_iter().into_range_moc()))),
    ("int", "internal_border_iter", catch(|| moc_obs(Q::S, &mm.internal_border_iter().into_range_moc()))),
  ];
  let mut memo: std::collections::HashMap<&str, String> = std::collections::HashMap::new();
  for (op, name, got) in ops {
    let line = format!("HPXOP {} {}", op, base);
    let exp = memo.entry(op).or_insert_with(|| orc.ask(&line)).clone();
    rep.evaluations += 1;
    rep.count(&format!("space:{}", name));
    if got.as_deref() != Ok(exp.as_str()) {
      rep.violation(&format!("{} differs from its definition on the flat depth-{} cell set", name, m.d), &line, &format!("{:?}", got), &exp, "C17_expanded_exact / C17_contracted_is_dual / C17_external_border / C17_internal_border");
    }
  }
  if ncells > 0 && ncells < total {
    rep.nontrivial(&base);
  }
  // ---- splitting (both connectivities): the parts are judged by the verified checker
  if heavy {
    for indirect in [false, true] {
      let parts = catch(|| {
        mm.split_into_joint_mocs(indirect)
          .into_iter()
          .map(|cm| {
            let rm: RangeMOC<T, Hpx<T>> = cm.into_cell_moc_iter().ranges().into_range_moc();
            from_range_moc(Q::S, &rm).r
          })
          .collect::<Vec<_>>()
      });
      rep.evaluations += 1;
      rep.count(if indirect { "space:split-8" } else { "space:split-4" });
      let conn = if indirect { 8 } else { 4 };
      // the flood fill as written (Model/FloodFill.v): same components, in the same order, each with
      // the same cells in the same order
      {
        let cells = catch(|| {
          mm.split_into_joint_mocs(indirect)
            .into_iter()
            .map(|cm| cm.into_cell_moc_iter().map(|c| (c.depth, c.idx.to_u64())).collect::<Vec<(u8, u64)>>())
            .collect::<Vec<_>>()
        });
        if let Ok(cs) = cells {
          let line = format!("SPLITF {} {}", conn, base);
          let model = orc.ask(&line);
          let mut got = format!("OK {}", cs.len());
          for c in &cs {
            got.push_str(&format!(" {}", c.len()));
            for (d, i) in c {
              got.push_str(&format!(" {} {}", d, i));
            }
          }
          rep.evaluations += 1;
          rep.count("space:split-floodfill-model");
          if got != model {
            rep.corr_break("split_into_joint_mocs differs from the model of its flood fill (components, their order, their cells)", &line, &got.chars().take(400).collect::<String>(), &model.chars().take(400).collect::<String>(), "src/moc/range/mod.rs split_into_joint_mocs_gen == Model/FloodFill.v ff_split");
          }
        }
      }
      match parts {
        Ok(ps) => {
          let line = format!("SPLIT {} {} {} {}", conn, base, ps.len(), ps.iter().map(|p| ranges_str(p)).collect::<Vec<_>>().join(" "));
          let ans = orc.ask(&line);
          if ans != "OK YES" {
            rep.violation(&format!("split_into_joint_mocs({}) does not return disjoint, non-empty, connected, pairwise non-adjacent parts whose union is the MOC", indirect), &line, &format!("{} parts", ps.len()), &ans, "C17_split_checker_yes / C17_split_checker_no");
          } else if ps.len() > 1 {
            rep.sample(&line);
          }
          rep.count(&format!("split-parts:{}", ps.len().min(6)));
        }
        Err(e) => rep.violation("split_into_joint_mocs panics", &format!("SPLIT {} {} 0", conn, base), &e, "no failure", "C17"),
      }
    }
    // ---- hole filling: superset that only adds whole components of the complement
    let k = rng.below(3) as usize;
    let frac = *rng.pick(&[0.0, 0.001, 0.01, 0.1, 0.5, 1.0]);
    let (fnum, fden) = match frac { x if x == 0.0 => (0, 1), x if x == 0.001 => (1, 1000), x if x == 0.01 => (1, 100), x if x == 0.1 => (1, 10), x if x == 0.5 => (1, 2), _ => (1, 1) };
    let fills: Vec<(String, String, Result<Vec<(u64, u64)>, String>)> = vec![
      ("fill_holes(None)".to_string(), "0".to_string(), catch(|| from_range_moc(Q::S, &mm.fill_holes(None)).r)),
      (format!("fill_holes(Some({}))", k), format!("{}", k), catch(|| from_range_moc(Q::S, &mm.fill_holes(Some(k))).r)),
      (format!("fill_holes_smaller_than({})", frac), format!("S {} {}", fnum, fden), catch(|| from_range_moc(Q::S, &mm.fill_holes_smaller_than(frac)).r)),
    ];
    for (name, mode, got) in fills {
      rep.evaluations += 1;
      rep.count("space:fill_holes");
      // the hole filling as written (Model/FloodFill.v ff_fill / ff_fill_smaller): the same MOC
      if let Ok(out) = &got {
        let line = format!("FILLF {} {}", base, mode);
        let model = orc.ask(&line);
        rep.evaluations += 1;
        rep.count("space:fill-floodfill-model");
        if model != format!("OK {}", ranges_str(out)) {
          rep.corr_break(&format!("{} differs from the model of the hole filling (complement, flood fill, sort by coverage, selection, union)", name), &line, &ranges_str(out), &model.chars().take(400).collect::<String>(), "src/moc/range/mod.rs fill_holes / fill_holes_smaller_than == Model/FloodFill.v ff_fill / ff_fill_smaller");
        }
      }
      match got {
        Ok(out) => {
          let line = format!("FILL {} {}", base, ranges_str(&out));
          let ans = orc.ask(&line);
          if ans != "OK 1" {
            rep.violation(&format!("{} is not a superset of the MOC adding only whole connected components of the complement", name), &line, &ranges_str(&out), &ans, "C17_fill_checker_exact / C17_fill_adds_whole_components");
          }
        }
        Err(e) => rep.violation(&format!("{} panics", name), &format!("FILL {} 0", base), &e, "no failure", "C17"),
      }
    }
  }
}

fn tf_case<T: Idx, QQ: MocQty<T>>(rep: &mut Report, orc: &mut Oracle, m: &Moc, exp_f: impl Fn(&RangeMOC<T, QQ>) -> RangeMOC<T, QQ>, con_f: impl Fn(&RangeMOC<T, QQ>) -> RangeMOC<T, QQ>) {
  let mm: RangeMOC<T, QQ> = to_range_moc(m);
  for (op, name) in [("exp", "expanded"), ("con", "contracted")] {
    let line = format!("TFOP {} {} {} {}", op, m.q.c(), m.w, m.dr());
    let exp = orc.ask(&line);
    let got = catch(|| moc_obs(m.q, &if op == "exp" { exp_f(&mm) } else { con_f(&mm) }));
    rep.evaluations += 1;
    rep.count(&format!("{}{}:{}", m.q.c(), m.w, name));
    if !m.r.is_empty() {
      rep.nontrivial(&line);
    }
    if got.as_deref() != Ok(exp.as_str()) {
      rep.violation(&format!("{} ({}) differs from 'previous and next cell of depth d are the neighbours'", name, if m.q == Q::T { "time" } else { "frequency" }), &line, &format!("{:?}", got), &exp, "C17_tf_expanded_exact / C17_tf_contracted_exact");
    }
  }
}

pub fn run(ctx: &Ctx) -> Report {
  use moc::qty::{Frequency, Time};
  let mut rep = Report::default();
  let mut orc = Oracle::spawn();
  let mut rng = Rng::new(ctx.seed);
  rep.rule = "adjacency of the model vs cdshealpix neighbours for EVERY cell of depths 0..3 (quick) / 0..5 (thorough), 8- and 4-connectivity; space MOCs at depths 0..3 for u16/u32/u64: exhaustive at depth 0 (all 4096 subsets of the base cells in the thorough tier, a sample in the quick tier), random subsets clustered on base-cell corners and poles, empty, full, full minus holes, rings; expanded / contracted / external_border / internal_border (eager and _iter forms) compared exactly with the specification on the flat cell set; split_into_joint_mocs (edge-only and edge-or-vertex) and fill_holes / fill_holes_smaller_than judged by the verified checkers; Time / Frequency expanded / contracted for u16/u32/u64 at all depths on MOCs touching 0 and n_cells_max. non-trivial = MOC neither empty nor full; distinct = distinct MOC".to_string();
  let _ = dispatch!(Q::S, 64, |T, QQ| 0);
  check_adjacency(&mut rep, &mut orc, if ctx.thorough { 5 } else { 3 });
  // ---- depth 0: all subsets of the 12 base cells
  let step = if ctx.thorough { 1 } else { 29 };
  let mut mask = 0u32;
  while mask < 4096 {
    let w = ALL_W[(mask % 3) as usize];
    let sh = Q::S.shift(w, 0);
    let mut r: Vec<(u64, u64)> = Vec::new();
    for c in 0..12u64 {
      if mask >> c & 1 == 1 {
        if let Some(l) = r.last_mut() {
          if l.1 == c << sh {
            l.1 = (c + 1) << sh;
            continue;
          }
        }
        r.push((c << sh, (c + 1) << sh));
      }
    }
    let m = Moc { q: Q::S, w, d: 0, r };
    match w {
      16 => space_case::<u16>(&mut rep, &mut orc, &mut rng, &m, true),
      32 => space_case::<u32>(&mut rep, &mut orc, &mut rng, &m, true),
      _ => space_case::<u64>(&mut rep, &mut orc, &mut rng, &m, true),
    }
    mask += step;
  }
  rep.exhaustive = ctx.thorough;
  // ---- random MOCs at depths 1..3
  let n = ctx.n(500, 20_000);
  for i in 0..n {
    let w = *rng.pick(&ALL_W);
    let d = rng.range(1, 3) as u8;
    let max_cells = match d {
      1 => 48,
      2 => 60,
      _ => 40,
    };
    let m = gen_space(&mut rng, w, d, max_cells);
    let ncells: u64 = m.r.iter().map(|(a, b)| (b - a) >> Q::S.shift(w, d)).sum();
    // the checkers are cubic in the size of a part: keep them for MOCs (and complements) of moderate size
    let total = 12u64 << (2 * d as u32);
    let heavy = (ncells <= 120 && total - ncells <= 200) || (d <= 1) || (i % 10 == 0 && d == 2);
    match w {
      16 => space_case::<u16>(&mut rep, &mut orc, &mut rng, &m, heavy),
      32 => space_case::<u32>(&mut rep, &mut orc, &mut rng, &m, heavy),
      _ => space_case::<u64>(&mut rep, &mut orc, &mut rng, &m, heavy),
    }
  }
  // ---- Time / Frequency
  let n = ctx.n(3_000, 100_000);
  for _ in 0..n {
    let q = if rng.chance(1, 2) { Q::T } else { Q::F };
    let w = *rng.pick(&ALL_W);
    let d = rng.range(0, q.max_depth(w) as u64) as u8;
    let m = gen_moc(&mut rng, q, w, d, 5);
    match (q, w) {
      (Q::T, 16) => tf_case::<u16, Time<u16>>(&mut rep, &mut orc, &m, |x| x.expanded(), |x| x.contracted()),
      (Q::T, 32) => tf_case::<u32, Time<u32>>(&mut rep, &mut orc, &m, |x| x.expanded(), |x| x.contracted()),
      (Q::T, _) => tf_case::<u64, Time<u64>>(&mut rep, &mut orc, &m, |x| x.expanded(), |x| x.contracted()),
      (_, 16) => tf_case::<u16, Frequency<u16>>(&mut rep, &mut orc, &m, |x| x.expanded(), |x| x.contracted()),
      (_, 32) => tf_case::<u32, Frequency<u32>>(&mut rep, &mut orc, &m, |x| x.expanded(), |x| x.contracted()),
      (_, _) => tf_case::<u64, Frequency<u64>>(&mut rep, &mut orc, &m, |x| x.expanded(), |x| x.contracted()),
    }
  }
  rep.notes.push(format!("oracle calls: {}", orc.calls));
  rep
}
