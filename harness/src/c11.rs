//! C11 — ST-MOC serialisation round-trips in FITS (v2), ASCII and JSON.
//! Real writer -> real reader; FITS data rows compared with the extracted row/byte model
//! (STSerial.encode2 + Serial.encode_rows; theorems C11_fits_rows_roundtrip, C11_bytes_roundtrip);
//! re-serialising the decoded value must reproduce the same bytes.
use crate::asciix;
use crate::fitsx;
use crate::common::*;
use crate::st::*;
use moc::deser::ascii::moc2d_from_ascii_ivoa;
use moc::deser::fits::{from_fits_ivoa, rangemoc2d_to_fits_ivoa, ranges2d_to_fits_ivoa, MocIdxType, MocQtyType, STMocType};
use moc::deser::json::cellmoc2d_from_json_aladin;
use moc::elemset::range::MocRanges;
use moc::idx::Idx;
use moc::moc::range::RangeMOC;
use moc::moc2d::range::{RangeMOC2, RangeMOC2Elem};
use moc::moc2d::{
  CellMOC2IntoIterator, CellMOC2Iterator, CellOrCellRangeMOC2IntoIterator, CellOrCellRangeMOC2Iterator, HasTwoMaxDepth,
  RangeMOC2IntoIterator, RangeMOC2Iterator,
};
use moc::qty::{Hpx, Time};
use std::io::Cursor;
use std::ops::Range;

fn to_moc2_t<T: Idx>(m: &StMoc) -> RangeMOC2<T, Time<T>, T, Hpx<T>> {
  let mk = |r: &[(u64, u64)]| -> Vec<Range<T>> { r.iter().map(|(a, b)| T::from_u64(*a)..T::from_u64(*b)).collect() };
  let elems = m
    .elems
    .iter()
    .map(|(t, s)| RangeMOC2Elem::new(RangeMOC::new(m.dt, MocRanges::new_unchecked(mk(t))), RangeMOC::new(m.ds, MocRanges::new_unchecked(mk(s)))))
    .collect();
  RangeMOC2::new(m.dt, m.ds, elems)
}
fn from_moc2_t<T: Idx>(m: RangeMOC2<T, Time<T>, T, Hpx<T>>) -> StMoc {
  let dt = m.depth_max_1();
  let ds = m.depth_max_2();
  let elems = m
    .into_range_moc2_iter()
    .map(|e| {
      let (t, s) = e.mocs();
      (
        t.moc_ranges().iter().map(|r| (r.start.to_u64(), r.end.to_u64())).collect(),
        s.moc_ranges().iter().map(|r| (r.start.to_u64(), r.end.to_u64())).collect(),
      )
    })
    .collect();
  StMoc { dt, ds, elems }
}

trait FitsSt: Idx {
  fn read_st(bytes: Vec<u8>) -> Result<StMoc, String>;
}
macro_rules! fits_st {
  ($t:ty, $v:ident) => {
    impl FitsSt for $t {
      fn read_st(bytes: Vec<u8>) -> Result<StMoc, String> {
        match from_fits_ivoa(Cursor::new(bytes)).map_err(|e| format!("read error {:?}", e))? {
          MocIdxType::$v(MocQtyType::TimeHpx(STMocType::V2(it))) => Ok(from_moc2_t::<$t>(it.into_range_moc2())),
          _ => Err("decoded as another type / width / version".to_string()),
        }
      }
    }
  };
}
fits_st!(u16, U16);
fits_st!(u32, U32);
fits_st!(u64, U64);

fn data_part(bytes: &[u8]) -> Option<(u64, u64, Vec<u8>, usize)> {
  // primary HDU = 2880 bytes; extension header = blocks until END
  let mut off = 2880;
  let mut naxis1 = None;
  let mut naxis2 = None;
  loop {
    if off + 2880 > bytes.len() {
      return None;
    }
    let mut end = false;
    for k in 0..36 {
      let c = String::from_utf8_lossy(&bytes[off + 80 * k..off + 80 * (k + 1)]).to_string();
      if c.starts_with("NAXIS1  =") {
        naxis1 = c[10..].split('/').next()?.trim().parse::<u64>().ok();
      }
      if c.starts_with("NAXIS2  =") {
        naxis2 = c[10..].split('/').next()?.trim().parse::<u64>().ok();
      }
      if c.starts_with("END") && c[3..].trim().is_empty() {
        end = true;
      }
    }
    off += 2880;
    if end {
      break;
    }
  }
  let n = (naxis1? * naxis2?) as usize;
  if off + n > bytes.len() {
    return None;
  }
  Some((naxis1?, naxis2?, bytes[off..off + n].to_vec(), bytes.len()))
}

fn fits_checks<T: FitsSt>(rep: &mut Report, orc: &mut Oracle, m: &StMoc, w: u8, case: &str) {
  let mm = to_moc2_t::<T>(m);
  // two writers
  let w1 = catch(|| {
    let mut b = Vec::new();
    rangemoc2d_to_fits_ivoa(&mm, None, None, &mut b).map(|_| b).map_err(|e| format!("{:?}", e))
  });
  let mm2 = to_moc2_t::<T>(m);
  let w2 = catch(move || {
    let mut b = Vec::new();
    ranges2d_to_fits_ivoa(mm2.into_range_moc2_iter(), None, None, &mut b).map(|_| b).map_err(|e| format!("{:?}", e))
  });
  let model = orc.ask(&format!("STROWS {} {}", w, m.wire()));
  for (name, r) in [("rangemoc2d_to_fits_ivoa", w1), ("ranges2d_to_fits_ivoa", w2)] {
    rep.evaluations += 1;
    rep.count(&format!("fits-u{}", w));
    let shown = format!("{} # writer={} width=u{}", case, name, w);
    let bytes = match r {
      Ok(Ok(b)) => b,
      other => {
        rep.violation("ST FITS writer fails", &shown, &format!("{:?}", other.map(|x| x.map(|b| b.len()))), "", "C11");
        continue;
      }
    };
    // whole file, byte for byte, against Model/FitsCodec.v fits_write_st; the reader beside the model's,
    // on the file and on truncations of it (fewer rows than declared: the element in progress is lost)
    {
      rep.evaluations += 1;
      rep.count("fits-file-exact");
      let req = format!("FITSW2 {} {} {} {}", w, m.dt, m.ds, m.wire());
      let model_file = orc.ask(&req);
      let hx: String = bytes.iter().map(|b| format!("{:02x}", b)).collect();
      if model_file != format!("OK {}", hx) {
        let pos = model_file.bytes().skip(3).zip(hx.bytes()).position(|(a, b)| a != b).unwrap_or(0) / 2;
        rep.corr_break("the ST FITS file written differs from the byte-level model", &format!("{} # {}", req, shown), &format!("{} bytes, first difference at byte {}", bytes.len(), pos), &format!("{} bytes", model_file.len().saturating_sub(3) / 2), "src/deser/fits rangemoc2d_to_fits_ivoa == Model/FitsCodec.v fits_write_st");
      }
      fitsx::compare_reader_fits(rep, orc, &bytes, "st-written", "none");
      if name == "rangemoc2d_to_fits_ivoa" {
        let nrows: usize = m.elems.iter().map(|(t, s)| t.len() + s.len()).sum();
        let row = 2 * (w as usize / 8);
        for k in [0usize, 1, nrows / 2, nrows.saturating_sub(1)] {
          if k < nrows {
            let cut = 5760 + k * row + if k % 2 == 1 { row / 2 } else { 0 };
            fitsx::compare_reader_fits(rep, orc, &bytes[..cut.min(bytes.len())], "st-truncated", &format!("cut after {} rows", k));
          }
        }
      }
    }
    match data_part(&bytes) {
      None => rep.violation("emitted ST FITS is structurally invalid", &shown, &format!("{} bytes", bytes.len()), "", "C11_declared_rows"),
      Some((n1, n2, data, total)) => {
        let nrows: usize = m.elems.iter().map(|(t, s)| t.len() + s.len()).sum();
        if total % 2880 != 0 || n1 != (w / 8) as u64 || n2 != 2 * nrows as u64 {
          rep.violation("ST FITS: declared rows / row width / block structure differ from the data written", &shown, &format!("NAXIS1={} NAXIS2={} total={}", n1, n2, total), &format!("NAXIS1={} NAXIS2={}", w / 8, 2 * nrows), "C11_declared_rows + C07_fits_block_structure");
        }
        let hex: String = data.iter().map(|b| format!("{:02x}", b)).collect();
        if format!("OK {}", hex).trim_end() != model {
          rep.violation("ST FITS data bytes differ from the row/byte-level model", &shown, &hex.chars().take(300).collect::<String>(), &model.chars().take(300).collect::<String>(), "C11_fits_rows_roundtrip + C11_bytes_roundtrip");
        }
      }
    }
    match catch(|| T::read_st(bytes.clone())) {
      Ok(Ok(back)) => {
        if back != *m {
          rep.violation("ST FITS write/read does not round-trip", &shown, &back.show(), &m.show(), "C11_fits_rows_roundtrip");
        } else {
          // re-serialise the decoded value: same bytes
          let mb = to_moc2_t::<T>(&back);
          let again = catch(|| {
            let mut b = Vec::new();
            rangemoc2d_to_fits_ivoa(&mb, None, None, &mut b).map(|_| b).map_err(|e| format!("{:?}", e))
          });
          if again != Ok(Ok(bytes.clone())) {
            rep.violation("re-serialising the decoded ST-MOC does not reproduce the same bytes", &shown, "", "", "C11 (idempotent re-serialisation)");
          }
        }
      }
      other => rep.violation("ST FITS reader fails on the emitted document", &shown, &format!("{:?}", other.map(|x| x.map(|y| y.show()))), &m.show(), "C11_fits_rows_roundtrip"),
    }
  }
}

fn text_checks(rep: &mut Report, orc: &mut Oracle, rng: &mut Rng, m: &StMoc, case: &str, labels: Option<(u8, u8)>) {
  // labels = depths the ELEMENTS are labelled with (<= the depths of the ST-MOC): an element may be shallower
  // than the MOC it belongs to; by default the elements carry the depths of the ST-MOC
  let to_moc2 = |m: &StMoc| -> moc::moc2d::range::RangeMOC2<u64, Time<u64>, u64, Hpx<u64>> {
    match labels {
      None => crate::st::to_moc2(m),
      Some((lt, ls)) => {
        let elems = m.elems.iter().map(|(t, sp)| RangeMOC2Elem::new(rm::<Time<u64>>(lt, t), rm::<Hpx<u64>>(ls, sp))).collect();
        RangeMOC2::new(m.dt, m.ds, elems)
      }
    }
  };
  for fold in [None, Some(0usize), Some(20), Some(80)] {
    for use_len in [false, true] {
      rep.evaluations += 1;
      rep.count("ascii");
      let mm = to_moc2(m);
      let r = catch(move || -> Result<(StMoc, String, String), String> {
        let mut buf = Vec::new();
        (&mm).into_range_moc2_iter().into_cellcellrange_moc2_iter().to_ascii_ivoa(fold, use_len, &mut buf).map_err(|e| format!("write error {:?}", e))?;
        let s = String::from_utf8(buf).map_err(|e| format!("{:?}", e))?;
        let back = moc2d_from_ascii_ivoa::<u64, Time<u64>, u64, Hpx<u64>>(&s).map_err(|e| format!("read error {:?} on {:?}", e, s))?;
        let back2 = back.into_cellcellrange_moc2_iter().into_range_moc2_iter().into_range_moc2();
        let mut buf2 = Vec::new();
        (&back2).into_range_moc2_iter().into_cellcellrange_moc2_iter().to_ascii_ivoa(fold, use_len, &mut buf2).map_err(|e| format!("write error {:?}", e))?;
        Ok((from_moc2(back2), s, String::from_utf8_lossy(&buf2).to_string()))
      });
      let shown = format!("{} # format=ascii(fold={:?},range_len={})", case, fold, use_len);
      match r {
        Ok(Ok((back, s1, s2))) => {
          if back != *m {
            rep.violation("ST ASCII write/read does not round-trip", &shown, &back.show(), &m.show(), "C11_text_roundtrip");
          } else if s1 != s2 {
            rep.violation("re-serialising the decoded ST-MOC (ASCII) does not reproduce the same bytes", &shown, &s2, &s1, "C11 (idempotent re-serialisation)");
          }
          // character-level tie with Model/AsciiCodec.v
          rep.evaluations += 1;
          rep.count("ascii2-writer-exact");
          let req = match labels {
            None => format!("ASC2W t 64 s 64 116 115 {} {} {} {} {}", m.dt, m.ds, fold.map(|x| x.to_string()).unwrap_or("-".to_string()), use_len as u8, m.wire()),
            Some((lt, ls)) => format!("ASC2WL t 64 s 64 116 115 {} {} {} {} {} {} {}", m.dt, m.ds, lt, ls, fold.map(|x| x.to_string()).unwrap_or("-".to_string()), use_len as u8, m.wire()),
          };
          let model = orc.ask(&req);
          let model_hex = model.split_whitespace().nth(1).unwrap_or("").to_string();
          if !model.starts_with("OK") || asciix::hex(s1.as_bytes()) != model_hex {
            rep.corr_break("moc2d_to_ascii_ivoa writes other characters than the character-level model", &format!("{} # {}", req, shown), &format!("{:?}", s1), &model, "src/deser/ascii.rs moc2d_to_ascii_ivoa == Model/AsciiCodec.v st_to_ascii (C11_ascii_st_roundtrip)");
          }
          asciix::compare_reader_2d(rep, orc, &s1, "written");
          if fold == Some(20) && !use_len {
            for d in asciix::mutations(rng, &s1, 3) {
              asciix::compare_reader_2d(rep, orc, &d, "mutated");
            }
          }
        }
        other => rep.violation("ST ASCII write/read fails", &shown, &format!("{:?}", other.map(|x| x.map(|y| y.0.show()))), &m.show(), "C11_text_roundtrip"),
      }
    }
  }
  for fold in [None, Some(0usize), Some(40)] {
    rep.evaluations += 1;
    rep.count("json");
    let mm = to_moc2(m);
    let r = catch(move || -> Result<(StMoc, String, String), String> {
      let mut buf = Vec::new();
      (&mm).into_range_moc2_iter().into_cell_moc2_iter().to_json_aladin(&fold, &mut buf).map_err(|e| format!("write error {:?}", e))?;
      let s = String::from_utf8(buf).map_err(|e| format!("{:?}", e))?;
      let back = cellmoc2d_from_json_aladin::<u64, Time<u64>, u64, Hpx<u64>>(&s).map_err(|e| format!("read error {:?} on {:?}", e, s))?;
      let back2 = back.into_cell_moc2_iter().into_range_moc2_iter().into_range_moc2();
      let mut buf2 = Vec::new();
      (&back2).into_range_moc2_iter().into_cell_moc2_iter().to_json_aladin(&fold, &mut buf2).map_err(|e| format!("write error {:?}", e))?;
      Ok((from_moc2(back2), s, String::from_utf8_lossy(&buf2).to_string()))
    });
    let shown = format!("{} # format=json(fold={:?})", case, fold);
    if let Ok(Ok((_, s1, _))) = &r {
      rep.evaluations += 1;
      rep.count("json2-writer-exact");
      let req = match labels {
        None => format!("JSON2W {} {} {} {}", m.dt, m.ds, fold.map(|x| x.to_string()).unwrap_or("-".to_string()), m.wire()),
        Some((lt, ls)) => format!("JSON2WL {} {} {} {} {} {}", m.dt, m.ds, lt, ls, fold.map(|x| x.to_string()).unwrap_or("-".to_string()), m.wire()),
      };
      let model = orc.ask(&req);
      let model_hex = model.split_whitespace().nth(1).unwrap_or("").to_string();
      if !model.starts_with("OK") || asciix::hex(s1.as_bytes()) != model_hex {
        rep.corr_break("cellmoc2d_to_json_aladin writes other characters than the character-level model", &format!("{} # {}", req, shown), &format!("{:?}", s1), &model.chars().take(300).collect::<String>(), "src/deser/json.rs cellmoc2d_to_json_aladin == Model/JsonCodec.v st_to_json");
      }
      asciix::compare_reader_json_2d(rep, orc, s1, "written");
      if s1.len() < 3000 {
        for d in asciix::json_mutations(rng, s1, 3) {
          asciix::compare_reader_json_2d(rep, orc, &d, "mutated");
        }
      }
    }
    match r {
      Ok(Ok((back, s1, s2))) => {
        if back != *m {
          rep.violation("ST JSON write/read does not round-trip", &shown, &back.show(), &m.show(), "C11_text_roundtrip");
        } else if s1 != s2 {
          rep.violation("re-serialising the decoded ST-MOC (JSON) does not reproduce the same bytes", &shown, &s2, &s1, "C11 (idempotent re-serialisation)");
        }
      }
      other => rep.violation("ST JSON write/read fails", &shown, &format!("{:?}", other.map(|x| x.map(|y| y.0.show()))), &m.show(), "C11_text_roundtrip"),
    }
  }
}

/// the same ST-MOC expressed with width-w indices (valid when dt, ds fit the width)
fn narrow(m: &StMoc, w: u8) -> StMoc {
  let k = 64 - w as u32;
  StMoc { dt: m.dt, ds: m.ds, elems: m.elems.iter().map(|(t, s)| (t.iter().map(|(a, b)| (a >> k, b >> k)).collect(), s.iter().map(|(a, b)| (a >> k, b >> k)).collect())).collect() }
}

pub fn run(ctx: &Ctx) -> Report {
  let mut rep = Report::default();
  let mut orc = Oracle::spawn();
  let mut rng = Rng::new(ctx.seed);
  rep.rule = "valid ST-MOCs (0, 1, many elements; multi-range time parts; time indices in the highest usable bits = top of the time domain; unoccupied deepest levels: declared depths deeper than occupied) ; FITS v2 through both writers for u64, and for u32 / u16 when the depths fit (structure, data bytes vs row/byte model, read back, re-serialisation identical); ASCII x {fold None,20,80} x {a-b, a+len}; JSON x {fold None,40}. non-trivial = >= 1 element; distinct = distinct ST-MOC".to_string();
  for doc in asciix::crafted_json_2d() {
    asciix::compare_reader_json_2d(&mut rep, &mut orc, &doc, "crafted");
  }
  for doc in asciix::crafted_2d() {
    asciix::compare_reader_2d(&mut rep, &mut orc, &doc, "crafted");
  }
  let n = ctx.n(1_200, 50_000);
  for i in 0..n {
    let dt = *rng.pick(&[0u8, 3, 10, 13, 29, 61]);
    let ds = *rng.pick(&[0u8, 1, 5, 13, 29]);
    let ncells = 2u64 << dt;
    let nslots = rng.range(4, 10).min(ncells);
    let base = if rng.chance(1, 2) { 0 } else { ncells - nslots };
    let mut m = if i == 0 { StMoc { dt, ds, elems: vec![] } } else { gen_stmoc(&mut rng, dt, ds, nslots, base, 4, 3) };
    let case0 = format!("STSER {}", m.show());
    fits_checks::<u64>(&mut rep, &mut orc, &m, 64, &case0);
    text_checks(&mut rep, &mut orc, &mut rng, &m, &case0, None);
    if dt <= 29 && ds <= 13 {
      fits_checks::<u32>(&mut rep, &mut orc, &narrow(&m, 32), 32, &case0);
    }
    if dt <= 13 && ds <= 5 {
      fits_checks::<u16>(&mut rep, &mut orc, &narrow(&m, 16), 16, &case0);
    }
    // declared depths deeper than the occupied ones
    if rng.chance(1, 3) {
      m.dt = rng.range(dt as u64, 61) as u8;
      m.ds = rng.range(ds as u64, 29) as u8;
      let case1 = format!("STSER {}", m.show());
      fits_checks::<u64>(&mut rep, &mut orc, &m, 64, &case1);
      text_checks(&mut rep, &mut orc, &mut rng, &m, &case1, None);
      // ... and elements labelled with their own (shallower) depths inside the deeper ST-MOC
      text_checks(&mut rep, &mut orc, &mut rng, &m, &format!("{} # elements labelled dt={} ds={}", case1, dt, ds), Some((dt, ds)));
    }
    if !m.elems.is_empty() {
      rep.nontrivial(&case0);
    }
    rep.sample(&case0);
  }
  rep.notes.push(format!("oracle calls: {}", orc.calls));
  rep
}
