//! mocverif — correspondence harness: runs the real cds-moc-rust implementation
//! (built from /repo's working tree) and the extracted Coq models on the same
//! cases, compares through each property's own observation, and writes a JSON
//! report consumed by bin/check.
mod common;
mod iters;
mod c01;
mod c02;
mod c03;
mod c04;
mod c05;
mod c06;
mod c07;
mod c08;
mod c09;
mod c10;
mod c11;
mod c12;
mod c13;
mod c14;
mod c15;
mod c16;
mod c17;
mod c18;
mod c19;
mod c20;
mod alloc;
mod asciix;
mod fitsx;

#[global_allocator]
static GLOBAL: alloc::Counting = alloc::Counting;
mod st;

use common::*;

fn main() {
  let args: Vec<String> = std::env::args().collect();
  if args.len() >= 4 && args[1] == "DECODE1" {
    c12::child_decode(&args[2], &args[3]);
    return;
  }
  if args.len() < 4 {
    eprintln!("usage: mocverif <property> <quick|thorough> <out.json> [--replay <case line>]");
    std::process::exit(2);
  }
  let prop = args[1].as_str();
  let thorough = args[2] == "thorough";
  let out = args[3].clone();
  let replay = if args.len() >= 6 && args[4] == "--replay" { Some(args[5].clone()) } else { None };
  let seed: u64 = std::env::var("VERIF_SEED").ok().and_then(|s| s.parse().ok()).unwrap_or(1);
  install_quiet_panic_hook();
  let ctx = Ctx { seed, thorough, replay };
  let t0 = std::time::Instant::now();
  let rep = match prop {
    "C01" => c01::run(&ctx),
    "C02" => c02::run(&ctx),
    "C03" => c03::run(&ctx),
    "C04" => c04::run(&ctx),
    "C05" => c05::run(&ctx),
    "C06" => c06::run(&ctx),
    "C07" => c07::run(&ctx),
    "C08" => c08::run(&ctx),
    "C09" => c09::run(&ctx),
    "C10" => c10::run(&ctx),
    "C11" => c11::run(&ctx),
    "C12" => c12::run(&ctx),
    "C13" => c13::run(&ctx),
    "C14" => c14::run(&ctx),
    "C15" => c15::run(&ctx),
    "C16" => c16::run(&ctx),
    "C17" => c17::run(&ctx),
    "C18" => c18::run(&ctx),
    "C19" => c19::run(&ctx),
    "C20" => c20::run(&ctx),
    _ => {
      eprintln!("unknown property {}", prop);
      std::process::exit(2);
    }
  };
  let mut j = rep.to_json();
  j["harness_wall_s"] = serde_json::json!(t0.elapsed().as_secs_f64());
  j["seed"] = serde_json::json!(seed);
  std::fs::write(&out, serde_json::to_string_pretty(&j).unwrap()).unwrap();
}
