//! C19 — the command-line tool is a transparent front-end to the library semantics.
//! Real `moc` binary (rebuilt from /repo) on generated files:
//!  * `moc op inter|union|symdiff|minus` on two operands of every quantity stored with every pair
//!    of index widths (u16/u32/u64, range or NUNIQ encoding), `complement`, `degrade`, and the
//!    space-time variants (inter / union / minus / tfold / sfold), output in fits / ascii / json;
//!  * `moc convert` between every pair of formats (fits u16/u32/u64/NUNIQ, ascii, json; ST too);
//!  * `moc from pos|timestamp|timerange|freqval|freqrange`;
//!  * invalid inputs: non-zero exit with a message, never a crash.
//! The decoded output is compared with the extracted models: Cli.cli_op2 (= Ops1D in the 64-bit
//! frame, theorem C19_op2_transparent_across_widths), ST models of C10, builders of C06 / C18.
use crate::c14::{bin, run_cmd};
use crate::common::*;
use crate::dispatch;
use crate::iters::Inst;
use crate::st::*;
use moc::deser::ascii::{from_ascii_ivoa, moc2d_from_ascii_ivoa, to_ascii_ivoa};
use moc::deser::fits::{from_fits_ivoa, hpx_cells_to_fits_ivoa, rangemoc2d_to_fits_ivoa, MocIdxType, MocQtyType, MocType, STMocType};
use moc::deser::json::{cellmoc2d_from_json_aladin, from_json_aladin, to_json_aladin};
use moc::idx::Idx;
use moc::moc::range::RangeMOC;
use moc::moc::{CellMOCIntoIterator, CellMOCIterator, CellOrCellRangeMOCIntoIterator, CellOrCellRangeMOCIterator, HasMaxDepth, RangeMOCIntoIterator, RangeMOCIterator};
use moc::moc2d::{CellMOC2IntoIterator, CellOrCellRangeMOC2IntoIterator, RangeMOC2IntoIterator, RangeMOC2Iterator};
use moc::qty::{Frequency, Hpx, MocQty, Time};
use std::io::Cursor;
use std::path::{Path, PathBuf};

fn narrow(m: &Moc, w: u8) -> Moc {
  let k = 64 - w as u32;
  Moc { q: m.q, w, d: m.d, r: m.r.iter().map(|(a, b)| (a >> k, b >> k)).collect() }
}

/// FITS bytes of a 64-bit-frame MOC stored with width w (range encoding, or NUNIQ for space)
pub fn fits_bytes(m: &Moc, w: u8, nuniq: bool) -> Vec<u8> {
  let mw = narrow(m, w);
  dispatch!(m.q, w, |T, QQ| {
    let mm: RangeMOC<T, QQ> = to_range_moc(&mw);
    let mut b = Vec::new();
    (&mm).into_range_moc_iter().to_fits_ivoa(None, None, &mut b).unwrap();
    b
  })
  .into_iter()
  .collect::<Vec<u8>>()
  .pipe(|b| if nuniq && m.q == Q::S { nuniq_bytes(&mw) } else { b })
}
trait Pipe: Sized {
  fn pipe<R>(self, f: impl FnOnce(Self) -> R) -> R {
    f(self)
  }
}
impl<T> Pipe for T {}

fn nuniq_bytes(mw: &Moc) -> Vec<u8> {
  fn go<T: Idx>(mw: &Moc) -> Vec<u8> {
    let mm: RangeMOC<T, Hpx<T>> = to_range_moc(mw);
    let mut b = Vec::new();
    hpx_cells_to_fits_ivoa((&mm).into_range_moc_iter().cells(), None, None, &mut b).unwrap();
    b
  }
  match mw.w {
    16 => go::<u16>(mw),
    32 => go::<u32>(mw),
    _ => go::<u64>(mw),
  }
}

fn text_bytes(m: &Moc, json: bool) -> Vec<u8> {
  dispatch!(m.q, 64, |T, QQ| {
    let mm: RangeMOC<T, QQ> = to_range_moc(m);
    let mut b = Vec::new();
    if json {
      to_json_aladin((&mm).into_range_moc_iter().cells(), &None, "", &mut b).unwrap();
    } else {
      to_ascii_ivoa((&mm).into_range_moc_iter().cells().cellranges(), &None, false, &mut b).unwrap();
    }
    b
  })
}

fn up<T: Idx, QQ: MocQty<T>>(q: Q, m: RangeMOC<T, QQ>) -> (Q, u8, Vec<(u64, u64)>) {
  let k = 64 - T::N_BITS as u32;
  (q, m.depth_max(), m.moc_ranges().iter().map(|r| (r.start.to_u64() << k, r.end.to_u64() << k)).collect())
}
fn up_q<T: Idx, R: std::io::BufRead>(x: MocQtyType<T, R>) -> Result<(Q, u8, Vec<(u64, u64)>), String> {
  match x {
    MocQtyType::Hpx(MocType::Ranges(t)) => Ok(up(Q::S, t.into_range_moc())),
    MocQtyType::Hpx(MocType::Cells(t)) => Ok(up(Q::S, t.into_cell_moc_iter().ranges().into_range_moc())),
    MocQtyType::Time(MocType::Ranges(t)) => Ok(up(Q::T, t.into_range_moc())),
    MocQtyType::Time(MocType::Cells(t)) => Ok(up(Q::T, t.into_cell_moc_iter().ranges().into_range_moc())),
    MocQtyType::Freq(MocType::Ranges(t)) => Ok(up(Q::F, t.into_range_moc())),
    MocQtyType::Freq(MocType::Cells(t)) => Ok(up(Q::F, t.into_cell_moc_iter().ranges().into_range_moc())),
    _ => Err("space-time / other".to_string()),
  }
}
/// decode a 1-D FITS MOC of any width / quantity into the 64-bit frame
fn decode_fits_1d(bytes: &[u8]) -> Result<(Q, u8, Vec<(u64, u64)>), String> {
  match from_fits_ivoa(Cursor::new(bytes.to_vec())).map_err(|e| format!("{:?}", e))? {
    MocIdxType::U16(x) => up_q(x),
    MocIdxType::U32(x) => up_q(x),
    MocIdxType::U64(x) => up_q(x),
  }
}
fn decode_text_1d(q: Q, s: &str, json: bool) -> Result<(Q, u8, Vec<(u64, u64)>), String> {
  fn go<QQ: Inst<u64>>(q: Q, s: &str, json: bool) -> Result<(Q, u8, Vec<(u64, u64)>), String> {
    if json {
      let c = from_json_aladin::<u64, QQ>(s).map_err(|e| format!("{:?}", e))?;
      Ok(up(q, c.into_cell_moc_iter().ranges().into_range_moc()))
    } else {
      let c = from_ascii_ivoa::<u64, QQ>(s).map_err(|e| format!("{:?}", e))?;
      Ok(up(q, c.into_cellcellrange_moc_iter().ranges().into_range_moc()))
    }
  }
  match q {
    Q::S => go::<Hpx<u64>>(q, s, json),
    Q::T => go::<Time<u64>>(q, s, json),
    Q::F => go::<Frequency<u64>>(q, s, json),
  }
}
pub fn decode_out(q: Q, fmt: &str, path: &Path) -> Result<(Q, u8, Vec<(u64, u64)>), String> {
  let bytes = std::fs::read(path).map_err(|e| format!("no output file: {}", e))?;
  match fmt {
    "fits" => decode_fits_1d(&bytes),
    "json" => decode_text_1d(q, &String::from_utf8_lossy(&bytes), true),
    _ => decode_text_1d(q, &String::from_utf8_lossy(&bytes), false),
  }
}

pub fn st_fits(m: &StMoc) -> Vec<u8> {
  let mm = to_moc2(m);
  let mut b = Vec::new();
  rangemoc2d_to_fits_ivoa(&mm, None, None, &mut b).unwrap();
  b
}
fn decode_st(fmt: &str, path: &Path) -> Result<StMoc, String> {
  let bytes = std::fs::read(path).map_err(|e| format!("no output file: {}", e))?;
  match fmt {
    "fits" => match from_fits_ivoa(Cursor::new(bytes)).map_err(|e| format!("{:?}", e))? {
      MocIdxType::U64(MocQtyType::TimeHpx(STMocType::V2(it))) => Ok(from_moc2(it.into_range_moc2())),
      _ => Err("not a u64 ST-MOC".to_string()),
    },
    "json" => {
      let c = cellmoc2d_from_json_aladin::<u64, Time<u64>, u64, Hpx<u64>>(&String::from_utf8_lossy(&bytes)).map_err(|e| format!("{:?}", e))?;
      Ok(from_moc2(c.into_cell_moc2_iter().into_range_moc2_iter().into_range_moc2()))
    }
    _ => {
      let c = moc2d_from_ascii_ivoa::<u64, Time<u64>, u64, Hpx<u64>>(&String::from_utf8_lossy(&bytes)).map_err(|e| format!("{:?}", e))?;
      Ok(from_moc2(c.into_cellcellrange_moc2_iter().into_range_moc2_iter().into_range_moc2()))
    }
  }
}

struct Env<'a> {
  rep: &'a mut Report,
  orc: &'a mut Oracle,
  moc: PathBuf,
  dir: PathBuf,
  last_stderr: String,
}
impl<'a> Env<'a> {
  fn p(&self, name: &str) -> PathBuf {
    self.dir.join(name)
  }
  /// runs `moc args... <fmt> <out>`; a crash (signal, exit 101 or a panic message) is a violation
  fn run(&mut self, args: &[String], case: &str) -> Option<i32> {
    self.run_c(args, case, &|_| String::new())
  }
  /// `crash_class` maps the standard error of a crash to a classification (known-findings matching)
  fn run_c(&mut self, args: &[String], case: &str, crash_class: &dyn Fn(&str) -> String) -> Option<i32> {
    let a: Vec<&str> = args.iter().map(|s| s.as_str()).collect();
    let r = run_cmd(&self.moc, &a, None);
    self.rep.evaluations += 1;
    self.last_stderr = r.stderr.clone();
    if r.code.is_none() || r.code == Some(101) || r.stderr.contains("panicked") {
      let cls = crash_class(&r.stderr);
      self.rep.violation_c(&format!("the moc tool crashes (exit {:?})", r.code), case, &r.stderr.chars().take(300).collect::<String>(), "exit status + message", "C19 (never a crash)", &cls);
      return None;
    }
    r.code
  }
}

fn widths_for(q: Q, d: u8) -> Vec<u8> {
  ALL_W.iter().cloned().filter(|w| d <= q.max_depth(*w)).collect()
}

fn op_cases(e: &mut Env, rng: &mut Rng, n: u64) {
  for _ in 0..n {
    let q = ALL_Q[rng.below(3) as usize];
    // depths that allow narrow storage most of the time
    let pick_d = |rng: &mut Rng| -> u8 {
      match rng.below(4) {
        0 => rng.range(0, q.max_depth(16) as u64) as u8,
        1 => rng.range(0, q.max_depth(32) as u64) as u8,
        _ => rng.range(0, q.max_depth(64) as u64) as u8,
      }
    };
    let (da, db) = (pick_d(rng), pick_d(rng));
    let a = gen_moc(rng, q, 64, da, 5);
    let b = gen_related(rng, &a, db, 5);
    let wa = *rng.pick(&widths_for(q, da));
    let wb = *rng.pick(&widths_for(q, db));
    let (na, nb) = (q == Q::S && rng.chance(1, 3), q == Q::S && rng.chance(1, 3));
    let (pa, pb) = (e.p("left_operand.fits"), e.p("right_operand.fits"));
    std::fs::write(&pa, fits_bytes(&a, wa, na)).unwrap();
    std::fs::write(&pb, fits_bytes(&b, wb, nb)).unwrap();
    let fmt = *rng.pick(&["fits", "ascii", "json"]);
    let out = e.p("result_out");
    let _ = std::fs::remove_file(&out);
    let kind = rng.below(6);
    let (args, line): (Vec<String>, String) = match kind {
      0..=3 => {
        let (name, o) = [("inter", "and"), ("union", "or"), ("symdiff", "xor"), ("minus", "minus")][kind as usize];
        (vec!["op".into(), name.into(), pa.to_str().unwrap().into(), pb.to_str().unwrap().into()], format!("OP2 {} {} 64 {} {}", o, q.c(), a.dr(), b.dr()))
      }
      4 => (vec!["op".into(), "complement".into(), pa.to_str().unwrap().into()], format!("NOT {} 64 {}", q.c(), a.dr())),
      _ => {
        let t = rng.range(0, da as u64) as u8;
        (vec!["op".into(), "degrade".into(), t.to_string(), pa.to_str().unwrap().into()], format!("DEG {} 64 {} {}", q.c(), a.dr(), t))
      }
    };
    let mut args = args;
    args.push(fmt.into());
    if fmt == "fits" && rng.chance(1, 4) {
      args.push("--force-u64".into());
    }
    args.push(out.to_str().unwrap().into());
    let case = format!("{} # moc {} (left: u{}{} right: u{}{} out: {})", line, args[..args.len() - 1].join(" "), wa, if na { " nuniq" } else { "" }, wb, if nb { " nuniq" } else { "" }, fmt);
    e.rep.count(&format!("op:{}:{}:w{}x{}", args[1], q.c(), wa, if kind < 4 { wb.to_string() } else { "-".into() }));
    let code = match e.run(&args, &case) {
      Some(c) => c,
      None => continue,
    };
    let exp = e.orc.ask(&line);
    let got = decode_out(q, fmt, &out).map(|(qq, d, r)| format!("OK {} {}{}", d, ranges_str(&r), if qq != q { " WRONG-QUANTITY" } else { "" }));
    if code != 0 || got.as_deref() != Ok(exp.as_str()) {
      e.rep.violation("the decoded output of `moc op` is not the set-theoretic result on the decoded inputs", &case, &format!("exit {} {:?}", code, got), &exp, "C19_op2_transparent_across_widths / C19_complement_transparent");
    } else if !a.r.is_empty() && !b.r.is_empty() {
      e.rep.nontrivial(&case);
      e.rep.sample(&case);
    }
  }
}

/// `moc op extend|contract|extborder|intborder|fillexcept|fillholes` on space MOCs of depth <= 3: the decoded output must
/// be what the library method returns on the decoded input (the methods themselves are judged by C17)
fn geom_cases(e: &mut Env, rng: &mut Rng, n: u64) {
  for _ in 0..n {
    let d = rng.range(0, 3) as u8;
    let a = gen_moc(rng, Q::S, 64, d, 6);
    let wa = *rng.pick(&widths_for(Q::S, d));
    let pa = e.p("geom_operand.fits");
    std::fs::write(&pa, fits_bytes(&a, wa, rng.chance(1, 3))).unwrap();
    let fmt = *rng.pick(&["fits", "ascii", "json"]);
    let out = e.p("geom_out");
    let _ = std::fs::remove_file(&out);
    let mm: RangeMOC<u64, Hpx<u64>> = to_range_moc(&a);
    let k = rng.below(3) as usize;
    let frac = *rng.pick(&[0.0f64, 0.01, 0.1, 0.5, 1.0]);
    let kind = rng.below(6);
    let (mut args, exp): (Vec<String>, Result<RangeMOC<u64, Hpx<u64>>, String>) = match kind {
      0 => (vec!["op".into(), "extend".into(), pa.to_str().unwrap().into()], catch(|| mm.expanded())),
      1 => (vec!["op".into(), "contract".into(), pa.to_str().unwrap().into()], catch(|| mm.contracted())),
      2 => (vec!["op".into(), "extborder".into(), pa.to_str().unwrap().into()], catch(|| mm.external_border())),
      3 => (vec!["op".into(), "intborder".into(), pa.to_str().unwrap().into()], catch(|| mm.internal_border())),
      4 => (vec!["op".into(), "fillexcept".into(), "-k".into(), k.to_string(), pa.to_str().unwrap().into()], catch(|| mm.fill_holes(Some(k)))),
      _ => (vec!["op".into(), "fillholes".into(), format!("{}", frac), pa.to_str().unwrap().into()], catch(|| mm.fill_holes_smaller_than(frac))),
    };
    args.push(fmt.into());
    args.push(out.to_str().unwrap().into());
    let case = format!("GEOM {} # moc {} (input u{}, depth {}, out {})", a.dr(), args[..args.len() - 1].join(" "), wa, d, fmt);
    e.rep.count(&format!("op:{}", args[1]));
    let code = match e.run(&args, &case) {
      Some(c) => c,
      None => continue,
    };
    let exp = match exp {
      Ok(m) => format!("OK {} {}", m.depth_max(), ranges_str(&m.moc_ranges().iter().map(|r| (r.start, r.end)).collect::<Vec<_>>())),
      Err(_) => continue, // the library method itself fails: judged by C17
    };
    let got = decode_out(Q::S, fmt, &out).map(|(_, dd, r)| format!("OK {} {}", dd, ranges_str(&r)));
    if code != 0 || got.as_deref() != Ok(exp.as_str()) {
      e.rep.violation("the decoded output of a geometric `moc op` is not what the library method returns on the decoded input", &case, &format!("exit {} {:?}", code, got), &exp, "C19 (transparent front end) + C17");
    } else if !a.r.is_empty() {
      e.rep.nontrivial(&case);
    }
  }
}

fn convert_cases(e: &mut Env, rng: &mut Rng, n: u64) {
  for _ in 0..n {
    let q = ALL_Q[rng.below(3) as usize];
    let d = match rng.below(3) {
      0 => rng.range(0, q.max_depth(16) as u64) as u8,
      _ => rng.range(0, q.max_depth(64) as u64) as u8,
    };
    let m = gen_moc(rng, q, 64, d, 6);
    let fin = *rng.pick(&["fits", "ascii", "json"]);
    let fout = *rng.pick(&["fits", "ascii", "json"]);
    let tname = match q {
      Q::S => "smoc",
      Q::T => "tmoc",
      Q::F => "fmoc",
    };
    let (inp, desc): (PathBuf, String) = match fin {
      "fits" => {
        let w = *rng.pick(&widths_for(q, d));
        let nu = q == Q::S && rng.chance(1, 3);
        let p = e.p("input_moc.fits");
        std::fs::write(&p, fits_bytes(&m, w, nu)).unwrap();
        (p, format!("fits u{}{}", w, if nu { " nuniq" } else { "" }))
      }
      "json" => {
        let p = e.p("input_moc.json");
        std::fs::write(&p, text_bytes(&m, true)).unwrap();
        (p, "json".into())
      }
      _ => {
        let p = e.p("input_moc.txt");
        std::fs::write(&p, text_bytes(&m, false)).unwrap();
        (p, "ascii".into())
      }
    };
    let out = e.p("converted_out");
    let _ = std::fs::remove_file(&out);
    let mut args: Vec<String> = vec!["convert".into()];
    if fin != "fits" {
      args.extend(["-t".to_string(), tname.to_string(), "-f".to_string(), fin.to_string()]);
    }
    args.push(inp.to_str().unwrap().into());
    args.push(fout.into());
    if fout == "fits" && q == Q::S && rng.chance(1, 4) {
      args.push("--force-v1".into());
    }
    args.push(out.to_str().unwrap().into());
    let case = format!("CONVERT {} {} # moc {} (input: {})", q.c(), m.dr(), args[..args.len() - 1].join(" "), desc);
    e.rep.count(&format!("convert:{}->{}", fin, fout));
    let code = match e.run(&args, &case) {
      Some(c) => c,
      None => continue,
    };
    let got = decode_out(q, fout, &out);
    let exp = (q, m.d, m.r.clone());
    if code != 0 || got.as_ref() != Ok(&exp) {
      e.rep.violation("`moc convert` changes the decoded MOC", &case, &format!("exit {} {:?}", code, got.map(|x| (x.1, ranges_str(&x.2)))), &format!("{} {}", m.d, ranges_str(&m.r)), "C19_width_change_preserves_denotation + C07 round trips");
    } else if !m.r.is_empty() {
      e.rep.nontrivial(&case);
    }
  }
}

fn st_cases(e: &mut Env, rng: &mut Rng, n: u64) {
  for _ in 0..n {
    let dt = rng.range(0, 8) as u8;
    let ds = rng.range(0, 3) as u8;
    let base = if rng.chance(1, 2) { 0 } else { rng.below(1u64 << dt) };
    let nslots = (1u64 << (dt + 1)).min(8).min((1u64 << (dt + 1)) - base.min((1u64 << (dt + 1)) - 1));
    let a = gen_stmoc(rng, dt, ds, nslots.max(1), base, 3, 2);
    // the right operand has the same depths, or is deeper / shallower on either dimension (same
    // region of the time axis: slot numbers scaled), so that its borders cut into the left one's cells
    let (ddt, dds) = if rng.chance(1, 2) { (0i32, 0i32) } else { (rng.range(0, 2) as i32 - if dt > 0 && rng.chance(1, 4) { 1 } else { 0 }, rng.range(0, 2) as i32 - if ds > 0 && rng.chance(1, 4) { 1 } else { 0 }) };
    let dt2 = (dt as i32 + ddt).clamp(0, 61) as u8;
    let ds2 = (ds as i32 + dds).clamp(0, 29) as u8;
    let (base2, nslots2) = if dt2 >= dt { (base << (dt2 - dt), (nslots.max(1) << (dt2 - dt)).min(16)) } else { (base >> (dt - dt2), (nslots.max(1) >> (dt - dt2)).max(1)) };
    let b = gen_stmoc(rng, dt2, ds2, nslots2, base2, 3, 2);
    let (pa, pb) = (e.p("left_stmoc.fits"), e.p("right_stmoc.fits"));
    std::fs::write(&pa, st_fits(&a)).unwrap();
    std::fs::write(&pb, st_fits(&b)).unwrap();
    let out = e.p("st_result_out");
    let _ = std::fs::remove_file(&out);
    let fmt = *rng.pick(&["fits", "ascii", "json"]);
    match rng.below(7) {
      k @ 0..=2 => {
        let (name, o) = [("inter", "and"), ("union", "or"), ("minus", "minus")][k as usize];
        let args: Vec<String> = vec!["op".into(), name.into(), pa.to_str().unwrap().into(), pb.to_str().unwrap().into(), fmt.into(), out.to_str().unwrap().into()];
        let case = format!("STOP {} A: {} | B: {} # moc op {} ... {}", o, a.show(), b.show(), name, fmt);
        e.rep.count(&format!("st:{}", name));
        // D10e (known finding): an element of a union keeps the time depth of the operand it comes
        // from although it was cut at the deeper bounds of the other one; the text writers index
        // their per-depth buckets out of bounds or round the range to that depth
        let d10e = o == "or" && a.dt != b.dt && fmt != "fits";
        let fmt_s = fmt.to_string();
        let code = match e.run_c(&args, &case, &move |stderr: &str| {
          let file = if fmt_s == "ascii" { "src/deser/ascii.rs" } else { "src/deser/json.rs" };
          if d10e && stderr.contains("index out of bounds") && stderr.contains(file) {
            format!("st-union-elem-depth|crash|{}", fmt_s)
          } else {
            String::new()
          }
        }) {
          Some(c) => c,
          None => continue,
        };
        match decode_st(fmt, &out) {
          Ok(res) if code == 0 => {
            // the point set is judged by the verified checker of C08 / C10 (shape clauses belong to those properties)
            let line = format!("ST2R {} {} {} {} {} {}", o, res.dt, res.ds, res.wire(), a.wire(), b.wire());
            let ans = e.orc.ask(&line);
            let t: Vec<&str> = ans.split_whitespace().collect();
            let depths_ok = res.elems.is_empty() || (res.dt == a.dt.max(b.dt) && res.ds == a.ds.max(b.ds));
            if t.len() < 3 || t[0] != "OK" || t[2] != "1" || !depths_ok {
              // is it the text rendering only (D10e)?  the same operation written in FITS is then right
              let mut cls = String::new();
              if d10e {
                let out2 = e.p("st_result_out_fits");
                let _ = std::fs::remove_file(&out2);
                let args2: Vec<String> = vec!["op".into(), name.into(), pa.to_str().unwrap().into(), pb.to_str().unwrap().into(), "fits".into(), out2.to_str().unwrap().into()];
                let a2: Vec<&str> = args2.iter().map(|s| s.as_str()).collect();
                let r2 = run_cmd(&e.moc, &a2, None);
                if r2.code == Some(0) {
                  if let Ok(res2) = decode_st("fits", &out2) {
                    let ans2 = e.orc.ask(&format!("ST2R {} {} {} {} {} {}", o, res2.dt, res2.ds, res2.wire(), a.wire(), b.wire()));
                    let t2: Vec<&str> = ans2.split_whitespace().collect();
                    if t2.len() >= 3 && t2[0] == "OK" && t2[2] == "1" {
                      cls = "st-union-elem-depth|text".to_string();
                    }
                  }
                }
              }
              e.rep.violation_c("the decoded output of `moc op` on space-time MOCs does not cover the set-theoretic result", &case, &format!("{} -> {}", res.show(), ans), "point set = op(A, B)", "C19 + C08_pointset_checker_exact", &cls);
            } else if !a.elems.is_empty() && !b.elems.is_empty() {
              e.rep.nontrivial(&case);
            }
          }
          other => {
            // D10e after the repair of the writers (5fabc29): the element whose time MOC declares the
            // shallower depth makes the ASCII / JSON writer return an error instead of aborting
            let cls = if d10e && code != 0 && e.last_stderr.contains("Cell of depth") && e.last_stderr.contains("in a MOC of maximum depth") { format!("st-union-elem-depth|error|{}", fmt) } else { String::new() };
            e.rep.violation_c("`moc op` on space-time MOCs fails or writes an unreadable file", &case, &format!("exit {} {:?} {}", code, other.map(|x| x.show()), e.last_stderr.chars().take(200).collect::<String>()), "Ok", "C19", &cls)
          }
        }
      }
      k @ 3..=4 => {
        // folds: left = T-MOC (tfold) or S-MOC (sfold), right = ST-MOC
        let tf = k == 3;
        let sel = if tf {
          let sh = Q::T.shift(64, dt);
          let x = base + rng.below(nslots.max(1));
          let y = (x + 1 + rng.below(3)).min(1u64 << (dt + 1));
          Moc { q: Q::T, w: 64, d: dt, r: vec![(x << sh, y << sh)] }
        } else {
          let mut sel = Moc { q: Q::S, w: 64, d: ds, r: rng.pick(&s_pool(ds)).clone() };
          // half of the time: a selector DEEPER than the space depth of the ST-MOC covering only a part of a
          // coarse cell of one of its coverages (containment must not be decided on a degraded selector)
          if rng.chance(1, 2) && ds < 29 {
            if let Some((_, s0)) = a.elems.first() {
              if let Some((x, y)) = s0.first() {
                if (y - x) >= 4 {
                  let mut v: Vec<(u64, u64)> = vec![(*x, x + 3 * ((y - x) / 4))];
                  if let Some((_, s1)) = a.elems.get(1) {
                    for (x1, y1) in s1 {
                      if !v.iter().any(|(p, q)| p < y1 && x1 < q) {
                        v.push((*x1, *y1));
                      }
                    }
                  }
                  v.sort_unstable();
                  let mut w: Vec<(u64, u64)> = Vec::new();
                  for (p, q) in v {
                    match w.last_mut() {
                      Some(l) if l.1 >= p => l.1 = l.1.max(q),
                      _ => w.push((p, q)),
                    }
                  }
                  sel = Moc { q: Q::S, w: 64, d: ds + 1, r: w };
                }
              }
            }
          }
          sel
        };
        let ps = e.p("fold_selector.fits");
        std::fs::write(&ps, fits_bytes(&sel, 64, false)).unwrap();
        let name = if tf { "tfold" } else { "sfold" };
        let args: Vec<String> = vec!["op".into(), name.into(), ps.to_str().unwrap().into(), pa.to_str().unwrap().into(), fmt.into(), out.to_str().unwrap().into()];
        let line = format!("{} {} {}", if tf { "TFOLD" } else { "SFOLD" }, a.wire(), ranges_str(&sel.r));
        let case = format!("{} # moc op {} ... {} (ST: {})", line, name, fmt, a.show());
        e.rep.count(&format!("st:{}", name));
        let code = match e.run(&args, &case) {
          Some(c) => c,
          None => continue,
        };
        let exp = e.orc.ask(&line);
        let qo = if tf { Q::S } else { Q::T };
        let got = decode_out(qo, fmt, &out).map(|(_, _, r)| format!("OK {}", ranges_str(&r)));
        if code != 0 || got.as_deref() != Ok(exp.as_str()) {
          e.rep.violation("the decoded output of a fold is not the union of the coverages selected", &case, &format!("exit {} {:?}", code, got), &exp, "C19 + C10_tfold / C10_sfold");
        }
      }
      5 => {
        // convert a ST-MOC between formats
        let fin = *rng.pick(&["fits", "ascii", "json"]);
        let inp = e.p(match fin {
          "fits" => "st_input.fits",
          "json" => "st_input.json",
          _ => "st_input.txt",
        });
        let mm = to_moc2(&a);
        let mut bts: Vec<u8> = Vec::new();
        match fin {
          "fits" => bts = st_fits(&a),
          "json" => {
            use moc::moc2d::CellMOC2Iterator;
            (&mm).into_range_moc2_iter().into_cell_moc2_iter().to_json_aladin(&None, &mut bts).unwrap();
          }
          _ => {
            use moc::moc2d::CellOrCellRangeMOC2Iterator;
            (&mm).into_range_moc2_iter().into_cellcellrange_moc2_iter().to_ascii_ivoa(Some(80), false, &mut bts).unwrap();
          }
        }
        std::fs::write(&inp, bts).unwrap();
        let mut args: Vec<String> = vec!["convert".into()];
        if fin != "fits" {
          args.extend(["-t".to_string(), "stmoc".to_string(), "-f".to_string(), fin.to_string()]);
        }
        args.extend([inp.to_str().unwrap().to_string(), fmt.to_string(), out.to_str().unwrap().to_string()]);
        let case = format!("STCONVERT {} # moc {}", a.show(), args[..args.len() - 1].join(" "));
        e.rep.count(&format!("st:convert:{}->{}", fin, fmt));
        let code = match e.run(&args, &case) {
          Some(c) => c,
          None => continue,
        };
        let got = decode_st(fmt, &out);
        // an empty ST-MOC carries no depth in some formats: compare elements, and depths when non-empty
        let same = matches!(&got, Ok(g) if g.elems == a.elems && (a.elems.is_empty() || (g.dt == a.dt && g.ds == a.ds)));
        if code != 0 || !same {
          e.rep.violation("`moc convert` changes the decoded space-time MOC", &case, &format!("exit {} {:?}", code, got.map(|x| x.show())), &a.show(), "C19 + C11 round trips");
        }
      }
      _ => {
        // unsupported one-operand operations on ST-MOCs: an error, never a crash
        let name = *rng.pick(&["complement", "degrade"]);
        let mut args: Vec<String> = vec!["op".into(), name.into()];
        if name == "degrade" {
          args.push("0".into());
        }
        args.extend([pa.to_str().unwrap().to_string(), "ascii".to_string(), out.to_str().unwrap().to_string()]);
        let case = format!("STOP1 {} {} # moc {}", name, a.show(), args.join(" "));
        e.rep.count("st:unsupported-op1");
        if let Some(code) = e.run(&args, &case) {
          if code == 0 {
            e.rep.violation("an unsupported operation on a space-time MOC exits with status 0", &case, "exit 0", "non-zero + message", "C19 (invalid input)");
          }
        }
      }
    }
  }
}

fn from_cases(e: &mut Env, rng: &mut Rng, n: u64) {
  for _ in 0..n {
    let out = e.p("from_out.fits");
    let _ = std::fs::remove_file(&out);
    let inp = e.p("list_input.csv");
    match rng.below(5) {
      0 => {
        // positions -> depth-d cells (hash recomputed by the harness with the library the tool uses)
        let d = rng.range(0, 12) as u8;
        let mut txt = String::new();
        let mut cells: Vec<u64> = Vec::new();
        for _ in 0..rng.range(0, 6) {
          let c = rng.below(12u64 << (2 * d as u32));
          let (lon, lat) = cdshealpix::nested::center(d, c);
          let (lons, lats) = (format!("{}", lon.to_degrees()), format!("{}", lat.to_degrees()));
          let (lon2, lat2) = (lons.parse::<f64>().unwrap().to_radians(), lats.parse::<f64>().unwrap().to_radians());
          if !(0.0..2.0 * std::f64::consts::PI).contains(&lon2) || !(-0.5 * std::f64::consts::PI..=0.5 * std::f64::consts::PI).contains(&lat2) {
            continue;
          }
          cells.push(cdshealpix::nested::hash(d, lon2, lat2));
          txt.push_str(&format!("{},{}\n", lons, lats));
        }
        // positions on the borders of the coordinate domain and of the base cells: both poles (latitude exactly
        // +-90), longitude 0 and just below 360, the equator, the latitude where the polar caps begin
        if rng.chance(1, 2) {
          let specials = [("0", "90"), ("123.5", "-90"), ("45", "90"), ("315", "-90"), ("0", "0"), ("359.999999", "0"), ("90", "41.810314895778596"), ("180", "-41.810314895778596"), ("270", "89.999999"), ("0", "-89.999999")];
          for _ in 0..rng.range(1, 3) {
            let (lons, lats) = *rng.pick(&specials);
            let (lon2, lat2) = (lons.parse::<f64>().unwrap().to_radians(), lats.parse::<f64>().unwrap().to_radians());
            cells.push(cdshealpix::nested::hash(d, lon2, lat2));
            txt.push_str(&format!("{},{}\n", lons, lats));
          }
        }
        std::fs::write(&inp, txt).unwrap();
        let args: Vec<String> = vec!["from".into(), "pos".into(), d.to_string(), inp.to_str().unwrap().into(), "-s".into(), ",".into(), "fits".into(), out.to_str().unwrap().into()];
        let line = format!("BCELLS s 64 {} {} {}", d, cells.len(), cells.iter().map(|c| c.to_string()).collect::<Vec<_>>().join(" "));
        from_check(e, Q::S, &args, &line, &out, "C06_fixed_depth_cells");
      }
      k @ 1..=2 => {
        // timestamps / time ranges in microseconds since JD=0
        let d = rng.range(0, 61) as u8;
        let sh = 61 - d as u32;
        let base = rng.below(1u64 << 61) >> sh << sh;
        let mut txt = String::new();
        if k == 1 {
          let vals: Vec<u64> = (0..rng.range(0, 5)).map(|_| (base + rng.below(4 << sh.min(58))).min((1u64 << 62) - 1)).collect();
          for v in &vals {
            txt.push_str(&format!("{}\n", v));
          }
          std::fs::write(&inp, txt).unwrap();
          let args: Vec<String> = vec!["from".into(), "timestamp".into(), "--time-type".into(), "usec".into(), d.to_string(), inp.to_str().unwrap().into(), "fits".into(), out.to_str().unwrap().into()];
          let line = format!("MOCV t 64 {} {} {}", d, vals.len(), vals.iter().map(|c| c.to_string()).collect::<Vec<_>>().join(" "));
          from_check(e, Q::T, &args, &line, &out, "C18_moc_from_values_exact");
        } else {
          let rs: Vec<(u64, u64)> = (0..rng.range(0, 4)).map(|_| { let a = (base + rng.below(4 << sh.min(58))).min((1u64 << 62) - 2); (a, (a + 1 + rng.below(3 << sh.min(58))).min((1u64 << 62) - 1)) }).collect();
          for (a, b) in &rs {
            txt.push_str(&format!("{},{}\n", a, b));
          }
          std::fs::write(&inp, txt).unwrap();
          let args: Vec<String> = vec!["from".into(), "timerange".into(), "--time-type".into(), "usec".into(), "-s".into(), ",".into(), d.to_string(), inp.to_str().unwrap().into(), "fits".into(), out.to_str().unwrap().into()];
          let line = format!("MOCR t 64 {} {}", d, ranges_str(&rs));
          from_check(e, Q::T, &args, &line, &out, "C18_moc_from_ranges_exact");
        }
      }
      k => {
        // frequencies in Hz (printed with the shortest representation that round-trips)
        let d = rng.range(0, 59) as u8;
        const MIN_BITS: u64 = 929u64 << 52;
        let mut txt = String::new();
        if k == 3 {
          let vals: Vec<u64> = (0..rng.range(0, 5)).map(|_| rng.below(1u64 << 60)).collect();
          for v in &vals {
            txt.push_str(&format!("{:e}\n", f64::from_bits(v + MIN_BITS)));
          }
          std::fs::write(&inp, txt).unwrap();
          let args: Vec<String> = vec!["from".into(), "freqval".into(), d.to_string(), inp.to_str().unwrap().into(), "fits".into(), out.to_str().unwrap().into()];
          let line = format!("MOCV f 64 {} {} {}", d, vals.len(), vals.iter().map(|c| c.to_string()).collect::<Vec<_>>().join(" "));
          from_check(e, Q::F, &args, &line, &out, "C18_moc_from_values_exact");
        } else {
          let rs: Vec<(u64, u64)> = (0..rng.range(0, 4)).map(|_| { let a = rng.below((1u64 << 60) - 2); (a, (a + 1 + (rng.next() >> rng.range(4, 60))).min((1u64 << 60) - 1)) }).collect();
          for (a, b) in &rs {
            txt.push_str(&format!("{:e},{:e}\n", f64::from_bits(a + MIN_BITS), f64::from_bits(b + MIN_BITS)));
          }
          std::fs::write(&inp, txt).unwrap();
          let args: Vec<String> = vec!["from".into(), "freqrange".into(), "-s".into(), ",".into(), d.to_string(), inp.to_str().unwrap().into(), "fits".into(), out.to_str().unwrap().into()];
          let line = format!("MOCR f 64 {} {}", d, ranges_str(&rs));
          from_check(e, Q::F, &args, &line, &out, "C18_moc_from_ranges_exact");
        }
      }
    }
  }
}

fn from_check(e: &mut Env, q: Q, args: &[String], line: &str, out: &Path, thm: &str) {
  let case = format!("{} # moc {}", line, args[..args.len() - 1].join(" "));
  e.rep.count(&format!("from:{}", args[1]));
  let code = match e.run(args, &case) {
    Some(c) => c,
    None => return,
  };
  let exp = e.orc.ask(line);
  let got = decode_out(q, "fits", out).map(|(_, d, r)| format!("OK {} {}", d, ranges_str(&r)));
  if code != 0 || got.as_deref() != Ok(exp.as_str()) {
    e.rep.violation("`moc from` does not build the MOC of the listed elements", &case, &format!("exit {} {:?}", code, got), &exp, thm);
  } else {
    e.rep.nontrivial(&case);
  }
}

fn invalid_cases(e: &mut Env, rng: &mut Rng, n: u64) {
  for _ in 0..n {
    let q = ALL_Q[rng.below(3) as usize];
    let dd = rng.range(0, 5) as u8;
    let m = gen_moc(rng, q, 64, dd, 4);
    let good = fits_bytes(&m, 64, false);
    let out = e.p("invalid_out");
    let _ = std::fs::remove_file(&out);
    let inp = e.p("broken_input.fits");
    let (desc, bytes, args): (String, Vec<u8>, Vec<String>) = match rng.below(7) {
      6 => {
        // corrupt the range rows only (header intact): the rows may stop being a valid MOC
        let mut b = good.clone();
        let nrow_bytes = 16 * m.r.len();
        if nrow_bytes > 0 {
          for _ in 0..rng.range(1, 3) {
            let i = 5760 + rng.below(nrow_bytes as u64) as usize;
            b[i] = rng.next() as u8;
          }
        }
        ("FITS with random bytes changed".into(), b, vec!["convert".into(), inp.to_str().unwrap().into(), (*rng.pick(&["json", "ascii"])).into(), out.to_str().unwrap().into()])
      }
      0 => {
        let cut = rng.below(good.len() as u64) as usize;
        (format!("FITS truncated at {}", cut), good[..cut].to_vec(), vec!["op".into(), "complement".into(), inp.to_str().unwrap().into(), "ascii".into(), out.to_str().unwrap().into()])
      }
      1 => {
        let mut b = good.clone();
        for _ in 0..rng.range(1, 8) {
          let i = rng.below(b.len() as u64) as usize;
          b[i] = rng.next() as u8;
        }
        ("FITS with random bytes changed".into(), b, vec!["convert".into(), inp.to_str().unwrap().into(), "json".into(), out.to_str().unwrap().into()])
      }
      2 => ("garbage text as ascii".into(), b"3/1-2 x/7 99/1 4/".to_vec(), vec!["convert".into(), "-t".into(), "smoc".into(), "-f".into(), "ascii".into(), inp.to_str().unwrap().into(), "fits".into(), out.to_str().unwrap().into()]),
      3 => ("out-of-domain cell in ascii".into(), b"0/12 1/48".to_vec(), vec!["convert".into(), "-t".into(), "smoc".into(), "-f".into(), "ascii".into(), inp.to_str().unwrap().into(), "fits".into(), out.to_str().unwrap().into()]),
      4 => ("malformed json".into(), b"{\"1\":[1,2,".to_vec(), vec!["convert".into(), "-t".into(), "smoc".into(), "-f".into(), "json".into(), inp.to_str().unwrap().into(), "ascii".into(), out.to_str().unwrap().into()]),
      _ => ("missing input file".into(), vec![], vec!["op".into(), "union".into(), e.p("does_not_exist_1.fits").to_str().unwrap().into(), inp.to_str().unwrap().into(), "ascii".into(), out.to_str().unwrap().into()]),
    };
    std::fs::write(&inp, &bytes).unwrap();
    let case = format!("INVALID {} # moc {}", desc, args.join(" "));
    e.rep.count("invalid-input");
    let a: Vec<&str> = args.iter().map(|s| s.as_str()).collect();
    let r = run_cmd(&e.moc, &a, None);
    e.rep.evaluations += 1;
    if r.code.is_none() || r.code == Some(101) || r.stderr.contains("panicked") {
      // D35 (known finding, same root: the rows of a FITS range MOC are not validated): a row whose start lies in the
      // last cells of the index type makes the range -> cell conversion overflow (debug build: abort)
      let rows_only = desc.starts_with("FITS") && bytes.len() == good.len() && bytes[..5760.min(bytes.len())] == good[..5760.min(good.len())];
      let cls = if rows_only && r.stderr.contains("src/elem/range.rs") && r.stderr.contains("attempt to add with overflow") { "fits-rows-not-validated|overflow-in-cell-conversion" } else { "" };
      e.rep.violation_c(&format!("the moc tool crashes on invalid input (exit {:?})", r.code), &case, &r.stderr.chars().take(300).collect::<String>(), "non-zero exit + message", "C19 (never a crash)", cls);
    } else if r.code == Some(0) {
      // accepted: a corrupted data byte can still be a valid MOC; what is written must then decode
      let fmt = args[args.len() - 2].as_str();
      if desc.starts_with("FITS") {
        if decode_out(q, fmt, &out).is_err() {
          // D35 (known finding): the rows of a FITS range MOC are not validated
          let rows_only = bytes.len() == good.len() && bytes[..5760.min(bytes.len())] == good[..5760.min(good.len())];
          let cls = if rows_only { "fits-rows-not-validated|undecodable-output" } else { "" };
          e.rep.violation_c("exit 0 on a corrupted input but the output does not decode", &case, "undecodable output", "", "C19 (no silent misrepresentation)", cls);
        }
      } else {
        e.rep.violation("invalid input accepted with exit status 0", &case, "exit 0", "non-zero exit + message", "C19 (invalid input)");
      }
    } else if r.stderr.trim().is_empty() {
      e.rep.violation("non-zero exit without any message", &case, "", "message", "C19 (invalid input)");
    }
  }
}

pub fn run(ctx: &Ctx) -> Report {
  let mut rep = Report::default();
  let mut orc = Oracle::spawn();
  let mut rng = Rng::new(ctx.seed);
  rep.rule = "the real moc binary: op inter / union / symdiff / minus / complement / degrade on S, T, F MOCs of depths 0..MAX stored as FITS u16 / u32 / u64 ranges or NUNIQ (every pair of widths for the two operands), output fits (incl. --force-u64) / ascii / json decoded by the library readers and compared with the extracted operator models in the 64-bit frame; ST inter / union / minus judged by the verified point-set checker, tfold / sfold compared exactly, unsupported ST operations must fail cleanly; convert between fits (u16 / u32 / u64 / NUNIQ) / ascii / json for S, T, F and ST MOCs; from pos / timestamp / timerange / freqval / freqrange against the builder models; invalid inputs (truncated or corrupted FITS, garbage text, out-of-domain cells, malformed JSON, missing file): non-zero exit with a message, never a crash, never an undecodable output with exit 0. non-trivial = non-empty operands; distinct = distinct case line".to_string();
  let scratch = std::env::var("VERIF_SCRATCH").unwrap_or_else(|_| "/tmp".to_string());
  let dir = PathBuf::from(scratch).join("cli");
  let _ = std::fs::remove_dir_all(&dir);
  std::fs::create_dir_all(&dir).unwrap();
  let mut e = Env { rep: &mut rep, orc: &mut orc, moc: bin("moc"), dir, last_stderr: String::new() };
  if !e.moc.exists() {
    e.rep.violation("moc binary not built", "CLI", "", "", "internal");
    return rep;
  }
  op_cases(&mut e, &mut rng, ctx.n(500, 20_000));
  convert_cases(&mut e, &mut rng, ctx.n(250, 10_000));
  st_cases(&mut e, &mut rng, ctx.n(200, 8_000));
  geom_cases(&mut e, &mut rng, ctx.n(120, 4_000));
  from_cases(&mut e, &mut rng, ctx.n(150, 6_000));
  invalid_cases(&mut e, &mut rng, ctx.n(120, 5_000));
  let calls = e.orc.calls;
  rep.notes.push(format!("oracle calls: {}", calls));
  rep
}
