//! C12 — decoders are total on arbitrary bytes; accepted text documents are valid.
//! (a) validation correspondence: structured ASCII / JSON documents (mostly valid, plus every
//!     kind of invalid item: index = n_cells, n_cells + 1, inverted range, depth > max, huge
//!     numbers, overlaps, depths in any order) decoded by the real decoders and by the
//!     extracted TextValid.text_accept / text_decode (C12_accepted_text_is_a_valid_moc);
//! (b) totality: valid FITS / ASCII / JSON / stream documents, every single-field mutation,
//!     truncation at many offsets, random bytes: outcome class {Ok, Err} required, a panic,
//!     abort or an allocation request unrelated to the input size is a violation.  FITS
//!     documents are decoded in a child process (an allocation failure aborts).
use crate::alloc;
use crate::common::*;
use crate::fitsx;
use crate::asciix;
use crate::dispatch;
use crate::iters::*;
use crate::st::*;
use moc::deser::ascii::{from_ascii_ivoa, from_ascii_stream, moc2d_from_ascii_ivoa};
use moc::deser::fits::multiordermap::from_fits_multiordermap;
use moc::deser::fits::skymap::from_fits_skymap;
use moc::deser::fits::{hpx_cells_to_fits_ivoa, rangemoc2d_to_fits_ivoa};
use moc::deser::json::{cellmoc2d_from_json_aladin, from_json_aladin};
use moc::idx::Idx;
use moc::moc::range::RangeMOC;
use moc::moc::{CellMOCIntoIterator, CellMOCIterator, CellOrCellRangeMOCIntoIterator, CellOrCellRangeMOCIterator, HasMaxDepth, RangeMOCIntoIterator, RangeMOCIterator};
use moc::moc2d::{CellMOC2IntoIterator, CellMOC2Iterator, CellOrCellRangeMOC2IntoIterator, CellOrCellRangeMOC2Iterator, RangeMOC2IntoIterator, RangeMOC2Iterator};
use moc::qty::{Hpx, Time};
use moc::storage::u64idx::U64MocStore;
use std::io::{BufReader, Cursor};
use std::process::Command;

// ------------------------------------------------------------------ (a) validation
#[derive(Clone, Debug)]
struct Item {
  d: u64,
  a: u64,
  b_incl: u64, // inclusive end as written in the text
  as_range: bool,
  use_len: bool,
}

fn render_ascii(marks_first: bool, items: &[Item], trailing_depth: Option<u64>) -> String {
  let mut s = String::new();
  let mut cur: Option<u64> = None;
  let _ = marks_first;
  for it in items {
    if cur != Some(it.d) {
      if !s.is_empty() {
        s.push(' ');
      }
      s.push_str(&format!("{}/", it.d));
      cur = Some(it.d);
    } else {
      s.push(' ');
    }
    if it.as_range {
      if it.use_len && it.b_incl >= it.a {
        s.push_str(&format!("{}+{}", it.a, it.b_incl - it.a));
      } else {
        s.push_str(&format!("{}-{}", it.a, it.b_incl));
      }
    } else {
      s.push_str(&format!("{}", it.a));
    }
  }
  if let Some(d) = trailing_depth {
    if !s.is_empty() {
      s.push(' ');
    }
    s.push_str(&format!("{}/", d));
  }
  s
}

fn render_json(items: &[Item]) -> String {
  // JSON lists single cells per depth
  let mut by_depth: std::collections::BTreeMap<u64, Vec<u64>> = Default::default();
  for it in items {
    by_depth.entry(it.d).or_default().push(it.a);
  }
  let parts: Vec<String> = by_depth.iter().map(|(d, v)| format!("\"{}\": [{}]", d, v.iter().map(|x| x.to_string()).collect::<Vec<_>>().join(", "))).collect();
  format!("{{{}}}", parts.join(", "))
}

fn ascii_decode<T: Idx, QQ: Inst<T>>(s: &str) -> Result<Result<(u8, Vec<(u64, u64)>), String>, String> {
  catch(|| match from_ascii_ivoa::<T, QQ>(s) {
    Ok(m) => {
      let r = m.into_cellcellrange_moc_iter().ranges();
      let d = r.depth_max();
      Ok((d, ranges_of(r)))
    }
    Err(e) => Err(format!("{:?}", e)),
  })
}
fn json_decode<T: Idx, QQ: Inst<T>>(s: &str) -> Result<Result<(u8, Vec<(u64, u64)>), String>, String> {
  catch(|| match from_json_aladin::<T, QQ>(s) {
    Ok(m) => {
      let r = m.into_cell_moc_iter().ranges();
      let d = r.depth_max();
      Ok((d, ranges_of(r)))
    }
    Err(e) => Err(format!("{}", e)),
  })
}

fn gen_items(rng: &mut Rng, q: Q, w: u8, json: bool) -> (Vec<Item>, Option<u64>) {
  let md = q.max_depth(w) as u64;
  let n = rng.range(0, 6) as usize;
  let mut items: Vec<Item> = Vec::new();
  // a few depths, in increasing, decreasing or random order
  let mut depths: Vec<u64> = (0..rng.range(1, 3)).map(|_| rng.range(0, md.min(8))).collect();
  match rng.below(3) {
    0 => depths.sort_unstable(),
    1 => {
      depths.sort_unstable();
      depths.reverse();
    }
    _ => {}
  }
  for k in 0..n {
    let d = depths[k * depths.len() / n.max(1)];
    let nc = q.nd0() << (q.dim() as u64 * d);
    let near_end = rng.chance(1, 3);
    let a = if near_end { nc - 1 - rng.below(nc.min(3)) } else { rng.below(nc.min(40)) };
    let as_range = !json && rng.chance(1, 2);
    let len = if as_range { rng.below(3) } else { 0 };
    items.push(Item { d, a, b_incl: (a + len).min(nc - 1).max(a), as_range, use_len: rng.chance(1, 2) });
  }
  // one mutation in ~half of the documents
  if !items.is_empty() && rng.chance(1, 2) {
    let i = rng.below(items.len() as u64) as usize;
    let nc = q.nd0() << (q.dim() as u64 * items[i].d);
    let wmax: u64 = if w == 64 { u64::MAX } else { (1u64 << w) - 1 };
    match rng.below(10) {
      9 => {
        // an index beyond the index type whose low bits are a valid index (it must not be truncated into the domain)
        if w < 64 {
          let k = rng.below(nc.min(40));
          let m = 1 + rng.below(3);
          items[i].a = (m << w) + k;
          items[i].b_incl = items[i].a;
          items[i].as_range = false;
        }
      }
      0 => {
        items[i].a = nc; // first invalid index
        items[i].b_incl = nc;
      }
      1 => {
        items[i].a = nc + 1;
        items[i].b_incl = nc + 1;
      }
      2 => {
        if !json {
          items[i].as_range = true;
          items[i].b_incl = nc; // range ending one past the last cell
          items[i].a = nc - 1;
        }
      }
      3 => {
        if !json && items[i].a >= 2 {
          items[i].as_range = true;
          items[i].use_len = false;
          items[i].b_incl = items[i].a - 2; // inverted range
        }
      }
      4 => items[i].d = md + 1 + rng.below(3), // depth beyond the maximum
      5 => items[i].d = *rng.pick(&[64u64, 99, 200, 255]),
      6 => {
        if !json {
          items[i].as_range = true;
          items[i].use_len = rng.chance(1, 2);
          items[i].b_incl = wmax; // overflow of end + 1
        }
      }
      7 => {
        items[i].a = wmax;
        items[i].b_incl = wmax;
      }
      _ => {
        // overlap: duplicate an item, possibly as its parent / child cell
        let mut dup = items[i].clone();
        if dup.d > 0 && rng.chance(1, 2) {
          dup.d -= 1;
          dup.a >>= q.dim();
          dup.b_incl = dup.a;
          dup.as_range = false;
        }
        items.push(dup);
      }
    }
  }
  let trailing = if !json && rng.chance(1, 3) { Some(if rng.chance(1, 6) { md + 1 } else { rng.range(0, md) }) } else { None };
  (items, trailing)
}

fn validation_case(rep: &mut Report, orc: &mut Oracle, rng: &mut Rng) {
  let q = ALL_Q[rng.below(3) as usize];
  let w = ALL_W[rng.below(3) as usize];
  let json = rng.chance(1, 3);
  let (items, trailing) = gen_items(rng, q, w, json);
  let text = if json { render_json(&items) } else { render_ascii(true, &items, trailing) };
  // model: items as (d, a, b_excl) in unbounded arithmetic; explicit depth marks
  let mut marks: Vec<u64> = Vec::new();
  if let Some(t) = trailing {
    marks.push(t);
  }
  let line = format!(
    "TEXTV {} {} {} {} {} {}",
    q.c(),
    w,
    marks.len(),
    marks.iter().map(|x| x.to_string()).collect::<Vec<_>>().join(" "),
    items.len(),
    items.iter().map(|it| format!("{} {} {}", it.d, it.a, if it.as_range && it.b_incl < it.a { format!("INV{}", it.b_incl) } else { it.b_incl.to_string() })).collect::<Vec<_>>().join(" ")
  );
  let ans = orc.ask(&line);
  let got = if json { dispatch!(q, w, |T, QQ| json_decode::<T, QQ>(&text)) } else { dispatch!(q, w, |T, QQ| ascii_decode::<T, QQ>(&text)) };
  rep.evaluations += 1;
  rep.count(if json { "validation:json" } else { "validation:ascii" });
  let shown = format!("{} # {} text={:?}", line, if json { "json" } else { "ascii" }, text);
  match got {
    Err(p) => rep.violation(&format!("{} decoder panics", if json { "JSON" } else { "ASCII" }), &shown, &p, &ans, "C12 (decoders are total)"),
    Ok(Ok((d, r))) => {
      let o = format!("ACCEPT {} {}", d, ranges_str(&r));
      // JSON: an item at a depth key the reader never looks at (> MAX_DEPTH) is ignored, not rejected
      if o != ans && !(json && json_ignored_depth_ok(orc, q, w, &items, &o)) {
        rep.violation(&format!("{} decoder accepts a document the reference validation rejects, or decodes it differently", if json { "JSON" } else { "ASCII" }), &shown, &o, &ans, "C12_accepted_text_is_a_valid_moc + C12_accepted_cells_inside_their_domain");
      }
      // whatever is accepted must be a canonical MOC
      let v = orc.ask(&format!("VALID {} {} {} {}", q.c(), w, d, ranges_str(&r)));
      if v != "OK 1" {
        rep.violation("an accepted text document converts to a non-canonical MOC", &shown, &o, &v, "C12_accepted_text_is_a_valid_moc");
      }
    }
    Ok(Err(e)) => {
      if ans.starts_with("ACCEPT") && !items.is_empty() {
        // rejecting a valid document is not a C12 violation (it is a C07 one) but is reported as drift
        rep.count("validation:valid-document-rejected");
        rep.violation("decoder rejects a document the reference validation accepts", &shown, &e, &ans, "C07_text_roundtrip (reader rejects valid text)");
      }
    }
  }
  if items.len() >= 2 {
    rep.nontrivial(&line);
  }
  rep.sample(&shown);
}

/// JSON special case: depth keys above MAX_DEPTH are not read at all
fn json_ignored_depth_ok(orc: &mut Oracle, q: Q, w: u8, items: &[Item], got: &str) -> bool {
  let md = q.max_depth(w) as u64;
  let kept: Vec<&Item> = items.iter().filter(|it| it.d <= md).collect();
  if kept.len() == items.len() {
    return false;
  }
  let line = format!("TEXTV {} {} 0  {} {}", q.c(), w, kept.len(), kept.iter().map(|it| format!("{} {} {}", it.d, it.a, it.b_incl)).collect::<Vec<_>>().join(" "));
  orc.ask(&line) == got
}

// ------------------------------------------------------------------ (b) totality
fn set_card_value(doc: &mut [u8], card_off: usize, val: &str) {
  // right-justified in columns 11-30
  let field = format!("{:>20}", val);
  let f = field.as_bytes();
  doc[card_off + 10..card_off + 30].copy_from_slice(&f[f.len() - 20..]);
}

fn find_cards(doc: &[u8]) -> Vec<(usize, String)> {
  let mut v = Vec::new();
  let mut off = 0;
  while off + 80 <= doc.len() && off < 2880 * 6 {
    let c = &doc[off..off + 80];
    if c.iter().all(|b| b.is_ascii() && *b >= 0x20) {
      v.push((off, String::from_utf8_lossy(&c[..8]).to_string()));
    } else {
      break;
    }
    off += 80;
  }
  v
}

fn base_fits_docs(rng: &mut Rng) -> Vec<(String, Vec<u8>)> {
  let mut docs: Vec<(String, Vec<u8>)> = Vec::new();
  for (q, w) in [(Q::S, 64u8), (Q::S, 32), (Q::S, 16), (Q::T, 64), (Q::F, 32)] {
    let d = rng.range(0, q.max_depth(w) as u64) as u8;
    let m = gen_moc(rng, q, w, d, 5);
    let bytes = dispatch!(q, w, |T, QQ| {
      let mm: RangeMOC<T, QQ> = to_range_moc(&m);
      let mut b = Vec::new();
      (&mm).into_range_moc_iter().to_fits_ivoa(None, None, &mut b).unwrap();
      b
    });
    docs.push((format!("range-{}{}", q.c(), w), bytes));
  }
  {
    let m = gen_moc(rng, Q::S, 64, 6, 5);
    let mm: RangeMOC<u64, Hpx<u64>> = to_range_moc(&m);
    let mut b = Vec::new();
    hpx_cells_to_fits_ivoa((&mm).into_range_moc_iter().cells(), None, None, &mut b).unwrap();
    docs.push(("nuniq-s64".to_string(), b));
    let m = gen_moc(rng, Q::S, 32, 4, 5);
    let mm: RangeMOC<u32, Hpx<u32>> = to_range_moc(&m);
    let mut b = Vec::new();
    hpx_cells_to_fits_ivoa((&mm).into_range_moc_iter().cells(), None, None, &mut b).unwrap();
    docs.push(("nuniq-s32".to_string(), b));
  }
  {
    let st = gen_stmoc(rng, 10, 5, 8, 0, 4, 3);
    let mut b = Vec::new();
    rangemoc2d_to_fits_ivoa(&to_moc2(&st), None, None, &mut b).unwrap();
    docs.push(("stmoc-v2".to_string(), b));
  }
  {
    // a small well-formed multi-order map (two depths), besides the repository's sample below
    let apc = (std::f64::consts::PI / 3.0) / 16.0;
    let rows: Vec<(u64, f64)> = vec![(4 + 3, 0.02 / (16.0 * apc)), (16 + 20, 0.3 / (4.0 * apc)), (64 + 100, 0.1 / apc), (64 + 101, 0.5 / apc), (16 + 40, 0.05 / (4.0 * apc))];
    docs.push(("mom".to_string(), crate::c20::mom_fits(2, &rows)));
  }
  {
    // a small well-formed sky map (depth 1, 48 pixels), besides the repository's sample below
    let pix: Vec<u64> = (0..48u64).map(|i| (i * 7 + 3) % 11).collect();
    docs.push(("skymap".to_string(), crate::c20::skymap_fits(1, &pix)));
  }
  // multi-order map and sky map: the repository's sample files, cut to a few rows
  for (name, path) in [("mom", "/repo/resources/LALInference.multiorder.fits"), ("skymap", "/repo/resources/Skymap/gbuts_healpix_systematic.fits")] {
    if let Ok(full) = std::fs::read(path) {
      if full.len() > 2880 * 3 {
        let keep = (2880 * 2 + 2880 * 2).min(full.len());
        docs.push((name.to_string(), full[..keep].to_vec()));
      }
    }
  }
  docs
}

fn mutate_fits(rng: &mut Rng, doc: &[u8]) -> (String, Vec<u8>) {
  let mut d = doc.to_vec();
  let cards = find_cards(doc);
  let vals = ["0", "1", "2", "3", "4", "15", "16", "17", "255", "256", "65535", "65536", "4294967295", "4294967296", "1000000000", "1000000000000000000", "9223372036854775807", "9223372036854775808", "18446744073709551615", "-1", "", "'", "''", "' '", "X", "1E9"];
  let what;
  match rng.below(10) {
    0..=3 => {
      // numeric / string value of a random card
      if let Some((off, key)) = cards.get(rng.below(cards.len().max(1) as u64) as usize) {
        let v = rng.pick(&vals);
        set_card_value(&mut d, *off, v);
        what = format!("card {} <- {:?}", key.trim(), v);
      } else {
        what = "none".to_string();
      }
    }
    4 => {
      // blank or misspell a keyword
      if let Some((off, key)) = cards.get(rng.below(cards.len().max(1) as u64) as usize) {
        if rng.chance(1, 2) {
          for b in &mut d[*off..*off + 80] {
            *b = b' ';
          }
          what = format!("card {} blanked", key.trim());
        } else {
          d[*off] = b'Z';
          what = format!("card {} misspelt", key.trim());
        }
      } else {
        what = "none".to_string();
      }
    }
    5 | 6 => {
      let cut = rng.below(d.len() as u64 + 1) as usize;
      d.truncate(cut);
      what = format!("truncated at {}", cut);
    }
    7 => {
      // flip bytes in the data part
      let n = d.len();
      for _ in 0..rng.range(1, 8) {
        let i = 5760.min(n - 1) + rng.below((n - 5760.min(n - 1)) as u64) as usize;
        d[i] = rng.next() as u8;
      }
      what = "data bytes randomised".to_string();
    }
    8 => {
      // data value extremes
      let n = d.len();
      if n > 5760 + 8 {
        let i = 5760 + 8 * rng.below(((n - 5760) / 8).min(6) as u64) as usize;
        let v: u64 = *rng.pick(&[0u64, 1, 2, 3, 4, 15, 16, 1 << 62, 1 << 63, u64::MAX]);
        d[i..i + 8].copy_from_slice(&v.to_be_bytes());
      }
      what = "data value extreme".to_string();
    }
    _ => {
      let i = rng.below(d.len() as u64) as usize;
      d[i] = rng.next() as u8;
      what = format!("byte {} randomised", i);
    }
  }
  (what, d)
}

/// child-process entry: decode one document, print the outcome
pub fn child_decode(kind: &str, path: &str) {
  let bytes = std::fs::read(path).unwrap_or_default();
  alloc::reset();
  let out = match kind {
    "mom" => {
      // the second reader of multi-order maps (store multiordermap_sum_in_moc*, `moc op momsum`): the sum of the values
      // inside a MOC; its result is not judged, only that it returns
      let full = moc::moc::range::RangeMOC::<u64, moc::qty::Hpx<u64>>::new_full_domain(3);
      let _ = moc::deser::fits::multiordermap::sum_from_fits_multiordermap(BufReader::new(Cursor::new(bytes.clone())), &full);
      from_fits_multiordermap(BufReader::new(Cursor::new(bytes)), 0.0, 0.9, false, true, false, false).map(|m| m.len()).map_err(|e| e.to_string())
    }
    "skymap" => from_fits_skymap(BufReader::new(Cursor::new(bytes)), 0.0, 0.0, 0.9, false, true, false, false).map(|m| m.len()).map_err(|e| e.to_string()),
    _ => {
      let store = U64MocStore::get_global_store();
      // the typed loaders of the store (they must refuse or load, never abort)
      for r in [store.load_smoc_from_fits_buff(&bytes), store.load_tmoc_from_fits_buff(&bytes), store.load_fmoc_from_fits_buff(&bytes), store.load_stmoc_from_fits_buff(&bytes)] {
        if let Ok(i) = r {
          let _ = store.drop(i);
        }
      }
      store.load_from_fits_buff(&bytes).map(|i| {
        let _ = store.drop(i);
        i
      })
    }
  };
  println!("OUTCOME {} maxalloc={}", if out.is_ok() { "OK" } else { "ERR" }, alloc::max_req());
}

fn run_child(kind: &str, bytes: &[u8], scratch: &str, k: u64) -> (String, usize) {
  let path = format!("{}/doc_{}.bin", scratch, k % 16);
  std::fs::write(&path, bytes).unwrap();
  let exe = std::env::current_exe().unwrap();
  let out = Command::new(exe).args(["DECODE1", kind, &path]).output();
  match out {
    Err(e) => (format!("SPAWN-ERROR {}", e), 0),
    Ok(o) => {
      let so = String::from_utf8_lossy(&o.stdout).to_string();
      if let Some(l) = so.lines().find(|l| l.starts_with("OUTCOME")) {
        let t: Vec<&str> = l.split_whitespace().collect();
        let ma: usize = t.get(2).and_then(|x| x.strip_prefix("maxalloc=")).and_then(|x| x.parse().ok()).unwrap_or(0);
        (t[1].to_string(), ma)
      } else {
        let se = String::from_utf8_lossy(&o.stderr).to_string();
        let first: String = se.lines().find(|l| l.contains("panicked") || l.contains("memory allocation") || l.contains("overflow")).unwrap_or("").chars().take(200).collect();
        let nxt: String = se.lines().skip_while(|l| !l.contains("panicked")).nth(1).unwrap_or("").chars().take(200).collect();
        (format!("CRASH status={:?} {} {}", o.status.code(), first, nxt), 0)
      }
    }
  }
}

fn text_totality(rep: &mut Report, orc: &mut Oracle, rng: &mut Rng) {
  // valid documents mutated at character level + random bytes, through every text decoder and store loader
  let seeds = [
    "3/1 3 5-7 4/100-102 5/",
    "0/0-11",
    "29/0 5 3458764513820540927",
    "t61/1 3 5 s3/1-3 t61/50 52 s4/25",
    "t12/ s8/",
    "{\"1\": [1, 2, 4], \"2\": [12, 13, 14, 21, 23, 25], \"8\": []}",
    "[{\"t\": {\"61\": [1, 3, 5]}, \"s\": {\"3\": [1, 2, 3]}}, {\"t\": {\"61\": []}, \"s\": {\"4\": []}}]",
    "qty=HPX\ndepth=3\n1/1\n2/8-9\n3/101\n",
    "",
  ];
  let alphabet: Vec<char> = "0123456789/-+ \n\tts{}[]\":,.eE99999999999999999999".chars().collect();
  let base = *rng.pick(&seeds);
  let mut s: Vec<char> = base.chars().collect();
  for _ in 0..rng.range(0, 3) {
    match rng.below(4) {
      0 if !s.is_empty() => {
        let i = rng.below(s.len() as u64) as usize;
        s[i] = *rng.pick(&alphabet);
      }
      1 => {
        let i = rng.below(s.len() as u64 + 1) as usize;
        let big = ["18446744073709551615", "18446744073709551616", "255", "256", "99", "30", "62", "4294967296", "65536", "340282366920938463463374607431768211456"];
        for (k, c) in rng.pick(&big).chars().enumerate() {
          s.insert(i + k, c);
        }
      }
      2 if !s.is_empty() => {
        let i = rng.below(s.len() as u64) as usize;
        s.truncate(i);
      }
      _ => {
        let i = rng.below(s.len() as u64 + 1) as usize;
        s.insert(i, *rng.pick(&alphabet));
      }
    }
  }
  let text: String = s.into_iter().collect();
  // the JSON readers beside their character-level model (Model/JsonCodec.v; C12_json_accepts_only_valid)
  if base.starts_with('{') && text.is_ascii() {
    asciix::compare_reader_json_1d::<u64, Hpx<u64>>(rep, orc, "s", 64, &text, "c12-mutated");
    asciix::compare_reader_json_1d::<u16, Time<u16>>(rep, orc, "t", 16, &text, "c12-mutated");
  }
  if base.starts_with('[') && text.is_ascii() {
    asciix::compare_reader_json_2d(rep, orc, &text, "c12-mutated");
  }
  let store = U64MocStore::get_global_store();
  let len = text.len();
  let mut run = |name: &str, f: &dyn Fn() -> Result<(), String>| {
    alloc::reset();
    let r = catch(|| f());
    let ma = alloc::max_req();
    rep.evaluations += 1;
    rep.count("totality:text");
    if let Err(p) = r {
      rep.violation_c(&format!("{} panics on a text document", name), &format!("TEXT {:?} # decoder={}", text, name), &p, "", "C12 (decoders are total)", &crate::c08::panic_class(&p));
    } else if ma > 64 * len + (1 << 22) {
      rep.violation(&format!("{} requests memory unrelated to the input size", name), &format!("TEXT {:?} # decoder={}", text, name), &format!("largest allocation request {} bytes for {} input bytes", ma, len), "", "C12 (memory)");
    }
  };
  let t = text.clone();
  run("from_ascii_ivoa<u64,Hpx>", &|| from_ascii_ivoa::<u64, Hpx<u64>>(&t).map(|m| { let _ = m.into_cellcellrange_moc_iter().ranges().into_range_moc(); }).map_err(|e| e.to_string()));
  run("from_ascii_ivoa<u16,Hpx>", &|| from_ascii_ivoa::<u16, Hpx<u16>>(&t).map(|m| { let _ = m.into_cellcellrange_moc_iter().ranges().into_range_moc(); }).map_err(|e| e.to_string()));
  run("from_ascii_ivoa<u32,Time>", &|| from_ascii_ivoa::<u32, Time<u32>>(&t).map(|m| { let _ = m.into_cellcellrange_moc_iter().ranges().into_range_moc(); }).map_err(|e| e.to_string()));
  run("moc2d_from_ascii_ivoa", &|| moc2d_from_ascii_ivoa::<u64, Time<u64>, u64, Hpx<u64>>(&t).map(|m| { let _ = m.into_cellcellrange_moc2_iter().into_range_moc2_iter().into_range_moc2(); }).map_err(|e| e.to_string()));
  run("from_ascii_stream<u64,Hpx>", &|| from_ascii_stream::<u64, Hpx<u64>, _>(Cursor::new(t.as_bytes().to_vec())).map(|m| { let _ = m.ranges().into_range_moc(); }).map_err(|e| e.to_string()));
  run("from_json_aladin<u64,Hpx>", &|| from_json_aladin::<u64, Hpx<u64>>(&t).map(|m| { let _ = m.into_cell_moc_iter().ranges().into_range_moc(); }).map_err(|e| e.to_string()));
  run("from_json_aladin<u16,Time>", &|| from_json_aladin::<u16, Time<u16>>(&t).map(|m| { let _ = m.into_cell_moc_iter().ranges().into_range_moc(); }).map_err(|e| e.to_string()));
  run("cellmoc2d_from_json_aladin", &|| cellmoc2d_from_json_aladin::<u64, Time<u64>, u64, Hpx<u64>>(&t).map(|m| { let _ = m.into_cell_moc2_iter().into_range_moc2_iter().into_range_moc2(); }).map_err(|e| e.to_string()));
  run("store.load_smoc_from_ascii", &|| store.load_smoc_from_ascii(&t).map(|i| { let _ = store.drop(i); }));
  run("store.load_tmoc_from_ascii", &|| store.load_tmoc_from_ascii(&t).map(|i| { let _ = store.drop(i); }));
  run("store.load_stmoc_from_ascii", &|| store.load_stmoc_from_ascii(&t).map(|i| { let _ = store.drop(i); }));
  run("store.load_smoc_from_json", &|| store.load_smoc_from_json(&t).map(|i| { let _ = store.drop(i); }));
  run("store.load_stmoc_from_json", &|| store.load_stmoc_from_json(&t).map(|i| { let _ = store.drop(i); }));
  run("store.load_fmoc_from_ascii", &|| store.load_fmoc_from_ascii(&t).map(|i| { let _ = store.drop(i); }));
  run("store.load_tmoc_from_json", &|| store.load_tmoc_from_json(&t).map(|i| { let _ = store.drop(i); }));
  run("store.load_fmoc_from_json", &|| store.load_fmoc_from_json(&t).map(|i| { let _ = store.drop(i); }));
}

pub fn run(ctx: &Ctx) -> Report {
  let mut rep = Report::default();
  let mut orc = Oracle::spawn();
  let mut rng = Rng::new(ctx.seed);
  rep.rule = "(a) validation: structured ASCII and JSON documents for the 9 (quantity,width) instances - <= 7 cells / ranges over <= 3 depths listed in increasing, decreasing or random order, half of them with one mutation (index = n_cells, n_cells+1, range ending one past the domain, inverted range, depth max+1..max+3 / 64 / 99 / 200 / 255, end or index = type maximum, duplicated / parent / child cell, trailing depth mark beyond the maximum) - accept/reject decision and decoded MOC compared with extracted text_accept/text_decode, accepted MOCs through extracted valid_mocb; (b) totality: character-level mutations of 9 valid text documents through 13 decoders / store loaders in-process (panic + allocation monitor), and FITS documents (range S/T/F u16/u32/u64, NUNIQ, ST v2, multi-order map and sky map samples cut to 4 blocks) with a structural sweep (every size / type keyword of the extension header set to values derived from its current value: v-1, v+1, v/2, v/4, 2v, v-4, 4, 8, 0, 1; every TFORM set to 16 neighbouring forms; every one of the first 12 data words of the valued maps set to 14 special binary64 / integer values and 7 special binary32 values: NaNs, infinities, negative, -0, subnormal, largest finite) and random single-field mutations (26 boundary values on every card, blanked / misspelt keywords, truncation at any offset, randomised or extreme data values) decoded in a child process (exit status, panic, abort, largest allocation request). non-trivial = >= 2 items (a) / any mutated document (b); distinct = distinct case line".to_string();
  // replay mode: "MOMR <hex>", "SKYR <hex>", "FITSR <hex>" (document beside its byte-level reader model) or
  // "FITS base=<name> mutation=... hex=<hex>" (document through the child-process decoders)
  if let Some(line) = &ctx.replay {
    let unhex = |h: &str| -> Vec<u8> { (0..h.len() / 2).filter_map(|i| u8::from_str_radix(&h[2 * i..2 * i + 2], 16).ok()).collect() };
    let t: Vec<&str> = line.split_whitespace().collect();
    if t.len() >= 2 && t[0] == "MOMR" {
      fitsx::compare_reader_mom(&mut rep, &mut orc, &unhex(t[1]), "replay", "replay");
    } else if t.len() >= 2 && t[0] == "SKYR" {
      fitsx::compare_reader_sky(&mut rep, &mut orc, &unhex(t[1]), "replay", "replay");
    } else if t.len() >= 2 && t[0] == "FITSR" {
      fitsx::compare_reader_fits(&mut rep, &mut orc, &unhex(t[1]), "replay", "replay");
    } else if t.len() >= 2 && t[0] == "FITS" {
      let name = t.iter().find_map(|x| x.strip_prefix("base=")).unwrap_or("fits");
      let doc = t.iter().find_map(|x| x.strip_prefix("hex=")).map(|h| unhex(h)).unwrap_or_default();
      let kind = if name == "mom" || name == "skymap" { name } else { "fits" };
      let scratch = format!("{}/c12_replay_{}", std::env::temp_dir().display(), std::process::id());
      let _ = std::fs::create_dir_all(&scratch);
      let (outcome, maxalloc) = run_child(kind, &doc, &scratch, 0);
      let _ = std::fs::remove_dir_all(&scratch);
      rep.evaluations += 1;
      if outcome != "OK" && outcome != "ERR" {
        rep.violation_c(&format!("FITS decoder does not return a value: {}", outcome), line, &outcome, "", "C12 (decoders are total)", "fits-crash|replay");
      } else if maxalloc > 64 * doc.len() + (1 << 24) {
        rep.violation_c("FITS decoder requests memory unrelated to the input size", line, &format!("largest allocation request {} bytes", maxalloc), "", "C12 (memory)", "fits-alloc");
      }
    } else {
      rep.notes.push("replay: this case line is not a FITS document case; re-run the tier with the same seed".to_string());
    }
    return rep;
  }
  let n_val = ctx.n(6_000, 200_000);
  for _ in 0..n_val {
    validation_case(&mut rep, &mut orc, &mut rng);
  }
  let n_text = ctx.n(1_500, 60_000);
  for _ in 0..n_text {
    text_totality(&mut rep, &mut orc, &mut rng);
  }
  // header programs: FITS documents assembled card by card, through from_fits_ivoa in-process beside
  // the byte-level model of the reader
  let n_prog = ctx.n(1_500, 60_000);
  for _ in 0..n_prog {
    let (what, doc) = fitsx::header_program(&mut rng);
    fitsx::compare_reader_fits(&mut rep, &mut orc, &doc, "header-program", &what);
  }
  // FITS through child processes
  let scratch = std::env::var("VERIF_SCRATCH").unwrap_or_else(|_| "/tmp".to_string());
  let n_fits = ctx.n(700, 30_000);
  let mut k = 0u64;
  let mut docs = base_fits_docs(&mut rng);
  // structural sweep: every size / type keyword of every base document set to values DERIVED from
  // its current value (v-1, v+1, v/2, v/4, 2v, v-4, 4, 8) and every TFORM to neighbouring forms:
  // the guards relating NAXIS1, TFORMn, NAXIS2, NSIDE and the depth keywords are exercised at their bounds
  let mut cases: Vec<(String, String, Vec<u8>)> = Vec::new();
  {
    let structural = ["NAXIS1", "NAXIS2", "TFIELDS", "NSIDE", "MOCORDER", "MOCORD_T", "MOCORD_S", "MOCORD_1", "MOCORD_2", "MOCORD_F", "ORDER", "PCOUNT", "GCOUNT", "BITPIX", "FIRSTPIX", "LASTPIX", "NAXIS"];
    let tforms = ["'1E'", "'1D'", "'1K'", "'1J'", "'1I'", "'1B'", "'0E'", "'2E'", "'1024D'", "'1024E'", "'2048E'", "'512E'", "'1025E'", "'E'", "'D'", "'K'"];
    for (name, base) in &docs {
      let cards = find_cards(base);
      let mut in_ext = false;
      for (off, key) in &cards {
        let kt = key.trim().to_string();
        if kt == "XTENSION" {
          in_ext = true;
        }
        if !in_ext {
          continue;
        }
        if structural.contains(&kt.as_str()) {
          let cur = String::from_utf8_lossy(&base[off + 10..off + 30]).trim().to_string();
          if let Ok(v) = cur.parse::<i64>() {
            let mut dv = vec![v - 1, v + 1, v / 2, v / 4, v * 2, v - 4, 4, 8, 0, 1];
            dv.sort();
            dv.dedup();
            for x in dv {
              if x != v {
                let mut d = base.clone();
                set_card_value(&mut d, *off, &x.to_string());
                cases.push((name.clone(), format!("card {} {} <- {}", kt, v, x), d));
              }
            }
          }
        } else if kt.starts_with("TFORM") {
          for tf in tforms {
            let mut d = base.clone();
            let field = format!("{:<20}", tf);
            d[off + 10..off + 30].copy_from_slice(&field.as_bytes()[..20]);
            cases.push((name.clone(), format!("card {} <- {}", kt, tf), d));
          }
        }
      }
    }
    // every card of every extension header misspelt, then blanked: a keyword a reader requires must be missed
    for (name, base) in &docs {
      if base.len() > 16_000 {
        continue;
      }
      let cards = find_cards(base);
      let mut in_ext = false;
      for (off, key) in &cards {
        let kt = key.trim().to_string();
        if kt == "XTENSION" {
          in_ext = true;
          continue;
        }
        if !in_ext || kt.is_empty() || kt == "END" {
          continue;
        }
        let mut d = base.clone();
        d[*off] = b'Z';
        cases.push((name.clone(), format!("card {} misspelt (sweep)", kt), d));
        let mut d2 = base.clone();
        for b in d2[*off..*off + 80].iter_mut() {
          *b = b' ';
        }
        cases.push((name.clone(), format!("card {} blanked (sweep)", kt), d2));
      }
    }
    // data-value sweep on the valued maps: every one of the first 8-byte (and 4-byte) words of the data set
    // to the special binary64 / binary32 values (NaNs of both signs and payloads, infinities, negative,
    // -0, subnormal, largest finite) and to integer extremes: the values feed sorts, sums and subdivisions
    let mut value_cases: Vec<(String, String, Vec<u8>)> = Vec::new();
    for (name, base) in &docs {
      if (name == "mom" || name == "skymap") && base.len() > 5760 + 16 && base.len() <= 16_000 {
        let special8: [u64; 14] = [0x7ff8_0000_0000_0000, 0x7ff0_0000_0000_0001, 0xfff8_0000_0000_0000, u64::MAX, 0x7ff0_0000_0000_0000, 0xfff0_0000_0000_0000, 0xbff0_0000_0000_0000, 0x8000_0000_0000_0000, 1, 0x7fef_ffff_ffff_ffff, 0, 3, 4, 0x3ff0_0000_0000_0000];
        let special4: [u32; 7] = [0x7fc0_0000, 0xffc0_0000, 0x7f80_0000, 0xff80_0000, 0xbf80_0000, 0x7f7f_ffff, 0x0000_0001];
        let nwords = ((base.len() - 5760) / 8).min(12);
        // multi-order map: UNIQ values at the borders of the depths around MOCORDER (first / last cell of the depth,
        // first index outside the depth, first cell of the next depths)
        let mut special8: Vec<u64> = special8.to_vec();
        if name == "mom" {
          let cards = find_cards(base);
          let mo = cards.iter().find(|(_, k)| k.trim() == "MOCORDER").and_then(|(off, _)| String::from_utf8_lossy(&base[off + 10..off + 30]).trim().parse::<u32>().ok());
          if let Some(d) = mo {
            for k in [d.saturating_sub(1), d, d + 1, d + 2] {
              if k <= 29 {
                let first = 4u64 << (2 * k);
                let n = 12u64 << (2 * k);
                for v in [first - 1, first, first + 1, first + n - 1, first + n, 4 * first - 1, 4 * first, 4 * first + 1] {
                  special8.push(v);
                }
              }
            }
          }
        }
        for j in 0..nwords {
          for v in special8.iter().copied() {
            let mut d = base.clone();
            d[5760 + 8 * j..5760 + 8 * j + 8].copy_from_slice(&v.to_be_bytes());
            value_cases.push((name.clone(), format!("data word {} <- {:#018x}", j, v), d));
          }
        }
        if name == "skymap" {
          for j in 0..nwords {
            for v in special4 {
              let mut d = base.clone();
              d[5760 + 4 * j..5760 + 4 * j + 4].copy_from_slice(&v.to_be_bytes());
              value_cases.push((name.clone(), format!("data half-word {} <- {:#010x}", j, v), d));
            }
          }
        }
      }
    }
    rep.notes.push(format!("data-value sweep cases: {}", value_cases.len()));
    if !ctx.thorough {
      // quick: every other derived case (all of them in the thorough tier)
      let keep: Vec<_> = cases.into_iter().enumerate().filter(|(i, c)| i % 2 == 0 || c.0 == "skymap" || c.0 == "mom").map(|(_, c)| c).collect();
      cases = keep;
    }
    cases.extend(value_cases);
    rep.notes.push(format!("structural sweep cases: {}", cases.len()));
  }
  // every base document, unmodified, beside the byte-level reader models
  for (name, base) in &docs {
    if base.len() <= 16_000 {
      match name.as_str() {
        "mom" => { fitsx::compare_reader_mom(&mut rep, &mut orc, base, name, "unmodified"); }
        "skymap" => { fitsx::compare_reader_sky(&mut rep, &mut orc, base, name, "unmodified"); }
        _ => { fitsx::compare_reader_fits(&mut rep, &mut orc, base, name, "unmodified"); }
      }
    }
  }
  let n_sweep = cases.len() as u64;
  for i in 0..(n_sweep + n_fits) {
    if i >= n_sweep && (i - n_sweep) % 200 == 199 {
      docs = base_fits_docs(&mut rng);
    }
    let (name, what, doc) = if i < n_sweep {
      cases[i as usize].clone()
    } else {
      let (name, base) = rng.pick(&docs).clone();
      let (what, doc) = if (i - n_sweep) % 25 == 0 { ("unmodified".to_string(), base.clone()) } else { mutate_fits(&mut rng, &base) };
      (name, what, doc)
    };
    let kind = if name == "mom" || name == "skymap" { name.as_str() } else { "fits" };
    k += 1;
    if kind == "skymap" && doc.len() <= 16_000 {
      fitsx::compare_reader_sky(&mut rep, &mut orc, &doc, &name, &what);
    }
    if kind == "mom" && doc.len() <= 16_000 {
      fitsx::compare_reader_mom(&mut rep, &mut orc, &doc, &name, &what);
    }
    if kind == "fits" && doc.len() <= 16_000 {
      // the same document through from_fits_ivoa in-process, beside the byte-level model of the
      // reader (Model/FitsCodec.v): verdict, error kind, decoded rows / cells
      fitsx::compare_reader_fits(&mut rep, &mut orc, &doc, &name, &what);
    }
    let (outcome, maxalloc) = run_child(kind, &doc, &scratch, k);
    rep.evaluations += 1;
    rep.count(&format!("totality:fits:{}", name));
    let case = format!("FITS base={} mutation={} len={}", name, what, doc.len());
    if outcome != "OK" && outcome != "ERR" {
      let hexdoc: String = if doc.len() <= 20000 { doc.iter().map(|b| format!("{:02x}", b)).collect() } else { String::new() };
      // class: crash message without thread id, line numbers and other numbers
      let mut o2 = outcome.clone();
      if let (Some(a), Some(b)) = (o2.find("thread '"), o2.find("panicked at")) {
        if a < b {
          o2.replace_range(a..b, "");
        }
      }
      let mut cls = String::new();
      let mut prev_hash = false;
      for c in o2.chars() {
        if c.is_ascii_digit() {
          if !prev_hash {
            cls.push('#');
          }
          prev_hash = true;
        } else {
          cls.push(c);
          prev_hash = false;
        }
      }
      let cls: String = cls.chars().take(160).collect();
      rep.violation_c(&format!("FITS decoder does not return a value: {}", outcome), &format!("{} hex={}", case, hexdoc), &outcome, "", "C12 (decoders are total)", &format!("fits-crash|{}", cls));
    } else if maxalloc > 64 * doc.len() + (1 << 24) {
      rep.violation_c("FITS decoder requests memory unrelated to the input size", &case, &format!("largest allocation request {} bytes for {} input bytes", maxalloc, doc.len()), "", "C12 (memory)", "fits-alloc");
    }
    if what == "unmodified" && outcome != "OK" && kind == "fits" {
      rep.violation("a valid FITS document is rejected", &case, &outcome, "", "C07/C11 round trip");
    }
    rep.nontrivial(&case);
    rep.sample(&case);
  }
  rep.notes.push(format!("oracle calls: {}", orc.calls));
  rep
}
