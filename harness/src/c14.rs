//! C14 — a moc-set file always reflects the history of updates applied to it.
//! Real `mocset` binary (rebuilt from /repo) vs the extracted model MocSet.exec (theorems C14_*):
//! after EVERY command the exit status, `mocset list` and `mocset extract` of every listed
//! identifier are compared with the model.
use crate::common::*;
use crate::dispatch;
use crate::iters::*;
use moc::deser::fits::{from_fits_ivoa, MocIdxType, MocQtyType};
use moc::idx::Idx;
use moc::moc::range::RangeMOC;
use moc::moc::{HasMaxDepth, RangeMOCIntoIterator, RangeMOCIterator};
use std::path::{Path, PathBuf};
use std::process::Command;

pub fn bin(name: &str) -> PathBuf {
  let dir = std::env::var("VERIF_BIN_DIR").unwrap_or_else(|_| "/verif/.cache/target-repo/debug".to_string());
  PathBuf::from(dir).join(name)
}

pub struct Run {
  pub code: Option<i32>,
  pub stdout: String,
  pub stderr: String,
}
pub fn run_cmd(exe: &Path, args: &[&str], stdin: Option<&str>) -> Run {
  use std::io::Write;
  use std::process::Stdio;
  let mut c = Command::new(exe);
  c.args(args).stdout(Stdio::piped()).stderr(Stdio::piped()).stdin(if stdin.is_some() { Stdio::piped() } else { Stdio::null() });
  let mut child = c.spawn().expect("spawn");
  if let Some(s) = stdin {
    child.stdin.take().unwrap().write_all(s.as_bytes()).unwrap();
  }
  let o = child.wait_with_output().expect("wait");
  Run { code: o.status.code(), stdout: String::from_utf8_lossy(&o.stdout).to_string(), stderr: String::from_utf8_lossy(&o.stderr).to_string() }
}

/// write a space MOC (u64 frame) as a FITS file stored with index width `w`
pub fn write_moc_fits(path: &Path, m: &Moc, w: u8) {
  let k = 64 - w as u32;
  let mw = Moc { q: Q::S, w, d: m.d, r: m.r.iter().map(|(a, b)| (a >> k, b >> k)).collect() };
  let bytes = dispatch!(Q::S, w, |T, QQ| {
    let mm: RangeMOC<T, QQ> = to_range_moc(&mw);
    let mut b = Vec::new();
    (&mm).into_range_moc_iter().to_fits_ivoa(None, None, &mut b).unwrap();
    b
  });
  std::fs::write(path, bytes).unwrap();
}

/// decode a space MOC FITS file into the u64 frame
pub fn read_moc_fits(path: &Path) -> Result<(u8, Vec<(u64, u64)>), String> {
  let bytes = std::fs::read(path).map_err(|e| e.to_string())?;
  match from_fits_ivoa(std::io::Cursor::new(bytes)).map_err(|e| e.to_string())? {
    MocIdxType::U16(MocQtyType::Hpx(t)) => {
      let m = t.collect();
      Ok((m.depth_max(), m.moc_ranges().iter().map(|r| ((r.start as u64) << 48, (r.end as u64) << 48)).collect()))
    }
    MocIdxType::U32(MocQtyType::Hpx(t)) => {
      let m = t.collect();
      Ok((m.depth_max(), m.moc_ranges().iter().map(|r| ((r.start as u64) << 32, (r.end as u64) << 32)).collect()))
    }
    MocIdxType::U64(MocQtyType::Hpx(t)) => {
      let m = t.collect();
      Ok((m.depth_max(), m.moc_ranges().iter().map(|r| (r.start, r.end)).collect()))
    }
    _ => Err("not a space MOC".to_string()),
  }
}

pub fn lock_path(file: &Path) -> PathBuf {
  // same computation as MocSetFileWriter::new
  let mut p = file.to_path_buf();
  let ext = p.extension().map(|e| format!("{:?}.lock", e)).unwrap_or_else(|| String::from(".lock"));
  p.set_extension(ext);
  p
}

#[derive(Clone, Debug)]
enum Cmd {
  App(u64, bool, Moc, u8), // id, deprecated?, moc, file width
  Chg(&'static str, Vec<u64>),
  Purge(Option<u64>),
  Lock,
  Unlock,
}
impl Cmd {
  fn wire(&self) -> String {
    match self {
      Cmd::App(id, dep, m, _) => format!("APP {} {} {}", id, if *dep { "d" } else { "v" }, m.dr()),
      Cmd::Chg(st, ids) => format!("CHG {} {} {}", st, ids.len(), ids.iter().map(|i| i.to_string()).collect::<Vec<_>>().join(" ")),
      Cmd::Purge(k) => format!("PURGE {}", k.map(|x| x.to_string()).unwrap_or_else(|| "-".to_string())),
      Cmd::Lock => "LOCK".to_string(),
      Cmd::Unlock => "UNLOCK".to_string(),
    }
  }
}

struct Expected {
  done: bool,
  entries: Vec<(u64, String, u8, Vec<(u64, u64)>)>,
  cap: u64,
}
fn parse_expected(ans: &str, n: usize) -> Option<Vec<Expected>> {
  let body = ans.strip_prefix("OK")?;
  let mut out = Vec::new();
  for part in body.split(';') {
    let t: Vec<&str> = part.split_whitespace().collect();
    if t.is_empty() {
      continue;
    }
    let done = t[0] == "D";
    let k: usize = t.get(1)?.parse().ok()?;
    let mut i = 2;
    let mut entries = Vec::new();
    for _ in 0..k {
      let id: u64 = t.get(i)?.parse().ok()?;
      let st = t.get(i + 1)?.to_string();
      let d: u8 = t.get(i + 2)?.parse().ok()?;
      let nr: usize = t.get(i + 3)?.parse().ok()?;
      let mut r = Vec::new();
      for j in 0..nr {
        r.push((t.get(i + 4 + 2 * j)?.parse().ok()?, t.get(i + 5 + 2 * j)?.parse().ok()?));
      }
      i += 4 + 2 * nr;
      entries.push((id, st, d, r));
    }
    let cap: u64 = if t.get(i) == Some(&"C") { t.get(i + 1).and_then(|x| x.parse().ok()).unwrap_or(0) } else { 0 };
    out.push(Expected { done, entries, cap });
  }
  if out.len() == n {
    Some(out)
  } else {
    None
  }
}

fn gen_space_moc(rng: &mut Rng) -> (Moc, u8) {
  // shallow (32-bit storage), deep (64-bit storage) or empty
  let d = match rng.below(5) {
    0 => rng.range(14, 29) as u8,
    1 => 13,
    2 => 14,
    _ => rng.range(0, 12) as u8,
  };
  let m = if rng.chance(1, 8) { Moc { q: Q::S, w: 64, d, r: vec![] } } else { gen_moc(rng, Q::S, 64, d, 4) };
  let w = if d <= 5 && rng.chance(1, 3) { 16 } else if d <= 13 && rng.chance(1, 2) { 32 } else { 64 };
  (m, w)
}

fn history(rep: &mut Report, orc: &mut Oracle, rng: &mut Rng, scratch: &str, hid: u64, fill: bool) {
  let mocset = bin("mocset");
  let dir = PathBuf::from(scratch).join(format!("h{}", hid % 8));
  let _ = std::fs::remove_dir_all(&dir);
  std::fs::create_dir_all(&dir).unwrap();
  let file = dir.join("set.bin");
  let files = file.to_str().unwrap().to_string();
  let lock = lock_path(&file);
  let ids: Vec<u64> = vec![0, 1, 2, 3, 5, 8, 13, 281474976710655, 281474976710656 + 5, 42];
  // ---- initial make (n128 = 1), possibly filled to capacity
  let mut cmds: Vec<Cmd> = Vec::new();
  let n_init = if fill { 127 - rng.below(2) as usize } else { rng.range(0, 3) as usize };
  let mut init_lines = String::new();
  let mut used: Vec<u64> = Vec::new();
  for k in 0..n_init {
    let id = if fill { 1000 + k as u64 } else { ids[k] };
    let (m, w) = gen_space_moc(rng);
    let p = dir.join(format!("init{}.fits", k));
    write_moc_fits(&p, &m, w);
    let dep = id != 0 && rng.chance(1, 4); // '-0' cannot express a deprecated identifier 0
    init_lines.push_str(&format!("{} {}\n", if dep { -(id as i64) } else { id as i64 }, p.to_str().unwrap()));
    cmds.push(Cmd::App(id, dep, m, w));
    used.push(id);
  }
  // ---- a make that cannot apply: the same identifier twice in the list (with the same or with opposite signs,
  //      i.e. valid + deprecated) must be refused and must not create the file
  if rng.chance(1, 2) {
    let (m1, w1) = gen_space_moc(rng);
    let (m2, w2) = gen_space_moc(rng);
    let (p1, p2) = (dir.join("dup_a.fits"), dir.join("dup_b.fits"));
    write_moc_fits(&p1, &m1, w1);
    write_moc_fits(&p2, &m2, w2);
    let id = *rng.pick(&[7i64, 1, 42, 281474976710655]);
    let (s1, s2) = *rng.pick(&[(1i64, 1i64), (1, -1), (-1, 1), (-1, -1)]);
    let dup_list = format!("{} {}\n3 {}\n{} {}\n", s1 * id, p1.to_str().unwrap(), p1.to_str().unwrap(), s2 * id, p2.to_str().unwrap());
    let dup_list_file = dir.join("dup_list.txt");
    std::fs::write(&dup_list_file, &dup_list).unwrap();
    let dup_set = dir.join("dup_set.bin");
    let _ = std::fs::remove_file(&dup_set);
    let r = run_cmd(&mocset, &["make", "-l", dup_list_file.to_str().unwrap(), "-n", "1", dup_set.to_str().unwrap()], None);
    rep.evaluations += 1;
    rep.count("make:duplicate-identifier");
    if r.code == Some(0) || dup_set.exists() {
      rep.violation("mocset make accepts a list naming the same identifier twice (or leaves a file behind)", &format!("MSET make-dup signs=({},{}) id={} list={:?}", s1, s2, id, dup_list), &format!("exit {:?} file_exists={} {}", r.code, dup_set.exists(), r.stderr.chars().take(200).collect::<String>()), "non-zero exit, no file", "C14 (commands that cannot apply: duplicate identifier)");
    }
    let _ = std::fs::remove_file(&dup_set);
  }
  let list_file = dir.join("list.txt");
  std::fs::write(&list_file, &init_lines).unwrap();
  let r = run_cmd(&mocset, &["make", "-l", list_file.to_str().unwrap(), "-n", "1", &files], None);
  rep.evaluations += 1;
  if r.code != Some(0) {
    rep.violation("mocset make fails on a valid list", &format!("MSET make {:?}", init_lines), &format!("exit {:?} {}", r.code, r.stderr), "", "C14");
    return;
  }
  // ---- random commands
  let n = if fill { rng.range(4, 10) } else { rng.range(5, 40) } as usize;
  for _ in 0..n {
    let pick_id = |rng: &mut Rng| -> u64 { if fill && rng.chance(1, 2) { 1000 + rng.below(127) } else { ids[rng.below(ids.len() as u64) as usize] } };
    let c = match rng.below(12) {
      0..=4 => {
        let (m, w) = gen_space_moc(rng);
        let id = pick_id(rng);
        Cmd::App(id, id != 0 && rng.chance(1, 4), m, w)
      }
      5..=7 => {
        let k = rng.range(1, 3) as usize;
        Cmd::Chg(*rng.pick(&["removed", "deprecated", "valid"]), (0..k).map(|_| pick_id(rng)).collect())
      }
      8 | 9 => Cmd::Purge(if rng.chance(1, 3) { Some(rng.range(1, 2)) } else { None }),
      10 => Cmd::Lock,
      _ => Cmd::Unlock,
    };
    cmds.push(c);
    // life-cycle fragments on ONE identifier (remove, re-add, change again, purge, re-add...):
    // multi-step sequences a uniform choice of commands rarely produces
    if !fill && rng.chance(1, 5) {
      let x = ids[rng.below(8) as usize];
      let st2 = *rng.pick(&["removed", "deprecated", "valid"]);
      let mut frag: Vec<Cmd> = Vec::new();
      let (m1, w1) = gen_space_moc(rng);
      frag.push(Cmd::App(x, false, m1, w1));
      frag.push(Cmd::Chg("removed", vec![x]));
      let (m2, w2) = gen_space_moc(rng);
      frag.push(Cmd::App(x, x != 0 && rng.chance(1, 3), m2, w2));
      frag.push(Cmd::Chg(st2, vec![x]));
      if rng.chance(1, 2) {
        let (m3, w3) = gen_space_moc(rng);
        frag.push(Cmd::App(x, false, m3, w3));
      }
      if rng.chance(1, 3) {
        frag.push(Cmd::Purge(None));
        let (m4, w4) = gen_space_moc(rng);
        frag.push(Cmd::App(x, false, m4, w4));
        frag.push(Cmd::Chg(*rng.pick(&["deprecated", "valid"]), vec![x]));
      }
      cmds.extend(frag);
    }
  }
  cmds.push(Cmd::Unlock);
  let line = format!("MSET 1 {} {}", cmds.len(), cmds.iter().map(|c| c.wire()).collect::<Vec<_>>().join(" "));
  let ans = orc.ask(&line);
  let exp = match parse_expected(&ans, cmds.len()) {
    Some(e) => e,
    None => {
      rep.violation("oracle-error", &line.chars().take(2000).collect::<String>(), "", &ans.chars().take(500).collect::<String>(), "internal");
      return;
    }
  };
  // ---- replay on the real binary (the initial make already applied the first n_init appends)
  for (i, c) in cmds.iter().enumerate() {
    let shown = || format!("{} # first differing command index {} ({})", line.chars().take(6000).collect::<String>(), i, c.wire().chars().take(80).collect::<String>());
    if i >= n_init {
      let r = match c {
        Cmd::App(id, dep, m, w) => {
          let p = dir.join("app.fits");
          write_moc_fits(&p, m, *w);
          let ids = if *dep { format!("-{}", id) } else { format!("{}", id) };
          Some(run_cmd(&mocset, &["append", &files, &ids, p.to_str().unwrap()], None))
        }
        Cmd::Chg(st, idsv) => Some(run_cmd(&mocset, &["chgstatus", &files, st, &idsv.iter().map(|x| x.to_string()).collect::<Vec<_>>().join(",")], None)),
        Cmd::Purge(k) => Some(match k {
          Some(x) => run_cmd(&mocset, &["purge", "-n", &x.to_string(), &files], None),
          None => run_cmd(&mocset, &["purge", &files], None),
        }),
        Cmd::Lock => {
          let _ = std::fs::OpenOptions::new().write(true).create(true).open(&lock);
          None
        }
        Cmd::Unlock => {
          let _ = std::fs::remove_file(&lock);
          None
        }
      };
      if let Some(r) = r {
        rep.evaluations += 1;
        rep.count(&format!("cmd:{}", c.wire().split(' ').next().unwrap()));
        let ok_real = r.code == Some(0);
        if r.code.is_none() || r.code == Some(101) || r.stderr.contains("panicked") {
          rep.violation(&format!("mocset command crashes (exit {:?})", r.code), &shown(), &r.stderr.chars().take(300).collect::<String>(), "", "C14 (commands report failure, never crash)");
          return;
        }
        if ok_real != exp[i].done {
          rep.violation(&format!("mocset command {} where the reference model {}", if ok_real { "succeeds" } else { "fails" }, if exp[i].done { "succeeds" } else { "fails (it cannot apply)" }), &shown(), &format!("exit {:?} stderr {}", r.code, r.stderr.chars().take(300).collect::<String>()), if exp[i].done { "Done" } else { "Failed" }, "C14_append_succeeds_iff / C14_failed_commands_leave_file_unchanged / C14_concurrent_writer_blocks_updates");
          return;
        }
        // a temporary file must not survive a command
        if dir.join("set.\"bin\".tmp").exists() {
          rep.violation("a temporary file survives the command", &shown(), "", "", "C14");
          return;
        }
      }
    }
    // observations: list + extract of every listed live identifier
    if i + 1 >= n_init && (i + 1 == cmds.len() || !fill || i % 3 == 0) {
      let l = run_cmd(&mocset, &["list", &files], None);
      rep.evaluations += 1;
      let mut exp_lines = vec!["id,status,depth,n_ranges,byte_size".to_string()];
      for (id, st, d, rr) in &exp[i].entries {
        let esz = if *d <= 13 { 4 } else { 8 };
        exp_lines.push(format!("{},{},{},{},{}", id, st, d, rr.len(), rr.len() * 2 * esz));
      }
      let got_lines: Vec<String> = l.stdout.lines().map(|s| s.to_string()).collect();
      if l.code != Some(0) || got_lines != exp_lines {
        rep.violation("mocset list differs from the reference model", &shown(), &format!("exit {:?}: {}", l.code, got_lines.join(" / ").chars().take(600).collect::<String>()), &exp_lines.join(" / ").chars().take(600).collect::<String>(), "C14_append_then_extract / C14_purge_drops_exactly_removed / C14_chgstatus_effect");
        return;
      }
      // the file itself, byte for byte, against the layout of the model's state (Model/MocSetBytes.v)
      if exp[i].cap > 0 {
        if let Ok(bytes) = std::fs::read(&file) {
          if bytes.len() <= 60_000 {
            rep.evaluations += 1;
            rep.count("file-bytes-exact");
            let mut req = format!("MSETB {} {}", (exp[i].cap + 1) / 128, exp[i].entries.len());
            for (id, st, d, rr) in &exp[i].entries {
              req.push_str(&format!(" {} {} {} {}", id, st, d, ranges_str(rr)));
            }
            let model = orc.ask(&req);
            let hx: String = bytes.iter().map(|b| format!("{:02x}", b)).collect();
            if model != format!("OK {}", hx) {
              let pos = model.bytes().skip(3).zip(hx.bytes()).position(|(a, b)| a != b).unwrap_or(hx.len().min(model.len().saturating_sub(3))) / 2;
              rep.corr_break("the moc-set file differs from the byte-level layout of the model's state", &format!("{} # {}", shown(), req.chars().take(300).collect::<String>()), &format!("{} bytes, first difference at byte {}", bytes.len(), pos), &format!("{} bytes", model.len().saturating_sub(3) / 2), "crates/set file == Model/MocSetBytes.v file_bytes (C14_file_layout_decodes)");
              return;
            }
          }
        }
      }
      // extract: every live identifier (first live entry wins), and one removed / unknown identifier
      let mut seen: Vec<u64> = Vec::new();
      let lim = if fill { 6 } else { 1000 };
      for (id, st, d, rr) in exp[i].entries.iter().filter(|e| e.1 != "removed").take(lim) {
        if seen.contains(id) {
          continue;
        }
        seen.push(*id);
        let out = dir.join("extract.fits");
        let _ = std::fs::remove_file(&out);
        let e = run_cmd(&mocset, &["extract", &files, &id.to_string(), "fits", out.to_str().unwrap()], None);
        rep.evaluations += 1;
        let got = read_moc_fits(&out);
        if e.code != Some(0) || got != Ok((*d, rr.clone())) {
          rep.violation("mocset extract does not return the MOC added under that identifier", &format!("{} # extract id {} ({})", shown(), id, st), &format!("exit {:?} {:?} {}", e.code, got, e.stderr.chars().take(200).collect::<String>()), &format!("{} {}", d, ranges_str(rr)), "C14_append_then_extract");
          return;
        }
      }
    }
  }
  let _ = std::fs::remove_dir_all(&dir);
  rep.count(if fill { "history:filled-to-capacity" } else { "history:random" });
  rep.nontrivial(&line);
  rep.sample(&line.chars().take(400).collect::<String>());
}

pub fn run(ctx: &Ctx) -> Report {
  let mut rep = Report::default();
  let mut orc = Oracle::spawn();
  let mut rng = Rng::new(ctx.seed);
  rep.rule = "command histories on the real mocset binary: make (0-3 MOCs, or 126-127 MOCs = file filled to capacity with n128 = 1) then 5-40 commands among append (10 identifiers incl. 0, 2^48-1 and 2^48+5; valid / deprecated; MOCs of depth 0..29 = 32- and 64-bit storage, empty MOCs, FITS files written with u16 / u32 / u64 indices), chgstatus (removed / deprecated / valid on 1-3 identifiers incl. unknown ones), purge (with and without -n), lock file created / removed by the harness (concurrent writer); after every command: exit status, `mocset list` (id, status, depth, number of ranges, byte size) and `mocset extract` of every listed live identifier (FITS decoded in-process) compared with the extracted model. non-trivial = every history; distinct = distinct history".to_string();
  let scratch = std::env::var("VERIF_SCRATCH").unwrap_or_else(|_| "/tmp".to_string());
  let n = ctx.n(60, 2_000);
  for i in 0..n {
    history(&mut rep, &mut orc, &mut rng, &scratch, i, false);
  }
  let nf = ctx.n(4, 150);
  for i in 0..nf {
    history(&mut rep, &mut orc, &mut rng, &scratch, 1000 + i, true);
  }
  rep.notes.push(format!("oracle calls: {}", orc.calls));
  rep
}
