//! C05 — changes of representation are lossless; cells are the unique normal form.
//! The implementation's cell view is JUDGED by the extracted verified checker
//! Repr.normal_cellsb (theorem C05_cell_normal_form_checker_exact); numbering schemes
//! against extracted uniq_hpx / to_zuniq (C05_nuniq_*, C05_zuniq_roundtrip); width
//! conversions against extracted Repr.scale (C05_widening_*).
use crate::common::*;
use crate::dispatch;
use crate::iters::*;
use moc::elem::cell::Cell;
use moc::elem::cellcellrange::CellOrCellRange;
use moc::idx::Idx;
use moc::moc::range::op::convert::{convert_from_u64, convert_to_u64};
use moc::moc::range::RangeMOC;
use moc::moc::{CellMOCIterator, CellOrCellRangeMOCIterator, HasMaxDepth, RangeMOCIntoIterator, RangeMOCIterator};
use moc::qty::{Frequency, Hpx, MocQty, Time};
use std::cmp::Ordering;

struct Views {
  cells: Vec<(u8, u64)>,
  ranges_from_cells: Vec<(u64, u64)>,
  ranges_from_cellranges: Vec<(u64, u64)>,
  cells_from_cellranges: Vec<(u8, u64)>,
  flat_roundtrip: Option<(u8, Vec<(u64, u64)>)>,
  flat_cells: Option<Vec<u64>>,
  uniq: Vec<(u64, (u8, u64))>,  // to_uniq_gen, from_uniq_gen(to)
  zuniq: Vec<(u64, (u8, u64))>, // to_zuniq, from_zuniq(to)
  flat_cmp_ok: bool,
  zuniq_sorted: bool,
  depths: (u8, u8, u8), // depth_max reported by cells(), cellranges(), ranges()
}

fn views<T: Idx, QQ: Inst<T>>(m: &Moc, do_flat: bool) -> Result<Views, String> {
  let mm: RangeMOC<T, QQ> = to_range_moc(m);
  catch(move || {
    let cit = (&mm).into_range_moc_iter().cells();
    let d1 = cit.depth_max();
    let cells_t: Vec<Cell<T>> = cit.collect();
    let cells: Vec<(u8, u64)> = cells_t.iter().map(|c| (c.depth, c.idx.to_u64())).collect();
    let rit = (&mm).into_range_moc_iter().cells().ranges();
    let d3 = rit.depth_max();
    let ranges_from_cells = ranges_of(rit);
    let crit = (&mm).into_range_moc_iter().cells().cellranges();
    let d2 = crit.depth_max();
    let crs: Vec<CellOrCellRange<T>> = crit.collect();
    let mut cells_from_cellranges = Vec::new();
    for cr in &crs {
      match cr {
        CellOrCellRange::Cell(c) => cells_from_cellranges.push((c.depth, c.idx.to_u64())),
        CellOrCellRange::CellRange(r) => {
          let (s, e) = (r.range.start.to_u64(), r.range.end.to_u64());
          for i in s..e {
            cells_from_cellranges.push((r.depth, i));
          }
        }
      }
    }
    let ranges_from_cellranges = ranges_of((&mm).into_range_moc_iter().cells().cellranges().ranges());
    let (flat_roundtrip, flat_cells) = if do_flat {
      let flat: Vec<T> = mm.flatten_to_fixed_depth_cells().collect();
      let back = RangeMOC::<T, QQ>::from_fixed_depth_cells(mm.depth_max(), flat.clone().into_iter(), Some(7));
      (Some((back.depth_max(), back.moc_ranges().iter().map(|r| (r.start.to_u64(), r.end.to_u64())).collect())), Some(flat.iter().map(|c| Idx::to_u64(*c)).collect()))
    } else {
      (None, None)
    };
    let uniq = cells_t.iter().map(|c| {
      let u = c.uniq::<QQ>();
      let b = Cell::<T>::from_uniq::<QQ>(u);
      (u.to_u64(), (b.depth, b.idx.to_u64()))
    }).collect();
    let zuniq: Vec<(u64, (u8, u64))> = cells_t.iter().map(|c| {
      let u = c.zuniq::<QQ>();
      let b = Cell::<T>::from_zuniq::<QQ>(u);
      (u.to_u64(), (b.depth, b.idx.to_u64()))
    }).collect();
    let flat_cmp_ok = cells_t.windows(2).all(|p| p[0].flat_cmp::<QQ>(&p[1]) == Ordering::Less && p[1].flat_cmp::<QQ>(&p[0]) == Ordering::Greater);
    let zuniq_sorted = zuniq.windows(2).all(|p| p[0].0 < p[1].0);
    Views { cells, ranges_from_cells, ranges_from_cellranges, cells_from_cellranges, flat_roundtrip, flat_cells, uniq, zuniq, flat_cmp_ok, zuniq_sorted, depths: (d1, d2, d3) }
  })
}

struct HpxViews {
  nuniq: Vec<(u64, (u8, u64))>, // uniq_hpx(cell), from_uniq_hpx(that)
  uniq_ranges_back: Vec<(u64, u64)>,
  depth_pix: Vec<(u8, u64)>,
}
fn hpx_views<T: Idx>(m: &Moc) -> Result<HpxViews, String>
where
  Hpx<T>: Inst<T>,
{
  let mm: RangeMOC<T, Hpx<T>> = to_range_moc(m);
  catch(move || {
    let cells_t: Vec<Cell<T>> = (&mm).into_range_moc_iter().cells().collect();
    let nuniq = cells_t.iter().map(|c| {
      let u = c.uniq_hpx();
      let b = Cell::<T>::from_uniq_hpx(u);
      (u.to_u64(), (b.depth, b.idx.to_u64()))
    }).collect();
    let ur = mm.clone().into_moc_ranges().into_hpx_uniq();
    let back = ur.into_hpx();
    let uniq_ranges_back = back.iter().map(|r| (r.start.to_u64(), r.end.to_u64())).collect();
    let depth_pix: Vec<(u8, u64)> = mm.clone().into_moc_ranges().iter_depth_pix().map(|(d, i)| (d as u8, i.to_u64())).collect();
    HpxViews { nuniq, uniq_ranges_back, depth_pix }
  })
}

/// widening of m (width w) to width w2 > w through the generic ConvertIterator and through convert_to_u64
fn widen(m: &Moc, w2: u8) -> Result<(u8, Vec<(u64, u64)>, Option<(u8, Vec<(u64, u64)>)>, Vec<String>), String> {
  // the LAZILY widened iterator used as an operand: what it announces (peek_last) is the last range it
  // yields, and combined with the same MOC held in the wider type it gives the MOC / nothing
  macro_rules! lazy_use {
    ($mm:ident, $u:ty, $q:ident, $pl:ident, $r:ident, $errs:ident) => {{
      if let Some(p) = $pl {
        if $r.last() != Some(&p) {
          $errs.push(format!("peek_last of the widened iterator {:?} is not its last range {:?}", p, $r.last()));
        }
      }
      let wide: RangeMOC<$u, $q<$u>> = (&$mm).into_range_moc_iter().convert::<$u, $q<$u>>().into_range_moc();
      let a1 = ranges_of((&$mm).into_range_moc_iter().convert::<$u, $q<$u>>().and((&wide).into_range_moc_iter()));
      let a2 = ranges_of((&wide).into_range_moc_iter().and((&$mm).into_range_moc_iter().convert::<$u, $q<$u>>()));
      let m1 = ranges_of((&wide).into_range_moc_iter().minus((&$mm).into_range_moc_iter().convert::<$u, $q<$u>>()));
      let m2 = ranges_of((&$mm).into_range_moc_iter().convert::<$u, $q<$u>>().minus((&wide).into_range_moc_iter()));
      if a1 != $r || a2 != $r {
        $errs.push(format!("(widened lazily) AND (the same MOC in the wide type) = {} / {} instead of the MOC", ranges_str(&a1), ranges_str(&a2)));
      }
      if !m1.is_empty() || !m2.is_empty() {
        $errs.push(format!("(the MOC in the wide type) MINUS (widened lazily) = {} / {} instead of nothing", ranges_str(&m1), ranges_str(&m2)));
      }
    }};
  }
  macro_rules! go {
    ($t:ty, $u:ty, $q:ident) => {{
      let mm: RangeMOC<$t, $q<$t>> = to_range_moc(m);
      catch(move || {
        let it = (&mm).into_range_moc_iter().convert::<$u, $q<$u>>();
        let d = it.depth_max();
        let pl = it.peek_last().map(|r| (r.start.to_u64(), r.end.to_u64()));
        let r = ranges_of(it);
        let mut errs: Vec<String> = Vec::new();
        lazy_use!(mm, $u, $q, pl, r, errs);
        (d, r, None, errs)
      })
    }};
  }
  macro_rules! go64 {
    ($t:ty, $q:ident) => {{
      let mm: RangeMOC<$t, $q<$t>> = to_range_moc(m);
      catch(move || {
        let it = (&mm).into_range_moc_iter().convert::<u64, $q<u64>>();
        let d = it.depth_max();
        let pl = it.peek_last().map(|r| (r.start.to_u64(), r.end.to_u64()));
        let r = ranges_of(it);
        let it2 = convert_to_u64::<$t, $q<$t>, _, $q<u64>>((&mm).into_range_moc_iter());
        let d2 = it2.depth_max();
        let mut errs: Vec<String> = Vec::new();
        lazy_use!(mm, u64, $q, pl, r, errs);
        (d, r, Some((d2, ranges_of(it2))), errs)
      })
    }};
  }
  match (m.q, m.w, w2) {
    (Q::S, 16, 32) => go!(u16, u32, Hpx),
    (Q::S, 16, 64) => go64!(u16, Hpx),
    (Q::S, 32, 64) => go64!(u32, Hpx),
    (Q::T, 16, 32) => go!(u16, u32, Time),
    (Q::T, 16, 64) => go64!(u16, Time),
    (Q::T, 32, 64) => go64!(u32, Time),
    (Q::F, 16, 32) => go!(u16, u32, Frequency),
    (Q::F, 16, 64) => go64!(u16, Frequency),
    (Q::F, 32, 64) => go64!(u32, Frequency),
    _ => Err("bad widths".to_string()),
  }
}

/// narrowing of a 64-bit MOC to width w2 through convert_from_u64 (and From<RangeMOC<u64,Hpx>> for space)
fn narrow(m: &Moc, w2: u8) -> Result<Vec<(String, u8, Vec<(u64, u64)>)>, String> {
  macro_rules! go {
    ($t:ty, $q:ident) => {{
      let mm: RangeMOC<u64, $q<u64>> = to_range_moc(m);
      catch(move || {
        let it = convert_from_u64::<$q<u64>, $t, $q<$t>, _>((&mm).into_range_moc_iter());
        let d = it.depth_max();
        vec![("convert_from_u64".to_string(), d, ranges_of(it))]
      })
    }};
  }
  match (m.q, w2) {
    (Q::S, 32) => {
      let mm: RangeMOC<u64, Hpx<u64>> = to_range_moc(m);
      catch(move || {
        let it = convert_from_u64::<Hpx<u64>, u32, Hpx<u32>, _>((&mm).into_range_moc_iter());
        let d = it.depth_max();
        let r = ranges_of(it);
        let n: RangeMOC<u32, Hpx<u32>> = mm.clone().into();
        vec![("convert_from_u64".to_string(), d, r), ("From<RangeMOC<u64>>".to_string(), n.depth_max(), n.moc_ranges().iter().map(|r| (r.start as u64, r.end as u64)).collect())]
      })
    }
    (Q::S, 16) => {
      let mm: RangeMOC<u64, Hpx<u64>> = to_range_moc(m);
      catch(move || {
        let it = convert_from_u64::<Hpx<u64>, u16, Hpx<u16>, _>((&mm).into_range_moc_iter());
        let d = it.depth_max();
        let r = ranges_of(it);
        let n: RangeMOC<u16, Hpx<u16>> = mm.clone().into();
        vec![("convert_from_u64".to_string(), d, r), ("From<RangeMOC<u64>>".to_string(), n.depth_max(), n.moc_ranges().iter().map(|r| (r.start as u64, r.end as u64)).collect())]
      })
    }
    (Q::T, 32) => go!(u32, Time),
    (Q::T, 16) => go!(u16, Time),
    (Q::F, 32) => go!(u32, Frequency),
    (Q::F, 16) => go!(u16, Frequency),
    _ => Err("bad widths".to_string()),
  }
}

fn cells_str(c: &[(u8, u64)]) -> String {
  let mut s = format!("{}", c.len());
  for (d, i) in c {
    s.push_str(&format!(" {} {}", d, i));
  }
  s
}

pub fn check_moc(rep: &mut Report, orc: &mut Oracle, m: &Moc) -> bool {
  let mut ok = true;
  let sh = m.q.shift(m.w, m.d);
  let ncells_flat: u64 = m.r.iter().map(|(a, b)| (b - a) >> sh).sum();
  let do_flat = ncells_flat <= 3000;
  let case = format!("NCELLS {}", m.line());
  let v = match dispatch!(m.q, m.w, |T, QQ| views::<T, QQ>(m, do_flat)) {
    Ok(v) => v,
    Err(p) => {
      rep.violation("representation change panics", &case, &p, "", "C05");
      return false;
    }
  };
  rep.evaluations += 8;
  // 1. cell normal form judged by the verified checker
  let full = format!("{} {}", case, cells_str(&v.cells));
  let ans = orc.ask(&full);
  if !ans.starts_with("OK 1") {
    ok = false;
    rep.violation("cell view is not the normal form of the MOC", &full, &cells_str(&v.cells), &ans, "C05_cell_normal_form_checker_exact");
  }
  // 1b. the same list, cell for cell, as the model of next_cell_with_knowledge (proved to be the normal form)
  if ok {
    let exp = format!("OK 1 {}", cells_str(&v.cells));
    if ans != exp {
      ok = false;
      rep.violation("cell view differs from the model of the decomposition (Model/CellsSM.v)", &case, &cells_str(&v.cells), &ans, "C05_decomposition_is_normal_form");
    }
  }
  let mut bad = |what: &str, obs: String, exp: String, thm: &str, rep: &mut Report| {
    rep.violation(what, &case, &obs, &exp, thm);
  };
  if v.ranges_from_cells != m.r {
    ok = false;
    bad("ranges(cells(M)) differs from M", ranges_str(&v.ranges_from_cells), ranges_str(&m.r), "C05 lossless (cells)", rep);
  }
  if v.ranges_from_cellranges != m.r {
    ok = false;
    bad("ranges(cellranges(cells(M))) differs from M", ranges_str(&v.ranges_from_cellranges), ranges_str(&m.r), "C05 lossless (cell ranges)", rep);
  }
  if v.cells_from_cellranges != v.cells {
    ok = false;
    bad("cells-or-cell-ranges view does not expand to the cell view", cells_str(&v.cells_from_cellranges), cells_str(&v.cells), "C05 lossless (cell ranges)", rep);
  }
  if v.depths != (m.d, m.d, m.d) {
    ok = false;
    bad("an adapter changes the declared depth", format!("{:?}", v.depths), format!("{}", m.d), "C05 depth preserved", rep);
  }
  if let Some((d, r)) = &v.flat_roundtrip {
    if (*d, r) != (m.d, &m.r) {
      ok = false;
      bad("from_fixed_depth_cells(flatten(M)) differs from M", format!("{} {}", d, ranges_str(r)), m.dr(), "C05 lossless (fixed-depth cells)", rep);
    }
    let exp: Vec<u64> = m.r.iter().flat_map(|(a, b)| (a >> sh)..(b >> sh)).collect();
    if v.flat_cells.as_ref() != Some(&exp) {
      ok = false;
      bad("flatten_to_fixed_depth_cells is not the list of depth-d cells", format!("{:?}", v.flat_cells), format!("{:?}", exp), "C05 lossless (fixed-depth cells)", rep);
    }
  }
  // numbering schemes: generic uniq and zuniq round trips + values from the model
  for (i, c) in v.cells.iter().enumerate() {
    if v.uniq[i].1 != *c {
      ok = false;
      bad("from_uniq_gen(to_uniq_gen(cell)) differs from cell", format!("{:?} -> {} -> {:?}", c, v.uniq[i].0, v.uniq[i].1), format!("{:?}", c), "C05 generic uniq bijection", rep);
    }
    if v.zuniq[i].1 != *c {
      ok = false;
      bad("from_zuniq(to_zuniq(cell)) differs from cell", format!("{:?} -> {} -> {:?}", c, v.zuniq[i].0, v.zuniq[i].1), format!("{:?}", c), "C05_zuniq_roundtrip", rep);
    }
  }
  if !v.cells.is_empty() {
    let line = format!("NUM {} {} {}", m.q.c(), m.w, cells_str(&v.cells));
    let a = orc.ask(&line);
    let t: Vec<&str> = a.split_whitespace().collect();
    if t.len() == 1 + 2 * v.cells.len() {
      for (i, _) in v.cells.iter().enumerate() {
        let zu: u64 = t[2 + 2 * i].parse().unwrap_or(0);
        if zu != v.zuniq[i].0 {
          ok = false;
          bad("to_zuniq differs from the model", format!("{}", v.zuniq[i].0), format!("{}", zu), "C05_zuniq_roundtrip", rep);
        }
      }
    }
  }
  if !v.flat_cmp_ok {
    ok = false;
    bad("flat_cmp does not order the cell view ascending", cells_str(&v.cells), "".into(), "C05 z-order", rep);
  }
  if !v.zuniq_sorted {
    ok = false;
    bad("zuniq codes of the (z-ordered) cell view are not strictly increasing", format!("{:?}", v.zuniq.iter().map(|x| x.0).collect::<Vec<_>>()), "".into(), "C05 zuniq order", rep);
  }
  // HEALPix specific
  if m.q == Q::S {
    rep.evaluations += 3;
    let hv = match m.w {
      16 => hpx_views::<u16>(m),
      32 => hpx_views::<u32>(m),
      _ => hpx_views::<u64>(m),
    };
    match hv {
      Err(p) => {
        ok = false;
        bad("NUNIQ conversion panics", p, "".into(), "C05_nuniq_roundtrip", rep);
      }
      Ok(hv) => {
        let line = format!("NUM {} {} {}", m.q.c(), m.w, cells_str(&v.cells));
        let a = orc.ask(&line);
        let t: Vec<&str> = a.split_whitespace().collect();
        for (i, c) in v.cells.iter().enumerate() {
          if hv.nuniq[i].1 != *c {
            ok = false;
            bad("from_uniq_hpx(uniq_hpx(cell)) differs from cell", format!("{:?} -> {} -> {:?}", c, hv.nuniq[i].0, hv.nuniq[i].1), format!("{:?}", c), "C05_nuniq_roundtrip", rep);
          }
          if t.len() == 1 + 2 * v.cells.len() {
            let nu: u64 = t[1 + 2 * i].parse().unwrap_or(0);
            if nu != hv.nuniq[i].0 {
              ok = false;
              bad("uniq_hpx differs from the model", format!("{}", hv.nuniq[i].0), format!("{}", nu), "C05_nuniq_roundtrip", rep);
            }
          }
        }
        if hv.uniq_ranges_back != m.r {
          ok = false;
          bad("into_hpx(into_hpx_uniq(M)) differs from M", ranges_str(&hv.uniq_ranges_back), ranges_str(&m.r), "C05 lossless (NUNIQ ranges)", rep);
        }
        let mut sorted = v.cells.clone();
        sorted.sort();
        if hv.depth_pix != sorted {
          ok = false;
          bad("iter_depth_pix is not the cell view in (depth, index) order", cells_str(&hv.depth_pix), cells_str(&sorted), "C05_nuniq_order", rep);
        }
      }
    }
  }
  // widths
  for w2 in ALL_W {
    if w2 > m.w {
      rep.evaluations += 1;
      let line = format!("SCALE {} {}", w2 - m.w, ranges_str(&m.r));
      let a = orc.ask(&line);
      match widen(m, w2) {
        Err(p) => {
          ok = false;
          bad(&format!("widening to u{} panics", w2), p, a.clone(), "C05_widening_valid", rep);
        }
        Ok((d, r, extra, errs)) => {
          for e in errs {
            ok = false;
            bad(&format!("the iterator widened to u{} cannot be used as an operand", w2), e, a.clone(), "C05_widening_same_set (the widened MOC is the same MOC wherever it is used)", rep);
          }
          let o = format!("OK {}", ranges_str(&r));
          if o != a || d != m.d {
            ok = false;
            bad(&format!("widening to u{} changes the covered set or the depth", w2), format!("depth {} {}", d, o), format!("depth {} {}", m.d, a), "C05_widening_same_set + C05_widening_valid", rep);
          }
          if let Some((d2, r2)) = extra {
            let o2 = format!("OK {}", ranges_str(&r2));
            if o2 != a || d2 != m.d {
              ok = false;
              bad("convert_to_u64 changes the covered set or the depth", format!("depth {} {}", d2, o2), format!("depth {} {}", m.d, a), "C05_widening_same_set + C05_widening_valid", rep);
            }
          }
        }
      }
    }
    if m.w == 64 && w2 < 64 && m.d <= m.q.max_depth(w2) {
      // narrowing when the target width can express the depth: inverse of scaling
      rep.evaluations += 1;
      match narrow(m, w2) {
        Err(p) => {
          ok = false;
          bad(&format!("narrowing to u{} panics", w2), p, "".into(), "C05 narrowing", rep);
        }
        Ok(vs) => {
          for (name, d, r) in vs {
            let back = orc.ask(&format!("SCALE {} {}", 64 - w2, ranges_str(&r)));
            if back != format!("OK {}", ranges_str(&m.r)) || d != m.d {
              ok = false;
              bad(&format!("narrowing to u{} ({}) changes the covered set or the depth", w2, name), format!("depth {} {}", d, ranges_str(&r)), m.dr(), "C05_widening_same_set (inverse)", rep);
            }
          }
        }
      }
    }
  }
  if !m.r.is_empty() {
    rep.nontrivial(&case);
  }
  rep.sample(&format!("{} => cells {}", case, cells_str(&v.cells).chars().take(200).collect::<String>()));
  ok
}

pub fn run(ctx: &Ctx) -> Report {
  let mut rep = Report::default();
  let mut orc = Oracle::spawn();
  let mut rng = Rng::new(ctx.seed);
  rep.rule = "MOCs: all canonical lists over 6 slots at depth 1 (space) / 5 (time, frequency) at both ends of each (quantity,width) domain (exhaustive) + structured random MOCs of all depths; for each: cells / cell-ranges / fixed-depth cells / NUNIQ / generic uniq / zuniq views and back, flat_cmp and zuniq order, widening to every wider width (ConvertIterator, convert_to_u64) and narrowing of 64-bit MOCs whenever the target width can express the depth (convert_from_u64, From<RangeMOC<u64,Hpx>>); numbering schemes additionally on all (depth, idx) of depths 0..3 and sampled up to MAX_DEPTH. non-trivial = non-empty MOC; distinct = distinct MOC".to_string();
  let lists = all_canonical(6);
  for q in ALL_Q {
    for w in ALL_W {
      let d: u8 = if q == Q::S { 1 } else { 5 };
      let sh = q.shift(w, d);
      let ncells = q.nd0() << (q.dim() * d as u32);
      for top in [false, true] {
        let off = if top { ncells - 6 } else { 0 };
        for l in &lists {
          let m = Moc { q, w, d, r: l.iter().map(|(s, e)| ((s + off) << sh, (e + off) << sh)).collect() };
          check_moc(&mut rep, &mut orc, &m);
        }
      }
    }
  }
  rep.count("phase:exhaustive-small-scope-done");
  // numbering schemes on explicit (depth, idx) pairs
  for q in ALL_Q {
    for w in ALL_W {
      let md = q.max_depth(w);
      let mut cells: Vec<(u8, u64)> = Vec::new();
      for d in 0..=3u8.min(md) {
        let nc = q.nd0() << (q.dim() * d as u32);
        for i in 0..nc {
          cells.push((d, i));
        }
      }
      let extra = ctx.n(300, 20_000);
      for _ in 0..extra {
        let d = rng.range(0, md as u64) as u8;
        let nc = q.nd0() << (q.dim() * d as u32);
        let i = match rng.below(4) {
          0 => 0,
          1 => nc - 1,
          _ => rng.below(nc),
        };
        cells.push((d, i));
      }
      for chunk in cells.chunks(200) {
        // a single-cell MOC per cell exercises every scheme through check_moc; here the codes only
        let line = format!("NUM {} {} {}", q.c(), w, cells_str(chunk));
        let a = orc.ask(&line);
        let t: Vec<&str> = a.split_whitespace().collect();
        if t.len() != 1 + 2 * chunk.len() {
          rep.violation("oracle-error", &line, "", &a, "internal");
          continue;
        }
        for (k, (d, i)) in chunk.iter().enumerate() {
          rep.evaluations += 1;
          let (zu, nu): (u64, u64) = (t[2 + 2 * k].parse().unwrap_or(0), t[1 + 2 * k].parse().unwrap_or(0));
          let got = dispatch!(q, w, |T, QQ| catch(|| {
            let c = Cell::<T>::new(*d, T::from_u64(*i));
            let z = c.zuniq::<QQ>();
            let zb = Cell::<T>::from_zuniq::<QQ>(z);
            let u = c.uniq::<QQ>();
            let ub = Cell::<T>::from_uniq::<QQ>(u);
            (z.to_u64(), (zb.depth, zb.idx.to_u64()), (ub.depth, ub.idx.to_u64()))
          }));
          match got {
            Ok((z, zb, ub)) if z == zu && zb == (*d, *i) && ub == (*d, *i) => {}
            other => rep.violation("zuniq / generic uniq code differs from the model or does not round-trip", &format!("NUM {} {} 1 {} {}", q.c(), w, d, i), &format!("{:?}", other), &format!("zuniq={}", zu), "C05_zuniq_roundtrip"),
          }
          if q == Q::S {
            let got = dispatch!(q, w, |T, _QQ| catch(|| {
              let c = Cell::<T>::new(*d, T::from_u64(*i));
              let u = c.uniq_hpx();
              let b = Cell::<T>::from_uniq_hpx(u);
              (u.to_u64(), (b.depth, b.idx.to_u64()))
            }));
            match got {
              Ok((u, b)) if u == nu && b == (*d, *i) => {}
              other => rep.violation("NUNIQ code differs from the model or does not round-trip", &format!("NUM {} {} 1 {} {}", q.c(), w, d, i), &format!("{:?}", other), &format!("nuniq={}", nu), "C05_nuniq_roundtrip"),
            }
          }
        }
      }
      rep.count(&format!("numbering:{}{}", q.c(), w));
    }
  }
  let n = ctx.n(3_000, 100_000);
  for _ in 0..n {
    let q = ALL_Q[rng.below(3) as usize];
    let w = ALL_W[rng.below(3) as usize];
    let md = q.max_depth(w);
    // bias towards depths a narrower width can express, so that narrowing is exercised
    let wn = if rng.chance(1, 2) { 16 } else { 32 };
    let narrowable = w == 64 && rng.chance(1, 2);
    let d = if narrowable { rng.range(0, q.max_depth(wn) as u64) as u8 } else { rng.range(0, md as u64) as u8 };
    let maxr = if rng.chance(1, 10) { 30 } else { 6 };
    let m = gen_moc(&mut rng, q, w, d, maxr);
    check_moc(&mut rep, &mut orc, &m);
    rep.count(&format!("random:{}{}", q.c(), w));
  }
  rep.notes.push(format!("oracle calls: {}", orc.calls));
  rep
}
