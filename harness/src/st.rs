//! Space-time MOC helpers (u64 time x u64 space): model-side representation,
//! conversion to / from RangeMOC2, generator of valid ST-MOCs, wire encoding.
#![allow(dead_code)]
use crate::common::*;
use moc::elemset::range::MocRanges;
use moc::moc::range::RangeMOC;
use moc::moc2d::range::{RangeMOC2, RangeMOC2Elem};
use moc::moc2d::{HasTwoMaxDepth, RangeMOC2IntoIterator};
use moc::qty::{Hpx, Time};
use std::ops::Range;

pub type M2 = RangeMOC2<u64, Time<u64>, u64, Hpx<u64>>;
pub type E2 = RangeMOC2Elem<u64, Time<u64>, u64, Hpx<u64>>;

#[derive(Clone, Debug, PartialEq, Eq, Hash)]
pub struct StMoc {
  pub dt: u8,
  pub ds: u8,
  pub elems: Vec<(Vec<(u64, u64)>, Vec<(u64, u64)>)>,
}
impl StMoc {
  pub fn wire(&self) -> String {
    let mut s = format!("{}", self.elems.len());
    for (t, sp) in &self.elems {
      s.push_str(&format!(" {} {}", ranges_str(t), ranges_str(sp)));
    }
    s
  }
  pub fn show(&self) -> String {
    format!("dt={} ds={} {}", self.dt, self.ds, self.wire())
  }
}

pub fn rm<Q: moc::qty::MocQty<u64>>(d: u8, r: &[(u64, u64)]) -> RangeMOC<u64, Q> {
  let v: Vec<Range<u64>> = r.iter().map(|(a, b)| *a..*b).collect();
  RangeMOC::new(d, MocRanges::new_unchecked(v))
}

pub fn to_moc2(m: &StMoc) -> M2 {
  let elems: Vec<E2> = m.elems.iter().map(|(t, s)| RangeMOC2Elem::new(rm::<Time<u64>>(m.dt, t), rm::<Hpx<u64>>(m.ds, s))).collect();
  RangeMOC2::new(m.dt, m.ds, elems)
}
pub fn from_moc2(m: M2) -> StMoc {
  let dt = m.depth_max_1();
  let ds = m.depth_max_2();
  let elems = m
    .into_range_moc2_iter()
    .map(|e| {
      let (t, s) = e.mocs();
      (
        t.moc_ranges().iter().map(|r| (r.start, r.end)).collect(),
        s.moc_ranges().iter().map(|r| (r.start, r.end)).collect(),
      )
    })
    .collect();
  StMoc { dt, ds, elems }
}

/// pool of small space MOCs at depth ds realising equal / nested / overlapping / disjoint
pub fn s_pool(ds: u8) -> Vec<Vec<(u64, u64)>> {
  let sh = Q::S.shift(64, ds);
  let c = |a: u64, b: u64| (a << sh, b << sh);
  let n = Q::S.nd0() << (2 * ds as u32);
  vec![
    vec![c(0, 1)],
    vec![c(0, 2)],
    vec![c(1, 3)],
    vec![c(3, 4)],
    vec![c(0, 1), c(3, 4)],
    vec![c(1, 2), c(n - 1, n)],
    vec![c(0, n)],
    vec![c(2, 3)],
  ]
}

/// valid ST-MOC over `nslots` time slots at depth dt (slot i = depth-dt cell `base + i`)
pub fn gen_stmoc(rng: &mut Rng, dt: u8, ds: u8, nslots: u64, base: u64, max_elems: usize, max_tr: usize) -> StMoc {
  let sh = Q::T.shift(64, dt);
  let pool = s_pool(ds);
  let ne = rng.range(0, max_elems as u64) as usize;
  // choose cut points: sequence of time ranges over slots, then group consecutive ranges in elements
  let mut elems: Vec<(Vec<(u64, u64)>, Vec<(u64, u64)>)> = Vec::new();
  let mut pos = 0u64;
  let mut prev_s: Option<usize> = None;
  for _ in 0..ne {
    if pos >= nslots {
      break;
    }
    let ntr = rng.range(1, max_tr as u64) as usize;
    let mut tr: Vec<(u64, u64)> = Vec::new();
    for k in 0..ntr {
      if pos >= nslots {
        break;
      }
      // gap before (must be > 0 inside an element after the first range so that T is canonical)
      let gap = if k == 0 { rng.below(2) } else { 1 + rng.below(2) };
      let s = pos + gap;
      if s >= nslots {
        break;
      }
      let len = 1 + rng.below(2.min(nslots - s));
      tr.push(((base + s) << sh, (base + s + len) << sh));
      pos = s + len;
    }
    if tr.is_empty() {
      break;
    }
    // space part: different from the previous element's when touching would otherwise be ambiguous
    let mut si = rng.below(pool.len() as u64) as usize;
    if Some(si) == prev_s {
      si = (si + 1) % pool.len();
    }
    prev_s = Some(si);
    elems.push((tr, pool[si].clone()));
  }
  StMoc { dt, ds, elems }
}
