//! C07 — 1-D MOC serialisation round-trips in every supported format.
//! Real writer -> real reader on the MOC population, all options; FITS structure
//! (2880-byte blocks, NAXIS1/NAXIS2 vs data written) and the data bytes compared with the
//! extracted byte-level model Serial.encode_rows (theorems C07_fits_*); writer fed by lazy
//! operators of inexact size hint must produce the same bytes as the in-memory writer.
use crate::asciix;
use crate::fitsx;
use crate::common::*;
use crate::dispatch;
use crate::iters::*;
use moc::deser::ascii::{from_ascii_ivoa, from_ascii_stream, to_ascii_ivoa, to_ascii_stream};
use moc::deser::fits::{from_fits_ivoa, hpx_cells_to_fits_ivoa, MocIdxType, MocQtyType, MocType};
use moc::deser::json::{from_json_aladin, to_json_aladin};
use moc::idx::Idx;
use moc::moc::range::RangeMOC;
use moc::moc::{
  CellMOCIntoIterator, CellMOCIterator, CellOrCellRangeMOCIntoIterator, CellOrCellRangeMOCIterator, HasMaxDepth,
  RangeMOCIntoIterator, RangeMOCIterator,
};
use moc::qty::Hpx;
use std::io::Cursor;

fn obs<T: Idx, QQ: Inst<T>>(m: &RangeMOC<T, QQ>) -> (u8, Vec<(u64, u64)>) {
  (m.depth_max(), m.moc_ranges().iter().map(|r| (r.start.to_u64(), r.end.to_u64())).collect())
}

/// returns (format name, Ok(decoded) | Err(reason))
fn roundtrips<T: Idx, QQ: Inst<T>>(m: &Moc) -> Vec<(String, Result<(u8, Vec<(u64, u64)>), String>)> {
  let mm: RangeMOC<T, QQ> = to_range_moc(m);
  let mut out: Vec<(String, Result<(u8, Vec<(u64, u64)>), String>)> = Vec::new();
  let flat = |r: Result<Result<(u8, Vec<(u64, u64)>), String>, String>| match r {
    Ok(x) => x,
    Err(p) => Err(p),
  };
  // ASCII, all options
  for fold in [None, Some(10usize), Some(24), Some(80)] {
    for use_len in [false, true] {
      let mm2 = mm.clone();
      out.push((format!("ascii(fold={:?},range_len={})", fold, use_len), flat(catch(move || {
        let mut buf: Vec<u8> = Vec::new();
        to_ascii_ivoa((&mm2).into_range_moc_iter().cells().cellranges(), &fold, use_len, &mut buf).map_err(|e| format!("write error {:?}", e))?;
        let s = String::from_utf8(buf).map_err(|e| format!("utf8 {:?}", e))?;
        let back = from_ascii_ivoa::<T, QQ>(&s).map_err(|e| format!("read error {:?} on {:?}", e, s))?;
        Ok(obs(&back.into_cellcellrange_moc_iter().ranges().into_range_moc()))
      }))));
    }
  }
  for use_len in [false, true] {
    let mm2 = mm.clone();
    out.push((format!("ascii-stream(offset={})", use_len), flat(catch(move || {
      let mut buf: Vec<u8> = Vec::new();
      to_ascii_stream((&mm2).into_range_moc_iter().cells().cellranges(), use_len, &mut buf).map_err(|e| format!("write error {:?}", e))?;
      let s = String::from_utf8_lossy(&buf).to_string();
      let rd = from_ascii_stream::<T, QQ, _>(Cursor::new(buf)).map_err(|e| format!("read error {:?} on {:?}", e, s))?;
      Ok(obs(&rd.ranges().into_range_moc()))
    }))));
  }
  for fold in [None, Some(10usize), Some(60)] {
    let mm2 = mm.clone();
    out.push((format!("json(fold={:?})", fold), flat(catch(move || {
      let mut buf: Vec<u8> = Vec::new();
      to_json_aladin((&mm2).into_range_moc_iter().cells(), &fold, "", &mut buf).map_err(|e| format!("write error {:?}", e))?;
      let s = String::from_utf8(buf).map_err(|e| format!("utf8 {:?}", e))?;
      let back = from_json_aladin::<T, QQ>(&s).map_err(|e| format!("read error {:?} on {:?}", e, s))?;
      Ok(obs(&back.into_cell_moc_iter().ranges().into_range_moc()))
    }))));
  }
  out
}

/// the ASCII documents the implementation writes, per (fold, use_range_len)
fn ascii_docs<T: Idx, QQ: Inst<T>>(m: &Moc) -> Vec<(Option<usize>, bool, Result<String, String>)> {
  let mm: RangeMOC<T, QQ> = to_range_moc(m);
  let mut out = Vec::new();
  for fold in [None, Some(0usize), Some(7), Some(10), Some(24), Some(80)] {
    for use_len in [false, true] {
      let mm2 = mm.clone();
      let r = catch(move || {
        let mut buf: Vec<u8> = Vec::new();
        to_ascii_ivoa((&mm2).into_range_moc_iter().cells().cellranges(), &fold, use_len, &mut buf).map_err(|e| format!("write error {:?}", e))?;
        String::from_utf8(buf).map_err(|e| format!("utf8 {:?}", e))
      });
      out.push((fold, use_len, match r { Ok(x) => x, Err(p) => Err(p) }));
    }
  }
  out
}

/// character-level tie: writer vs Model/AsciiCodec.v to_ascii, reader vs from_ascii on the written
/// documents and on mutations of them
fn ascii_exact(rep: &mut Report, orc: &mut Oracle, rng: &mut Rng, m: &Moc, n_mut: usize) -> bool {
  let mut ok = true;
  let docs = dispatch!(m.q, m.w, |T, QQ| ascii_docs::<T, QQ>(m));
  for (fold, use_len, r) in docs {
    rep.evaluations += 1;
    rep.count("ascii-writer-exact");
    let req = format!("ASCW {} {} {} {} {} {}", m.q.c(), m.w, m.d, fold.map(|x| x.to_string()).unwrap_or("-".to_string()), use_len as u8, ranges_str(&m.r));
    let model = orc.ask(&req);
    let model_hex = model.split_whitespace().nth(1).unwrap_or("").to_string();
    match r {
      Err(e) => {
        ok = false;
        rep.violation("ASCII writer fails", &format!("{} # document of SER {}", req, m.line()), &e, &model, "C07_ascii_moc_roundtrip");
      }
      Ok(s) => {
        if !model.starts_with("OK") || asciix::hex(s.as_bytes()) != model_hex {
          ok = false;
          rep.corr_break("to_ascii_ivoa writes other characters than the character-level model", &format!("{} # SER {}", req, m.line()), &format!("{:?}", s), &format!("{:?}", String::from_utf8_lossy(&unhex(&model_hex))), "src/deser/ascii.rs to_ascii_ivoa == Model/AsciiCodec.v to_ascii (C07_ascii_moc_roundtrip)");
        }
        let c = m.q.c();
        ok &= dispatch!(m.q, m.w, |T, QQ| asciix::compare_reader_1d::<T, QQ>(rep, orc, c, m.w, &s, "written"));
        if fold == Some(10) && !use_len {
          for d in asciix::mutations(rng, &s, n_mut) {
            ok &= dispatch!(m.q, m.w, |T, QQ| asciix::compare_reader_1d::<T, QQ>(rep, orc, c, m.w, &d, "mutated"));
          }
        }
      }
    }
  }
  ok
}
/// streaming ASCII: writer vs Model/AsciiCodec.v to_ascii_stream, reader vs from_ascii_stream
fn stream_exact(rep: &mut Report, orc: &mut Oracle, rng: &mut Rng, m: &Moc, n_mut: usize) -> bool {
  let mut ok = true;
  for use_len in [false, true] {
    rep.evaluations += 1;
    rep.count("ascii-stream-writer-exact");
    let r = dispatch!(m.q, m.w, |T, QQ| {
      let mm: RangeMOC<T, QQ> = to_range_moc(m);
      match catch(move || {
        let mut buf: Vec<u8> = Vec::new();
        to_ascii_stream((&mm).into_range_moc_iter().cells().cellranges(), use_len, &mut buf).map_err(|e| format!("write error {:?}", e))?;
        String::from_utf8(buf).map_err(|e| format!("utf8 {:?}", e))
      }) { Ok(x) => x, Err(p) => Err(p) }
    });
    let req = format!("ASSW {} {} {} {} {}", m.q.c(), m.w, m.d, use_len as u8, ranges_str(&m.r));
    let model = orc.ask(&req);
    let model_hex = model.split_whitespace().nth(1).unwrap_or("").to_string();
    match r {
      Err(e) => {
        ok = false;
        rep.violation("streaming ASCII writer fails", &format!("{} # SER {}", req, m.line()), &e, &model, "C07_ascii_stream_roundtrip");
      }
      Ok(s) => {
        if !model.starts_with("OK") || asciix::hex(s.as_bytes()) != model_hex {
          ok = false;
          rep.corr_break("to_ascii_stream writes other characters than the character-level model", &format!("{} # SER {}", req, m.line()), &format!("{:?}", s), &format!("{:?}", String::from_utf8_lossy(&unhex(&model_hex))), "src/deser/ascii.rs to_ascii_stream == Model/AsciiCodec.v to_ascii_stream (C07_ascii_stream_roundtrip)");
        }
        let c = m.q.c();
        ok &= dispatch!(m.q, m.w, |T, QQ| asciix::compare_reader_stream::<T, QQ>(rep, orc, c, m.w, &s, "written"));
        if !use_len {
          for d in asciix::mutations(rng, &s, n_mut) {
            ok &= dispatch!(m.q, m.w, |T, QQ| asciix::compare_reader_stream::<T, QQ>(rep, orc, c, m.w, &d, "mutated"));
          }
        }
      }
    }
  }
  ok
}
/// JSON: writer vs Model/JsonCodec.v to_json, character by character
fn json_exact(rep: &mut Report, orc: &mut Oracle, rng: &mut Rng, m: &Moc, n_mut: usize) -> bool {
  let mut ok = true;
  for fold in [None, Some(0usize), Some(10), Some(60)] {
    rep.evaluations += 1;
    rep.count("json-writer-exact");
    let r = dispatch!(m.q, m.w, |T, QQ| {
      let mm: RangeMOC<T, QQ> = to_range_moc(m);
      match catch(move || {
        let mut buf: Vec<u8> = Vec::new();
        to_json_aladin((&mm).into_range_moc_iter().cells(), &fold, "", &mut buf).map_err(|e| format!("write error {:?}", e))?;
        String::from_utf8(buf).map_err(|e| format!("utf8 {:?}", e))
      }) { Ok(x) => x, Err(p) => Err(p) }
    });
    let req = format!("JSONW {} {} {} {} {}", m.q.c(), m.w, m.d, fold.map(|x| x.to_string()).unwrap_or("-".to_string()), ranges_str(&m.r));
    let model = orc.ask(&req);
    let model_hex = model.split_whitespace().nth(1).unwrap_or("").to_string();
    match r {
      Err(e) => {
        ok = false;
        rep.violation("JSON writer fails", &format!("{} # SER {}", req, m.line()), &e, &model, "C07_text_roundtrip");
      }
      Ok(s) => {
        if !model.starts_with("OK") || asciix::hex(s.as_bytes()) != model_hex {
          ok = false;
          rep.corr_break("to_json_aladin writes other characters than the character-level model", &format!("{} # SER {}", req, m.line()), &format!("{:?}", s), &format!("{:?}", String::from_utf8_lossy(&unhex(&model_hex))), "src/deser/json.rs to_json_aladin == Model/JsonCodec.v to_json");
        }
        let c = m.q.c();
        ok &= dispatch!(m.q, m.w, |T, QQ| asciix::compare_reader_json_1d::<T, QQ>(rep, orc, c, m.w, &s, "written"));
        if s.len() < 3000 {
          for d in asciix::json_mutations(rng, &s, n_mut) {
            ok &= dispatch!(m.q, m.w, |T, QQ| asciix::compare_reader_json_1d::<T, QQ>(rep, orc, c, m.w, &d, "mutated"));
          }
        }
      }
    }
  }
  ok
}
fn unhex(h: &str) -> Vec<u8> {
  if h == "-" { return vec![]; }
  (0..h.len() / 2).filter_map(|i| u8::from_str_radix(&h[2 * i..2 * i + 2], 16).ok()).collect()
}

struct FitsObs {
  bytes_len: usize,
  naxis1: u64,
  naxis2: u64,
  data: Vec<u8>,
  data_offset: usize,
  decoded: Result<(u8, Vec<(u64, u64)>), String>,
}

fn header_cards(bytes: &[u8], mut off: usize) -> Option<(Vec<String>, usize)> {
  let mut cards = Vec::new();
  loop {
    if off + 2880 > bytes.len() {
      return None;
    }
    let mut end = false;
    for k in 0..36 {
      let c = String::from_utf8_lossy(&bytes[off + 80 * k..off + 80 * (k + 1)]).to_string();
      if c.starts_with("END") && c[3..].trim().is_empty() {
        end = true;
      }
      cards.push(c);
    }
    off += 2880;
    if end {
      return Some((cards, off));
    }
  }
}
fn card_uint(cards: &[String], key: &str) -> Option<u64> {
  for c in cards {
    if c.starts_with(&format!("{:<8}=", key)) {
      return c[10..].split('/').next()?.trim().parse().ok();
    }
  }
  None
}

fn fits_obs<T: Idx, QQ: Inst<T>>(bytes: Vec<u8>) -> Result<FitsObs, String> {
  let (_p, off1) = header_cards(&bytes, 0).ok_or("no primary header")?;
  let (cards, off2) = header_cards(&bytes, off1).ok_or("no extension header")?;
  let naxis1 = card_uint(&cards, "NAXIS1").ok_or("no NAXIS1")?;
  let naxis2 = card_uint(&cards, "NAXIS2").ok_or("no NAXIS2")?;
  let n = (naxis1 * naxis2) as usize;
  if off2 + n > bytes.len() {
    return Err(format!("declared data size {} exceeds the file ({} bytes after the headers)", n, bytes.len() - off2));
  }
  let data = bytes[off2..off2 + n].to_vec();
  let decoded = match QQ::fits_stream(bytes.clone()) {
    Some(rd) => {
      let d = rd.depth_max();
      Ok((d, ranges_of(rd)))
    }
    None => Err("reader rejects the document".to_string()),
  };
  Ok(FitsObs { bytes_len: bytes.len(), naxis1, naxis2, data, data_offset: off2, decoded })
}

fn fits_variants<T: Idx, QQ: Inst<T>>(m: &Moc) -> Vec<(String, Result<Vec<u8>, String>)> {
  let mm: RangeMOC<T, QQ> = to_range_moc(m);
  let mut out = Vec::new();
  let w = |r: Result<Result<Vec<u8>, String>, String>| match r {
    Ok(x) => x,
    Err(p) => Err(p),
  };
  {
    let mm = mm.clone();
    out.push(("fits-range(in-memory)".to_string(), w(catch(move || {
      let mut b = Vec::new();
      (&mm).into_range_moc_iter().to_fits_ivoa(None, None, &mut b).map_err(|e| format!("write error {:?}", e))?;
      Ok(b)
    }))));
  }
  {
    let mm = mm.clone();
    out.push(("fits-range(lazy not.not)".to_string(), w(catch(move || {
      let mut b = Vec::new();
      (&mm).into_range_moc_iter().not().not().to_fits_ivoa(None, None, &mut b).map_err(|e| format!("write error {:?}", e))?;
      Ok(b)
    }))));
  }
  {
    // split the MOC in two halves and write their lazy union
    let mm = mm.clone();
    out.push(("fits-range(lazy or of halves)".to_string(), w(catch(move || {
      let v: Vec<_> = mm.moc_ranges().iter().cloned().collect();
      let h = v.len() / 2;
      let a = RangeMOC::<T, QQ>::new(mm.depth_max(), moc::elemset::range::MocRanges::new_unchecked(v[..h].to_vec()));
      let c = RangeMOC::<T, QQ>::new(mm.depth_max(), moc::elemset::range::MocRanges::new_unchecked(v[h..].to_vec()));
      let mut b = Vec::new();
      (&a).into_range_moc_iter().or((&c).into_range_moc_iter()).to_fits_ivoa(None, None, &mut b).map_err(|e| format!("write error {:?}", e))?;
      Ok(b)
    }))));
  }
  {
    let mm = mm.clone();
    out.push(("fits-range(lazy cells.ranges)".to_string(), w(catch(move || {
      let mut b = Vec::new();
      (&mm).into_range_moc_iter().cells().ranges().to_fits_ivoa(None, None, &mut b).map_err(|e| format!("write error {:?}", e))?;
      Ok(b)
    }))));
  }
  {
    let mm = mm.clone();
    out.push(("fits-range(lazy and with itself, checked)".to_string(), w(catch(move || {
      let mut b = Vec::new();
      (&mm).into_range_moc_iter().and((&mm).into_range_moc_iter()).into_checked().to_fits_ivoa(None, None, &mut b).map_err(|e| format!("write error {:?}", e))?;
      Ok(b)
    }))));
  }
  out
}

fn nuniq_roundtrip<T: Idx>(m: &Moc) -> Result<(usize, (u8, Vec<(u64, u64)>)), String>
where
  Hpx<T>: Inst<T>,
{
  let mm: RangeMOC<T, Hpx<T>> = to_range_moc(m);
  let r = catch(move || {
    let mut b = Vec::new();
    hpx_cells_to_fits_ivoa((&mm).into_range_moc_iter().cells(), None, None, &mut b).map_err(|e| format!("write error {:?}", e))?;
    let len = b.len();
    let dec: RangeMOC<T, Hpx<T>> = match from_fits_ivoa(Cursor::new(b)).map_err(|e| format!("read error {:?}", e))? {
      MocIdxType::U16(MocQtyType::Hpx(t)) => conv::<u16, T>(t)?,
      MocIdxType::U32(MocQtyType::Hpx(t)) => conv::<u32, T>(t)?,
      MocIdxType::U64(MocQtyType::Hpx(t)) => conv::<u64, T>(t)?,
      _ => return Err("decoded as another quantity".to_string()),
    };
    Ok((len, obs(&dec)))
  });
  match r {
    Ok(x) => x,
    Err(p) => Err(p),
  }
}
fn nuniq_bytes<T: Idx>(m: &Moc) -> Result<Vec<u8>, String>
where
  Hpx<T>: Inst<T>,
{
  let mm: RangeMOC<T, Hpx<T>> = to_range_moc(m);
  match catch(move || {
    let mut b = Vec::new();
    hpx_cells_to_fits_ivoa((&mm).into_range_moc_iter().cells(), None, None, &mut b).map_err(|e| format!("write error {:?}", e))?;
    Ok(b)
  }) {
    Ok(x) => x,
    Err(p) => Err(p),
  }
}
fn conv<U: Idx, T: Idx>(t: MocType<U, Hpx<U>, Cursor<Vec<u8>>>) -> Result<RangeMOC<T, Hpx<T>>, String>
where
  Hpx<T>: Inst<T>,
{
  if U::N_BITS != T::N_BITS {
    return Err(format!("decoded with index width {} instead of {}", U::N_BITS, T::N_BITS));
  }
  let m = t.collect();
  let v: Vec<std::ops::Range<T>> = m.moc_ranges().iter().map(|r| T::from_u64(r.start.to_u64())..T::from_u64(r.end.to_u64())).collect();
  Ok(RangeMOC::new(m.depth_max(), moc::elemset::range::MocRanges::new_unchecked(v)))
}

pub fn check_moc(rep: &mut Report, orc: &mut Oracle, m: &Moc) -> bool {
  let mut ok = true;
  let case = format!("SER {}", m.line());
  let exp = (m.d, m.r.clone());
  for (fmt, r) in dispatch!(m.q, m.w, |T, QQ| roundtrips::<T, QQ>(m)) {
    rep.evaluations += 1;
    rep.count(&format!("fmt:{}", fmt.split('(').next().unwrap()));
    if r.as_ref().ok() != Some(&exp) {
      ok = false;
      let o = match &r {
        Ok((d, rr)) => format!("OK {} {}", d, ranges_str(rr)),
        Err(e) => e.clone(),
      };
      rep.violation(&format!("{} write/read does not round-trip", fmt), &format!("{} # format={}", case, fmt), &o, &format!("OK {}", m.dr()), "C07_text_roundtrip + C07_cell_range_notation");
    }
  }
  // FITS
  let model = orc.ask(&format!("FITSROWS {} {}", m.w, ranges_str(&m.r)));
  let mut reference: Option<Vec<u8>> = None;
  for (name, r) in dispatch!(m.q, m.w, |T, QQ| fits_variants::<T, QQ>(m)) {
    rep.evaluations += 1;
    rep.count("fmt:fits-range");
    let shown = format!("{} # format={}", case, name);
    match r {
      Err(e) => {
        ok = false;
        rep.violation(&format!("{} writer fails", name), &shown, &e, "", "C07 (writer fed by a lazy operator)");
      }
      Ok(bytes) => {
        match dispatch!(m.q, m.w, |T, QQ| fits_obs::<T, QQ>(bytes.clone())) {
          Err(e) => {
            ok = false;
            rep.violation("emitted FITS is structurally invalid", &shown, &e, "", "C07_fits_declared_size");
          }
          Ok(fo) => {
            if fo.bytes_len % 2880 != 0 {
              ok = false;
              rep.violation("emitted FITS is not made of 2880-byte blocks", &shown, &format!("{} bytes", fo.bytes_len), "", "C07_fits_block_structure");
            }
            let padded = fo.data_offset + fo.data.len() + ((2880 - fo.data.len() % 2880) % 2880);
            if padded != fo.bytes_len || fo.naxis1 != (m.w / 8) as u64 || fo.naxis2 != 2 * m.r.len() as u64 {
              ok = false;
              rep.violation("declared row count / row width differ from the data written", &shown, &format!("NAXIS1={} NAXIS2={} file={} bytes, headers={} bytes", fo.naxis1, fo.naxis2, fo.bytes_len, fo.data_offset), &format!("NAXIS1={} NAXIS2={}", m.w / 8, 2 * m.r.len()), "C07_fits_declared_size");
            }
            let hex: String = fo.data.iter().map(|b| format!("{:02x}", b)).collect();
            if format!("OK {}", hex).trim_end() != model {
              ok = false;
              rep.violation("FITS data bytes differ from the byte-level model", &shown, &hex.chars().take(300).collect::<String>(), &model.chars().take(300).collect::<String>(), "C07_fits_rows_roundtrip");
            }
            if fo.decoded.as_ref().ok() != Some(&exp) {
              ok = false;
              rep.violation("FITS write/read does not round-trip", &shown, &format!("{:?}", fo.decoded), &format!("OK {}", m.dr()), "C07_fits_rows_roundtrip");
            }
          }
        }
        if reference.is_none() {
          // whole file, byte for byte, against Model/FitsCodec.v; and the reader beside the model's
          rep.evaluations += 1;
          rep.count("fits-file-exact");
          let req = format!("FITSW {} {} {} {}", m.q.c(), m.w, m.d, ranges_str(&m.r));
          let model_file = orc.ask(&req);
          let hx: String = bytes.iter().map(|b| format!("{:02x}", b)).collect();
          if model_file != format!("OK {}", hx) {
            ok = false;
            let pos = model_file.bytes().skip(3).zip(hx.bytes()).position(|(a, b)| a != b).unwrap_or(0) / 2;
            rep.corr_break("the FITS file written differs from the byte-level model", &format!("{} # {}", req, shown), &format!("{} bytes, first difference at byte {}: {:?}", bytes.len(), pos, String::from_utf8_lossy(&bytes[pos.saturating_sub(20).min(bytes.len())..(pos + 40).min(bytes.len())])), &format!("{} bytes", (model_file.len().saturating_sub(3)) / 2), "src/deser/fits ranges_to_fits_ivoa == Model/FitsCodec.v fits_write (C07_fits_file_roundtrip)");
          }
          ok &= fitsx::compare_reader_fits(rep, orc, &bytes, "written", "none");
        }
        match &reference {
          None => reference = Some(bytes),
          Some(rf) => {
            if *rf != bytes {
              ok = false;
              rep.violation("writer fed by a lazy operator emits other bytes than the in-memory writer", &shown, &format!("{} bytes", bytes.len()), &format!("{} bytes", rf.len()), "C07 (writer fed by a lazy operator)");
            }
          }
        }
      }
    }
  }
  if m.q == Q::S {
    // NUNIQ: whole file against Model/FitsCodec.v fits_write_nuniq, reader beside the model's
    let wr = match m.w {
      16 => nuniq_bytes::<u16>(m),
      32 => nuniq_bytes::<u32>(m),
      _ => nuniq_bytes::<u64>(m),
    };
    if let Ok(bytes) = wr {
      rep.evaluations += 1;
      rep.count("fits-nuniq-file-exact");
      let req = format!("FITSWN {} {} {}", m.w, m.d, ranges_str(&m.r));
      let model_file = orc.ask(&req);
      let hx: String = bytes.iter().map(|b| format!("{:02x}", b)).collect();
      if model_file != format!("OK {}", hx) {
        ok = false;
        let pos = model_file.bytes().skip(3).zip(hx.bytes()).position(|(a, b)| a != b).unwrap_or(0) / 2;
        rep.corr_break("the NUNIQ FITS file written differs from the byte-level model", &format!("{} # {}", req, case), &format!("{} bytes, first difference at byte {}", bytes.len(), pos), &format!("{} bytes", model_file.len().saturating_sub(3) / 2), "src/deser/fits hpx_cells_to_fits_ivoa == Model/FitsCodec.v fits_write_nuniq");
      }
      ok &= fitsx::compare_reader_fits(rep, orc, &bytes, "nuniq-written", "none");
    }
    rep.evaluations += 1;
    rep.count("fmt:fits-nuniq");
    let r = match m.w {
      16 => nuniq_roundtrip::<u16>(m),
      32 => nuniq_roundtrip::<u32>(m),
      _ => nuniq_roundtrip::<u64>(m),
    };
    match r {
      Ok((len, got)) if got == exp && len % 2880 == 0 => {}
      other => {
        ok = false;
        rep.violation("FITS NUNIQ write/read does not round-trip (or not 2880-byte blocks)", &format!("{} # format=fits-nuniq", case), &format!("{:?}", other), &format!("OK {}", m.dr()), "C05_nuniq_roundtrip + C07_text_roundtrip");
      }
    }
  }
  if !m.r.is_empty() {
    rep.nontrivial(&case);
  }
  rep.sample(&case);
  ok
}

pub fn run(ctx: &Ctx) -> Report {
  let mut rep = Report::default();
  let mut orc = Oracle::spawn();
  let mut rng = Rng::new(ctx.seed);
  rep.rule = "MOCs: all canonical lists over 5 slots at the coarsest useful depth at both ends of every (quantity,width) domain, declared at that depth AND at a deeper depth (unoccupied deepest levels), empty and full-domain MOCs at several depths, + structured random MOCs of all depths; formats: FITS range (in-memory writer and 4 lazy pipelines with inexact hints; structure, data bytes vs byte-level model, read back), FITS NUNIQ (space), ASCII x {fold None,10,24,80} x {a-b, a+len}, streaming ASCII x 2, JSON x {fold None,10,60}. non-trivial = non-empty MOC; distinct = distinct MOC".to_string();
  let lists = all_canonical(5);
  for q in ALL_Q {
    for w in ALL_W {
      let md = q.max_depth(w);
      let d: u8 = if q == Q::S { 0 } else { 4 };
      let sh = q.shift(w, d);
      let ncells = q.nd0() << (q.dim() * d as u32);
      for top in [false, true] {
        let off = if top { ncells - 5 } else { 0 };
        for (i, l) in lists.iter().enumerate() {
          let dd = if i % 2 == 0 { d } else { (d + 1 + (i as u8 % 3)).min(md) };
          let m = Moc { q, w, d: dd, r: l.iter().map(|(s, e)| ((s + off) << sh, (e + off) << sh)).collect() };
          check_moc(&mut rep, &mut orc, &m);
          if i % 3 == 0 {
            ascii_exact(&mut rep, &mut orc, &mut rng, &m, 1);
            stream_exact(&mut rep, &mut orc, &mut rng, &m, 1);
            json_exact(&mut rep, &mut orc, &mut rng, &m, 1);
          }
        }
      }
      for dd in [0u8, 1, md / 2, md] {
        for mm in [Moc { q, w, d: dd, r: vec![] }, Moc { q, w, d: dd, r: vec![(0, q.n_cells_max(w))] }] {
          check_moc(&mut rep, &mut orc, &mm);
          ascii_exact(&mut rep, &mut orc, &mut rng, &mm, 2);
          stream_exact(&mut rep, &mut orc, &mut rng, &mm, 2);
          json_exact(&mut rep, &mut orc, &mut rng, &mm, 2);
        }
      }
      // hand-written documents around every branch of the reader
      let c = q.c();
      for doc in asciix::crafted_1d(w, md, q.n_cells_max(w)) {
        dispatch!(q, w, |T, QQ| asciix::compare_reader_1d::<T, QQ>(&mut rep, &mut orc, c, w, &doc, "crafted"));
      }
      for doc in asciix::crafted_json_1d(w, md, q.n_cells_max(w)) {
        dispatch!(q, w, |T, QQ| asciix::compare_reader_json_1d::<T, QQ>(&mut rep, &mut orc, c, w, &doc, "crafted"));
      }
      let name = match q { Q::S => "HPX", Q::T => "TIME", Q::F => "FREQUENCY" };
      for doc in asciix::crafted_stream(name, w, md, q.n_cells_max(w)) {
        dispatch!(q, w, |T, QQ| asciix::compare_reader_stream::<T, QQ>(&mut rep, &mut orc, c, w, &doc, "crafted"));
      }
    }
  }
  rep.count("phase:exhaustive-small-scope-done");
  let n = ctx.n(1_500, 25_000);
  for _ in 0..n {
    let q = ALL_Q[rng.below(3) as usize];
    let w = ALL_W[rng.below(3) as usize];
    let md = q.max_depth(w);
    let d = rng.range(0, md as u64) as u8;
    let maxr = if rng.chance(1, 10) { 30 } else { 6 };
    let mut m = gen_moc(&mut rng, q, w, d, maxr);
    // keep the cell view small (a range of 2^40 depth-29 cells is decomposed hierarchically, fine) 
    if rng.chance(1, 4) {
      // declare a deeper depth than the one occupied
      m.d = rng.range(d as u64, md as u64) as u8;
    }
    check_moc(&mut rep, &mut orc, &m);
    ascii_exact(&mut rep, &mut orc, &mut rng, &m, 4);
    stream_exact(&mut rep, &mut orc, &mut rng, &m, 4);
    json_exact(&mut rep, &mut orc, &mut rng, &m, 3);
    rep.count(&format!("random:{}{}", q.c(), w));
  }
  rep.notes.push(format!("oracle calls: {}", orc.calls));
  rep
}
