//! C10 — ST-MOC algebra, folds and lookups follow point-set semantics.
//! HpxRanges2D::{union, intersection, difference, contains, project_on_first_dim,
//! project_on_second_dim, from_ranges_it, time_space_iter} and RangeMOC2::contains_val.
//! Results judged by extracted pts_opb + r2d_okb (C10_algebra_checker_exact,
//! C10_result_shape_checker_exact), lookups / folds compared with extracted cov2b / tfold / sfold.
use crate::c08::{panic_class, Verdict};
use crate::c09::{from_r2d, R2D};
use crate::common::*;
use crate::st::*;
use moc::elemset::range::MocRanges;
use moc::hpxranges2d::HpxRanges2D;
use moc::moc2d::{RangeMOC2IntoIterator, RangeMOC2Iterator};
use moc::mocranges2d::Moc2DRanges;
use moc::qty::{Hpx, Time};
use moc::ranges::Ranges;
use std::ops::Range;

pub fn to_r2d(m: &StMoc) -> R2D {
  let mut t: Vec<Range<u64>> = Vec::new();
  let mut s: Vec<Ranges<u64>> = Vec::new();
  for (tr, sp) in &m.elems {
    for (a, b) in tr {
      t.push(*a..*b);
      s.push(Ranges::new_unchecked(sp.iter().map(|(x, y)| *x..*y).collect()));
    }
  }
  HpxRanges2D(Moc2DRanges::<u64, Time<u64>, u64, Hpx<u64>>::new(t, s))
}
/// the same ST-MOC with one entry per time range (the range-2D view used as checker operand)
fn flat(m: &StMoc) -> StMoc {
  let mut elems = Vec::new();
  for (tr, sp) in &m.elems {
    for r in tr {
      elems.push((vec![*r], sp.clone()));
    }
  }
  StMoc { dt: m.dt, ds: m.ds, elems }
}

fn judge(orc: &mut Oracle, op: &str, out: &StMoc, a: &StMoc, b: &StMoc) -> Result<Verdict, String> {
  let line = format!("ST2R {} {} {} {} {} {}", op, out.dt, out.ds, out.wire(), a.wire(), b.wire());
  let ans = orc.ask(&line);
  let t: Vec<&str> = ans.split_whitespace().collect();
  if t.len() < 4 || t[0] != "OK" {
    return Err(format!("oracle: {} on {}", ans, line));
  }
  Ok(Verdict { valid: t[1] == "1", pts: t[2] == "1", flags: t[3].to_string() })
}

pub fn check_pair(rep: &mut Report, orc: &mut Oracle, rng: &mut Rng, a: &StMoc, b: &StMoc) {
  let case = format!("ST2D {} | {}", a.show(), b.show());
  let dt = a.dt.max(b.dt);
  let ds = a.ds.max(b.ds);
  for (op, name) in [("or", "union"), ("and", "intersection"), ("minus", "difference")] {
    rep.evaluations += 1;
    rep.count(&format!("op:{}", name));
    let (ra, rb) = (to_r2d(a), to_r2d(b));
    let r = catch(move || {
      let o = match op {
        "or" => ra.union(&rb),
        "and" => ra.intersection(&rb),
        _ => ra.difference(&rb),
      };
      from_r2d(dt, ds, &o)
    });
    let shown = format!("{} # op={}", case, name);
    // entry-for-entry comparison with the model of Ranges2D::merge (Model/Merge2D.v)
    if let Ok(out) = &r {
      let ents = |m: &StMoc| -> String {
        let f = flat(m);
        let mut s0 = format!("{}", f.elems.len());
        for (t, sp) in &f.elems {
          s0.push_str(&format!(" {} {} {}", t[0].0, t[0].1, ranges_str(sp)));
        }
        s0
      };
      let ans = orc.ask(&format!("R2DOP {} {} {}", op, ents(a), ents(b)));
      let got = format!("OK {} {}", out.elems.len(), out.elems.iter().map(|(t, sp)| format!("{} {} {}", t[0].0, t[0].1, ranges_str(sp))).collect::<Vec<_>>().join(" "));
      rep.evaluations += 1;
      if got.trim() != ans.trim() {
        rep.violation(&format!("range-2D {}: the result differs, entry for entry, from the model of Ranges2D::merge", name), &shown, &got, &ans, "C10_range2d_merge_as_written");
      }
    }
    match r {
      Err(p) => rep.violation_c(&format!("range-2D {} fails: {}", name, p), &shown, &p, "", "C10 (never fails)", &panic_class(&p)),
      Ok(out) => match judge(orc, op, &out, &flat(a), &flat(b)) {
        Err(e) => rep.violation("oracle-error", &shown, &e, "", "internal"),
        Ok(v) => {
          if !v.pts {
            rep.violation_c(&format!("range-2D {} does not cover exactly the set combination", name), &shown, &out.show(), "", "C10_algebra_checker_exact", &format!("{}|valid={}|pts=0|{}", name, v.valid as u8, v.flags));
          } else if !v.valid {
            rep.violation_c(&format!("range-2D {} result is not disjoint / increasing / fused ({})", name, v.flags), &shown, &out.show(), "", "C10_result_shape_checker_exact", &format!("{}|valid=0|pts=1|{}", name, v.flags));
          }
        }
      },
    }
  }
  // ---- conversions between the two forms
  {
    rep.evaluations += 2;
    rep.count("form-conversions");
    let ma = to_moc2(a);
    let r = catch(move || from_r2d(a.dt, a.ds, &R2D::from_ranges_it(ma.into_range_moc2_iter())));
    match r {
      Ok(out) if out == flat(a) => {}
      other => rep.violation("from_ranges_it is not the entry-per-time-range view of the ST-MOC", &case, &format!("{:?}", other.map(|o| o.show())), &flat(a).show(), "C10 (forms)"),
    }
    let ra = to_r2d(a);
    let (adt, ads) = (a.dt, a.ds);
    let r = catch(move || from_moc2(ra.time_space_iter(adt, ads).into_range_moc2()));
    match r {
      Err(p) => rep.violation_c("time_space_iter fails", &case, &p, "", "C10 (forms)", &panic_class(&p)),
      Ok(out) => {
        let line = format!("ST2 or {} {} {} {} 0", out.dt, out.ds, out.wire(), a.wire());
        let ans = orc.ask(&line);
        if !ans.starts_with("OK 1 1") {
          rep.violation("time_space_iter does not give back a valid ST-MOC covering the same pairs", &case, &out.show(), &ans, "C08_validity_checker_exact + C08_pointset_checker_exact");
        }
      }
    }
  }
  // ---- lookups: probes on every time bound of A (and B) and +-1, space bounds and +-1
  {
    let mut ts: Vec<u64> = Vec::new();
    let mut ss: Vec<u64> = Vec::new();
    let ncm_t = Q::T.n_cells_max(64);
    let ncm_s = Q::S.n_cells_max(64);
    for m in [a, b] {
      for (tr, sp) in &m.elems {
        for (x, y) in tr {
          for v in [x.saturating_sub(1), *x, x + 1, y.saturating_sub(1), *y, y + 1] {
            if v < ncm_t {
              ts.push(v);
            }
          }
        }
        for (x, y) in sp {
          for v in [x.saturating_sub(1), *x, y.saturating_sub(1), *y] {
            if v < ncm_s {
              ss.push(v);
            }
          }
        }
      }
    }
    ts.push(0);
    ts.push(ncm_t - 1);
    ss.push(0);
    ss.push(ncm_s - 1);
    let mut probes: Vec<(u64, u64)> = Vec::new();
    for _ in 0..24 {
      probes.push((*rng.pick(&ts), *rng.pick(&ss)));
    }
    let line = format!("LOOKUP {} {} {}", a.wire(), probes.len(), probes.iter().map(|(t, s)| format!("{} {}", t, s)).collect::<Vec<_>>().join(" "));
    let ans = orc.ask(&line);
    let exp: Vec<&str> = ans.split_whitespace().skip(1).collect();
    if exp.len() == probes.len() {
      let ra = to_r2d(a);
      let ma = to_moc2(a);
      for (i, (t, s)) in probes.iter().enumerate() {
        rep.evaluations += 2;
        let e = exp[i] == "1";
        let (t, s) = (*t, *s);
        let g1 = catch(|| ra.contains(t, &(s..s + 1)));
        if g1 != Ok(e) {
          let cls = match &g1 {
            Err(p) => panic_class(p),
            Ok(_) => "lookup-r2d|wrong".to_string(),
          };
          rep.violation_c("range-2D lookup differs from the covered pairs (or fails)", &format!("LOOKUP t={} s={} in {}", t, s, a.show()), &format!("{:?}", g1), &format!("{}", e), "C10_lookup", &cls);
        }
        let g2 = catch(|| ma.contains_val(&t, &s));
        if g2 != Ok(e) {
          let cls = match &g2 {
            Err(p) => panic_class(p),
            Ok(_) => "lookup-moc2|wrong".to_string(),
          };
          rep.violation_c("RangeMOC2::contains_val differs from the covered pairs (or fails)", &format!("LOOKUP t={} s={} in {}", t, s, a.show()), &format!("{:?}", g2), &format!("{}", e), "C10_lookup", &cls);
        }
      }
      rep.count("lookups");
    }
  }
  // ---- folds: time MOC / space MOC derived from B
  {
    let tm: Vec<(u64, u64)> = {
      let mut v: Vec<(u64, u64)> = b.elems.iter().flat_map(|(t, _)| t.clone()).collect();
      v.sort_unstable();
      let mut o: Vec<(u64, u64)> = Vec::new();
      for (s, e) in v {
        if let Some(l) = o.last_mut() {
          if s <= l.1 {
            l.1 = l.1.max(e);
            continue;
          }
        }
        o.push((s, e));
      }
      o
    };
    let sm: Vec<(u64, u64)> = b.elems.first().map(|(_, s)| s.clone()).unwrap_or_default();
    let ra = to_r2d(a);
    rep.evaluations += 2;
    rep.count("folds");
    let tmr: MocRanges<u64, Time<u64>> = MocRanges::new_unchecked(tm.iter().map(|(x, y)| *x..*y).collect());
    let smr: MocRanges<u64, Hpx<u64>> = MocRanges::new_unchecked(sm.iter().map(|(x, y)| *x..*y).collect());
    let g = catch(|| HpxRanges2D::project_on_second_dim(&tmr, &ra).iter().map(|r| (r.start, r.end)).collect::<Vec<_>>());
    let e = orc.ask(&format!("TFOLD {} {}", a.wire(), ranges_str(&tm)));
    let go = match &g {
      Ok(r) => format!("OK {}", ranges_str(r)),
      Err(p) => p.clone(),
    };
    if go != e {
      rep.violation("fold on a time MOC differs from the union of the space coverages at its instants", &format!("TFOLD {} | T={}", a.show(), ranges_str(&tm)), &go, &e, "C10_tfold");
    }
    let g = catch(|| HpxRanges2D::project_on_first_dim(&smr, &ra).iter().map(|r| (r.start, r.end)).collect::<Vec<_>>());
    let e = orc.ask(&format!("SFOLD {} {}", a.wire(), ranges_str(&sm)));
    let go = match &g {
      Ok(r) => format!("OK {}", ranges_str(r)),
      Err(p) => p.clone(),
    };
    if go != e {
      rep.violation("fold on a space MOC differs from the instants whose space coverage lies inside it", &format!("SFOLD {} | S={}", a.show(), ranges_str(&sm)), &go, &e, "C10_sfold");
    }
  }
  // ---- the same folds through the store front-end (U64MocStore::time_fold / space_fold), also
  //      with a space MOC DEEPER than the ST-MOC's space depth that covers only part of a coarse cell
  {
    use moc::storage::u64idx::U64MocStore;
    let st = U64MocStore::get_global_store();
    let mut smocs: Vec<(u8, Vec<(u64, u64)>)> = Vec::new();
    if let Some((_, s0)) = b.elems.first() {
      smocs.push((b.ds, s0.clone()));
    }
    if let Some((_, s0)) = a.elems.first() {
      if let Some((x, y)) = s0.first() {
        if a.ds < 29 && (y - x) >= 4 {
          // first quarter of the first range of A's first coverage: deeper, partial
          smocs.push((a.ds + 1, vec![(*x, x + (y - x) / 4)]));
          // the whole first coverage plus a quarter of something else
          let mut v = s0.clone();
          if let Some((_, s1)) = a.elems.get(1) {
            if let Some((x1, y1)) = s1.first() {
              if !s0.iter().any(|(p, q)| p < y1 && x1 < q) && (y1 - x1) >= 4 {
                v.push((*x1, x1 + (y1 - x1) / 4));
                v.sort_unstable();
              }
            }
          }
          smocs.push((a.ds + 1, v));
        }
      }
    }
    let tm: Vec<(u64, u64)> = b.elems.iter().flat_map(|(t, _)| t.clone()).take(1).collect();
    let ia = st.insert_stmoc(to_moc2(a)).unwrap();
    for (d, sm) in &smocs {
      rep.evaluations += 1;
      rep.count("folds:store");
      let is = st.insert_smoc(rm::<Hpx<u64>>(*d, sm)).unwrap();
      let r = catch(|| st.space_fold(is, ia).and_then(|i| { let v = st.to_ranges(i); let dd = st.get_tmoc_depth(i); let _ = st.drop(i); v.and_then(|v| dd.map(|dd| (dd, v))) }));
      let e = orc.ask(&format!("SFOLD {} {}", a.wire(), ranges_str(sm)));
      let go = match &r {
        Ok(Ok((dd, v))) => format!("depth {} OK {}", dd, ranges_str(&v.iter().map(|r| (r.start, r.end)).collect::<Vec<_>>())),
        other => format!("{:?}", other),
      };
      if go != format!("depth {} {}", a.dt, e) {
        rep.violation("store space_fold differs from the instants whose space coverage lies inside the S-MOC", &format!("SFOLD(store) {} | S(depth {})={}", a.show(), d, ranges_str(sm)), &go, &format!("depth {} {}", a.dt, e), "C10_sfold");
      }
      let _ = st.drop(is);
      // ... and through the command line (`moc op sfold`), the third observation point of the property
      cli_fold(rep, orc, a, "sfold", Q::S, *d, sm);
    }
    if !tm.is_empty() {
      cli_fold(rep, orc, a, "tfold", Q::T, a.dt, &tm);
    }
    if !tm.is_empty() {
      rep.evaluations += 1;
      let it = st.insert_tmoc(rm::<Time<u64>>(b.dt, &tm)).unwrap();
      let r = catch(|| st.time_fold(it, ia).and_then(|i| { let v = st.to_ranges(i); let dd = st.get_smoc_depth(i); let _ = st.drop(i); v.and_then(|v| dd.map(|dd| (dd, v))) }));
      let e = orc.ask(&format!("TFOLD {} {}", a.wire(), ranges_str(&tm)));
      let go = match &r {
        Ok(Ok((dd, v))) => format!("depth {} OK {}", dd, ranges_str(&v.iter().map(|r| (r.start, r.end)).collect::<Vec<_>>())),
        other => format!("{:?}", other),
      };
      if go != format!("depth {} {}", a.ds, e) {
        rep.violation("store time_fold differs from the union of the space coverages at the instants of the T-MOC", &format!("TFOLD(store) {} | T={}", a.show(), ranges_str(&tm)), &go, &format!("depth {} {}", a.ds, e), "C10_tfold");
      }
      let _ = st.drop(it);
    }
    let _ = st.drop(ia);
  }
  if !a.elems.is_empty() && !b.elems.is_empty() {
    rep.nontrivial(&case);
  }
  rep.sample(&case);
}

pub fn run(ctx: &Ctx) -> Report {
  let mut rep = Report::default();
  let mut orc = Oracle::spawn();
  let mut rng = Rng::new(ctx.seed);
  rep.rule = "pairs of valid ST-MOCs (same population as C08: 4-10 time slots at the bottom or top of the time domain, <= 4 elements, <= 3 time ranges per element, 8 space coverages, touching time ranges with different coverage, A = B, empty operands); for each pair: union / intersection / difference through HpxRanges2D (judged by extracted pts_opb + r2d_okb), conversions between the two forms, 24 lookups on and around every shared time and space bound through HpxRanges2D::contains and RangeMOC2::contains_val, folds on a time MOC and on a space MOC derived from the other operand. non-trivial = both operands non-empty; distinct = distinct pair".to_string();
  let n = ctx.n(2_500, 100_000);
  for i in 0..n {
    let dt = *rng.pick(&[0u8, 3, 10, 61]);
    let ds = *rng.pick(&[0u8, 1, 5, 29]);
    let ncells = 2u64 << dt;
    let nslots = rng.range(4, 10).min(ncells);
    let base = if rng.chance(1, 2) { 0 } else { ncells - nslots };
    let a = gen_stmoc(&mut rng, dt, ds, nslots, base, 4, 3);
    let b = if i % 17 == 0 { a.clone() } else { gen_stmoc(&mut rng, dt, ds, nslots, base, 4, 3) };
    check_pair(&mut rep, &mut orc, &mut rng, &a, &b);
    check_pair(&mut rep, &mut orc, &mut rng, &b, &a);
  }
  rep.notes.push(format!("oracle calls: {}", orc.calls));
  rep
}


/// `moc op tfold|sfold <selector.fits> <st.fits> ascii <out>` with the real binary, compared with the extracted fold
fn cli_fold(rep: &mut Report, orc: &mut Oracle, a: &StMoc, name: &str, q: Q, d: u8, sel: &[(u64, u64)]) {
  let bin = match std::env::var("VERIF_BIN_DIR") {
    Ok(b) => std::path::PathBuf::from(b).join("moc"),
    Err(_) => return,
  };
  if !bin.exists() {
    rep.count("folds:cli-not-built");
    return;
  }
  // one call in eight goes through the command line (a process per call)
  {
    use std::sync::atomic::{AtomicU64, Ordering};
    static N: AtomicU64 = AtomicU64::new(0);
    if N.fetch_add(1, Ordering::Relaxed) % 8 != 0 {
      return;
    }
  }
  let scratch = std::env::var("VERIF_SCRATCH").unwrap_or_else(|_| std::env::temp_dir().display().to_string());
  let _ = std::fs::create_dir_all(&scratch);
  let (ps, pa, out) = (format!("{}/c10_sel.fits", scratch), format!("{}/c10_st.fits", scratch), format!("{}/c10_out.txt", scratch));
  let _ = std::fs::remove_file(&out);
  let selm = Moc { q, w: 64, d, r: sel.to_vec() };
  if std::fs::write(&ps, crate::c19::fits_bytes(&selm, 64, false)).is_err() || std::fs::write(&pa, crate::c19::st_fits(a)).is_err() {
    return;
  }
  rep.evaluations += 1;
  rep.count(&format!("folds:cli:{}", name));
  let line = format!("{} {} {}", if name == "tfold" { "TFOLD" } else { "SFOLD" }, a.wire(), ranges_str(sel));
  let case = format!("{} # moc op {} <selector depth {}> <ST {}> ascii", line, name, d, a.show());
  let res = std::process::Command::new(&bin).args(["op", name, &ps, &pa, "ascii", &out]).output();
  let exp = orc.ask(&line);
  match res {
    Ok(o) => {
      let qo = if name == "tfold" { Q::S } else { Q::T };
      let got = crate::c19::decode_out(qo, "ascii", std::path::Path::new(&out)).map(|(_, _, r)| format!("OK {}", ranges_str(&r)));
      if !o.status.success() || got.as_deref() != Ok(exp.as_str()) {
        rep.violation(&format!("`moc op {}` does not return the fold of the ST-MOC", name), &case, &format!("exit {:?} {:?} {}", o.status.code(), got, String::from_utf8_lossy(&o.stderr).chars().take(200).collect::<String>()), &exp, "C10_tfold / C10_sfold");
      }
    }
    Err(e) => rep.notes.push(format!("moc could not be run: {}", e)),
  }
}
