//! C01 — 1-D operators compute exactly the set-theoretic result.
//! Implementation under test: eager RangeMOC methods, SNORanges primitives
//! (union / intersection / difference / merge(xor) / complement / degraded),
//! lazy operators fed by each of the five source kinds.
//! Oracle: extracted Ops1D.moc_op2 / moc_not / moc_degrade (Coq theorems
//! C01_binary_ops_set_semantics, C01_complement_set_semantics,
//! C01_degrade_set_semantics, C01_result_unique).
use crate::common::*;
use crate::dispatch;
use crate::iters::*;
use moc::idx::Idx;
use moc::moc::range::RangeMOC;
use moc::moc::{HasMaxDepth, RangeMOCIterator};
use moc::ranges::SNORanges;
use moc::elemset::range::MocRanges;

pub const OPS: [&str; 4] = ["and", "or", "xor", "minus"];

fn parse_ok_moc(ans: &str) -> Option<(u8, Vec<(u64, u64)>)> {
  let mut t = ans.split_whitespace();
  if t.next()? != "OK" {
    return None;
  }
  let d: u8 = t.next()?.parse().ok()?;
  let n: usize = t.next()?.parse().ok()?;
  let mut r = Vec::with_capacity(n);
  for _ in 0..n {
    let s: u64 = t.next()?.parse().ok()?;
    let e: u64 = t.next()?.parse().ok()?;
    r.push((s, e));
  }
  Some((d, r))
}

/// All implementation variants of binary op `op` on (a, b): returns (variant name, Ok((depth, ranges)) | Err(panic))
fn impl_op2<T: Idx, QQ: Inst<T>>(op: &str, a: &Moc, b: &Moc, kinds: &[(u64, u64)]) -> Vec<(String, Result<(u8, Vec<(u64, u64)>), String>)> {
  let ma: RangeMOC<T, QQ> = to_range_moc(a);
  let mb: RangeMOC<T, QQ> = to_range_moc(b);
  let mut out = Vec::new();
  let q = a.q;
  // eager
  {
    let (ma, mb) = (ma.clone(), mb.clone());
    let op2 = op.to_string();
    let r = catch(move || {
      let m = match op2.as_str() {
        "and" => ma.and(&mb),
        "or" => ma.or(&mb),
        "xor" => ma.xor(&mb),
        _ => ma.minus(&mb),
      };
      let m = from_range_moc(q, &m);
      (m.d, m.r)
    });
    out.push(("eager".to_string(), r));
  }
  // primitive on MocRanges (depth is not part of the primitive: report max)
  {
    let (ma, mb) = (ma.clone(), mb.clone());
    let op2 = op.to_string();
    let dmax = a.d.max(b.d);
    let r = catch(move || {
      let (ra, rb): (&MocRanges<T, QQ>, &MocRanges<T, QQ>) = (ma.moc_ranges(), mb.moc_ranges());
      let res: MocRanges<T, QQ> = match op2.as_str() {
        "and" => ra.intersection(rb),
        "or" => ra.union(rb),
        "xor" => ra.merge(rb, |x, y| x != y),
        _ => ra.difference(rb),
      };
      (dmax, res.iter().map(|r| (r.start.to_u64(), r.end.to_u64())).collect::<Vec<_>>())
    });
    out.push(("primitive".to_string(), r));
  }
  // generic merge primitive for and/or too
  if op == "and" || op == "or" {
    let (ma, mb) = (ma.clone(), mb.clone());
    let is_and = op == "and";
    let dmax = a.d.max(b.d);
    let r = catch(move || {
      let res: MocRanges<T, QQ> = if is_and {
        ma.moc_ranges().merge(mb.moc_ranges(), |x, y| x && y)
      } else {
        ma.moc_ranges().merge(mb.moc_ranges(), |x, y| x || y)
      };
      (dmax, res.iter().map(|r| (r.start.to_u64(), r.end.to_u64())).collect::<Vec<_>>())
    });
    out.push(("merge".to_string(), r));
  }
  // lazy for the requested source kind pairs
  for &(ka, kb) in kinds {
    let (ma, mb) = (ma.clone(), mb.clone());
    let op2 = op.to_string();
    let r = catch(move || {
      let la = leaf(ka, &ma);
      let lb = leaf(kb, &mb);
      match op2.as_str() {
        "and" => {
          let it = la.and(lb);
          (it.depth_max(), ranges_of(it))
        }
        "or" => {
          let it = la.or(lb);
          (it.depth_max(), ranges_of(it))
        }
        "xor" => {
          let it = la.xor(lb);
          (it.depth_max(), ranges_of(it))
        }
        _ => {
          let it = la.minus(lb);
          (it.depth_max(), ranges_of(it))
        }
      }
    });
    out.push((format!("lazy:{}x{}", SRC_NAMES[ka as usize], SRC_NAMES[kb as usize]), r));
  }
  out
}

fn impl_op1<T: Idx, QQ: Inst<T>>(a: &Moc, target: u8, kind: u64) -> Vec<(String, String, Result<(u8, Vec<(u64, u64)>), String>)> {
  // returns (opname for oracle, variant, result)
  let ma: RangeMOC<T, QQ> = to_range_moc(a);
  let q = a.q;
  let mut out = Vec::new();
  {
    let ma = ma.clone();
    out.push(("not".to_string(), "eager".to_string(), catch(move || {
      let m = from_range_moc(q, &ma.not());
      (m.d, m.r)
    })));
  }
  {
    let ma = ma.clone();
    out.push(("not".to_string(), format!("lazy:{}", SRC_NAMES[kind as usize]), catch(move || {
      let it = leaf(kind, &ma).not();
      (it.depth_max(), ranges_of(it))
    })));
  }
  {
    let ma = ma.clone();
    out.push(("deg".to_string(), "eager".to_string(), catch(move || {
      let m = from_range_moc(q, &ma.degraded(target));
      (m.d, m.r)
    })));
  }
  {
    let ma = ma.clone();
    out.push(("deg".to_string(), format!("lazy:{}", SRC_NAMES[kind as usize]), catch(move || {
      let it = leaf(kind, &ma).degrade(target);
      (it.depth_max(), ranges_of(it))
    })));
  }
  out
}

pub fn check_pair(ctx: &Ctx, rep: &mut Report, orc: &mut Oracle, a: &Moc, b: &Moc, kinds: &[(u64, u64)], ops: &[&str]) -> bool {
  let _ = ctx;
  let mut ok = true;
  for op in ops {
    let case = format!("OP2 {} {} {} {} {}", op, a.q.c(), a.w, a.dr(), b.dr());
    let ans = orc.ask(&case);
    let exp = match parse_ok_moc(&ans) {
      Some(x) => x,
      None => {
        rep.violation("oracle-error", &case, "", &ans, "internal");
        return false;
      }
    };
    let res = dispatch!(a.q, a.w, |T, QQ| impl_op2::<T, QQ>(op, a, b, kinds));
    for (variant, r) in res {
      rep.evaluations += 1;
      rep.count(&format!("op2:{}", op));
      let obs = match &r {
        Ok((d, rr)) => format!("OK {} {}", d, ranges_str(rr)),
        Err(p) => p.clone(),
      };
      if r.as_ref().ok() != Some(&exp) {
        ok = false;
        rep.violation(
          &format!("{} ({}) differs from the set-theoretic result", op, variant),
          &format!("{} # variant={}", case, variant),
          &obs,
          &ans,
          "C01_binary_ops_set_semantics + C01_result_unique",
        );
      }
    }
    if !a.r.is_empty() && !b.r.is_empty() {
      rep.nontrivial(&case);
    }
    rep.sample(&format!("{} => {}", case, ans));
  }
  ok
}

pub fn check_unary(rep: &mut Report, orc: &mut Oracle, a: &Moc, target: u8, kind: u64) -> bool {
  let mut ok = true;
  let case_not = format!("NOT {} {} {}", a.q.c(), a.w, a.dr());
  let case_deg = format!("DEG {} {} {} {}", a.q.c(), a.w, a.dr(), target);
  let ans_not = orc.ask(&case_not);
  let ans_deg = orc.ask(&case_deg);
  let (exp_not, exp_deg) = match (parse_ok_moc(&ans_not), parse_ok_moc(&ans_deg)) {
    (Some(x), Some(y)) => (x, y),
    _ => {
      rep.violation("oracle-error", &case_not, "", &format!("{} / {}", ans_not, ans_deg), "internal");
      return false;
    }
  };
  let res = dispatch!(a.q, a.w, |T, QQ| impl_op1::<T, QQ>(a, target, kind));
  for (opn, variant, r) in res {
    rep.evaluations += 1;
    rep.count(&format!("op1:{}", opn));
    let (exp, case, ans, thm) = if opn == "not" {
      (&exp_not, &case_not, &ans_not, "C01_complement_set_semantics + C01_result_unique")
    } else {
      (&exp_deg, &case_deg, &ans_deg, "C01_degrade_set_semantics + C01_result_unique")
    };
    let obs = match &r {
      Ok((d, rr)) => format!("OK {} {}", d, ranges_str(rr)),
      Err(p) => p.clone(),
    };
    if r.as_ref().ok() != Some(exp) {
      ok = false;
      rep.violation(&format!("{} ({}) differs from the set-theoretic result", opn, variant), &format!("{} # variant={}", case, variant), &obs, ans, thm);
    }
  }
  if !a.r.is_empty() {
    rep.nontrivial(&case_not);
    rep.nontrivial(&case_deg);
  }
  ok
}

/// Operators fed by another lazy operator (degrade / not of a leaf, and / or / xor / minus of two leaves) rather than by a leaf:
/// "whatever kind of source feeds it".  The oracle operand is the reference result of the feeder.
fn lazy_fed<T: Idx, QQ: Inst<T>>(op: &str, feeder: u8, t: u8, a: &Moc, b: &Moc, ka: u64, kb: u64, fed_left: bool) -> Result<(u8, Vec<(u64, u64)>), String> {
  let ma: RangeMOC<T, QQ> = to_range_moc(a);
  let mb: RangeMOC<T, QQ> = to_range_moc(b);
  let op2 = op.to_string();
  catch(move || {
    // feeders 2..5: a binary lazy operator over (a, b) whose right operand comes from source kind kc
    let kc = (kb + 3) % N_SRC_KINDS;
    let fa: DynIt<T, QQ> = match feeder {
      0 => DynIt::new(leaf(ka, &ma).degrade(t)),
      1 => DynIt::new(leaf(ka, &ma).not()),
      2 => DynIt::new(leaf(ka, &ma).and(leaf(kc, &mb))),
      3 => DynIt::new(leaf(ka, &ma).or(leaf(kc, &mb))),
      4 => DynIt::new(leaf(ka, &ma).xor(leaf(kc, &mb))),
      _ => DynIt::new(leaf(ka, &ma).minus(leaf(kc, &mb))),
    };
    let lb = leaf(kb, &mb);
    let (l, r) = if fed_left { (fa, lb) } else { (lb, fa) };
    match op2.as_str() {
      "and" => { let it = l.and(r); (it.depth_max(), ranges_of(it)) }
      "or" => { let it = l.or(r); (it.depth_max(), ranges_of(it)) }
      "xor" => { let it = l.xor(r); (it.depth_max(), ranges_of(it)) }
      _ => { let it = l.minus(r); (it.depth_max(), ranges_of(it)) }
    }
  })
}

pub fn check_fed(rep: &mut Report, orc: &mut Oracle, a: &Moc, b: &Moc, t: u8, ka: u64, kb: u64) -> bool {
  let mut ok = true;
  const FEEDERS: [&str; 6] = ["degrade", "not", "and", "or", "xor", "minus"];
  for feeder in [0u8, 1, 2, 3, 4, 5] {
    let fcase = match feeder {
      0 => format!("DEG {} {} {} {}", a.q.c(), a.w, a.dr(), t),
      1 => format!("NOT {} {} {}", a.q.c(), a.w, a.dr()),
      _ => format!("OP2 {} {} {} {} {}", FEEDERS[feeder as usize], a.q.c(), a.w, a.dr(), b.dr()),
    };
    let fans = orc.ask(&fcase);
    let fa = match parse_ok_moc(&fans) {
      Some((d, r)) => Moc { q: a.q, w: a.w, d, r },
      None => return false,
    };
    for op in OPS {
      for fed_left in [true, false] {
        let (l, r) = if fed_left { (&fa, b) } else { (b, &fa) };
        let case = format!("OP2 {} {} {} {} {}", op, a.q.c(), a.w, l.dr(), r.dr());
        let ans = orc.ask(&case);
        let exp = match parse_ok_moc(&ans) {
          Some(x) => x,
          None => return false,
        };
        let got = dispatch!(a.q, a.w, |T, QQ| lazy_fed::<T, QQ>(op, feeder, t, a, b, ka, kb, fed_left));
        rep.evaluations += 1;
        rep.count("op2-fed-by-lazy-operator");
        if got.as_ref().ok() != Some(&exp) {
          ok = false;
          let obs = match &got {
            Ok((d, rr)) => format!("OK {} {}", d, ranges_str(rr)),
            Err(p) => p.clone(),
          };
          rep.violation(
            &format!("lazy {} fed by lazy {} differs from the set-theoretic result", op, FEEDERS[feeder as usize]),
            &format!("{} # feeder={} of {}[{}] (target {}; binary feeders: right operand = the other operand from source kind (kb+3)%5) on the {} side, other operand {}", case, FEEDERS[feeder as usize], SRC_NAMES[ka as usize], a.dr(), t, if fed_left { "left" } else { "right" }, SRC_NAMES[kb as usize]),
            &obs, &ans, "C01_binary_ops_set_semantics + C01_degrade_set_semantics / C01_complement_set_semantics");
        }
      }
    }
  }
  ok
}

fn all_kind_pairs() -> Vec<(u64, u64)> {
  let mut v = Vec::new();
  for i in 0..N_SRC_KINDS {
    for j in 0..N_SRC_KINDS {
      v.push((i, j));
    }
  }
  v
}

/// shrink a failing pair by dropping ranges while it still fails
fn shrink_pair(ctx: &Ctx, orc: &mut Oracle, a: &Moc, b: &Moc, kinds: &[(u64, u64)], ops: &[&str]) -> (Moc, Moc) {
  let mut a = a.clone();
  let mut b = b.clone();
  let fails = |a: &Moc, b: &Moc, orc: &mut Oracle| {
    let mut tmp = Report::default();
    !check_pair(ctx, &mut tmp, orc, a, b, kinds, ops)
  };
  let mut progress = true;
  while progress {
    progress = false;
    for i in 0..a.r.len() {
      let mut a2 = a.clone();
      a2.r.remove(i);
      if fails(&a2, &b, orc) {
        a = a2;
        progress = true;
        break;
      }
    }
    for i in 0..b.r.len() {
      let mut b2 = b.clone();
      b2.r.remove(i);
      if fails(&a, &b2, orc) {
        b = b2;
        progress = true;
        break;
      }
    }
  }
  (a, b)
}

pub fn run(ctx: &Ctx) -> Report {
  let mut rep = Report::default();
  let mut orc = Oracle::spawn();
  let mut rng = Rng::new(ctx.seed);
  rep.rule = "exhaustive: all pairs of canonical range lists over a 5-slot (quick) / 8-slot (thorough) domain at the coarsest alignment, mapped to the bottom and to the top of the real domain of each (quantity,width), x {and,or,xor,minus} x {eager, primitive, merge, lazy over source-kind pairs} + not/degrade; random: structured pairs (related shapes: equal, gaps, touching, separated, nested, interleaved, independent), <= 40 ranges, all depths. non-trivial = both operands non-empty; distinct = distinct oracle case line".to_string();
  if let Err(e) = selftest_constants() {
    rep.violation("constants", "selftest", &e, "", "Qty.max_depths");
    return rep;
  }
  let ops: Vec<&str> = OPS.to_vec();
  let kp_all = all_kind_pairs();

  // replay mode
  if let Some(line) = &ctx.replay {
    if let Some((a, b)) = parse_case_pair(line) {
      check_pair(ctx, &mut rep, &mut orc, &a, &b, &kp_all, &ops);
    }
    return rep;
  }

  // ---- exhaustive small scope
  let nslots = if ctx.thorough { 8 } else { 5 };
  let lists = all_canonical(nslots);
  let mut first_fail: Option<(Moc, Moc)> = None;
  for q in ALL_Q {
    for w in ALL_W {
      // depth 0 cells for time/freq = 2, for hpx 12: use a depth where >= nslots cells exist
      let d: u8 = match q {
        Q::S => 0,
        _ => 4,
      };
      let sh = q.shift(w, d);
      let ncells = q.nd0() << (q.dim() * d as u32);
      for top in [false, true] {
        let off = if top { ncells - nslots as u64 } else { 0 };
        let mk = |l: &Vec<(u64, u64)>| Moc { q, w, d, r: l.iter().map(|(s, e)| ((s + off) << sh, (e + off) << sh)).collect() };
        // to bound the cost the source-kind pair rotates with the pair index
        let mut idx = 0usize;
        for la in &lists {
          let a = mk(la);
          // quick: only a rotating subset of w/q get the full cross product
          for lb in &lists {
            let b = mk(lb);
            idx += 1;
            let kinds = [kp_all[idx % kp_all.len()]];
            if !check_pair(ctx, &mut rep, &mut orc, &a, &b, &kinds, &ops) && first_fail.is_none() {
              first_fail = Some((a.clone(), b.clone()));
            }
          }
          check_unary(&mut rep, &mut orc, &a, (idx % 6) as u8, (idx as u64) % N_SRC_KINDS);
        }
      }
    }
  }
  rep.exhaustive = false;
  rep.count("phase:exhaustive-small-scope-done");

  // ---- random structured pairs
  let n = ctx.n(6_000, 150_000);
  for i in 0..n {
    let q = ALL_Q[rng.below(3) as usize];
    let w = ALL_W[rng.below(3) as usize];
    let md = q.max_depth(w);
    let da = rng.range(0, md as u64) as u8;
    let db = if rng.chance(1, 3) { da } else { rng.range(0, md as u64) as u8 };
    let maxr = if rng.chance(1, 10) { 40 } else { 6 };
    let a = gen_moc(&mut rng, q, w, da, maxr);
    let b = gen_related(&mut rng, &a, db, maxr);
    let (a, b) = if rng.chance(1, 2) { (a, b) } else { (b, a) };
    let kinds = if i % 50 == 0 { kp_all.clone() } else { vec![(rng.below(N_SRC_KINDS), rng.below(N_SRC_KINDS))] };
    if !check_pair(ctx, &mut rep, &mut orc, &a, &b, &kinds, &ops) && first_fail.is_none() {
      first_fail = Some((a.clone(), b.clone()));
    }
    let t = rng.range(0, md as u64) as u8;
    let ku = rng.below(N_SRC_KINDS);
    check_unary(&mut rep, &mut orc, &a, t, ku);
    if i % 4 == 0 {
      let tf = rng.range(0, a.d as u64) as u8;
      let (ka, kb) = (rng.below(N_SRC_KINDS), rng.below(N_SRC_KINDS));
      check_fed(&mut rep, &mut orc, &a, &b, tf, ka, kb);
    }
    rep.count(&format!("random:{}{}", q.c(), w));
  }
  // shrink the first failing pair and report it first
  if let Some((a, b)) = first_fail {
    let (sa, sb) = shrink_pair(ctx, &mut orc, &a, &b, &kp_all, &ops);
    let mut tmp = Report::default();
    check_pair(ctx, &mut tmp, &mut orc, &sa, &sb, &kp_all, &ops);
    let mut v = tmp.violations;
    for x in v.iter_mut() {
      x.what = format!("[shrunk] {}", x.what);
    }
    v.append(&mut rep.violations);
    rep.violations = v;
  }
  rep.notes.push(format!("oracle calls: {}", orc.calls));
  rep
}

/// parse "OP2 op q w dA nA .. dB nB .." back into a pair (used by --replay)
pub fn parse_case_pair(line: &str) -> Option<(Moc, Moc)> {
  let line = line.split('#').next()?;
  let mut t = line.split_whitespace();
  if t.next()? != "OP2" {
    return None;
  }
  let _op = t.next()?;
  let q = match t.next()? {
    "s" => Q::S,
    "t" => Q::T,
    _ => Q::F,
  };
  let w: u8 = t.next()?.parse().ok()?;
  let mut rd = |t: &mut std::str::SplitWhitespace| -> Option<Moc> {
    let d: u8 = t.next()?.parse().ok()?;
    let n: usize = t.next()?.parse().ok()?;
    let mut r = Vec::new();
    for _ in 0..n {
      r.push((t.next()?.parse().ok()?, t.next()?.parse().ok()?));
    }
    Some(Moc { q, w, d, r })
  };
  let a = rd(&mut t)?;
  let b = rd(&mut t)?;
  Some((a, b))
}
