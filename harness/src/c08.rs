//! C08 — streaming ST-MOC union is the union of the (time x space) point sets.
//! The implementation's output is an INPUT of the extracted verified checkers
//! ST.valid2db (C08_validity_checker_exact) and ST.pts_opb OOr (C08_pointset_checker_exact).
use crate::common::*;
use crate::st::*;
use moc::moc2d::{HasTwoMaxDepth, RangeMOC2IntoIterator, RangeMOC2Iterator};

pub struct Verdict {
  pub valid: bool,
  pub pts: bool,
  pub flags: String,
}

/// ask the oracle to judge `out` as result of `op` on (a, b)
pub fn judge(orc: &mut Oracle, op: &str, out: &StMoc, a: &StMoc, b: &StMoc) -> Result<Verdict, String> {
  let line = format!("ST2 {} {} {} {} {} {}", op, out.dt, out.ds, out.wire(), a.wire(), b.wire());
  let ans = orc.ask(&line);
  let t: Vec<&str> = ans.split_whitespace().collect();
  if t.len() < 4 || t[0] != "OK" {
    return Err(format!("oracle: {} on {}", ans, line));
  }
  Ok(Verdict { valid: t[1] == "1", pts: t[2] == "1", flags: t[3].to_string() })
}

/// the result with, per element, the depths its two MOCs DECLARE, and the elements whose ranges are
/// not aligned on the cells of the declared depth (such a MOC is not a valid MOC of that depth)
fn from_moc2_labels(m: M2) -> (StMoc, Vec<String>) {
  use moc::moc::HasMaxDepth;
  let dt = m.depth_max_1();
  let ds = m.depth_max_2();
  let mut bad = Vec::new();
  let mut elems = Vec::new();
  for (k, e) in m.into_range_moc2_iter().enumerate() {
    let (t, s) = e.mocs();
    let (lt, ls) = (t.depth_max(), s.depth_max());
    let tr: Vec<(u64, u64)> = t.moc_ranges().iter().map(|r| (r.start, r.end)).collect();
    let sr: Vec<(u64, u64)> = s.moc_ranges().iter().map(|r| (r.start, r.end)).collect();
    let mt = (1u64 << Q::T.shift(64, lt.min(61))) - 1;
    let ms = (1u64 << Q::S.shift(64, ls.min(29))) - 1;
    if lt > dt || tr.iter().any(|(a, b)| a & mt != 0 || b & mt != 0) {
      bad.push(format!("element {}: time MOC declares depth {} (result depth {}), ranges {:?}", k, lt, dt, tr));
    }
    if ls > ds || sr.iter().any(|(a, b)| a & ms != 0 || b & ms != 0) {
      bad.push(format!("element {}: space MOC declares depth {} (result depth {}), ranges {:?}", k, ls, ds, sr));
    }
    elems.push((tr, sr));
  }
  (StMoc { dt, ds, elems }, bad)
}

fn variants(a: &StMoc, b: &StMoc) -> Vec<(String, Result<(StMoc, Vec<String>), String>)> {
  let mut out = Vec::new();
  {
    let (ma, mb) = (to_moc2(a), to_moc2(b));
    out.push(("or(&,&)".to_string(), catch(move || from_moc2_labels(ma.or(&mb)))));
  }
  {
    let (ma, mb) = (to_moc2(a), to_moc2(b));
    out.push(("into_or(owned)".to_string(), catch(move || from_moc2_labels(ma.into_or(mb)))));
  }
  {
    let (ma, mb) = (to_moc2(a), to_moc2(b));
    out.push(("iterators(owned.or(borrowed))".to_string(), catch(move || {
      let it = ma.into_range_moc2_iter().or((&mb).into_range_moc2_iter());
      from_moc2_labels(it.into_range_moc2())
    })));
  }
  out
}

/// class of a panic: source file (without line number) + message with numbers abstracted
pub fn panic_class(p: &str) -> String {
  let mut parts = p.rsplitn(2, " @ ");
  let loc = parts.next().unwrap_or("");
  let msg = parts.next().unwrap_or(p);
  let file = loc.rsplitn(2, ':').last().unwrap_or(loc).replace("/repo/", "");
  let msg: String = msg.chars().map(|c| if c.is_ascii_digit() { '#' } else { c }).collect();
  let msg: String = msg.chars().take(90).collect();
  format!("panic|{}|{}", file, msg.trim())
}

/// classification string of a failure (used for known-findings matching)
pub fn classify(site: &str, v: &Verdict) -> String {
  format!("{}|valid={}|pts={}|{}", site, v.valid as u8, v.pts as u8, v.flags)
}

/// "sep" when one operand lies entirely before the other on the time axis (touching allowed) or one
/// is empty, "mix" when their time supports interleave: the known defects of the state machine (D10)
/// all need interleaved operands
fn time_relation(a: &StMoc, b: &StMoc) -> &'static str {
  let span = |m: &StMoc| -> Option<(u64, u64)> {
    let lo = m.elems.iter().flat_map(|(t, _)| t.iter().map(|r| r.0)).min()?;
    let hi = m.elems.iter().flat_map(|(t, _)| t.iter().map(|r| r.1)).max()?;
    Some((lo, hi))
  };
  match (span(a), span(b)) {
    (Some((la, ha)), Some((lb, hb))) => {
      if ha <= lb || hb <= la {
        "sep"
      } else {
        "mix"
      }
    }
    _ => "sep",
  }
}

pub fn check_pair(rep: &mut Report, orc: &mut Oracle, a: &StMoc, b: &StMoc) -> bool {
  let mut ok = true;
  let case = format!("STOR {} | {}", a.show(), b.show());
  let site = format!("or|{}", time_relation(a, b));
  let mut first_out: Option<(String, StMoc)> = None;
  for (name, r) in variants(a, b) {
    rep.evaluations += 1;
    rep.count("union-variant");
    match r {
      Err(p) => {
        ok = false;
        rep.violation_c(&format!("ST union ({}) fails: {}", name, p), &format!("{} # variant={}", case, name), &p, "", "C08 terminates without failure", &format!("{}|{}", panic_class(&p), time_relation(a, b)));
      }
      Ok((out, bad_labels)) => {
        if let Some(bl) = bad_labels.first() {
          ok = false;
          rep.violation_c("ST union: an element's MOC is not a valid MOC of the depth it declares (ranges cut finer than the declared depth)", &format!("{} # variant={}", case, name), bl, "every element MOC valid at its declared depth <= the result's depth", "C08_validity_checker_exact (valid MOCs)", "or|elem-depth-label");
        }
        let dt = a.dt.max(b.dt);
        let ds = a.ds.max(b.ds);
        if (out.dt, out.ds) != (dt, ds) {
          ok = false;
          rep.violation("ST union depths are not the maxima of the operands'", &format!("{} # variant={}", case, name), &format!("({}, {})", out.dt, out.ds), &format!("({}, {})", dt, ds), "C08 depths");
        }
        // whichever form is used: the three forms must return the same ST-MOC
        match &first_out {
          None => first_out = Some((name.clone(), out.clone())),
          Some((n0, o0)) => {
            if *o0 != out {
              ok = false;
              rep.violation("the forms of the ST union disagree on the same operands", &format!("{} # variants={} vs {}", case, n0, name), &out.show(), &o0.show(), "C08 (whichever of the in-memory or iterator forms is used)");
            }
          }
        }
        match judge(orc, "or", &out, a, b) {
          Err(e) => {
            ok = false;
            rep.violation("oracle-error", &case, &e, "", "internal");
          }
          Ok(v) => {
            if !v.pts {
              ok = false;
              rep.violation_c("ST union does not cover exactly the pairs covered by A or B", &format!("{} # variant={}", case, name), &out.show(), "", "C08_pointset_checker_exact", &classify(&site, &v));
            } else if !v.valid {
              ok = false;
              rep.violation_c(&format!("ST union result is not a valid ST-MOC ({})", v.flags), &format!("{} # variant={}", case, name), &out.show(), "", "C08_validity_checker_exact", &classify(&site, &v));
            }
          }
        }
      }
    }
  }
  if !a.elems.is_empty() && !b.elems.is_empty() {
    rep.nontrivial(&case);
  }
  rep.sample(&case);
  ok
}

pub fn run(ctx: &Ctx) -> Report {
  let mut rep = Report::default();
  let mut orc = Oracle::spawn();
  let mut rng = Rng::new(ctx.seed);
  rep.rule = "pairs of valid ST-MOCs (u64 time x u64 space) over a time axis of 6-10 slots at the bottom or top of the time domain, <= 4 elements per operand, <= 3 time ranges per element, space parts drawn from 8 small S-MOCs realising equal / nested / overlapping / disjoint / full-sky; both operand orders; one pair in four separated on the time axis (touching or not, equal space parts at the junction in half of them), one pair in five with an operand one level deeper on the time axis (its bounds cut the other's cells), the depth every element MOC declares is checked against its ranges; or(&,&), into_or, iterator form; empty operands and A=B included; plus the pairs of an exhaustive small scope (every coverage function over 4 time slots x 2 space cells, single-range elements; quick: every 37th pair, thorough: all 65536). The three forms must return the same ST-MOC. Each output is judged by the extracted checkers valid2db and pts_opb(or). non-trivial = both operands non-empty; distinct = distinct pair".to_string();
  // exhaustive small scope: every pair of "space coverage as a function of the time slot" over
  // 4 time slots x 2 space cells (256 x 256 functions; consecutive slots with the same non-empty
  // coverage form one single-range element), both operand orders are covered by the enumeration.
  // quick: a stride coprime with 256 samples the pairs; thorough: all of them
  {
    let (dt, ds) = (3u8, 0u8);
    let sh_t = Q::T.shift(64, dt);
    let sh_s = Q::S.shift(64, ds);
    let mk = |f: u32| -> StMoc {
      let mut elems: Vec<(Vec<(u64, u64)>, Vec<(u64, u64)>)> = Vec::new();
      let mut slot = 0u64;
      while slot < 4 {
        let m = (f >> (2 * slot)) & 3;
        if m == 0 {
          slot += 1;
          continue;
        }
        let mut end = slot + 1;
        while end < 4 && (f >> (2 * end)) & 3 == m {
          end += 1;
        }
        let s: Vec<(u64, u64)> = match m {
          1 => vec![(0, 1 << sh_s)],
          2 => vec![(2 << sh_s, 3 << sh_s)],
          _ => vec![(0, 1 << sh_s), (2 << sh_s, 3 << sh_s)],
        };
        elems.push((vec![(slot << sh_t, end << sh_t)], s));
        slot = end;
      }
      StMoc { dt, ds, elems }
    };
    let stride = ctx.n(37, 1);
    let mut k = 0u64;
    for fa in 0..256u32 {
      for fb in 0..256u32 {
        k += 1;
        if k % stride != 0 {
          continue;
        }
        check_pair(&mut rep, &mut orc, &mk(fa), &mk(fb));
      }
    }
    rep.count("phase:exhaustive-4-slots-x-2-cells-done");
  }
  let n = ctx.n(6_000, 200_000);
  for i in 0..n {
    let dt = *rng.pick(&[0u8, 3, 10, 61]);
    let ds = *rng.pick(&[0u8, 1, 5, 29]);
    let nslots = rng.range(4, 10).min(2u64 << dt);
    let ncells = 2u64 << dt;
    let base = if rng.chance(1, 2) { 0 } else { ncells - nslots };
    let a = gen_stmoc(&mut rng, dt, ds, nslots, base, 4, 3);
    let dt2 = if rng.chance(1, 4) { *rng.pick(&[0u8, 3, 10, 61]) } else { dt };
    let mut b = if i % 17 == 0 { a.clone() } else { gen_stmoc(&mut rng, dt, ds, nslots, base, 4, 3) };
    if dt2 > dt {
      b.dt = dt2; // same ranges declared at a deeper depth (still valid)
    }
    if i % 5 == 3 && dt < 61 {
      // an operand that is really deeper on the time axis (and possibly in space): its bounds cut
      // into the cells of the other one
      let ds2 = if ds < 29 && rng.chance(1, 2) { ds + 1 } else { ds };
      b = gen_stmoc(&mut rng, dt + 1, ds2, (2 * nslots).min(16), 2 * base, 4, 3);
      rep.count("pairs:right-operand-deeper");
    }
    if i % 4 == 1 && base == 0 && 2 * nslots <= ncells {
      // operands separated on the time axis: b lives on the slots after a's (they touch when a ends on
      // its last slot and b starts on its first one; the junction elements often have equal space parts)
      b = gen_stmoc(&mut rng, dt, ds, nslots, nslots, 4, 3);
      if rng.chance(1, 2) && !a.elems.is_empty() && !b.elems.is_empty() {
        let s = a.elems.last().unwrap().1.clone();
        b.elems[0].1 = s;
      }
      rep.count("pairs:time-separated");
    }
    check_pair(&mut rep, &mut orc, &a, &b);
    check_pair(&mut rep, &mut orc, &b, &a);
  }
  rep.notes.push(format!("oracle calls: {}", orc.calls));
  rep
}
