//! C20 — cumulative-value selection on multi-order maps brackets the requested mass.
//! Implementation: elem::valuedcell::valued_cells_to_moc_with_opt and
//! U64MocStore::from_valued_cells.  Oracle: extracted Valued.select (faithful model: the same
//! sub-cells must be selected) and ValuedCheck.check (verified checker of the property's clauses,
//! applied to the implementation's output) — theorems C20_*.
//! Values are even integers below 2^40 (exact in f64, every division by 4 down to the maximum
//! depth is exact), thresholds are integers on, next to and between the cumulative sums.
use crate::common::*;
use moc::deser::fits::multiordermap::from_fits_multiordermap;
use moc::deser::fits::skymap::from_fits_skymap;
use moc::elem::valuedcell::valued_cells_to_moc_with_opt;
use moc::storage::u64idx::U64MocStore;

#[derive(Clone, Debug)]
struct VCell {
  d: u8,
  i: u64,
  v: u64,
  k: u64,
}

fn uniq(d: u8, i: u64) -> u64 {
  (4u64 << (2 * d as u32)) + i
}

/// a small multi-order map: disjoint cells of depth <= 3 obtained by splitting base cells
fn gen_map(rng: &mut Rng, maxd: u8) -> Vec<VCell> {
  let mut cells: Vec<(u8, u64)> = Vec::new();
  let nbase = rng.range(1, 3);
  let mut bases: Vec<u64> = (0..12).collect();
  rng.shuffle(&mut bases);
  for b in bases.iter().take(nbase as usize) {
    cells.push((0, *b));
  }
  // random refinements
  for _ in 0..rng.range(0, 3) {
    let j = rng.below(cells.len() as u64) as usize;
    let (d, i) = cells[j];
    if d < maxd.min(3) {
      cells.remove(j);
      for c in 0..4 {
        cells.push((d + 1, 4 * i + c));
      }
    }
  }
  // drop a few cells (the map need not cover whole base cells)
  while cells.len() > 8 || (cells.len() > 1 && rng.chance(1, 4)) {
    let j = rng.below(cells.len() as u64) as usize;
    cells.remove(j);
  }
  rng.shuffle(&mut cells);
  cells
    .into_iter()
    .map(|(d, i)| {
      let n_sub = 1u64 << (2 * (maxd - d) as u32);
      // value = 2 * m * n_sub: the deepest piece has the even value 2m
      let m = if rng.chance(1, 12) { 0 } else { rng.range(1, 6) };
      let v = 2 * m * n_sub;
      // density key proportional to value / area: v * 4^d (exact)
      let k = v << (2 * d as u32);
      VCell { d, i, v, k }
    })
    .collect()
}

fn thresholds(rng: &mut Rng, cells: &[VCell], asc: bool) -> (u64, u64) {
  // cumulative sums in the (stable) density order
  let mut order: Vec<&VCell> = cells.iter().collect();
  if asc {
    order.sort_by(|a, b| a.k.cmp(&b.k));
  } else {
    order.sort_by(|a, b| b.k.cmp(&a.k));
  }
  let mut cums = vec![0u64];
  for c in &order {
    cums.push(cums.last().unwrap() + c.v);
  }
  let total = *cums.last().unwrap();
  let mut pick = |rng: &mut Rng| -> u64 {
    let base = *rng.pick(&cums);
    let x = match rng.below(8) {
      0 => base,
      1 => base + 1,
      2 => base.saturating_sub(1),
      3 => base + 2 * rng.range(1, 6),
      4 => base.saturating_sub(2 * rng.range(1, 6)),
      5 => 0,
      6 => total,
      _ => rng.below(total + 1),
    };
    x.min(total)
  };
  let a = pick(rng);
  let b = pick(rng);
  (a.min(b), a.max(b))
}


// ------------------------------------------------------------------ sky-map front end
fn card(k: &str, v: &str) -> Vec<u8> {
  let mut s = format!("{:<8}= {:>20}", k, v);
  while s.len() < 80 {
    s.push(' ');
  }
  s.into_bytes()
}
fn pad2880(b: &mut Vec<u8>, fill: u8) {
  while b.len() % 2880 != 0 {
    b.push(fill);
  }
}
/// IMPLICIT / NESTED HEALPix sky map with one f64 column
pub fn skymap_fits(depth: u8, pix: &[u64]) -> Vec<u8> {
  let mut b = Vec::new();
  for (k, v) in [("SIMPLE", "T"), ("BITPIX", "8"), ("NAXIS", "0"), ("EXTEND", "T")] {
    b.extend(card(k, v));
  }
  b.extend(format!("{:<80}", "END").into_bytes());
  pad2880(&mut b, b' ');
  let nside = 1u64 << depth;
  for (k, v) in [
    ("XTENSION", "'BINTABLE'".to_string()),
    ("BITPIX", "8".to_string()),
    ("NAXIS", "2".to_string()),
    ("NAXIS1", "8".to_string()),
    ("NAXIS2", pix.len().to_string()),
    ("PCOUNT", "0".to_string()),
    ("GCOUNT", "1".to_string()),
    ("TFIELDS", "1".to_string()),
    ("TTYPE1", "'PROB    '".to_string()),
    ("TFORM1", "'D       '".to_string()),
    ("PIXTYPE", "'HEALPIX '".to_string()),
    ("ORDERING", "'NESTED  '".to_string()),
    ("COORDSYS", "'C       '".to_string()),
    ("NSIDE", nside.to_string()),
    ("INDXSCHM", "'IMPLICIT'".to_string()),
  ] {
    let mut c = if v.starts_with('\'') { format!("{:<8}= {:<20}", k, v) } else { format!("{:<8}= {:>20}", k, v) };
    while c.len() < 80 {
      c.push(' ');
    }
    b.extend(c.into_bytes());
  }
  b.extend(format!("{:<80}", "END").into_bytes());
  pad2880(&mut b, b' ');
  for v in pix {
    b.extend((*v as f64).to_be_bytes());
  }
  pad2880(&mut b, 0);
  b
}

// ------------------------------------------------------------------ multi-order-map front end
/// a multi-order map as a FITS file (UNIQ / PROBDENSITY columns), the format from_fits_multiordermap reads
pub fn mom_fits(depth: u8, rows: &[(u64, f64)]) -> Vec<u8> {
  let mut b = Vec::new();
  for (k, v) in [("SIMPLE", "T"), ("BITPIX", "8"), ("NAXIS", "0"), ("EXTEND", "T")] {
    b.extend(card(k, v));
  }
  b.extend(format!("{:<80}", "END").into_bytes());
  pad2880(&mut b, b' ');
  for (k, v) in [
    ("XTENSION", "'BINTABLE'".to_string()),
    ("BITPIX", "8".to_string()),
    ("NAXIS", "2".to_string()),
    ("NAXIS1", "16".to_string()),
    ("NAXIS2", rows.len().to_string()),
    ("PCOUNT", "0".to_string()),
    ("GCOUNT", "1".to_string()),
    ("TFIELDS", "2".to_string()),
    ("TTYPE1", "'UNIQ    '".to_string()),
    ("TFORM1", "'K       '".to_string()),
    ("TTYPE2", "'PROBDENSITY'".to_string()),
    ("TFORM2", "'D       '".to_string()),
    ("PIXTYPE", "'HEALPIX '".to_string()),
    ("ORDERING", "'NUNIQ   '".to_string()),
    ("COORDSYS", "'C       '".to_string()),
    ("MOCORDER", depth.to_string()),
  ] {
    let mut c = if v.starts_with('\'') { format!("{:<8}= {:<20}", k, v) } else { format!("{:<8}= {:>20}", k, v) };
    while c.len() < 80 {
      c.push(' ');
    }
    b.extend(c.into_bytes());
  }
  b.extend(format!("{:<80}", "END").into_bytes());
  pad2880(&mut b, b' ');
  for (u, d) in rows {
    b.extend(u.to_be_bytes());
    b.extend(d.to_be_bytes());
  }
  pad2880(&mut b, 0);
  b
}

/// The multi-order-map reader is an adapter: it turns every row (uniq, density) into (uniq, value,
/// density) with value = density x sub-cells x area of a deepest cell, and hands the list to the
/// selection.  Whatever the map (normalised or not: the total is anything from a fraction of 1 to
/// tens of units) and the thresholds (0, 1, the total, beyond it, anywhere between), the MOC it
/// returns must be the one the selection returns on the triples computed the same way.
fn mom_cases(rep: &mut Report, rng: &mut Rng, n: u64) {
  for _ in 0..n {
    let dm = rng.range(0, 3) as u8;
    let cells = gen_map(rng, dm);
    if cells.is_empty() {
      continue;
    }
    let apc = (std::f64::consts::PI / 3.0) / (1u64 << ((dm as u32) << 1)) as f64;
    // densities: the integer value of the cell scaled so that the total is < 1, ~ 1 or >> 1
    let scale = *rng.pick(&[1.0f64, 0.25, 0.01, 3.0]);
    let total_units: u64 = cells.iter().map(|c| c.v).sum();
    let norm = if rng.chance(1, 3) { 1.0 / (total_units.max(1) as f64) } else { scale };
    let rows: Vec<(u64, f64)> = cells
      .iter()
      .map(|c| {
        let nsub = (1u64 << (((dm - c.d) as u32) << 1)) as f64;
        (c.i + (4u64 << (2 * c.d as u32)), (c.v as f64) * norm / (nsub * apc))
      })
      .collect();
    let triples: Vec<(u64, f64, f64)> = cells
      .iter()
      .zip(rows.iter())
      .map(|(c, (u, dens))| {
        let nsub = (1u64 << (((dm - c.d) as u32) << 1)) as f64;
        (*u, dens * nsub * apc, *dens)
      })
      .collect();
    let total: f64 = triples.iter().map(|t| t.1).sum();
    let picks = [0.0, 1.0, total, total * 1.5, total * 0.5, total * rng.below(1000) as f64 / 1000.0, 0.999_999, 1.000_001, total - 1e-9, -1.0];
    let a = *rng.pick(&picks);
    let b = *rng.pick(&picks);
    let (from, to) = if a <= b { (a, b) } else { (b, a) };
    let (asc, strict, no_split, rev) = (rng.chance(1, 2), rng.chance(1, 2), rng.chance(1, 2), rng.chance(1, 2));
    let bytes = mom_fits(dm, &rows);
    let case = format!("MOMFITS depth={} rows={:?} from={} to={} asc={} strict={} no_split={} reverse={} total={}", dm, rows, from, to, asc, strict, no_split, rev, total);
    rep.evaluations += 1;
    rep.count(if total < 0.999 { "mom-fits:total<1" } else if total <= 1.001 { "mom-fits:total~1" } else { "mom-fits:total>1" });
    let t2 = triples.clone();
    let direct = catch(move || {
      let r = valued_cells_to_moc_with_opt(dm, t2, from, to, asc, strict, no_split, rev);
      r.iter().map(|x| (x.start, x.end)).collect::<Vec<(u64, u64)>>()
    });
    let via = catch(move || {
      from_fits_multiordermap(std::io::BufReader::new(std::io::Cursor::new(bytes)), from, to, asc, strict, no_split, rev)
        .map(|m| (m.depth_max(), m.moc_ranges().iter().map(|x| (x.start, x.end)).collect::<Vec<(u64, u64)>>()))
        .map_err(|e| format!("{:?}", e))
    });
    match (direct, via) {
      (Ok(d), Ok(Ok((dd, v)))) => {
        if v != d || dd != dm {
          rep.violation("from_fits_multiordermap does not return the selection of its rows", &case, &format!("depth {} {}", dd, ranges_str(&v)), &format!("depth {} {}", dm, ranges_str(&d)), "C20 (the FITS front end hands the map to the selection unchanged) + C20_selection_*");
        } else if triples.len() >= 2 && from < to {
          rep.nontrivial(&case);
        }
      }
      // The values of a FITS multi-order map are density x area with area = pi / 3 / 4^depth: they are not
      // dyadic, their sums are rounded, and a threshold within one rounding error of a cumulative sum can
      // make the selection itself fail its internal assertions.  That is outside the property's domain
      // ("dyadic values, so sums are exact"): when the selection called DIRECTLY on the rows fails, nothing
      // is decided about the front end (counted); it is judged only on maps the selection accepts.
      (Err(_), _) => rep.count("mom-fits:selection-fails-on-rounded-values(not judged)"),
      (Ok(d), v) => rep.violation("from_fits_multiordermap fails on a multi-order map the selection accepts", &case, &format!("{:?}", v), &ranges_str(&d), "C20"),
    }
  }
}

/// The sky-map reader feeds the selection with the map's pixels of positive value (it may fuse a run
/// of CONTIGUOUS pixels of equal value into larger cells).  Family 1: no two contiguous pixels have
/// the same positive value (equal values only across a null pixel or further apart), so the map
/// handed to the selection must be the list of positive pixels in pixel order and the result must be
/// the model's selection on it, whatever the options.  Family 2: contiguous runs of equal values;
/// only the tie-independent facts are decided (from = 0, to = total selects exactly the positive
/// pixels; from = to selects nothing in strict no-split mode).
fn skymap_cases(rep: &mut Report, orc: &mut Oracle, rng: &mut Rng, n: u64) {
  for it in 0..n {
    let depth: u8 = if rng.chance(1, 3) { 1 } else { 0 };
    let npix = 12usize << (2 * depth as usize);
    let family2 = it % 5 == 4;
    let mut pix: Vec<u64> = Vec::with_capacity(npix);
    let mut prev = 0u64;
    for _ in 0..npix {
      let v = if rng.chance(1, 5) {
        0
      } else if family2 && prev > 0 && rng.chance(1, 2) {
        prev
      } else {
        let mut v = 2 * rng.range(1, 9);
        if !family2 && v == prev {
          v += 2;
        }
        v
      };
      pix.push(v);
      if v > 0 || !family2 {
        prev = v;
      }
    }
    if !family2 {
      // plant equal values on both sides of a null pixel
      let j = rng.below((npix - 2) as u64) as usize;
      let v = 2 * rng.range(1, 9);
      pix[j] = v;
      pix[j + 1] = 0;
      pix[j + 2] = v;
      for k in [j, j + 2] {
        // keep the neighbours different
        if k > 0 && k - 1 != j + 1 && pix[k - 1] == v {
          pix[k - 1] = v + 2;
        }
        if k + 1 < npix && k + 1 != j + 1 && pix[k + 1] == v {
          pix[k + 1] = v + 2;
        }
      }
      // the planting may have created an equal contiguous pair further away: repair by bumping
      for k in 1..npix {
        if pix[k] > 0 && pix[k] == pix[k - 1] {
          pix[k] += 20;
        }
      }
    }
    let cells: Vec<VCell> = pix.iter().enumerate().filter(|(_, v)| **v > 0).map(|(i, v)| VCell { d: depth, i: i as u64, v: *v, k: *v }).collect();
    let total: u64 = cells.iter().map(|c| c.v).sum();
    let asc = rng.chance(1, 2);
    let strict = rng.chance(1, 2);
    let nosplit = rng.chance(1, 3);
    let rev = rng.chance(1, 2);
    let (from, to) = if family2 { if rng.chance(1, 2) { (0, total) } else { let x = rng.below(total + 1); (x, x) } } else { thresholds(rng, &cells, asc) };
    let bytes = skymap_fits(depth, &pix);
    let got = catch(|| from_fits_skymap(std::io::BufReader::new(std::io::Cursor::new(bytes.clone())), 0.0, from as f64, to as f64, asc, strict, nosplit, rev).map(|m| m.moc_ranges().iter().map(|x| (x.start, x.end)).collect::<Vec<(u64, u64)>>()).map_err(|e| e.to_string()));
    rep.evaluations += 1;
    rep.count(if family2 { "skymap:contiguous-runs" } else { "skymap:no-contiguous-equal" });
    let desc = format!("SKYMAP depth={} pixels={:?} from={} to={} asc={} strict={} nosplit={} rev={}", depth, pix, from, to, asc, strict, nosplit, rev);
    let out = match got {
      Ok(Ok(r)) => r,
      other => {
        rep.violation("from_fits_skymap fails on a valid sky map", &desc, &format!("{:?}", other), "", "C20 (sky-map front end)");
        continue;
      }
    };
    if family2 {
      let sh = 2 * (29 - depth as u32);
      // (in split mode a pair of thresholds strictly inside one - fused - cell is the known finding D19b,
      // reported with its checker flags by the main stream: not re-tested here)
      let exp: Vec<(u64, u64)> = if from == to && strict && nosplit {
        Vec::new()
      } else if from == 0 && to == total {
        let mut v: Vec<(u64, u64)> = Vec::new();
        for c in &cells {
          let (a, b) = (c.i << sh, (c.i + 1) << sh);
          match v.last_mut() {
            Some(l) if l.1 == a => l.1 = b,
            _ => v.push((a, b)),
          }
        }
        v
      } else {
        continue; // from == to, non strict: at most one boundary piece, tie dependent
      };
      if out != exp {
        rep.violation("sky map with contiguous runs of equal values: the whole / the empty selection is wrong", &desc, &ranges_str(&out), &ranges_str(&exp), "C20_checker_bracket_exact (sky-map front end)");
      }
      continue;
    }
    let head = format!("{} {} {} {} {} {} {} {} {}", depth, from, to, asc as u8, strict as u8, nosplit as u8, rev as u8, cells.len(), cells.iter().map(|c| format!("{} {} {} {}", c.d, c.i, c.v, c.k)).collect::<Vec<_>>().join(" "));
    let line = format!("VSEL 1 {} {}", head, ranges_str(&out));
    let ans = orc.ask(&line);
    let parsed = ans.strip_prefix("OK").and_then(|b| {
      let mut p = b.split('|');
      Some((p.next()?.trim().to_string(), p.next()?.split_whitespace().map(|x| x == "1").collect::<Vec<bool>>()))
    });
    match parsed {
      Some((model, flags)) if flags.len() == 6 => {
        if from < to && cells.len() >= 2 {
          rep.nontrivial(&desc);
        }
        let samecell_split = flags[5] && !nosplit;
        if model != ranges_str(&out) && !samecell_split {
          rep.violation("from_fits_skymap: the selection differs from the model's selection on the map's positive pixels", &format!("{} # {}", desc, line), &ranges_str(&out), &model, "C20_upper_descent_mass / C20_lower_descent_mass (sky-map front end)");
        }
      }
      _ => rep.violation("oracle-error", &line.chars().take(400).collect::<String>(), "", &ans.chars().take(200).collect::<String>(), "internal"),
    }
  }
}

pub fn run(ctx: &Ctx) -> Report {
  let mut rep = Report::default();
  let mut orc = Oracle::spawn();
  let mut rng = Rng::new(ctx.seed);
  let store = U64MocStore::get_global_store();
  rep.rule = "multi-order maps of 1-8 disjoint cells of mixed depth 0..3 (maximum depth up to 2 levels deeper), even integer values (0 allowed) such that every sub-cell value down to the maximum depth is an integer (f64 arithmetic exact), densities value*4^depth with ties; threshold pairs on, one unit next to, and between the cumulative sums (incl. 0, the total, inside a deepest piece, both inside the same cell) x {ascending, descending} x {strict, non-strict} x {split, no-split} x {direct, reverse descent}; through valued_cells_to_moc_with_opt and U64MocStore::from_valued_cells; IMPLICIT / NESTED sky-map FITS files (depth 0-1, null pixels, equal values on both sides of a null pixel, contiguous runs of equal values) through from_fits_skymap; multi-order-map FITS files (UNIQ / PROBDENSITY rows, normalised or not: total < 1, ~ 1, >> 1; thresholds 0, 1, the total, beyond it, between) through from_fits_multiordermap, which must return what the selection returns on the same (uniq, value, density) triples; the output must equal the faithful model's selection and satisfy every clause of the verified checker. non-trivial = from < to and at least 2 cells; distinct = distinct case line".to_string();
  let n = ctx.n(6_000, 200_000);
  for _ in 0..n {
    let maxd_req: u8 = rng.range(0, 5) as u8;
    let cells = gen_map(&mut rng, maxd_req.max(1));
    let cell_max = cells.iter().map(|c| c.d).max().unwrap_or(0);
    // the values were built for max(maxd_req, 1) >= every cell depth
    let maxd = maxd_req.max(1).max(cell_max);
    let asc = rng.chance(1, 2);
    let strict = rng.chance(1, 2);
    let nosplit = rng.chance(1, 3);
    let rev = rng.chance(1, 2);
    let (from, to) = thresholds(&mut rng, &cells, asc);
    let head = format!("{} {} {} {} {} {} {} {} {}", maxd, from, to, asc as u8, strict as u8, nosplit as u8, rev as u8, cells.len(), cells.iter().map(|c| format!("{} {} {} {}", c.d, c.i, c.v, c.k)).collect::<Vec<_>>().join(" "));
    let input: Vec<(u64, f64, f64)> = cells.iter().map(|c| (uniq(c.d, c.i), c.v as f64, c.k as f64)).collect();
    let got = catch(|| {
      let r = valued_cells_to_moc_with_opt::<u64, f64>(maxd, input.clone(), from as f64, to as f64, asc, strict, nosplit, rev);
      r.0 .0.iter().map(|x| (x.start, x.end)).collect::<Vec<(u64, u64)>>()
    });
    rep.evaluations += 1;
    rep.count(&format!("options:{}{}{}{}", if asc { "asc" } else { "desc" }, if strict { "-strict" } else { "" }, if nosplit { "-nosplit" } else { "-split" }, if rev { "-rev" } else { "" }));
    let out = match &got {
      Ok(r) => r.clone(),
      Err(e) => {
        rep.violation("valued_cells_to_moc_with_opt fails (panic) on non-negative values and 0 <= from <= to", &format!("VSEL 1 {} 0", head), e, "terminates without failure", "C20_upper_descent_brackets / C20_lower_descent_brackets (no failure)");
        continue;
      }
    };
    let line = format!("VSEL 1 {} {}", head, ranges_str(&out));
    let ans = orc.ask(&line);
    let (model, flags) = match ans.strip_prefix("OK").and_then(|b| {
      let mut p = b.split('|');
      Some((p.next()?.trim().to_string(), p.next()?.split_whitespace().map(|x| x == "1").collect::<Vec<bool>>()))
    }) {
      Some(x) if x.1.len() == 6 => x,
      _ => {
        rep.violation("oracle-error", &line.chars().take(400).collect::<String>(), "", &ans.chars().take(200).collect::<String>(), "internal");
        continue;
      }
    };
    if from < to && cells.len() >= 2 {
      rep.nontrivial(&line);
      rep.sample(&line);
    }
    let (wf, subset, between, order, bracket, samecell) = (flags[0], flags[1], flags[2], flags[3], flags[4], flags[5]);
    if !(wf && subset && between && order && bracket) {
      let class = if wf && subset && between && order && !bracket && samecell && !nosplit { "bracket|SAME_CELL_SPLIT" } else { "" };
      rep.violation_c(
        &format!("the selection violates the property: wf={} only-map-cells={} contains-cells-between={} respects-order={} brackets-mass={} (both thresholds in one cell: {})", wf, subset, between, order, bracket, samecell),
        &line,
        &ranges_str(&out),
        &format!("model selection: {}", model),
        "C20_checker_bracket_exact / C20_checker_contains_cells_between / C20_checker_respects_order / C20_checker_made_of_map_cells",
        class,
      );
      if class.is_empty() {
        continue;
      }
    }
    if model != ranges_str(&out) {
      rep.violation("the selected sub-cells differ from the faithful model of the descents", &line, &ranges_str(&out), &model, "C20_upper_descent_mass / C20_lower_descent_mass (model correspondence)");
      continue;
    }
    // ---- the store front-end (recomputes the density with a floating-point area: only when the
    // density keys are pairwise distinct, so that rounding cannot reorder the cells)
    let mut ks: Vec<u64> = cells.iter().map(|c| c.k).collect();
    ks.sort_unstable();
    ks.dedup();
    if ks.len() == cells.len() && rng.chance(1, 3) {
      let uv: Vec<(u64, f64)> = cells.iter().map(|c| (uniq(c.d, c.i), c.v as f64)).collect();
      let r = catch(|| {
        let id = store.from_valued_cells(maxd, false, from as f64, to as f64, asc, !strict, !nosplit, rev, uv.into_iter())?;
        let rr = store.to_ranges(id);
        let _ = store.drop(id);
        rr
      });
      rep.evaluations += 1;
      rep.count("store:from_valued_cells");
      let got2 = match r {
        Ok(Ok(rr)) => ranges_str(&rr.iter().map(|x| (x.start, x.end)).collect::<Vec<_>>()),
        other => format!("{:?}", other),
      };
      if got2 != ranges_str(&out) {
        rep.violation("U64MocStore::from_valued_cells differs from valued_cells_to_moc_with_opt on the same map", &line, &got2, &ranges_str(&out), "C20 (store front-end)");
      }
    }
  }
  skymap_cases(&mut rep, &mut orc, &mut rng, ctx.n(800, 30_000));
  mom_cases(&mut rep, &mut rng, ctx.n(1_500, 60_000));
  cli_vcells_cases(&mut rep, &mut rng, ctx.n(250, 4_000));
  rep.notes.push(format!("oracle calls: {}", orc.calls));
  rep
}


/// `moc from vcells [-a] [-s] [-p] [-r] -f <from> -t <to> ascii <depth> <file> ascii` (values proportional to the
/// area of the cells, the mode used without --density): the text adapter turns every line (uniq, value) into
/// (uniq, value, density) and hands the list to the selection; the MOC printed must be the one the selection
/// returns on the triples computed in the same way (dyadic values; maps whose cells are up to 3 levels coarser
/// than the requested depth)
fn cli_vcells_cases(rep: &mut Report, rng: &mut Rng, n: u64) {
  use moc::deser::ascii::from_ascii_ivoa;
  use moc::moc::{CellOrCellRangeMOCIntoIterator, CellOrCellRangeMOCIterator, RangeMOCIterator};
  let bin = match std::env::var("VERIF_BIN_DIR") {
    Ok(b) => std::path::PathBuf::from(b).join("moc"),
    Err(_) => return,
  };
  if !bin.exists() {
    rep.count("cli:not-built");
    return;
  }
  let scratch = std::env::var("VERIF_SCRATCH").unwrap_or_else(|_| std::env::temp_dir().display().to_string());
  let _ = std::fs::create_dir_all(&scratch);
  let inp = format!("{}/c20_vcells.txt", scratch);
  for _ in 0..n {
    let dm = rng.range(0, 3) as u8;
    let cells = gen_map(rng, dm);
    if cells.is_empty() {
      continue;
    }
    let apc = (std::f64::consts::PI / 3.0) / (1u64 << ((dm as u32) << 1)) as f64;
    let scale = *rng.pick(&[1.0f64, 0.125, 0.5]);
    let triples: Vec<(u64, f64, f64)> = cells
      .iter()
      .map(|c| {
        let nsub = (1u64 << (((dm - c.d) as u32) << 1)) as f64;
        let val = (c.v as f64) * scale;
        (uniq(c.d, c.i), val, val / (nsub * apc))
      })
      .collect();
    let total: f64 = triples.iter().map(|t| t.1).sum();
    // thresholds on the cumulative sums (densest first or last) and between them
    let mut sorted = triples.clone();
    sorted.sort_by(|a, b| b.2.partial_cmp(&a.2).unwrap());
    let mut cums: Vec<f64> = vec![0.0];
    let mut acc = 0.0;
    for t in &sorted {
      acc += t.1;
      cums.push(acc);
    }
    let pick = |rng: &mut Rng| -> f64 { if rng.chance(2, 3) { *rng.pick(&cums) } else { total * (rng.below(8) as f64) / 8.0 } };
    let (a, b) = (pick(rng), pick(rng));
    let (from, to) = if a <= b { (a, b) } else { (b, a) };
    let (asc, strict, no_split, rev) = (rng.chance(1, 3), rng.chance(1, 2), rng.chance(1, 2), rng.chance(1, 3));
    std::fs::write(&inp, triples.iter().map(|t| format!("{} {}\n", t.0, t.1)).collect::<String>()).unwrap();
    let mut args: Vec<String> = vec!["from".into(), "vcells".into()];
    if asc { args.push("-a".into()); }
    if !strict { args.push("-s".into()); }
    // the flag `-p` (long name `--no-split`) ENABLES the recursive split: its help text says so and the code passes `!split`
    if !no_split { args.push("-p".into()); }
    if rev { args.push("-r".into()); }
    args.extend(["-f".to_string(), format!("{}", from), "-t".to_string(), format!("{}", to), "ascii".to_string(), dm.to_string(), inp.clone(), "ascii".to_string()]);
    let case = format!("CLI moc {} # rows={:?}", args.join(" "), triples.iter().map(|t| (t.0, t.1)).collect::<Vec<_>>());
    rep.evaluations += 1;
    rep.count("cli:from-vcells-ascii");
    let t2 = triples.clone();
    let direct = catch(move || valued_cells_to_moc_with_opt(dm, t2, from, to, asc, strict, no_split, rev).iter().map(|x| (x.start, x.end)).collect::<Vec<(u64, u64)>>());
    let d = match direct {
      Ok(d) => d,
      Err(_) => {
        rep.count("cli:selection-itself-fails(not judged here)");
        continue;
      }
    };
    // the same map as a multi-order-map FITS file through `moc from vcells ... multires` (one case in four): the
    // MOC printed must be the one the library reader returns on the same bytes with the same options
    if rng.chance(1, 4) {
      let rows: Vec<(u64, f64)> = triples.iter().map(|t| (t.0, t.2)).collect();
      let bytes = mom_fits(dm, &rows);
      let pm = format!("{}/c20_mom.fits", scratch);
      std::fs::write(&pm, &bytes).unwrap();
      let mut a2: Vec<String> = vec!["from".into(), "vcells".into()];
      if asc { a2.push("-a".into()); }
      if !strict { a2.push("-s".into()); }
      if !no_split { a2.push("-p".into()); }
      if rev { a2.push("-r".into()); }
      a2.extend(["-f".to_string(), format!("{}", from), "-t".to_string(), format!("{}", to), "multires".to_string(), pm.clone(), "ascii".to_string()]);
      let lib = catch(move || {
        from_fits_multiordermap(std::io::BufReader::new(std::io::Cursor::new(bytes)), from, to, asc, strict, no_split, rev)
          .map(|m| m.moc_ranges().iter().map(|x| (x.start, x.end)).collect::<Vec<(u64, u64)>>())
          .map_err(|e| format!("{:?}", e))
      });
      if let Ok(Ok(l)) = lib {
        rep.evaluations += 1;
        rep.count("cli:from-vcells-multires");
        let case2 = format!("CLI moc {} # rows(uniq, density)={:?}", a2.join(" "), rows);
        if let Ok(o) = std::process::Command::new(&bin).args(&a2).output() {
          let text = String::from_utf8_lossy(&o.stdout).to_string();
          let got = from_ascii_ivoa::<u64, moc::qty::Hpx<u64>>(&text).map(|m| m.into_cellcellrange_moc_iter().ranges().into_range_moc().moc_ranges().iter().map(|r| (r.start, r.end)).collect::<Vec<(u64, u64)>>()).map_err(|e| format!("{:?}", e));
          if !o.status.success() || got.as_ref() != Ok(&l) {
            rep.violation("`moc from vcells ... multires` does not print what the library reader returns on the same file and options", &case2, &format!("exit {:?} {:?}", o.status.code(), got.map(|g| ranges_str(&g))), &ranges_str(&l), "C20 (the command line hands the map and the options to the selection unchanged)");
          }
        }
      }
    }
    // ... and a small sky map through `moc from vcells ... skymap` (one case in six)
    if rng.chance(1, 6) {
      let sd: u8 = if rng.chance(1, 2) { 0 } else { 1 };
      let npix = 12usize << (2 * sd as usize);
      let pix: Vec<u64> = (0..npix).map(|i| if rng.chance(1, 5) { 0 } else { 1 + ((i as u64 * 7 + rng.below(5)) % 9) }).collect();
      let tot: f64 = pix.iter().map(|v| *v as f64).sum();
      let (f2, t2) = { let a = tot * (rng.below(9) as f64) / 8.0; let b = tot * (rng.below(9) as f64) / 8.0; if a <= b { (a, b) } else { (b, a) } };
      let bytes = skymap_fits(sd, &pix);
      let ps = format!("{}/c20_skymap.fits", scratch);
      std::fs::write(&ps, &bytes).unwrap();
      let mut a3: Vec<String> = vec!["from".into(), "vcells".into()];
      if asc { a3.push("-a".into()); }
      if !strict { a3.push("-s".into()); }
      if !no_split { a3.push("-p".into()); }
      if rev { a3.push("-r".into()); }
      a3.extend(["-f".to_string(), format!("{}", f2), "-t".to_string(), format!("{}", t2), "skymap".to_string(), ps.clone(), "ascii".to_string()]);
      let lib = catch(move || {
        from_fits_skymap(std::io::BufReader::new(std::io::Cursor::new(bytes)), 0.0, f2, t2, asc, strict, no_split, rev)
          .map(|m| m.moc_ranges().iter().map(|x| (x.start, x.end)).collect::<Vec<(u64, u64)>>())
          .map_err(|e| format!("{:?}", e))
      });
      if let Ok(Ok(l)) = lib {
        rep.evaluations += 1;
        rep.count("cli:from-vcells-skymap");
        let case3 = format!("CLI moc {} # depth={} pixels={:?}", a3.join(" "), sd, pix);
        if let Ok(o) = std::process::Command::new(&bin).args(&a3).output() {
          let text = String::from_utf8_lossy(&o.stdout).to_string();
          let got = from_ascii_ivoa::<u64, moc::qty::Hpx<u64>>(&text).map(|m| m.into_cellcellrange_moc_iter().ranges().into_range_moc().moc_ranges().iter().map(|r| (r.start, r.end)).collect::<Vec<(u64, u64)>>()).map_err(|e| format!("{:?}", e));
          if !o.status.success() || got.as_ref() != Ok(&l) {
            rep.violation("`moc from vcells ... skymap` does not print what the library reader returns on the same file and options", &case3, &format!("exit {:?} {:?}", o.status.code(), got.map(|g| ranges_str(&g))), &ranges_str(&l), "C20 (the command line hands the map and the options to the selection unchanged)");
          }
        }
      }
    }
    match std::process::Command::new(&bin).args(&args).output() {
      Ok(o) => {
        let text = String::from_utf8_lossy(&o.stdout).to_string();
        let got = from_ascii_ivoa::<u64, moc::qty::Hpx<u64>>(&text).map(|m| m.into_cellcellrange_moc_iter().ranges().into_range_moc().moc_ranges().iter().map(|r| (r.start, r.end)).collect::<Vec<(u64, u64)>>()).map_err(|e| format!("{:?}", e));
        match got {
          Ok(g) if o.status.success() => {
            if g != d {
              rep.violation("`moc from vcells ... ascii` does not print the selection of its lines", &case, &ranges_str(&g), &ranges_str(&d), "C20 (the text front end hands the map to the selection unchanged) + C20_selection_*");
            } else if triples.len() >= 2 && from < to {
              rep.nontrivial(&case);
            }
          }
          other => rep.violation("`moc from vcells ... ascii` fails on a map the selection accepts", &case, &format!("exit {:?} {:?} {}", o.status.code(), other.map(|x| x.len()), String::from_utf8_lossy(&o.stderr).chars().take(200).collect::<String>()), &ranges_str(&d), "C20"),
        }
      }
      Err(e) => rep.notes.push(format!("moc could not be run: {}", e)),
    }
  }
}
