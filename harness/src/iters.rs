//! A dynamically typed RangeMOCIterator wrapper so that operator trees of any
//! shape over any mix of source kinds can be built at run time, plus the five
//! leaf source kinds of the property text (owned, borrowed, cell-adapter,
//! FITS stream, builder iterator).
#![allow(dead_code)]
use std::io::Cursor;
use std::marker::PhantomData;
use std::ops::Range;

use moc::deser::fits::{from_fits_ivoa, MocIdxType, MocQtyType, MocType, RangeMocIterFromFits};
use moc::idx::Idx;
use moc::moc::range::op::merge::merge_sorted;
use moc::moc::range::RangeMOC;
use moc::moc::{
  CellMOCIterator, HasMaxDepth, MOCProperties, NonOverlapping, RangeMOCIntoIterator, RangeMOCIterator, ZSorted,
};
use moc::qty::{Frequency, Hpx, MocQty, Time};

pub trait ObjIt<T: Idx> {
  fn o_next(&mut self) -> Option<Range<T>>;
  fn o_size_hint(&self) -> (usize, Option<usize>);
  fn o_peek_last(&self) -> Option<&Range<T>>;
  fn o_depth_max(&self) -> u8;
}
impl<T: Idx, I: RangeMOCIterator<T>> ObjIt<T> for I {
  fn o_next(&mut self) -> Option<Range<T>> {
    self.next()
  }
  fn o_size_hint(&self) -> (usize, Option<usize>) {
    self.size_hint()
  }
  fn o_peek_last(&self) -> Option<&Range<T>> {
    self.peek_last()
  }
  fn o_depth_max(&self) -> u8 {
    self.depth_max()
  }
}

pub struct DynIt<'a, T: Idx, Q: MocQty<T>> {
  pub inner: Box<dyn ObjIt<T> + 'a>,
  _q: PhantomData<Q>,
}
impl<'a, T: Idx, Q: MocQty<T>> DynIt<'a, T, Q> {
  pub fn new<I: RangeMOCIterator<T, Qty = Q> + 'a>(it: I) -> Self {
    DynIt { inner: Box::new(it), _q: PhantomData }
  }
}
impl<'a, T: Idx, Q: MocQty<T>> Iterator for DynIt<'a, T, Q> {
  type Item = Range<T>;
  fn next(&mut self) -> Option<Range<T>> {
    self.inner.o_next()
  }
  fn size_hint(&self) -> (usize, Option<usize>) {
    self.inner.o_size_hint()
  }
}
impl<'a, T: Idx, Q: MocQty<T>> HasMaxDepth for DynIt<'a, T, Q> {
  fn depth_max(&self) -> u8 {
    self.inner.o_depth_max()
  }
}
impl<'a, T: Idx, Q: MocQty<T>> ZSorted for DynIt<'a, T, Q> {}
impl<'a, T: Idx, Q: MocQty<T>> NonOverlapping for DynIt<'a, T, Q> {}
impl<'a, T: Idx, Q: MocQty<T>> MOCProperties for DynIt<'a, T, Q> {}
impl<'a, T: Idx, Q: MocQty<T>> RangeMOCIterator<T> for DynIt<'a, T, Q> {
  type Qty = Q;
  fn peek_last(&self) -> Option<&Range<T>> {
    self.inner.o_peek_last()
  }
}

/// Per (T, Q) instance glue that cannot be written generically.
pub trait Inst<T: Idx>: MocQty<T> {
  fn fits_stream(bytes: Vec<u8>) -> Option<RangeMocIterFromFits<T, Self, Cursor<Vec<u8>>>>;
}
macro_rules! inst {
  ($t:ty, $variant:ident, $q:ident, $qv:ident) => {
    impl Inst<$t> for $q<$t> {
      fn fits_stream(bytes: Vec<u8>) -> Option<RangeMocIterFromFits<$t, Self, Cursor<Vec<u8>>>> {
        match from_fits_ivoa(Cursor::new(bytes)) {
          Ok(MocIdxType::$variant(MocQtyType::$qv(MocType::Ranges(it)))) => Some(it),
          _ => None,
        }
      }
    }
  };
}
inst!(u16, U16, Hpx, Hpx);
inst!(u32, U32, Hpx, Hpx);
inst!(u64, U64, Hpx, Hpx);
inst!(u16, U16, Time, Time);
inst!(u32, U32, Time, Time);
inst!(u64, U64, Time, Time);
inst!(u16, U16, Frequency, Freq);
inst!(u32, U32, Frequency, Freq);
inst!(u64, U64, Frequency, Freq);

pub const N_SRC_KINDS: u64 = 5;
pub const SRC_NAMES: [&str; 5] = ["owned", "borrowed", "celladapter", "fitsstream", "builderiter"];

/// Build a leaf iterator of the requested kind over `moc`.
pub fn leaf<'a, T: Idx, Q: Inst<T>>(kind: u64, moc: &'a RangeMOC<T, Q>) -> DynIt<'a, T, Q> {
  match kind {
    0 => DynIt::new(moc.clone().into_range_moc_iter()),
    1 => DynIt::new(moc.into_range_moc_iter()),
    2 => DynIt::new(moc.into_range_moc_iter().cells().ranges()),
    3 => {
      let mut bytes: Vec<u8> = Vec::new();
      moc
        .into_range_moc_iter()
        .to_fits_ivoa(None, None, &mut bytes)
        .expect("fits write of a leaf");
      DynIt::new(Q::fits_stream(bytes).expect("fits stream of a leaf"))
    }
    _ => {
      let v: Vec<Range<T>> = moc.moc_ranges().iter().cloned().collect();
      DynIt::new(merge_sorted::<T, Q, _>(moc.depth_max(), v.into_iter()))
    }
  }
}
