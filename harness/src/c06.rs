//! C06 — builders and n-ary operators are insensitive to order, duplication and batching.
//! Implementation: FixedDepthMocBuilder (push/into_moc, push_v2/into_moc_v2), RangeMocBuilder,
//! RangeMOC::{from_fixed_depth_cells, from_cells, from_maxdepth_ranges, append_fixed_depth_cells,
//! from_microsec_since_jd0, from_microsec_ranges_since_jd0}, kway_{or,and,xor}{,_it}.
//! Oracle: extracted Build.{build_ranges, build_cells, build_dcells, kway} (theorems C06_*).
use crate::common::*;
use crate::dispatch;
use crate::iters::*;
use moc::idx::Idx;
use moc::moc::builder::fixed_depth::FixedDepthMocBuilder;
use moc::moc::builder::maxdepth_range::RangeMocBuilder;
use moc::moc::range::op::multi_op::{kway_and, kway_and_it, kway_or, kway_or_it, kway_xor, kway_xor_it};
use moc::moc::range::RangeMOC;
use moc::moc::RangeMOCIntoIterator;
use std::ops::Range;

fn obs<T: Idx, QQ: Inst<T>>(q: Q, m: &RangeMOC<T, QQ>) -> String {
  let m = from_range_moc(q, m);
  format!("OK {}", m.dr())
}

fn impl_cells<T: Idx, QQ: Inst<T>>(q: Q, d: u8, cells: &[u64], cap: Option<usize>) -> Vec<(String, Result<String, String>)> {
  let cs: Vec<T> = cells.iter().map(|c| T::from_u64(*c)).collect();
  let mut out = Vec::new();
  {
    let cs = cs.clone();
    out.push(("FixedDepthMocBuilder::push/into_moc".to_string(), catch(move || {
      let mut b = FixedDepthMocBuilder::<T, QQ>::new(d, cap);
      for c in cs {
        b.push(c);
      }
      obs(q, &b.into_moc())
    })));
  }
  {
    let cs = cs.clone();
    out.push(("FixedDepthMocBuilder::push_v2/into_moc_v2".to_string(), catch(move || {
      let mut b = FixedDepthMocBuilder::<T, QQ>::new(d, cap);
      for c in cs {
        b.push_v2(c);
      }
      obs(q, &b.into_moc_v2())
    })));
  }
  {
    let cs = cs.clone();
    out.push(("RangeMOC::from_fixed_depth_cells".to_string(), catch(move || obs(q, &RangeMOC::<T, QQ>::from_fixed_depth_cells(d, cs.into_iter(), cap)))));
  }
  {
    // split: first half through from_fixed_depth_cells, second half appended
    let cs = cs.clone();
    out.push(("RangeMOC::append_fixed_depth_cells".to_string(), catch(move || {
      let h = cs.len() / 2;
      let first = RangeMOC::<T, QQ>::from_fixed_depth_cells(d, cs[..h].to_vec().into_iter(), cap);
      obs(q, &first.append_fixed_depth_cells(d, cs[h..].to_vec().into_iter(), cap))
    })));
  }
  {
    let cs = cs.clone();
    out.push(("RangeMOC::from_cells (depth,idx)".to_string(), catch(move || obs(q, &RangeMOC::<T, QQ>::from_cells(d, cs.into_iter().map(|c| (d, c)), cap)))));
  }
  out
}

fn impl_ranges<T: Idx, QQ: Inst<T>>(q: Q, d: u8, rs: &[(u64, u64)], cap: Option<usize>) -> Vec<(String, Result<String, String>)> {
  let v: Vec<Range<T>> = rs.iter().map(|(a, b)| T::from_u64(*a)..T::from_u64(*b)).collect();
  let mut out = Vec::new();
  {
    let v = v.clone();
    out.push(("RangeMocBuilder::push/into_moc".to_string(), catch(move || {
      let mut b = RangeMocBuilder::<T, QQ>::new(d, cap);
      for r in v {
        b.push(r);
      }
      obs(q, &b.into_moc())
    })));
  }
  {
    let v = v.clone();
    out.push(("RangeMOC::from_maxdepth_ranges".to_string(), catch(move || obs(q, &RangeMOC::<T, QQ>::from_maxdepth_ranges(d, v.into_iter(), cap)))));
  }
  out
}

fn impl_dcells<T: Idx, QQ: Inst<T>>(q: Q, d: u8, cells: &[(u8, u64)], cap: Option<usize>) -> Result<String, String> {
  let v: Vec<(u8, T)> = cells.iter().map(|(dd, c)| (*dd, T::from_u64(*c))).collect();
  catch(move || obs(q, &RangeMOC::<T, QQ>::from_cells(d, v.into_iter(), cap)))
}

fn impl_kway<T: Idx, QQ: Inst<T>>(q: Q, op: &str, mocs: &[Moc], kinds: &[u64]) -> Vec<(String, Result<String, String>)> {
  let ms: Vec<RangeMOC<T, QQ>> = mocs.iter().map(|m| to_range_moc(m)).collect();
  let mut out = Vec::new();
  {
    let ms = ms.clone();
    let op = op.to_string();
    out.push((format!("kway_{}", op), catch(move || {
      let it: Box<dyn Iterator<Item = RangeMOC<T, QQ>>> = Box::new(ms.into_iter());
      let r = match op.as_str() {
        "or" => kway_or(it),
        "and" => kway_and(it),
        _ => kway_xor(it),
      };
      obs(q, &r)
    })));
  }
  {
    let op = op.to_string();
    let ms2 = ms.clone();
    let kinds = kinds.to_vec();
    out.push((format!("kway_{}_it", op), catch(move || {
      let its: Vec<DynIt<T, QQ>> = ms2.iter().zip(kinds.iter()).map(|(m, k)| leaf(*k, m)).collect();
      let it: Box<dyn Iterator<Item = DynIt<T, QQ>>> = Box::new(its.into_iter());
      let r = match op.as_str() {
        "or" => kway_or_it(it),
        "and" => kway_and_it(it),
        _ => kway_xor_it(it),
      };
      obs(q, &r)
    })));
  }
  {
    // borrowed iterators, as the store does
    let op = op.to_string();
    let ms3 = ms.clone();
    out.push((format!("kway_{}_it(borrowed)", op), catch(move || {
      let it = Box::new(ms3.iter().map(|m| m.into_range_moc_iter()));
      let r = match op.as_str() {
        "or" => kway_or_it(it),
        "and" => kway_and_it(it),
        _ => kway_xor_it(it),
      };
      obs(q, &r)
    })));
  }
  out
}

fn time_builders<T: Idx>(d: u8, us: &[u64], cap: Option<usize>) -> Vec<(String, Result<String, String>)>
where
  moc::qty::Time<T>: Inst<T>,
{
  let v = us.to_vec();
  let v2 = us.to_vec();
  vec![
    ("from_microsec_since_jd0".to_string(), catch(move || obs(Q::T, &RangeMOC::<T, moc::qty::Time<T>>::from_microsec_since_jd0(d, v.into_iter(), cap)))),
    ("from_microsec_ranges_since_jd0".to_string(), catch(move || obs(Q::T, &RangeMOC::<T, moc::qty::Time<T>>::from_microsec_ranges_since_jd0(d, v2.into_iter().map(|t| t..t + 1), cap)))),
  ]
}

fn caps(rng: &mut Rng, len: usize) -> Vec<Option<usize>> {
  let mut c = vec![Some(1), Some(2), Some(3), Some(5), Some(8), None];
  if len > 1 {
    c.push(Some(len - 1));
  }
  c.push(Some(len.max(1)));
  c.push(Some(len + 1));
  let k = rng.below(c.len() as u64) as usize;
  let k2 = rng.below(c.len() as u64) as usize;
  vec![c[k], c[k2]]
}

pub fn run(ctx: &Ctx) -> Report {
  let mut rep = Report::default();
  let mut orc = Oracle::spawn();
  let mut rng = Rng::new(ctx.seed);
  rep.rule = "element sequences (<= 60; sorted, reversed, shuffled, with repeats, consecutive runs, overlapping ranges, cells at both ends of the domain) x buffer capacities {1,2,3,5,8,len-1,len,len+1,default} x all depths x all (quantity,width); every documented builder variant; n-ary or/and/xor over lists of 0..13 related MOCs (owned form, iterator form over mixed source kinds, borrowed iterators). non-trivial = >= 3 elements (builders) / >= 2 non-empty operands (n-ary); distinct = distinct case line + capacity".to_string();
  let n = ctx.n(4_000, 120_000);
  for i in 0..n {
    let q = ALL_Q[rng.below(3) as usize];
    let w = ALL_W[rng.below(3) as usize];
    let md = q.max_depth(w);
    let d = rng.range(0, md as u64) as u8;
    let sh = q.shift(w, d);
    let ncells = q.nd0() << (q.dim() * d as u32);
    // ---------------- fixed depth cells
    let maxlen = if rng.chance(1, 10) { 60 } else { 12 };
    let len = rng.range(0, maxlen) as usize;
    let window = ncells.min(if rng.chance(2, 3) { 16 } else { 1 << 20 });
    let base = match rng.below(3) {
      0 => 0,
      1 => ncells - window,
      _ => rng.below(ncells - window + 1),
    };
    let mut cells: Vec<u64> = (0..len).map(|_| base + rng.below(window)).collect();
    match rng.below(5) {
      0 => cells.sort_unstable(),
      1 => {
        cells.sort_unstable();
        cells.reverse();
      }
      2 => {
        // with immediate repeats
        let mut c2 = Vec::new();
        for c in &cells {
          c2.push(*c);
          if rng.chance(1, 2) {
            c2.push(*c);
          }
        }
        cells = c2;
      }
      _ => {}
    }
    for cap in caps(&mut rng, cells.len()) {
      let case = format!("BCELLS {} {} {} {} {}", q.c(), w, d, cells.len(), cells.iter().map(|c| c.to_string()).collect::<Vec<_>>().join(" "));
      let ans = orc.ask(&case);
      let shown = format!("{} # capacity={:?}", case, cap);
      for (variant, r) in dispatch!(q, w, |T, QQ| impl_cells::<T, QQ>(q, d, &cells, cap)) {
        rep.evaluations += 1;
        rep.count("builder:cells");
        let o = match &r {
          Ok(s) => s.clone(),
          Err(p) => p.clone(),
        };
        if o != ans {
          rep.violation(&format!("{} differs from the union of the pushed cells", variant), &format!("{} variant={}", shown, variant), &o, &ans, "C06_fixed_depth_cells + C06_batching_insensitive");
        }
      }
      if cells.len() >= 3 {
        rep.nontrivial(&shown);
      }
      rep.sample(&format!("{} => {}", shown, ans));
      if q == Q::T && i % 3 == 0 {
        // microsecond timestamps: any value inside the chosen cells, in the 64-bit idx frame
        let sh64 = Q::T.shift(64, d);
        let us: Vec<u64> = cells.iter().map(|c| (c << sh64) + rng.below(1u64 << sh64.min(40))).collect();
        let res = match w {
          16 => time_builders::<u16>(d, &us, cap),
          32 => time_builders::<u32>(d, &us, cap),
          _ => time_builders::<u64>(d, &us, cap),
        };
        for (variant, r) in res {
          rep.evaluations += 1;
          rep.count("builder:time");
          let o = match &r {
            Ok(s) => s.clone(),
            Err(p) => p.clone(),
          };
          if o != ans {
            rep.violation(&format!("{} differs from the cells of the timestamps", variant), &format!("{} variant={} us={:?}", shown, variant, us), &o, &ans, "C06_fixed_depth_cells");
          }
        }
      }
    }
    // ---------------- ranges at max depth (arbitrary, to be degraded)
    let ncm = q.n_cells_max(w);
    let rlen = rng.range(0, 10) as usize;
    let fine = rng.chance(1, 2); // bounds not aligned on depth d
    let mut rs: Vec<(u64, u64)> = (0..rlen)
      .map(|_| {
        let a = (base + rng.below(window)) << sh;
        let a = if fine && sh > 0 { a + rng.below(1u64 << sh.min(20)) } else { a };
        let lenr = if fine && sh > 0 { 1 + rng.below(3u64 << sh.min(20)) } else { (1 + rng.below(3)) << sh };
        (a.min(ncm - 1), (a + lenr).min(ncm))
      })
      .filter(|(a, b)| a < b)
      .collect();
    if rng.chance(1, 3) {
      rs.sort_unstable();
    }
    for cap in caps(&mut rng, rs.len()) {
      let case = format!("BRANGES {} {} {} {}", q.c(), w, d, ranges_str(&rs));
      let ans = orc.ask(&case);
      let shown = format!("{} # capacity={:?}", case, cap);
      for (variant, r) in dispatch!(q, w, |T, QQ| impl_ranges::<T, QQ>(q, d, &rs, cap)) {
        rep.evaluations += 1;
        rep.count("builder:ranges");
        let o = match &r {
          Ok(s) => s.clone(),
          Err(p) => p.clone(),
        };
        if o != ans {
          rep.violation(&format!("{} differs from the degraded union of the pushed ranges", variant), &format!("{} variant={}", shown, variant), &o, &ans, "C06_build_covers_degraded_union + C06_batching_insensitive");
        }
      }
      if rs.len() >= 3 {
        rep.nontrivial(&shown);
      }
      rep.sample(&format!("{} => {}", shown, ans));
    }
    // ---------------- (depth, idx) cells of mixed depths
    {
      let k = rng.range(0, 8) as usize;
      let dcs: Vec<(u8, u64)> = (0..k)
        .map(|_| {
          let dd = rng.range(0, md as u64) as u8;
          let nc = q.nd0() << (q.dim() * dd as u32);
          let c = if rng.chance(1, 3) { nc - 1 - rng.below(nc.min(4)) } else { rng.below(nc.min(64)) };
          (dd, c)
        })
        .collect();
      let cap = caps(&mut rng, k)[0];
      let case = format!("BDCELLS {} {} {} {} {}", q.c(), w, d, k, dcs.iter().map(|(a, b)| format!("{} {}", a, b)).collect::<Vec<_>>().join(" "));
      let ans = orc.ask(&case);
      let r = dispatch!(q, w, |T, QQ| impl_dcells::<T, QQ>(q, d, &dcs, cap));
      rep.evaluations += 1;
      rep.count("builder:dcells");
      let o = match &r {
        Ok(s) => s.clone(),
        Err(p) => p.clone(),
      };
      if o != ans {
        rep.violation("RangeMOC::from_cells differs from the degraded union of the cells", &format!("{} # capacity={:?}", case, cap), &o, &ans, "C06_build_covers_degraded_union");
      }
      if k >= 3 {
        rep.nontrivial(&case);
      }
    }
    // ---------------- n-ary operators
    if i % 2 == 0 {
      let k = rng.range(0, 13) as usize;
      let base_moc = gen_moc(&mut rng, q, w, d, 5);
      let mocs: Vec<Moc> = (0..k)
        .map(|_| {
          let dd = rng.range(0, md as u64) as u8;
          if rng.chance(3, 4) { gen_related(&mut rng, &base_moc, dd, 5) } else { gen_moc(&mut rng, q, w, dd, 5) }
        })
        .collect();
      let kinds: Vec<u64> = (0..k).map(|_| rng.below(N_SRC_KINDS)).collect();
      for op in ["or", "and", "xor"] {
        let case = format!("KWAY {} {} {} {} {}", op, q.c(), w, k, mocs.iter().map(|m| m.dr()).collect::<Vec<_>>().join(" "));
        let ans = orc.ask(&case);
        for (variant, r) in dispatch!(q, w, |T, QQ| impl_kway::<T, QQ>(q, op, &mocs, &kinds)) {
          rep.evaluations += 1;
          rep.count(&format!("kway:{}", op));
          let o = match &r {
            Ok(s) => s.clone(),
            Err(p) => p.clone(),
          };
          if o != ans {
            rep.violation(&format!("{} differs from the left fold of the binary operator", variant), &format!("{} # variant={}", case, variant), &o, &ans, "C06_kway_or / C06_kway_and / C06_kway_xor + C06_kway_valid");
          }
        }
        if mocs.iter().filter(|m| !m.r.is_empty()).count() >= 2 {
          rep.nontrivial(&case);
        }
        rep.sample(&format!("{} => {}", case, ans));
      }
      rep.count(&format!("kway-len:{:02}", k));
    }
  }
  rep.notes.push(format!("oracle calls: {}", orc.calls));
  rep
}
