//! C16 — moc-set readers see a consistent file during and after an interrupted update.
//! Real `mocset` binary built with the cargo feature `verif_hooks`: an update is stopped at a
//! named point between two externally visible effects; readers (`list`, `extract`, `query`) and a
//! second writer are run at that boundary; then the updater is either released or killed
//! (SIGKILL), the stale lock / temporary file removed and a further update run.  Every
//! observation is compared with the extracted effect model SetEffects (theorems C16_*): the view
//! at the corresponding prefix of the update's visible effects.
use crate::c14::{bin, lock_path, read_moc_fits, run_cmd, write_moc_fits};
use crate::common::*;
use std::path::{Path, PathBuf};
use std::process::{Command, Stdio};

#[derive(Clone, Debug)]
struct Ent {
  st: char,
  id: u64,
  d: u8,
  nbytes: u64,
  payload: usize,
}
impl Ent {
  fn wire(&self) -> String {
    format!("{} {} {} {} {}", self.st, self.id, self.d, self.nbytes, self.payload)
  }
}

fn tmp_path(file: &Path) -> PathBuf {
  let mut p = file.to_path_buf();
  let ext = p.extension().map(|e| format!("{:?}.tmp", e)).unwrap_or_else(|| String::from(".tmp"));
  p.set_extension(ext);
  p
}

fn nbytes_of(m: &Moc) -> u64 {
  m.r.len() as u64 * 2 * if m.d <= 13 { 4 } else { 8 }
}

fn gen_moc_c16(rng: &mut Rng, big: bool) -> Moc {
  if rng.chance(1, 8) {
    return Moc { q: Q::S, w: 64, d: rng.range(0, 29) as u8, r: vec![] };
  }
  if big {
    // more than 8 KiB of data: the BufWriter writes it through immediately
    let d = if rng.chance(1, 2) { 12 } else { 20 };
    let sh = 2 * (29 - d as u32);
    let n = rng.range(600, 1400);
    let r: Vec<(u64, u64)> = (0..n).map(|i| ((3 * i + 1) << sh, (3 * i + 2) << sh)).collect();
    return Moc { q: Q::S, w: 64, d, r };
  }
  let d = match rng.below(4) {
    0 => rng.range(14, 29) as u8,
    _ => rng.range(0, 13) as u8,
  };
  let mut m = gen_moc(rng, Q::S, 64, d, 4);
  if m.r.is_empty() {
    m.r.push((0, 1u64 << (2 * (29 - d as u32))));
  }
  m
}

struct Scn<'a> {
  rep: &'a mut Report,
  orc: &'a mut Oracle,
  mocset: PathBuf,
  dir: PathBuf,
  file: PathBuf,
  mocs: Vec<Moc>, // payload table, 0 = empty
}

impl<'a> Scn<'a> {
  fn payload(&mut self, m: &Moc) -> usize {
    if m.r.is_empty() {
      return 0;
    }
    self.mocs.push(m.clone());
    self.mocs.len() - 1
  }
  /// parse "cnt (id st depth payload nbytes)*" or FAIL
  fn parse_view(s: &str) -> Option<Vec<(u64, String, u8, usize, u64)>> {
    let t: Vec<&str> = s.split_whitespace().collect();
    if t.first() == Some(&"FAIL") {
      return None;
    }
    let n: usize = t.first()?.parse().ok()?;
    let mut v = Vec::new();
    for i in 0..n {
      v.push((t.get(1 + 5 * i)?.parse().ok()?, t.get(2 + 5 * i)?.to_string(), t.get(3 + 5 * i)?.parse().ok()?, t.get(4 + 5 * i)?.parse().ok()?, t.get(5 + 5 * i)?.parse().ok()?));
    }
    Some(v)
  }
  /// run the readers and compare with the expected view; returns a description of the first difference
  fn observe(&mut self, exp: &Option<Vec<(u64, String, u8, usize, u64)>>) -> Option<String> {
    let files = self.file.to_str().unwrap().to_string();
    let exp = match exp {
      Some(e) => e,
      None => return None, // the model itself predicts a failing reader (never with the repaired order)
    };
    let l = run_cmd(&self.mocset, &["list", &files], None);
    self.rep.evaluations += 1;
    let mut exp_lines = vec!["id,status,depth,n_ranges,byte_size".to_string()];
    for (id, st, d, pl, nb) in exp {
      let stn = match st.as_str() {
        "v" => "valid",
        "d" => "deprecated",
        _ => "removed",
      };
      let nr = if *pl == 0 { 0 } else { self.mocs[*pl].r.len() };
      exp_lines.push(format!("{},{},{},{},{}", id, stn, d, nr, nb));
    }
    let got: Vec<String> = l.stdout.lines().map(|s| s.to_string()).collect();
    if l.code != Some(0) || got != exp_lines {
      return Some(format!("list: exit {:?} got [{}] expected [{}] {}", l.code, got.join(" / "), exp_lines.join(" / "), l.stderr.chars().take(200).collect::<String>()));
    }
    let mut seen: Vec<u64> = Vec::new();
    for (id, st, d, pl, _) in exp.iter().filter(|e| e.1 != "r") {
      if seen.contains(id) {
        continue;
      }
      seen.push(*id);
      let out = self.dir.join("extract.fits");
      let _ = std::fs::remove_file(&out);
      let e = run_cmd(&self.mocset, &["extract", &files, &id.to_string(), "fits", out.to_str().unwrap()], None);
      self.rep.evaluations += 1;
      let want = if *pl == 0 { (*d, vec![]) } else { (*d, self.mocs[*pl].r.clone()) };
      let gotm = read_moc_fits(&out);
      if e.code != Some(0) || gotm != Ok(want.clone()) {
        return Some(format!("extract {} ({}): exit {:?} got {:?} expected {:?} {}", id, st, e.code, gotm.map(|x| (x.0, x.1.len())), (want.0, want.1.len()), e.stderr.chars().take(300).collect::<String>()));
      }
      // a position query inside the first range of the MOC must report the identifier (valid ones)
      if *pl != 0 && st == "v" {
        let (a, _) = self.mocs[*pl].r[0];
        let (lon, lat) = cdshealpix::nested::center(29, a);
        let (lons, lats) = (format!("{}", lon.to_degrees()), format!("{}", lat.to_degrees()));
        let lon2 = lons.parse::<f64>().unwrap().to_radians();
        let lat2 = lats.parse::<f64>().unwrap().to_radians();
        if (0.0..2.0 * std::f64::consts::PI).contains(&lon2) && (-0.5 * std::f64::consts::PI..0.5 * std::f64::consts::PI).contains(&lat2) && cdshealpix::nested::hash(29, lon2, lat2) == a {
          let q = run_cmd(&self.mocset, &["query", &files, "pos", &lons, &lats], None);
          self.rep.evaluations += 1;
          let ids: Vec<&str> = q.stdout.lines().skip(1).collect();
          if q.code != Some(0) || !ids.contains(&id.to_string().as_str()) {
            return Some(format!("query pos inside MOC {}: exit {:?} ids {:?} {}", id, q.code, ids, q.stderr.chars().take(200).collect::<String>()));
          }
        }
      }
    }
    None
  }
}

/// (hook point, n-th hit) -> number of visible effects already performed
fn prefix_of(kind: char, accepted: bool, point: &str, n: usize, neff: usize, j: usize) -> Option<usize> {
  match (kind, point) {
    (_, "writer:locked") => Some(1),
    (_, "writer:released") => Some(neff),
    (_, "writer:before_release") => Some(neff - 1),
    ('A', p) if accepted => match p {
      "append:data_written" => Some(2),
      "append:index_stored" => Some(3),
      "append:meta_stored" | "append:data_flushed" | "append:flushed" => Some(4),
      _ => None,
    },
    ('C', "chg:entry_stored") if n <= j => Some(1 + n),
    ('C', "chg:flushed") => Some(1 + j),
    ('P', "purge:tmp_created") => Some(2),
    ('P', "append:data_written") if n <= j => Some(2 + 3 * (n - 1) + 1),
    ('P', "append:index_stored") if n <= j => Some(2 + 3 * (n - 1) + 2),
    ('P', "append:meta_stored") if n <= j => Some(2 + 3 * n),
    ('P', "purge:tmp_complete") => Some(2 + 3 * j),
    ('P', "purge:renamed") => Some(3 + 3 * j),
    _ => None,
  }
}

fn scenario(rep: &mut Report, orc: &mut Oracle, rng: &mut Rng, scratch: &str, sid: u64) {
  let mocset = bin("mocset");
  let dir = PathBuf::from(scratch).join(format!("e{}", sid % 4));
  let _ = std::fs::remove_dir_all(&dir);
  std::fs::create_dir_all(&dir).unwrap();
  let file = dir.join("set.bin");
  let files = file.to_str().unwrap().to_string();
  let mut s = Scn { rep, orc, mocset: mocset.clone(), dir: dir.clone(), file: file.clone(), mocs: vec![Moc { q: Q::S, w: 64, d: 0, r: vec![] }] };
  // ---- preceding history: make + status changes
  let n0 = s_range(rng, 0, 4);
  let mut ents: Vec<Ent> = Vec::new();
  let mut list = String::new();
  for k in 0..n0 {
    let big = rng.chance(1, 6);
    let m = gen_moc_c16(rng, big);
    let p = dir.join(format!("m{}.fits", k));
    write_moc_fits(&p, &m, 64);
    let id = 10 + k as u64;
    let dep = rng.chance(1, 4);
    list.push_str(&format!("{} {}\n", if dep { -(id as i64) } else { id as i64 }, p.to_str().unwrap()));
    let pl = s.payload(&m);
    ents.push(Ent { st: if dep { 'd' } else { 'v' }, id, d: m.d, nbytes: nbytes_of(&m), payload: pl });
  }
  let lf = dir.join("list.txt");
  std::fs::write(&lf, &list).unwrap();
  let r = run_cmd(&mocset, &["make", "-l", lf.to_str().unwrap(), "-n", "1", &files], None);
  s.rep.evaluations += 1;
  if r.code != Some(0) {
    s.rep.violation("mocset make fails on a valid list", &format!("EFF-make {:?}", list), &format!("exit {:?} {}", r.code, r.stderr), "", "C16");
    return;
  }
  for e in ents.iter_mut() {
    if rng.chance(1, 5) {
      let st = if rng.chance(1, 2) { ("removed", 'r') } else { ("deprecated", 'd') };
      let r = run_cmd(&mocset, &["chgstatus", &files, st.0, &e.id.to_string()], None);
      s.rep.evaluations += 1;
      if r.code == Some(0) {
        e.st = st.1;
      }
    }
  }
  // ---- the update under test
  let kind = *rng.pick(&['A', 'A', 'A', 'C', 'C', 'P']);
  let big = rng.chance(1, 4);
  let newm = gen_moc_c16(rng, big);
  let newp = dir.join("new.fits");
  write_moc_fits(&newp, &newm, 64);
  let (upd_wire, args, j): (String, Vec<String>, usize) = match kind {
    'A' => {
      // sometimes a duplicate identifier (refused update)
      let id = if !ents.is_empty() && rng.chance(1, 6) { ents[rng.below(ents.len() as u64) as usize].id } else { 500 };
      let dep = rng.chance(1, 4);
      let pl = s.payload(&newm);
      (format!("A {} {} {} {} {}", if dep { "d" } else { "v" }, id, newm.d, nbytes_of(&newm), pl), vec!["append".into(), files.clone(), if dep { format!("-{}", id) } else { id.to_string() }, newp.to_str().unwrap().to_string()], 0)
    }
    'C' => {
      let st = *rng.pick(&[("removed", "r"), ("deprecated", "d"), ("valid", "v")]);
      let mut ids: Vec<u64> = ents.iter().filter(|_| rng.chance(1, 2)).map(|e| e.id).collect();
      if rng.chance(1, 3) {
        ids.push(999);
      }
      if ids.is_empty() {
        ids.push(ents.first().map(|e| e.id).unwrap_or(999));
      }
      // number of metadata stores = live entries whose status actually changes
      let j = ents.iter().filter(|e| e.st != 'r' && ids.contains(&e.id) && e.st.to_string() != st.1).count();
      (format!("C {} {} {}", st.1, ids.len(), ids.iter().map(|i| i.to_string()).collect::<Vec<_>>().join(" ")), vec!["chgstatus".into(), files.clone(), st.0.into(), ids.iter().map(|i| i.to_string()).collect::<Vec<_>>().join(",")], j)
    }
    _ => {
      let j = ents.iter().filter(|e| e.st != 'r').count();
      ("P 127 2048".to_string(), vec!["purge".into(), files.clone()], j)
    }
  };
  let points: Vec<&str> = match kind {
    'A' => vec!["writer:locked", "append:data_written", "append:index_stored", "append:meta_stored", "append:data_flushed", "append:flushed", "writer:before_release", "writer:released"],
    'C' => vec!["writer:locked", "chg:entry_stored", "chg:flushed", "writer:before_release", "writer:released"],
    _ => vec!["writer:locked", "purge:tmp_created", "append:data_written", "append:index_stored", "append:meta_stored", "purge:tmp_complete", "purge:renamed", "writer:before_release", "writer:released"],
  };
  let point = *rng.pick(&points);
  let nth = if j > 0 && (point == "chg:entry_stored" || (kind == 'P' && point.starts_with("append:"))) { rng.range(1, j as u64) as usize } else { 1 };
  let kill = rng.chance(1, 2);
  let ents_wire = format!("{} {}", ents.len(), ents.iter().map(|e| e.wire()).collect::<Vec<_>>().join(" "));
  // after a kill a further update is run: a fresh append
  let after = gen_moc_c16(rng, false);
  let afterp = dir.join("after.fits");
  write_moc_fits(&afterp, &after, 64);
  let after_pl = s.payload(&after);
  // first ask the model how many effects the update has (to map the hook point to a prefix)
  let probe = s.orc.ask(&format!("EFF 1 127 2048 {} {} 0 -", ents_wire, upd_wire));
  let neff: usize = probe.split_whitespace().nth(1).and_then(|x| x.parse().ok()).unwrap_or(0);
  let accepted = kind != 'A' || neff == 5;
  let k = match prefix_of(kind, accepted, point, nth, neff, j) {
    Some(k) => k,
    None => {
      s.rep.count("scenario:point-not-on-this-path");
      return;
    }
  };
  let post = if kill { format!("K v 777 {} {} {}", after.d, nbytes_of(&after), after_pl) } else { "R".to_string() };
  let line = format!("EFF 1 127 2048 {} {} {} {}", ents_wire, upd_wire, k, post);
  let ans = s.orc.ask(&line);
  let shown = format!("{} # mocset {} stopped at {}:{} then {}", line.chars().take(3000).collect::<String>(), args[0], point, nth, if kill { "killed" } else { "released" });
  let (at, fin) = match ans.strip_prefix("OK").and_then(|b| {
    let mut p = b.split(';');
    Some((p.next()?.trim().to_string(), p.next()?.trim().to_string()))
  }) {
    Some(x) => x,
    None => {
      s.rep.violation("oracle-error", &shown, "", &ans.chars().take(300).collect::<String>(), "internal");
      return;
    }
  };
  let at_t: Vec<&str> = at.splitn(4, ' ').collect();
  let exp_lock = at_t.get(1) == Some(&"1");
  let exp_tmp = at_t.get(2) == Some(&"1");
  let exp_view = Scn::parse_view(at_t.get(3).unwrap_or(&"FAIL"));
  let fin_t: Vec<&str> = fin.splitn(2, ' ').collect();
  let fin_view = Scn::parse_view(fin_t.get(1).unwrap_or(&"FAIL"));
  // ---- start the updater, stopped at the point
  let ctl = dir.join("ctl");
  let _ = std::fs::remove_file(format!("{}.reached", ctl.to_str().unwrap()));
  let _ = std::fs::remove_file(format!("{}.go", ctl.to_str().unwrap()));
  let mut child = Command::new(&mocset)
    .args(&args)
    .env("MOCSET_VERIF_POINT", format!("{}:{}", point, nth))
    .env("MOCSET_VERIF_ACTION", format!("stop:{}", ctl.to_str().unwrap()))
    .stdout(Stdio::null())
    .stderr(Stdio::piped())
    .spawn()
    .expect("spawn mocset");
  let t0 = std::time::Instant::now();
  let reached = loop {
    if Path::new(&format!("{}.reached", ctl.to_str().unwrap())).exists() {
      break true;
    }
    if let Ok(Some(_)) = child.try_wait() {
      break false;
    }
    if t0.elapsed().as_secs() > 20 {
      break false;
    }
    std::thread::sleep(std::time::Duration::from_millis(1));
  };
  s.rep.evaluations += 1;
  s.rep.count(&format!("update:{}:{}", kind, point));
  if !reached {
    let _ = child.kill();
    let o = child.wait_with_output();
    s.rep.violation("the updater never reaches a boundary the model says it passes", &shown, &format!("{:?}", o.map(|x| String::from_utf8_lossy(&x.stderr).chars().take(300).collect::<String>())), &format!("prefix {} of {}", k, neff), "C16 (effect model correspondence)");
    let _ = std::fs::remove_file(lock_path(&file));
    return;
  }
  // ---- the file itself at the three writes of an accepted append, byte for byte, against the model's
  // sequence of writes (Model/MocSetBytes.v append_steps: data, index slot, metadata word)
  if kind == 'A' && accepted {
    let step = match point { "append:data_written" => 1, "append:index_stored" => 2, "append:meta_stored" | "append:data_flushed" | "append:flushed" => 3, _ => 0 };
    if step > 0 {
      if let Ok(bytes) = std::fs::read(&file) {
        if bytes.len() <= 60_000 {
          let t: Vec<&str> = upd_wire.split_whitespace().collect();
          let mut req = format!("MSETA 1 {}", ents.len());
          for e in &ents {
            let m = &s.mocs[e.payload];
            req.push_str(&format!(" {} {} {} {}", e.id, e.st, e.d, ranges_str(&m.r)));
          }
          req.push_str(&format!(" {} {} {} {} {}", t[2], t[1], newm.d, ranges_str(&newm.r), step));
          let model = s.orc.ask(&req);
          s.rep.evaluations += 1;
          s.rep.count(&format!("append-write-{}-bytes-exact", step));
          let hx: String = bytes.iter().map(|b| format!("{:02x}", b)).collect();
          if model != format!("OK {}", hx) {
            let pos = model.bytes().skip(3).zip(hx.bytes()).position(|(a, b)| a != b).unwrap_or(hx.len().min(model.len().saturating_sub(3))) / 2;
            s.rep.corr_break("the moc-set file at a write boundary of an append differs from the model's sequence of writes", &format!("{} # {}", shown, req.chars().take(400).collect::<String>()), &format!("{} bytes, first difference at byte {}", bytes.len(), pos), &format!("{} bytes", model.len().saturating_sub(3) / 2), "crates/set append_moc == Model/MocSetBytes.v append_steps (C16_append_writes_every_prefix_decodes)");
          }
        }
      }
    }
  }
  // ---- the temporary file of a purge at the writes of its copies and when complete (Model/MocSetBytes.v
  // purge_tmp_files), and the main file after the rename, byte for byte
  if kind == 'P' {
    let idx: Option<i64> = match point {
      "append:data_written" => Some(3 * (nth as i64 - 1)),
      "append:index_stored" => Some(3 * (nth as i64 - 1) + 1),
      "append:meta_stored" => Some(3 * (nth as i64 - 1) + 2),
      "purge:tmp_complete" | "purge:renamed" | "writer:before_release" | "writer:released" => Some(-1),
      _ => None,
    };
    if let Some(idx) = idx {
      let path = if point.starts_with("append:") || point == "purge:tmp_complete" { tmp_path(&file) } else { file.clone() };
      if let Ok(bytes) = std::fs::read(&path) {
        if bytes.len() <= 60_000 {
          let mut req = format!("MSETP 1 {}", ents.len());
          for e in &ents {
            let m = &s.mocs[e.payload];
            req.push_str(&format!(" {} {} {} {}", e.id, e.st, e.d, ranges_str(&m.r)));
          }
          req.push_str(&format!(" {}", idx));
          let model = s.orc.ask(&req);
          s.rep.evaluations += 1;
          s.rep.count(&format!("purge-file-bytes-exact:{}", point));
          let hx: String = bytes.iter().map(|b| format!("{:02x}", b)).collect();
          if model != format!("OK {}", hx) {
            let pos = model.bytes().skip(3).zip(hx.bytes()).position(|(a, b)| a != b).unwrap_or(hx.len().min(model.len().saturating_sub(3))) / 2;
            s.rep.corr_break("the (temporary) file of a purge differs from the model's sequence of files", &format!("{} # {}", shown, req.chars().take(400).collect::<String>()), &format!("{} bytes, first difference at byte {}", bytes.len(), pos), &format!("{} bytes", model.len().saturating_sub(3) / 2), "crates/set purge == Model/MocSetBytes.v purge_tmp_files (C16_purge_every_file_decodes)");
          }
        }
      }
    }
  }
  // ---- readers at the boundary
  if let Some(diff) = s.observe(&exp_view) {
    let _ = child.kill();
    let _ = child.wait();
    let _ = std::fs::remove_file(lock_path(&file));
    let _ = std::fs::remove_file(tmp_path(&file));
    s.rep.violation("a reader started at a boundary between two visible effects of an update does not see the state before or after it", &shown, &diff, &at, "C16_append_every_boundary_consistent / C16_status_stores_keep_data / C16_temp_file_effects_invisible");
    return;
  }
  // lock / temporary file as predicted; a second writer is refused while the lock is held
  let lock_real = lock_path(&file).exists();
  let tmp_real = tmp_path(&file).exists();
  if lock_real != exp_lock || tmp_real != exp_tmp {
    s.rep.violation("lock / temporary file differ from the effect model at the boundary", &shown, &format!("lock {} tmp {}", lock_real, tmp_real), &format!("lock {} tmp {}", exp_lock, exp_tmp), "C16 (effect model correspondence)");
  }
  if exp_lock {
    let w2 = run_cmd(&mocset, &["append", &files, "4242", afterp.to_str().unwrap()], None);
    s.rep.evaluations += 1;
    if w2.code == Some(0) {
      s.rep.violation("a second updater proceeds while the first one holds the file", &shown, "exit 0", "refused", "C16 (exclusive lock)");
    }
    if let Some(diff) = s.observe(&exp_view) {
      s.rep.violation("a refused second updater changed what readers see", &shown, &diff, &at, "C16 (exclusive lock)");
    }
  }
  // ---- release or kill
  if !kill {
    std::fs::write(format!("{}.go", ctl.to_str().unwrap()), b"").unwrap();
    let o = child.wait_with_output().expect("wait");
    s.rep.evaluations += 1;
    let refused = kind == 'A' && !accepted;
    if (o.status.code() == Some(0)) == refused {
      s.rep.violation("exit status of the released updater", &shown, &format!("exit {:?} {}", o.status.code(), String::from_utf8_lossy(&o.stderr).chars().take(300).collect::<String>()), if refused { "failure" } else { "0" }, "C16");
      return;
    }
  } else {
    let _ = child.kill();
    let _ = child.wait();
    // the state must still be the one at the boundary
    if let Some(diff) = s.observe(&exp_view) {
      s.rep.violation("after the updater is killed at a boundary a reader does not see the state before or after the update", &shown, &diff, &at, "C16_append_every_boundary_consistent");
      return;
    }
    let _ = std::fs::remove_file(lock_path(&file));
    let _ = std::fs::remove_file(tmp_path(&file));
    let a = run_cmd(&mocset, &["append", &files, "777", afterp.to_str().unwrap()], None);
    s.rep.evaluations += 1;
    if a.code != Some(0) {
      s.rep.violation("after an interrupted update (stale lock and temporary file removed) a new update fails", &shown, &format!("exit {:?} {}", a.code, a.stderr.chars().take(300).collect::<String>()), "exit 0", "C16 (recovery) / C16_later_write_keeps_earlier_segments");
      return;
    }
  }
  if let Some(diff) = s.observe(&fin_view) {
    s.rep.violation(if kill { "the file obtained by a new update after an interrupted one is not correct" } else { "the file after the completed update is not the state after" }, &shown, &diff, &fin, "C16_append_every_boundary_consistent (k >= 5) / C16 (recovery)");
    return;
  }
  s.rep.nontrivial(&shown);
  s.rep.sample(&shown);
  let _ = std::fs::remove_dir_all(&dir);
}

fn s_range(rng: &mut Rng, a: u64, b: u64) -> usize {
  rng.range(a, b) as usize
}

pub fn run(ctx: &Ctx) -> Report {
  let mut rep = Report::default();
  let mut orc = Oracle::spawn();
  let mut rng = Rng::new(ctx.seed);
  rep.rule = "the real mocset binary built with --features verif_hooks; preceding history = make of 0-4 MOCs (empty, small, larger than the 8 KiB write buffer; 32- and 64-bit storage) + status changes; update under test = append (accepted or refused duplicate), chgstatus of 1-4 identifiers (incl. unknown), purge; stopped at one of its named boundaries (lock taken, data written, index stored, metadata stored, flushed, n-th status store, temporary file created / n-th entry copied / complete, renamed, before / after lock release); at the boundary: `list`, `extract` of every live identifier, `query pos`, a second `append` (must be refused while the lock is held); then released (final state = after) or killed with SIGKILL (state stays at the boundary; stale lock and temporary file removed; a further append must succeed and give the predicted file). non-trivial = scenario that reached its boundary; distinct = distinct scenario".to_string();
  let scratch = std::env::var("VERIF_SCRATCH").unwrap_or_else(|_| "/tmp".to_string());
  if !bin("mocset").exists() {
    rep.violation("mocset binary not built", "EFF", "", "", "internal");
    return rep;
  }
  let n = ctx.n(150, 6_000);
  for i in 0..n {
    scenario(&mut rep, &mut orc, &mut rng, &scratch, i);
  }
  rep.notes.push(format!("oracle calls: {}", orc.calls));
  rep
}
