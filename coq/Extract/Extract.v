(** Extraction of the executable models to OCaml.  Only ExtrOcamlBasic is used:
    N, positive, Z, nat, list, option, prod stay the extracted datatypes; there is
    no Extract Constant and no Extract Inductive beyond ExtrOcamlBasic's. *)
Require Extraction.
Require Import ExtrOcamlBasic.
From MOC.Base Require Import RangeSet.
From MOC.Model Require Import Qty Ops1D Query Expr Build Repr Serial ST STSerial TextValid Store MocSet Freq SetQuery Neigh Valued ValuedCheck SetEffects Mom CellsSM Sweep2D Merge2D STBuilder SweepLine AsciiCodec AsciiMoc FitsCodec MocSetBytes JsonCodec FloodFill.
Extraction Language OCaml.
Extraction "moc_model.ml"
  RangeSet.covb RangeSet.canonb RangeSet.canon_of
  Qty.valid_mocb Qty.max_depth Qty.n_cells_max Qty.n_cells Qty.shift
  Ops1D.moc_op2 Ops1D.moc_not Ops1D.moc_degrade
  Query.contains_val Query.contains_range Query.intersects_range Query.intersects Query.contains
  Query.overlapped_by Query.msum Query.width
  Expr.eval Expr.edepth Expr.leaves_validb
  Build.build_ranges Build.build_cells Build.build_dcells Build.kway
  Repr.normal_cellsb Repr.uniq_hpx Repr.from_uniq_hpx Repr.to_zuniq Repr.from_zuniq Repr.scale
  Serial.encode_rows Serial.decode_rows Serial.fits_pad Serial.decode_cells
  ST.pts_opb ST.pts_eqb ST.valid2db ST.wfb ST.time_orderedb ST.s_at
  ST.obs_moc ST.r2d_okb ST.cov2b ST.tfold ST.sfold ST.space_cell ST.st_op_spec
  STSerial.encode2 STSerial.decode2
  TextValid.text_accept TextValid.text_depth TextValid.text_decode
  Store.exec Store.run Store.empty_slab
  MocSet.exec MocSet.extract MocSet.n_of_n128
  Freq.freq2hash Freq.hash2freq Freq.cell_of Freq.moc_of_values Freq.moc_of_ranges Freq.from_u64_idx
  SetQuery.query SetQuery.query_pos SetQuery.union_query SetQuery.union_pos SetQuery.union_ids SetQuery.matches_floor
  Neigh.nb8 Neigh.nb4 Neigh.cells_of Neigh.expanded_spec Neigh.contracted_spec Neigh.ext_border_spec Neigh.int_border_spec
  Neigh.split_okb Neigh.fill_okb Neigh.tf_expanded Neigh.tf_contracted FloodFill.ff_split FloodFill.ext_of FloodFill.ff_fill FloodFill.ff_fill_smaller
  Valued.select Valued.desc Valued.desc_rev ValuedCheck.check
  SetEffects.mk_file SetEffects.at_prefix SetEffects.n_effects SetEffects.cleanup SetEffects.view SetEffects.sizes_of SetEffects.effects_of
  Mom.mom_sum_hpx Mom.mom_sum_zuniq Mom.mom_filter_hpx Mom.divmod10
  CellsSM.moc_cells_o
  Sweep2D.r2d_build
  Merge2D.merge2 Merge2D.op_union Merge2D.op_inter Merge2D.op_diff
  STBuilder.st_build
  SweepLine.st_sweep
  AsciiCodec.to_ascii AsciiCodec.from_ascii AsciiCodec.isort_e AsciiCodec.st_to_ascii AsciiCodec.st_to_ascii_l AsciiCodec.st_from_ascii AsciiCodec.to_ascii_stream AsciiCodec.from_ascii_stream
  AsciiMoc.elems_of_cells AsciiMoc.ranges_of_elems
  FitsCodec.fits_write FitsCodec.fits_read FitsCodec.fits_write_st FitsCodec.fits_write_nuniq FitsCodec.mom_read FitsCodec.sky_read
  MocSetBytes.file_bytes MocSetBytes.decode_file MocSetBytes.append_steps MocSetBytes.purge_tmp_files MocSetBytes.kept_of
  JsonCodec.to_json JsonCodec.st_to_json JsonCodec.st_to_json_l JsonCodec.from_json JsonCodec.st_from_json.
