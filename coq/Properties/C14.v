(** Property C14 — a moc-set file always reflects the history of updates applied to it.
    Statements only (model: Model/MocSet.v). *)
From Coq Require Import List NArith.
From MOC.Base Require Import RangeSet.
From MOC.Model Require Import MocSet MocSetBytes MocSetBytesProofs.
Import ListNotations.
Open Scope N_scope.

(** every reachable file has at most one valid/deprecated entry per identifier and never
    more entries than its header can hold — for EVERY finite command history *)
Theorem C14_reachable_files_well_formed : forall (M : Type) h s, Inv M s -> Inv M (run M s h).
Proof. exact run_inv. Qed.

(** extracting after a successful append returns exactly the MOC added under that
    identifier; the answer for every other identifier is unchanged *)
Theorem C14_append_then_extract : forall (M : Type) s id st m s',
  exec M s (Append M id st m) = (s', Done) -> st <> Removed ->
  extract M s' id = Some m /\ forall id', id' <> id -> extract M s' id' = extract M s id'.
Proof. exact append_then_extract. Qed.

(** an identifier can be re-added once removed but not while valid or deprecated (nor when
    the file is held by another writer, is full, or the identifier exceeds 48 bits) *)
Theorem C14_append_succeeds_iff : forall (M : Type) s id st m,
  snd (exec M s (Append M id st m)) = Done <->
  locked M s = false /\ id_ok id = true /\ live_id M s id = false /\ N.of_nat (length (ents M s)) < cap M s.
Proof. exact append_succeeds_iff. Qed.

(** purge physically drops the removed MOCs and nothing else *)
Theorem C14_purge_drops_exactly_removed : forall (M : Type) s k s',
  exec M s (Purge M k) = (s', Done) ->
  ents M s' = filter (liveb M) (ents M s) /\ (forall id, extract M s' id = extract M s id) /\
  (forall e, In e (ents M s') <-> In e (ents M s) /\ e_st M e <> Removed).
Proof. exact purge_drops_exactly_removed. Qed.

Theorem C14_chgstatus_effect : forall (M : Type) s st ids s',
  exec M s (ChgStatus M st ids) = (s', Done) ->
  ents M s' = map (chg_entry M st ids) (ents M s) /\
  (forall e, In e (ents M s) -> In (chg_entry M st ids e) (ents M s')).
Proof. exact chgstatus_effect. Qed.

(** commands that cannot apply leave the file unchanged; a concurrent writer blocks updates *)
Theorem C14_failed_commands_leave_file_unchanged : forall (M : Type) s c,
  snd (exec M s c) = Failed -> fst (exec M s c) = s.
Proof. exact failed_leaves_unchanged. Qed.

Theorem C14_concurrent_writer_blocks_updates : forall (M : Type) s c,
  locked M s = true -> exec M s c = (s, Failed).
Proof. exact locked_blocks_updates. Qed.

Example C14_nonvacuous :
  let s0 := {| cap := 127; ents := []; locked := false |} in
  let h := [Append nat 5 Valid 50%nat; Append nat 7 Deprecated 70%nat; Append nat 5 Valid 51%nat;
            ChgStatus nat Removed [5]; Append nat 5 Valid 52%nat; Purge nat None] in
  map (fun e => (e_id nat e, e_moc nat e)) (ents nat (run nat s0 h)) = [(7, 70%nat); (5, 52%nat)] /\
  extract nat (run nat s0 h) 5 = Some 52%nat /\ snd (exec nat (run nat s0 h) (Append nat 7 Valid 0%nat)) = Failed.
Proof. repeat split; vm_compute; reflexivity. Qed.

(** ---- the file itself, byte level (Model/MocSetBytes.v: n128, metadata words, cumulative index, data) ----
    the layout of a state is decodable: reading n128, scanning the metadata words to the first void
    one, reading the index and slicing the data gives back every entry (status, depth, identifier,
    ranges, 32- or 64-bit storage according to the depth), for every well-formed state *)
Theorem C14_file_layout_decodes : forall n128 (ents : list sentry),
  1 <= n128 -> (length ents <= cap_of n128)%nat -> Forall entry_ok ents ->
  hdr_size n128 + N.of_nat (length (data_part ents)) < 2 ^ 64 ->
  decode_file (file_bytes n128 ents) = (n128, ents).
Proof. exact decode_file_bytes. Qed.

Example C14_file_layout_nonvacuous :
  let e1 : sentry := {| e_st := Valid; e_id := 7; e_moc := (3, [(0, 4398046511104); (8796093022208, 17592186044416)]) |} in
  let e2 : sentry := {| e_st := Removed; e_id := 9; e_moc := (20, [(5, 9)]) |} in
  Forall entry_ok [e1; e2] /\ length (file_bytes 1 [e1; e2]) = 2080%nat /\
  decode_file (file_bytes 1 [e1; e2]) = (1, [e1; e2]).
Proof.
  split; [|split; vm_compute; reflexivity].
  repeat constructor; vm_compute; try reflexivity; try discriminate.
Qed.

Print Assumptions C14_reachable_files_well_formed.
Print Assumptions C14_append_then_extract.
Print Assumptions C14_append_succeeds_iff.
Print Assumptions C14_purge_drops_exactly_removed.
Print Assumptions C14_chgstatus_effect.
Print Assumptions C14_failed_commands_leave_file_unchanged.
Print Assumptions C14_concurrent_writer_blocks_updates.
Print Assumptions C14_file_layout_decodes.
