(** Property C10 — ST-MOC algebra, folds and lookups follow point-set semantics.
    Statements only. *)
From Coq Require Import List NArith Bool.
From MOC.Base Require Import RangeSet.
From MOC.Model Require Import Qty Ops1D Query ST Sweep2D Merge2D TSIter.
Import ListNotations.
Open Scope N_scope.

(** intersection, union, difference: the checker applied to the implementation's result
    accepts it iff it covers exactly the set combination, pair by pair *)
Theorem C10_algebra_checker_exact : forall o ub out A B, WF ub out -> WF ub A -> WF ub B ->
  (pts_opb o ub out A B = true <->
   forall t s, cov2 out t s <-> setop o (cov2 A t s) (cov2 B t s)).
Proof. exact pts_opb_spec. Qed.

(** shape of the result: disjoint, increasing time ranges; touching ranges with identical
    space coverage fused; no empty entry *)
Theorem C10_result_shape_checker_exact : forall ws ds X lo prev,
  r2d_okb ws ds lo prev X = true <-> r2d_ok ws ds lo prev X.
Proof. exact r2d_okb_spec. Qed.

(** lookup: covered pairs, half-open time ranges, total *)
Theorem C10_lookup : forall X t s, cov2b X t s = true <-> cov2 X t s.
Proof. exact cov2b_spec. Qed.

(** fold on a time MOC *)
Theorem C10_tfold : forall ub X T s, WF ub X -> Forall (fun e => Canon (fst e)) X -> Canon T ->
  (cov (tfold X T) s <-> exists t, cov T t /\ cov2 X t s).
Proof. exact tfold_spec. Qed.

(** fold on a space MOC *)
Theorem C10_sfold : forall X S t, Forall (fun e => Canon (snd e)) X -> Canon S ->
  (cov (sfold X S) t <->
   exists e, In e X /\ cov (fst e) t /\ snd e <> [] /\ forall s, cov (snd e) s -> cov S s).
Proof. exact sfold_spec. Qed.

Example C10_nonvacuous :
  let A := [([(0, 4)], [(0, 16)]); ([(4, 8)], [(16, 32)])] in
  cov2b A 4 20 = true /\ cov2b A 4 3 = false /\ cov2b A 8 20 = false /\
  tfold A [(3, 5)] = [(0, 32)] /\ sfold A [(0, 20)] = [(0, 4)] /\
  pts_opb OMinus 1000 [([(0, 2)], [(0, 16)]); ([(2, 4)], [(0, 8)])] A [([(2, 6)], [(8, 32)])] = false /\
  pts_opb OMinus 1000 [([(0, 2)], [(0, 16)]); ([(2, 4)], [(0, 8)]); ([(6, 8)], [(16, 32)])] A [([(2, 6)], [(8, 32)])] = true.
Proof. repeat split; vm_compute; reflexivity. Qed.

(** the binary operations of the range-2D path AS WRITTEN (Ranges2D::merge: sweep over the bounds of
    both operands with the parity of the indices, operator evaluated on (in_t1, in_t2, current
    coverages), two output vectors, final zip / drop of empty time ranges / fusion) with the three
    operators of the store (1-D union, intersection and difference being the eager functions of
    src/ranges/mod.rs, see C01) cover exactly the union / intersection / difference of the operands'
    (time, space) point sets; the result's entries are non-empty, canonical, increasing and disjoint
    in time, and never fusable.  General form: any operator op whose value at (in1, in2, s1, s2)
    covers x iff F (in1 && s1 covers x) (in2 && s2 covers x), with F false false = false. *)
Theorem C10_range2d_merge_as_written : forall op F, F false false = false ->
  (forall in1 in2 s1 s2 x, Canon s1 -> Canon s2 -> covb (optr (op in1 in2 s1 s2)) x = F (in1 && covb s1 x) (in2 && covb s2 x)) ->
  (forall in1 in2 s1 s2, Canon s1 -> Canon s2 -> Canon (optr (op in1 in2 s1 s2))) ->
  forall A B, tchain 0 A -> tchain 0 B ->
  (forall t x, covE (merge2 op A B) t x <-> F (covEb A t x) (covEb B t x) = true) /\
  tchain 0 (merge2 op A B) /\ nofuse (merge2 op A B).
Proof. exact merge2_spec. Qed.

Theorem C10_store_union : forall A B, tchain 0 A -> tchain 0 B ->
  (forall t x, covE (merge2 op_union A B) t x <-> covE A t x \/ covE B t x) /\
  tchain 0 (merge2 op_union A B) /\ nofuse (merge2 op_union A B).
Proof. exact st_union_spec. Qed.

Theorem C10_store_intersection : forall A B, tchain 0 A -> tchain 0 B ->
  (forall t x, covE (merge2 op_inter A B) t x <-> covE A t x /\ covE B t x) /\
  tchain 0 (merge2 op_inter A B) /\ nofuse (merge2 op_inter A B).
Proof. exact st_inter_spec. Qed.

Theorem C10_store_difference : forall A B, tchain 0 A -> tchain 0 B ->
  (forall t x, covE (merge2 op_diff A B) t x <-> covE A t x /\ ~ covE B t x) /\
  tchain 0 (merge2 op_diff A B) /\ nofuse (merge2 op_diff A B).
Proof. exact st_diff_spec. Qed.

(** the conversions between the two forms preserve the covered pairs; from a range-2D result the
    elements are well formed *)
Theorem C10_time_space_iter_as_written : forall l t x, cov2 (time_space_iter l) t x <-> covE l t x.
Proof. exact time_space_iter_cov. Qed.
Theorem C10_time_space_iter_shape : forall l, tchain 0 l -> nofuse l -> STchain 0 (time_space_iter l).
Proof. exact time_space_iter_shape. Qed.
Theorem C10_from_ranges_it_as_written : forall X t x, covE (from_ranges_it X) t x <-> cov2 X t x.
Proof. exact from_ranges_it_cov. Qed.

Print Assumptions C10_algebra_checker_exact.
Print Assumptions C10_result_shape_checker_exact.
Print Assumptions C10_lookup.
Print Assumptions C10_tfold.
Print Assumptions C10_sfold.
Print Assumptions C10_range2d_merge_as_written.
Print Assumptions C10_store_union.
Print Assumptions C10_store_intersection.
Print Assumptions C10_store_difference.
Print Assumptions C10_time_space_iter_as_written.
Print Assumptions C10_time_space_iter_shape.
Print Assumptions C10_from_ranges_it_as_written.
