(** Property C06 — builders and n-ary operators are insensitive to order,
    duplication and batching.  Statements only. *)
From Coq Require Import List NArith Permutation.
From MOC.Base Require Import RangeSet.
From MOC.Model Require Import Qty Ops1D Build BuilderSM BuilderSM2 KWay.
Import ListNotations.
Open Scope N_scope.

Theorem C06_build_covers_degraded_union : forall q w d l x, NonEmptyR l ->
  (cov (build_ranges q w d l) x <->
   exists y, cov l y /\ y / 2 ^ shift q w d = x / 2 ^ shift q w d).
Proof. exact build_covers. Qed.

Theorem C06_build_is_valid : forall q w d l,
  d <= max_depth q w -> NonEmptyR l -> Bounded (n_cells_max q w) l ->
  ValidMoc q w d (build_ranges q w d l).
Proof. exact build_valid. Qed.

(** the result depends on the covered SET only *)
Theorem C06_build_depends_on_set_only : forall k l l', NonEmptyR l -> NonEmptyR l' ->
  (forall x, cov l x <-> cov l' x) -> degrade k l = degrade k l'.
Proof. exact degrade_ext. Qed.

Theorem C06_order_insensitive : forall q w d l l', NonEmptyR l -> Permutation l l' ->
  build_ranges q w d l = build_ranges q w d l'.
Proof. exact build_order_insensitive. Qed.

Theorem C06_duplicates_insensitive : forall q w d l r, NonEmptyR l -> In r l ->
  build_ranges q w d (r :: l) = build_ranges q w d l.
Proof. exact build_duplicates_insensitive. Qed.

(** any flush point (hence any buffer capacity) gives the same MOC *)
Theorem C06_batching_insensitive : forall q w d l1 l2, NonEmptyR l1 -> NonEmptyR l2 ->
  build_ranges q w d (l1 ++ l2) = union (build_ranges q w d l1) (build_ranges q w d l2).
Proof. exact build_batching. Qed.

Theorem C06_fixed_depth_cells : forall q w d cells x,
  cov (build_cells q w d cells) x <-> exists c, In c cells /\ x / 2 ^ shift q w d = c.
Proof. exact build_cells_covers. Qed.

Theorem C06_kway_valid : forall o q w l, AllValid q w l ->
  ValidMoc q w (fst (kway o q w l)) (snd (kway o q w l)).
Proof. exact kway_valid. Qed.

Theorem C06_kway_or : forall q w l x, AllValid q w l ->
  (cov (snd (kway OOr q w l)) x <-> exists m, In m l /\ cov (snd m) x).
Proof. exact kway_or_semantics. Qed.

Theorem C06_kway_and : forall q w m t x, AllValid q w (m :: t) ->
  (cov (snd (kway OAnd q w (m :: t))) x <-> forall m', In m' (m :: t) -> cov (snd m') x).
Proof. exact kway_and_semantics. Qed.

Theorem C06_kway_xor : forall q w l x, AllValid q w l ->
  covb (snd (kway OXor q w l)) x = parity l x.
Proof. exact kway_xor_semantics. Qed.

Example C06_nonvacuous :
  build_ranges Time 16 12 [(5, 6); (1, 3); (5, 6); (2, 9)] = [(0, 10)] /\
  build_cells Hpx 16 1 [7; 3; 4; 3] = [(768, 1280); (1792, 2048)] /\
  snd (kway OXor Time 16 [(13, [(0, 3)]); (13, [(1, 5)]); (13, [(2, 7)])]) = [(0, 1); (2, 3); (5, 7)].
Proof. repeat split; vm_compute; reflexivity. Qed.


(** the buffering state machine of FixedDepthMocBuilder (Model/BuilderSM.v: skip of a repeated
    last cell, sorted-flag tracking, drain when the buffer reaches its capacity, sort unless
    known sorted, run-length fusion of consecutive cell numbers, union with the MOC of earlier
    flushes) equals the specification for EVERY sequence of cells - any order, any repetition -
    and EVERY capacity, hence wherever the intermediate flushes fall *)
Theorem C06_fixed_depth_builder_state_machine : forall q w d cap cells,
  build (shift q w d) cap cells = build_cells q w d cells.
Proof. exact build_eq_spec. Qed.

(** the run-length fusion of a sorted buffer (repetitions allowed) yields canonical ranges of
    cell numbers covering exactly the buffered cells *)
Theorem C06_buffer_fusion_exact : forall l, nd 0 l ->
  Canon (cells_to_ranges l) /\ forall x, cov (cells_to_ranges l) x <-> In x l.
Proof. exact cells_to_ranges_spec. Qed.


(** the buffering state machine of RangeMocBuilder (Model/BuilderSM2.v: degradation of each
    pushed range, in-place merge with the last buffered range when they overlap or touch,
    sorted-flag tracking, drain at capacity, sort by start unless known sorted, MergeIterator,
    union with the MOC of earlier flushes) equals the specification for every sequence of
    non-empty ranges and EVERY capacity - with ANY sort function that returns the same elements
    ordered by start (all that is assumed of sort_unstable_by) *)
Theorem C06_range_builder_state_machine :
  forall (sortf : list range -> list range),
  (forall l r, In r (sortf l) <-> In r l) -> (forall l, by_start 0 (sortf l)) ->
  forall q w d cap l, NonEmptyR l ->
  rbuild sortf (shift q w d) cap l = build_ranges q w d l.
Proof. intros sortf H1 H2 q w d cap l Hne. exact (rbuild_eq_spec sortf H1 H2 (shift q w d) cap l Hne). Qed.

(** MergeIterator (merge_sorted) on a list sorted by start: canonical, same covered set *)
Theorem C06_merge_sorted_exact : forall l, by_start 0 l -> NonEmptyR l ->
  Canon (merge_sorted l) /\ forall x, cov (merge_sorted l) x <-> cov l x.
Proof. exact merge_sorted_spec. Qed.

Example C06_nonvacuous_builder :
  build (shift Hpx 16 1) 2 [7; 3; 4; 3; 3; 8; 4] = build_cells Hpx 16 1 [7; 3; 4; 3; 3; 8; 4] /\
  build (shift Hpx 16 1) 2 [7; 3; 4; 3; 3; 8; 4] = [(768, 1280); (1792, 2304)] /\
  build (shift Hpx 16 1) 100 [7; 3; 4; 3; 3; 8; 4] = [(768, 1280); (1792, 2304)] /\
  cells_to_ranges [3; 3; 4; 7; 8; 8; 9] = [(3, 5); (7, 10)].
Proof. repeat split; vm_compute; reflexivity. Qed.

(** the n-ary operators as written (operands combined by groups of four, recursion on the
    stream of group results until at most three remain) equal the left fold of the binary
    operator, depth included, for and / or / xor and every number of valid operands *)
Theorem C06_kway_groups_of_four_equal_fold : forall o q w, o <> OMinus ->
  forall l, AllValid q w l -> kway4 o q w (length l) l = kway o q w l.
Proof. exact kway4_eq_spec. Qed.

Print Assumptions C06_build_covers_degraded_union.
Print Assumptions C06_build_is_valid.
Print Assumptions C06_build_depends_on_set_only.
Print Assumptions C06_order_insensitive.
Print Assumptions C06_duplicates_insensitive.
Print Assumptions C06_batching_insensitive.
Print Assumptions C06_fixed_depth_cells.
Print Assumptions C06_kway_valid.
Print Assumptions C06_kway_or.
Print Assumptions C06_kway_and.
Print Assumptions C06_kway_xor.
Print Assumptions C06_fixed_depth_builder_state_machine.
Print Assumptions C06_buffer_fusion_exact.
Print Assumptions C06_range_builder_state_machine.
Print Assumptions C06_merge_sorted_exact.
Print Assumptions C06_kway_groups_of_four_equal_fold.
