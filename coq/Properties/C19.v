(** Property C19 — the command-line tool is a transparent front-end to the library semantics.
    Statements only (model: Model/Cli.v = the width-promotion dispatch of `moc op` composed
    with the operator models of C01; `moc convert` and `moc from` reuse the models of C05 / C07
    / C06 / C18).  [den w l] = what a reader decodes from a file storing [l] with w-bit indices,
    in the common 64-bit frame. *)
From Coq Require Import List NArith.
From MOC.Base Require Import RangeSet.
From MOC.Model Require Import Qty Ops1D Repr Cli.
Import ListNotations.
Open Scope N_scope.

(** two operands stored with ANY pair of index widths and ANY depths: the decoded output is
    exactly the set-theoretic result on the decoded inputs, at depth max, stored validly with
    the wider of the two widths *)
Theorem C19_op2_transparent_across_widths : forall o q wl dA A wr dB B,
  okw3 wl -> okw3 wr -> ValidMoc q wl dA A -> ValidMoc q wr dB B ->
  let '(w, d, R) := cli_op2 o q wl dA A wr dB B in
  w = N.max wl wr /\ d = N.max dA dB /\ ValidMoc q w d R /\
  forall x, cov (den w R) x <-> setop o (cov (den wl A) x) (cov (den wr B) x).
Proof. exact cli_op2_correct. Qed.

Theorem C19_complement_transparent : forall q w d A, okw3 w -> ValidMoc q w d A ->
  let '(w', d', R) := cli_not q w d A in
  w' = w /\ d' = d /\ ValidMoc q w d R /\
  forall x, cov (den w R) x <-> x < n_cells_max q 64 /\ ~ cov (den w A) x.
Proof. exact cli_not_correct. Qed.

(** storing with a wider index (format conversion, forced u64 output) does not change what
    is decoded *)
Theorem C19_width_change_preserves_denotation : forall w w' l, w <= w' -> w' <= 64 ->
  den w' (scale (w' - w) l) = den w l.
Proof. exact den_promote. Qed.

Theorem C19_width_change_valid : forall q w w' d l, okw3 w -> okw3 w' -> w <= w' ->
  ValidMoc q w d l -> ValidMoc q w' d (scale (w' - w) l).
Proof. exact promote_valid. Qed.

Example C19_nonvacuous :
  (* a u16 space MOC (depth 1, cell 3) minus a u64 one (depth 2, cell 12): 1/3 minus 2/12 *)
  cli_op2 OMinus Hpx 16 1 [(768, 1024)] 64 2 [(12 * 2 ^ 54, 13 * 2 ^ 54)]
  = (64, 2, [(13 * 2 ^ 54, 16 * 2 ^ 54)]) /\
  den 16 [(768, 1024)] = [(3 * 2 ^ 56, 4 * 2 ^ 56)].
Proof. split; vm_compute; reflexivity. Qed.

Print Assumptions C19_op2_transparent_across_widths.
Print Assumptions C19_complement_transparent.
Print Assumptions C19_width_change_preserves_denotation.
Print Assumptions C19_width_change_valid.
