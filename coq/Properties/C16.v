(** Property C16 — moc-set readers see a consistent file during and after an interrupted update.
    Statements only (model: Model/SetEffects.v: an update = the list of its externally visible
    effects in the order they become visible; a boundary = a prefix of that list; a killed
    updater leaves the world at a prefix). *)
From Coq Require Import List NArith Bool.
From MOC.Model Require Import SetEffects SetEffects2.
From MOC.Model Require MocSet MocSetBytes MocSetBytesProofs.
Import ListNotations.
Open Scope N_scope.

(** APPEND (order of the repaired code: data, then index, then metadata): at EVERY boundary
    between two visible effects - hence also after a kill there - for every well-formed file
    (any number of entries, any sizes, empty MOCs included) a reader sees exactly the state
    before or the state after, never a failure; once complete it sees the state after and the
    lock is released *)
Theorem C16_append_every_boundary_consistent :
  forall (D : Type) (empty_payload : D) f ms r m n p v0,
  meta f = map Some ms ++ repeat None (S r) ->
  (length ms + 1 < length (index f))%nat ->
  view empty_payload f = Some v0 ->
  (forall i, (i <= length ms)%nat -> nth i (index f) 0 <= nth (length ms) (index f) 0) ->
  nth (length ms) (index f) 0 <= flen f ->
  existsb (fun e => liveb e && (m_id e =? m_id m)) ms = false ->
  (n = 0 -> p = empty_payload) ->
  forall k, let w := run {| main := f; lock := false; tmp := None |} (firstn k (append_effects true f m n p)) in
    (view empty_payload (main w) = Some v0 \/ view empty_payload (main w) = Some (v0 ++ [(m, p)])) /\
    ((5 <= k)%nat -> view empty_payload (main w) = Some (v0 ++ [(m, p)]) /\ lock w = false).
Proof. exact append_prefix_consistent. Qed.

(** D16: with the order of the code before the repair (index and metadata stored through the
    shared mapping before the buffered data is flushed) the reader at the boundary after the
    metadata store fails: the new MOC is listed but its bytes are not in the file *)
Theorem C16_meta_before_data_refuted :
  forall (D : Type) (empty_payload : D) f ms r m n p v0,
  meta f = map Some ms ++ repeat None (S r) ->
  (length ms + 1 < length (index f))%nat ->
  view empty_payload f = Some v0 ->
  nth (length ms) (index f) 0 = flen f -> 0 < n ->
  existsb (fun e => liveb e && (m_id e =? m_id m)) ms = false ->
  view empty_payload (main (run {| main := f; lock := false; tmp := None |}
                              (firstn 3 (append_effects false f m n p)))) = None.
Proof. exact append_meta_before_data_refuted. Qed.

(** STATUS CHANGE: metadata stores never touch offsets or data: the listed MOCs keep their data
    whatever the statuses stored so far *)
Theorem C16_status_stores_keep_data : forall (D : Type) (empty_payload : D) ms ms' idx (f : file D),
  length ms' = length ms ->
  view_listed empty_payload ms' idx f =
  option_map (fun r => combine ms' (map snd r)) (view_listed empty_payload ms idx f).
Proof. exact view_listed_status_irrelevant. Qed.

(** PURGE: whatever is done to the temporary file (and to the lock) leaves the file a reader
    opens unchanged; the switch is the single atomic rename *)
Theorem C16_temp_file_effects_invisible : forall (D : Type) (w : world D) l,
  Forall (fun e => match e with ETmp _ | ETmpCreate _ | ELock | EUnlock => True | _ => False end) l ->
  main (run w l) = main w.
Proof. exact run_tmp_only_main. Qed.

(** a later write that starts at or after the end of a segment does not change what is read
    from that segment (used for re-appending over the orphan data of a killed append) *)
Theorem C16_later_write_keeps_earlier_segments : forall (D : Type) (empty_payload : D) (f : file D) off n p s e,
  e <= off -> read_seg empty_payload f s e <> None ->
  read_seg empty_payload (write_seg off n p f) s e = read_seg empty_payload f s e.
Proof. exact read_seg_after_write. Qed.


(** STATUS CHANGE, every boundary: at EVERY prefix of the metadata stores of a chgstatus (any
    list of identifiers, any file) a reader sees all the MOCs of the state before, each with
    its complete data and with its old or its new status, and never fails *)
Theorem C16_chgstatus_every_boundary_consistent :
  forall (D : Type) (empty_payload : D) f ms r ids st v0 k,
  meta f = map Some ms ++ repeat None r ->
  view empty_payload f = Some v0 ->
  let w := run {| main := f; lock := false; tmp := None |} (firstn k (chg_effects f ids st)) in
  exists ms_k, view empty_payload (main w) = Some (combine ms_k (map snd v0)) /\
               length ms_k = length ms /\ Forall2 (chg_rel st) ms ms_k.
Proof. exact chg_prefix_consistent. Qed.

(** PURGE, every boundary: the file a reader opens is the file before (untouched) up to and
    including the last effect on the temporary file, and the completed temporary file from the
    rename on *)
Theorem C16_purge_every_boundary : forall (D : Type) (f0 : file D) live f k,
  let effs := purge_effects f0 live in
  let w := run {| main := f; lock := false; tmp := None |} (firstn k effs) in
  ((k <= 2 + length (purge_copy D 0%nat (nth 0%nat (index f0) 0%N) live))%nat -> main w = f) /\
  ((2 + length (purge_copy D 0%nat (nth 0%nat (index f0) 0%N) live) < k)%nat ->
     Some (main w) = tmp (run {| main := f; lock := false; tmp := None |}
                            ([ELock; ETmpCreate f0] ++ purge_copy D 0%nat (nth 0%nat (index f0) 0%N) live))).
Proof. exact purge_prefix_main. Qed.

(** PURGE, completed: the file that replaces the moc-set reads back as exactly the live entries
    in order, each with its data; the lock is released and no temporary file remains *)
Theorem C16_purge_completed_view : forall (D : Type) (empty_payload : D) f f0 live r,
  Shape D empty_payload f0 [] (length live + r) [] ->
  Forall (fun x => snd x = 0 -> snd (fst x) = empty_payload) live ->
  let w := run {| main := f; lock := false; tmp := None |} (purge_effects f0 live) in
  view empty_payload (main w) = Some (map (fun x => (fst (fst x), snd (fst x))) live) /\
  lock w = false /\ tmp w = None.
Proof. exact purge_completed_view. Qed.

Example C16_nonvacuous :
  let m1 := {| m_st := SValid; m_id := 7; m_depth := 3 |} in
  let m2 := {| m_st := SDeprecated; m_id := 9; m_depth := 14 |} in
  let f := mk_file 3 64 [(m1, 16, 101); (m2, 0, 0)] in
  view 0 f = Some [(m1, 101); (m2, 0)] /\
  (* every boundary of an append of 24 bytes: before, before, before, before, after, after *)
  map (fun k => view 0 (main (at_prefix true {| main := f; lock := false; tmp := None |}
                                (UAppend {| m_st := SValid; m_id := 11; m_depth := 5 |} 24 103) k))) [0; 1; 2; 3; 4; 5]%nat
  = [Some [(m1, 101); (m2, 0)]; Some [(m1, 101); (m2, 0)]; Some [(m1, 101); (m2, 0)]; Some [(m1, 101); (m2, 0)];
     Some [(m1, 101); (m2, 0); ({| m_st := SValid; m_id := 11; m_depth := 5 |}, 103)];
     Some [(m1, 101); (m2, 0); ({| m_st := SValid; m_id := 11; m_depth := 5 |}, 103)]] /\
  (* the order of the code before the repair: the third boundary fails *)
  view 0 (main (at_prefix false {| main := f; lock := false; tmp := None |}
                  (UAppend {| m_st := SValid; m_id := 11; m_depth := 5 |} 24 103) 3)) = None.
Proof. repeat split; vm_compute; reflexivity. Qed.

(** ---- byte level (Model/MocSetBytes.v): the three writes of an append, in the order the code issues them
    (data at the byte the index designates, next index slot, metadata word).  Whatever an interrupted
    append left after the data part ([junk]), the file after EACH write decodes to the state before
    (first two writes) or to the state after (third write): a reader or a recovering writer started
    between any two writes reads a consistent moc-set *)
Theorem C16_append_writes_every_prefix_decodes :
  forall n128 (ents : list MocSetBytes.sentry) (e : MocSetBytes.sentry) junk,
  1 <= n128 -> (length ents < MocSetBytes.cap_of n128)%nat ->
  Forall MocSetBytesProofs.entry_ok ents -> MocSetBytesProofs.entry_ok e ->
  MocSetBytes.hdr_size n128 + N.of_nat (length (MocSetBytes.data_part (ents ++ [e]))) < 2 ^ 64 ->
  map MocSetBytes.decode_file
      (MocSetBytes.append_steps n128 ents e
         (MocSetBytesProofs.layout_gen n128 ents (repeat 0 (MocSetBytes.cap_of n128 - length ents)) junk))
  = [(n128, ents); (n128, ents); (n128, ents ++ [e])].
Proof. exact MocSetBytesProofs.append_steps_decode. Qed.

(** without leftovers the third write yields exactly the layout of the new state *)
Theorem C16_append_final_file : forall n128 (ents : list MocSetBytes.sentry) (e : MocSetBytes.sentry),
  (length ents < MocSetBytes.cap_of n128)%nat ->
  nth 2 (MocSetBytes.append_steps n128 ents e (MocSetBytes.file_bytes n128 ents)) [] = MocSetBytes.file_bytes n128 (ents ++ [e]).
Proof. exact MocSetBytesProofs.append_final_layout. Qed.

(** a status change is the store of ONE metadata word: the file after it is the layout of the state in
    which that entry has the new status (index and data untouched), so the file after any number of
    the stores of a chgstatus decodes to a moc-set in which exactly those entries changed *)
Theorem C16_status_store_decodes : forall n128 st (l1 : list MocSetBytes.sentry) e l2,
  1 <= n128 -> (length (l1 ++ e :: l2) <= MocSetBytes.cap_of n128)%nat ->
  Forall MocSetBytesProofs.entry_ok (l1 ++ e :: l2) ->
  MocSetBytes.hdr_size n128 + N.of_nat (length (MocSetBytes.data_part (l1 ++ e :: l2))) < 2 ^ 64 ->
  MocSetBytes.decode_file (MocSetBytes.chg_store (length l1) st (l1 ++ e :: l2) (MocSetBytes.file_bytes n128 (l1 ++ e :: l2)))
  = (n128, l1 ++ MocSetBytes.set_status st e :: l2).
Proof. exact MocSetBytesProofs.chg_store_decode. Qed.

(** a purge fills a temporary file by appending the kept entries to an empty moc-set of the new n128:
    EVERY file the temporary file goes through (three per copied entry) decodes to a prefix of the kept
    entries, and the complete temporary file - the one the atomic rename installs - is exactly the
    layout of the purged state *)
Theorem C16_purge_every_file_decodes : forall n128 (todo done : list MocSetBytes.sentry),
  1 <= n128 -> (length (done ++ todo) <= MocSetBytes.cap_of n128)%nat ->
  Forall MocSetBytesProofs.entry_ok (done ++ todo) ->
  MocSetBytes.hdr_size n128 + N.of_nat (length (MocSetBytes.data_part (done ++ todo))) < 2 ^ 64 ->
  map MocSetBytes.decode_file (MocSetBytes.purge_steps n128 done todo (MocSetBytes.file_bytes n128 done))
    = MocSetBytes.purge_views n128 done todo /\
  last (MocSetBytes.file_bytes n128 done :: MocSetBytes.purge_steps n128 done todo (MocSetBytes.file_bytes n128 done)) []
    = MocSetBytes.file_bytes n128 (done ++ todo).
Proof. exact MocSetBytesProofs.purge_steps_decode. Qed.

Print Assumptions C16_append_every_boundary_consistent.
Print Assumptions C16_meta_before_data_refuted.
Print Assumptions C16_status_stores_keep_data.
Print Assumptions C16_temp_file_effects_invisible.
Print Assumptions C16_later_write_keeps_earlier_segments.
Print Assumptions C16_chgstatus_every_boundary_consistent.
Print Assumptions C16_purge_every_boundary.
Print Assumptions C16_purge_completed_view.
Print Assumptions C16_append_writes_every_prefix_decodes.
Print Assumptions C16_append_final_file.
Print Assumptions C16_status_store_decodes.
Print Assumptions C16_purge_every_file_decodes.
