(** Property C01 — 1-D MOC operators compute exactly the set-theoretic result.
    Statements only; proofs are in Model/Ops1D.v and Base/RangeSet.v. *)
From Coq Require Import List NArith Bool.
From MOC.Base Require Import RangeSet.
From MOC.Model Require Import Qty Ops1D SweepMerge EagerOps EagerUnary.
Import ListNotations.
Open Scope N_scope.

(** For every quantity, width, depths and every pair of valid MOCs, the
    reference result of and/or/xor/minus has depth max(dA,dB), is a valid MOC of
    that depth, and covers exactly the set combination. *)
Theorem C01_binary_ops_set_semantics :
  forall (o : op2) (q : qty) (w dA dB : N) (A B : list range),
    ValidMoc q w dA A -> ValidMoc q w dB B ->
    let r := moc_op2 o q w dA A dB B in
    fst r = N.max dA dB /\
    ValidMoc q w (fst r) (snd r) /\
    forall x, cov (snd r) x <-> setop o (cov A x) (cov B x).
Proof. intros o q w dA dB A B. exact (moc_op2_correct o q w dA A dB B). Qed.

Theorem C01_complement_set_semantics :
  forall (q : qty) (w d : N) (A : list range),
    ValidMoc q w d A ->
    let r := moc_not q w d A in
    fst r = d /\ ValidMoc q w d (snd r) /\
    forall x, cov (snd r) x <-> x < n_cells_max q w /\ ~ cov A x.
Proof. exact moc_not_correct. Qed.

Theorem C01_degrade_set_semantics :
  forall (q : qty) (w d : N) (A : list range) (t : N),
    ValidMoc q w d A ->
    let r := moc_degrade q w d A t in
    fst r = N.min d t /\ ValidMoc q w (fst r) (snd r) /\
    forall x, cov (snd r) x <->
      exists y, cov A y /\ y / 2 ^ shift q w (N.min d t) = x / 2 ^ shift q w (N.min d t).
Proof. exact moc_degrade_correct. Qed.

(** The reference result is THE result: any implementation output that is a
    valid MOC of the same depth with the right cover is equal, as a list, to the
    reference (this is what makes the list comparison of the harness exact). *)
Theorem C01_result_unique :
  forall (q : qty) (w d : N) (R R' : list range),
    ValidMoc q w d R -> ValidMoc q w d R' ->
    (forall x, cov R x <-> cov R' x) -> R = R'.
Proof. exact validmoc_ext. Qed.

(** Non-vacuity: non-trivial operands satisfy the hypotheses, and the result is
    what one expects. *)
Example C01_nonvacuous :
  ValidMoc Hpx 64 29 [(10, 20); (30, 31)] /\ ValidMoc Hpx 64 28 [(0, 4); (16, 32)] /\
  snd (moc_op2 OMinus Hpx 64 29 [(10, 20); (30, 31)] 28 [(0, 4); (16, 32)]) = [(10, 16)] /\
  snd (moc_op2 OXor Hpx 64 29 [(10, 20); (30, 31)] 28 [(0, 4); (16, 32)])
    = [(0, 4); (10, 16); (20, 30); (31, 32)].
Proof.
  split; [apply valid_mocb_spec; vm_compute; reflexivity|].
  split; [apply valid_mocb_spec; vm_compute; reflexivity|].
  split; vm_compute; reflexivity.
Qed.

(** the plain range-set primitives AS WRITTEN (src/ranges/mod.rs): the generic boolean merge (sweep
    over the two flat arrays of bounds with the parity of the indices, used by `difference`) computes,
    for ANY operator with op false false = false, the canonical list of op (l covers x) (r covers x);
    the eager union (empty / disjoint-concatenation / binary-search prefix copy / two-way loop) and
    the eager intersection (quick rejection / binary search on the starts / two-way loop) equal the
    specification operators *)
Theorem C01_generic_merge_sweep : forall op l r, op false false = false -> Canon l -> Canon r ->
  Canon (merge op l r) /\ forall x, covb (merge op l r) x = op (covb l x) (covb r x).
Proof. exact merge_spec. Qed.

Theorem C01_difference_by_sweep : forall ub l r, Valid ub l -> Valid ub r ->
  merge (fun a b => a && negb b) l r = minus ub l r.
Proof. exact merge_minus. Qed.

Theorem C01_sweep_other_operators : forall ub l r, Valid ub l -> Valid ub r ->
  merge andb l r = inter ub l r /\ merge orb l r = union l r /\ merge xorb l r = xor ub l r.
Proof. intros ub l r Vl Vr. split; [exact (merge_inter ub l r Vl Vr)|split; [exact (merge_union ub l r Vl Vr)|exact (merge_xor ub l r Vl Vr)]]. Qed.

Theorem C01_eager_union_as_written : forall ub l r, Valid ub l -> Valid ub r -> union_e l r = union l r.
Proof. exact union_e_eq_spec. Qed.

Theorem C01_eager_intersection_as_written : forall ub l r, Valid ub l -> Valid ub r -> inter_e l r = inter ub l r.
Proof. exact inter_e_eq_spec. Qed.

Theorem C01_eager_complement_as_written : forall ub l, Valid ub l -> 0 < ub -> compl_e ub l = compl ub l.
Proof. exact compl_e_eq_spec. Qed.

Print Assumptions C01_binary_ops_set_semantics.
Print Assumptions C01_complement_set_semantics.
Print Assumptions C01_degrade_set_semantics.
Print Assumptions C01_result_unique.
Print Assumptions C01_generic_merge_sweep.
Print Assumptions C01_difference_by_sweep.
Print Assumptions C01_sweep_other_operators.
Print Assumptions C01_eager_union_as_written.
Print Assumptions C01_eager_intersection_as_written.
Print Assumptions C01_eager_complement_as_written.
