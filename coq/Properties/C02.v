(** Property C02 — every produced MOC is in canonical form.  Statements only. *)
From Coq Require Import List NArith.
From MOC.Base Require Import RangeSet.
From MOC.Model Require Import Qty Ops1D Expr BuilderSM2 EagerUnary.
Import ListNotations.
Open Scope N_scope.

(** the executable validity predicate used by the harness on EVERY implementation
    output is exactly the property's definition of canonical form *)
Theorem C02_validity_checker_exact : forall q w d l,
  valid_mocb q w d l = true <-> ValidMoc q w d l.
Proof. exact valid_mocb_spec. Qed.

(** Composition theorem: arbitrary expression trees over the operators, with
    valid leaves, evaluate to a valid MOC of the statically known depth. *)
Theorem C02_compositions_are_canonical : forall q w (e : expr),
  leaves_valid q w e ->
  ValidMoc q w (edepth e) (snd (eval q w e)).
Proof. intros q w e H. exact (proj1 (proj2 (eval_correct q w e H))). Qed.

(** Consequently equality of valid MOCs of equal depth is equality of covered sets *)
Theorem C02_equal_iff_same_set : forall q w d A B,
  ValidMoc q w d A -> ValidMoc q w d B ->
  (A = B <-> forall x, cov A x <-> cov B x).
Proof.
  intros q w d A B HA HB. split; [intros ->; tauto|]. apply (validmoc_ext q w d); assumption.
Qed.

(** canonicalisation of arbitrary range lists (the reference for constructors
    new_from / builders) always yields the canonical form of the same set *)
Theorem C02_canon_of : forall l,
  Canon (canon_of l) /\ forall x, cov (canon_of l) x <-> cov l x.
Proof. intros l. split; [apply canon_of_canon|intros x; apply canon_of_cov]. Qed.

Example C02_nonvacuous :
  leaves_valid Hpx 32 (EOp2 OXor (ENot (ELeaf 3 [(0, 1048576)])) (EDeg 2 (ELeaf 5 [(65536, 131072)]))) /\
  eval Hpx 32 (EOp2 OXor (ENot (ELeaf 3 [(0, 1048576)])) (EDeg 2 (ELeaf 5 [(65536, 131072)])))
   = (3, [(0, 1048576); (4194304, 805306368)]).
Proof. split; [apply leaves_validb_spec; vm_compute; reflexivity|vm_compute; reflexivity]. Qed.

(** the constructors AS WRITTEN: Ranges::new_from_sorted (MergeOverlappingRangesIter: curr.start <=
    prev.end => prev.end = max) on a start-sorted list of non-empty ranges, and Ranges::new_from with
    ANY sorting function that permutes its input and sorts it by start, return the canonical form *)
Theorem C02_new_from_sorted_as_written : forall l, by_start 0 l -> NonEmptyR l -> merge_sorted l = canon_of l.
Proof. exact new_from_sorted_eq_spec. Qed.

Theorem C02_new_from_as_written : forall sortf : list range -> list range,
  (forall l r, In r (sortf l) <-> In r l) -> (forall l, by_start 0 (sortf l)) ->
  forall l, NonEmptyR l -> merge_sorted (sortf l) = canon_of l.
Proof. exact new_from_eq_spec. Qed.

Print Assumptions C02_validity_checker_exact.
Print Assumptions C02_compositions_are_canonical.
Print Assumptions C02_equal_iff_same_set.
Print Assumptions C02_canon_of.
Print Assumptions C02_new_from_sorted_as_written.
Print Assumptions C02_new_from_as_written.
