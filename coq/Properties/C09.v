(** Property C09 — ST-MOC construction represents exactly the observations given.
    Statements only.  Both construction paths are judged by verified checkers. *)
From Coq Require Import List NArith Sorting.Sorted.
From MOC.Base Require Import RangeSet.
From MOC.Model Require Import Qty Ops1D ST Sweep2D TSIter STBuilder SweepLine.
Import ListNotations.
Open Scope N_scope.

(** what the observations denote: the union of (degraded time range) x (space coverage) *)
Theorem C09_observations_pointset : forall wt dt l t s,
  Forall (fun o => fst (fst o) < snd (fst o)) l ->
  (cov2 (obs_moc wt dt l) t s <->
   exists o, In o l /\
     (exists y, (fst (fst o) <= y /\ y < snd (fst o)) /\
                y / 2 ^ shift Time wt dt = t / 2 ^ shift Time wt dt) /\
     cov (snd o) s).
Proof. exact obs_pointset. Qed.

(** no dependence on order, duplicates or batching: only the SET of observations matters *)
Theorem C09_depends_on_observation_set_only : forall wt dt l l' t s,
  (forall o, In o l <-> In o l') ->
  (cov2 (obs_moc wt dt l) t s <-> cov2 (obs_moc wt dt l') t s).
Proof. exact obs_set_only. Qed.

(** the checker deciding "the built ST-MOC covers exactly the observations" is exact *)
Theorem C09_built_moc_checker_exact : forall ub out reference, WF ub out -> WF ub reference ->
  (pts_eqb ub out reference = true <-> forall t s, cov2 out t s <-> cov2 reference t s).
Proof. exact pts_eqb_spec. Qed.

(** validity of the streaming builders' result (ST-MOC form) *)
Theorem C09_stmoc_validity_checker_exact : forall wt ws dt ds X,
  valid2db wt ws dt ds X = true <-> Valid2 wt ws dt ds X.
Proof. exact valid2db_spec. Qed.

(** validity of the range-2D path's result: disjoint increasing non-empty time ranges,
    non-empty canonical space coverages, touching entries with equal coverage fused *)
Theorem C09_range2d_validity_checker_exact : forall ws ds X lo prev,
  r2d_okb ws ds lo prev X = true <-> r2d_ok ws ds lo prev X.
Proof. exact r2d_okb_spec. Qed.

Example C09_nonvacuous :
  let l := [((10, 20), space_cell 64 0 3); ((0, 5), space_cell 64 0 7)] in
  obs_moc 64 61 l = [([(10, 20)], [(864691128455135232, 1152921504606846976)]);
                     ([(0, 5)], [(2017612633061982208, 2305843009213693952)])] /\
  pts_eqb 3458764513820540928 [([(0, 20)], [(864691128455135232, 1152921504606846976)])] (obs_moc 64 61 l) = false /\
  r2d_okb 64 0 0 None [([(0, 5)], [(2017612633061982208, 2305843009213693952)]);
                        ([(10, 20)], [(864691128455135232, 1152921504606846976)])] = true.
Proof. repeat split; vm_compute; reflexivity. Qed.

(** the range-2D construction path AS WRITTEN (Ranges2D::make_consistent + compress: bounds sorted by
    (x, end before start) by ANY correct sort, sweep with the set of open entries, union of their
    coverages reduced in any order, empty unions skipped, touching entries with equal coverages fused)
    covers (t, s) exactly when some input entry has t in its time range and s in its coverage; its
    entries are non-empty in both dimensions, canonical, increasing and disjoint in time, and no two
    touching entries carry the same coverage *)
Theorem C09_range2d_construction_as_written : forall n ts te ys ucov bs,
  (forall i, (i < n)%nat -> ts i < te i) ->
  (forall a, (forall i, In i a -> (i < n)%nat) -> Canon (ucov a)) ->
  (forall a x, (forall i, In i a -> (i < n)%nat) -> (cov (ucov a) x <-> exists i, In i a /\ cov (ys i) x)) ->
  StronglySorted ble bs ->
  (forall x i, In (x, i, true) bs <-> ((i < n)%nat /\ x = ts i)) ->
  (forall x i, In (x, i, false) bs <-> ((i < n)%nat /\ x = te i)) ->
  (forall t x, covE (make_consistent ucov bs) t x <-> covIn n ts te ys t x) /\
  tchain 0 (make_consistent ucov bs) /\ nofuse (make_consistent ucov bs).
Proof. exact make_consistent_spec. Qed.

(** the executable instance run by the oracle (insertion sort, union in list order) *)
Theorem C09_range2d_executable_model : forall es,
  (forall e, In e es -> fst (fst e) < snd (fst e) /\ Canon (snd e)) ->
  (forall t x, covE (r2d_build es) t x <-> exists e, In e es /\ inr (fst e) t /\ cov (snd e) x) /\
  tchain 0 (r2d_build es) /\ nofuse (r2d_build es).
Proof. exact r2d_build_spec. Qed.

(** the store's path end to end (range-2D construction, then time_space_iter, which gathers the
    following entries with an equal coverage into one element): exactly the observations are covered,
    every element has a non-empty canonical time list and a non-empty canonical coverage, and the
    elements follow each other in time *)
Theorem C09_store_path_as_written : forall es,
  (forall e, In e es -> fst (fst e) < snd (fst e) /\ Canon (snd e)) ->
  (forall t x, cov2 (time_space_iter (r2d_build es)) t x <-> exists e, In e es /\ inr (fst e) t /\ cov (snd e) x) /\
  STchain 0 (time_space_iter (r2d_build es)).
Proof. exact store_build_spec. Qed.

(** the streaming builder fed with (time cell, space cell) pairs AS WRITTEN (buff_to_moc on the buffer
    sorted by time cell: the space cells of one time cell feed a space builder, consecutive time cells
    with an equal space MOC are gathered in one element), when no flush occurs, with the two cell
    builders taken through their specification (C06): exactly the pairs pushed are covered and no
    element is empty; general form for any correct cell builders, and the executable instance *)
Theorem C09_cell_builder_as_written : forall in1 in2 mk1 mk2,
  (forall cells t, cov (mk1 cells) t <-> exists c, In c cells /\ in1 c t) ->
  (forall cells x, cov (mk2 cells) x <-> exists c, In c cells /\ in2 c x) ->
  (forall cells, cells <> [] -> mk1 cells <> []) -> (forall cells, cells <> [] -> mk2 cells <> []) ->
  forall buff, tsorted 0 buff ->
  (forall t x, cov2 (buff_to_moc mk1 mk2 buff) t x <-> pairs in1 in2 buff t x) /\
  forall e, In e (buff_to_moc mk1 mk2 buff) -> fst e <> [] /\ snd e <> [].
Proof. exact buff_to_moc_spec. Qed.

Theorem C09_cell_builder_executable_model : forall dt ds buff,
  (forall t x, cov2 (st_build dt ds buff) t x <-> exists p, In p buff /\ in_cell Time dt (fst p) t /\ in_cell Hpx ds (snd p) x) /\
  forall e, In e (st_build dt ds buff) -> fst e <> [] /\ snd e <> [].
Proof. exact st_build_spec. Qed.

(** the streaming builder fed with (time range, space cell) observations AS WRITTEN, when no flush
    occurs: push() with its fusion of the last buffered entry (same cell, overlapping or touching
    ranges), then the sweep line (events sorted by position, an End before a Start at the same
    position; multiset of open cells; start_1 = position since which the SET of open cells is
    unchanged; an element is emitted each time that set changes).  General form for ANY correct sort
    and any correct cell-set builder; executable instance run by the oracle. *)
Theorem C09_sweep_line_builder_as_written : forall n ts te cell, (forall i, (i < n)%nat -> ts i < te i) ->
  forall in2 mk2, (forall cells x, cov (mk2 cells) x <-> exists c, In c cells /\ in2 c x) -> (forall cells, cells <> [] -> mk2 cells <> []) ->
  forall bs, StronglySorted ble bs ->
  (forall x i, In (x, i, true) bs <-> ((i < n)%nat /\ x = ts i)) -> (forall x i, In (x, i, false) bs <-> ((i < n)%nat /\ x = te i)) -> NoDup bs ->
  (forall t x, covE (sweep_line cell mk2 bs) t x <-> covObs n ts te cell in2 t x) /\ sch 0 (sweep_line cell mk2 bs).
Proof. exact sweep_line_spec. Qed.

Theorem C09_push_fusion_as_written : forall in2 obs buff t x,
  (forall o, In o obs -> fst (fst o) < snd (fst o)) -> (forall b, In b buff -> fst (fst b) < snd (fst b)) ->
  (covO in2 (fold_left push_obs obs buff) t x <-> covO in2 buff t x \/ covO in2 obs t x) /\
  (forall b, In b (fold_left push_obs obs buff) -> fst (fst b) < snd (fst b)).
Proof. exact push_all_cov. Qed.

Theorem C09_sweep_line_executable_model : forall ds obs, (forall o, In o obs -> fst (fst o) < snd (fst o)) ->
  (forall t x, covE (st_sweep ds obs) t x <-> exists o, In o obs /\ inr (fst o) t /\ x / 2 ^ shift Hpx 64 ds = snd o) /\
  sch 0 (st_sweep ds obs).
Proof. exact st_sweep_spec. Qed.

Print Assumptions C09_observations_pointset.
Print Assumptions C09_depends_on_observation_set_only.
Print Assumptions C09_built_moc_checker_exact.
Print Assumptions C09_stmoc_validity_checker_exact.
Print Assumptions C09_range2d_validity_checker_exact.
Print Assumptions C09_range2d_construction_as_written.
Print Assumptions C09_range2d_executable_model.
Print Assumptions C09_store_path_as_written.
Print Assumptions C09_cell_builder_as_written.
Print Assumptions C09_cell_builder_executable_model.
Print Assumptions C09_sweep_line_builder_as_written.
Print Assumptions C09_push_fusion_as_written.
Print Assumptions C09_sweep_line_executable_model.
