(** Property C13 — the in-memory MOC store is a faithful, linearizable registry.
    Statements only (model: Model/Store.v, the slab + RwLock discipline of store.rs with
    values and library operations as parameters). *)
From Coq Require Import List NArith.
From MOC.Model Require Import Store Locks.
Import ListNotations.

(** (1) sequential refinement: every call on a reachable store is a transition of the
    abstract registry (finite map handle -> (count, value), fresh handle on insertion);
    calls on dead handles, a 256th copy and failing operations return an error and leave
    the registry unchanged; the reference counts stay in 1..255 (no underflow) *)
Theorem C13_sequential_refinement : forall (V : Type) (s : slab V) (c : call V), Inv V s ->
  let (s', r) := exec V s c in
  Inv V s' /\ exists r', step_abs V (abs V s) c r' r /\ same V (abs V s') r'.
Proof. exact exec_refines. Qed.

Theorem C13_every_reachable_store_is_well_formed : forall (V : Type) h s acc, Inv V s ->
  Inv V (fst (fold_left (fun acc c => let (s', r) := exec V (fst acc) c in (s', snd acc ++ [r])) h (s, acc))).
Proof. exact run_inv. Qed.

Theorem C13_initial_store_well_formed : forall V, Inv V (empty_slab V).
Proof. exact inv_empty. Qed.

(** (2) a handle denotes the same MOC until it has been dropped once more than copied *)
Theorem C13_handle_denotation_stable : forall (V : Type) r c r' o k n v,
  step_abs V r c r' o -> r k = Some (n, v) ->
  (exists n', r' k = Some (n', v)) \/ (c = Drop V k /\ n = 1%N /\ r' k = None).
Proof. exact value_stable. Qed.

(** (3) a handle is never handed out for another MOC while live *)
Theorem C13_no_reissue_of_live_handle : forall (V : Type) r c r' k,
  step_abs V r c r' (RKey V k) -> r k = None.
Proof. exact fresh_handle. Qed.

(** (4) linearizability of the two-phase calls (op1 / op2 / opn: read lock, then write lock):
    whatever calls other threads complete between the two phases, as long as they keep the
    call's operands live, the read phase computes the value it would compute immediately
    before its own write phase — the call is equivalent to an atomic call at its write phase *)
Theorem C13_two_phase_calls_linearize_at_their_write_phase :
  forall (V : Type) ks f (others : list (call V)) s, Inv V s ->
  (forall pre c post, others = pre ++ c :: post ->
     keeps V (fst (fold_left (fun acc c => let (s', r) := exec V (fst acc) c in (s', snd acc ++ [r])) pre (s, []))) c ks) ->
  read_phase V (fst (fold_left (fun acc c => let (s', r) := exec V (fst acc) c in (s', snd acc ++ [r])) others (s, []))) ks f
  = read_phase V s ks f.
Proof. exact read_phase_moves_right. Qed.

(** non-vacuity: a history with re-use of a vacated slot, a failed copy on a dead handle and
    an operation on two live operands *)
Example C13_nonvacuous :
  snd (run nat (empty_slab nat)
         [Add nat 10; Add nat 20; Copy nat 0; Drop nat 1; Add nat 30; Read nat 1; Copy nat 7;
          Op nat [0; 1] (fun vs => Some (fold_left Nat.add vs 0)); Drop nat 0; Drop nat 0; Read nat 0])
  = [RKey nat 0; RKey nat 1; ROk nat; ROk nat; RKey nat 1; RVal nat 30; RErr nat;
     RKey nat 2; ROk nat; ROk nat; RErr nat].
Proof. vm_compute. reflexivity. Qed.


(** (3) no deadlock: every store call takes the lock for one phase at a time (read phase, then
    write phase), never while holding it.  For ANY number of threads running such non-nested
    programs, ANY interleaving of their steps and of the registrations of blocked writers
    (std's RwLock is writer-preferring), as long as some thread is unfinished some thread can
    make progress *)
Theorem C13_no_deadlock_any_schedule : forall ps l, Forall phases ps ->
  let c := fold_left exec1 l {| lk := {| readers := []; writer := None; waiting := [] |}; progs := ps |} in
  unfinished c -> exists t c', step c t = Some c'.
Proof. exact no_deadlock. Qed.

Theorem C13_reachable_lock_states_consistent : forall ps l, Forall phases ps ->
  Consistent (fold_left exec1 l {| lk := {| readers := []; writer := None; waiting := [] |}; progs := ps |}).
Proof. exact reachable_consistent. Qed.

(** the side condition is necessary: a read lock requested again while already held dead-locks
    against one waiting writer (the state is reachable, some thread is unfinished, nobody can move) *)
Theorem C13_nested_read_acquisition_deadlocks :
  (exists c1, step {| lk := {| readers := []; writer := None; waiting := [] |};
                      progs := [[AcqR; AcqR; RelR; RelR]; [AcqW; RelW]] |} 0 = Some c1 /\
              register c1 1 = nested_conf) /\
  unfinished nested_conf /\ forall t, step nested_conf t = None.
Proof. exact nested_read_deadlocks. Qed.

Print Assumptions C13_sequential_refinement.
Print Assumptions C13_every_reachable_store_is_well_formed.
Print Assumptions C13_initial_store_well_formed.
Print Assumptions C13_handle_denotation_stable.
Print Assumptions C13_no_reissue_of_live_handle.
Print Assumptions C13_two_phase_calls_linearize_at_their_write_phase.
Print Assumptions C13_no_deadlock_any_schedule.
Print Assumptions C13_reachable_lock_states_consistent.
Print Assumptions C13_nested_read_acquisition_deadlocks.
