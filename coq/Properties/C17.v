(** Property C17 — HEALPix expansion, borders, hole filling and splitting obey their
    definitions; same for Time / Frequency with previous / next cell as neighbours.
    Statements only (models: Model/Neigh.v, NeighHpx.v, NeighTF.v).  [nb] is ANY neighbour
    function that stays inside the depth-d domain; the HEALPix instance [nb8] / [nb4] is
    validated against cdshealpix by the correspondence run (assumption A-hpx). *)
From Coq Require Import List NArith.
From MOC.Base Require Import RangeSet.
From Coq Require Import Permutation Sorted.
From MOC.Model Require Import Qty Query Build Neigh NeighHpx NeighTF FloodFill FloodFillProofs FloodFillSpec.
Import ListNotations.
Open Scope N_scope.

(** expanded = M plus exactly the depth-d cells that are neighbours of a cell of M *)
Theorem C17_expanded_exact : forall nb w d l x, ValidMoc Hpx w d l ->
  (cov (expanded_spec nb w d l) x <->
   let c := x / 2 ^ shift Hpx w d in
   cellin (shift Hpx w d) l c \/ exists c', cellin (shift Hpx w d) l c' /\ In c (nb c')).
Proof. exact expanded_exact. Qed.

Theorem C17_expanded_valid : forall nb w d, d <= max_depth Hpx w ->
  (forall c n, c < n_cells Hpx d -> In n (nb c) -> n < n_cells Hpx d) ->
  forall l, ValidMoc Hpx w d l -> ValidMoc Hpx w d (expanded_spec nb w d l).
Proof. exact expanded_valid. Qed.

(** contracted = complement of the expansion of the complement; equivalently a cell of M
    is kept iff it is the neighbour of no cell outside M *)
Theorem C17_contracted_is_dual : forall nb w d, d <= max_depth Hpx w ->
  (forall c n, c < n_cells Hpx d -> In n (nb c) -> n < n_cells Hpx d) ->
  forall l x, ValidMoc Hpx w d l ->
  (cov (contracted_spec nb w d l) x <->
   x < n_cells_max Hpx w /\ ~ cov (expanded_spec nb w d (compl (n_cells_max Hpx w) l)) x).
Proof. exact contracted_exact. Qed.

Theorem C17_contracted_cells : forall nb w d, d <= max_depth Hpx w ->
  (forall c n, c < n_cells Hpx d -> In n (nb c) -> n < n_cells Hpx d) ->
  forall l x, ValidMoc Hpx w d l ->
  (cov (contracted_spec nb w d l) x <->
   cov l x /\ ~ exists c', c' < n_cells Hpx d /\ ~ cellin (shift Hpx w d) l c' /\
                           In (x / 2 ^ shift Hpx w d) (nb c')).
Proof. exact contracted_cells. Qed.

(** external border = expanded minus M; internal border = M minus contracted *)
Theorem C17_external_border : forall nb w d, d <= max_depth Hpx w ->
  (forall c n, c < n_cells Hpx d -> In n (nb c) -> n < n_cells Hpx d) ->
  forall l x, ValidMoc Hpx w d l ->
  (cov (ext_border_spec nb w d l) x <-> cov (expanded_spec nb w d l) x /\ ~ cov l x).
Proof. exact ext_border_exact. Qed.

Theorem C17_internal_border : forall nb w d, d <= max_depth Hpx w ->
  (forall c n, c < n_cells Hpx d -> In n (nb c) -> n < n_cells Hpx d) ->
  forall l x, ValidMoc Hpx w d l ->
  (cov (int_border_spec nb w d l) x <-> cov l x /\ ~ cov (contracted_spec nb w d l) x).
Proof. exact int_border_exact. Qed.

(** the split checker is exact: YES = parts are non-empty, pairwise disjoint, cover exactly
    M, are pairwise non-adjacent and each connected; NO = one of these clauses fails *)
Theorem C17_split_checker_yes : forall nb M parts, split_okb nb M parts = Yes -> SplitOK nb M parts.
Proof. exact split_okb_yes. Qed.
Theorem C17_split_checker_no : forall nb M parts, split_okb nb M parts = No -> ~ SplitOK nb M parts.
Proof. exact split_okb_no. Qed.

(** hole filling: the checker decides "superset of M, closed under adjacency outside M",
    and such a result only adds whole connected components of the complement *)
Theorem C17_fill_checker_exact : forall nb M out, fill_okb nb M out = true <-> FillOK nb M out.
Proof. exact fill_okb_spec. Qed.
Theorem C17_fill_adds_whole_components : forall nb M out, FillOK nb M out ->
  forall a b, In a out -> ~ In a M -> ReachC nb M a b -> In b out /\ ~ In b M.
Proof. exact fill_adds_whole_components. Qed.

(** the adjacency used by the run is symmetric at the depths it explores *)
Theorem C17_adjacency_symmetric_shallow : forall d, (d <= 3)%nat ->
  symb (nb8 d) (all_cells d) = true /\ symb (nb4 d) (all_cells d) = true.
Proof. intros d H. split; [apply nb8_symmetric_shallow|apply nb4_symmetric_shallow]; exact H. Qed.

(** Time / Frequency: expanded = M plus previous and next cells; contracted = dual *)
Theorem C17_tf_expanded_exact : forall k ncm l, Canon l -> Bounded ncm l -> Aligned k l -> mult2k k ncm ->
  forall x, cov (tf_expanded (2 ^ k) ncm l) x <->
            x < ncm /\ (cov l x \/ cov l (x + 2 ^ k) \/ (2 ^ k <= x /\ cov l (x - 2 ^ k))).
Proof. exact tf_expanded_exact. Qed.

Theorem C17_tf_contracted_exact : forall k ncm l, Canon l -> Bounded ncm l -> Aligned k l -> mult2k k ncm ->
  forall x, cov (tf_contracted (2 ^ k) ncm l) x <->
            cov l x /\ (x + 2 ^ k < ncm -> cov l (x + 2 ^ k)) /\ (2 ^ k <= x -> cov l (x - 2 ^ k)).
Proof. exact tf_contracted_exact. Qed.

Theorem C17_tf_contracted_is_dual : forall k ncm l, Canon l -> Bounded ncm l -> Aligned k l -> mult2k k ncm ->
  forall x, x < ncm ->
  (cov (tf_contracted (2 ^ k) ncm l) x <->
   ~ (~ cov l x \/ (x + 2 ^ k < ncm /\ ~ cov l (x + 2 ^ k)) \/ (2 ^ k <= x /\ ~ cov l (x - 2 ^ k)))).
Proof. exact tf_contracted_is_dual. Qed.

(** D08: the contraction before the repair is wrong where a range touches the domain bound *)
Theorem C17_tf_contracted_d08_refuted :
  let l := [(0, 5)] in
  Canon l /\ Bounded 8 l /\ Aligned 0 l /\
  tf_contracted_d08 (2 ^ 0) l = [(1, 4)] /\ tf_contracted (2 ^ 0) 8 l = [(0, 4)] /\
  cov l 0 /\ cov l 1 /\ ~ cov (tf_contracted_d08 (2 ^ 0) l) 0.
Proof. exact tf_contracted_d08_refuted. Qed.

Example C17_nonvacuous_hpx :
  nb8 0 0 = [4; 3; 2; 1; 5; 8] /\ nb8 1 0 = [17; 19; 2; 3; 1; 23; 22; 35] /\ nb4 0 4 = [11; 3; 0; 8] /\
  nb8 2 5 = [4; 6; 7; 27; 26; 95; 94] /\
  expanded_spec (nb8 1) 16 1 [(0, 256)] = [(0, 1024); (4352, 4608); (4864, 5120); (5632, 6144); (8960, 9216)] /\
  tf_contracted (2 ^ 1) 16 [(0, 4); (6, 8); (10, 16)] = [(0, 2); (12, 16)].
Proof. repeat split; vm_compute; reflexivity. Qed.

Example C17_nonvacuous_split :
  (* depth 0: base cells 0 and 2 do not touch by an edge but share the north pole vertex *)
  split_okb (nb4 0) [0; 2] [[0]; [2]] = Yes /\ split_okb (nb8 0) [0; 2] [[0]; [2]] = No /\
  split_okb (nb8 0) [0; 2] [[0; 2]] = Yes /\ split_okb (nb4 0) [0; 2] [[0; 2]] = No /\
  fill_okb (nb8 0) [0; 1; 2; 3; 4; 5; 6; 7] [0; 1; 2; 3; 4; 5; 6; 7; 8; 9; 10; 11] = true /\
  fill_okb (nb8 0) [0; 1; 2; 3; 4; 5; 6; 7] [0; 1; 2; 3; 4; 5; 6; 7; 8] = false.
Proof. repeat split; vm_compute; reflexivity. Qed.

(** ---------- the flood fill of split_into_joint_mocs_gen as written (Model/FloodFill.v) ----------
    First a weaker statement that needs NO hypothesis on the cells (C17_split_floodfill_components below is
    the full one): for ANY external-edge function (right or wrong) both loops end
    within their fuel, no component is empty and every cell of the MOC is in exactly one component
    (the concatenation of the components is a permutation of the cells).  Not in this weaker statement:
    connectedness of each component and non-adjacency of two components (one step towards it is proved below:
    a search on a fresh vector finds the cell containing the searched edge cell); these are decided on every output
    of the implementation by the verified checker (C17_split_checker_yes / _no). *)
Theorem C17_split_floodfill_partition_partial : forall maxd dmax (ext : N -> N -> list N) cells,
  maxd <= 64 -> Forall (fun c => fst c <= maxd) cells ->
  exists comps, ff_split maxd dmax ext cells = Some comps /\
                Forall (fun c => c <> []) comps /\ Permutation (concat comps) cells.
Proof. exact split_partition. Qed.

(** decoding a zuniq gives back the cell (trailing zeros, shift) *)
Theorem C17_zuniq_roundtrip : forall maxd d i, d <= maxd -> maxd <= 64 ->
  ff_from_zuniq maxd (ff_zuniq maxd d i) = (d, i).
Proof. exact from_zuniq_zuniq. Qed.

(** why the binary search only has to look at the elements i-1 and i: in a sorted vector whose other
    elements are outside the interval [lo, hi) that contains both z and the key, the number of elements
    below the key is the position of z, or that position plus one *)
Theorem C17_floodfill_lookup_position : forall (before after : list N) (z lo hi key : N),
  StronglySorted N.lt (before ++ z :: after) -> lo <= z < hi -> lo <= key < hi ->
  Forall (fun y => y < lo \/ hi <= y) (before ++ after) ->
  ff_count_lt key (before ++ z :: after) = (if z <? key then S (length before) else length before).
Proof. exact lookup_position. Qed.

(** one search of the flood fill on a fresh vector (sorted, pairwise non-overlapping cells of depth <= dmax):
    if the cell a of the MOC contains the searched depth-dmax cell x, the search flags exactly a and pushes it *)
Theorem C17_floodfill_search_finds_container : forall maxd dmax, maxd <= 64 -> dmax <= maxd ->
  forall bc a ac stack x,
  Forall (fun c => fst c <= dmax) (bc ++ a :: ac) ->
  StronglySorted N.lt (map (zun maxd) (bc ++ a :: ac)) ->
  Forall (disj maxd a) (bc ++ ac) ->
  contains dmax a x ->
  ff_visit maxd dmax (map (fun c : N * N => 2 * zun maxd c) (bc ++ a :: ac), stack) x
  = (set_flag (length bc) (map (fun c : N * N => 2 * zun maxd c) (bc ++ a :: ac)), stack ++ [zun maxd a]).
Proof. exact visit_finds_container. Qed.

(** the flood fill computes reachability classes, for ANY external-edge function: with
    R a b := "some cell of ext a lies inside the cell b of the MOC", every component is exactly the set of
    the cells reachable through R from the first cell that was still there, listed in vector order, and the
    next component is computed on the cells that are left (SplitSpec).  Hypotheses: the cells are those of a
    MOC of depth dmax - depth <= dmax, sorted by zuniq, pairwise non-overlapping.
    C17_split_floodfill_meets_definition(_shallow) below link R to the flat adjacency of the property.  What
    remains outside the theorems: that cdshealpix's external_edge of a cell lists the depth-dmax neighbours of its
    border sub-cells (tied at run time: the model fed with ext_of nb must produce, component by component and
    cell by cell, what the implementation produces; neighbour tables compared cell by cell). *)
Theorem C17_split_floodfill_components : forall maxd dmax, maxd <= 64 -> dmax <= maxd ->
  forall (ext : N -> N -> list N) cells,
  Forall (fun c => fst c <= dmax) cells ->
  StronglySorted N.lt (map (zun maxd) cells) ->
  ForallOrdPairs (disj maxd) cells ->
  exists comps, ff_split maxd dmax ext cells = Some comps /\ SplitSpec dmax ext cells comps.
Proof. exact split_components. Qed.

(** one search of the flood fill, on ANY vector (some cells already visited): the unvisited cell containing the
    searched edge cell - there is at most one - is flagged and pushed, nothing else changes *)
Theorem C17_floodfill_search_general : forall maxd dmax, maxd <= 64 -> dmax <= maxd ->
  forall bc e ac stack x,
  fcells_ok maxd dmax (bc ++ e :: ac) -> contains dmax (fst e) x ->
  ff_visit maxd dmax (map (enc maxd) (bc ++ e :: ac), stack) x =
  if snd e then (map (enc maxd) (bc ++ e :: ac), stack)
  else (map (enc maxd) (mark_at (length bc) (bc ++ e :: ac)), stack ++ [zun maxd (fst e)]).
Proof. exact visit_general. Qed.

Theorem C17_floodfill_search_nothing : forall maxd dmax, maxd <= 64 -> dmax <= maxd ->
  forall l stack x, fcells_ok maxd dmax l -> (forall e, In e l -> ~ contains dmax (fst e) x) ->
  ff_visit maxd dmax (map (enc maxd) l, stack) x = (map (enc maxd) l, stack).
Proof. exact visit_nothing. Qed.

(** ---------- from the reachability classes to the property's definition on the flat cell set ----------
    When the external edge of a cell is "the depth-dmax neighbours of its sub-cells that are not sub-cells"
    (ext_of nb), nb is symmetric on the domain D and the sub-cells of every cell are connected, the parts the
    flood fill returns for the cells of a MOC are non-empty, pairwise disjoint, cover exactly the MOC, are
    pairwise non-adjacent and each connected: SplitOK, the definition the property states. *)
Theorem C17_split_floodfill_meets_definition : forall (nb : N -> list N) maxd dmax, maxd <= 64 -> dmax <= maxd ->
  forall D : N -> Prop,
  (forall x y, D y -> In x (nb y) -> In y (nb x)) ->
  (forall c, fst c <= dmax -> (forall x, contains dmax c x -> D x) -> Connected nb (subs dmax c)) ->
  forall cells,
  Forall (fun c => fst c <= dmax) cells ->
  StronglySorted N.lt (map (zun maxd) cells) ->
  ForallOrdPairs (disj maxd) cells ->
  (forall c x, In c cells -> contains dmax c x -> D x) ->
  exists comps, ff_split maxd dmax (ext_of nb dmax) cells = Some comps /\
                SplitOK nb (flatc dmax cells) (map (flatc dmax) comps).
Proof. exact split_meets_definition. Qed.

(** ... and both hypotheses hold for the edge-only and the edge-or-vertex adjacency of the model at every depth
    <= 3 (finite sweeps computed inside Coq): at these depths, for every index width, the modelled
    split_into_joint_mocs meets its definition on EVERY MOC *)
Theorem C17_split_floodfill_meets_definition_shallow : forall (d : nat) (indirect : bool) maxd cells,
  (d <= 3)%nat -> maxd <= 64 -> N.of_nat d <= maxd ->
  let nb := if indirect then nb8 d else nb4 d in
  let dmax := N.of_nat d in
  Forall (fun c => fst c <= dmax /\ snd c < 12 * 4 ^ fst c) cells ->
  StronglySorted N.lt (map (zun maxd) cells) ->
  ForallOrdPairs (disj maxd) cells ->
  exists comps, ff_split maxd dmax (ext_of nb dmax) cells = Some comps /\
                SplitOK nb (flatc dmax cells) (map (flatc dmax) comps).
Proof. exact split_meets_definition_shallow. Qed.

(** ---------- hole filling as written (fill_holes / fill_holes_smaller_than, Model/FloodFill.v ff_fill, ff_fill_smaller) ----------
    adding ANY selection of the parts of the complement to the MOC only adds whole connected components of the
    complement ... *)
Theorem C17_fill_from_split : forall (nb : N -> list N) (M Cmp : list N) (parts sel : list (list N)),
  SplitOK nb Cmp parts -> (forall p, In p sel -> In p parts) ->
  (forall c n, In c Cmp -> In n (nb c) -> In n M \/ In n Cmp) ->
  FillOK nb M (M ++ concat sel).
Proof. exact fill_from_split. Qed.

(** ... hence the modelled fill_holes(n) and fill_holes_smaller_than(f) meet the property's definition on every
    MOC of depth <= 3, for every index width, every n and every f *)
Theorem C17_fill_meets_definition_shallow : forall (d : nat) maxd (M : list N) cmp_cells,
  (d <= 3)%nat -> maxd <= 64 -> N.of_nat d <= maxd ->
  let nb := nb8 d in
  let dmax := N.of_nat d in
  Forall (fun c => fst c <= dmax /\ snd c < 12 * 4 ^ fst c) cmp_cells ->
  StronglySorted N.lt (map (zun maxd) cmp_cells) ->
  ForallOrdPairs (disj maxd) cmp_cells ->
  (forall x, x < 12 * 4 ^ dmax -> In x M \/ In x (flatc dmax cmp_cells)) ->
  (forall except, exists sel, ff_fill maxd dmax (ext_of nb dmax) cmp_cells except = Some sel /\
                              FillOK nb M (M ++ concat (map (flatc dmax) sel))) /\
  (forall num den, exists sel, ff_fill_smaller maxd dmax (ext_of nb dmax) cmp_cells num den = Some sel /\
                               FillOK nb M (M ++ concat (map (flatc dmax) sel))).
Proof. exact fill_meets_definition_shallow. Qed.

Example C17_nonvacuous_floodfill :
  ff_split 29 1 (ext_of (nb4 1) 1) [(0, 0); (0, 2); (1, 20)] = Some [[(0, 0)]; [(0, 2)]; [(1, 20)]] /\
  ff_split 29 1 (ext_of (nb8 1) 1) [(0, 0); (0, 2); (1, 20)] = Some [[(0, 0); (0, 2)]; [(1, 20)]] /\
  ff_split 29 1 (ext_of (nb4 1) 1) [(0, 0); (1, 19); (0, 10)] = Some [[(0, 0); (1, 19)]; [(0, 10)]].
Proof. repeat split; vm_compute; reflexivity. Qed.

Print Assumptions C17_expanded_exact.
Print Assumptions C17_expanded_valid.
Print Assumptions C17_contracted_is_dual.
Print Assumptions C17_contracted_cells.
Print Assumptions C17_external_border.
Print Assumptions C17_internal_border.
Print Assumptions C17_split_checker_yes.
Print Assumptions C17_split_checker_no.
Print Assumptions C17_fill_checker_exact.
Print Assumptions C17_fill_adds_whole_components.
Print Assumptions C17_adjacency_symmetric_shallow.
Print Assumptions C17_tf_expanded_exact.
Print Assumptions C17_tf_contracted_exact.
Print Assumptions C17_tf_contracted_is_dual.
Print Assumptions C17_tf_contracted_d08_refuted.
Print Assumptions C17_split_floodfill_partition_partial.
Print Assumptions C17_zuniq_roundtrip.
Print Assumptions C17_floodfill_lookup_position.
Print Assumptions C17_floodfill_search_finds_container.
Print Assumptions C17_split_floodfill_components.
Print Assumptions C17_floodfill_search_general.
Print Assumptions C17_floodfill_search_nothing.
Print Assumptions C17_split_floodfill_meets_definition.
Print Assumptions C17_split_floodfill_meets_definition_shallow.
Print Assumptions C17_fill_from_split.
Print Assumptions C17_fill_meets_definition_shallow.
