(** Property C18 — physical quantities map to MOC indices monotonically and invertibly.
    Statements only (model: Model/Freq.v; patterns are the 64-bit patterns of the doubles). *)
From Coq Require Import List NArith.
From MOC.Base Require Import RangeSet.
From MOC.Model Require Import Qty Build Repr Freq.
Import ListNotations.
Open Scope N_scope.

(** on the whole supported interval the mask / shift / or computation of the source is the
    translation by the exponent bias 929 * 2^52 *)
Theorem C18_freq2hash_is_bias_translation : forall b,
  MIN_BITS <= b <= MAX_BITS -> freq2hash b = Some (b - 929 * 2 ^ 52).
Proof. exact freq2hash_arith. Qed.

(** values outside the interval (all other patterns: negative, NaN, infinite, subnormal,
    too small, too large) are rejected, not wrapped *)
Theorem C18_accepted_iff_in_interval : forall b,
  (exists h, freq2hash b = Some h) <-> MIN_BITS <= b <= MAX_BITS.
Proof. exact freq2hash_accepts_iff. Qed.

Theorem C18_freq2hash_strictly_increasing : forall b1 b2 h1 h2,
  freq2hash b1 = Some h1 -> freq2hash b2 = Some h2 -> (b1 < b2 <-> h1 < h2).
Proof. exact freq2hash_strictly_increasing. Qed.

Theorem C18_hash_in_domain : forall b h, freq2hash b = Some h -> h < n_cells_max Freq 64.
Proof. exact freq2hash_in_domain. Qed.

(** with 64-bit indices the inverse returns the original pattern bit for bit *)
Theorem C18_hash2freq_inverts_bit_for_bit : forall b h, freq2hash b = Some h -> hash2freq h = Some b.
Proof. exact hash2freq_freq2hash. Qed.

Theorem C18_hash2freq_strictly_increasing : forall h1 h2 b1 b2,
  h1 <= n_cells_max Freq 64 -> h2 <= n_cells_max Freq 64 ->
  hash2freq h1 = Some b1 -> hash2freq h2 = Some b2 -> (h1 < h2 <-> b1 < b2).
Proof. exact hash2freq_strictly_increasing. Qed.

(** IEEE-754 binary64: the order of the patterns is the order of the values
    (value * 2^1075 = (2^52 + mantissa) * 2^exponent-field) *)
Theorem C18_pattern_order_is_value_order : forall b1 b2, b1 < b2 <-> fval b1 < fval b2.
Proof. exact pattern_order_is_value_order. Qed.

(** a T- or F-MOC built from values contains exactly the depth-d cells containing those
    values, for every index width *)
Theorem C18_moc_from_values_exact : forall q w d hs x, tf q -> okw w -> d <= max_depth q w ->
  (cov (moc_of_values q w d hs) x <-> exists h, In h hs /\ x / 2 ^ shift q w d = h / 2 ^ shift q 64 d).
Proof. exact moc_of_values_exact. Qed.

(** a T- or F-MOC built from ranges contains exactly the depth-d cells meeting one of the
    (non-empty) ranges, for every index width *)
Theorem C18_moc_from_ranges_exact : forall q w d rs x, tf q -> okw w -> d <= max_depth q w ->
  (cov (moc_of_ranges q w d rs) x <->
   exists r z, In r rs /\ fst r <= z < snd r /\ x / 2 ^ shift q w d = z / 2 ^ shift q 64 d).
Proof. exact moc_of_ranges_exact. Qed.

(** converting back to hertz ranges encloses the values *)
Theorem C18_hz_ranges_enclose : forall s e b h bs be,
  s <= h < e -> e <= n_cells_max Freq 64 -> freq2hash b = Some h ->
  hash2freq s = Some bs -> hash2freq e = Some be -> bs <= b < be.
Proof. exact hz_range_encloses. Qed.

(** a MOC of one width converted to a wider one covers the same physical interval *)
Theorem C18_widening_same_interval : forall k l x, cov (scale k l) x <-> cov l (x / 2 ^ k).
Proof. exact scale_cov. Qed.

Example C18_nonvacuous :
  freq2hash 4607182418800017408 = Some 423338364972826624 /\     (* 1.0 Hz *)
  hash2freq 423338364972826624 = Some 4607182418800017408 /\
  freq2hash (MIN_BITS - 1) = None /\ freq2hash (MAX_BITS + 1) = None /\
  freq2hash MAX_BITS = Some (2 ^ 60 - 1) /\ freq2hash MIN_BITS = Some 0 /\
  moc_of_values Time 32 3 [5 * 2 ^ 58 + 17] = [(5 * 2 ^ 26, 6 * 2 ^ 26)] /\
  moc_of_ranges Freq 16 11 [(3 * 2 ^ 48 + 1, 3 * 2 ^ 48 + 2)] = [(3, 4)].
Proof. repeat split; vm_compute; reflexivity. Qed.

Print Assumptions C18_freq2hash_is_bias_translation.
Print Assumptions C18_accepted_iff_in_interval.
Print Assumptions C18_freq2hash_strictly_increasing.
Print Assumptions C18_hash_in_domain.
Print Assumptions C18_hash2freq_inverts_bit_for_bit.
Print Assumptions C18_hash2freq_strictly_increasing.
Print Assumptions C18_pattern_order_is_value_order.
Print Assumptions C18_moc_from_values_exact.
Print Assumptions C18_moc_from_ranges_exact.
Print Assumptions C18_hz_ranges_enclose.
Print Assumptions C18_widening_same_interval.
