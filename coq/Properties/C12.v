(** Property C12 — decoders are total on arbitrary bytes; accepted text documents are valid.
    Statements only.  Totality on arbitrary bytes is a property of the Rust code (panics,
    arithmetic overflow, allocation requests): it is observed by the correspondence run
    (mutation sweep, random bytes, allocation monitor), not provable about a Gallina model,
    where every function is total by construction.  What IS proved: the validation the text
    decoders must perform accepts only valid MOCs. *)
From Coq Require Import List NArith.
From MOC.Base Require Import RangeSet.
From MOC.Model Require Import Qty Query Build Repr TextValid.
Import ListNotations.
Open Scope N_scope.

Theorem C12_accepted_text_is_a_valid_moc : forall q w marks doc,
  text_accept q w doc = true ->
  text_depth marks doc <= max_depth q w ->
  ValidMoc q w (text_depth marks doc) (text_decode q w doc).
Proof. exact accepted_is_valid. Qed.

Theorem C12_accepted_cells_inside_their_domain : forall q w doc it,
  text_accept q w doc = true -> In it doc ->
  fst it <= max_depth q w /\ fst (snd it) < snd (snd it) /\ snd (snd it) <= n_cells q (fst it).
Proof. exact accepted_items_in_domain. Qed.

Theorem C12_accepted_cover : forall q w doc x,
  cov (text_decode q w doc) x <-> exists it, In it doc /\ inr (irange q w it) x.
Proof. exact accepted_cover. Qed.

Example C12_nonvacuous :
  text_accept Hpx 64 [(0, (0, 12))] = true /\ text_accept Hpx 64 [(0, (0, 13))] = false /\
  text_accept Hpx 64 [(0, (12, 13))] = false /\ text_accept Hpx 64 [(1, (5, 3))] = false /\
  text_accept Hpx 64 [(30, (1, 2))] = false /\ text_accept Hpx 64 [(5, (1, 2)); (3, (760, 800))] = false /\
  text_accept Hpx 64 [(1, (0, 4)); (0, (0, 1))] = false /\
  text_accept Hpx 64 [(5, (1, 2)); (3, (760, 768))] = true.
Proof. repeat split; vm_compute; reflexivity. Qed.

Print Assumptions C12_accepted_text_is_a_valid_moc.
Print Assumptions C12_accepted_cells_inside_their_domain.
Print Assumptions C12_accepted_cover.
