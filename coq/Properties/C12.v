(** Property C12 — decoders are total on arbitrary bytes; accepted text documents are valid.
    Statements only.  Totality on arbitrary bytes is a property of the Rust code (panics,
    arithmetic overflow, allocation requests): it is observed by the correspondence run
    (mutation sweep, random bytes, allocation monitor), not provable about a Gallina model,
    where every function is total by construction.  What IS proved: the validation the text
    decoders must perform accepts only valid MOCs; and, for the faithful byte / character level
    models of the FITS MOC reader and of the ASCII readers (compared with the code, verdict for
    verdict, on written, mutated and assembled documents by the correspondence run), that the
    bounded-fuel loops always have enough fuel: whatever the bytes, the model returns a MOC or
    one of the code's own error values. *)
From Coq Require Import List NArith.
From MOC.Base Require Import RangeSet.
From MOC.Model Require Import Qty Query Build Repr TextValid FitsGuards AsciiCodec AsciiProofs FitsCodec FitsProofs JsonCodec JsonProofs JsonMoc.
From Coq Require Import Permutation Sorted.
Import ListNotations.
Open Scope N_scope.

Theorem C12_accepted_text_is_a_valid_moc : forall q w marks doc,
  text_accept q w doc = true ->
  text_depth marks doc <= max_depth q w ->
  ValidMoc q w (text_depth marks doc) (text_decode q w doc).
Proof. exact accepted_is_valid. Qed.

Theorem C12_accepted_cells_inside_their_domain : forall q w doc it,
  text_accept q w doc = true -> In it doc ->
  fst it <= max_depth q w /\ fst (snd it) < snd (snd it) /\ snd (snd it) <= n_cells q (fst it).
Proof. exact accepted_items_in_domain. Qed.

Theorem C12_accepted_cover : forall q w doc x,
  cov (text_decode q w doc) x <-> exists it, In it doc /\ inr (irange q w it) x.
Proof. exact accepted_cover. Qed.

(** the model of from_fits_ivoa (Model/FitsCodec.v: block reads, keyword loop, NUNIQ loop) never
    exhausts its fuel: on EVERY byte string it returns a decoded MOC or an error value of the code *)
Theorem C12_fits_reader_total : forall b, fits_read b <> FErr FFuel.
Proof. exact fits_read_total. Qed.

(** same for the model of the multi-order-map reader (header cards, keyword loop, rows) *)
Theorem C12_mom_reader_total : forall b, mom_read b <> MomErr FFuel.
Proof. exact mom_read_total. Qed.

(** same for the model of the sky-map reader up to the pixel values (header cards, keyword loop, size guards, rows available) *)
Theorem C12_skymap_reader_total : forall b, sky_read b <> SkyErr FFuel.
Proof. exact sky_read_total. Qed.

(** whatever the characters, a document the ASCII reader accepts is a valid, ascending, in-domain
    element list of depth <= MAX_DEPTH (C07_ascii_reader_sound, restated for this property) *)
Theorem C12_ascii_accepts_only_valid : forall (sortf : qty -> list aelem -> list aelem),
  (forall q l, Permutation (sortf q l) l) ->
  (forall q l, Sorted (fun a b => flat_leb q a b = true) (sortf q l)) ->
  forall q w s dm l, from_ascii sortf q w s = AOk (dm, l) ->
  dm <= max_depth q w /\ Forall (elem_wf q dm) l /\ asc 0 (map (erange q w) l).
Proof. exact reader_sound. Qed.

(** the same for the JSON reader: whatever the characters (inside the JSON subset of the model, where the
    parse is determined), a document from_json_aladin accepts is a list of cells of depth <= the returned
    depth <= MAX_DEPTH, inside their domain, ascending and pairwise disjoint *)
Theorem C12_json_accepts_only_valid : forall (sortf : qty -> list aelem -> list aelem),
  (forall q l, Permutation (sortf q l) l) ->
  (forall q l, Sorted (fun a b => flat_leb q a b = true) (sortf q l)) ->
  forall q w s dm l, from_json sortf q w s = JRRes (AOk (dm, l)) ->
  dm <= max_depth q w /\ Forall (elem_wf q dm) l /\ asc 0 (map (erange q w) l).
Proof. exact json_reader_sound. Qed.

(** ... and for the 2-D JSON reader: every element of an accepted document has two non-empty sides made of
    in-domain, ascending, pairwise disjoint cells of depth <= the returned depths <= MAX_DEPTH *)
Theorem C12_json_st_accepts_only_valid : forall (sortf : qty -> list aelem -> list aelem),
  (forall q l, Permutation (sortf q l) l) ->
  (forall q l, Sorted (fun a b => flat_leb q a b = true) (sortf q l)) ->
  forall q1 w1 q2 w2 p1 p2 s d1 d2 l, st_from_json sortf q1 w1 q2 w2 p1 p2 s = J2Ok d1 d2 l ->
  d1 <= max_depth q1 w1 /\ d2 <= max_depth q2 w2 /\ Forall (st_elem_ok q1 w1 q2 w2 d1 d2) l.
Proof. exact st_json_reader_sound. Qed.

Example C12_nonvacuous :
  text_accept Hpx 64 [(0, (0, 12))] = true /\ text_accept Hpx 64 [(0, (0, 13))] = false /\
  text_accept Hpx 64 [(0, (12, 13))] = false /\ text_accept Hpx 64 [(1, (5, 3))] = false /\
  text_accept Hpx 64 [(30, (1, 2))] = false /\ text_accept Hpx 64 [(5, (1, 2)); (3, (760, 800))] = false /\
  text_accept Hpx 64 [(1, (0, 4)); (0, (0, 1))] = false /\
  text_accept Hpx 64 [(5, (1, 2)); (3, (760, 768))] = true.
Proof. repeat split; vm_compute; reflexivity. Qed.

(** the size arithmetic of the two FITS map readers, with machine semantics explicit (a subtraction
    below zero is the outcome Panic): for EVERY header value the outcome is Ok or Err, never Panic, and
    an accepted header requests at most 65535 bytes for the skip buffer; the guard without [* n_pack]
    (seeded change S-C12-2) does reach Panic *)
Theorem C12_skymap_header_arithmetic_total : forall is_f64 n_pack naxis1 naxis2 ncells,
  skymap_guard is_f64 n_pack naxis1 naxis2 ncells <> Panic /\
  forall skip, skymap_guard is_f64 n_pack naxis1 naxis2 ncells = Ok skip ->
    skip <= 65535 /\ skip + (if is_f64 then 8 else 4) * n_pack = naxis1 /\ naxis2 * n_pack = ncells.
Proof. exact skymap_guard_total. Qed.

Theorem C12_multiordermap_header_arithmetic_total : forall naxis1, mom_guard naxis1 <> Panic /\
  forall skip, mom_guard naxis1 = Ok skip -> skip <= 65535 /\ skip + 16 = naxis1.
Proof. exact mom_guard_total. Qed.

Theorem C12_skymap_guard_without_n_pack_refuted : skymap_guard_d false 1024 4 12 (12 * 1024) = Panic.
Proof. exact skymap_guard_d_refuted. Qed.

Print Assumptions C12_accepted_text_is_a_valid_moc.
Print Assumptions C12_accepted_cells_inside_their_domain.
Print Assumptions C12_accepted_cover.
Print Assumptions C12_skymap_header_arithmetic_total.
Print Assumptions C12_multiordermap_header_arithmetic_total.
Print Assumptions C12_skymap_guard_without_n_pack_refuted.
Print Assumptions C12_fits_reader_total.
Print Assumptions C12_ascii_accepts_only_valid.
Print Assumptions C12_mom_reader_total.
Print Assumptions C12_skymap_reader_total.
Print Assumptions C12_json_accepts_only_valid.
Print Assumptions C12_json_st_accepts_only_valid.
