(** Property C05 — changes of representation are lossless and yield the unique
    normal form.  Statements only. *)
From Coq Require Import List NArith.
From MOC.Base Require Import RangeSet.
From MOC.Model Require Import Qty Query Build Repr CellsSM Adapters.
Import ListNotations.
Open Scope N_scope.

(** the checker that judges the implementation's cell view decides exactly the
    property's normal form: cells inside their depth's domain and no deeper than the
    MOC depth, ascending and disjoint, covering exactly the MOC, and maximal (no cell
    whose parent is entirely covered — in particular never all children of one
    parent together) *)
Theorem C05_cell_normal_form_checker_exact : forall q w d l cells, Canon l ->
  (normal_cellsb q w d l cells = true <-> NormalCells q w d l cells).
Proof. exact normal_cellsb_spec. Qed.

Theorem C05_nuniq_roundtrip : forall d i, i < 12 * 4 ^ d -> from_uniq_hpx (uniq_hpx d i) = (d, i).
Proof. exact uniq_hpx_roundtrip. Qed.

Theorem C05_nuniq_injective : forall d i d' i', i < 12 * 4 ^ d -> i' < 12 * 4 ^ d' ->
  uniq_hpx d i = uniq_hpx d' i' -> d = d' /\ i = i'.
Proof. exact uniq_hpx_injective. Qed.

Theorem C05_nuniq_order : forall d i d' i', i < 12 * 4 ^ d -> i' < 12 * 4 ^ d' ->
  (uniq_hpx d i < uniq_hpx d' i' <-> d < d' \/ (d = d' /\ i < i')).
Proof. exact uniq_hpx_order. Qed.

Theorem C05_zuniq_roundtrip : forall q w d i, d <= max_depth q w ->
  from_zuniq q w (to_zuniq q w d i) = (d, i).
Proof. exact zuniq_roundtrip. Qed.

(** widening u16 -> u32 -> u64: same depth, valid, and the covered set is the
    same physical set (every index scaled by the width ratio) *)
Theorem C05_widening_valid : forall q w w' d l, widen_ok q w w' = true -> w <= w' ->
  ValidMoc q w d l -> ValidMoc q w' d (scale (w' - w) l).
Proof. exact scale_valid. Qed.

Theorem C05_widening_all_supported_widths : forall q,
  widen_ok q 16 32 = true /\ widen_ok q 16 64 = true /\ widen_ok q 32 64 = true.
Proof. exact widen_ok_all. Qed.

Theorem C05_widening_same_set : forall k l x, cov (scale k l) x <-> cov l (x / 2 ^ k).
Proof. exact scale_cov. Qed.

Example C05_nonvacuous :
  normal_cellsb Hpx 16 2 [(0, 1024); (1088, 1152)] [(0, 0); (2, 17)] = true /\
  normal_cellsb Hpx 16 2 [(0, 1024); (1088, 1152)] [(1, 0); (1, 1); (1, 2); (1, 3); (2, 17)] = false /\
  from_uniq_hpx (uniq_hpx 7 12345) = (7, 12345) /\ from_zuniq Hpx 32 (to_zuniq Hpx 32 9 777) = (9, 777).
Proof. repeat split; vm_compute; reflexivity. Qed.

(** the ranges -> cells decomposition AS THE CODE COMPUTES IT (next_cell_with_knowledge: a depth-d
    cell when the remaining length is one cell or the start is not aligned on the parent, otherwise the
    cell of depth MAX_DEPTH - min(log2(len)/dim, trailing_zeros(start)/dim, MAX_DEPTH)) yields the
    normal form of every valid MOC: depths <= d and indices in range, ascending and disjoint, exact
    cover, and no cell whose parent is covered; and one step never yields a cell smaller than a cell
    that is aligned at the start and fits (greedy dominance) *)
Theorem C05_decomposition_is_normal_form : forall q w d l,
  ValidMoc q w d l -> NormalCells q w d l (moc_cells q w d l).
Proof. exact moc_cells_normal. Qed.

(** the executable form (small fuel, error value when exhausted) that the oracle runs *)
Theorem C05_decomposition_bounded_fuel_is_normal_form : forall q w d l cells,
  ValidMoc q w d l -> moc_cells_o q w d l = Some cells -> NormalCells q w d l cells.
Proof. exact moc_cells_o_normal. Qed.

Theorem C05_decomposition_step : forall dm maxd nbits d, 0 < dm -> d <= maxd -> dm * maxd <= nbits ->
  forall s e, mult2k (sdd dm maxd d) s -> mult2k (sdd dm maxd d) e -> s < e ->
  exists k i s', step dm maxd nbits d s e = Some (k, i, s') /\ StepOK dm maxd d s e k i s'.
Proof. exact step_ok. Qed.

Example C05_decomposition_fuel_suffices_on_extreme_ranges :
  moc_cells_o Hpx 64 29 [(1, 12 * 4 ^ 29 - 1)] <> None /\ moc_cells_o Time 64 61 [(1, 2 ^ 62 - 1)] <> None.
Proof. split; vm_compute; discriminate. Qed.

Example C05_decomposition_nonvacuous :
  moc_cells Hpx 64 2 [(3 * 2 ^ 54, 21 * 2 ^ 54)] = [(2, 3); (1, 1); (1, 2); (1, 3); (1, 4); (2, 20)] /\
  ValidMoc Hpx 64 2 [(3 * 2 ^ 54, 21 * 2 ^ 54)].
Proof. split; [vm_compute; reflexivity|apply valid_mocb_spec; vm_compute; reflexivity]. Qed.

(** the other adapters AS WRITTEN: cells -> cell ranges (consecutive same-depth cells gathered) is
    lossless for ANY cell list; cells -> ranges (touching cell ranges fused) gives the canonical list
    of the union, hence the MOC itself from its normal form *)
Theorem C05_cellranges_lossless : forall l, cells_of_cellranges (cellranges l) = l.
Proof. exact cellranges_roundtrip. Qed.

Theorem C05_ranges_from_cells_as_written : forall q w d l cells, Canon l -> NormalCells q w d l cells ->
  ranges_of_cells q w cells = l.
Proof. exact ranges_of_normal_cells. Qed.

Theorem C05_cells_ranges_roundtrip : forall q w d l, ValidMoc q w d l ->
  ranges_of_cells q w (moc_cells q w d l) = l.
Proof. intros q w d l H. apply (ranges_of_normal_cells q w d l); [exact (v_canon _ _ (vm_valid _ _ _ _ H))|exact (moc_cells_normal q w d l H)]. Qed.

Print Assumptions C05_cell_normal_form_checker_exact.
Print Assumptions C05_nuniq_roundtrip.
Print Assumptions C05_nuniq_injective.
Print Assumptions C05_nuniq_order.
Print Assumptions C05_zuniq_roundtrip.
Print Assumptions C05_widening_valid.
Print Assumptions C05_widening_all_supported_widths.
Print Assumptions C05_widening_same_set.
Print Assumptions C05_decomposition_is_normal_form.
Print Assumptions C05_decomposition_step.
Print Assumptions C05_decomposition_bounded_fuel_is_normal_form.
Print Assumptions C05_cellranges_lossless.
Print Assumptions C05_ranges_from_cells_as_written.
Print Assumptions C05_cells_ranges_roundtrip.
