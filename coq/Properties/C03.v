(** Property C03 — membership, containment, overlap and measure queries agree with
    the covered set.  Statements only. *)
From Coq Require Import List NArith Lia.
From MOC.Base Require Import RangeSet.
From MOC.Model Require Import Query.
Import ListNotations.
Open Scope N_scope.

Theorem C03_contains_val : forall l x, contains_val l x = true <-> cov l x.
Proof. exact contains_val_spec. Qed.

Theorem C03_contains_range : forall l a b, Canon l -> a < b ->
  (contains_range l a b = true <-> forall x, a <= x < b -> cov l x).
Proof. exact contains_range_spec. Qed.

Theorem C03_intersects_range : forall l a b, Canon l -> a < b ->
  (intersects_range l a b = true <-> exists x, (a <= x < b) /\ cov l x).
Proof. exact intersects_range_spec. Qed.

Theorem C03_intersects : forall A B, Canon A -> Canon B ->
  (intersects A B = true <-> exists x, cov A x /\ cov B x).
Proof. exact intersects_spec. Qed.

Theorem C03_subset : forall A B, Canon A -> Canon B ->
  (contains A B = true <-> forall x, cov B x -> cov A x).
Proof. exact contains_spec. Qed.

Theorem C03_overlapped_by : forall A B r, Canon A -> Canon B ->
  (In r (overlapped_by A B) <-> In r A /\ exists x, inr r x /\ cov B x).
Proof. exact overlapped_by_spec. Qed.

(** fraction numerator: exactly 0 iff uncovered, exactly the query width iff fully covered *)
Theorem C03_fraction_zero : forall l a b, Canon l -> a < b ->
  (width l a b = 0 <-> forall x, a <= x < b -> ~ cov l x).
Proof. exact width_zero_iff. Qed.

Theorem C03_fraction_one : forall l a b, Canon l -> a < b ->
  (width l a b = b - a <-> forall x, a <= x < b -> cov l x).
Proof. exact width_full_iff. Qed.

Theorem C03_range_sum_is_full_width : forall l ub, Canon l -> Bounded ub l -> msum l = width l 0 ub.
Proof. exact msum_width. Qed.

Example C03_nonvacuous :
  Canon [(2, 5); (8, 9)] /\ contains_range [(2, 5); (8, 9)] 3 5 = true /\
  contains_range [(2, 5); (8, 9)] 4 9 = false /\ width [(2, 5); (8, 9)] 4 9 = 2 /\
  intersects [(2, 5); (8, 9)] [(5, 8)] = false /\ overlapped_by [(2, 5); (8, 9)] [(4, 6)] = [(2, 5)].
Proof.
  split; [apply canonb_spec; vm_compute; reflexivity|].
  repeat split; vm_compute; reflexivity.
Qed.

Print Assumptions C03_contains_val.
Print Assumptions C03_contains_range.
Print Assumptions C03_intersects_range.
Print Assumptions C03_intersects.
Print Assumptions C03_subset.
Print Assumptions C03_overlapped_by.
Print Assumptions C03_fraction_zero.
Print Assumptions C03_fraction_one.
Print Assumptions C03_range_sum_is_full_width.
