(** Property C03 — membership, containment, overlap and measure queries agree with
    the covered set.  Statements only. *)
From Coq Require Import List NArith ZArith QArith Lia.
From MOC.Base Require Import RangeSet.
From MOC.Model Require Import Qty Query QueryBS Repr Mom FracBS IntersectsE.
Import ListNotations.
Open Scope N_scope.

Theorem C03_contains_val : forall l x, contains_val l x = true <-> cov l x.
Proof. exact contains_val_spec. Qed.

Theorem C03_contains_range : forall l a b, Canon l -> a < b ->
  (contains_range l a b = true <-> forall x, a <= x < b -> cov l x).
Proof. exact contains_range_spec. Qed.

Theorem C03_intersects_range : forall l a b, Canon l -> a < b ->
  (intersects_range l a b = true <-> exists x, (a <= x < b) /\ cov l x).
Proof. exact intersects_range_spec. Qed.

Theorem C03_intersects : forall A B, Canon A -> Canon B ->
  (intersects A B = true <-> exists x, cov A x /\ cov B x).
Proof. exact intersects_spec. Qed.

Theorem C03_subset : forall A B, Canon A -> Canon B ->
  (contains A B = true <-> forall x, cov B x -> cov A x).
Proof. exact contains_spec. Qed.

Theorem C03_overlapped_by : forall A B r, Canon A -> Canon B ->
  (In r (overlapped_by A B) <-> In r A /\ exists x, inr r x /\ cov B x).
Proof. exact overlapped_by_spec. Qed.

(** fraction numerator: exactly 0 iff uncovered, exactly the query width iff fully covered *)
Theorem C03_fraction_zero : forall l a b, Canon l -> a < b ->
  (width l a b = 0 <-> forall x, a <= x < b -> ~ cov l x).
Proof. exact width_zero_iff. Qed.

Theorem C03_fraction_one : forall l a b, Canon l -> a < b ->
  (width l a b = b - a <-> forall x, a <= x < b -> cov l x).
Proof. exact width_full_iff. Qed.

Theorem C03_range_sum_is_full_width : forall l ub, Canon l -> Bounded ub l -> msum l = width l 0 ub.
Proof. exact msum_width. Qed.

Example C03_nonvacuous :
  Canon [(2, 5); (8, 9)] /\ contains_range [(2, 5); (8, 9)] 3 5 = true /\
  contains_range [(2, 5); (8, 9)] 4 9 = false /\ width [(2, 5); (8, 9)] 4 9 = 2 /\
  intersects [(2, 5); (8, 9)] [(5, 8)] = false /\ overlapped_by [(2, 5); (8, 9)] [(4, 6)] = [(2, 5)].
Proof.
  split; [apply canonb_spec; vm_compute; reflexivity|].
  repeat split; vm_compute; reflexivity.
Qed.


(** ---------- faithful models of the queries as the code computes them (Model/QueryBS.v): quick
    rejection on the first start / last end, binary search of the query bound in the flat array
    of bounds [s0; e0; s1; e1; ...] and parity of the index found.  On every canonical range
    list they equal the predicates characterised above ---------- *)
Theorem C03_contains_val_binary_search_parity : forall l x, Canon l ->
  contains_val_bs l x = contains_val l x.
Proof. exact contains_val_bs_spec. Qed.

Theorem C03_contains_range_binary_search_parity : forall l a b, Canon l -> a < b ->
  contains_range_bs l a b = contains_range l a b.
Proof. exact contains_range_bs_spec. Qed.

Theorem C03_intersects_range_binary_search_parity : forall l a b, Canon l -> a < b ->
  intersects_range_bs l a b = intersects_range l a b.
Proof. exact intersects_range_bs_spec. Qed.

(** the parity rule itself: a value is covered iff its rank in the flat array is even when it
    is one of the bounds (then it is a lower bound) and odd otherwise (strictly inside) *)
Theorem C03_parity_rule : forall l x, Canon l ->
  covb l x = (if mem (flat l) x then Nat.even (rank (flat l) x) else Nat.odd (rank (flat l) x)).
Proof. exact covered_parity. Qed.

Example C03_nonvacuous_binary_search :
  let l := [(0, 4); (6, 9); (12, 20)] in
  map (contains_val_bs l) [0; 3; 4; 5; 6; 8; 9; 11; 12; 19; 20; 25] =
      [true; true; false; false; true; true; false; false; true; true; false; false] /\
  contains_range_bs l 6 9 = true /\ contains_range_bs l 6 10 = false /\ contains_range_bs l 13 20 = true /\
  intersects_range_bs l 4 6 = false /\ intersects_range_bs l 4 7 = true /\ intersects_range_bs l 9 12 = false /\
  intersects_range_bs l 20 30 = false /\ intersects_range_bs l 10 13 = true.
Proof. repeat split; vm_compute; reflexivity. Qed.

(** Multi-order map: the integer returned by the model is, exactly, Σ value × covered-fraction
    (over the common denominator 2^S); a cell's fraction is 0 / 1 exactly when it is uncovered /
    fully covered; the filter keeps exactly the entries of positive fraction; keys are decoded to
    the cell they encode. *)
Theorem C03_mom_weighted_sum_exact : forall S M mom, Forall (fun e : entry => fst (fst e) <= S) mom ->
  (inject_Z (mom_num S M mom) == sumQ M mom * pow2Q S)%Q.
Proof. exact mom_num_exact. Qed.

Theorem C03_mom_fraction_zero : forall M sh i, Canon M ->
  ((frac M sh i == 0)%Q <-> forall x, cell_lo sh i <= x < cell_hi sh i -> ~ cov M x).
Proof. exact frac_zero_iff. Qed.

Theorem C03_mom_fraction_one : forall M sh i, Canon M ->
  ((frac M sh i == 1)%Q <-> forall x, cell_lo sh i <= x < cell_hi sh i -> cov M x).
Proof. exact frac_one_iff. Qed.

Theorem C03_mom_fraction_bounds : forall M sh i, Canon M -> (0 <= frac M sh i <= 1)%Q.
Proof. exact frac_bounds. Qed.

Theorem C03_mom_filter : forall M mom v w sh,
  In (v, w, sh) (mom_filter M mom) <-> exists i, In (sh, i, v) mom /\ w = cell_w M sh i /\ w <> 0.
Proof. exact mom_filter_spec. Qed.

Theorem C03_mom_key_decoding : forall w d i v, i < 12 * 4 ^ d ->
  decode_hpx w (uniq_hpx d i, v) = (shift Hpx w d, i, v).
Proof. exact decode_hpx_roundtrip. Qed.

(** the numerator of range_fraction / cell_fraction AS THE CODE COMPUTES IT (quick rejections, binary
    search on the starts with the "previous range still overlaps" correction, loop until the first
    range starting at or after the end of the query) is the size of cov l ∩ [a, b) *)
Theorem C03_fraction_numerator_binary_search : forall l a b, Canon l -> a < b ->
  width_bs l a b = width l a b.
Proof. exact width_bs_spec. Qed.

(** the MOC x MOC overlap test AS WRITTEN (BorrowedRanges::intersects: quick rejection, binary search
    on the starts of the operand that begins first with Err(i) => i - 1, two-way skipping loop) answers
    true exactly when some index is covered by both operands *)
Theorem C03_intersects_as_written : forall l r, Canon l -> Canon r ->
  (intersects_e l r = true <-> exists x, cov l x /\ cov r x).
Proof. exact intersects_e_spec. Qed.

Print Assumptions C03_contains_val.
Print Assumptions C03_contains_range.
Print Assumptions C03_intersects_range.
Print Assumptions C03_intersects.
Print Assumptions C03_subset.
Print Assumptions C03_overlapped_by.
Print Assumptions C03_fraction_zero.
Print Assumptions C03_fraction_one.
Print Assumptions C03_range_sum_is_full_width.
Print Assumptions C03_contains_val_binary_search_parity.
Print Assumptions C03_contains_range_binary_search_parity.
Print Assumptions C03_intersects_range_binary_search_parity.
Print Assumptions C03_parity_rule.
Print Assumptions C03_mom_weighted_sum_exact.
Print Assumptions C03_mom_fraction_zero.
Print Assumptions C03_mom_fraction_one.
Print Assumptions C03_mom_fraction_bounds.
Print Assumptions C03_mom_filter.
Print Assumptions C03_mom_key_decoding.
Print Assumptions C03_fraction_numerator_binary_search.
Print Assumptions C03_intersects_as_written.
