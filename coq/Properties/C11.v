(** Property C11 — ST-MOC serialisation round-trips in FITS, ASCII and JSON.  Statements only. *)
From Coq Require Import List NArith Permutation.
From MOC.Base Require Import RangeSet.
From MOC.Model Require Import Qty Query Build Repr Serial ST STSerial AsciiCodec AsciiProofs FitsCodec FitsProofs FitsStProofs JsonCodec JsonProofs JsonStProofs.
Import ListNotations.
Open Scope N_scope.

(** FITS v2, row level: decoding the rows written gives back the ST-MOC element by element,
    for every ST-MOC whose elements have non-empty time and space parts and indices below
    the most significant bit *)
Theorem C11_fits_rows_roundtrip : forall m X, Enc_ok m X -> decode2 m (encode2 m X) = X.
Proof. exact st_rows_roundtrip. Qed.

(** ... which every valid ST-MOC of a supported width satisfies *)
Theorem C11_valid_indices_below_msb : forall w, okw w ->
  n_cells_max Time w < 2 ^ (w - 1) /\ n_cells_max Hpx w < 2 ^ (w - 1).
Proof. exact valid_below_msb. Qed.

(** declared number of rows = time ranges + space ranges of all elements *)
Theorem C11_declared_rows : forall m X,
  length (encode2 m X) = fold_right (fun e acc => (length (fst e) + length (snd e) + acc)%nat) O X.
Proof. exact encode2_length. Qed.

(** byte level of each row: C07_fits_rows_roundtrip (same column encoding) *)
Theorem C11_bytes_roundtrip : forall n l, InWidth n l -> decode_rows n (length l) (encode_rows n l) = l.
Proof. exact fits_rows_roundtrip. Qed.

(** ASCII / JSON, token level *)
Theorem C11_text_roundtrip : forall wt ws dt ds (X : stmoc) (C : list (list cell * list cell)),
  Forall2 (fun e c => Canon (fst e) /\ Canon (snd e) /\
                      NormalCells Time wt dt (fst e) (fst c) /\ NormalCells Hpx ws ds (snd e) (snd c)) X C ->
  map (decode_elem_cells wt ws) C = X.
Proof. exact st_text_roundtrip. Qed.

(** ---- ASCII, character level (Model/AsciiCodec.v: moc2d_to_ascii_ivoa / moc2d_from_ascii_ivoa as written) ----
    For every list of elements whose two parts are lists of well-formed pairwise disjoint cells / cell
    ranges, every fold width, both notations, any two distinct prefix characters that are not document
    characters: reading the written document gives the two depths and, element by element, the parts
    (bucketed by depth and sorted by the reader); an element with an empty part is dropped, as the
    reader does (a valid ST-MOC has none). *)
Theorem C11_ascii_st_roundtrip : forall (sortf : qty -> list aelem -> list aelem),
  (forall q l, Permutation (sortf q l) l) ->
  forall q1 w1 q2 w2 p1 p2 d1 d2 fold ul, okw w1 -> okw w2 -> d1 <= max_depth q1 w1 -> d2 <= max_depth q2 w2 ->
  char_ok p1 = false /\ is_trim_ws p1 = false -> char_ok p2 = false -> p1 <> p2 ->
  forall l, Forall (st_ok q1 w1 q2 w2 d1 d2) l ->
  st_from_ascii sortf q1 w1 q2 w2 p2 p1 (st_to_ascii p1 p2 d1 d2 fold ul l) =
  StOk d1 d2 (filter keep (map (st_norm sortf q1 q2 d1 d2) l)).
Proof. exact st_ascii_roundtrip. Qed.

(** 't', 's' and 'f' are such characters *)
Theorem C11_ascii_prefix_chars : forall p, In p [116; 115; 102] -> char_ok p = false /\ is_trim_ws p = false.
Proof. exact prefix_chars_ok. Qed.

(** the characters of a 1-D document never contain a prefix character *)
Theorem C11_ascii_document_chars : forall dmax fold ul es, chars_ok (to_ascii dmax fold ul es).
Proof. exact to_ascii_chars. Qed.

(** ---- FITS v2, whole file, byte level (Model/FitsCodec.v: rangemoc2d_to_fits_ivoa / from_fits_ivoa as written) ----
    header cards (no TTYPE1; COORDSYS, TIMESYS and both depth keywords), flagged rows, padding; the reader
    takes the TIME.SPACE / RANGE branch and rebuilds every element *)
Theorem C11_fits_file_roundtrip : forall w dt ds X, okw w -> dt < 256 -> ds < 256 -> Enc_ok (2 ^ (w - 1)) X ->
  2 * N.of_nat (List.length (encode2 (2 ^ (w - 1)) X)) < 2 ^ 64 ->
  fits_read (fits_write_st w dt ds X) = FOk LSTRange w dt ds (DSt X).
Proof. exact fits_st_file_roundtrip. Qed.

Example C11_nonvacuous :
  let X := [([(0, 4); (6, 8)], [(1, 2)]); ([(8, 9)], [(0, 1); (5, 7)])] in
  encode2 128 X = [(128, 132); (134, 136); (1, 2); (136, 137); (0, 1); (5, 7)] /\
  decode2 128 (encode2 128 X) = X.
Proof. split; reflexivity. Qed.

Example C11_ascii_nonvacuous :
  let l := [([ERange 60 6 8; ECell 61 100], [ERange 2 0 3; ECell 1 1]); ([ECell 61 200], [ECell 0 3])] in
  Forall (st_ok Time 64 Hpx 64 61 4) l /\
  st_from_ascii isort_e Time 64 Hpx 64 115 116 (st_to_ascii 116 115 61 4 (Some 10) false l) = StOk 61 4 l.
Proof.
  split; [|vm_compute; reflexivity].
  repeat (constructor || split); vm_compute; try reflexivity; try discriminate.
Qed.

(** ---------- JSON (cellmoc2d_to_json_aladin / cellmoc2d_from_json_aladin), character level ---------- *)
(** every element carries its OWN depths (an element of a RangeMOC2 may be labelled shallower than the MOC2
    it belongs to: the writers use the element's label, the trailing depth-only element the MOC2's).
    The document written for ANY list of such elements (both sides non-empty, cells inside their domain and
    pairwise disjoint) is inside the JSON subset of the model and parses to the tree
    [ {"p1": {depth: [cells] ...}, "p2": {...}} ... , {"p1": {"d1": []}, "p2": {"d2": []}} ] *)
Theorem C11_json_st_document_parses : forall q1 w1 q2 w2 p1 p2 d1 d2 fold,
  okw w1 -> okw w2 -> d1 <= max_depth q1 w1 -> d2 <= max_depth q2 w2 -> p1 <> p2 -> str_ok [p1] -> str_ok [p2] ->
  forall l, Forall (elem_ok2 q1 w1 q2 w2 d1 d2) l ->
  jparse (st_to_json_l p1 p2 d1 d2 fold l) = JVal (doctree p1 p2 d1 d2 l).
Proof. exact st_json_parse. Qed.

(** writer then reader: both depths OF THE MOC2 and every element come back (each side bucketed by depth, then
    sorted by the reader), for EVERY fold width *)
Theorem C11_json_st_roundtrip : forall (sortf : qty -> list aelem -> list aelem),
  (forall q l, Permutation (sortf q l) l) ->
  forall q1 w1 q2 w2 p1 p2 d1 d2 fold,
  okw w1 -> okw w2 -> d1 <= max_depth q1 w1 -> d2 <= max_depth q2 w2 -> p1 <> p2 -> str_ok [p1] -> str_ok [p2] ->
  forall l, Forall (elem_ok2 q1 w1 q2 w2 d1 d2) l ->
  st_from_json sortf q1 w1 q2 w2 p1 p2 (st_to_json_l p1 p2 d1 d2 fold l)
  = J2Ok d1 d2 (map (decoded sortf q1 q2) l).
Proof. exact st_json_roundtrip_l. Qed.

(** the usual case, every element labelled with the depths of the MOC2 *)
Theorem C11_json_st_roundtrip_plain : forall (sortf : qty -> list aelem -> list aelem),
  (forall q l, Permutation (sortf q l) l) ->
  forall q1 w1 q2 w2 p1 p2 d1 d2 fold,
  okw w1 -> okw w2 -> d1 <= max_depth q1 w1 -> d2 <= max_depth q2 w2 -> p1 <> p2 -> str_ok [p1] -> str_ok [p2] ->
  forall l, Forall (elem_ok2_plain q1 w1 q2 w2 d1 d2) l ->
  st_from_json sortf q1 w1 q2 w2 p1 p2 (st_to_json p1 p2 d1 d2 fold l)
  = J2Ok d1 d2 (map (decoded_plain sortf q1 q2 d1 d2) l).
Proof. exact st_json_roundtrip. Qed.

(** the same for the ASCII document: elements labelled with their own depths *)
Theorem C11_ascii_st_roundtrip_labelled : forall (sortf : qty -> list aelem -> list aelem),
  (forall q l, Permutation (sortf q l) l) ->
  forall q1 w1 q2 w2 p1 p2 d1 d2 fold ul, okw w1 -> okw w2 -> d1 <= max_depth q1 w1 -> d2 <= max_depth q2 w2 ->
  char_ok p1 = false /\ is_trim_ws p1 = false -> char_ok p2 = false -> p1 <> p2 ->
  forall l, Forall (st_ok_l q1 w1 q2 w2 d1 d2) l ->
  st_from_ascii sortf q1 w1 q2 w2 p2 p1 (st_to_ascii_l p1 p2 d1 d2 fold ul l) =
  StOk d1 d2 (filter keep (map (st_norm_l sortf q1 q2) l)).
Proof. exact st_ascii_roundtrip_l. Qed.

(** the nesting the parser meets on the tokens of ANY value tree is the height of the tree *)
Theorem C11_json_nesting_is_height : forall v, max_nest (toks v) <= hgt v.
Proof. exact max_nest_hgt. Qed.

Example C11_json_nonvacuous :
  let l := [([(60, 6); (61, 100)], [(2, 0); (1, 1)]); ([(61, 200)], [(0, 3)])] in
  let ll := [((60, [(60, 6)]), (2, [(2, 0); (1, 1)])); ((61, [(61, 200)]), (0, [(0, 3)]))] in
  Forall (elem_ok2_plain Time 64 Hpx 64 61 4) l /\ Forall (elem_ok2 Time 64 Hpx 64 61 4) ll /\ str_ok [116] /\ str_ok [115] /\
  st_from_json isort_e Time 64 Hpx 64 116 115 (st_to_json 116 115 61 4 (Some 10) l)
  = J2Ok 61 4 [([ECell 60 6; ECell 61 100], [ECell 2 0; ECell 1 1]); ([ECell 61 200], [ECell 0 3])] /\
  st_from_json isort_e Time 64 Hpx 64 116 115 (st_to_json_l 116 115 61 4 None ll)
  = J2Ok 61 4 [([ECell 60 6], [ECell 2 0; ECell 1 1]); ([ECell 61 200], [ECell 0 3])].
Proof.
  split; [|split; [|split; [|split; [|split]]]]; try (vm_compute; reflexivity).
  - repeat (constructor || split); vm_compute; try reflexivity; try discriminate.
  - repeat (constructor || split); vm_compute; try reflexivity; try discriminate.
  - repeat constructor; vm_compute; try discriminate; try reflexivity.
  - repeat constructor; vm_compute; try discriminate; try reflexivity.
Qed.

Print Assumptions C11_fits_rows_roundtrip.
Print Assumptions C11_valid_indices_below_msb.
Print Assumptions C11_declared_rows.
Print Assumptions C11_bytes_roundtrip.
Print Assumptions C11_text_roundtrip.
Print Assumptions C11_ascii_st_roundtrip.
Print Assumptions C11_ascii_prefix_chars.
Print Assumptions C11_ascii_document_chars.
Print Assumptions C11_fits_file_roundtrip.
Print Assumptions C11_json_st_document_parses.
Print Assumptions C11_json_st_roundtrip.
Print Assumptions C11_json_nesting_is_height.
Print Assumptions C11_json_st_roundtrip_plain.
Print Assumptions C11_ascii_st_roundtrip_labelled.
