(** Property C11 — ST-MOC serialisation round-trips in FITS, ASCII and JSON.  Statements only. *)
From Coq Require Import List NArith.
From MOC.Base Require Import RangeSet.
From MOC.Model Require Import Qty Query Build Repr Serial ST STSerial.
Import ListNotations.
Open Scope N_scope.

(** FITS v2, row level: decoding the rows written gives back the ST-MOC element by element,
    for every ST-MOC whose elements have non-empty time and space parts and indices below
    the most significant bit *)
Theorem C11_fits_rows_roundtrip : forall m X, Enc_ok m X -> decode2 m (encode2 m X) = X.
Proof. exact st_rows_roundtrip. Qed.

(** ... which every valid ST-MOC of a supported width satisfies *)
Theorem C11_valid_indices_below_msb : forall w, okw w ->
  n_cells_max Time w < 2 ^ (w - 1) /\ n_cells_max Hpx w < 2 ^ (w - 1).
Proof. exact valid_below_msb. Qed.

(** declared number of rows = time ranges + space ranges of all elements *)
Theorem C11_declared_rows : forall m X,
  length (encode2 m X) = fold_right (fun e acc => (length (fst e) + length (snd e) + acc)%nat) O X.
Proof. exact encode2_length. Qed.

(** byte level of each row: C07_fits_rows_roundtrip (same column encoding) *)
Theorem C11_bytes_roundtrip : forall n l, InWidth n l -> decode_rows n (length l) (encode_rows n l) = l.
Proof. exact fits_rows_roundtrip. Qed.

(** ASCII / JSON, token level *)
Theorem C11_text_roundtrip : forall wt ws dt ds (X : stmoc) (C : list (list cell * list cell)),
  Forall2 (fun e c => Canon (fst e) /\ Canon (snd e) /\
                      NormalCells Time wt dt (fst e) (fst c) /\ NormalCells Hpx ws ds (snd e) (snd c)) X C ->
  map (decode_elem_cells wt ws) C = X.
Proof. exact st_text_roundtrip. Qed.

Example C11_nonvacuous :
  let X := [([(0, 4); (6, 8)], [(1, 2)]); ([(8, 9)], [(0, 1); (5, 7)])] in
  encode2 128 X = [(128, 132); (134, 136); (1, 2); (136, 137); (0, 1); (5, 7)] /\
  decode2 128 (encode2 128 X) = X.
Proof. split; reflexivity. Qed.

Print Assumptions C11_fits_rows_roundtrip.
Print Assumptions C11_valid_indices_below_msb.
Print Assumptions C11_declared_rows.
Print Assumptions C11_bytes_roundtrip.
Print Assumptions C11_text_roundtrip.
