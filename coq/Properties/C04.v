(** Property C04 — lazy operator pipelines equal eager evaluation.  Statements only.
    The lazy side is the real Rust iterator pipeline (tied by the harness, which
    also monitors size_hint / peek_last at every step); the theorems below state
    what the eager reference computes for trees of ARBITRARY height. *)
From Coq Require Import List NArith.
From MOC.Base Require Import RangeSet.
From MOC.Model Require Import Qty Ops1D Expr.
Import ListNotations.
Open Scope N_scope.

Theorem C04_eager_reference_correct : forall q w (e : expr),
  leaves_valid q w e ->
  fst (eval q w e) = edepth e /\
  ValidMoc q w (edepth e) (snd (eval q w e)) /\
  forall x, cov (snd (eval q w e)) x <-> sem q w e x.
Proof. exact eval_correct. Qed.

(** Any pipeline output that is a valid MOC of the tree's depth and denotes the
    tree's set is, as a list, the eager result (so the harness comparison is exact) *)
Theorem C04_pipeline_output_determined : forall q w (e : expr) (out : list range),
  leaves_valid q w e ->
  ValidMoc q w (edepth e) out ->
  (forall x, cov out x <-> sem q w e x) ->
  out = snd (eval q w e).
Proof.
  intros q w e out Hv Ho Hs.
  destruct (eval_correct q w e Hv) as (_ & V & S).
  apply (validmoc_ext q w (edepth e)); [exact Ho|exact V|].
  intros x. rewrite Hs, S. tauto.
Qed.

Print Assumptions C04_eager_reference_correct.
Print Assumptions C04_pipeline_output_determined.
