(** Property C04 — lazy operator pipelines equal eager evaluation.  Statements only.
    The lazy side is the real Rust iterator pipeline (tied by the harness, which
    also monitors size_hint / peek_last at every step); the theorems below state
    what the eager reference computes for trees of ARBITRARY height. *)
From Coq Require Import List NArith.
From MOC.Base Require Import RangeSet.
From MOC.Model Require Import Qty Ops1D Expr LazyOps LazyXor LazyUnary.
Import ListNotations.
Open Scope N_scope.

Theorem C04_eager_reference_correct : forall q w (e : expr),
  leaves_valid q w e ->
  fst (eval q w e) = edepth e /\
  ValidMoc q w (edepth e) (snd (eval q w e)) /\
  forall x, cov (snd (eval q w e)) x <-> sem q w e x.
Proof. exact eval_correct. Qed.

(** Any pipeline output that is a valid MOC of the tree's depth and denotes the
    tree's set is, as a list, the eager result (so the harness comparison is exact) *)
Theorem C04_pipeline_output_determined : forall q w (e : expr) (out : list range),
  leaves_valid q w e ->
  ValidMoc q w (edepth e) out ->
  (forall x, cov out x <-> sem q w e x) ->
  out = snd (eval q w e).
Proof.
  intros q w e out Hv Ho Hs.
  destruct (eval_correct q w e Hv) as (_ & V & S).
  apply (validmoc_ext q w (edepth e)); [exact Ho|exact V|].
  intros x. rewrite Hs, S. tauto.
Qed.

(** ---------- faithful models of the streaming operators and / or / minus (Model/LazyOps.v:
    one-range look-ahead per operand, mutation of the heads, consume-while loops, quick tests of
    ::new trusting peek_last): on valid operands they yield exactly the eager result, whether
    or not the sources advertise their last range ([hl], [hr]) ---------- *)
Theorem C04_streaming_and_equals_eager : forall hl hr ub A B, Valid ub A -> Valid ub B ->
  and_new hl hr A B = inter ub A B.
Proof. exact and_new_eq_spec. Qed.

Theorem C04_streaming_or_equals_eager : forall hr ub A B, Valid ub A -> Valid ub B ->
  or_new hr A B = union A B.
Proof. exact or_new_eq_spec. Qed.

Theorem C04_streaming_minus_equals_eager : forall hl hr ub A B, Valid ub A -> Valid ub B ->
  minus_new hl hr A B = minus ub A B.
Proof. exact minus_new_eq_spec. Qed.

Theorem C04_streaming_xor_equals_eager : forall ub A B, Valid ub A -> Valid ub B ->
  xor_new A B = xor ub A B.
Proof. exact xor_new_eq_spec. Qed.

Theorem C04_xor_size_hint_sound : forall fuel A B,
  (length (xor_f fuel A B) <= length A + length B)%nat.
Proof. exact xor_f_length. Qed.

(** hints never lie, at EVERY state of the operators (state = look-ahead heads + what remains
    of the two inputs): the advertised upper bounds 1 + n1 + n2 (and) and 2 + n1 + n2 (or,
    minus; the repaired code) are never exceeded by what is then yielded ... *)
Theorem C04_and_size_hint_sound : forall l A' r B',
  (length (and_l (l :: A') (r :: B')) <= 1 + length A' + length B')%nat.
Proof. exact and_hint_sound. Qed.

Theorem C04_or_size_hint_sound : forall fuel l A' r B',
  (length (or_f fuel (l :: A') (r :: B')) <= 2 + length A' + length B')%nat.
Proof. exact or_hint_sound. Qed.

Theorem C04_minus_size_hint_sound : forall fuel l A' r B',
  (length (minus_f fuel (l :: A') (r :: B')) <= 2 + length A' + length B')%nat.
Proof. exact minus_hint_sound. Qed.

(** ... the bound of the code before the repair (D03) was exceeded ... *)
Theorem C04_or_size_hint_d03_refuted :
  let A := [(0, 1); (10, 20)] in let B := [(3, 5)] in
  (length (or_f 10 A B) = 3 /\ 1 + (length A - 1) + (length B - 1) = 2)%nat.
Proof. exact or_hint_d03_refuted. Qed.

(** ... and the last range advertised by the union bounds everything it yields *)
Theorem C04_or_peek_last_sound : forall hr A B e, Canon A -> Canon B -> or_last_end A B = Some e ->
  forall x, cov (or_new hr A B) x -> x < e.
Proof. exact or_peek_last_sound. Qed.

(** D01: a quick rejection that drops the left operand is wrong; the repaired one keeps it *)
Theorem C04_minus_quick_rejection_d01_refuted :
  minus_new_d01 [(10, 20)] [(0, 5)] = [] /\ minus_new true true [(10, 20)] [(0, 5)] = [(10, 20)].
Proof. exact minus_new_d01_refuted. Qed.

Example C04_nonvacuous_streaming :
  and_new true true [(0, 5); (8, 12)] [(3, 9); (11, 20)] = [(3, 5); (8, 9); (11, 12)] /\
  or_new true [(10, 12)] [(0, 5); (7, 9)] = [(0, 5); (7, 9); (10, 12)] /\
  or_new false [(0, 5); (8, 12)] [(5, 8); (20, 30)] = [(0, 12); (20, 30)] /\
  minus_new false false [(0, 10); (20, 30)] [(2, 4); (8, 25)] = [(0, 2); (4, 8); (25, 30)] /\
  xor_new [(0, 5); (7, 10)] [(5, 7); (9, 12)] = [(0, 9); (10, 12)].
Proof. repeat split; vm_compute; reflexivity. Qed.

(** the streaming complement (NotRangeIter: ::new on the first one or two ranges, then one gap
    per input range, then the tail) and the streaming degradation (DegradeRangeIter: the pending
    range absorbs the degraded ranges that overlap or touch it) yield exactly the eager result;
    the size hint of the complement brackets what it then yields, at every state *)
Theorem C04_streaming_not_equals_eager : forall ncm l, Valid ncm l -> 0 < ncm ->
  not_new ncm l = compl ncm l.
Proof. exact not_new_eq_spec. Qed.

Theorem C04_streaming_degrade_equals_eager : forall sh l, Canon l -> deg_new sh l = degrade sh l.
Proof. exact deg_new_eq_spec. Qed.

Theorem C04_not_size_hint_sound : forall ncm rest curr start, (curr = None -> rest = []) ->
  (fst (not_hint curr rest) <= length (not_run ncm curr start rest) <= snd (not_hint curr rest))%nat.
Proof. exact not_size_hint_sound. Qed.

Print Assumptions C04_eager_reference_correct.
Print Assumptions C04_pipeline_output_determined.
Print Assumptions C04_streaming_and_equals_eager.
Print Assumptions C04_streaming_or_equals_eager.
Print Assumptions C04_streaming_minus_equals_eager.
Print Assumptions C04_streaming_xor_equals_eager.
Print Assumptions C04_xor_size_hint_sound.
Print Assumptions C04_and_size_hint_sound.
Print Assumptions C04_or_size_hint_sound.
Print Assumptions C04_minus_size_hint_sound.
Print Assumptions C04_or_size_hint_d03_refuted.
Print Assumptions C04_or_peek_last_sound.
Print Assumptions C04_minus_quick_rejection_d01_refuted.
Print Assumptions C04_streaming_not_equals_eager.
Print Assumptions C04_streaming_degrade_equals_eager.
Print Assumptions C04_not_size_hint_sound.
