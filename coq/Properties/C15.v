(** Property C15 — moc-set queries return exactly the matching identifiers.
    Statements only (model: Model/SetQuery.v). *)
From Coq Require Import List NArith Permutation.
From MOC.Base Require Import RangeSet.
From MOC.Model Require Import Qty Query Build Repr SetQuery.
Import ListNotations.
Open Scope N_scope.

(** a region query reports exactly the identifiers of the valid (plus deprecated, on request)
    MOCs that intersect the region / fully contain it - whatever the depth of the region
    (in particular regions strictly inside one cell of the 32-bit storage depth) and
    whether the MOC is stored with 32- or 64-bit indices ([den] = the set it denotes) *)
Theorem C15_query_exact : forall m dep R ents id, Canon R -> Forall WfEntry ents ->
  (In id (query m dep R ents) <->
   exists e, In e ents /\ s_id e = id /\ selected dep e = true /\ Sem m R e).
Proof. exact query_exact. Qed.

Theorem C15_position_query_exact : forall dep x ents id, Forall WfEntry ents ->
  (In id (query_pos dep x ents) <->
   exists e, In e ents /\ s_id e = id /\ selected dep e = true /\ cov (den e) x).
Proof. exact query_pos_exact. Qed.

(** the per-entry test is exact on both storage widths *)
Theorem C15_entry_test_exact : forall m R e, Canon R -> WfEntry e -> (matches m R e = true <-> Sem m R e).
Proof. exact matches_exact. Qed.

(** the answer is the image of a per-entry predicate: the order in which threads evaluate
    the entries cannot change the set of identifiers *)
Theorem C15_independent_of_evaluation_order : forall m dep R ents ents' id, Permutation ents ents' ->
  (In id (query m dep R ents) <-> In id (query m dep R ents')).
Proof. exact query_permutation. Qed.

(** the union command returns exactly the union of the selected MOCs (at the requested depth) *)
Theorem C15_union_exact : forall m dep R d ents x, Canon R -> Forall WfEntry ents ->
  (cov (union_query m dep R d ents) x <->
   exists e y, In e ents /\ selected dep e = true /\ Sem m R e /\ cov (den e) y /\
               y / 2 ^ shift Hpx 64 d = x / 2 ^ shift Hpx 64 d).
Proof. exact union_query_exact. Qed.

(** D18: narrowing the region by flooring both bounds (the code before the repair) answers
    wrongly for a region strictly inside one storage cell; the repaired test is right there *)
Theorem C15_floor_narrowing_refuted :
  Canon d18_region /\ WfEntry d18_entry /\ Sem Intersect d18_region d18_entry /\
  Sem Included d18_region d18_entry /\
  matches_floor Intersect d18_region d18_entry = false /\
  matches Intersect d18_region d18_entry = true /\ matches Included d18_region d18_entry = true.
Proof. exact matches_floor_refuted. Qed.

Example C15_nonvacuous :
  let ents := [ {| s_st := QValid; s_id := 1; s_depth := 13; s_rng := [(5, 6); (9, 12)] |};
                {| s_st := QDeprecated; s_id := 2; s_depth := 3; s_rng := [(0, 2 ^ 20)] |};
                {| s_st := QValid; s_id := 3; s_depth := 14; s_rng := [(21 * 2 ^ 30, 23 * 2 ^ 30)] |};
                {| s_st := QRemoved; s_id := 4; s_depth := 0; s_rng := [(0, 12 * 2 ^ 26)] |} ] in
  Forall WfEntry ents /\
  query Intersect false [(22 * 2 ^ 30, 22 * 2 ^ 30 + 4)] ents = [1; 3] /\
  query Included true [(22 * 2 ^ 30, 22 * 2 ^ 30 + 4)] ents = [1; 2; 3] /\
  query Included false [(20 * 2 ^ 30, 24 * 2 ^ 30)] ents = [1] /\
  query_pos true (21 * 2 ^ 30 + 1) ents = [1; 2; 3].
Proof.
  cbv zeta. split; [|repeat split; vm_compute; reflexivity].
  repeat (apply Forall_cons; [unfold WfEntry, is32; cbn [s_depth s_rng]; match goal with |- context [?a <=? ?b] => let v := eval vm_compute in (a <=? b) in change (a <=? b) with v end; cbv iota; apply valid_mocb_spec; vm_compute; reflexivity|]). apply Forall_nil.
Qed.

Print Assumptions C15_query_exact.
Print Assumptions C15_position_query_exact.
Print Assumptions C15_entry_test_exact.
Print Assumptions C15_independent_of_evaluation_order.
Print Assumptions C15_union_exact.
Print Assumptions C15_floor_narrowing_refuted.
