(** Property C07 — 1-D MOC serialisation round-trips.  Statements only. *)
From Coq Require Import List NArith Permutation.
From MOC.Base Require Import RangeSet.
From MOC.Model Require Import Qty Query Build Repr Serial.
Import ListNotations.
Open Scope N_scope.

(** FITS range encoding, byte level: decoding the rows written gives back the ranges *)
Theorem C07_fits_rows_roundtrip : forall n l, InWidth n l ->
  decode_rows n (length l) (encode_rows n l) = l.
Proof. exact fits_rows_roundtrip. Qed.

Theorem C07_big_endian_roundtrip : forall n x, x < 256 ^ N.of_nat n -> be_value (be_bytes n x) = x.
Proof. exact be_roundtrip. Qed.

(** declared size = data written: NAXIS2 * NAXIS1 bytes *)
Theorem C07_fits_declared_size : forall n l, length (encode_rows n l) = (2 * n * length l)%nat.
Proof. exact encode_rows_length. Qed.

(** 2880-byte blocks *)
Theorem C07_fits_block_structure : forall nbytes, (nbytes + fits_pad nbytes) mod 2880 = 0.
Proof. exact fits_block_structure. Qed.

(** every bound of a valid MOC fits the row width *)
Theorem C07_valid_moc_fits_width : forall q w, okw w -> n_cells_max q w < 2 ^ w.
Proof. exact ncm_lt_width. Qed.

(** text formats (ASCII folded or not, both notations, streaming ASCII, JSON): whatever
    the order and grouping in which the normal-form cells are listed, reading them back
    yields the MOC *)
Theorem C07_text_roundtrip : forall q w d l cells cells', Canon l ->
  NormalCells q w d l cells -> Permutation cells cells' ->
  decode_cells q w cells' = l.
Proof. exact text_roundtrip. Qed.

Theorem C07_cell_range_notation : forall q w depth n a x,
  cov (map (crange q w) (expand_range depth a n)) x <->
  (a * 2 ^ shift q w depth <= x /\ x < (a + N.of_nat n) * 2 ^ shift q w depth).
Proof. exact expand_range_cov. Qed.

Example C07_nonvacuous :
  encode_rows 2 [(1, 258); (1024, 12288)] = [0; 1; 1; 2; 4; 0; 48; 0] /\
  decode_rows 2 2 [0; 1; 1; 2; 4; 0; 48; 0] = [(1, 258); (1024, 12288)] /\
  fits_pad 8 = 2872 /\
  decode_cells Hpx 16 [(2, 17); (0, 0)] = [(0, 1024); (1088, 1152)].
Proof. repeat split; vm_compute; reflexivity. Qed.

Print Assumptions C07_fits_rows_roundtrip.
Print Assumptions C07_big_endian_roundtrip.
Print Assumptions C07_fits_declared_size.
Print Assumptions C07_fits_block_structure.
Print Assumptions C07_valid_moc_fits_width.
Print Assumptions C07_text_roundtrip.
Print Assumptions C07_cell_range_notation.
