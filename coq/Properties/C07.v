(** Property C07 — 1-D MOC serialisation round-trips.  Statements only. *)
From Coq Require Import List NArith Permutation Sorted.
From MOC.Base Require Import RangeSet.
From MOC.Model Require Import Qty Query Build Repr Serial CellsSM Adapters AsciiCodec AsciiProofs AsciiStreamProofs AsciiMoc FitsCodec FitsProofs FitsStProofs JsonCodec JsonProofs JsonMoc.
Import ListNotations.
Open Scope N_scope.

(** FITS range encoding, byte level: decoding the rows written gives back the ranges *)
Theorem C07_fits_rows_roundtrip : forall n l, InWidth n l ->
  decode_rows n (length l) (encode_rows n l) = l.
Proof. exact fits_rows_roundtrip. Qed.

Theorem C07_big_endian_roundtrip : forall n x, x < 256 ^ N.of_nat n -> be_value (be_bytes n x) = x.
Proof. exact be_roundtrip. Qed.

(** declared size = data written: NAXIS2 * NAXIS1 bytes *)
Theorem C07_fits_declared_size : forall n l, length (encode_rows n l) = (2 * n * length l)%nat.
Proof. exact encode_rows_length. Qed.

(** 2880-byte blocks *)
Theorem C07_fits_block_structure : forall nbytes, (nbytes + fits_pad nbytes) mod 2880 = 0.
Proof. exact fits_block_structure. Qed.

(** every bound of a valid MOC fits the row width *)
Theorem C07_valid_moc_fits_width : forall q w, okw w -> n_cells_max q w < 2 ^ w.
Proof. exact ncm_lt_width. Qed.

(** text formats (ASCII folded or not, both notations, streaming ASCII, JSON): whatever
    the order and grouping in which the normal-form cells are listed, reading them back
    yields the MOC *)
Theorem C07_text_roundtrip : forall q w d l cells cells', Canon l ->
  NormalCells q w d l cells -> Permutation cells cells' ->
  decode_cells q w cells' = l.
Proof. exact text_roundtrip. Qed.

Theorem C07_cell_range_notation : forall q w depth n a x,
  cov (map (crange q w) (expand_range depth a n)) x <->
  (a * 2 ^ shift q w depth <= x /\ x < (a + N.of_nat n) * 2 ^ shift q w depth).
Proof. exact expand_range_cov. Qed.

(** ---- IVOA ASCII, character level (Model/AsciiCodec.v: to_ascii_ivoa / from_ascii_ivoa as written) ---- *)

(** decimal printing and the tokeniser's number parser are inverse on every index of the width *)
Theorem C07_ascii_number_roundtrip : forall w x r, w <= 64 -> x < 2 ^ w -> nodigit_head r ->
  parse_val w (adec x ++ r) = Some (x, r).
Proof. exact parse_val_dec. Qed.

(** writer then reader, on ANY list of well-formed pairwise disjoint cells / cell ranges of depth
    <= dmax, for EVERY fold width and both range notations: the reader accepts, returns dmax and the
    elements (bucketed by depth, a permutation, then sorted by the reader) *)
Theorem C07_ascii_roundtrip : forall (sortf : qty -> list aelem -> list aelem),
  (forall q l, Permutation (sortf q l) l) ->
  forall q w dmax fold ul es, okw w -> dmax <= max_depth q w -> Forall (elem_wf q dmax) es -> Disj q w es ->
  from_ascii sortf q w (to_ascii dmax fold ul es) = AOk (dmax, sortf q (regroup dmax es)).
Proof. exact ascii_roundtrip. Qed.

Theorem C07_ascii_regroup_is_permutation : forall dmax es,
  Forall (fun x => adepth x <= dmax) es -> Permutation (regroup dmax es) es.
Proof. exact regroup_perm. Qed.

(** whatever the characters read, an accepted document is a list of well-formed elements of depth <=
    the returned depth <= MAX_DEPTH, ascending and pairwise disjoint (the adjacent-overlap test after
    the sort by flat_cmp is a complete validation) *)
Theorem C07_ascii_reader_sound : forall (sortf : qty -> list aelem -> list aelem),
  (forall q l, Permutation (sortf q l) l) ->
  (forall q l, Sorted (fun a b => flat_leb q a b = true) (sortf q l)) ->
  forall q w s dm l, from_ascii sortf q w s = AOk (dm, l) ->
  dm <= max_depth q w /\ Forall (elem_wf q dm) l /\ asc 0 (map (erange q w) l).
Proof. exact reader_sound. Qed.

(** the executable sort used by the oracle meets both hypotheses *)
Theorem C07_ascii_sort_instance : forall q l,
  Permutation (isort_e q l) l /\ Sorted (fun a b => flat_leb q a b = true) (isort_e q l).
Proof. exact isort_e_ok. Qed.

(** the whole chain for a MOC: cells (normal form) -> cellranges() -> to_ascii_ivoa -> from_ascii_ivoa
    -> ranges() gives back the depth and the ranges of every valid MOC *)
Theorem C07_ascii_moc_roundtrip : forall (sortf : qty -> list aelem -> list aelem),
  (forall q l, Permutation (sortf q l) l) ->
  (forall q l, Sorted (fun a b => flat_leb q a b = true) (sortf q l)) ->
  forall q w d l cells fold ul, okw w -> d <= max_depth q w -> Canon l -> NormalCells q w d l cells ->
  exists l', from_ascii sortf q w (to_ascii d fold ul (elems_of_cells cells)) = AOk (d, l') /\
             ranges_of_elems q w l' = l.
Proof. exact ascii_cells_roundtrip. Qed.

(** ... and the cells the code computes are that normal form (C05) *)
Theorem C07_ascii_cells_are_normal : forall q w d l, ValidMoc q w d l -> NormalCells q w d l (moc_cells q w d l).
Proof. exact moc_cells_normal. Qed.

(** ---- streaming ASCII, character level (to_ascii_stream / from_ascii_stream as written) ---- *)
Theorem C07_ascii_stream_number_roundtrip : forall w x, w <= 64 -> x < 2 ^ w -> parse_uint w (adec x) = Some x.
Proof. exact parse_uint_adec. Qed.

(** every list of well-formed elements of depth <= dmax comes back, in file order, both notations *)
Theorem C07_ascii_stream_roundtrip : forall q w, okw w -> forall dmax ul es,
  dmax <= max_depth q w -> Forall (elem_wf q dmax) es ->
  from_ascii_stream q w (to_ascii_stream q dmax ul es) = SOk dmax es.
Proof. exact ascii_stream_roundtrip. Qed.

Theorem C07_ascii_stream_moc_roundtrip : forall q w d l cells ul,
  okw w -> d <= max_depth q w -> Canon l -> NormalCells q w d l cells ->
  from_ascii_stream q w (to_ascii_stream q d ul (elems_of_cells cells)) = SOk d (elems_of_cells cells) /\
  ranges_of_elems q w (elems_of_cells cells) = l.
Proof. exact ascii_stream_cells_roundtrip. Qed.

(** ---- FITS, whole file, byte level (Model/FitsCodec.v: ranges_to_fits_ivoa / from_fits_ivoa as written) ---- *)

(** writing then reading: the reader takes the range branch of the right quantity and width and returns
    the depth and the ranges, for every quantity, width, depth below 256 and range list fitting the width *)
Theorem C07_fits_file_roundtrip : forall q w d l, okw w -> d < 256 -> InWidth (N.to_nat (w / 8)) l ->
  2 * N.of_nat (List.length l) < 2 ^ 64 ->
  fits_read (fits_write q w d l) = FOk (leaf_of q) w d 0 (DRanges l).
Proof. exact fits_file_roundtrip. Qed.

(** structure: two header blocks, the rows, the padding; a whole number of 2880-byte blocks *)
Theorem C07_fits_file_blocks : forall q w d l, okw w -> d < 256 ->
  N.of_nat (List.length (fits_write q w d l)) mod 2880 = 0 /\
  N.of_nat (List.length (fits_write q w d l)) =
    2 * 2880 + N.of_nat (List.length (encode_rows (N.to_nat (w / 8)) l)) + fits_pad (N.of_nat (List.length (encode_rows (N.to_nat (w / 8)) l))).
Proof. exact fits_write_blocks. Qed.

(** the NAXIS2 card: any row count below 2^64 is read back *)
Theorem C07_fits_naxis2_card : forall n, n < 2 ^ 64 ->
  check_kw_uint 64 (mand_record naxis2_kw n) naxis2_expected = Datatypes.inr n.
Proof. exact naxis2_card_named. Qed.

(** NUNIQ (hpx_cells_to_fits_ivoa / from_fits_nuniq as written): the reader takes the SPACE / NUNIQ branch and
    returns the cells written, bucketed by depth by the writer and sorted by the reader *)
Theorem C07_fits_nuniq_file_roundtrip : forall w d cells, okw w -> d <= max_depth Hpx w ->
  Forall (cell_ok w d) cells -> N.of_nat (List.length cells) < 2 ^ 64 ->
  fits_read (fits_write_nuniq w d cells) = FOk LSNuniq w d 0 (DCells (fold_right insert_c [] (regroupc d cells))).
Proof. exact fits_nuniq_file_roundtrip. Qed.

Theorem C07_fits_nuniq_cells_back : forall d cells, Forall (fun c : cell => fst c <= d) cells ->
  Permutation (fold_right insert_c [] (regroupc d cells)) cells /\
  Sorted (fun a b => cell_low Hpx a b = true) (fold_right insert_c [] (regroupc d cells)).
Proof. exact nuniq_cells_sorted_permutation. Qed.

Example C07_nonvacuous :
  encode_rows 2 [(1, 258); (1024, 12288)] = [0; 1; 1; 2; 4; 0; 48; 0] /\
  decode_rows 2 2 [0; 1; 1; 2; 4; 0; 48; 0] = [(1, 258); (1024, 12288)] /\
  fits_pad 8 = 2872 /\
  decode_cells Hpx 16 [(2, 17); (0, 0)] = [(0, 1024); (1088, 1152)].
Proof. repeat split; vm_compute; reflexivity. Qed.

Example C07_ascii_nonvacuous :
  let cells := [(2, 3); (1, 1); (1, 2); (1, 3); (2, 20); (3, 100)] in
  let es := elems_of_cells cells in
  Forall (elem_wf Hpx 4) es /\ Disj Hpx 64 es /\
  from_ascii isort_e Hpx 64 (to_ascii 4 (Some 8) true es) = AOk (4, es) /\
  to_ascii 4 None false es = [49; 47; 49; 45; 51; 32; 50; 47; 51; 32; 50; 48; 32; 51; 47; 49; 48; 48; 32; 52; 47; 32].
Proof.
  split; [|split; [|split; vm_compute; reflexivity]].
  - repeat (constructor || split); vm_compute; try reflexivity; try discriminate.
  - repeat constructor; vm_compute; reflexivity.
Qed.

(** ---------- JSON (src/deser/json.rs), character level ---------- *)
(** the lexer of the JSON subset on ANY rendering of a token list (arbitrary JSON white space between the
    tokens, strings without escapes, numbers below 2^64 followed by ',' or ']') gives back the tokens *)
Theorem C07_json_lexer_on_renderings : forall l, JWF l -> forall acc,
  jlex LIdle (jrender l) acc = Some (acc ++ jtoks_of l).
Proof. exact jlex_render. Qed.

(** the pushdown parser on the tokens of ANY value tree (arrays and objects nested at any depth) gives
    back the tree *)
Theorem C07_json_parser_inverts_tokens : forall v, prun PVal [] (toks v) = Some v.
Proof. exact prun_tree. Qed.

(** writer then reader, on ANY list of pairwise disjoint cells of depth <= dmax inside their domain,
    for EVERY fold width and every white-space prefix: the document is inside the subset, is accepted,
    and decodes to dmax and the cells (bucketed by depth, a permutation, then sorted by the reader) *)
Theorem C07_json_roundtrip : forall (sortf : qty -> list aelem -> list aelem),
  (forall q l, Permutation (sortf q l) l) ->
  forall q w dmax fold prefix cells,
  okw w -> allws prefix -> dmax <= max_depth q w ->
  Forall (elem_wf q dmax) (map of_cell cells) -> Disj q w (map of_cell cells) ->
  from_json sortf q w (to_json dmax fold prefix cells)
  = JRRes (AOk (dmax, sortf q (regroup dmax (map of_cell cells)))).
Proof. exact json_roundtrip. Qed.

(** the whole chain for a MOC: cells (normal form) -> to_json_aladin -> from_json_aladin -> ranges()
    gives back the depth and the ranges of every valid MOC *)
Theorem C07_json_moc_roundtrip : forall (sortf : qty -> list aelem -> list aelem),
  (forall q l, Permutation (sortf q l) l) ->
  (forall q l, Sorted (fun a b => flat_leb q a b = true) (sortf q l)) ->
  forall q w d l cells fold prefix, okw w -> allws prefix -> d <= max_depth q w -> Canon l -> NormalCells q w d l cells ->
  exists l', from_json sortf q w (to_json d fold prefix cells) = JRRes (AOk (d, l')) /\
             ranges_of_elems q w l' = l.
Proof. exact json_cells_roundtrip. Qed.

Example C07_json_nonvacuous :
  let cells := [(2, 3); (1, 1); (1, 2); (2, 20); (3, 100)] in
  Forall (elem_wf Hpx 4) (map of_cell cells) /\ Disj Hpx 64 (map of_cell cells) /\
  from_json isort_e Hpx 64 (to_json 4 (Some 8) [] cells)
  = JRRes (AOk (4, [ECell 2 3; ECell 1 1; ECell 1 2; ECell 2 20; ECell 3 100])) /\
  to_json 4 None [] [(1, 1); (1, 2)] = [123; 10; 32; 32; 34; 49; 34; 58; 32; 91; 49; 44; 32; 50; 93; 44; 10; 32; 32; 34; 52; 34; 58; 32; 91; 93; 10; 125] /\
  jparse [123; 34; 48; 34; 58; 91; 48; 49; 93; 125] = JOut /\          (* {"0":[01]} : outside the subset *)
  jparse [123; 34; 48; 34; 58; 91; 49; 44; 93; 125] = JReject.        (* {"0":[1,]} : not JSON *)
Proof.
  split; [|split; [|split; [|split; [|split]]]]; try (vm_compute; reflexivity).
  - repeat (constructor || split); vm_compute; try reflexivity; try discriminate.
  - repeat constructor; vm_compute; reflexivity.
Qed.

Print Assumptions C07_fits_rows_roundtrip.
Print Assumptions C07_big_endian_roundtrip.
Print Assumptions C07_fits_declared_size.
Print Assumptions C07_fits_block_structure.
Print Assumptions C07_valid_moc_fits_width.
Print Assumptions C07_text_roundtrip.
Print Assumptions C07_cell_range_notation.
Print Assumptions C07_ascii_number_roundtrip.
Print Assumptions C07_ascii_roundtrip.
Print Assumptions C07_ascii_regroup_is_permutation.
Print Assumptions C07_ascii_reader_sound.
Print Assumptions C07_ascii_sort_instance.
Print Assumptions C07_ascii_moc_roundtrip.
Print Assumptions C07_ascii_cells_are_normal.
Print Assumptions C07_ascii_stream_number_roundtrip.
Print Assumptions C07_ascii_stream_roundtrip.
Print Assumptions C07_ascii_stream_moc_roundtrip.
Print Assumptions C07_fits_file_roundtrip.
Print Assumptions C07_fits_file_blocks.
Print Assumptions C07_fits_naxis2_card.
Print Assumptions C07_fits_nuniq_file_roundtrip.
Print Assumptions C07_fits_nuniq_cells_back.
Print Assumptions C07_json_lexer_on_renderings.
Print Assumptions C07_json_parser_inverts_tokens.
Print Assumptions C07_json_roundtrip.
Print Assumptions C07_json_moc_roundtrip.
