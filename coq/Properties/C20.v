(** Property C20 — cumulative-value selection on multi-order maps brackets the requested mass.
    Statements only (models: Model/Valued.v faithful descents and selection,
    Model/ValuedCheck.v verified checker). *)
From Coq Require Import List NArith Bool.
From MOC.Base Require Import RangeSet.
From MOC.Model Require Import Qty Query Build Valued ValuedCheck ValuedSel.
Import ListNotations.
Open Scope N_scope.

(** the descent on the upper threshold terminates without failure for EVERY depth difference
    [fuel], every sub-cell value [u] > 0 and every target strictly inside the cell, and the
    value it encloses is the multiple of the deepest piece next to the target: never above
    the target in strict mode, never below it in non-strict mode, within one deepest piece
    (direct and reverse descent) *)
Theorem C20_upper_descent_brackets : forall rev strict fuel d ipix u t,
  0 < u -> t < u * 4 ^ N.of_nat fuel ->
  exists r, desc rev fuel d ipix (u * 4 ^ N.of_nat fuel) strict t = Some r /\
    let m := mass d (u * 4 ^ N.of_nat fuel) r in
    if strict then m <= t /\ t < m + u else t < m /\ m <= t + u.
Proof. exact desc_bracket. Qed.

(** same for the descent on the lower threshold (it selects what lies AFTER the threshold) *)
Theorem C20_lower_descent_brackets : forall first strict fuel d ipix u t,
  0 < u -> t < u * 4 ^ N.of_nat fuel ->
  exists r, desc_rev first fuel d ipix (u * 4 ^ N.of_nat fuel) strict t = Some r /\
    let m := mass d (u * 4 ^ N.of_nat fuel) r in
    let rest := u * 4 ^ N.of_nat fuel - t in
    if strict then m <= rest /\ rest <= m + u else rest <= m /\ m < rest + u.
Proof. exact desc_rev_bracket. Qed.

(** exact value enclosed by the descents *)
Theorem C20_upper_descent_mass : forall rev strict fuel d ipix u t,
  0 < u -> t < u * 4 ^ N.of_nat fuel ->
  exists r, desc rev fuel d ipix (u * 4 ^ N.of_nat fuel) strict t = Some r /\ deeper d r /\
            mass d (u * 4 ^ N.of_nat fuel) r = u * (t / u) + (if strict then 0 else u).
Proof. exact desc_mass. Qed.

Theorem C20_lower_descent_mass : forall strict fuel first d ipix u t,
  0 < u -> t < u * 4 ^ N.of_nat fuel ->
  exists r, desc_rev first fuel d ipix (u * 4 ^ N.of_nat fuel) strict t = Some r /\ deeper d r /\
            mass d (u * 4 ^ N.of_nat fuel) r + u * (t / u) + (if strict then u else 0) = u * 4 ^ N.of_nat fuel.
Proof. exact desc_rev_mass. Qed.

(** the checker that judges every explored (input, output) pair: a positive verdict means
    the output is made only of (sub-)cells of the map ... *)
Theorem C20_checker_made_of_map_cells : forall maxd0 cells from to asc strict nosplit out,
  v_wf (check maxd0 cells from to asc strict nosplit out) = true ->
  v_subset (check maxd0 cells from to asc strict nosplit out) = true ->
  forall x, cov out x -> exists c, In c cells /\ fst (crange c) <= x < snd (crange c).
Proof. exact check_subset_sound. Qed.

(** ... contains every cell lying between the two thresholds in the density order ... *)
Theorem C20_checker_contains_cells_between : forall maxd0 cells from to asc strict nosplit out,
  v_wf (check maxd0 cells from to asc strict nosplit out) = true ->
  v_between (check maxd0 cells from to asc strict nosplit out) = true ->
  forall c b a, In (c, b, a) (cums (sort asc cells) 0) -> from <= b -> a <= to -> 0 < vv c ->
  forall x, fst (crange c) <= x < snd (crange c) -> cov out x.
Proof. exact check_between_sound. Qed.

(** ... touches no cell lying entirely outside the thresholds ... *)
Theorem C20_checker_respects_order : forall maxd0 cells from to asc strict nosplit out,
  v_wf (check maxd0 cells from to asc strict nosplit out) = true ->
  v_order (check maxd0 cells from to asc strict nosplit out) = true ->
  forall c b a, In (c, b, a) (cums (sort asc cells) 0) -> (a <= from \/ to <= b) -> 0 < vv c ->
  forall x, fst (crange c) <= x < snd (crange c) -> ~ cov out x.
Proof. exact check_order_sound. Qed.

(** ... and the enclosed value brackets (to - from) within the boundary pieces *)
Theorem C20_checker_bracket_exact : forall maxd0 cells from to asc strict nosplit out,
  let v := check maxd0 cells from to asc strict nosplit out in
  let maxd := maxdepth maxd0 cells in
  let cs := cums (sort asc cells) 0 in
  let total := fold_right (fun x s => sel maxd out (fst (fst x)) + s) 0 cs in
  let slack := fold_right (fun x s =>
                 let '(c, b, a) := x in
                 (if (b <? from) && (from <? a) then piece_val nosplit maxd c else 0) +
                 (if (b <? to) && (to <? a) then piece_val nosplit maxd c else 0) + s) 0 cs in
  v_bracket v = true <->
  if strict then total <= to - from /\ to - from <= total + slack
  else to - from <= total /\ total <= to - from + slack.
Proof. exact check_bracket_exact. Qed.


(** THE COMPLETE SELECTION (whole cells between the thresholds + descent in the lower boundary
    cell + descent in the upper boundary cell, composed as the repaired code does) brackets the
    requested mass: for every map whose cell values are positive multiples of their deepest
    sub-cell value, every 0 <= from <= to <= total that do not fall strictly inside the same
    cell (known finding D19b), every option combination.  [p] exhibits the three parts of
    the output; the slack is one deepest piece per boundary cell (the whole boundary cell in
    no-split mode). *)
Theorem C20_selection_brackets_requested_mass : forall maxd sorted from to strict nosplit rev,
  Forall (Div maxd) sorted -> from <= to -> to <= sumv sorted ->
  (forall pre c post, sorted = pre ++ c :: post -> ~ (sumv pre < from /\ to < sumv pre + vv c)) ->
  exists p, select_sorted true maxd sorted from to strict nosplit rev = Some (parts_out p) /\
    let m := parts_mass p in let s := parts_slack nosplit maxd p in
    if strict then m <= to - from /\ to - from <= m + s
    else to - from <= m /\ m <= to - from + s.
Proof. exact select_sorted_brackets. Qed.

(** [select_sorted] is [select] after its sort and maximum-depth computation *)
Theorem C20_select_is_select_sorted : forall fixed maxd0 cells from to asc strict nosplit rev,
  select fixed maxd0 cells from to asc strict nosplit rev =
  select_sorted fixed (fold_left (fun m c => N.max m (vd c)) cells maxd0) (sort asc cells) from to strict nosplit rev.
Proof. exact select_is_select_sorted. Qed.

(** D19a: before the repair the accumulated value was not advanced past the lower boundary
    cell in split mode: three cells of value 4, from = 2, to = 6, strict: 7 units selected for
    a target of 4; the repaired selection encloses 4 *)
Definition d19a_cells : list vcell :=
  [ {| vd := 0; vi := 0; vv := 4; vk := 30 |}; {| vd := 0; vi := 1; vv := 4; vk := 20 |};
    {| vd := 0; vi := 2; vv := 4; vk := 10 |} ].
Definition out_ranges (o : option (list cell)) : list range :=
  match o with Some l => canon_of (map (fun c => cell_range Hpx 64 (fst c) (snd c)) l) | None => [] end.

Theorem C20_d19a_refuted :
  v_bracket (check 1 d19a_cells 2 6 false true false
               (out_ranges (select false 1 d19a_cells 2 6 false true false false))) = false /\
  v_bracket (check 1 d19a_cells 2 6 false true false
               (out_ranges (select true 1 d19a_cells 2 6 false true false false))) = true.
Proof. split; vm_compute; reflexivity. Qed.

(** D19b (known finding): both thresholds strictly inside the SAME map cell, split mode:
    everything after [from] in that cell is selected, whatever [to] *)
Definition d19b_cells : list vcell := [ {| vd := 0; vi := 0; vv := 64; vk := 1 |} ].
Theorem C20_d19b_same_cell_refuted :
  let v := check 2 d19b_cells 26 52 false true false
             (out_ranges (select true 2 d19b_cells 26 52 false true false false)) in
  v_samecell v = true /\ v_bracket v = false /\ v_subset v = true /\ v_order v = true.
Proof. cbv zeta. repeat split; vm_compute; reflexivity. Qed.

Example C20_nonvacuous :
  select true 2 [ {| vd := 1; vi := 0; vv := 16; vk := 5 |}; {| vd := 0; vi := 1; vv := 64; vk := 9 |} ]
         20 72 false false false false
  = Some [(2, 21); (2, 22); (2, 23); (1, 6); (1, 7); (2, 0); (2, 1); (2, 2)] /\
  desc false 2 0 3 48 true 20 = Some [(1, 12); (2, 52); (2, 53)] /\
  desc_rev true 1 0 0 8 false 3 = Some [(1, 2); (1, 1); (1, 0)].
Proof. repeat split; vm_compute; reflexivity. Qed.

Print Assumptions C20_upper_descent_brackets.
Print Assumptions C20_lower_descent_brackets.
Print Assumptions C20_upper_descent_mass.
Print Assumptions C20_lower_descent_mass.
Print Assumptions C20_checker_made_of_map_cells.
Print Assumptions C20_checker_contains_cells_between.
Print Assumptions C20_checker_respects_order.
Print Assumptions C20_checker_bracket_exact.
Print Assumptions C20_d19a_refuted.
Print Assumptions C20_d19b_same_cell_refuted.
Print Assumptions C20_selection_brackets_requested_mass.
Print Assumptions C20_select_is_select_sorted.
