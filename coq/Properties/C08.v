(** Property C08 — streaming ST-MOC union is the union of the point sets.
    Statements only.  The Rust union (a 1400-line streaming state machine) is not
    transliterated: its OUTPUT is judged, on every case, by the two checkers whose
    exactness is proved here, so a PASS is a proof for that output and a FAIL is a
    genuine violation.  *)
From Coq Require Import List NArith.
From MOC.Base Require Import RangeSet.
From MOC.Model Require Import Qty Ops1D ST.
Import ListNotations.
Open Scope N_scope.

(** point sets: the checker accepts [out] as a result of [o] on A and B iff [out]
    covers exactly the set combination, pair by pair — for ∪ (C08) and also ∩, \ (C10) *)
Theorem C08_pointset_checker_exact : forall o ub out A B, WF ub out -> WF ub A -> WF ub B ->
  (pts_opb o ub out A B = true <->
   forall t s, cov2 out t s <-> setop o (cov2 A t s) (cov2 B t s)).
Proof. exact pts_opb_spec. Qed.

(** validity: every element has non-empty, canonical time and space MOCs of the declared
    depths, elements are ordered by time and their time MOCs do not overlap *)
Theorem C08_validity_checker_exact : forall wt ws dt ds X,
  valid2db wt ws dt ds X = true <-> Valid2 wt ws dt ds X.
Proof. exact valid2db_spec. Qed.

(** the union of two ST-MOCs as a point set is their concatenation: the reference the
    implementation is compared with needs no algorithm at all *)
Theorem C08_union_reference : forall X Y t s, cov2 (X ++ Y) t s <-> cov2 X t s \/ cov2 Y t s.
Proof. exact cov2_app. Qed.

(** commutativity up to point-set equality is a consequence *)
Theorem C08_union_commutes : forall ub out A B, WF ub out -> WF ub A -> WF ub B ->
  pts_opb OOr ub out A B = true -> pts_opb OOr ub out B A = true.
Proof.
  intros ub out A B Ho HA HB H.
  apply (proj2 (pts_opb_spec OOr ub out B A Ho HB HA)).
  intros t s. rewrite (proj1 (pts_opb_spec OOr ub out A B Ho HA HB) H t s). simpl. tauto.
Qed.

Example C08_nonvacuous :
  let A := [([(0, 4)], [(0, 16)])] in
  let B := [([(2, 6)], [(8, 32)])] in
  let good := [([(0, 2)], [(0, 16)]); ([(2, 4)], [(0, 32)]); ([(4, 6)], [(8, 32)])] in
  let bad_overlap := [([(0, 4)], [(0, 16)]); ([(2, 6)], [(8, 32)])] in
  pts_opb OOr 1000 good A B = true /\ valid2db 64 64 61 29 good = true /\
  pts_opb OOr 1000 bad_overlap A B = true /\ valid2db 64 64 61 29 bad_overlap = false /\
  pts_opb OOr 1000 A A B = false.
Proof. repeat split; vm_compute; reflexivity. Qed.

Print Assumptions C08_pointset_checker_exact.
Print Assumptions C08_validity_checker_exact.
Print Assumptions C08_union_reference.
Print Assumptions C08_union_commutes.
