(** Model/MocSetBytesProofs.v — the layout of Model/MocSetBytes.v is decodable. *)
From Coq Require Import List NArith Arith Lia Bool.
From MOC.Base Require Import RangeSet.
From MOC.Model Require Import Serial MocSet MocSetBytes.
Import ListNotations.
Open Scope N_scope.

Arguments N.add : simpl never.
Arguments N.mul : simpl never.
Arguments N.sub : simpl never.
Arguments N.div : simpl never.
Arguments N.modulo : simpl never.
Arguments N.pow : simpl never.
Arguments N.eqb : simpl never.
Arguments N.leb : simpl never.
Arguments N.ltb : simpl never.

(** ---------- little-endian words ---------- *)
Lemma le_bytes_length n x : length (le_bytes n x) = n.
Proof. unfold le_bytes. rewrite rev_length. apply be_bytes_length. Qed.

Lemma le_roundtrip n x : x < 256 ^ N.of_nat n -> le_value (le_bytes n x) = x.
Proof. intros H. unfold le_value, le_bytes. rewrite rev_involutive. apply be_roundtrip. exact H. Qed.

Lemma words_app ws : forall k rest, Forall (fun x => x < 2 ^ 64) ws ->
  words (length ws + k) (flat_map (le_bytes 8) ws ++ rest) = ws ++ words k rest.
Proof.
  induction ws as [|x ws IH]; intros k rest H; [reflexivity|].
  inversion H as [|? ? Hx Hws]; subst.
  cbn [length Nat.add words flat_map]. rewrite <- app_assoc.
  assert (L : length (le_bytes 8 x) = 8%nat) by apply le_bytes_length.
  rewrite (firstn_app_exact _ _ 8 L), (skipn_app_exact _ _ 8 L).
  rewrite le_roundtrip by (change (256 ^ N.of_nat 8) with (2 ^ 64); exact Hx).
  cbn [app]. f_equal. apply IH. exact Hws.
Qed.

Lemma zeros_words k : repeat 0 (8 * k) = flat_map (le_bytes 8) (repeat 0 k).
Proof.
  induction k as [|k IH]; [reflexivity|].
  replace (8 * S k)%nat with (8 + 8 * k)%nat by lia. rewrite repeat_app, IH. reflexivity.
Qed.

Lemma until_void_zeros ws k : Forall (fun x => x <> 0) ws -> until_void (ws ++ repeat 0 k) = ws.
Proof.
  induction 1 as [|x ws Hx _ IH]; cbn [app until_void].
  - destruct k; reflexivity.
  - destruct (N.eqb_spec x 0); [contradiction|]. rewrite IH. reflexivity.
Qed.

(** ---------- one metadata word ---------- *)
Definition entry_ok (e : sentry) : Prop :=
  e_id smoc e < 2 ^ 48 /\ fst (e_moc smoc e) < 256 /\
  Forall (fun r : range => if 13 <? fst (e_moc smoc e)
                           then fst r < 2 ^ 64 /\ snd r < 2 ^ 64
                           else fst r mod 2 ^ 32 = 0 /\ snd r mod 2 ^ 32 = 0 /\ fst r < 2 ^ 64 /\ snd r < 2 ^ 64)
         (snd (e_moc smoc e)).

Lemma raw_meta_fields e : entry_ok e ->
  raw_meta e < 2 ^ 64 /\ raw_meta e <> 0 /\ status_of_raw (raw_meta e) = e_st smoc e /\
  (raw_meta e / 2 ^ 48) mod 256 = fst (e_moc smoc e) /\ raw_meta e mod 2 ^ 48 = e_id smoc e.
Proof.
  intros [Hid [Hd _]]. unfold raw_meta, status_of_raw.
  set (d := fst (e_moc smoc e)) in *. set (i := e_id smoc e) in *.
  change (2 ^ 64) with 18446744073709551616. change (2 ^ 56) with (256 * 281474976710656).
  change (2 ^ 48) with 281474976710656 in *.
  assert (HdT : d * 281474976710656 <= 255 * 281474976710656) by (apply N.mul_le_mono_r; lia).
  remember (d * 281474976710656) as dT eqn:EdT.
  assert (Hf : exists f, flag_of (e_st smoc e) = f /\ 1 <= f <= 3 /\
                         (if f =? 1 then Removed else if f =? 2 then Deprecated else Valid) = e_st smoc e).
  { destruct (e_st smoc e); cbn [flag_of]; eexists; (split; [reflexivity|split; [lia|reflexivity]]). }
  destruct Hf as [f [-> [Hf Hst]]].
  assert (E1 : (f * (256 * 281474976710656) + dT + i) / (256 * 281474976710656) = f).
  { replace (f * (256 * 281474976710656) + dT + i) with ((dT + i) + f * (256 * 281474976710656)) by lia.
    rewrite N.div_add by lia. rewrite N.div_small by lia. lia. }
  assert (E2 : (f * (256 * 281474976710656) + dT + i) / 281474976710656 = f * 256 + d).
  { replace (f * (256 * 281474976710656) + dT + i) with (i + (f * 256 + d) * 281474976710656) by lia.
    rewrite N.div_add by lia. rewrite N.div_small by lia. lia. }
  assert (E3 : (f * (256 * 281474976710656) + dT + i) mod 281474976710656 = i).
  { replace (f * (256 * 281474976710656) + dT + i) with (i + (f * 256 + d) * 281474976710656) by lia.
    rewrite N.mod_add by lia. apply N.mod_small. exact Hid. }
  split; [lia|]. split; [lia|]. split; [|split].
  - rewrite E1. rewrite (N.mod_small f 4) by lia. exact Hst.
  - rewrite E2. rewrite N.add_comm, N.mod_add by lia. apply N.mod_small. exact Hd.
  - exact E3.
Qed.

(** ---------- the data of one entry ---------- *)
Lemma read_ranges_le_data (wide : bool) : forall (l : list range) fuel rest, (length l <= fuel)%nat ->
  Forall (fun r : range => if wide then fst r < 2 ^ 64 /\ snd r < 2 ^ 64
                           else fst r mod 2 ^ 32 = 0 /\ snd r mod 2 ^ 32 = 0 /\ fst r < 2 ^ 64 /\ snd r < 2 ^ 64) l ->
  rest = [] ->
  read_ranges_le fuel wide (flat_map (range_data wide) l ++ rest) = l.
Proof.
  induction l as [|[a b] t IH]; intros fuel rest Hf Hl Hr; subst rest.
  - cbn [flat_map app]. destruct fuel; [reflexivity|]. cbn [read_ranges_le length]. destruct wide; reflexivity.
  - inversion Hl as [|? ? Hab Ht]; subst. destruct fuel as [|fuel]; [cbn [length] in Hf; lia|].
    cbn [flat_map]. rewrite app_nil_r. cbn [read_ranges_le].
    destruct wide; cbn [fst snd] in *.
    + change (range_data true (a, b)) with (le_bytes 8 a ++ le_bytes 8 b).
      destruct Hab as [Ha Hb].
      assert (L1 : length (le_bytes 8 a) = 8%nat) by apply le_bytes_length.
      assert (L2 : length (le_bytes 8 b) = 8%nat) by apply le_bytes_length.
      match goal with |- context [Nat.ltb ?x (8 + 8)] =>
        assert (Len : Nat.ltb x (8 + 8) = false) by (apply Nat.ltb_ge; rewrite !app_length, L1, L2; lia); rewrite Len end.
      rewrite <- !app_assoc.
      rewrite (firstn_app_exact _ _ 8 L1), (skipn_app_exact _ _ 8 L1), (firstn_app_exact _ _ 8 L2).
      rewrite !le_roundtrip by (change (256 ^ N.of_nat 8) with (2 ^ 64); assumption).
      f_equal.
      replace (le_bytes 8 a ++ le_bytes 8 b ++ flat_map (range_data true) t) with ((le_bytes 8 a ++ le_bytes 8 b) ++ flat_map (range_data true) t) by (rewrite <- app_assoc; reflexivity).
      rewrite (skipn_app_exact _ _ (8 + 8)) by (rewrite app_length; lia).
      rewrite <- (app_nil_r (flat_map (range_data true) t)). apply IH; [cbn [length] in Hf; lia|exact Ht|reflexivity].
    + change (range_data false (a, b)) with (le_bytes 4 (a / 2 ^ 32) ++ le_bytes 4 (b / 2 ^ 32)).
      destruct Hab as [Ma [Mb [Ha Hb]]].
      assert (Qa : a / 2 ^ 32 < 256 ^ N.of_nat 4) by (change (256 ^ N.of_nat 4) with (2 ^ 32); apply N.div_lt_upper_bound; [lia|]; change (2 ^ 32 * 2 ^ 32) with (2 ^ 64); exact Ha).
      assert (Qb : b / 2 ^ 32 < 256 ^ N.of_nat 4) by (change (256 ^ N.of_nat 4) with (2 ^ 32); apply N.div_lt_upper_bound; [lia|]; change (2 ^ 32 * 2 ^ 32) with (2 ^ 64); exact Hb).
      assert (L1 : length (le_bytes 4 (a / 2 ^ 32)) = 4%nat) by apply le_bytes_length.
      assert (L2 : length (le_bytes 4 (b / 2 ^ 32)) = 4%nat) by apply le_bytes_length.
      match goal with |- context [Nat.ltb ?x (4 + 4)] =>
        assert (Len : Nat.ltb x (4 + 4) = false) by (apply Nat.ltb_ge; rewrite !app_length, L1, L2; lia); rewrite Len end.
      rewrite <- !app_assoc.
      rewrite (firstn_app_exact _ _ 4 L1), (skipn_app_exact _ _ 4 L1), (firstn_app_exact _ _ 4 L2).
      rewrite !le_roundtrip by assumption.
      f_equal.
      * f_equal.
        -- pose proof (N.div_mod a (2 ^ 32) ltac:(lia)) as D. rewrite Ma in D. lia.
        -- pose proof (N.div_mod b (2 ^ 32) ltac:(lia)) as D. rewrite Mb in D. lia.
      * replace (le_bytes 4 (a / 2 ^ 32) ++ le_bytes 4 (b / 2 ^ 32) ++ flat_map (range_data false) t)
          with ((le_bytes 4 (a / 2 ^ 32) ++ le_bytes 4 (b / 2 ^ 32)) ++ flat_map (range_data false) t) by (rewrite <- app_assoc; reflexivity).
        rewrite (skipn_app_exact _ _ (4 + 4)) by (rewrite app_length; lia).
        rewrite <- (app_nil_r (flat_map (range_data false) t)). apply IH; [cbn [length] in Hf; lia|exact Ht|reflexivity].
Qed.

Lemma moc_data_length_ge m : (length (snd m) <= length (moc_data m))%nat.
Proof.
  unfold moc_data. induction (snd m) as [|r t IH]; [cbn; lia|].
  cbn [flat_map length]. rewrite app_length. unfold range_data at 1.
  destruct (13 <? fst m); rewrite app_length, !le_bytes_length; lia.
Qed.

Lemma read_moc_data e : entry_ok e ->
  read_ranges_le (length (moc_data (e_moc smoc e))) (13 <? fst (e_moc smoc e)) (moc_data (e_moc smoc e)) = snd (e_moc smoc e).
Proof.
  intros [_ [_ Hr]]. unfold moc_data at 2.
  rewrite <- (app_nil_r (flat_map _ _)).
  apply read_ranges_le_data; [apply moc_data_length_ge| |reflexivity].
  destruct (13 <? fst (e_moc smoc e)); exact Hr.
Qed.

(** ---------- the entries from the metadata words, the index and the data slices ---------- *)
Lemma entries_of_layout : forall (t : list sentry) (H P zs J : list N) (from : N) (file : list N),
  Forall entry_ok t ->
  file = H ++ P ++ data_part t ++ J ->
  N.of_nat (length (H ++ P)) = from ->
  entries_of file (map raw_meta t) (from :: cumul from (map (fun e => moc_data (e_moc smoc e)) t) ++ zs) = t.
Proof.
  induction t as [|e t IH]; intros H P zs J from file Hok Hfile Hfrom; [reflexivity|].
  pose proof (Forall_inv Hok) as He. pose proof (Forall_inv_tail Hok) as Ht.
  cbn [map cumul app entries_of].
  set (de := moc_data (e_moc smoc e)) in *.
  set (to := from + N.of_nat (length de)).
  destruct (raw_meta_fields e He) as [_ [_ [F1 [F2 F3]]]].
  rewrite F1, F2, F3.
  assert (Hto : N.to_nat (to - from) = length de) by (unfold to; lia).
  assert (Hsk : skipn (N.to_nat from) file = de ++ data_part t ++ J).
  { rewrite Hfile. cbn [data_part flat_map]. fold de. fold (data_part t).
    rewrite <- app_assoc. rewrite app_assoc. apply skipn_app_exact. lia. }
  rewrite Hto, Hsk. rewrite (firstn_app_exact de _ (length de) eq_refl).
  unfold de at 1 2. rewrite (read_moc_data e He).
  f_equal.
  - destruct e as [st id [d l]]. reflexivity.
  - apply (IH H (P ++ de) zs J to file Ht).
    + rewrite Hfile. cbn [data_part flat_map]. fold de. fold (data_part t). rewrite <- !app_assoc. reflexivity.
    + unfold to. rewrite <- Hfrom. rewrite !app_length. lia.
Qed.

Lemma cumul_bound : forall ds from, Forall (fun x => x < 2 ^ 64) (cumul from ds) <->
  Forall (fun x => x < 2 ^ 64) (cumul from ds).
Proof. tauto. Qed.

Lemma cumul_le : forall ds from, Forall (fun x => from <= x) (cumul from ds).
Proof.
  induction ds as [|d ds IH]; intros from; cbn [cumul]; constructor; [lia|].
  eapply Forall_impl; [|apply IH]. intros x Hx. cbn beta in Hx. lia.
Qed.

Lemma cumul_last_bound : forall ds from B, from + N.of_nat (length (List.concat ds)) <= B ->
  Forall (fun x => x <= B) (cumul from ds).
Proof.
  induction ds as [|d ds IH]; intros from B H; cbn [cumul]; [constructor|].
  cbn [List.concat] in H. rewrite app_length in H. constructor; [lia|]. apply IH. lia.
Qed.

Lemma cumul_length ds : forall from, length (cumul from ds) = length ds.
Proof. induction ds as [|d ds IH]; intros from; cbn [cumul length]; [reflexivity|]. rewrite IH. reflexivity. Qed.

(** a file whose unused index slots hold anything and whose data part is followed by anything
    (what an interrupted append leaves behind) decodes to the same state *)
Definition layout_gen (n128 : N) (ents : list sentry) (tailw junk : list N) : list N :=
  le_bytes 8 n128 ++ meta_part n128 ents ++ flat_map (le_bytes 8) (index_words n128 ents ++ tailw) ++ data_part ents ++ junk.

Theorem decode_layout_gen n128 (ents : list sentry) tailw junk :
  1 <= n128 -> (length ents <= cap_of n128)%nat -> Forall entry_ok ents ->
  hdr_size n128 + N.of_nat (length (data_part ents)) < 2 ^ 64 ->
  length tailw = (cap_of n128 - length ents)%nat -> Forall (fun x => x < 2 ^ 64) tailw ->
  decode_file (layout_gen n128 ents tailw junk) = (n128, ents).
Proof.
  intros Hn Hlen Hok Hsz Htl Htw.
  assert (Hn64 : n128 < 256 ^ N.of_nat 8) by (change (256 ^ N.of_nat 8) with (2 ^ 64); unfold hdr_size in Hsz; lia).
  set (cap := cap_of n128) in *. set (n := length ents) in *.
  set (raws := map raw_meta ents).
  set (datas := map (fun e => moc_data (e_moc smoc e)) ents).
  assert (EM : meta_part n128 ents = flat_map (le_bytes 8) (raws ++ repeat 0 (cap - n))).
  { unfold meta_part. fold cap n. rewrite flat_map_app, <- zeros_words. f_equal. unfold raws. clear. induction ents as [|e t IH]; [reflexivity|]. cbn [flat_map map]. rewrite IH. reflexivity. }
  assert (Rok : Forall (fun x => x < 2 ^ 64) (raws ++ repeat 0 (cap - n))).
  { apply Forall_app. split.
    - unfold raws. apply Forall_forall. intros x Hx. apply in_map_iff in Hx. destruct Hx as [e [<- He]].
      rewrite Forall_forall in Hok. apply (raw_meta_fields e (Hok e He)).
    - apply Forall_forall. intros x Hx. apply repeat_spec in Hx. subst x. reflexivity. }
  assert (Iok : Forall (fun x => x < 2 ^ 64) (index_words n128 ents ++ tailw)).
  { apply Forall_app. split; [|exact Htw].
    unfold index_words. constructor; [lia|]. fold datas.
    assert (B : Forall (fun x => x <= hdr_size n128 + N.of_nat (length (data_part ents))) (cumul (hdr_size n128) datas)).
    { apply cumul_last_bound. unfold datas, data_part. rewrite flat_map_concat_map. lia. }
    eapply Forall_impl; [|exact B]. intros x Hx. cbn beta in Hx. lia. }
  assert (LR : length (raws ++ repeat 0 (cap - n)) = cap) by (rewrite app_length, repeat_length; unfold raws; rewrite map_length; unfold n, cap, sentry in *; lia).
  assert (LI : length (index_words n128 ents ++ tailw) = S cap).
  { rewrite app_length, Htl. unfold index_words. cbn [length]. rewrite cumul_length. unfold datas. rewrite map_length. unfold n, cap, sentry in *. lia. }
  unfold decode_file, layout_gen.
  assert (LA : length (le_bytes 8 n128) = 8%nat) by apply le_bytes_length.
  rewrite (firstn_app_exact _ _ 8 LA). rewrite (le_roundtrip 8 n128 Hn64). fold cap.
  rewrite (skipn_app_exact _ _ 8 LA).
  rewrite EM.
  set (R := raws ++ repeat 0 (cap - n)) in *.
  replace cap with (length R + 0)%nat at 1 by lia.
  rewrite (words_app _ 0 _ Rok).
  match goal with |- context [words 0 ?b] => change (words 0 b) with (@nil N) end. rewrite app_nil_r.
  change (until_void R) with (until_void (raws ++ repeat 0 (cap - n))).
  rewrite until_void_zeros.
  2:{ unfold raws. apply Forall_forall. intros x Hx. apply in_map_iff in Hx. destruct Hx as [e [<- He]].
      rewrite Forall_forall in Hok. apply (raw_meta_fields e (Hok e He)). }
  assert (LM : length (flat_map (le_bytes 8) R) = (8 * cap)%nat).
  { rewrite <- LR. generalize R. intros l. induction l as [|x l IHl]; [reflexivity|].
    cbn [flat_map length]. rewrite app_length, le_bytes_length, IHl. lia. }
  set (IW := index_words n128 ents ++ tailw) in *.
  replace (le_bytes 8 n128 ++ flat_map (le_bytes 8) R ++ flat_map (le_bytes 8) IW ++ data_part ents ++ junk)
    with ((le_bytes 8 n128 ++ flat_map (le_bytes 8) R) ++ flat_map (le_bytes 8) IW ++ data_part ents ++ junk)
    by (rewrite <- app_assoc; reflexivity).
  rewrite (skipn_app_exact _ _ (8 + 8 * cap)) by (rewrite app_length; lia).
  replace (S cap) with (length IW + 0)%nat by lia.
  rewrite (words_app _ 0 _ Iok).
  match goal with |- context [words 0 ?b] => change (words 0 b) with (@nil N) end. rewrite app_nil_r.
  f_equal.
  change IW with (hdr_size n128 :: cumul (hdr_size n128) datas ++ tailw) at 1.
  apply (entries_of_layout ents ((le_bytes 8 n128 ++ flat_map (le_bytes 8) R) ++ flat_map (le_bytes 8) IW) [] _ junk (hdr_size n128)).
  - exact Hok.
  - rewrite app_nil_l. rewrite <- !app_assoc. reflexivity.
  - rewrite app_nil_r, !app_length, LA, LM.
    assert (LI8 : length (flat_map (le_bytes 8) IW) = (8 * S cap)%nat).
    { rewrite <- LI. generalize IW. intros l. induction l as [|x l IHl]; [reflexivity|].
      cbn [flat_map length]. rewrite app_length, le_bytes_length, IHl. lia. }
    rewrite LI8. unfold hdr_size, cap, cap_of. lia.
Qed.

Lemma file_bytes_gen n128 ents : file_bytes n128 ents = layout_gen n128 ents (repeat 0 (cap_of n128 - length ents)) [].
Proof.
  unfold file_bytes, layout_gen, index_part. rewrite flat_map_app, <- zeros_words, app_nil_r. reflexivity.
Qed.

Theorem decode_file_bytes n128 (ents : list sentry) :
  1 <= n128 -> (length ents <= cap_of n128)%nat -> Forall entry_ok ents ->
  hdr_size n128 + N.of_nat (length (data_part ents)) < 2 ^ 64 ->
  decode_file (file_bytes n128 ents) = (n128, ents).
Proof.
  intros Hn Hlen Hok Hsz. rewrite file_bytes_gen.
  apply decode_layout_gen; try assumption.
  - apply repeat_length.
  - apply Forall_forall. intros x Hx. apply repeat_spec in Hx. subst x. reflexivity.
Qed.

(** ---------- the writes of an append: every prefix decodes to the old or to the new state ---------- *)
Lemma write_at_prefix P p k b X : length P = p -> write_at (p + k) b (P ++ X) = P ++ write_at k b X.
Proof.
  intros <-. unfold write_at.
  rewrite firstn_app. rewrite firstn_all2 by lia.
  replace (length P + k - length P)%nat with k by lia.
  rewrite <- app_assoc. f_equal. f_equal. f_equal.
  rewrite skipn_app. rewrite skipn_all2 by lia. cbn [app].
  f_equal. lia.
Qed.

Lemma write_at_end A b J : write_at (length A) b (A ++ J) = A ++ b ++ skipn (length b) J.
Proof.
  replace (length A) with (length A + 0)%nat at 1 by lia. rewrite write_at_prefix by reflexivity.
  unfold write_at. cbn [firstn app Nat.add]. reflexivity.
Qed.

Lemma flat_le8_length ws : length (flat_map (le_bytes 8) ws) = (8 * length ws)%nat.
Proof. induction ws as [|x t IH]; [reflexivity|]. cbn [flat_map length]. rewrite app_length, le_bytes_length, IH. lia. Qed.

Lemma write_at_word ws1 y ws2 x rest :
  write_at (8 * length ws1) (le_bytes 8 x) (flat_map (le_bytes 8) (ws1 ++ y :: ws2) ++ rest)
  = flat_map (le_bytes 8) (ws1 ++ x :: ws2) ++ rest.
Proof.
  rewrite !flat_map_app. cbn [flat_map]. rewrite <- !app_assoc.
  rewrite <- (flat_le8_length ws1).
  replace (length (flat_map (le_bytes 8) ws1)) with (length (flat_map (le_bytes 8) ws1) + 0)%nat at 1 by lia.
  rewrite write_at_prefix by reflexivity. f_equal.
Qed.

Lemma append_steps_files n128 (ents : list sentry) (e : sentry) junk :
  (length ents < cap_of n128)%nat ->
  let cap := cap_of n128 in let n := length ents in
  let de := moc_data (e_moc smoc e) in
  let j1 := de ++ skipn (length de) junk in
  let x := N.of_nat (N.to_nat (hdr_size n128) + length (data_part ents) + length de) in
  append_steps n128 ents e (layout_gen n128 ents (repeat 0 (cap - n)) junk)
  = [layout_gen n128 ents (repeat 0 (cap - n)) j1;
     layout_gen n128 ents (x :: repeat 0 (cap - S n)) j1;
     layout_gen n128 (ents ++ [e]) (repeat 0 (cap - S n)) (skipn (length de) junk)].
Proof.
  intros Hlen cap n de j1 x.
  assert (Dapp : data_part (ents ++ [e]) = data_part ents ++ de).
  { unfold data_part. rewrite flat_map_app. cbn [flat_map]. rewrite app_nil_r. reflexivity. }
  set (from := (N.to_nat (hdr_size n128) + length (data_part ents))%nat).
  set (raws := map raw_meta ents).
  set (iw := index_words n128 ents).
  (* the header parts with one spare slot made explicit *)
  assert (Ez : repeat 0 (cap - n) = 0 :: repeat 0 (cap - S n)).
  { replace (cap - n)%nat with (S (cap - S n)) by (unfold n, cap, sentry in *; lia). reflexivity. }
  assert (EMp : meta_part n128 ents = flat_map (le_bytes 8) (raws ++ 0 :: repeat 0 (cap - S n))).
  { unfold meta_part. change (cap_of n128) with cap. change (@length (entry smoc) ents) with n.
    change (@length sentry ents) with n.
    rewrite (zeros_words (cap - n)), Ez, flat_map_app. f_equal.
    unfold raws. clear. induction ents as [|x t IH]; [reflexivity|]. cbn [flat_map map]. rewrite IH. reflexivity. }
  assert (Liw : length iw = S n).
  { unfold iw, index_words. cbn [length]. rewrite cumul_length, map_length. reflexivity. }
  assert (Lraws : length raws = n) by (unfold raws; rewrite map_length; reflexivity).
  assert (LM : length (meta_part n128 ents) = (8 * cap)%nat).
  { rewrite EMp, flat_le8_length, app_length. cbn [length]. rewrite repeat_length, Lraws. unfold n, cap, sentry in *. lia. }
  set (A := le_bytes 8 n128).
  assert (LA : length A = 8%nat) by apply le_bytes_length.
  set (f0 := layout_gen n128 ents (repeat 0 (cap - n)) junk).
  (* the three files *)
  assert (F0 : f0 = (A ++ meta_part n128 ents ++ flat_map (le_bytes 8) (iw ++ repeat 0 (cap - n)) ++ data_part ents) ++ junk).
  { unfold f0, layout_gen. fold A iw. rewrite <- ?app_assoc. reflexivity. }
  assert (Lhead : length (A ++ meta_part n128 ents ++ flat_map (le_bytes 8) (iw ++ repeat 0 (cap - n)) ++ data_part ents) = from).
  { rewrite !app_length, LA, LM, flat_le8_length, app_length, repeat_length, Liw. unfold from, hdr_size, cap, cap_of, n, sentry in *. lia. }
  assert (F1 : write_at from de f0 = layout_gen n128 ents (repeat 0 (cap - n)) j1).
  { rewrite F0. rewrite <- Lhead. rewrite write_at_end. unfold layout_gen, j1. fold A iw. rewrite <- !app_assoc. reflexivity. }
  change x with (N.of_nat (from + length de)) in *.
  assert (F2 : write_at (8 + 8 * cap + 8 * S n) (le_bytes 8 x) (layout_gen n128 ents (repeat 0 (cap - n)) j1)
               = layout_gen n128 ents (x :: repeat 0 (cap - S n)) j1).
  { unfold layout_gen. fold A iw. rewrite Ez.
    replace (A ++ meta_part n128 ents ++ flat_map (le_bytes 8) (iw ++ 0 :: repeat 0 (cap - S n)) ++ data_part ents ++ j1)
      with ((A ++ meta_part n128 ents) ++ flat_map (le_bytes 8) (iw ++ 0 :: repeat 0 (cap - S n)) ++ data_part ents ++ j1) by (rewrite <- app_assoc; reflexivity).
    rewrite (write_at_prefix (A ++ meta_part n128 ents) (8 + 8 * cap) (8 * S n)) by (rewrite app_length, LA, LM; reflexivity).
    replace (8 * S n)%nat with (8 * length iw)%nat by (rewrite Liw; reflexivity). rewrite write_at_word. rewrite <- app_assoc. reflexivity. }
  assert (F3 : write_at (8 + 8 * n) (le_bytes 8 (raw_meta e)) (layout_gen n128 ents (x :: repeat 0 (cap - S n)) j1)
               = layout_gen n128 (ents ++ [e]) (repeat 0 (cap - S n)) (skipn (length de) junk)).
  { unfold layout_gen. fold A iw. rewrite EMp.
    rewrite (write_at_prefix A 8 (8 * n)) by exact LA.
    replace (8 * n)%nat with (8 * length raws)%nat by (rewrite Lraws; reflexivity). rewrite write_at_word.
    (* the new state's parts *)
    assert (EM' : meta_part n128 (ents ++ [e]) = flat_map (le_bytes 8) (raws ++ raw_meta e :: repeat 0 (cap - S n))).
    { unfold meta_part. change (cap_of n128) with cap. rewrite app_length. cbn [length]. change (@length (entry smoc) ents) with n. change (@length sentry ents) with n. replace (cap - (n + 1))%nat with (cap - S n)%nat by lia.
      rewrite flat_map_app. cbn [flat_map]. rewrite <- app_assoc. rewrite (zeros_words (cap - S n)).
      rewrite !flat_map_app. cbn [flat_map]. rewrite app_nil_r. f_equal.
      unfold raws. clear. induction ents as [|y t IH]; [reflexivity|]. cbn [flat_map map]. rewrite IH. reflexivity. }
    assert (EI' : index_words n128 (ents ++ [e]) = iw ++ [x]).
    { unfold iw, index_words. rewrite map_app. cbn [map].
      assert (C : forall ds fr d, cumul fr (ds ++ [d]) = cumul fr ds ++ [fr + N.of_nat (length (List.concat ds)) + N.of_nat (length d)]).
      { induction ds as [|d0 ds IHd]; intros fr d; cbn [cumul app List.concat length]; [f_equal; lia|].
        rewrite IHd. rewrite app_length. f_equal. f_equal. f_equal. lia. }
      rewrite C. cbn [app]. f_equal. f_equal. f_equal.
      unfold x, from, data_part, de. rewrite flat_map_concat_map. unfold sentry in *. lia. }
    rewrite EM', EI', Dapp. rewrite <- ?app_assoc. cbn [app]. unfold j1. rewrite <- ?app_assoc. reflexivity. }
  unfold append_steps. fold cap n de from f0. cbv zeta.
  rewrite F1. change (N.of_nat (from + length de)) with x. rewrite F2. rewrite F3. reflexivity.
Qed.

Theorem append_steps_decode n128 (ents : list sentry) (e : sentry) junk :
  1 <= n128 -> (length ents < cap_of n128)%nat -> Forall entry_ok ents -> entry_ok e ->
  hdr_size n128 + N.of_nat (length (data_part (ents ++ [e]))) < 2 ^ 64 ->
  map decode_file (append_steps n128 ents e (layout_gen n128 ents (repeat 0 (cap_of n128 - length ents)) junk))
  = [(n128, ents); (n128, ents); (n128, ents ++ [e])].
Proof.
  intros Hn Hlen Hok He Hsz.
  rewrite (append_steps_files n128 ents e junk Hlen). cbv zeta.
  set (cap := cap_of n128) in *. set (n := length ents) in *.
  set (de := moc_data (e_moc smoc e)).
  set (j1 := de ++ skipn (length de) junk).
  set (x := N.of_nat (N.to_nat (hdr_size n128) + length (data_part ents) + length de)).
  assert (Dapp : data_part (ents ++ [e]) = data_part ents ++ de).
  { unfold data_part. rewrite flat_map_app. cbn [flat_map]. rewrite app_nil_r. reflexivity. }
  assert (Hsz0 : hdr_size n128 + N.of_nat (length (data_part ents)) < 2 ^ 64) by (rewrite Dapp, app_length in Hsz; lia).
  cbn [map].
  (* decode the three *)
  assert (Z0 : Forall (fun y => y < 2 ^ 64) (repeat 0 (cap - n))).
  { apply Forall_forall. intros y Hy. apply repeat_spec in Hy. subst y. reflexivity. }
  assert (Z1 : Forall (fun y => y < 2 ^ 64) (repeat 0 (cap - S n))).
  { apply Forall_forall. intros y Hy. apply repeat_spec in Hy. subst y. reflexivity. }
  assert (Hx : x < 2 ^ 64).
  { unfold x. rewrite Dapp, app_length in Hsz. fold de in Hsz. lia. }
  assert (Hle : (length ents <= cap_of n128)%nat) by (unfold n, cap, sentry in *; lia).
  assert (D1 : decode_file (layout_gen n128 ents (repeat 0 (cap - n)) j1) = (n128, ents)).
  { apply decode_layout_gen; try assumption. apply repeat_length. }
  assert (D2 : decode_file (layout_gen n128 ents (x :: repeat 0 (cap - S n)) j1) = (n128, ents)).
  { apply decode_layout_gen; try assumption.
    - cbn [length]. rewrite repeat_length. unfold n, cap, sentry in *. lia.
    - constructor; [exact Hx|exact Z1]. }
  assert (D3 : decode_file (layout_gen n128 (ents ++ [e]) (repeat 0 (cap - S n)) (skipn (length de) junk)) = (n128, ents ++ [e])).
  { apply decode_layout_gen; try assumption.
    - rewrite app_length. cbn [length]. unfold n, cap, sentry in *. lia.
    - apply Forall_app. split; [exact Hok|constructor; [exact He|constructor]].
    - rewrite repeat_length, app_length. cbn [length]. unfold n, cap, sentry in *. lia. }
  rewrite D1, D2, D3. reflexivity.
Qed.

(** on a file without leftovers the third write gives exactly the layout of the new state *)
Corollary append_final_layout n128 (ents : list sentry) (e : sentry) : (length ents < cap_of n128)%nat ->
  nth 2 (append_steps n128 ents e (file_bytes n128 ents)) [] = file_bytes n128 (ents ++ [e]).
Proof.
  intros Hlen. rewrite file_bytes_gen. rewrite (append_steps_files n128 ents e [] Hlen). cbv zeta. cbn [nth].
  rewrite file_bytes_gen. rewrite app_length. cbn [length].
  replace (cap_of n128 - (length ents + 1))%nat with (cap_of n128 - S (length ents))%nat by lia.
  destruct (length (moc_data (e_moc smoc e))); reflexivity.
Qed.

(** ---------- a status change: one metadata word, nothing else moves ---------- *)
Lemma data_part_set_status st l1 e l2 : data_part (l1 ++ set_status st e :: l2) = data_part (l1 ++ e :: l2).
Proof. unfold data_part. rewrite !flat_map_app. reflexivity. Qed.

Lemma index_words_set_status n128 st l1 e l2 : index_words n128 (l1 ++ set_status st e :: l2) = index_words n128 (l1 ++ e :: l2).
Proof. unfold index_words. rewrite !map_app. reflexivity. Qed.

Theorem chg_store_layout n128 st (l1 : list sentry) e l2 tailw junk :
  chg_store (length l1) st (l1 ++ e :: l2) (layout_gen n128 (l1 ++ e :: l2) tailw junk)
  = layout_gen n128 (l1 ++ set_status st e :: l2) tailw junk.
Proof.
  unfold chg_store, layout_gen.
  rewrite app_nth2 by lia. rewrite Nat.sub_diag. cbn [nth].
  rewrite index_words_set_status, data_part_set_status.
  set (A := le_bytes 8 n128).
  rewrite (write_at_prefix A 8 (8 * length l1)) by apply le_bytes_length. f_equal.
  assert (EM : forall x, meta_part n128 (l1 ++ x :: l2)
                = flat_map (le_bytes 8) (map raw_meta l1 ++ raw_meta x :: (map raw_meta l2 ++ repeat 0 (cap_of n128 - length (l1 ++ x :: l2))))).
  { intros x. unfold meta_part. rewrite (zeros_words (cap_of n128 - length (l1 ++ x :: l2))).
    rewrite !flat_map_app. cbn [flat_map]. rewrite !flat_map_app, <- !app_assoc. f_equal; [|f_equal; f_equal].
    - clear. induction l1 as [|y t IH]; [reflexivity|]. cbn [flat_map map]. rewrite IH. reflexivity.
    - clear. induction l2 as [|y t IH]; [reflexivity|]. cbn [flat_map map]. rewrite IH. reflexivity. }
  rewrite (EM e), (EM (set_status st e)).
  assert (L : length (l1 ++ set_status st e :: l2) = length (l1 ++ e :: l2)) by (rewrite !app_length; reflexivity).
  rewrite L.
  replace (8 * length l1)%nat with (8 * length (map raw_meta l1))%nat by (rewrite map_length; reflexivity).
  apply write_at_word.
Qed.

Corollary chg_store_decode n128 st (l1 : list sentry) e l2 :
  1 <= n128 -> (length (l1 ++ e :: l2) <= cap_of n128)%nat -> Forall entry_ok (l1 ++ e :: l2) ->
  hdr_size n128 + N.of_nat (length (data_part (l1 ++ e :: l2))) < 2 ^ 64 ->
  decode_file (chg_store (length l1) st (l1 ++ e :: l2) (file_bytes n128 (l1 ++ e :: l2)))
  = (n128, l1 ++ set_status st e :: l2).
Proof.
  intros Hn Hlen Hok Hsz. rewrite file_bytes_gen, chg_store_layout.
  assert (L : length (l1 ++ set_status st e :: l2) = length (l1 ++ e :: l2)) by (rewrite !app_length; reflexivity).
  apply decode_layout_gen; try assumption.
  - rewrite L. exact Hlen.
  - apply Forall_app. apply Forall_app in Hok. destruct Hok as [H1 H2]. split; [exact H1|].
    inversion H2 as [|? ? He Ht]; subst. constructor; [|exact Ht].
    destruct He as [A [B C]]. repeat split; assumption.
  - rewrite data_part_set_status. exact Hsz.
  - rewrite repeat_length, L. reflexivity.
  - apply Forall_forall. intros x Hx. apply repeat_spec in Hx. subst x. reflexivity.
Qed.

(** ---------- purge: every file the temporary file goes through decodes to a prefix of the kept entries ---------- *)
Lemma data_part_app a b : data_part (a ++ b) = data_part a ++ data_part b.
Proof. unfold data_part. apply flat_map_app. Qed.

Theorem purge_steps_decode n128 : forall (todo done : list sentry),
  1 <= n128 -> (length (done ++ todo) <= cap_of n128)%nat -> Forall entry_ok (done ++ todo) ->
  hdr_size n128 + N.of_nat (length (data_part (done ++ todo))) < 2 ^ 64 ->
  map decode_file (purge_steps n128 done todo (file_bytes n128 done)) = purge_views n128 done todo /\
  last (file_bytes n128 done :: purge_steps n128 done todo (file_bytes n128 done)) [] = file_bytes n128 (done ++ todo).
Proof.
  induction todo as [|e t IH]; intros done Hn Hlen Hok Hsz.
  - cbn [purge_steps purge_views map last]. rewrite app_nil_r. split; reflexivity.
  - cbn [purge_steps purge_views]. cbv zeta.
    assert (Hl1 : (length done < cap_of n128)%nat) by (rewrite app_length in Hlen; cbn [length] in Hlen; lia).
    apply Forall_app in Hok. destruct Hok as [Hd Ht]. inversion Ht as [|? ? He Ht']; subst.
    assert (Hsz1 : hdr_size n128 + N.of_nat (length (data_part (done ++ [e]))) < 2 ^ 64).
    { rewrite data_part_app in Hsz. rewrite data_part_app. rewrite !app_length in *.
      cbn [data_part flat_map] in *. rewrite app_nil_r. rewrite app_length in Hsz. lia. }
    pose proof (append_steps_decode n128 done e [] Hn Hl1 Hd He Hsz1) as D.
    rewrite <- file_bytes_gen in D.
    rewrite (append_final_layout n128 done e Hl1).
    replace (done ++ e :: t) with ((done ++ [e]) ++ t) in * by (rewrite <- app_assoc; reflexivity).
    destruct (IH (done ++ [e]) Hn Hlen) as [I1 I2].
    { apply Forall_app. split; [apply Forall_app; split; [exact Hd|constructor; [exact He|constructor]]|exact Ht']. }
    { exact Hsz. }
    split.
    + rewrite map_app, D, I1. reflexivity.
    + rewrite <- I2.
      (* the last file of the whole sequence is the last of the tail sequence *)
      set (fs := append_steps n128 done e (file_bytes n128 done)).
      assert (Efs : exists a b, fs = [a; b; file_bytes n128 (done ++ [e])]).
      { unfold fs, append_steps. cbv zeta. eexists. eexists. f_equal. f_equal. f_equal.
        pose proof (append_final_layout n128 done e Hl1) as F. unfold append_steps in F. cbv zeta in F. cbn [nth] in F. exact F. }
      destruct Efs as [a [b Efs]]. rewrite Efs. cbn [app last].
      destruct (purge_steps n128 (done ++ [e]) t (file_bytes n128 (done ++ [e]))); reflexivity.
Qed.
