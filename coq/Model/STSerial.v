(** Model/STSerial.v — (F, row level) the FITS v2 encoding of space-time MOCs:
    a single column of (start, end) rows; rows of a time range carry the most
    significant bit in both values; an element is a run of time rows followed by a
    run of space rows (src/deser/fits/mod.rs write_ranges2d_data /
    RangeMoc2DIterFromFits::next).  Byte level is Serial.encode_rows. *)
From Coq Require Import List NArith Lia Bool.
From MOC.Base Require Import RangeSet.
From MOC.Model Require Import Qty Ops1D Query Build Repr Serial ST.
Import ListNotations.
Open Scope N_scope.

Section Rows.
Variable m : N.   (* the MSB mask value 2^(w-1) *)

Definition flag (r : range) : range := (fst r + m, snd r + m).
Definition unflag (r : range) : range := (fst r - m, snd r - m).
Definition is_t (r : range) : bool := (m <=? fst r) && (m <=? snd r).

Definition encode2 (X : stmoc) : list range :=
  flat_map (fun e => map flag (fst e) ++ snd e) X.

Definition emit (tacc sacc : list range) : stmoc :=
  match tacc, sacc with [], [] => [] | _, _ => [(rev tacc, rev sacc)] end.

Fixpoint dec (rows tacc sacc : list range) : stmoc :=
  match rows with
  | [] => emit tacc sacc
  | r :: rest =>
      if is_t r then
        match sacc with
        | [] => dec rest (unflag r :: tacc) sacc
        | _ => (rev tacc, rev sacc) :: dec rest [unflag r] []
        end
      else dec rest tacc (r :: sacc)
  end.

Definition decode2 (rows : list range) : stmoc := dec rows [] [].

Definition Below (l : list range) : Prop := Forall (fun r => fst r < m /\ snd r < m) l.

Lemma is_t_flag r : is_t (flag r) = true.
Proof. unfold is_t, flag; simpl. apply andb_true_iff. rewrite !N.leb_le. lia. Qed.

Lemma unflag_flag r : unflag (flag r) = r.
Proof. destruct r as [a b]. unfold unflag, flag; simpl. f_equal; lia. Qed.

Lemma is_t_below r : fst r < m /\ snd r < m -> is_t r = false.
Proof. intros [H1 H2]. unfold is_t. apply andb_false_iff. left. apply N.leb_gt. exact H1. Qed.

Lemma dec_t_run T : forall rest tacc,
  dec (map flag T ++ rest) tacc [] = dec rest (rev T ++ tacc) [].
Proof.
  induction T as [|r T IH]; intros rest tacc; simpl; [reflexivity|].
  rewrite is_t_flag, unflag_flag, IH. rewrite <- app_assoc. reflexivity.
Qed.

Lemma dec_s_run S : Below S -> forall rest tacc sacc,
  dec (S ++ rest) tacc sacc = dec rest tacc (rev S ++ sacc).
Proof.
  induction S as [|r S IH]; intros HB rest tacc sacc; simpl; [reflexivity|].
  inversion HB as [|? ? Hr HS]; subst. rewrite (is_t_below r Hr), (IH HS).
  rewrite <- app_assoc. reflexivity.
Qed.

(** elements as the property's validity requires them: non-empty time and space parts,
    every index below the MSB *)
Definition Enc_ok (X : stmoc) : Prop :=
  Forall (fun e => fst e <> [] /\ snd e <> [] /\ Below (fst e) /\ Below (snd e)) X.

Lemma rev_nonempty {A} (l : list A) : l <> [] -> rev l <> [].
Proof. destruct l as [|x l]; [congruence|]. simpl. intros _. destruct (rev l); discriminate. Qed.

Lemma dec_elements X : Enc_ok X -> forall tacc sacc, sacc <> [] ->
  dec (encode2 X) tacc sacc = (rev tacc, rev sacc) :: X.
Proof.
  induction X as [|e X IH]; intros Hok tacc sacc Hs.
  - simpl. destruct tacc, sacc; try reflexivity. congruence.
  - inversion Hok as [|? ? (HT & HS & BT & BS) HX]; subst.
    cbn [encode2 flat_map]. fold (encode2 X).
    destruct e as [Te Se]. cbn [fst snd] in *.
    destruct Te as [|t0 T]; [congruence|].
    cbn [map app dec]. rewrite is_t_flag.
    destruct sacc as [|s0 sacc']; [congruence|].
    f_equal. rewrite unflag_flag.
    rewrite <- app_assoc.
    rewrite (dec_t_run T _ [t0]).
    rewrite (dec_s_run Se BS).
    rewrite app_nil_r.
    rewrite (IH HX _ _ (rev_nonempty Se HS)).
    rewrite rev_app_distr, !rev_involutive. reflexivity.
Qed.

Theorem st_rows_roundtrip X : Enc_ok X -> decode2 (encode2 X) = X.
Proof.
  intros Hok. unfold decode2. destruct X as [|e X]; [reflexivity|].
  inversion Hok as [|? ? (HT & HS & BT & BS) HX]; subst.
  cbn [encode2 flat_map]. fold (encode2 X).
  destruct e as [Te Se]. cbn [fst snd] in *.
  rewrite <- app_assoc. rewrite (dec_t_run Te _ []). rewrite (dec_s_run Se BS).
  rewrite !app_nil_r.
  rewrite (dec_elements X HX _ _ (rev_nonempty Se HS)). rewrite !rev_involutive. reflexivity.
Qed.

Lemma encode2_length X :
  length (encode2 X) = fold_right (fun e acc => (length (fst e) + length (snd e) + acc)%nat) O X.
Proof.
  induction X as [|e X IH]; [reflexivity|]. cbn [encode2 flat_map fold_right].
  fold (encode2 X). rewrite !app_length, map_length, IH. lia.
Qed.

End Rows.

(** the hypothesis "non-empty space part" is necessary: two elements are merged when the
    first one has an empty space MOC *)
Example empty_space_part_breaks_roundtrip :
  decode2 8 (encode2 8 [([(0, 1)], []); ([(2, 3)], [(4, 5)])]) = [([(0, 1); (2, 3)], [(4, 5)])].
Proof. reflexivity. Qed.

(** valid ST-MOCs use indices below the MSB for every supported width *)
Lemma valid_below_msb w : okw w ->
  n_cells_max Time w < 2 ^ (w - 1) /\ n_cells_max Hpx w < 2 ^ (w - 1).
Proof. intros [H|[H|H]]; subst w; vm_compute; split; reflexivity. Qed.

(** text formats (ASCII, JSON), token level: each element lists the normal-form cells of
    its time part and of its space part; reading them back in any order gives the element *)
Definition decode_elem_cells (wt ws : N) (c : list cell * list cell) : elem :=
  (decode_cells Time wt (fst c), decode_cells Hpx ws (snd c)).

Theorem st_text_roundtrip wt ws dt ds (X : stmoc) (C : list (list cell * list cell)) :
  Forall2 (fun e c => Canon (fst e) /\ Canon (snd e) /\
                      NormalCells Time wt dt (fst e) (fst c) /\ NormalCells Hpx ws ds (snd e) (snd c)) X C ->
  map (decode_elem_cells wt ws) C = X.
Proof.
  induction 1 as [|e c X C (H1 & H2 & H3 & H4) HF IH]; [reflexivity|].
  simpl. rewrite IH. f_equal. unfold decode_elem_cells. destruct e as [a b]. simpl in *.
  rewrite (text_roundtrip Time wt dt a (fst c) (fst c) H1 H3 (Permutation.Permutation_refl _)).
  rewrite (text_roundtrip Hpx ws ds b (snd c) (snd c) H2 H4 (Permutation.Permutation_refl _)).
  reflexivity.
Qed.
