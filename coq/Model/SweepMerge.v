(** Model/SweepMerge.v — (F) the generic boolean merge of two range sets
    (src/ranges/mod.rs BorrowedRanges::merge, used by [difference] = merge(a && !b) and available
    with any operator): a sweep over the two FLAT arrays of bounds with indices i, j whose parity
    tells whether the next bound is a start ("rising edge") or an end;
      c     = the smaller of the two next bounds (the only one when a side is exhausted),
      in_l  = (rising_l && c == lv) | (!rising_l && c < lv)      (inside l just after c),
      in_r  likewise; the indices whose bound equals c advance;
      the bound c is pushed when  !(closed ^ op(in_l, in_r))  where closed = (result.len() even);
    the result is the unflattened list of pushed bounds (pairs).
    Theorems, for every operator with op false false = false and canonical operands: the pushed
    bounds are strictly increasing, in even number, and the unflattened result covers x exactly when
    op (l covers x) (r covers x); hence it is THE canonical list of that set: equal to the
    specification operators (inter / union / xor / minus) of Base/RangeSet.v. *)
From Coq Require Import List NArith ZArith Arith Lia Bool.
From MOC.Base Require Import RangeSet.
Import ListNotations.
Open Scope N_scope.

Fixpoint flat (l : list range) : list N :=
  match l with [] => [] | r :: t => fst r :: snd r :: flat t end.
Fixpoint unflat (f : list N) : list range :=
  match f with a :: b :: t => (a, b) :: unflat t | _ => [] end.

Section Sweep.
Variable op : bool -> bool -> bool.

(** [rl] / [rr]: the next bound of l / r is a start (index parity even);
    [closed]: the result built so far has an even number of bounds *)
Fixpoint sweep (fuel : nat) (rl rr closed : bool) (fl fr : list N) : list N :=
  match fuel with
  | O => []
  | S f =>
    match fl, fr with
    | [], [] => []
    | [], rv :: tr =>
        let in_l := false in let in_r := rr in
        let rest := sweep f rl (negb rr) in
        if negb (xorb closed (op in_l in_r)) then rv :: rest (negb closed) [] tr else rest closed [] tr
    | lv :: tl, [] =>
        let in_l := rl in let in_r := false in
        let rest := sweep f (negb rl) rr in
        if negb (xorb closed (op in_l in_r)) then lv :: rest (negb closed) tl [] else rest closed tl []
    | lv :: tl, rv :: tr =>
        let c := N.min lv rv in
        let in_l := (rl && (c =? lv)) || (negb rl && (c <? lv)) in
        let in_r := (rr && (c =? rv)) || (negb rr && (c <? rv)) in
        let adv_l := c =? lv in let adv_r := c =? rv in
        let fl' := if adv_l then tl else fl in let fr' := if adv_r then tr else fr in
        let rl' := if adv_l then negb rl else rl in let rr' := if adv_r then negb rr else rr in
        if negb (xorb closed (op in_l in_r)) then c :: sweep f rl' rr' (negb closed) fl' fr'
        else sweep f rl' rr' closed fl' fr'
    end
  end.

Definition merge (l r : list range) : list range :=
  unflat (sweep (length (flat l) + length (flat r)) true true true (flat l) (flat r)).

(** ---------- semantics of a strictly increasing list of bounds ---------- *)
(** membership given the state [s] before the first bound: each bound toggles it *)
Fixpoint st (s : bool) (f : list N) (x : N) : bool :=
  match f with [] => s | b :: t => if x <? b then s else st (negb s) t x end.

(** strictly increasing, all above [lo] (an integer, so that -1 is a lower bound of everything) *)
Fixpoint incr (lo : Z) (f : list N) : Prop :=
  match f with [] => True | b :: t => (lo < Z.of_N b)%Z /\ incr (Z.of_N b) t end.

Lemma incr_weaken f : forall lo lo', (lo' <= lo)%Z -> incr lo f -> incr lo' f.
Proof. destruct f as [|b t]; intros lo lo' H Hi; [exact I|]. cbn [incr] in *. destruct Hi. split; [lia|assumption]. Qed.

Lemma st_below s f : forall lo x, incr lo f -> (Z.of_N x <= lo)%Z -> st s f x = s.
Proof. destruct f as [|b t]; intros lo x Hi Hx; [reflexivity|]. cbn [incr st] in *. destruct Hi as [H1 _]. destruct (N.ltb_spec x b); [reflexivity|lia]. Qed.

Hypothesis op_ff : op false false = false.

Lemma st_cons_lt s b t x : x < b -> st s (b :: t) x = s.
Proof. intros H. cbn [st]. destruct (N.ltb_spec x b); [reflexivity|lia]. Qed.
Lemma st_cons_ge s b t x : b <= x -> st s (b :: t) x = st (negb s) t x.
Proof. intros H. cbn [st]. destruct (N.ltb_spec x b); [lia|reflexivity]. Qed.

(** emitting (or not) the bound [c] in front of a result [out'] whose bounds are all above [c] *)
Lemma out_sem lo c (push closed : bool) out' (G : N -> bool) :
  (lo < Z.of_N c)%Z -> incr (Z.of_N c) out' ->
  (forall x, x < c -> G x = negb closed) ->
  (forall x, c <= x -> G x = st (negb (if push then negb closed else closed)) out' x) ->
  incr lo (if push then c :: out' else out') /\
  forall x, st (negb closed) (if push then c :: out' else out') x = G x.
Proof.
  intros Hlo Io Hb Ha. destruct push.
  - split; [cbn [incr]; split; assumption|]. intros x. destruct (N.ltb_spec x c) as [X|X].
    + rewrite st_cons_lt by exact X. symmetry. apply Hb. exact X.
    + rewrite st_cons_ge by exact X. symmetry. apply Ha. exact X.
  - split; [apply (incr_weaken _ (Z.of_N c)); [lia|exact Io]|]. intros x. destruct (N.ltb_spec x c) as [X|X].
    + rewrite (st_below _ _ (Z.of_N c) x Io ltac:(lia)). symmetry. apply Hb. exact X.
    + symmetry. apply Ha. exact X.
Qed.

Lemma even_tail (b : N) (t : list N) : Nat.even (length t) = negb (Nat.even (length (b :: t))).
Proof. cbn [length]. rewrite Nat.even_succ, <- Nat.negb_even, negb_involutive. reflexivity. Qed.

(** the invariant of the sweep: the current result state is the operator of the two current operand
    states ([negb r*] = inside the operand just before its next bound); the "rising" flag of an
    operand is the parity of the number of its remaining bounds (their total number is even) *)
Lemma sweep_sem : forall fuel rl rr closed fl fr lo,
  (length fl + length fr <= fuel)%nat -> incr lo fl -> incr lo fr ->
  rl = Nat.even (length fl) -> rr = Nat.even (length fr) ->
  negb closed = op (negb rl) (negb rr) ->
  let out := sweep fuel rl rr closed fl fr in
  incr lo out /\ forall x, st (negb closed) out x = op (st (negb rl) fl x) (st (negb rr) fr x).
Proof.
  induction fuel as [|fuel IH]; intros rl rr closed fl fr lo Hf Il Ir Pl Pr Hinv.
  - destruct fl; destruct fr; cbn [length] in Hf; try lia. cbn [sweep st]. split; [exact I|intros; exact Hinv].
  - destruct fl as [|lv tl]; destruct fr as [|rv tr]; cbn [sweep].
    + cbn [st]. split; [exact I|intros; exact Hinv].
    + (* l exhausted (hence outside: rl = true), r has a next bound *)
      cbn [incr] in Ir. destruct Ir as [R1 R2]. cbn [length] in Hf. cbv zeta.
      cbn [length Nat.even] in Pl. subst rl. cbn [negb] in *.
      set (push := negb (xorb closed (op false rr))).
      assert (Hn : negb (if push then negb closed else closed) = op (negb true) (negb (negb rr))).
      { rewrite negb_involutive. cbn [negb]. unfold push. destruct closed, (op false rr); reflexivity. }
      destruct (IH true (negb rr) (if push then negb closed else closed) [] tr (Z.of_N rv) ltac:(cbn [length]; lia) I R2 eq_refl
                  ltac:(rewrite Pr; symmetry; apply even_tail) Hn) as (I1 & I2).
      assert (G := out_sem lo rv push closed _ (fun x => op (st false [] x) (st (negb rr) (rv :: tr) x)) R1 I1).
      assert (E : (if push then rv :: sweep fuel true (negb rr) (negb closed) [] tr else sweep fuel true (negb rr) closed [] tr)
                = (if push then rv :: sweep fuel true (negb rr) (if push then negb closed else closed) [] tr
                   else sweep fuel true (negb rr) (if push then negb closed else closed) [] tr)) by (destruct push; reflexivity).
      fold push. rewrite E. apply G.
      * intros x Hx. rewrite st_cons_lt by exact Hx. cbn [st]. symmetry. exact Hinv.
      * intros x Hx. rewrite I2. rewrite st_cons_ge by exact Hx. cbn [negb st]. rewrite ?negb_involutive. reflexivity.
    + (* r exhausted, l has a next bound *)
      cbn [incr] in Il. destruct Il as [L1 L2]. cbn [length] in Hf. cbv zeta.
      cbn [length Nat.even] in Pr. subst rr. cbn [negb] in *.
      set (push := negb (xorb closed (op rl false))).
      assert (Hn : negb (if push then negb closed else closed) = op (negb (negb rl)) (negb true)).
      { rewrite negb_involutive. cbn [negb]. unfold push. destruct closed, (op rl false); reflexivity. }
      destruct (IH (negb rl) true (if push then negb closed else closed) tl [] (Z.of_N lv) ltac:(cbn [length]; lia) L2 I
                  ltac:(rewrite Pl; symmetry; apply even_tail) eq_refl Hn) as (I1 & I2).
      assert (G := out_sem lo lv push closed _ (fun x => op (st (negb rl) (lv :: tl) x) (st false [] x)) L1 I1).
      assert (E : (if push then lv :: sweep fuel (negb rl) true (negb closed) tl [] else sweep fuel (negb rl) true closed tl [])
                = (if push then lv :: sweep fuel (negb rl) true (if push then negb closed else closed) tl []
                   else sweep fuel (negb rl) true (if push then negb closed else closed) tl [])) by (destruct push; reflexivity).
      fold push. rewrite E. apply G.
      * intros x Hx. rewrite st_cons_lt by exact Hx. cbn [st]. symmetry. exact Hinv.
      * intros x Hx. rewrite I2. rewrite st_cons_ge by exact Hx. cbn [negb st]. rewrite ?negb_involutive. reflexivity.
    + (* both sides have a next bound *)
      cbn [incr] in Il, Ir. destruct Il as [L1 L2]. destruct Ir as [R1 R2]. cbn [length] in Hf. cbv zeta.
      assert (Pl' : negb rl = Nat.even (length tl)) by (rewrite Pl; symmetry; apply even_tail).
      assert (Pr' : negb rr = Nat.even (length tr)) by (rewrite Pr; symmetry; apply even_tail).
      destruct (N.lt_trichotomy lv rv) as [C|[C|C]].
      * (* lv < rv : only l advances *)
        rewrite N.min_l by lia. rewrite N.eqb_refl, N.ltb_irrefl.
        destruct (N.eqb_spec lv rv) as [?|_]; [lia|]. destruct (N.ltb_spec lv rv) as [_|?]; [|lia].
        replace (rl && true || negb rl && false) with rl by (destruct rl; reflexivity).
        replace (rr && false || negb rr && true) with (negb rr) by (destruct rr; reflexivity).
        set (push := negb (xorb closed (op rl (negb rr)))).
        assert (Hn : negb (if push then negb closed else closed) = op (negb (negb rl)) (negb rr)).
        { rewrite negb_involutive. unfold push. destruct closed, (op rl (negb rr)); reflexivity. }
        assert (Ir' : incr (Z.of_N lv) (rv :: tr)) by (cbn [incr]; split; [lia|assumption]).
        destruct (IH (negb rl) rr (if push then negb closed else closed) tl (rv :: tr) (Z.of_N lv) ltac:(cbn [length]; lia) L2 Ir' Pl' Pr Hn) as (I1 & I2).
        assert (G := out_sem lo lv push closed _ (fun x => op (st (negb rl) (lv :: tl) x) (st (negb rr) (rv :: tr) x)) L1 I1).
        assert (E : (if push then lv :: sweep fuel (negb rl) rr (negb closed) tl (rv :: tr) else sweep fuel (negb rl) rr closed tl (rv :: tr))
                  = (if push then lv :: sweep fuel (negb rl) rr (if push then negb closed else closed) tl (rv :: tr)
                     else sweep fuel (negb rl) rr (if push then negb closed else closed) tl (rv :: tr))) by (destruct push; reflexivity).
        fold push. rewrite E. apply G.
        -- intros x Hx. rewrite !st_cons_lt by lia. symmetry. exact Hinv.
        -- intros x Hx. rewrite I2. rewrite (st_cons_ge _ lv) by exact Hx. reflexivity.
      * (* lv = rv : both advance *)
        subst rv. rewrite N.min_id. rewrite N.eqb_refl, N.ltb_irrefl.
        replace (rl && true || negb rl && false) with rl by (destruct rl; reflexivity).
        replace (rr && true || negb rr && false) with rr by (destruct rr; reflexivity).
        set (push := negb (xorb closed (op rl rr))).
        assert (Hn : negb (if push then negb closed else closed) = op (negb (negb rl)) (negb (negb rr))).
        { rewrite !negb_involutive. unfold push. destruct closed, (op rl rr); reflexivity. }
        destruct (IH (negb rl) (negb rr) (if push then negb closed else closed) tl tr (Z.of_N lv) ltac:(lia) L2 R2 Pl' Pr' Hn) as (I1 & I2).
        assert (G := out_sem lo lv push closed _ (fun x => op (st (negb rl) (lv :: tl) x) (st (negb rr) (lv :: tr) x)) L1 I1).
        assert (E : (if push then lv :: sweep fuel (negb rl) (negb rr) (negb closed) tl tr else sweep fuel (negb rl) (negb rr) closed tl tr)
                  = (if push then lv :: sweep fuel (negb rl) (negb rr) (if push then negb closed else closed) tl tr
                     else sweep fuel (negb rl) (negb rr) (if push then negb closed else closed) tl tr)) by (destruct push; reflexivity).
        fold push. rewrite E. apply G.
        -- intros x Hx. rewrite !st_cons_lt by lia. symmetry. exact Hinv.
        -- intros x Hx. rewrite I2. rewrite !st_cons_ge by exact Hx. reflexivity.
      * (* rv < lv : only r advances *)
        rewrite N.min_r by lia. rewrite N.eqb_refl, N.ltb_irrefl.
        destruct (N.eqb_spec rv lv) as [?|_]; [lia|]. destruct (N.ltb_spec rv lv) as [_|?]; [|lia].
        replace (rl && false || negb rl && true) with (negb rl) by (destruct rl; reflexivity).
        replace (rr && true || negb rr && false) with rr by (destruct rr; reflexivity).
        set (push := negb (xorb closed (op (negb rl) rr))).
        assert (Hn : negb (if push then negb closed else closed) = op (negb rl) (negb (negb rr))).
        { rewrite negb_involutive. unfold push. destruct closed, (op (negb rl) rr); reflexivity. }
        assert (Il' : incr (Z.of_N rv) (lv :: tl)) by (cbn [incr]; split; [lia|assumption]).
        destruct (IH rl (negb rr) (if push then negb closed else closed) (lv :: tl) tr (Z.of_N rv) ltac:(cbn [length]; lia) Il' R2 Pl Pr' Hn) as (I1 & I2).
        assert (G := out_sem lo rv push closed _ (fun x => op (st (negb rl) (lv :: tl) x) (st (negb rr) (rv :: tr) x)) R1 I1).
        assert (E : (if push then rv :: sweep fuel rl (negb rr) (negb closed) (lv :: tl) tr else sweep fuel rl (negb rr) closed (lv :: tl) tr)
                  = (if push then rv :: sweep fuel rl (negb rr) (if push then negb closed else closed) (lv :: tl) tr
                     else sweep fuel rl (negb rr) (if push then negb closed else closed) (lv :: tl) tr)) by (destruct push; reflexivity).
        fold push. rewrite E. apply G.
        -- intros x Hx. rewrite !st_cons_lt by lia. symmetry. exact Hinv.
        -- intros x Hx. rewrite I2. rewrite (st_cons_ge _ rv) by exact Hx. reflexivity.
Qed.
End Sweep.

(** ---------- from flat bounds back to range lists ---------- *)
Lemma flat_incr_chain : forall t lo, chain lo t -> incr (Z.of_N lo) (flat t).
Proof.
  induction t as [|r t IH]; intros lo Hc; [exact I|]. cbn [chain] in Hc. destruct Hc as (H1 & H2 & H3).
  cbn [flat incr]. split; [lia|]. split; [lia|]. apply IH. exact H3.
Qed.
Lemma flat_incr l : Canon l -> incr (-1) (flat l).
Proof.
  destruct l as [|r t]; [intros _; exact I|]. cbn [Canon sorted_from]. intros (H1 & H2 & H3).
  cbn [flat incr]. split; [lia|]. split; [lia|]. apply flat_incr_chain. exact H3.
Qed.
Lemma flat_even l : Nat.even (length (flat l)) = true.
Proof. induction l as [|r t IH]; [reflexivity|]. cbn [flat length]. exact IH. Qed.

Lemma covb_below_chain : forall t lo x, chain lo t -> x <= lo -> covb t x = false.
Proof.
  intros t lo x Hc Hx. destruct (covb t x) eqn:E; [|reflexivity]. apply covb_spec in E.
  pose proof (chain_cov_gt t lo x Hc E). lia.
Qed.

Lemma st_flat_chain : forall t lo x, chain lo t -> st false (flat t) x = covb t x.
Proof.
  induction t as [|r t IH]; intros lo x Hc; [reflexivity|]. cbn [chain] in Hc. destruct Hc as (H1 & H2 & H3).
  cbn [flat st covb]. unfold inrb. destruct (N.ltb_spec x (fst r)) as [A|A].
  - destruct (N.leb_spec (fst r) x); [lia|]. cbn [andb orb]. symmetry. apply (covb_below_chain t (snd r)); [exact H3|lia].
  - destruct (N.leb_spec (fst r) x); [|lia]. cbn [negb andb]. destruct (N.ltb_spec x (snd r)) as [B|B]; [reflexivity|].
    cbn [orb negb]. apply (IH (snd r)). exact H3.
Qed.
Lemma st_flat l x : Canon l -> st false (flat l) x = covb l x.
Proof.
  destruct l as [|r t]; [reflexivity|]. cbn [Canon sorted_from]. intros (H1 & H2 & H3).
  cbn [flat st covb]. unfold inrb. destruct (N.ltb_spec x (fst r)) as [A|A].
  - destruct (N.leb_spec (fst r) x); [lia|]. cbn [andb orb]. symmetry. apply (covb_below_chain t (snd r)); [exact H3|lia].
  - destruct (N.leb_spec (fst r) x); [|lia]. cbn [negb andb]. destruct (N.ltb_spec x (snd r)) as [B|B]; [reflexivity|].
    cbn [orb negb]. apply (st_flat_chain t (snd r)). exact H3.
Qed.

(** beyond every bound the state has been toggled once per bound *)
Lemma st_beyond : forall f s x, (forall b, In b f -> b <= x) -> st s f x = xorb s (Nat.odd (length f)).
Proof.
  induction f as [|b t IH]; intros s x H; [cbn; destruct s; reflexivity|].
  cbn [st length]. destruct (N.ltb_spec x b) as [L|L]; [specialize (H b (or_introl eq_refl)); lia|].
  rewrite IH by (intros b' Hb'; apply H; right; exact Hb'). rewrite Nat.odd_succ, <- Nat.negb_odd. destruct s, (Nat.odd (length t)); reflexivity.
Qed.

Lemma unflat_chain : forall n f lo, (length f <= n)%nat -> incr (Z.of_N lo) f -> Nat.even (length f) = true ->
  chain lo (unflat f) /\ forall x, covb (unflat f) x = st false f x.
Proof.
  induction n as [|n IH]; intros f lo Hn Hi He.
  - destruct f; [split; [exact I|reflexivity]|cbn in Hn; lia].
  - destruct f as [|a [|b t]]; [split; [exact I|reflexivity]|cbn in He; discriminate|].
    cbn [incr] in Hi. destruct Hi as (H1 & H2 & H3). cbn [length] in He, Hn.
    destruct (IH t b ltac:(lia) H3 He) as [C1 C2].
    cbn [unflat chain fst snd]. split; [split; [lia|split; [lia|exact C1]]|].
    intros x. cbn [covb st]. unfold inrb. cbn [fst snd]. destruct (N.ltb_spec x a) as [A|A].
    + destruct (N.leb_spec a x); [lia|]. cbn [andb orb]. apply (covb_below_chain _ b); [exact C1|lia].
    + destruct (N.leb_spec a x); [|lia]. cbn [negb andb]. destruct (N.ltb_spec x b); [reflexivity|]. cbn [orb negb]. apply C2.
Qed.

Lemma unflat_canon f : incr (-1) f -> Nat.even (length f) = true ->
  Canon (unflat f) /\ forall x, covb (unflat f) x = st false f x.
Proof.
  intros Hi He. destruct f as [|a [|b t]]; [split; [exact I|reflexivity]|cbn in He; discriminate|].
  cbn [incr] in Hi. destruct Hi as (H1 & H2 & H3). cbn [length] in He.
  destruct (unflat_chain (length t) t b (le_n _) H3 He) as [C1 C2].
  cbn [unflat Canon sorted_from fst snd]. split; [split; [lia|split; [lia|exact C1]]|].
  intros x. cbn [covb st]. unfold inrb. cbn [fst snd]. destruct (N.ltb_spec x a) as [A|A].
  - destruct (N.leb_spec a x); [lia|]. cbn [andb orb]. apply (covb_below_chain _ b); [exact C1|lia].
  - destruct (N.leb_spec a x); [|lia]. cbn [negb andb]. destruct (N.ltb_spec x b); [reflexivity|]. cbn [orb negb]. apply C2.
Qed.

Definition maxl (f : list N) : N := fold_right N.max 0 f.
Lemma maxl_ge f b : In b f -> b <= maxl f.
Proof. induction f as [|a t IH]; intros Hin; [destruct Hin|]. cbn [maxl fold_right]. fold (maxl t). destruct Hin as [<-|Hin]; [lia|specialize (IH Hin); lia]. Qed.

(** the merge of two canonical lists is the canonical list of  op (l covers x) (r covers x) *)
Theorem merge_spec op l r : op false false = false -> Canon l -> Canon r ->
  Canon (merge op l r) /\ forall x, covb (merge op l r) x = op (covb l x) (covb r x).
Proof.
  intros Hop Hl Hr. unfold merge.
  destruct (sweep_sem op (length (flat l) + length (flat r)) true true true (flat l) (flat r) (-1)%Z (le_n _)
              (flat_incr l Hl) (flat_incr r Hr) (eq_sym (flat_even l)) (eq_sym (flat_even r)) (eq_sym Hop)) as [I1 I2].
  cbn [negb] in I2.
  set (out := sweep op (length (flat l) + length (flat r)) true true true (flat l) (flat r)) in *.
  (* even number of bounds: look beyond every bound *)
  assert (He : Nat.even (length out) = true).
  { set (x := maxl (out ++ flat l ++ flat r)).
    assert (B : forall f, (forall b, In b f -> In b (out ++ flat l ++ flat r)) -> forall b, In b f -> b <= x).
    { intros f Hf b Hb. apply maxl_ge. apply Hf. exact Hb. }
    pose proof (I2 x) as E.
    rewrite (st_beyond out false x (B out ltac:(intros b Hb; apply in_or_app; left; exact Hb))) in E.
    rewrite (st_beyond (flat l) false x (B (flat l) ltac:(intros b Hb; apply in_or_app; right; apply in_or_app; left; exact Hb))) in E.
    rewrite (st_beyond (flat r) false x (B (flat r) ltac:(intros b Hb; apply in_or_app; right; apply in_or_app; right; exact Hb))) in E.
    rewrite <- !Nat.negb_even, !flat_even in E. cbn [negb xorb] in E. rewrite Hop in E.
    destruct (Nat.even (length out)); [reflexivity|discriminate]. }
  destruct (unflat_canon out I1 He) as [C1 C2]. split; [exact C1|].
  intros x. rewrite C2, I2, (st_flat l x Hl), (st_flat r x Hr). reflexivity.
Qed.

(** corollaries: the four operators of the library through the sweep equal the specification *)
Lemma merge_eq_spec op (spec : list range) l r : op false false = false -> Canon l -> Canon r -> Canon spec ->
  (forall x, cov spec x <-> (op (covb l x) (covb r x) = true)) -> merge op l r = spec.
Proof.
  intros Hop Hl Hr Hs Hcov. destruct (merge_spec op l r Hop Hl Hr) as [C1 C2].
  apply canon_unique; [exact C1|exact Hs|]. intros x. rewrite Hcov, <- C2. symmetry. apply covb_spec.
Qed.

Theorem merge_minus ub l r : Valid ub l -> Valid ub r -> merge (fun a b => a && negb b) l r = minus ub l r.
Proof.
  intros Vl Vr. apply merge_eq_spec; [reflexivity|apply Vl|apply Vr|apply (valid_minus ub l r Vl Vr)|].
  intros x. rewrite (minus_cov ub l r x Vl Vr), andb_true_iff, negb_true_iff, <- !covb_spec.
  destruct (covb r x); split; intros [A B]; (split; [exact A|]); try reflexivity; try discriminate; try congruence.
Qed.
Theorem merge_inter ub l r : Valid ub l -> Valid ub r -> merge andb l r = inter ub l r.
Proof.
  intros Vl Vr. apply merge_eq_spec; [reflexivity|apply Vl|apply Vr|apply (valid_inter ub l r Vl Vr)|].
  intros x. rewrite (inter_cov ub l r x Vl Vr), andb_true_iff, <- !covb_spec. reflexivity.
Qed.
Theorem merge_union ub l r : Valid ub l -> Valid ub r -> merge orb l r = union l r.
Proof.
  intros Vl Vr. apply merge_eq_spec; [reflexivity|apply Vl|apply Vr|apply (valid_union ub l r Vl Vr)|].
  intros x. rewrite (valid_union_cov ub l r x Vl Vr), orb_true_iff, <- !covb_spec. reflexivity.
Qed.
Theorem merge_xor ub l r : Valid ub l -> Valid ub r -> merge xorb l r = xor ub l r.
Proof.
  intros Vl Vr. apply merge_eq_spec; [reflexivity|apply Vl|apply Vr|apply (valid_xor ub l r Vl Vr)|].
  intros x. rewrite (xor_cov ub l r x Vl Vr), <- !covb_spec.
  destruct (covb l x), (covb r x); cbn; split; intros H; try reflexivity; try discriminate.
  - destruct H as [[A B]|[A B]]; exfalso; apply B; reflexivity.
  - left. split; [reflexivity|discriminate].
  - right. split; [reflexivity|discriminate].
  - destruct H as [[A B]|[A B]]; discriminate.
Qed.

Example merge_examples :
  merge (fun a b => a && negb b) [(0, 10); (20, 30)] [(5, 8); (10, 20); (25, 40)] = [(0, 5); (8, 10); (20, 25)] /\
  merge orb [(0, 5); (9, 12)] [(5, 9); (20, 21)] = [(0, 12); (20, 21)] /\
  merge xorb [(0, 5)] [(0, 5)] = [].
Proof. repeat split; vm_compute; reflexivity. Qed.
