(** Model/BuilderSM2.v — (F) the buffering state machine of
    src/moc/builder/maxdepth_range.rs RangeMocBuilder: [push] (degrade the range to the MOC
    depth, merge it in place with the last buffered range when they overlap or touch, track the
    sorted flag, drain at capacity), [drain_buffer] (sort by start unless known sorted,
    [merge_sorted] = src/moc/range/op/merge.rs MergeIterator, union with the MOC of earlier
    flushes), [into_moc].  The sort is ANY function returning a list with the same elements
    sorted by start (Section variable: sort_unstable_by is only assumed to do that).
    Theorem: for every sequence of non-empty ranges and every capacity the result is the
    specification [build_ranges] (= degrade of the union). *)
From Coq Require Import List NArith Arith Lia Bool.
From MOC.Base Require Import RangeSet.
From MOC.Model Require Import Qty Build LazyOps.
Import ListNotations.
Open Scope N_scope.

(** MergeIterator on a list sorted by start *)
Fixpoint merge_s (cur : range) (l : list range) : list range :=
  match l with
  | [] => [cur]
  | r :: t => if fst r <=? snd cur then merge_s (fst cur, N.max (snd cur) (snd r)) t
              else cur :: merge_s r t
  end.
Definition merge_sorted (l : list range) : list range :=
  match l with [] => [] | r :: t => merge_s r t end.

Fixpoint by_start (lo : N) (l : list range) : Prop :=       (* starts non-decreasing, all >= lo *)
  match l with [] => True | r :: t => lo <= fst r /\ by_start (fst r) t end.

Lemma by_start_weaken l : forall lo lo', lo' <= lo -> by_start lo l -> by_start lo' l.
Proof. destruct l; cbn; intros; [exact I|]. intuition lia. Qed.

Lemma merge_s_spec : forall l cur, fst cur < snd cur -> by_start (fst cur) l -> NonEmptyR l ->
  sorted_from (fst cur) (merge_s cur l) /\
  forall x, cov (merge_s cur l) x <-> inr cur x \/ cov l x.
Proof.
  induction l as [|r t IH]; intros cur Hc Hs Hne; cbn [merge_s].
  - split; [cbn; repeat split; [lia|exact Hc]|]. intros x. rewrite cov_cons. split; [intros [H|H]; [left; exact H|destruct (cov_nil _ H)]|intros [H|H]; [left; exact H|destruct (cov_nil _ H)]].
  - cbn [by_start] in Hs. destruct Hs as [H1 H2]. inversion Hne as [|? ? Hr Hne']; subst.
    destruct (N.leb_spec (fst r) (snd cur)) as [C|C].
    + destruct (IH (fst cur, N.max (snd cur) (snd r))) as [S Cv]; [cbn; lia|cbn [fst]; apply (by_start_weaken t (fst r)); [lia|exact H2]|exact Hne'|].
      split; [exact S|]. intros x. rewrite Cv, cov_cons. unfold inr. cbn [fst snd]. split.
      * intros [H|H]; [|tauto]. destruct (N.lt_ge_cases x (snd cur)) as [L|L]; [left; lia|right; left; lia].
      * intros [H|[H|H]]; [left; lia|left; lia|right; exact H].
    + destruct (IH r Hr H2 Hne') as [S Cv]. split.
      * cbn [sorted_from]. split; [lia|]. split; [exact Hc|]. apply chain_sorted_succ. apply (sorted_from_weaken _ (fst r)); [lia|exact S].
      * intros x. rewrite !cov_cons, Cv. tauto.
Qed.

Lemma merge_sorted_spec l : by_start 0 l -> NonEmptyR l ->
  Canon (merge_sorted l) /\ forall x, cov (merge_sorted l) x <-> cov l x.
Proof.
  destruct l as [|r t]; intros Hs Hne; cbn [merge_sorted].
  - split; [exact I|]. tauto.
  - cbn [by_start] in Hs. destruct Hs as [_ H2]. inversion Hne as [|? ? Hr Hne']; subst.
    destruct (merge_s_spec t r Hr H2 Hne') as [S Cv]. split; [apply (sorted_from_weaken _ (fst r)); [lia|exact S]|].
    intros x. rewrite Cv, cov_cons. tauto.
Qed.

Section Builder.
Variable sortf : list range -> list range.
Hypothesis sortf_in : forall l r, In r (sortf l) <-> In r l.
Hypothesis sortf_sorted : forall l, by_start 0 (sortf l).

Variable sh : N.                                   (* shift of the MOC depth *)

Definition degr (r : range) : range := (down sh (fst r), up sh (snd r)).

Record rst := { rbuff : list range;            (* newest first *)
                rsorted : bool;
                rmoc : option (list range) }.

Definition rnew : rst := {| rbuff := []; rsorted := true; rmoc := None |}.

Definition rdrain (s : rst) : rst :=
  let b := rev (rbuff s) in
  let b := if rsorted s then b else sortf b in
  let new_moc := merge_sorted b in
  {| rbuff := []; rsorted := true;
     rmoc := Some (match rmoc s with Some prev => union prev new_moc | None => new_moc end) |}.

Definition rpush (cap : nat) (s : rst) (r0 : range) : rst :=
  let r := degr r0 in
  let s' :=
    match rbuff s with
    | (ls, le) :: t =>
        if (snd r <? ls) || (le <? fst r)
        then {| rbuff := r :: rbuff s; rsorted := rsorted s && (le <? fst r); rmoc := rmoc s |}
        else {| rbuff := (N.min ls (fst r), N.max le (snd r)) :: t;
                rsorted := if fst r <? ls then false else rsorted s; rmoc := rmoc s |}
    | [] => {| rbuff := [r]; rsorted := rsorted s; rmoc := rmoc s |}
    end in
  if Nat.eqb (length (rbuff s')) cap then rdrain s' else s'.

Definition rinto_moc (s : rst) : list range :=
  match rmoc (rdrain s) with Some m => m | None => [] end.

Definition rbuild (cap : nat) (l : list range) : list range :=
  rinto_moc (fold_left (rpush cap) l rnew).

(** ---------- invariant ---------- *)
(** the accumulated MOC and the buffer together cover exactly the degraded ranges pushed so far;
    when the flag says sorted, the buffer (in push order) is sorted by start *)
Record RInv (pushed : list range) (s : rst) : Prop :=
  { ri_moc : match rmoc s with Some m => Canon m | None => True end;
    ri_ne : NonEmptyR (rbuff s);
    ri_cov : forall x, cov (map degr pushed) x <->
                       (match rmoc s with Some m => cov m x | None => False end) \/ cov (rbuff s) x;
    ri_sorted : rsorted s = true -> by_start 0 (rev (rbuff s)) }.

Lemma cov_in_equiv l l' : (forall r, In r l' <-> In r l) -> forall x, cov l' x <-> cov l x.
Proof. intros H x. unfold cov. split; intros [r [Hin Hr]]; exists r; (split; [apply H; exact Hin|exact Hr]). Qed.

Lemma nonempty_in_equiv l l' : (forall r, In r l' <-> In r l) -> NonEmptyR l -> NonEmptyR l'.
Proof. unfold NonEmptyR. rewrite !Forall_forall. intros H Hl r Hr. apply Hl. apply H. exact Hr. Qed.

Lemma rdrain_inv pushed s : RInv pushed s -> RInv pushed (rdrain s).
Proof.
  intros [Hm Hne Hc Hs]. unfold rdrain.
  set (b := if rsorted s then rev (rbuff s) else sortf (rev (rbuff s))).
  assert (Hin : forall r, In r b <-> In r (rbuff s)).
  { intros r. unfold b. destruct (rsorted s); [rewrite <- in_rev; reflexivity|rewrite sortf_in, <- in_rev; reflexivity]. }
  assert (Hbs : by_start 0 b).
  { unfold b. destruct (rsorted s) eqn:E; [apply Hs; reflexivity|apply sortf_sorted]. }
  assert (Hbne : NonEmptyR b) by (apply (nonempty_in_equiv (rbuff s) b Hin Hne)).
  destruct (merge_sorted_spec b Hbs Hbne) as [Cn Cv]. pose proof (canon_nonempty _ Cn) as Ne.
  constructor; cbn [rmoc rbuff rsorted].
  - destruct (rmoc s) as [m|]; [apply union_canon; assumption|exact Cn].
  - constructor.
  - intros x. rewrite Hc. destruct (rmoc s) as [m|].
    + rewrite (union_cov _ m _ Ne), Cv, (cov_in_equiv (rbuff s) b Hin). split; [intros [H|H]; left; tauto|intros [H|H]; [tauto|destruct (cov_nil _ H)]].
    + rewrite Cv, (cov_in_equiv (rbuff s) b Hin). split; [intros [[]|H]; left; exact H|intros [H|H]; [right; exact H|destruct (cov_nil _ H)]].
  - intros _. exact I.
Qed.

Lemma degr_nonempty r : fst r < snd r -> fst (degr r) < snd (degr r).
Proof.
  intros H. unfold degr. cbn [fst snd]. destruct (down_spec sh (fst r)) as (D1 & _ & _). destruct (up_spec sh (snd r)) as (U1 & _ & _). lia.
Qed.

Lemma by_start_app_last l : forall lo r, by_start lo l -> (forall y, In y l -> fst y <= fst r) -> lo <= fst r -> by_start lo (l ++ [r]).
Proof.
  induction l as [|a t IH]; intros lo r Hs Hle Hlo; cbn [app by_start]; [tauto|].
  cbn [by_start] in Hs. destruct Hs as [H1 H2]. split; [exact H1|]. apply IH; [exact H2|intros y Hy; apply Hle; right; exact Hy|apply Hle; left; reflexivity].
Qed.
Lemma by_start_all_ge l : forall lo, by_start lo l -> forall y, In y l -> lo <= fst y.
Proof.
  induction l as [|a t IH]; intros lo H y Hy; [destruct Hy|]. cbn [by_start] in H. destruct H as [H1 H2].
  destruct Hy as [<-|Hy]; [exact H1|]. specialize (IH _ H2 y Hy). lia.
Qed.
Lemma by_start_last_max l : forall lo h, by_start lo (l ++ [h]) -> forall y, In y l -> fst y <= fst h.
Proof.
  induction l as [|a t IH]; intros lo h H y Hy; [destruct Hy|]. cbn [app by_start] in H. destruct H as [H1 H2].
  destruct Hy as [<-|Hy]; [|apply (IH (fst a) h H2 y Hy)].
  apply (by_start_all_ge (t ++ [h]) (fst a) H2 h). apply in_or_app. right. left. reflexivity.
Qed.
(** replacing the last element (newest) by one with a start not smaller keeps the order *)
Lemma by_start_replace_last l : forall lo h h', by_start lo (l ++ [h]) -> fst h <= fst h' -> by_start lo (l ++ [h']).
Proof.
  induction l as [|a t IH]; intros lo h h' H Hle; cbn [app by_start] in *; [lia|].
  destruct H as [H1 H2]. split; [exact H1|]. apply (IH (fst a) h h' H2 Hle).
Qed.

Lemma rpush_inv cap pushed s r0 : fst r0 < snd r0 -> RInv pushed s -> RInv (pushed ++ [r0]) (rpush cap s r0).
Proof.
  intros Hr0 HI. pose proof HI as [Hm Hne Hc Hs]. unfold rpush.
  pose proof (degr_nonempty r0 Hr0) as Hr. set (r := degr r0) in *.
  assert (COV : forall x, cov (map degr (pushed ++ [r0])) x <-> cov (map degr pushed) x \/ inr r x).
  { intros x. rewrite map_app, cov_app. cbn [map]. rewrite cov_cons. fold r. split; [intros [H|[H|H]]; [tauto|tauto|destruct (cov_nil _ H)]|tauto]. }
  clearbody r.
  match goal with |- RInv _ (if _ then rdrain ?S else ?S) => set (s' := S) end.
  assert (I' : RInv (pushed ++ [r0]) s').
  { unfold s'. destruct (rbuff s) as [|[ls le] t] eqn:Eb.
    - constructor; cbn [rmoc rbuff rsorted].
      + exact Hm.
      + constructor; [exact Hr|constructor].
      + intros x. rewrite COV, Hc, cov_cons. split; [intros [[H|H]|H]; [tauto|destruct (cov_nil _ H)|tauto]|intros [H|[H|H]]; [tauto|tauto|destruct (cov_nil _ H)]].
      + intros _. cbn. lia.
    - inversion Hne as [|? ? Hl Hne']; subst. cbn [fst snd] in Hl.
      destruct ((snd r <? ls) || (le <? fst r)) eqn:Q.
      + (* no overlap, not touching: pushed as a new range *)
        constructor; cbn [rmoc rbuff rsorted].
        * exact Hm.
        * constructor; [exact Hr|constructor; assumption].
        * intros x. rewrite COV, Hc, !cov_cons. tauto.
        * intros E. apply andb_true_iff in E. destruct E as [E1 E2]. apply N.ltb_lt in E2.
          specialize (Hs E1). cbn [rev] in Hs |- *. rewrite <- app_assoc. cbn [app].
          change (rev t ++ [(ls, le); r]) with (rev t ++ [(ls, le)] ++ [r]). rewrite app_assoc.
          apply by_start_app_last; [exact Hs| |lia].
          intros y Hy. apply in_app_or in Hy. destruct Hy as [Hy|[<-|[]]]; [|cbn; lia].
          pose proof (by_start_last_max (rev t) 0 (ls, le) Hs y Hy). cbn in H. lia.
      + (* overlapping or touching: merged in place with the last buffered range *)
        apply orb_false_iff in Q. destruct Q as [Q1 Q2]. apply N.ltb_ge in Q1, Q2.
        constructor; cbn [rmoc rbuff rsorted].
        * exact Hm.
        * constructor; [cbn; lia|exact Hne'].
        * intros x. rewrite COV, Hc, !cov_cons. unfold inr. cbn [fst snd]. split.
          -- intros [[H|[H|H]]|H]; [tauto|right; left; lia|tauto|right; left; lia].
          -- intros [H|[H|H]]; [tauto| |tauto].
             destruct (N.le_gt_cases ls x) as [L|L]; [destruct (N.lt_ge_cases x le) as [L2|L2]; [left; right; left; lia|right; lia]|right; lia].
        * intros E. destruct (N.ltb_spec (fst r) ls) as [C|C]; [discriminate|].
          specialize (Hs E). cbn [rev] in Hs |- *. replace (N.min ls (fst r)) with ls by lia.
          apply (by_start_replace_last (rev t) 0 (ls, le) (ls, N.max le (snd r)) Hs). cbn. lia. }
  destruct (Nat.eqb (length (rbuff s')) cap); [apply rdrain_inv; exact I'|exact I'].
Qed.

Lemma fold_rpush_inv cap l : forall pushed s, NonEmptyR l -> RInv pushed s ->
  RInv (pushed ++ l) (fold_left (rpush cap) l s).
Proof.
  induction l as [|r t IH]; intros pushed s Hne HI; cbn [fold_left]; [rewrite app_nil_r; exact HI|].
  inversion Hne as [|? ? Hr Hne']; subst.
  replace (pushed ++ r :: t) with ((pushed ++ [r]) ++ t) by (rewrite <- app_assoc; reflexivity).
  apply IH; [exact Hne'|]. apply rpush_inv; assumption.
Qed.

Lemma rnew_inv : RInv [] rnew.
Proof. constructor; cbn; [exact I|constructor|intros x; split; [intros H; destruct (cov_nil _ H)|intros [[]|H]; destruct (cov_nil _ H)]|intros _; exact I]. Qed.

(** THE RANGE BUILDER EQUALS ITS SPECIFICATION for every capacity, order and overlap pattern *)
Theorem rbuild_eq_spec cap l : NonEmptyR l -> rbuild cap l = degrade sh l.
Proof.
  intros Hne. unfold rbuild, rinto_moc.
  pose proof (fold_rpush_inv cap l [] rnew Hne rnew_inv) as HI. cbn [app] in HI.
  apply rdrain_inv in HI. destruct HI as [Hm _ Hc _].
  destruct (rmoc (rdrain (fold_left (rpush cap) l rnew))) as [m|] eqn:Em.
  2:{ unfold rdrain in Em. cbn in Em. discriminate. }
  apply canon_unique; [exact Hm|apply degrade_canon|].
  intros x. unfold degrade. rewrite canon_of_cov. unfold rdrain in Hc. cbn [rbuff] in Hc.
  fold (map degr l). unfold degr in Hc |- *. rewrite Hc. split; [tauto|intros [H|H]; [exact H|destruct (cov_nil _ H)]].
Qed.

End Builder.
