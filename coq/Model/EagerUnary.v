(** Model/EagerUnary.v — (F) two more range-set primitives of src/ranges/mod.rs as written:
    - BorrowedRanges::complement_with_upper_bound: [0, ub) when empty; otherwise the gaps
      (last .. range.start) with last := range.end, starting from last = 0 — or from the end of the
      first range, which is skipped, when it starts at 0 — and a final (last .. ub) when last < ub;
    - Ranges::new_from_sorted / new_from: MergeOverlappingRangesIter without splitting (curr.start <=
      prev.end => prev.end = max) is [BuilderSM2.merge_sorted]; new_from sorts by start first.
    Theorems: the complement equals [compl ub]; new_from_sorted on a start-sorted list of non-empty
    ranges and new_from with ANY sorting function (a permutation, sorted by start) equal [canon_of]. *)
From Coq Require Import List NArith Arith Lia Bool.
From MOC.Base Require Import RangeSet.
From MOC.Model Require Import BuilderSM2.
Import ListNotations.
Open Scope N_scope.

Fixpoint gaps (last : N) (l : list range) : list range * N :=
  match l with
  | [] => ([], last)
  | r :: t => let (g, last') := gaps (snd r) t in ((last, fst r) :: g, last')
  end.

Definition fin (ub : N) (p : list range * N) : list range :=
  if snd p <? ub then fst p ++ [(snd p, ub)] else fst p.
Definition compl_e (ub : N) (l : list range) : list range :=
  match l with
  | [] => [(0, ub)]
  | r0 :: t => fin ub (if fst r0 =? 0 then gaps (snd r0) t else gaps 0 l)
  end.

Lemma gaps_compl : forall t lo ub, chain lo t -> Bounded ub t -> lo <= ub ->
  fin ub (gaps lo t) = compl_from lo ub t.
Proof.
  induction t as [|[a b] t IH]; intros lo ub Hc Hb Hlo; cbn [gaps compl_from fst snd].
  - unfold fin. cbn [fst snd app]. destruct (N.ltb_spec lo ub); reflexivity.
  - cbn [chain fst snd] in Hc. destruct Hc as (H1 & H2 & H3). inversion Hb as [|? ? Hr Hb']; subst.
    cbn [snd] in Hr. specialize (IH b ub H3 Hb' Hr). destruct (gaps b t) as [g last]. unfold fin in *. cbn [fst snd] in *.
    destruct (N.ltb_spec lo a); [|lia]. destruct (last <? ub); cbn [app]; f_equal; exact IH.
Qed.

Theorem compl_e_eq_spec ub l : Valid ub l -> 0 < ub -> compl_e ub l = compl ub l.
Proof.
  intros [Hc Hb] Hub. unfold compl_e, compl. destruct l as [|[a0 b0] t].
  - cbn [compl_from]. destruct (N.ltb_spec 0 ub); [reflexivity|lia].
  - cbn [Canon sorted_from fst snd] in Hc. destruct Hc as (_ & H2 & H3). inversion Hb as [|? ? Hr Hb']; subst. cbn [snd] in Hr.
    cbn [fst snd]. destruct (N.eqb_spec a0 0) as [E|E].
    + subst a0. cbn [compl_from]. rewrite N.ltb_irrefl.
      exact (gaps_compl t b0 ub H3 Hb' Hr).
    + assert (Hc0 : chain 0 ((a0, b0) :: t)) by (cbn [chain fst snd]; split; [lia|split; assumption]).
      exact (gaps_compl ((a0, b0) :: t) 0 ub Hc0 Hb ltac:(lia)).
Qed.

(** new_from_sorted / new_from *)
Theorem new_from_sorted_eq_spec l : by_start 0 l -> NonEmptyR l -> merge_sorted l = canon_of l.
Proof.
  intros Hs Hne. destruct (merge_sorted_spec l Hs Hne) as [C Cv].
  apply canon_unique; [exact C|apply canon_of_canon|]. intros x. rewrite Cv, canon_of_cov. reflexivity.
Qed.

Section NewFrom.
Variable sortf : list range -> list range.
Hypothesis sortf_in : forall l r, In r (sortf l) <-> In r l.
Hypothesis sortf_sorted : forall l, by_start 0 (sortf l).

Theorem new_from_eq_spec l : NonEmptyR l -> merge_sorted (sortf l) = canon_of l.
Proof.
  intros Hne.
  assert (Hne' : NonEmptyR (sortf l)).
  { unfold NonEmptyR in *. rewrite Forall_forall in *. intros r Hr. apply Hne. apply sortf_in. exact Hr. }
  rewrite (new_from_sorted_eq_spec (sortf l) (sortf_sorted l) Hne').
  apply canon_unique; [apply canon_of_canon|apply canon_of_canon|].
  intros x. rewrite !canon_of_cov. unfold cov. split; intros [r [Hin Hx]]; exists r; (split; [|exact Hx]); apply sortf_in; exact Hin.
Qed.
End NewFrom.

Example eager_unary_examples :
  compl_e 16 [(0, 4); (6, 9)] = [(4, 6); (9, 16)] /\ compl_e 16 [(2, 16)] = [(0, 2)] /\ compl_e 16 [] = [(0, 16)] /\
  merge_sorted [(0, 3); (2, 5); (5, 6); (8, 9)] = [(0, 6); (8, 9)].
Proof. repeat split; vm_compute; reflexivity. Qed.
