(** Model/LazyOps.v — (F) the streaming operators [and] and [minus] of
    src/moc/range/op/{and,minus}.rs as the code computes them on two sorted streams, with the
    one-range look-ahead per operand, the mutation of the look-ahead heads, the inner
    "consume while" loops and the quick-rejection tests of [::new] that trust [peek_last()]
    (last range of an in-memory source).  Theorems: on canonical operands they return exactly
    the specification operators of Base/RangeSet.v (hence, by C01, the set-theoretic result),
    whether or not the sources advertise their last range. *)
From Coq Require Import List NArith Arith Lia Bool.
From MOC.Base Require Import RangeSet.
Import ListNotations.
Open Scope N_scope.

(** ---------- and ---------- *)
Fixpoint and_l (A : list range) : list range -> list range :=
  fix inner (B : list range) : list range :=
    match A, B with
    | l :: A', r :: B' =>
        if snd l <=? fst r then and_l A' B                       (* |--l--| |--r--| : next l *)
        else if snd r <=? fst l then inner B'                     (* |--r--| |--l--| : next r *)
        else
          let from := N.max (fst l) (fst r) in
          match snd l ?= snd r with
          | Lt => (from, snd l) :: and_l A' B
          | Gt => (from, snd r) :: inner B'
          | Eq => (from, snd l) :: and_l A' B'
          end
    | _, _ => []
    end.

Fixpoint last_end (l : list range) : option N :=
  match l with
  | [] => None
  | r :: t => match t with [] => Some (snd r) | _ :: _ => last_end t end
  end.

(** AndRangeIter::new: [hl] / [hr] = does the left / right source advertise peek_last() *)
Definition and_new (hl hr : bool) (A B : list range) : list range :=
  match A, B with
  | l :: _, r :: _ =>
      if hl && (match last_end A with Some e => e <=? fst r | None => false end) then []
      else if hr && (match last_end B with Some e => e <=? fst l | None => false end) then []
      else and_l A B
  | _, _ => []
  end.

Lemma and_l_nil_r A : and_l A [] = [].
Proof. destruct A; reflexivity. Qed.
Lemma and_l_nil_l B : and_l [] B = [].
Proof. destruct B; reflexivity. Qed.

Lemma and_l_cons l A' r B' :
  and_l (l :: A') (r :: B') =
    if snd l <=? fst r then and_l A' (r :: B')
    else if snd r <=? fst l then and_l (l :: A') B'
    else match snd l ?= snd r with
         | Lt => (N.max (fst l) (fst r), snd l) :: and_l A' (r :: B')
         | Gt => (N.max (fst l) (fst r), snd r) :: and_l (l :: A') B'
         | Eq => (N.max (fst l) (fst r), snd l) :: and_l A' B'
         end.
Proof. reflexivity. Qed.

Lemma chain_sorted_succ l lo : chain lo l <-> sorted_from (lo + 1) l.
Proof. destruct l as [|r t]; cbn; [tauto|]. split; intros (H1 & H2 & H3); repeat split; try assumption; lia. Qed.

(** the left stream starts at or after [la], the right one at or after [lb]: the result starts
    at or after both, is sorted with strict gaps, and covers exactly the intersection *)
Lemma and_l_spec : forall A B la lb,
  sorted_from la A -> sorted_from lb B ->
  sorted_from (N.max la lb) (and_l A B) /\ forall x, cov (and_l A B) x <-> cov A x /\ cov B x.
Proof.
  induction A as [|l A' IHA]; intros B la lb HA HB.
  - rewrite and_l_nil_l. split; [exact I|]. intros x. split; [intros H; destruct (cov_nil _ H)|intros [H _]; destruct (cov_nil _ H)].
  - revert lb HB. induction B as [|r B' IHB]; intros lb HB.
    + rewrite and_l_nil_r. split; [exact I|]. intros x. split; [intros H; destruct (cov_nil _ H)|intros [_ H]; destruct (cov_nil _ H)].
    + rewrite and_l_cons. pose proof HA as HA0. pose proof HB as HB0.
      cbn [sorted_from] in HA, HB. destruct HA as (A1 & A2 & A3). destruct HB as (B1 & B2 & B3).
      assert (A3' : sorted_from (snd l + 1) A') by (apply chain_sorted_succ; exact A3).
      assert (B3' : sorted_from (snd r + 1) B') by (apply chain_sorted_succ; exact B3).
      destruct (N.leb_spec (snd l) (fst r)) as [C1|C1].
      { destruct (IHA (r :: B') (snd l + 1) lb A3' HB0) as [S Cv].
        split; [apply (sorted_from_weaken _ (N.max (snd l + 1) lb)); [lia|exact S]|].
        intros x. rewrite Cv, !cov_cons. split; [tauto|].
        intros [[Hl|Hl] Hr]; [|tauto]. exfalso. unfold inr in *.
        destruct Hr as [Hr|Hr]; [lia|]. pose proof (chain_cov_gt _ _ _ B3 Hr). lia. }
      destruct (N.leb_spec (snd r) (fst l)) as [C2|C2].
      { destruct (IHB (snd r + 1) B3') as [S Cv].
        split; [apply (sorted_from_weaken _ (N.max la (snd r + 1))); [lia|exact S]|].
        intros x. rewrite Cv, !cov_cons. split; [tauto|].
        intros [Hl [Hr|Hr]]; [|tauto]. exfalso. unfold inr in *.
        destruct Hl as [Hl|Hl]; [lia|]. pose proof (chain_cov_gt _ _ _ A3 Hl). lia. }
      destruct (N.compare_spec (snd l) (snd r)) as [E|E|E].
      * destruct (IHA B' (snd l + 1) (snd r + 1) A3' B3') as [S Cv]. split.
        -- cbn [sorted_from fst snd]. split; [lia|]. split; [lia|]. apply chain_sorted_succ.
           apply (sorted_from_weaken _ (N.max (snd l + 1) (snd r + 1))); [lia|exact S].
        -- intros x. rewrite !cov_cons, Cv. unfold inr. cbn [fst snd]. split.
           ++ intros [H|[H1 H2]]; [split; left; lia|tauto].
           ++ intros [[Hl|Hl] [Hr|Hr]].
              ** left. lia.
              ** exfalso. pose proof (chain_cov_gt _ _ _ B3 Hr). lia.
              ** exfalso. pose proof (chain_cov_gt _ _ _ A3 Hl). lia.
              ** right. tauto.
      * destruct (IHA (r :: B') (snd l + 1) lb A3' HB0) as [S Cv]. split.
        -- cbn [sorted_from fst snd]. split; [lia|]. split; [lia|]. apply chain_sorted_succ.
           apply (sorted_from_weaken _ (N.max (snd l + 1) lb)); [lia|exact S].
        -- intros x. rewrite !cov_cons, Cv, !cov_cons. unfold inr. cbn [fst snd]. split.
           ++ intros [H|[H1 H2]]; [split; left; lia|tauto].
           ++ intros [[Hl|Hl] [Hr|Hr]].
              ** left. lia.
              ** exfalso. pose proof (chain_cov_gt _ _ _ B3 Hr). lia.
              ** right. split; [exact Hl|left; exact Hr].
              ** right. split; [exact Hl|right; exact Hr].
      * destruct (IHB (snd r + 1) B3') as [S Cv]. split.
        -- cbn [sorted_from fst snd]. split; [lia|]. split; [lia|]. apply chain_sorted_succ.
           apply (sorted_from_weaken _ (N.max la (snd r + 1))); [lia|exact S].
        -- intros x. rewrite !cov_cons, Cv, !cov_cons. unfold inr. cbn [fst snd]. split.
           ++ intros [H|[H1 H2]]; [split; left; lia|tauto].
           ++ intros [[Hl|Hl] [Hr|Hr]].
              ** left. lia.
              ** right. split; [left; exact Hl|exact Hr].
              ** exfalso. pose proof (chain_cov_gt _ _ _ A3 Hl). lia.
              ** right. split; [right; exact Hl|exact Hr].
Qed.

(** the last range of a canonical list bounds every covered index *)
Lemma last_end_bound l : forall lo e, sorted_from lo l -> last_end l = Some e -> forall x, cov l x -> x < e.
Proof.
  induction l as [|a t IH]; intros lo e Hs He x Hx; [destruct (cov_nil _ Hx)|].
  cbn [sorted_from] in Hs. destruct Hs as (H1 & H2 & H3).
  destruct t as [|b t'].
  - cbn in He. inversion He; subst. apply cov_cons in Hx. destruct Hx as [[_ Hx]|Hx]; [exact Hx|destruct (cov_nil _ Hx)].
  - change (last_end (a :: b :: t')) with (last_end (b :: t')) in He.
    assert (Hs' : sorted_from (snd a) (b :: t')) by (apply chain_sorted; exact H3).
    apply cov_cons in Hx. destruct Hx as [[_ Hx]|Hx].
    + (* x in the first range: below the start of b, itself covered, hence below e *)
      assert (Hb : cov (b :: t') (fst b)).
      { apply cov_cons. left. cbn [chain] in H3. unfold inr. lia. }
      pose proof (IH (snd a) e Hs' He (fst b) Hb). cbn [chain] in H3. lia.
    + apply (IH (snd a) e Hs' He x Hx).
Qed.

Theorem and_new_spec hl hr A B : Canon A -> Canon B ->
  Canon (and_new hl hr A B) /\ forall x, cov (and_new hl hr A B) x <-> cov A x /\ cov B x.
Proof.
  intros HA HB. unfold and_new.
  destruct A as [|l A']; [split; [exact I|]; intros x; split; [intros H; destruct (cov_nil _ H)|intros [H _]; destruct (cov_nil _ H)]|].
  destruct B as [|r B']; [split; [exact I|]; intros x; split; [intros H; destruct (cov_nil _ H)|intros [_ H]; destruct (cov_nil _ H)]|].
  assert (EMP : forall P : Prop, (forall x, cov (l :: A') x -> cov (r :: B') x -> False) ->
            Canon [] /\ forall x, cov [] x <-> cov (l :: A') x /\ cov (r :: B') x).
  { intros _ H. split; [exact I|]. intros x. split; [intros H0; destruct (cov_nil _ H0)|intros [H1 H2]; destruct (H x H1 H2)]. }
  destruct (hl && match last_end (l :: A') with Some e => e <=? fst r | None => false end) eqn:Q1.
  { apply andb_true_iff in Q1. destruct Q1 as [_ Q1]. destruct (last_end (l :: A')) as [e|] eqn:Le; [|discriminate].
    apply N.leb_le in Q1. apply (EMP True). intros x H1 H2.
    pose proof (last_end_bound _ _ _ HA Le x H1). pose proof (sorted_cov_ge _ _ _ HB H2) as G.
    cbn [sorted_from] in HB. destruct HB as (_ & B2 & B3).
    apply cov_cons in H2. destruct H2 as [[H2 _]|H2]; [lia|]. pose proof (chain_cov_gt _ _ _ B3 H2). lia. }
  destruct (hr && match last_end (r :: B') with Some e => e <=? fst l | None => false end) eqn:Q2.
  { apply andb_true_iff in Q2. destruct Q2 as [_ Q2]. destruct (last_end (r :: B')) as [e|] eqn:Le; [|discriminate].
    apply N.leb_le in Q2. apply (EMP True). intros x H1 H2.
    pose proof (last_end_bound _ _ _ HB Le x H2).
    cbn [sorted_from] in HA. destruct HA as (_ & A2 & A3).
    apply cov_cons in H1. destruct H1 as [[H1 _]|H1]; [lia|]. pose proof (chain_cov_gt _ _ _ A3 H1). lia. }
  destruct (and_l_spec (l :: A') (r :: B') 0 0 HA HB) as [S Cv]. split; [exact S|exact Cv].
Qed.

(** ---------- minus ---------- *)
Fixpoint drop_le (e : N) (l : list range) : list range :=        (* consume_while_end_lower_than *)
  match l with r :: t => if snd r <=? e then drop_le e t else l | [] => [] end.

(** [A]'s head is the (possibly already cut) look-ahead range of the left operand *)
Fixpoint minus_f (fuel : nat) (A B : list range) : list range :=
  match fuel with
  | O => []
  | S f =>
      match A, B with
      | [], _ => []
      | _, [] => A
      | l :: A', r :: B' =>
          if snd l <=? fst r then l :: minus_f f A' B                         (* L--L R--R *)
          else if snd r <=? fst l then minus_f f A (drop_le (fst l) B')        (* R--R L--L *)
          else if snd l <=? snd r then
            (if fst l <? fst r then (fst l, fst r) :: minus_f f A' B           (* L--R--L--R *)
             else minus_f f (drop_le (snd r) A') B)                            (* R--L--L--R *)
          else if fst r <=? fst l then minus_f f ((snd r, snd l) :: A') B'     (* R--L--R--L *)
          else (fst l, fst r) :: minus_f f ((snd r, snd l) :: A') B'           (* L--R--R--L *)
      end
  end.

(** MinusRangeIter::new with the quick-rejection tests (repaired code: the left operand is kept) *)
Definition minus_new (hl hr : bool) (A B : list range) : list range :=
  match A, B with
  | l :: _, r :: _ =>
      if hl && (match last_end A with Some e => e <=? fst r | None => false end) then A
      else if hr && (match last_end B with Some e => e <=? fst l | None => false end) then A
      else minus_f (length A + length B + 1) A B
  | _, _ => A
  end.

Lemma drop_le_incl e l x : cov (drop_le e l) x -> cov l x.
Proof.
  induction l as [|r t IH]; cbn [drop_le]; [auto|]. destruct (snd r <=? e); [|auto].
  intros H. apply cov_cons. right. apply IH. exact H.
Qed.
Lemma drop_le_keep e l x : cov l x -> e <= x -> cov (drop_le e l) x.
Proof.
  induction l as [|r t IH]; cbn [drop_le]; [auto|]. intros H Hx.
  destruct (N.leb_spec (snd r) e) as [C|C]; [|exact H].
  apply cov_cons in H. destruct H as [[_ H]|H]; [lia|apply IH; assumption].
Qed.
Lemma drop_le_length e l : (length (drop_le e l) <= length l)%nat.
Proof. induction l as [|r t IH]; cbn [drop_le length]; [lia|]. destruct (snd r <=? e); cbn [length]; lia. Qed.
Lemma drop_le_sorted e l : forall lo, sorted_from lo l -> sorted_from lo (drop_le e l).
Proof.
  induction l as [|r t IH]; intros lo H; cbn [drop_le]; [exact I|]. destruct (snd r <=? e); [|exact H].
  cbn [sorted_from] in H. destruct H as (H1 & H2 & H3).
  apply IH. apply (sorted_from_weaken t (snd r)); [lia|apply chain_sorted; exact H3].
Qed.

Lemma sorted_head_ge r t lo x : sorted_from lo (r :: t) -> cov (r :: t) x -> fst r <= x.
Proof.
  intros Hs Hx. apply (sorted_cov_ge (r :: t) (fst r) x); [|exact Hx].
  cbn [sorted_from] in *. destruct Hs as (H1 & H2 & H3). repeat split; try assumption. lia.
Qed.

Lemma minus_f_spec : forall fuel A B la lb,
  (length A + length B < fuel)%nat -> sorted_from la A -> sorted_from lb B ->
  sorted_from la (minus_f fuel A B) /\ forall x, cov (minus_f fuel A B) x <-> cov A x /\ ~ cov B x.
Proof.
  induction fuel as [|f IH]; intros A B la lb Hf HA HB; [lia|].
  cbn [minus_f]. destruct A as [|l A'].
  { split; [exact I|]. intros x. split; [intros H; destruct (cov_nil _ H)|intros [H _]; destruct (cov_nil _ H)]. }
  destruct B as [|r B'].
  { split; [exact HA|]. intros x. split; [intros H; split; [exact H|apply cov_nil]|tauto]. }
  pose proof HA as HA0. pose proof HB as HB0.
  cbn [sorted_from] in HA, HB. destruct HA as (A1 & A2 & A3). destruct HB as (B1 & B2 & B3).
  assert (A3' : sorted_from (snd l + 1) A') by (apply chain_sorted_succ; exact A3).
  assert (B3' : sorted_from (snd r + 1) B') by (apply chain_sorted_succ; exact B3).
  cbn [length] in Hf.
  assert (GA : forall x, cov A' x -> snd l < x) by (intros x; apply chain_cov_gt; exact A3).
  assert (GB : forall x, cov B' x -> snd r < x) by (intros x; apply chain_cov_gt; exact B3).
  destruct (N.leb_spec (snd l) (fst r)) as [C1|C1].
  { (* L--L R--R *)
    destruct (IH A' (r :: B') (snd l + 1) lb ltac:(cbn [length]; lia) A3' HB0) as [S Cv]. split.
    - cbn [sorted_from]. split; [exact A1|]. split; [exact A2|]. apply chain_sorted_succ. exact S.
    - intros x. rewrite !cov_cons, Cv, !cov_cons. unfold inr. split.
      + intros [H|[H1 H2]]; [|tauto]. split; [left; exact H|]. intros [K|K]; [lia|]. specialize (GB x K). lia.
      + intros [[H|H] N0]; [left; exact H|right; split; [exact H|exact N0]]. }
  destruct (N.leb_spec (snd r) (fst l)) as [C2|C2].
  { (* R--R L--L *)
    destruct (IH (l :: A') (drop_le (fst l) B') la (snd r + 1)) as [S Cv].
    - pose proof (drop_le_length (fst l) B'). cbn [length]. lia.
    - exact HA0.
    - apply drop_le_sorted. exact B3'.
    - split; [exact S|]. intros x. rewrite Cv. split; intros [H N0]; (split; [exact H|]).
      + intros K. apply cov_cons in K. destruct K as [K|K].
        * pose proof (sorted_head_ge l A' la x HA0 H). unfold inr in K. lia.
        * apply N0. apply drop_le_keep; [exact K|]. apply (sorted_head_ge l A' la x HA0 H).
      + intros K. apply N0. apply cov_cons. right. apply (drop_le_incl _ _ _ K). }
  destruct (N.leb_spec (snd l) (snd r)) as [C3|C3].
  { destruct (N.ltb_spec (fst l) (fst r)) as [C4|C4].
    - (* L--R--L--R *)
      destruct (IH A' (r :: B') (snd l + 1) lb ltac:(cbn [length]; lia) A3' HB0) as [S Cv]. split.
      + cbn [sorted_from fst snd]. split; [exact A1|]. split; [exact C4|].
        apply chain_sorted_succ. apply (sorted_from_weaken _ (snd l + 1)); [lia|exact S].
      + intros x. rewrite !cov_cons, Cv, !cov_cons. unfold inr. cbn [fst snd]. split.
        * intros [H|[H1 H2]]; [|tauto]. split; [left; lia|]. intros [K|K]; [lia|]. specialize (GB x K). lia.
        * intros [[H|H] N0].
          -- left. destruct (N.lt_ge_cases x (fst r)) as [L|L]; [lia|]. exfalso. apply N0. left. lia.
          -- right. split; [exact H|exact N0].
    - (* R--L--L--R *)
      destruct (IH (drop_le (snd r) A') (r :: B') (snd l + 1) lb) as [S Cv].
      + pose proof (drop_le_length (snd r) A'). cbn [length]. lia.
      + apply drop_le_sorted. exact A3'.
      + exact HB0.
      + split; [apply (sorted_from_weaken _ (snd l + 1)); [lia|exact S]|].
        intros x. rewrite Cv, !cov_cons. unfold inr. split.
        * intros [H N0]. split; [right; apply (drop_le_incl _ _ _ H)|exact N0].
        * intros [[H|H] N0].
          -- exfalso. apply N0. left. lia.
          -- split; [|exact N0]. apply drop_le_keep; [exact H|].
             destruct (N.le_gt_cases (snd r) x) as [L|L]; [exact L|]. exfalso. apply N0. left. specialize (GA x H). lia. }
  assert (HA2 : sorted_from (snd r) ((snd r, snd l) :: A')).
  { cbn [sorted_from fst snd]. split; [lia|]. split; [exact C3|exact A3]. }
  destruct (N.leb_spec (fst r) (fst l)) as [C5|C5].
  { (* R--L--R--L *)
    destruct (IH ((snd r, snd l) :: A') B' (snd r) (snd r + 1) ltac:(cbn [length]; lia) HA2 B3') as [S Cv].
    split; [apply (sorted_from_weaken _ (snd r)); [lia|exact S]|].
    intros x. rewrite Cv, !cov_cons. unfold inr. cbn [fst snd]. split.
    - intros [[H|H] N0].
      + split; [left; lia|]. intros [K|K]; [lia|exact (N0 K)].
      + split; [right; exact H|]. intros [K|K]; [specialize (GA x H); lia|exact (N0 K)].
    - intros [[H|H] N0].
      + split; [|tauto]. left. destruct (N.le_gt_cases (snd r) x) as [L|L]; [lia|]. exfalso. apply N0. left. lia.
      + split; [right; exact H|tauto]. }
  (* L--R--R--L *)
  destruct (IH ((snd r, snd l) :: A') B' (snd r) (snd r + 1) ltac:(cbn [length]; lia) HA2 B3') as [S Cv].
  split.
  - cbn [sorted_from fst snd]. split; [exact A1|]. split; [exact C5|].
    apply chain_sorted_succ. apply (sorted_from_weaken _ (snd r)); [lia|exact S].
  - intros x. rewrite !cov_cons, Cv, !cov_cons. unfold inr. cbn [fst snd]. split.
    + intros [H|[[H|H] N0]].
      * split; [left; lia|]. intros [K|K]; [lia|specialize (GB x K); lia].
      * split; [left; lia|]. intros [K|K]; [lia|exact (N0 K)].
      * split; [right; exact H|]. intros [K|K]; [specialize (GA x H); lia|exact (N0 K)].
    + intros [[H|H] N0].
      * destruct (N.lt_ge_cases x (fst r)) as [L|L]; [left; lia|]. right. split; [|tauto].
        left. destruct (N.le_gt_cases (snd r) x) as [L2|L2]; [lia|]. exfalso. apply N0. left. lia.
      * right. split; [right; exact H|tauto].
Qed.

Theorem minus_new_spec hl hr A B : Canon A -> Canon B ->
  Canon (minus_new hl hr A B) /\ forall x, cov (minus_new hl hr A B) x <-> cov A x /\ ~ cov B x.
Proof.
  intros HA HB. unfold minus_new.
  destruct A as [|l A']; [split; [exact I|]; intros x; split; [intros H; destruct (cov_nil _ H)|intros [H _]; destruct (cov_nil _ H)]|].
  destruct B as [|r B']; [split; [exact HA|]; intros x; split; [intros H; split; [exact H|apply cov_nil]|tauto]|].
  assert (KEEP : (forall x, cov (l :: A') x -> cov (r :: B') x -> False) ->
            Canon (l :: A') /\ forall x, cov (l :: A') x <-> cov (l :: A') x /\ ~ cov (r :: B') x).
  { intros H. split; [exact HA|]. intros x. split; [intros H1; split; [exact H1|intros H2; exact (H x H1 H2)]|tauto]. }
  destruct (hl && match last_end (l :: A') with Some e => e <=? fst r | None => false end) eqn:Q1.
  { apply andb_true_iff in Q1. destruct Q1 as [_ Q1]. destruct (last_end (l :: A')) as [e|] eqn:Le; [|discriminate].
    apply N.leb_le in Q1. apply KEEP. intros x H1 H2.
    pose proof (last_end_bound _ _ _ HA Le x H1). pose proof (sorted_head_ge r B' 0 x HB H2). lia. }
  destruct (hr && match last_end (r :: B') with Some e => e <=? fst l | None => false end) eqn:Q2.
  { apply andb_true_iff in Q2. destruct Q2 as [_ Q2]. destruct (last_end (r :: B')) as [e|] eqn:Le; [|discriminate].
    apply N.leb_le in Q2. apply KEEP. intros x H1 H2.
    pose proof (last_end_bound _ _ _ HB Le x H2). pose proof (sorted_head_ge l A' 0 x HA H1). lia. }
  apply (minus_f_spec _ (l :: A') (r :: B') 0 0); [lia|exact HA|exact HB].
Qed.

(** the defect D01 (quick rejection returning an empty left operand): refuted *)
Definition minus_new_d01 (A B : list range) : list range :=
  match A, B with
  | l :: _, r :: _ =>
      if (match last_end A with Some e => e <=? fst r | None => false end) then []
      else if (match last_end B with Some e => e <=? fst l | None => false end) then []
      else minus_f (length A + length B + 1) A B
  | _, _ => A
  end.
Lemma minus_new_d01_refuted : minus_new_d01 [(10, 20)] [(0, 5)] = [] /\ minus_new true true [(10, 20)] [(0, 5)] = [(10, 20)].
Proof. split; reflexivity. Qed.

(** ---------- the streaming operators equal the specification operators ---------- *)
Theorem and_new_eq_spec hl hr ub A B : Valid ub A -> Valid ub B -> and_new hl hr A B = inter ub A B.
Proof.
  intros HA HB. destruct (and_new_spec hl hr A B (v_canon _ _ HA) (v_canon _ _ HB)) as [C Cv].
  apply canon_unique; [exact C|apply (v_canon _ _ (valid_inter ub A B HA HB))|].
  intros x. rewrite Cv, (inter_cov ub A B x HA HB). reflexivity.
Qed.

Theorem minus_new_eq_spec hl hr ub A B : Valid ub A -> Valid ub B -> minus_new hl hr A B = minus ub A B.
Proof.
  intros HA HB. destruct (minus_new_spec hl hr A B (v_canon _ _ HA) (v_canon _ _ HB)) as [C Cv].
  apply canon_unique; [exact C|apply (v_canon _ _ (valid_minus ub A B HA HB))|].
  intros x. rewrite Cv, (minus_cov ub A B x HA HB). reflexivity.
Qed.

(** ---------- or ---------- *)
Fixpoint or_f (fuel : nat) (A B : list range) : list range :=
  match fuel with
  | O => []
  | S f =>
      match A, B with
      | [], _ => B
      | _, [] => A
      | l :: A', r :: B' =>
          if snd l <? fst r then l :: or_f f A' B                                   (* L--L R--R *)
          else if snd r <? fst l then r :: or_f f A B'                               (* R--R L--L *)
          else if snd l <=? snd r
          then or_f f (drop_le (snd r) A') ((N.min (fst l) (fst r), snd r) :: B')    (* fuse into r *)
          else or_f f ((N.min (fst l) (fst r), snd l) :: A') (drop_le (snd l) B')    (* fuse into l *)
      end
  end.

(** OrRangeIter::new: the only reachable shortcut is "right entirely before left" (the second
    test of the source repeats the first one) *)
Definition or_new (hr : bool) (A B : list range) : list range :=
  match A with
  | l :: _ =>
      if hr && (match last_end B with Some e => e <? fst l | None => false end) then B ++ A
      else or_f (length A + length B + 1) A B
  | [] => or_f (length A + length B + 1) A B
  end.

Lemma or_f_spec : forall fuel A B la lb,
  (length A + length B < fuel)%nat -> sorted_from la A -> sorted_from lb B ->
  sorted_from (N.min la lb) (or_f fuel A B) /\ forall x, cov (or_f fuel A B) x <-> cov A x \/ cov B x.
Proof.
  induction fuel as [|f IH]; intros A B la lb Hf HA HB; [lia|].
  cbn [or_f]. destruct A as [|l A'].
  { split; [apply (sorted_from_weaken _ lb); [lia|exact HB]|]. intros x. split; [tauto|intros [H|H]; [destruct (cov_nil _ H)|exact H]]. }
  destruct B as [|r B'].
  { split; [apply (sorted_from_weaken _ la); [lia|exact HA]|]. intros x. split; [tauto|intros [H|H]; [exact H|destruct (cov_nil _ H)]]. }
  pose proof HA as HA0. pose proof HB as HB0.
  cbn [sorted_from] in HA, HB. destruct HA as (A1 & A2 & A3). destruct HB as (B1 & B2 & B3).
  assert (A3' : sorted_from (snd l + 1) A') by (apply chain_sorted_succ; exact A3).
  assert (B3' : sorted_from (snd r + 1) B') by (apply chain_sorted_succ; exact B3).
  cbn [length] in Hf.
  assert (GA : forall x, cov A' x -> snd l < x) by (intros x; apply chain_cov_gt; exact A3).
  assert (GB : forall x, cov B' x -> snd r < x) by (intros x; apply chain_cov_gt; exact B3).
  destruct (N.ltb_spec (snd l) (fst r)) as [C1|C1].
  { assert (HBr : sorted_from (fst r) (r :: B')) by (cbn [sorted_from]; repeat split; [lia|exact B2|exact B3]).
    destruct (IH A' (r :: B') (snd l + 1) (fst r) ltac:(cbn [length]; lia) A3' HBr) as [S Cv]. split.
    - cbn [sorted_from]. split; [lia|]. split; [exact A2|]. apply chain_sorted_succ.
      apply (sorted_from_weaken _ (N.min (snd l + 1) (fst r))); [lia|exact S].
    - intros x. rewrite !cov_cons, Cv, !cov_cons. tauto. }
  destruct (N.ltb_spec (snd r) (fst l)) as [C2|C2].
  { assert (HAl : sorted_from (fst l) (l :: A')) by (cbn [sorted_from]; repeat split; [lia|exact A2|exact A3]).
    destruct (IH (l :: A') B' (fst l) (snd r + 1) ltac:(cbn [length]; lia) HAl B3') as [S Cv]. split.
    - cbn [sorted_from]. split; [lia|]. split; [exact B2|]. apply chain_sorted_succ.
      apply (sorted_from_weaken _ (N.min (fst l) (snd r + 1))); [lia|exact S].
    - intros x. rewrite !cov_cons, Cv, !cov_cons. tauto. }
  destruct (N.leb_spec (snd l) (snd r)) as [C3|C3].
  { set (m := N.min (fst l) (fst r)).
    assert (HB2 : sorted_from m ((m, snd r) :: B')).
    { cbn [sorted_from fst snd]. split; [lia|]. split; [unfold m; lia|exact B3]. }
    destruct (IH (drop_le (snd r) A') ((m, snd r) :: B') (snd l + 1) m) as [S Cv].
    - pose proof (drop_le_length (snd r) A'). cbn [length]. lia.
    - apply drop_le_sorted. exact A3'.
    - exact HB2.
    - split; [apply (sorted_from_weaken _ (N.min (snd l + 1) m)); [unfold m; lia|exact S]|].
      intros x. rewrite Cv, !cov_cons. unfold inr. cbn [fst snd]. split.
      + intros [H|[H|H]].
        * left. right. apply (drop_le_incl _ _ _ H).
        * destruct (N.lt_ge_cases x (fst r)) as [L|L]; [left; left; unfold m in H; lia|right; left; lia].
        * right. right. exact H.
      + intros [[H|H]|[H|H]].
        * right. left. unfold m. lia.
        * destruct (N.le_gt_cases (snd r) x) as [L|L]; [left; apply drop_le_keep; assumption|].
          right. left. specialize (GA x H). unfold m. lia.
        * right. left. unfold m. lia.
        * right. right. exact H. }
  set (m := N.min (fst l) (fst r)).
  assert (HA2 : sorted_from m ((m, snd l) :: A')).
  { cbn [sorted_from fst snd]. split; [lia|]. split; [unfold m; lia|exact A3]. }
  destruct (IH ((m, snd l) :: A') (drop_le (snd l) B') m (snd r + 1)) as [S Cv].
  - pose proof (drop_le_length (snd l) B'). cbn [length]. lia.
  - exact HA2.
  - apply drop_le_sorted. exact B3'.
  - split; [apply (sorted_from_weaken _ (N.min m (snd r + 1))); [unfold m; lia|exact S]|].
    intros x. rewrite Cv, !cov_cons. unfold inr. cbn [fst snd]. split.
    + intros [[H|H]|H].
      * destruct (N.lt_ge_cases x (fst l)) as [L|L]; [right; left; unfold m in H; lia|left; left; lia].
      * left. right. exact H.
      * right. right. apply (drop_le_incl _ _ _ H).
    + intros [[H|H]|[H|H]].
      * left. left. unfold m. lia.
      * left. right. exact H.
      * left. left. unfold m. lia.
      * destruct (N.le_gt_cases (snd l) x) as [L|L]; [right; apply drop_le_keep; assumption|].
        left. left. specialize (GB x H). unfold m. lia.
Qed.

Lemma chain_app B : forall lo A e, chain lo B -> last_end B = Some e -> chain e A -> chain lo (B ++ A).
Proof.
  induction B as [|b t IH]; intros lo A e HB He HA; [discriminate|].
  cbn [chain] in HB. destruct HB as (H1 & H2 & H3). cbn [app chain]. split; [exact H1|]. split; [exact H2|].
  destruct t as [|b' t'].
  - cbn in He. inversion He; subst. exact HA.
  - change (last_end (b :: b' :: t')) with (last_end (b' :: t')) in He. apply (IH (snd b) A e H3 He HA).
Qed.

Theorem or_new_spec hr A B : Canon A -> Canon B ->
  Canon (or_new hr A B) /\ forall x, cov (or_new hr A B) x <-> cov A x \/ cov B x.
Proof.
  intros HA HB. unfold or_new.
  assert (REG : Canon (or_f (length A + length B + 1) A B) /\
                forall x, cov (or_f (length A + length B + 1) A B) x <-> cov A x \/ cov B x).
  { apply (or_f_spec _ A B 0 0); [lia|exact HA|exact HB]. }
  destruct A as [|l A']; [exact REG|].
  destruct (hr && match last_end B with Some e => e <? fst l | None => false end) eqn:Q; [|exact REG].
  apply andb_true_iff in Q. destruct Q as [_ Q]. destruct (last_end B) as [e|] eqn:Le; [|discriminate].
  apply N.ltb_lt in Q. split.
  - destruct B as [|b t]; [discriminate|]. unfold Canon in *. cbn [sorted_from] in HB |- *.
    destruct HB as (B1 & B2 & B3). cbn [app sorted_from]. split; [exact B1|]. split; [exact B2|].
    destruct t as [|b' t'].
    + cbn in Le. inversion Le; subst. cbn [app]. cbn [sorted_from] in HA. destruct HA as (A1 & A2 & A3).
      cbn [chain]. repeat split; try assumption.
    + change (last_end (b :: b' :: t')) with (last_end (b' :: t')) in Le.
      apply (chain_app (b' :: t') (snd b) (l :: A') e B3 Le).
      cbn [sorted_from] in HA. destruct HA as (A1 & A2 & A3). cbn [chain]. repeat split; assumption.
  - intros x. rewrite cov_app. tauto.
Qed.

Theorem or_new_eq_spec hr ub A B : Valid ub A -> Valid ub B -> or_new hr A B = union A B.
Proof.
  intros HA HB. destruct (or_new_spec hr A B (v_canon _ _ HA) (v_canon _ _ HB)) as [C Cv].
  apply canon_unique; [exact C|apply (v_canon _ _ (valid_union ub A B HA HB))|].
  intros x. rewrite Cv, (valid_union_cov ub A B x HA HB). reflexivity.
Qed.

(** ---------- size hints: what the operators advertise (upper bounds computed from the number
    of ranges not yet pulled from each operand, [n1] and [n2]) never under-estimates what they
    then yield, at EVERY state (a state = the look-ahead heads + the remaining inputs) ---------- *)
Lemma and_l_length : forall A B, (length (and_l A B) <= length A + length B - 1)%nat.
Proof.
  induction A as [|l A' IHA]; intros B; [rewrite and_l_nil_l; cbn; lia|].
  induction B as [|r B' IHB]; [rewrite and_l_nil_r; cbn; lia|].
  rewrite and_l_cons. pose proof (IHA B') as IHAB. specialize (IHA (r :: B')). cbn [length] in *.
  destruct (snd l <=? fst r); [lia|]. destruct (snd r <=? fst l); [lia|].
  destruct (snd l ?= snd r); cbn [length]; lia.
Qed.

(** and: (0, Some(1 + n1 + n2)) with n1 = |A| - 1, n2 = |B| - 1 *)
Theorem and_hint_sound l A' r B' :
  (length (and_l (l :: A') (r :: B')) <= 1 + length A' + length B')%nat.
Proof. pose proof (and_l_length (l :: A') (r :: B')). cbn [length] in *. lia. Qed.

Lemma or_f_length : forall fuel A B, (length (or_f fuel A B) <= length A + length B)%nat.
Proof.
  induction fuel as [|f IH]; intros A B; [cbn; lia|]. cbn [or_f].
  destruct A as [|l A']; [cbn; lia|]. destruct B as [|r B']; [cbn; lia|].
  destruct (snd l <? fst r); [specialize (IH A' (r :: B')); cbn [length] in *; lia|].
  destruct (snd r <? fst l); [specialize (IH (l :: A') B'); cbn [length] in *; lia|].
  destruct (snd l <=? snd r).
  - specialize (IH (drop_le (snd r) A') ((N.min (fst l) (fst r), snd r) :: B')).
    pose proof (drop_le_length (snd r) A'). cbn [length] in *. lia.
  - specialize (IH ((N.min (fst l) (fst r), snd l) :: A') (drop_le (snd l) B')).
    pose proof (drop_le_length (snd l) B'). cbn [length] in *. lia.
Qed.

(** or / minus (repaired code): (0, Some(2 + n1 + n2)) *)
Theorem or_hint_sound fuel l A' r B' :
  (length (or_f fuel (l :: A') (r :: B')) <= 2 + length A' + length B')%nat.
Proof. pose proof (or_f_length fuel (l :: A') (r :: B')). cbn [length] in *. lia. Qed.

Lemma minus_f_length : forall fuel A B, (length (minus_f fuel A B) <= length A + length B)%nat.
Proof.
  induction fuel as [|f IH]; intros A B; [cbn; lia|]. cbn [minus_f].
  destruct A as [|l A']; [cbn; lia|]. destruct B as [|r B']; [cbn; lia|].
  destruct (snd l <=? fst r); [specialize (IH A' (r :: B')); cbn [length] in *; lia|].
  destruct (snd r <=? fst l).
  { specialize (IH (l :: A') (drop_le (fst l) B')). pose proof (drop_le_length (fst l) B'). cbn [length] in *. lia. }
  destruct (snd l <=? snd r).
  { destruct (fst l <? fst r); [specialize (IH A' (r :: B')); cbn [length] in *; lia|].
    specialize (IH (drop_le (snd r) A') (r :: B')). pose proof (drop_le_length (snd r) A'). cbn [length] in *. lia. }
  destruct (fst r <=? fst l); specialize (IH ((snd r, snd l) :: A') B'); cbn [length] in *; lia.
Qed.

Theorem minus_hint_sound fuel l A' r B' :
  (length (minus_f fuel (l :: A') (r :: B')) <= 2 + length A' + length B')%nat.
Proof. pose proof (minus_f_length fuel (l :: A') (r :: B')). cbn [length] in *. lia. Qed.

(** D03: the bound 1 + n1 + n2 of the code before the repair is exceeded *)
Lemma or_hint_d03_refuted :
  let A := [(0, 1); (10, 20)] in let B := [(3, 5)] in
  (length (or_f 10 A B) = 3 /\ 1 + (length A - 1) + (length B - 1) = 2)%nat.
Proof. split; reflexivity. Qed.

(** or: the advertised last range (union of the operands' last ranges when they overlap, the
    later one otherwise) bounds everything that is yielded *)
Definition or_last_end (A B : list range) : option N :=
  match last_end A, last_end B with Some a, Some b => Some (N.max a b) | _, _ => None end.

Theorem or_peek_last_sound hr A B e : Canon A -> Canon B -> or_last_end A B = Some e ->
  forall x, cov (or_new hr A B) x -> x < e.
Proof.
  intros HA HB He x Hx. unfold or_last_end in He.
  destruct (last_end A) as [a|] eqn:La; [|discriminate]. destruct (last_end B) as [b|] eqn:Lb; [|discriminate].
  inversion He; subst. apply (proj2 (or_new_spec hr A B HA HB)) in Hx. destruct Hx as [Hx|Hx].
  - pose proof (last_end_bound _ _ _ HA La x Hx). lia.
  - pose proof (last_end_bound _ _ _ HB Lb x Hx). lia.
Qed.
