(** Model/QueryBS.v — (F) the queries of src/ranges/mod.rs BorrowedRanges as the code computes
    them: quick rejection on the first start / last end, binary search of the query bound in
    the FLAT array of bounds [s0; e0; s1; e1; ...] (the unsafe slice cast), and the PARITY of
    the index found (even = a lower bound, odd = inside a range / an upper bound).
    [bsearch] is core::slice::binary_search as SPECIFIED on a strictly increasing slice:
    Ok(i) with slice[i] = x, or Err(i) with i = the insertion point (number of elements < x);
    the implementation in std is trusted to meet that specification.
    Theorems: on canonical range lists these functions equal the specification predicates of
    Model/Query.v (which C03 characterises by the covered sets). *)
From Coq Require Import List NArith Arith Lia Bool.
From MOC.Base Require Import RangeSet.
From MOC.Model Require Import Query LazyOps.
Import ListNotations.
Open Scope N_scope.

Fixpoint flat (l : list range) : list N :=
  match l with [] => [] | r :: t => fst r :: snd r :: flat t end.

Definition rank (l : list N) (x : N) : nat := length (filter (fun y => y <? x) l).
Definition mem (l : list N) (x : N) : bool := existsb (N.eqb x) l.

Inductive bres := BOk (i : nat) | BErr (i : nat).
Definition bsearch (l : list N) (x : N) : bres := if mem l x then BOk (rank l x) else BErr (rank l x).

Definition first_start (l : list range) : N := match l with r :: _ => fst r | [] => 0 end.
Definition or1 (i : nat) : nat := if Nat.even i then S i else i.        (* i | 1 *)

Definition contains_val_bs (l : list range) (x : N) : bool :=
  match l, last_end l with
  | _ :: _, Some e =>
      if (x <? first_start l) || (e <=? x) then false
      else match bsearch (flat l) x with BOk i => Nat.even i | BErr i => Nat.odd i end
  | _, _ => false
  end.

Definition contains_range_bs (l : list range) (a b : N) : bool :=
  match l, last_end l with
  | _ :: _, Some e =>
      if (b <=? first_start l) || (e <=? a) then false
      else match bsearch (flat l) a with
           | BOk i => Nat.even i && (b <=? nth (or1 i) (flat l) 0)
           | BErr i => Nat.odd i && (b <=? nth i (flat l) 0)
           end
  | _, _ => false
  end.

Definition intersects_range_bs (l : list range) (a b : N) : bool :=
  match l, last_end l with
  | _ :: _, Some e =>
      if (b <=? first_start l) || (e <=? a) then false
      else let f := flat l in
           match bsearch f a with
           | BOk i => Nat.even i || ((S i <? length f)%nat && (nth (S i) f 0 <? b))
           | BErr i => Nat.odd i || ((i <? length f)%nat && (nth i f 0 <? b))
           end
  | _, _ => false
  end.

(** ---------- rank / membership in the flat array of a canonical list ---------- *)
Lemma rank_cons y l x : rank (y :: l) x = ((if (y <? x)%N then 1 else 0) + rank l x)%nat.
Proof. unfold rank. cbn [filter]. destruct (y <? x); reflexivity. Qed.

Lemma flat_above lo t : chain lo t -> forall y, In y (flat t) -> lo < y.
Proof.
  revert lo. induction t as [|r t IH]; intros lo Hc y Hy; [destruct Hy|].
  cbn [chain] in Hc. destruct Hc as (H1 & H2 & H3). cbn [flat] in Hy.
  destruct Hy as [<-|[<-|Hy]]; [lia|lia|]. specialize (IH _ H3 y Hy). lia.
Qed.

Lemma rank_zero_below lo t x : chain lo t -> x <= lo -> rank (flat t) x = 0%nat /\ mem (flat t) x = false.
Proof.
  intros Hc Hx. pose proof (flat_above lo t Hc) as Ha. split.
  - unfold rank. induction (flat t) as [|y f IH]; [reflexivity|]. cbn [filter].
    destruct (N.ltb_spec y x) as [C|C]; [specialize (Ha y (or_introl eq_refl)); lia|]. apply IH. intros z Hz. apply Ha. right. exact Hz.
  - unfold mem. destruct (existsb (N.eqb x) (flat t)) eqn:E; [|reflexivity].
    apply existsb_exists in E. destruct E as [y [Hy Ey]]. apply N.eqb_eq in Ey. subst. specialize (Ha y Hy). lia.
Qed.

(** the parity of the rank and the membership decide coverage *)
Lemma rank_parity : forall l lo x, chain lo l ->
  (covb l x = true -> (mem (flat l) x = true -> Nat.even (rank (flat l) x) = true) /\
                      (mem (flat l) x = false -> Nat.odd (rank (flat l) x) = true)) /\
  (covb l x = false -> (mem (flat l) x = true -> Nat.odd (rank (flat l) x) = true) /\
                       (mem (flat l) x = false -> Nat.even (rank (flat l) x) = true)).
Proof.
  induction l as [|[s e] t IH]; intros lo x Hc.
  - cbn. split; [discriminate|]. intros _. split; [discriminate|reflexivity].
  - cbn [chain fst snd] in Hc. destruct Hc as (H1 & H2 & H3).
    cbn [flat fst snd covb]. rewrite !rank_cons. unfold inrb. cbn [fst snd].
    unfold mem. cbn [existsb]. fold (mem (flat t) x).
    destruct (N.lt_trichotomy x s) as [L|[L|L]].
    + (* x < s *)
      destruct (rank_zero_below e t x H3 ltac:(lia)) as [R M]. rewrite R, M.
      assert (Cv : covb t x = false).
      { destruct (covb t x) eqn:E; [|reflexivity]. apply covb_spec in E. pose proof (chain_cov_gt _ _ _ H3 E). lia. }
      rewrite Cv. destruct (N.leb_spec s x); [lia|]. destruct (N.ltb_spec s x); [lia|]. destruct (N.ltb_spec e x); [lia|].
      destruct (N.eqb_spec x s); [lia|]. destruct (N.eqb_spec x e); [lia|]. cbn. split; [discriminate|]. intros _. split; [discriminate|reflexivity].
    + (* x = s *)
      subst x. destruct (rank_zero_below e t s H3 ltac:(lia)) as [R M]. rewrite R, M.
      destruct (N.leb_spec s s); [|lia]. destruct (N.ltb_spec s e); [|lia]. destruct (N.ltb_spec s s); [lia|]. destruct (N.ltb_spec e s); [lia|].
      rewrite N.eqb_refl. cbn. split; [intros _; split; [reflexivity|discriminate]|discriminate].
    + destruct (N.lt_trichotomy x e) as [L2|[L2|L2]].
      * (* s < x < e *)
        destruct (rank_zero_below e t x H3 ltac:(lia)) as [R M]. rewrite R, M.
        destruct (N.leb_spec s x); [|lia]. destruct (N.ltb_spec x e); [|lia]. destruct (N.ltb_spec s x); [|lia]. destruct (N.ltb_spec e x); [lia|].
        destruct (N.eqb_spec x s); [lia|]. destruct (N.eqb_spec x e); [lia|]. cbn. split; [intros _; split; [discriminate|reflexivity]|discriminate].
      * (* x = e *)
        subst x. destruct (rank_zero_below e t e H3 ltac:(lia)) as [R M]. rewrite R, M.
        assert (Cv : covb t e = false).
        { destruct (covb t e) eqn:E; [|reflexivity]. apply covb_spec in E. pose proof (chain_cov_gt _ _ _ H3 E). lia. }
        rewrite Cv. destruct (N.leb_spec s e); [|lia]. destruct (N.ltb_spec e e); [lia|]. destruct (N.ltb_spec s e); [|lia].
        destruct (N.eqb_spec e s); [lia|]. rewrite N.eqb_refl. cbn. split; [discriminate|]. intros _. split; [reflexivity|discriminate].
      * (* e < x *)
        specialize (IH e x H3).
        destruct (N.leb_spec s x); [|lia]. destruct (N.ltb_spec x e); [lia|]. destruct (N.ltb_spec s x); [|lia]. destruct (N.ltb_spec e x); [|lia].
        destruct (N.eqb_spec x s); [lia|]. destruct (N.eqb_spec x e); [lia|]. cbn [andb orb].
        replace (1 + (1 + rank (flat t) x))%nat with (S (S (rank (flat t) x))) by lia.
        rewrite Nat.even_succ_succ, Nat.odd_succ_succ. exact IH.
Qed.

Lemma first_start_le l x : Canon l -> cov l x -> first_start l <= x.
Proof. destruct l as [|r t]; intros Hc Hx; [destruct (cov_nil _ Hx)|]. cbn. apply (sorted_head_ge r t 0 x Hc Hx). Qed.

Lemma last_end_cons : forall t r, exists e, last_end (r :: t) = Some e.
Proof.
  induction t as [|b t IH]; intros r; [exists (snd r); reflexivity|].
  destruct (IH b) as [e He]. exists e. exact He.
Qed.

Theorem contains_val_bs_spec l x : Canon l -> contains_val_bs l x = contains_val l x.
Proof.
  intros Hc. unfold contains_val_bs, contains_val. destruct l as [|r t]; [reflexivity|].
  destruct (last_end_cons t r) as [e Le]. rewrite Le.
  destruct (N.ltb_spec x (first_start (r :: t))) as [C1|C1]; cbn [orb].
  { destruct (covb (r :: t) x) eqn:E; [|reflexivity]. apply covb_spec in E. pose proof (first_start_le _ _ Hc E). lia. }
  destruct (N.leb_spec e x) as [C2|C2].
  { destruct (covb (r :: t) x) eqn:E; [|reflexivity]. apply covb_spec in E. pose proof (last_end_bound _ _ _ Hc Le x E). lia. }
  assert (Hch : chain 0 (r :: t) \/ fst r = 0).
  { cbn [Canon sorted_from] in Hc. destruct Hc as (H1 & H2 & H3). destruct (N.eq_dec (fst r) 0); [right; assumption|left; cbn [chain]; repeat split; [lia|assumption|assumption]]. }
  (* use rank_parity with a lower bound strictly below the first start, or handle start = 0 *)
  assert (RP := fun lo (H : chain lo (r :: t)) => rank_parity (r :: t) lo x H).
  assert (HP : (covb (r :: t) x = true -> (mem (flat (r :: t)) x = true -> Nat.even (rank (flat (r :: t)) x) = true) /\
                      (mem (flat (r :: t)) x = false -> Nat.odd (rank (flat (r :: t)) x) = true)) /\
               (covb (r :: t) x = false -> (mem (flat (r :: t)) x = true -> Nat.odd (rank (flat (r :: t)) x) = true) /\
                       (mem (flat (r :: t)) x = false -> Nat.even (rank (flat (r :: t)) x) = true))).
  { destruct Hch as [H|H]; [exact (RP 0 H)|].
    (* first start = 0: shift everything by one to get a strict lower bound is not possible in N;
       instead split the first range by hand *)
    destruct r as [s e0]. cbn [fst] in H. subst s. cbn [Canon sorted_from fst snd] in Hc. destruct Hc as (_ & H2 & H3).
    pose proof (rank_parity t e0 x H3) as IHt.
    cbn [flat fst snd covb]. rewrite !rank_cons. unfold inrb. cbn [fst snd]. unfold mem. cbn [existsb]. fold (mem (flat t) x).
    destruct (N.lt_trichotomy x e0) as [L|[L|L]].
    - destruct (rank_zero_below e0 t x H3 ltac:(lia)) as [R M]. rewrite R, M.
      destruct (N.eq_dec x 0) as [->|Hx0].
      + destruct (N.leb_spec 0 0); [|lia]. destruct (N.ltb_spec 0 e0); [|lia]. destruct (N.ltb_spec 0 0); [lia|]. destruct (N.ltb_spec e0 0); [lia|].
        cbn. split; [intros _; split; [reflexivity|discriminate]|discriminate].
      + destruct (N.leb_spec 0 x); [|lia]. destruct (N.ltb_spec x e0); [|lia]. destruct (N.ltb_spec 0 x); [|lia]. destruct (N.ltb_spec e0 x); [lia|].
        destruct (N.eqb_spec x 0); [lia|]. destruct (N.eqb_spec x e0); [lia|]. cbn. split; [intros _; split; [discriminate|reflexivity]|discriminate].
    - subst x. destruct (rank_zero_below e0 t e0 H3 ltac:(lia)) as [R M]. rewrite R, M.
      assert (Cv : covb t e0 = false).
      { destruct (covb t e0) eqn:E; [|reflexivity]. apply covb_spec in E. pose proof (chain_cov_gt _ _ _ H3 E). lia. }
      rewrite Cv. destruct (N.leb_spec 0 e0); [|lia]. destruct (N.ltb_spec e0 e0); [lia|]. destruct (N.ltb_spec 0 e0); [|lia].
      destruct (N.eqb_spec e0 0); [lia|]. rewrite N.eqb_refl. cbn. split; [discriminate|]. intros _. split; [reflexivity|discriminate].
    - destruct (N.leb_spec 0 x); [|lia]. destruct (N.ltb_spec x e0); [lia|]. destruct (N.ltb_spec 0 x); [|lia]. destruct (N.ltb_spec e0 x); [|lia].
      destruct (N.eqb_spec x 0); [lia|]. destruct (N.eqb_spec x e0); [lia|]. cbn [andb orb].
      replace (1 + (1 + rank (flat t) x))%nat with (S (S (rank (flat t) x))) by lia.
      rewrite Nat.even_succ_succ, Nat.odd_succ_succ. exact IHt. }
  unfold bsearch. destruct HP as [P1 P2].
  destruct (covb (r :: t) x) eqn:Cv; destruct (mem (flat (r :: t)) x) eqn:M.
  - apply (proj1 (P1 eq_refl) eq_refl).
  - apply (proj2 (P1 eq_refl) eq_refl).
  - pose proof (proj1 (P2 eq_refl) eq_refl) as E. rewrite <- Nat.negb_odd. rewrite E. reflexivity.
  - pose proof (proj2 (P2 eq_refl) eq_refl) as E. rewrite <- Nat.negb_even. rewrite E. reflexivity.
Qed.

(** ---------- contains_range ---------- *)
Lemma flat_ge lo t : sorted_from lo t -> forall y, In y (flat t) -> lo <= y.
Proof.
  destruct t as [|r t]; intros Hs y Hy; [destruct Hy|]. cbn [sorted_from] in Hs. destruct Hs as (H1 & H2 & H3).
  cbn [flat] in Hy. destruct Hy as [<-|[<-|Hy]]; [lia|lia|]. pose proof (flat_above _ _ H3 y Hy). lia.
Qed.

Lemma rank_zero_sorted lo t x : sorted_from lo t -> x < lo -> rank (flat t) x = 0%nat /\ mem (flat t) x = false.
Proof.
  intros Hs Hx. pose proof (flat_ge lo t Hs) as Ha. split.
  - unfold rank. induction (flat t) as [|y f IH]; [reflexivity|]. cbn [filter].
    destruct (N.ltb_spec y x) as [C|C]; [specialize (Ha y (or_introl eq_refl)); lia|]. apply IH. intros z Hz. apply Ha. right. exact Hz.
  - unfold mem. destruct (existsb (N.eqb x) (flat t)) eqn:E; [|reflexivity].
    apply existsb_exists in E. destruct E as [y [Hy Ey]]. apply N.eqb_eq in Ey. subst. specialize (Ha y Hy). lia.
Qed.

Lemma or1_SS k : or1 (S (S k)) = S (S (or1 k)).
Proof. unfold or1. rewrite Nat.even_succ_succ. destruct (Nat.even k); reflexivity. Qed.

(** the bound found next to the rank of a covered value is the END of the range covering it *)
Lemma nth_or1_rank : forall l lo a s e, sorted_from lo l -> In (s, e) l -> s <= a < e ->
  nth (or1 (rank (flat l) a)) (flat l) 0 = e.
Proof.
  induction l as [|[s0 e0] t IH]; intros lo a s e Hs Hin Ha; [destruct Hin|].
  cbn [sorted_from fst snd] in Hs. destruct Hs as (H1 & H2 & H3).
  assert (H3' : sorted_from (e0 + 1) t) by (apply chain_sorted_succ; exact H3).
  cbn [flat fst snd]. rewrite !rank_cons. destruct Hin as [E|Hin].
  - inversion E; subst s0 e0. destruct (rank_zero_sorted (e + 1) t a H3' ltac:(lia)) as [R _]. rewrite R.
    destruct (N.ltb_spec e a); [lia|]. destruct (N.ltb_spec s a); reflexivity.
  - assert (Hse : e0 < s).
    { pose proof (flat_ge (e0 + 1) t H3' s) as G. assert (In s (flat t)); [|specialize (G H); lia].
      clear - Hin. induction t as [|r t IH]; [destruct Hin|]. cbn [flat]. destruct Hin as [->|Hin]; [left; reflexivity|right; right; apply IH; exact Hin]. }
    destruct (N.ltb_spec s0 a); [|lia]. destruct (N.ltb_spec e0 a); [|lia].
    replace (1 + (1 + rank (flat t) a))%nat with (S (S (rank (flat t) a))) by lia.
    rewrite or1_SS. cbn [nth]. apply (IH (e0 + 1) a s e H3' Hin Ha).
Qed.

Lemma filter_all_length {A} (p : A -> bool) f : (forall y, In y f -> p y = true) -> length (filter p f) = length f.
Proof.
  induction f as [|y f IH]; intros H; [reflexivity|]. cbn [filter]. rewrite (H y (or_introl eq_refl)). cbn [length].
  rewrite IH; [reflexivity|]. intros z Hz. apply H. right. exact Hz.
Qed.

Lemma covered_parity l x : Canon l ->
  covb l x = (if mem (flat l) x then Nat.even (rank (flat l) x) else Nat.odd (rank (flat l) x)).
Proof.
  intros Hc. destruct l as [|r t]; [reflexivity|].
  pose proof (contains_val_bs_spec (r :: t) x Hc) as E. unfold contains_val_bs, contains_val, bsearch in E.
  destruct (last_end_cons t r) as [e Le]. rewrite Le in E.
  destruct (N.ltb_spec x (first_start (r :: t))) as [C1|C1]; cbn [orb] in E.
  { (* below the first start: rank 0, not a member, not covered *)
    rewrite <- E. destruct (rank_zero_sorted (first_start (r :: t)) (r :: t) x) as [R M]; [|exact C1|rewrite R, M; reflexivity].
    cbn [first_start Canon sorted_from] in *. destruct Hc as (_ & H2 & H3). repeat split; [lia|assumption|assumption]. }
  destruct (N.leb_spec e x) as [C2|C2].
  { (* at or above the last end: every bound is <= x *)
    rewrite <- E.
    assert (ALL : forall y, In y (flat (r :: t)) -> y <= e).
    { clear - Hc Le. revert r e Hc Le. induction t as [|b t IH]; intros r e Hc Le y Hy.
      - cbn in Le. inversion Le; subst. cbn [Canon sorted_from] in Hc. destruct Hc as (_ & H2 & _). cbn [flat] in Hy.
        destruct Hy as [<-|[<-|[]]]; lia.
      - change (last_end (r :: b :: t)) with (last_end (b :: t)) in Le.
        cbn [Canon sorted_from] in Hc. destruct Hc as (_ & H2 & H3).
        assert (Hb : Canon (b :: t)) by (apply (chain_tail_canon _ _ H3)).
        cbn [flat] in Hy. destruct Hy as [<-|[<-|Hy]].
        + pose proof (IH b e Hb Le (fst b) (or_introl eq_refl)). cbn [chain] in H3. lia.
        + pose proof (IH b e Hb Le (fst b) (or_introl eq_refl)). cbn [chain] in H3. lia.
        + apply (IH b e Hb Le y Hy). }
    (* parity: all 2n bounds are <= x; if x is a member it is the last end (rank 2n-1, odd), else rank 2n (even) *)
    assert (LEN : exists n, length (flat (r :: t)) = (2 * n)%nat /\ (0 < n)%nat).
    { exists (length (r :: t)). split; [|cbn; lia]. clear. induction (r :: t) as [|a l IH]; [reflexivity|]. cbn [flat length]. rewrite IH. lia. }
    destruct LEN as (n & Ln & Hn).
    destruct (mem (flat (r :: t)) x) eqn:M.
    - (* x = e (the only bound >= e) : all other bounds are < x *)
      assert (x = e).
      { unfold mem in M. apply existsb_exists in M. destruct M as [y [Hy Ey]]. apply N.eqb_eq in Ey. subst y. specialize (ALL x Hy). lia. }
      subst x.
      (* strictly increasing flat list: exactly one element equals e, the others are smaller *)
      assert (RK : S (rank (flat (r :: t)) e) = length (flat (r :: t))).
      { clear - Hc Le. revert r e Hc Le. induction t as [|b t IH]; intros r e Hc Le.
        - cbn in Le. inversion Le; subst. cbn [Canon sorted_from] in Hc. destruct Hc as (_ & H2 & _). cbn [flat]. rewrite !rank_cons.
          destruct (N.ltb_spec (fst r) (snd r)); [|lia]. destruct (N.ltb_spec (snd r) (snd r)); [lia|]. reflexivity.
        - change (last_end (r :: b :: t)) with (last_end (b :: t)) in Le.
          cbn [Canon sorted_from] in Hc. destruct Hc as (_ & H2 & H3).
          assert (Hb : Canon (b :: t)) by (apply (chain_tail_canon _ _ H3)).
          specialize (IH b e Hb Le). cbn [flat] in IH |- *. rewrite !rank_cons in *.
          assert (fst b < e).
          { pose proof (last_end_bound _ _ _ Hb Le (fst b)) as B. apply B. apply cov_cons. left. cbn [Canon sorted_from] in Hb. unfold inr. lia. }
          cbn [chain] in H3. destruct (N.ltb_spec (fst r) e); [|lia]. destruct (N.ltb_spec (snd r) e); [|lia]. cbn [length] in *. lia. }
      rewrite Ln in RK. replace (rank (flat (r :: t)) e) with (S (2 * (n - 1)))%nat by lia.
      rewrite Nat.even_succ, Nat.odd_mul, andb_false_l. reflexivity.
    - assert (RK : rank (flat (r :: t)) x = length (flat (r :: t))).
      { unfold rank. assert (F : forall y, In y (flat (r :: t)) -> (y <? x) = true).
        { intros y Hy. apply N.ltb_lt. specialize (ALL y Hy).
          destruct (N.eq_dec y x) as [->|Hne]; [|lia]. exfalso.
          assert (X : mem (flat (r :: t)) x = true); [|congruence]. unfold mem. apply existsb_exists. exists x. split; [exact Hy|apply N.eqb_refl]. }
        apply filter_all_length. exact F. }
      rewrite RK, Ln. rewrite Nat.odd_mul. reflexivity. }
  rewrite <- E. destruct (mem (flat (r :: t)) x); reflexivity.
Qed.

Theorem contains_range_bs_spec l a b : Canon l -> a < b -> contains_range_bs l a b = contains_range l a b.
Proof.
  intros Hc Hab. unfold contains_range_bs. destruct l as [|r t]; [reflexivity|].
  destruct (last_end_cons t r) as [e Le]. rewrite Le.
  assert (SPEC : contains_range (r :: t) a b = true <-> exists s' e', In (s', e') (r :: t) /\ s' <= a /\ b <= e').
  { unfold contains_range. rewrite existsb_exists. split.
    - intros [[s' e'] [Hin H]]. apply andb_true_iff in H. destruct H as [H1 H2]. apply N.leb_le in H1, H2. exists s', e'. tauto.
    - intros (s' & e' & Hin & H1 & H2). exists (s', e'). split; [exact Hin|]. apply andb_true_iff. split; apply N.leb_le; assumption. }
  destruct (N.leb_spec b (first_start (r :: t))) as [C1|C1]; cbn [orb].
  { symmetry. destruct (contains_range (r :: t) a b) eqn:E; [|reflexivity]. exfalso.
    destruct (proj1 SPEC eq_refl) as (s' & e' & Hin & H1 & H2).
    assert (cov (r :: t) a) by (exists (s', e'); split; [exact Hin|unfold inr; cbn; lia]).
    pose proof (first_start_le _ _ Hc H). lia. }
  destruct (N.leb_spec e a) as [C2|C2].
  { symmetry. destruct (contains_range (r :: t) a b) eqn:E; [|reflexivity]. exfalso.
    destruct (proj1 SPEC eq_refl) as (s' & e' & Hin & H1 & H2).
    assert (H : cov (r :: t) a) by (exists (s', e'); split; [exact Hin|unfold inr; cbn; lia]).
    pose proof (last_end_bound _ _ _ Hc Le a H). lia. }
  pose proof (covered_parity (r :: t) a Hc) as CP. unfold bsearch.
  (* both branches: "a is covered" && b <= end of the covering range *)
  assert (GOAL : (covb (r :: t) a && (b <=? nth (or1 (rank (flat (r :: t)) a)) (flat (r :: t)) 0)) = contains_range (r :: t) a b).
  { destruct (covb (r :: t) a) eqn:Cv; cbn [andb].
    - apply covb_spec in Cv. destruct Cv as [[s' e'] [Hin Hr]]. unfold inr in Hr. cbn [fst snd] in Hr.
      rewrite (nth_or1_rank (r :: t) 0 a s' e' Hc Hin Hr).
      destruct (N.leb_spec b e') as [L|L].
      + symmetry. apply SPEC. exists s', e'. repeat split; [exact Hin|lia|exact L].
      + symmetry. destruct (contains_range (r :: t) a b) eqn:E; [|reflexivity]. exfalso.
        destruct (proj1 SPEC eq_refl) as (s2 & e2 & Hin2 & H1 & H2).
        destruct (canon_separated (r :: t) 0 Hc (s', e') (s2, e2) Hin Hin2) as [E2|[E2|E2]]; cbn [fst snd] in E2; [inversion E2; subst; lia|lia|lia].
    - symmetry. destruct (contains_range (r :: t) a b) eqn:E; [|reflexivity]. exfalso.
      destruct (proj1 SPEC eq_refl) as (s2 & e2 & Hin2 & H1 & H2).
      assert (X : covb (r :: t) a = true); [|congruence]. apply covb_spec. exists (s2, e2). split; [exact Hin2|unfold inr; cbn; lia]. }
  rewrite <- GOAL, CP. destruct (mem (flat (r :: t)) a) eqn:M; [reflexivity|].
  destruct (Nat.odd (rank (flat (r :: t)) a)) eqn:O; [|reflexivity]. cbn [andb].
  unfold or1. rewrite <- Nat.negb_odd, O. reflexivity.
Qed.

(** ---------- intersects_range ---------- *)
(** for an UNCOVERED value: the bound found after it in the flat array is the start of the first
    range lying after it (or there is none) *)
Lemma next_start_spec : forall l lo a, sorted_from lo l -> covb l a = false ->
  let k := if mem (flat l) a then S (rank (flat l) a) else rank (flat l) a in
  match nth_error (flat l) k with
  | Some s' => (exists e', In (s', e') l /\ a < s') /\ (forall r, In r l -> a < snd r -> s' <= fst r)
  | None => forall r, In r l -> snd r <= a
  end.
Proof.
  induction l as [|[s0 e0] t IH]; intros lo a Hs Hc; [cbn; intros r []|].
  cbn [sorted_from fst snd] in Hs. destruct Hs as (H1 & H2 & H3).
  assert (H3' : sorted_from (e0 + 1) t) by (apply chain_sorted_succ; exact H3).
  cbn [covb] in Hc. apply orb_false_iff in Hc. destruct Hc as [Hc0 Hct]. unfold inrb in Hc0. cbn [fst snd] in Hc0.
  cbn [flat fst snd]. cbv zeta. unfold mem. cbn [existsb]. fold (mem (flat t) a). rewrite !rank_cons.
  assert (AFTER : forall r, In r t -> e0 < fst r /\ fst r < snd r).
  { intros r Hr. pose proof (chain_in_gt t e0 r H3 Hr). tauto. }
  destruct (N.lt_ge_cases a s0) as [L|L].
  - (* before the first range *)
    destruct (rank_zero_sorted (e0 + 1) t a H3' ltac:(lia)) as [R M]. rewrite R, M.
    destruct (N.ltb_spec s0 a); [lia|]. destruct (N.ltb_spec e0 a); [lia|].
    destruct (N.eqb_spec a s0); [lia|]. destruct (N.eqb_spec a e0); [lia|]. cbn.
    split; [exists e0; split; [left; reflexivity|exact L]|]. intros r [<-|Hr] _; [cbn; lia|]. destruct (AFTER r Hr). cbn. lia.
  - (* not covered by (s0, e0) and a >= s0: a >= e0 *)
    assert (Le0 : e0 <= a).
    { apply andb_false_iff in Hc0. destruct Hc0 as [C|C]; [apply N.leb_gt in C; lia|apply N.ltb_ge in C; exact C]. }
    destruct (N.eq_dec a e0) as [->|Hne].
    + destruct (rank_zero_sorted (e0 + 1) t e0 H3' ltac:(lia)) as [R M]. rewrite R, M.
      destruct (N.ltb_spec s0 e0); [|lia]. destruct (N.ltb_spec e0 e0); [lia|].
      destruct (N.eqb_spec e0 s0); [lia|]. rewrite N.eqb_refl. cbn [orb plus nth_error].
      destruct t as [|[s1 e1] t'].
      * cbn. intros r [<-|[]]. cbn. lia.
      * cbn [flat fst snd nth_error]. split.
        -- exists e1. split; [right; left; reflexivity|]. destruct (AFTER (s1, e1) (or_introl eq_refl)). cbn in *. lia.
        -- intros r [<-|[<-|Hr]] Hr2; cbn [fst snd] in *; [lia|lia|].
           cbn [chain fst snd] in H3. destruct H3 as (_ & S1E1 & H4). pose proof (chain_in_gt t' e1 r H4 Hr). lia.
    + specialize (IH (e0 + 1) a H3' Hct). cbv zeta in IH.
      destruct (N.ltb_spec s0 a); [|lia]. destruct (N.ltb_spec e0 a); [|lia].
      destruct (N.eqb_spec a s0); [lia|]. destruct (N.eqb_spec a e0); [lia|]. cbn [orb].
      replace (1 + (1 + rank (flat t) a))%nat with (S (S (rank (flat t) a))) by lia.
      assert (EK : (if mem (flat t) a then S (S (S (rank (flat t) a))) else S (S (rank (flat t) a)))
                   = S (S (if mem (flat t) a then S (rank (flat t) a) else rank (flat t) a))) by (destruct (mem (flat t) a); reflexivity).
      rewrite EK. cbn [nth_error].
      remember (if mem (flat t) a then S (rank (flat t) a) else rank (flat t) a) as kt eqn:Dk. clear Dk EK.
      revert IH. destruct (nth_error (flat t) kt) as [s'|]; intros IH.
      * destruct IH as [[e' [Hin Ha]] Hmin]. split; [exists e'; split; [right; exact Hin|exact Ha]|].
        intros r [<-|Hr] Hr2; [cbn in Hr2; lia|apply Hmin; assumption].
      * intros r [<-|Hr]; [cbn; lia|apply IH; exact Hr].
Qed.

Theorem intersects_range_bs_spec l a b : Canon l -> a < b -> intersects_range_bs l a b = intersects_range l a b.
Proof.
  intros Hc Hab. unfold intersects_range_bs. destruct l as [|r t]; [reflexivity|].
  destruct (last_end_cons t r) as [e Le]. rewrite Le.
  assert (SPEC : forall v, intersects_range (r :: t) a b = v ->
            (v = true <-> exists s' e', In (s', e') (r :: t) /\ s' < b /\ a < e')).
  { intros v <-. unfold intersects_range. rewrite existsb_exists. split.
    - intros [[s' e'] [Hin H]]. apply andb_true_iff in H. destruct H as [H1 H2]. apply N.ltb_lt in H1, H2. exists s', e'. tauto.
    - intros (s' & e' & Hin & H1 & H2). exists (s', e'). split; [exact Hin|]. apply andb_true_iff. split; apply N.ltb_lt; assumption. }
  destruct (intersects_range (r :: t) a b) eqn:SP; specialize (SPEC _ eq_refl).
  - (* the specification says true *)
    destruct (proj1 SPEC eq_refl) as (s' & e' & Hin & H1 & H2).
    assert (Hn : fst (s', e') < snd (s', e')) by (apply (canon_in_nonempty (r :: t) 0 _ Hc Hin)). cbn in Hn.
    destruct (N.leb_spec b (first_start (r :: t))) as [C1|C1]; cbn [orb].
    { exfalso. assert (Hs : cov (r :: t) s') by (exists (s', e'); split; [exact Hin|unfold inr; cbn; lia]).
      pose proof (first_start_le _ _ Hc Hs). lia. }
    destruct (N.leb_spec e a) as [C2|C2].
    { exfalso. assert (Hs : cov (r :: t) s') by (exists (s', e'); split; [exact Hin|unfold inr; cbn; lia]).
      assert (He : cov (r :: t) (N.max a s')); [|pose proof (last_end_bound _ _ _ Hc Le _ He); lia].
      exists (s', e'). split; [exact Hin|unfold inr; cbn; lia]. }
    pose proof (covered_parity (r :: t) a Hc) as CP. unfold bsearch.
    destruct (covb (r :: t) a) eqn:Cv.
    + destruct (mem (flat (r :: t)) a); rewrite <- CP; reflexivity.
    + pose proof (next_start_spec (r :: t) 0 a Hc Cv) as NS. cbv zeta in NS.
      (* the witness range lies after a: its start is >= the next start, which is < b *)
      assert (Has : a < s').
      { destruct (N.lt_ge_cases a s') as [L|L]; [exact L|exfalso].
        assert (X : covb (r :: t) a = true); [|congruence]. apply covb_spec. exists (s', e'). split; [exact Hin|unfold inr; cbn; lia]. }
      destruct (mem (flat (r :: t)) a) eqn:M; rewrite <- CP; cbn [orb].
      * destruct (nth_error (flat (r :: t)) (S (rank (flat (r :: t)) a))) as [s2|] eqn:N2.
        -- destruct NS as [_ Hmin]. pose proof (Hmin (s', e') Hin ltac:(cbn; lia)) as Hle. cbn in Hle.
           assert (Hlen : (S (rank (flat (r :: t)) a) < length (flat (r :: t)))%nat) by (apply nth_error_Some; congruence).
           apply Nat.ltb_lt in Hlen. rewrite Hlen. cbn [andb]. rewrite (nth_error_nth _ _ 0 N2). apply N.ltb_lt. lia.
        -- specialize (NS (s', e') Hin). cbn in NS. lia.
      * destruct (nth_error (flat (r :: t)) (rank (flat (r :: t)) a)) as [s2|] eqn:N2.
        -- destruct NS as [_ Hmin]. pose proof (Hmin (s', e') Hin ltac:(cbn; lia)) as Hle. cbn in Hle.
           assert (Hlen : (rank (flat (r :: t)) a < length (flat (r :: t)))%nat) by (apply nth_error_Some; congruence).
           apply Nat.ltb_lt in Hlen. rewrite Hlen. cbn [andb]. rewrite (nth_error_nth _ _ 0 N2). apply N.ltb_lt. lia.
        -- specialize (NS (s', e') Hin). cbn in NS. lia.
  - (* the specification says false *)
    assert (NO : forall s' e', In (s', e') (r :: t) -> s' < b -> a < e' -> False).
    { intros s' e' Hin H1 H2. assert (X : false = true); [|discriminate]. apply SPEC. exists s', e'. tauto. }
    destruct (N.leb_spec b (first_start (r :: t))) as [C1|C1]; cbn [orb]; [reflexivity|].
    destruct (N.leb_spec e a) as [C2|C2]; [reflexivity|].
    pose proof (covered_parity (r :: t) a Hc) as CP. unfold bsearch.
    destruct (covb (r :: t) a) eqn:Cv.
    + exfalso. apply covb_spec in Cv. destruct Cv as [[s' e'] [Hin Hr]]. unfold inr in Hr. cbn in Hr. apply (NO s' e' Hin); lia.
    + pose proof (next_start_spec (r :: t) 0 a Hc Cv) as NS. cbv zeta in NS.
      destruct (mem (flat (r :: t)) a) eqn:M; rewrite <- CP; cbn [orb].
      * destruct (nth_error (flat (r :: t)) (S (rank (flat (r :: t)) a))) as [s2|] eqn:N2.
        -- destruct NS as [[e2 [Hin2 Ha2]] _].
           assert (Hn : fst (s2, e2) < snd (s2, e2)) by (apply (canon_in_nonempty (r :: t) 0 _ Hc Hin2)). cbn in Hn.
           rewrite (nth_error_nth _ _ 0 N2).
           destruct (N.ltb_spec s2 b) as [L|L]; [exfalso; apply (NO s2 e2 Hin2); lia|]. apply andb_false_r.
        -- assert (Hlen : (length (flat (r :: t)) <= S (rank (flat (r :: t)) a))%nat) by (apply nth_error_None; exact N2).
           apply Nat.ltb_ge in Hlen. rewrite Hlen. reflexivity.
      * destruct (nth_error (flat (r :: t)) (rank (flat (r :: t)) a)) as [s2|] eqn:N2.
        -- destruct NS as [[e2 [Hin2 Ha2]] _].
           assert (Hn : fst (s2, e2) < snd (s2, e2)) by (apply (canon_in_nonempty (r :: t) 0 _ Hc Hin2)). cbn in Hn.
           rewrite (nth_error_nth _ _ 0 N2).
           destruct (N.ltb_spec s2 b) as [L|L]; [exfalso; apply (NO s2 e2 Hin2); lia|]. apply andb_false_r.
        -- assert (Hlen : (length (flat (r :: t)) <= rank (flat (r :: t)) a)%nat) by (apply nth_error_None; exact N2).
           apply Nat.ltb_ge in Hlen. rewrite Hlen. reflexivity.
Qed.
