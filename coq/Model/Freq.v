(** Model/Freq.v — (F) src/qty.rs Frequency::freq2hash / hash2freq on the 64-bit
    PATTERN of the double, with the masks, shifts and [lor] of the source; the index
    narrowing / widening of src/idx.rs (from_u64_idx / to_u64_idx); the cell a value is
    pushed into by RangeMOC::from_freq_in_hz / from_microsec_since_jd0 and the range
    pushed by from_freq_ranges_in_hz / from_microsec_ranges_since_jd0.

    The two float comparisons [FREQ_MIN <= freq] and [freq <= FREQ_MAX] are modelled on
    bit patterns: for EVERY one of the 2^64 patterns (negative numbers, NaNs, infinities
    and subnormals included) the IEEE-754 comparisons hold iff MIN_BITS <= b <= MAX_BITS
    (sign bit set => b >= 2^63 > MAX_BITS, NaN/inf => exponent field 2047 > 1184); the
    link "order of positive normal doubles = order of their patterns" is theorem
    [pattern_order_is_value_order] below, stated on the IEEE-754 value function.
    A Rust panic (assert!) is [None]. *)
From Coq Require Import List NArith Lia Bool.
From MOC.Base Require Import RangeSet.
From MOC.Model Require Import Qty Build.
Import ListNotations.
Open Scope N_scope.

Definition EXP_MASK : N := N.shiftl 2047 52.                     (* 0x7FF << 52 *)
Definition SIGN_MASK : N := N.shiftl 1 63.                       (* 0x8000000000000000 *)
Definition BUT_EXP_MASK : N := N.lxor (N.ones 64) EXP_MASK.      (* !F64_EXPONENT_BIT_MASK *)
Definition MIN_BITS : N := N.shiftl 929 52.                      (* FREQ_MIN.to_bits() *)
Definition MAX_BITS : N := N.lor (N.shiftl 1184 52) (N.ones 52). (* FREQ_MAX.to_bits() *)

Definition freq2hash (b : N) : option N :=
  if (MIN_BITS <=? b) && (b <=? MAX_BITS) then
    if negb (N.land b SIGN_MASK =? 0) then None
    else
      let e := N.shiftr (N.land b EXP_MASK) 52 in
      if (929 <=? e) && (e <=? 1184)
      then Some (N.lor (N.land b BUT_EXP_MASK) (N.shiftl (e - 929) 52))
      else None
  else None.

Definition hash2freq (h : N) : option N :=
  let e := N.shiftr (N.land h EXP_MASK) 52 in
  if e <=? 256 then Some (N.lor (N.land h BUT_EXP_MASK) (N.shiftl (e + 929) 52)) else None.

(** idx.rs: u64 "idx frame" <-> width w *)
Definition from_u64_idx (w x : N) : N := N.shiftr x (64 - w).
Definition to_u64_idx (w x : N) : N := N.shiftl x (64 - w).

(** the depth-d cell pushed for a value whose 64-bit index is [h] *)
Definition cell_of (q : qty) (w d h : N) : N := N.shiftr (from_u64_idx w h) (shift q w d).
(** the range pushed for the 64-bit index range [a, b) (upper bound rounded up) *)
Definition range_of (w : N) (r : range) : range :=
  (from_u64_idx w (fst r), from_u64_idx w (snd r - 1) + 1).

Definition moc_of_values (q : qty) (w d : N) (hs : list N) : list range :=
  build_cells q w d (map (cell_of q w d) hs).
Definition moc_of_ranges (q : qty) (w d : N) (rs : list range) : list range :=
  build_ranges q w d (map (range_of w) (filter (fun r => fst r <? snd r) rs)).

(** ---------- bit-level lemmas ---------- *)
Lemma land_shiftl_ones b k n :
  N.land b (N.shiftl (N.ones k) n) = N.shiftl (N.land (N.shiftr b n) (N.ones k)) n.
Proof.
  apply N.bits_inj. intros i. rewrite N.land_spec.
  destruct (N.lt_ge_cases i n) as [Hi|Hi].
  - rewrite !N.shiftl_spec_low by exact Hi. apply andb_false_r.
  - rewrite !N.shiftl_spec_high' by exact Hi. rewrite N.land_spec, N.shiftr_spec'.
    replace (i - n + n) with i by lia. reflexivity.
Qed.

Lemma land_field b k n : N.land b (N.shiftl (N.ones k) n) = (b / 2 ^ n) mod 2 ^ k * 2 ^ n.
Proof. rewrite land_shiftl_ones, N.land_ones, N.shiftr_div_pow2, N.shiftl_mul_pow2. reflexivity. Qed.

Lemma lor_disjoint m x n : m < 2 ^ n -> N.lor m (N.shiftl x n) = m + x * 2 ^ n.
Proof.
  intros Hm. rewrite <- N.shiftl_mul_pow2.
  assert (Z : N.land m (N.shiftl x n) = 0).
  { apply N.bits_inj. intros i. rewrite N.land_spec, N.bits_0.
    destruct (N.lt_ge_cases i n) as [Hi|Hi].
    - rewrite N.shiftl_spec_low by exact Hi. apply andb_false_r.
    - replace m with (m mod 2 ^ n) by (apply N.mod_small; exact Hm).
      rewrite N.mod_pow2_bits_high by exact Hi. reflexivity. }
  rewrite <- (N.lxor_lor _ _ Z). symmetry. apply N.add_nocarry_lxor. exact Z.
Qed.

Lemma exp_mask_eq : EXP_MASK = N.shiftl (N.ones 11) 52. Proof. reflexivity. Qed.
Lemma sign_mask_eq : SIGN_MASK = N.shiftl (N.ones 1) 63. Proof. reflexivity. Qed.
Lemma but_exp_mask_eq : BUT_EXP_MASK = N.lor (N.shiftl (N.ones 1) 63) (N.shiftl (N.ones 52) 0).
Proof. reflexivity. Qed.

Lemma land_exp b : b < 2 ^ 63 -> N.land b EXP_MASK = b / 2 ^ 52 * 2 ^ 52.
Proof.
  intros Hb. rewrite exp_mask_eq, land_field. f_equal. apply N.mod_small.
  apply N.div_lt_upper_bound; [apply N.pow_nonzero; lia|]. rewrite <- N.pow_add_r. exact Hb.
Qed.

Lemma land_sign b : b < 2 ^ 63 -> N.land b SIGN_MASK = 0.
Proof. intros Hb. rewrite sign_mask_eq, land_field, (N.div_small _ _ Hb). reflexivity. Qed.

Lemma land_but_exp b : b < 2 ^ 63 -> N.land b BUT_EXP_MASK = b mod 2 ^ 52.
Proof.
  intros Hb. rewrite but_exp_mask_eq, N.land_lor_distr_r, !land_field, (N.div_small _ _ Hb).
  rewrite N.pow_0_r, N.div_1_r, N.mul_1_r. reflexivity.
Qed.

Lemma shiftr_exp b : b < 2 ^ 63 -> N.shiftr (N.land b EXP_MASK) 52 = b / 2 ^ 52.
Proof.
  intros Hb. rewrite (land_exp _ Hb), N.shiftr_div_pow2. apply N.div_mul. apply N.pow_nonzero. lia.
Qed.

Definition BIAS : N := 929 * 2 ^ 52.

Lemma min_bits_eq : MIN_BITS = BIAS. Proof. reflexivity. Qed.
Lemma max_bits_eq : MAX_BITS = 1185 * 2 ^ 52 - 1. Proof. reflexivity. Qed.

Lemma pow52 : 2 ^ 52 = 4503599627370496. Proof. reflexivity. Qed.
Lemma pow63 : 2 ^ 63 = 9223372036854775808. Proof. reflexivity. Qed.

(** ---------- freq2hash is a translation by the exponent bias on the accepted interval ---------- *)
Theorem freq2hash_arith b : MIN_BITS <= b <= MAX_BITS -> freq2hash b = Some (b - BIAS).
Proof.
  intros [Hlo Hhi]. unfold freq2hash.
  destruct (N.leb_spec MIN_BITS b) as [_|C]; [|lia].
  destruct (N.leb_spec b MAX_BITS) as [_|C]; [|lia]. cbn [andb].
  rewrite min_bits_eq in Hlo. rewrite max_bits_eq in Hhi. unfold BIAS in *. rewrite pow52 in *.
  assert (Hb : b < 2 ^ 63) by (rewrite pow63; lia).
  rewrite (land_sign _ Hb). cbn [N.eqb negb].
  rewrite (shiftr_exp _ Hb), (land_but_exp _ Hb), pow52.
  assert (He : 929 <= b / 4503599627370496 <= 1184).
  { split; [apply N.div_le_lower_bound; lia|].
    assert (b / 4503599627370496 < 1185); [apply N.div_lt_upper_bound; lia|lia]. }
  destruct (N.leb_spec 929 (b / 4503599627370496)) as [_|C]; [|lia].
  destruct (N.leb_spec (b / 4503599627370496) 1184) as [_|C]; [|lia]. cbn [andb].
  f_equal. rewrite lor_disjoint by (rewrite pow52; apply N.mod_lt; lia). rewrite pow52.
  pose proof (N.div_mod b 4503599627370496 ltac:(lia)). lia.
Qed.

Theorem freq2hash_rejects b : ~ (MIN_BITS <= b <= MAX_BITS) -> freq2hash b = None.
Proof.
  intros H. unfold freq2hash.
  destruct (N.leb_spec MIN_BITS b); destruct (N.leb_spec b MAX_BITS); cbn [andb]; try reflexivity. lia.
Qed.

Theorem freq2hash_accepts_iff b : (exists h, freq2hash b = Some h) <-> MIN_BITS <= b <= MAX_BITS.
Proof.
  split.
  - intros [h Hh]. destruct (N.le_gt_cases MIN_BITS b); destruct (N.le_gt_cases b MAX_BITS); try lia;
      rewrite freq2hash_rejects in Hh by lia; discriminate.
  - intros H. eexists. apply freq2hash_arith. exact H.
Qed.

Theorem freq2hash_strictly_increasing b1 b2 h1 h2 :
  freq2hash b1 = Some h1 -> freq2hash b2 = Some h2 -> (b1 < b2 <-> h1 < h2).
Proof.
  intros H1 H2.
  assert (R1 : MIN_BITS <= b1 <= MAX_BITS) by (apply freq2hash_accepts_iff; eauto).
  assert (R2 : MIN_BITS <= b2 <= MAX_BITS) by (apply freq2hash_accepts_iff; eauto).
  rewrite (freq2hash_arith _ R1) in H1. rewrite (freq2hash_arith _ R2) in H2.
  inversion H1; inversion H2; subst. rewrite min_bits_eq in *. lia.
Qed.

Theorem freq2hash_in_domain b h : freq2hash b = Some h -> h < n_cells_max Freq 64.
Proof.
  intros H. assert (R : MIN_BITS <= b <= MAX_BITS) by (apply freq2hash_accepts_iff; eauto).
  rewrite (freq2hash_arith _ R) in H. inversion H; subst.
  rewrite max_bits_eq in R. unfold BIAS. rewrite pow52 in *.
  change (n_cells_max Freq 64) with 1152921504606846976. lia.
Qed.

(** ---------- hash2freq is the inverse translation on [0, 2^60] ---------- *)
Theorem hash2freq_arith h : h <= n_cells_max Freq 64 -> hash2freq h = Some (h + BIAS).
Proof.
  change (n_cells_max Freq 64) with 1152921504606846976. intros Hh. unfold hash2freq.
  assert (Hb : h < 2 ^ 63) by (rewrite pow63; lia).
  rewrite (shiftr_exp _ Hb), (land_but_exp _ Hb), pow52.
  assert (He : h / 4503599627370496 <= 256).
  { assert (h / 4503599627370496 < 257); [apply N.div_lt_upper_bound; lia|lia]. }
  destruct (N.leb_spec (h / 4503599627370496) 256) as [_|C]; [|lia].
  f_equal. rewrite lor_disjoint by (rewrite pow52; apply N.mod_lt; lia). unfold BIAS. rewrite pow52.
  pose proof (N.div_mod h 4503599627370496 ltac:(lia)). lia.
Qed.

Theorem hash2freq_freq2hash b h : freq2hash b = Some h -> hash2freq h = Some b.
Proof.
  intros H.
  assert (R : MIN_BITS <= b <= MAX_BITS) by (apply freq2hash_accepts_iff; eauto).
  rewrite (freq2hash_arith _ R) in H. inversion H; subst. clear H.
  rewrite min_bits_eq, max_bits_eq in R.
  rewrite hash2freq_arith.
  - f_equal. lia.
  - change (n_cells_max Freq 64) with 1152921504606846976. unfold BIAS in *. rewrite pow52 in *. lia.
Qed.

Theorem hash2freq_strictly_increasing h1 h2 b1 b2 :
  h1 <= n_cells_max Freq 64 -> h2 <= n_cells_max Freq 64 ->
  hash2freq h1 = Some b1 -> hash2freq h2 = Some b2 -> (h1 < h2 <-> b1 < b2).
Proof.
  intros D1 D2 H1 H2. rewrite hash2freq_arith in H1, H2 by assumption.
  inversion H1; inversion H2; subst. lia.
Qed.

(** ---------- IEEE-754: on normal positive doubles the order of the values is the order of
    the bit patterns.  [fval b] is the value of the double of pattern [b] multiplied by
    2^1075:  (1 + m / 2^52) * 2^(e - 1023) = (2^52 + m) * 2^e / 2^1075. ---------- *)
Definition fexp (b : N) : N := b / 2 ^ 52.
Definition fman (b : N) : N := b mod 2 ^ 52.
Definition fval (b : N) : N := (2 ^ 52 + fman b) * 2 ^ fexp b.

Theorem pattern_order_is_value_order b1 b2 : b1 < b2 <-> fval b1 < fval b2.
Proof.
  unfold fval, fexp, fman.
  pose proof (N.div_mod b1 (2 ^ 52) ltac:(apply N.pow_nonzero; lia)) as E1.
  pose proof (N.div_mod b2 (2 ^ 52) ltac:(apply N.pow_nonzero; lia)) as E2.
  pose proof (N.mod_lt b1 (2 ^ 52) ltac:(apply N.pow_nonzero; lia)) as M1.
  pose proof (N.mod_lt b2 (2 ^ 52) ltac:(apply N.pow_nonzero; lia)) as M2.
  set (e1 := b1 / 2 ^ 52) in *. set (e2 := b2 / 2 ^ 52) in *.
  set (m1 := b1 mod 2 ^ 52) in *. set (m2 := b2 mod 2 ^ 52) in *.
  set (P := 2 ^ 52) in *. assert (HP : 0 < P) by (apply pow2_pos).
  assert (K : forall ea ma eb mb, ma < P -> ea < eb -> (P + ma) * 2 ^ ea < (P + mb) * 2 ^ eb).
  { intros ea ma eb mb Hma Hlt.
    replace eb with (ea + 1 + (eb - ea - 1)) by lia. rewrite !N.pow_add_r, N.pow_1_r.
    assert (0 < 2 ^ ea) by apply pow2_pos. assert (1 <= 2 ^ (eb - ea - 1)) by (pose proof (pow2_pos (eb - ea - 1)); lia).
    nia. }
  destruct (N.lt_trichotomy e1 e2) as [L|[L|L]].
  - split; intros _; [apply K; assumption|nia].
  - rewrite L in *. assert (0 < 2 ^ e2) by apply pow2_pos. split; intros H0; nia.
  - pose proof (K e2 m2 e1 m1 M2 L). split; intros H0; [nia|lia].
Qed.

(** ---------- cells and ranges pushed by the builders: every width ---------- *)
Definition tf (q : qty) : Prop := q = Time \/ q = Freq.

Lemma shift_split q w d : tf q -> okw w -> d <= max_depth q w -> (64 - w) + shift q w d = shift q 64 d.
Proof.
  intros [->| ->] [->|[->| ->]]; unfold shift, max_depth; cbn [dim nres nd0bits];
    change ((16 - (2 + 1)) / 1) with 13; change ((32 - (2 + 1)) / 1) with 29; change ((64 - (2 + 1)) / 1) with 61;
    change ((16 - (4 + 1)) / 1) with 11; change ((32 - (4 + 1)) / 1) with 27; change ((64 - (4 + 1)) / 1) with 59;
    intros; lia.
Qed.

(** the cell pushed for a value is the depth-d cell that contains it in the 64-bit frame,
    whatever the index width *)
Theorem cell_of_is_containing_cell q w d h : tf q -> okw w -> d <= max_depth q w ->
  cell_of q w d h = h / 2 ^ shift q 64 d.
Proof.
  intros Hq Hw Hd. unfold cell_of, from_u64_idx. rewrite N.shiftr_shiftr, (shift_split q w d Hq Hw Hd).
  apply N.shiftr_div_pow2.
Qed.

(** a MOC built from values contains exactly the depth-d cells containing those values
    ([x] ranges over the indices of width [w]; [x / 2^shift] is its depth-d cell) *)
Theorem moc_of_values_exact q w d hs x : tf q -> okw w -> d <= max_depth q w ->
  (cov (moc_of_values q w d hs) x <-> exists h, In h hs /\ x / 2 ^ shift q w d = h / 2 ^ shift q 64 d).
Proof.
  intros Hq Hw Hd. unfold moc_of_values. rewrite build_cells_covers. split.
  - intros [c [Hin Hc]]. apply in_map_iff in Hin. destruct Hin as [h [<- Hin]].
    exists h. split; [exact Hin|]. rewrite <- (cell_of_is_containing_cell q w d h Hq Hw Hd). exact Hc.
  - intros [h [Hin E]]. exists (cell_of q w d h). split; [apply in_map; exact Hin|].
    rewrite (cell_of_is_containing_cell q w d h Hq Hw Hd). exact E.
Qed.

(** narrowing a non-empty 64-bit range with the upper bound rounded up keeps exactly the
    width-w indices whose 2^(64-w)-block meets the range *)
Lemma range_of_cov w a b y : a < b ->
  (fst (range_of w (a, b)) <= y < snd (range_of w (a, b)) <->
   exists z, a <= z < b /\ z / 2 ^ (64 - w) = y).
Proof.
  intros Hab. unfold range_of, from_u64_idx. cbn [fst snd]. rewrite !N.shiftr_div_pow2.
  set (k := 2 ^ (64 - w)). assert (Hk : 0 < k) by apply pow2_pos. split.
  - intros [H1 H2]. assert (H3 : y <= (b - 1) / k) by lia.
    destruct (N.le_gt_cases a (y * k)) as [L|L].
    + exists (y * k). split; [|apply N.div_mul; lia]. split; [exact L|].
      assert (y * k <= b - 1); [|lia]. etransitivity; [apply N.mul_le_mono_r; exact H3|].
      rewrite N.mul_comm. apply N.mul_div_le. lia.
    + exists a. split; [lia|]. apply N.le_antisymm; [exact H1|].
      apply N.div_le_lower_bound; [lia|]. nia.
  - intros [z [[Hz1 Hz2] <-]]. split; [apply N.div_le_mono; lia|].
    assert (z / k <= (b - 1) / k); [apply N.div_le_mono; lia|lia].
Qed.

Theorem moc_of_ranges_exact q w d rs x : tf q -> okw w -> d <= max_depth q w ->
  (cov (moc_of_ranges q w d rs) x <->
   exists r z, In r rs /\ fst r <= z < snd r /\ x / 2 ^ shift q w d = z / 2 ^ shift q 64 d).
Proof.
  intros Hq Hw Hd. unfold moc_of_ranges.
  assert (NE : NonEmptyR (map (range_of w) (filter (fun r => fst r <? snd r) rs))).
  { apply Forall_forall. intros r' Hin. apply in_map_iff in Hin. destruct Hin as [[a b] [<- Hin]].
    apply filter_In in Hin. destruct Hin as [_ Hlt]. apply N.ltb_lt in Hlt. cbn [fst snd] in Hlt.
    unfold range_of, from_u64_idx. cbn [fst snd]. rewrite !N.shiftr_div_pow2.
    assert (a / 2 ^ (64 - w) <= (b - 1) / 2 ^ (64 - w)); [apply N.div_le_mono; [apply N.pow_nonzero|]; lia|lia]. }
  rewrite (build_covers q w d _ x NE).
  assert (DD : forall z, z / 2 ^ (64 - w) / 2 ^ shift q w d = z / 2 ^ shift q 64 d).
  { intros z. rewrite N.div_div by (apply N.pow_nonzero; lia).
    rewrite <- N.pow_add_r, (shift_split q w d Hq Hw Hd). reflexivity. }
  split.
  - intros [y [[r' [Hin Hy]] E]]. apply in_map_iff in Hin. destruct Hin as [[a b] [<- Hin]].
    apply filter_In in Hin. destruct Hin as [Hin Hlt]. apply N.ltb_lt in Hlt. cbn [fst snd] in Hlt.
    apply (range_of_cov w a b y Hlt) in Hy. destruct Hy as [z [Hz Ez]].
    exists (a, b), z. split; [exact Hin|]. split; [exact Hz|]. rewrite <- DD, Ez. symmetry. exact E.
  - intros [[a b] [z [Hin [Hz E]]]]. cbn [fst snd] in Hz.
    exists (z / 2 ^ (64 - w)). split; [|rewrite DD; symmetry; exact E].
    exists (range_of w (a, b)). split.
    + apply in_map. apply filter_In. split; [exact Hin|]. apply N.ltb_lt. cbn [fst snd]. lia.
    + apply range_of_cov; [lia|]. exists z. split; [exact Hz|reflexivity].
Qed.

(** converting back to hertz: the bounds of a range of a 64-bit F-MOC enclose every
    accepted frequency whose hash lies in the range *)
Theorem hz_range_encloses s e b h bs be :
  s <= h < e -> e <= n_cells_max Freq 64 -> freq2hash b = Some h ->
  hash2freq s = Some bs -> hash2freq e = Some be -> bs <= b < be.
Proof.
  intros [H1 H2] He Hb Hs Hee. apply hash2freq_freq2hash in Hb.
  rewrite hash2freq_arith in Hb, Hs, Hee by lia. inversion Hb; inversion Hs; inversion Hee; subst. lia.
Qed.
