(** Model/FloodFillProofs.v — what the flood fill of Model/FloodFill.v guarantees WHATEVER the external
    edges are: both loops end within their fuel, every component is a non-empty list of cells, and the
    components, concatenated, are a permutation of the cells of the MOC (each cell in exactly one
    component).  That the components are the connected components is decided at run time by the verified
    checker of Model/Neigh.v on the implementation's output. *)
From Coq Require Import List NArith Arith Lia Bool Permutation.
From MOC.Model Require Import FloodFill.
Import ListNotations.
Open Scope N_scope.

Section FF.
  Variable maxd : N.
  Variable dmax : N.
  Variable ext : N -> N -> list N.

  Definition rel1 (a b : N) : Prop := a / 2 = b / 2 /\ (ff_flagged a = true -> ff_flagged b = true).
  Definition Rel (e e' : list N) : Prop := Forall2 rel1 e e'.
  Definition U (e : list N) : nat := length (filter (fun y => negb (ff_flagged y)) e).

  Lemma Rel_refl e : Rel e e.
  Proof. induction e; constructor; [split; auto|assumption]. Qed.
  Lemma Rel_trans a b c : Rel a b -> Rel b c -> Rel a c.
  Proof.
    intros H. revert c. induction H as [|x y l l' [H1 H2] _ IH]; intros c Hc; inversion Hc as [|? z ? l'' [H3 H4] Hc']; subst; constructor.
    - split; [congruence|auto].
    - apply IH. exact Hc'.
  Qed.

  Lemma flag_succ zf : ff_flagged zf = false -> (zf + 1) / 2 = zf / 2 /\ ff_flagged (zf + 1) = true.
  Proof.
    unfold ff_flagged. intros H. apply N.eqb_neq in H.
    remember (zf / 2) as k eqn:Ek. remember (zf mod 2) as m eqn:Em.
    assert (Hz : zf = 2 * k + m /\ m < 2) by (subst; split; [apply N.div_mod; lia|apply N.mod_lt; lia]).
    destruct Hz as [Hz Hm]. assert (m = 0) by lia. subst m.
    assert (E : zf + 1 = 1 + k * 2) by lia. rewrite E. split.
    - rewrite N.div_add by lia. reflexivity.
    - rewrite N.mod_add by lia. reflexivity.
  Qed.

  Lemma set_flag_rel : forall e i zf, nth_error e i = Some zf -> ff_flagged zf = false ->
    Rel e (set_flag i e) /\ S (U (set_flag i e)) = U e.
  Proof.
    induction e as [|x t IH]; intros i zf Hn Hf; [destruct i; discriminate|].
    destruct i as [|j]; cbn [nth_error set_flag] in *.
    - inversion Hn; subst x. destruct (flag_succ zf Hf) as [A B]. split.
      + constructor; [split; [symmetry; exact A|intros _; exact B]|apply Rel_refl].
      + unfold U. cbn [filter]. rewrite B, Hf. cbn [negb length]. reflexivity.
    - destruct (IH j zf Hn Hf) as [A B]. split.
      + constructor; [split; auto|exact A].
      + unfold U in *. cbn [filter]. destruct (negb (ff_flagged x)); cbn [length]; lia.
  Qed.

  Definition step_ok (st st' : list N * list N) : Prop :=
    Rel (fst st) (fst st') /\ (length (snd st') + U (fst st') = length (snd st) + U (fst st))%nat.

  Lemma step_ok_refl st : step_ok st st.
  Proof. split; [apply Rel_refl|reflexivity]. Qed.
  Lemma step_ok_trans a b c : step_ok a b -> step_ok b c -> step_ok a c.
  Proof. intros [A1 A2] [B1 B2]. split; [eapply Rel_trans; eassumption|lia]. Qed.

  Lemma try_mark_ok neig i st : step_ok st (ff_try_mark maxd dmax neig i st).
  Proof.
    unfold ff_try_mark. destruct (nth_error (fst st) i) as [zf|] eqn:E; [|apply step_ok_refl].
    destruct (ff_flagged zf) eqn:F; [apply step_ok_refl|].
    destruct (_ =? _); [|apply step_ok_refl].
    destruct (set_flag_rel _ _ _ E F) as [A B]. split; cbn [fst snd]; [exact A|]. rewrite app_length. cbn [length]. lia.
  Qed.

  Lemma visit_ok st neig : step_ok st (ff_visit maxd dmax st neig).
  Proof.
    unfold ff_visit. cbv zeta.
    destruct (nth_error (fst st) (ff_count_lt (2 * ff_zuniq maxd dmax neig) (fst st))) as [x|] eqn:E.
    - destruct (N.eqb_spec x (2 * ff_zuniq maxd dmax neig)) as [Hx|Hx].
      + assert (F : ff_flagged x = false).
        { unfold ff_flagged. rewrite Hx. rewrite N.mul_comm, N.mod_mul by lia. reflexivity. }
        destruct (set_flag_rel _ _ _ E F) as [A B]. split; cbn [fst snd]; [exact A|]. rewrite app_length. cbn [length]. lia.
      + eapply step_ok_trans; [|apply try_mark_ok].
        destruct (ff_count_lt _ _); [apply step_ok_refl|apply try_mark_ok].
    - destruct (ff_count_lt _ _); [apply step_ok_refl|apply try_mark_ok].
  Qed.

  Lemma visits_ok l : forall st, step_ok st (fold_left (ff_visit maxd dmax) l st).
  Proof.
    induction l as [|n l IH]; intros st; [apply step_ok_refl|].
    cbn [fold_left]. eapply step_ok_trans; [apply visit_ok|apply IH].
  Qed.

  Lemma insert_length x l : length (ff_insert x l) = S (length l).
  Proof. induction l as [|y t IH]; [reflexivity|]. cbn [ff_insert]. destruct (x <=? y); cbn [length]; [reflexivity|rewrite IH; reflexivity]. Qed.
  Lemma sort_length l : length (ff_sort l) = length l.
  Proof. induction l as [|x t IH]; [reflexivity|]. cbn [ff_sort fold_right]. fold (ff_sort t). rewrite insert_length, IH. reflexivity. Qed.

  Lemma inner_total : forall fuel elems stack, (length stack + U elems < fuel)%nat ->
    exists e', ff_inner maxd dmax ext fuel elems stack = Some e' /\ Rel elems e'.
  Proof.
    induction fuel as [|f IH]; intros elems stack Hf; [lia|].
    cbn [ff_inner]. destruct stack as [|s0 st0] eqn:ES; [exists elems; split; [reflexivity|apply Rel_refl]|].
    rewrite <- ES in *. cbv zeta.
    set (c := ff_from_zuniq maxd (last stack 0)).
    pose proof (visits_ok (ext (fst c) (snd c)) (elems, removelast stack)) as [A B].
    set (st := fold_left (ff_visit maxd dmax) (ext (fst c) (snd c)) (elems, removelast stack)) in *.
    cbn [fst snd] in A, B.
    assert (Hrl : S (length (removelast stack)) = length stack).
    { rewrite ES. clear. revert s0. induction st0 as [|y t IHt]; intros s0; [reflexivity|].
      change (removelast (s0 :: y :: t)) with (s0 :: removelast (y :: t)). cbn [length]. rewrite IHt. reflexivity. }
    destruct (IH (fst st) (if (length (removelast stack) <? length (snd st))%nat then ff_sort (snd st) else snd st)) as [e' [E1 E2]].
    { destruct (_ <? _)%nat; rewrite ?sort_length; lia. }
    exists e'. split; [exact E1|eapply Rel_trans; eassumption].
  Qed.

  Definition cellsof (e : list N) : list (N * N) := map (fun y => ff_from_zuniq maxd (y / 2)) e.
  Definition all_even (e : list N) : Prop := Forall (fun y => ff_flagged y = false) e.

  Lemma Rel_cellsof e e' : Rel e e' -> cellsof e = cellsof e'.
  Proof. induction 1 as [|x y l l' [H _] _ IH]; [reflexivity|]. unfold cellsof in *. cbn [map]. rewrite H, IH. reflexivity. Qed.

  Lemma Rel_length e e' : Rel e e' -> length e = length e'.
  Proof. induction 1; cbn [length]; congruence. Qed.

  Lemma U_le e : (U e <= length e)%nat.
  Proof. unfold U. induction e as [|x t IH]; [reflexivity|]. cbn [filter]. destruct (negb (ff_flagged x)); cbn [length]; lia. Qed.

  Lemma filter_len {A} (f : A -> bool) (l : list A) : (length (filter f l) <= length l)%nat.
  Proof. induction l as [|x t IH]; [reflexivity|]. cbn [filter]. destruct (f x); cbn [length]; lia. Qed.

  Lemma filter_split_perm {A} (f : A -> bool) (l : list A) : Permutation l (filter f l ++ filter (fun y => negb (f y)) l).
  Proof.
    induction l as [|x t IH]; [constructor|]. cbn [filter]. destruct (f x); cbn [negb app].
    - constructor. exact IH.
    - eapply Permutation_trans; [constructor; exact IH|]. apply Permutation_middle.
  Qed.

  Lemma outer_total : forall fuel elems l_acc, all_even elems -> (length elems < fuel)%nat ->
    exists comps, ff_outer maxd dmax ext fuel elems l_acc = Some (l_acc ++ comps) /\
                  Forall (fun c => c <> []) comps /\ Permutation (concat comps) (cellsof elems).
  Proof.
    induction fuel as [|f IH]; intros elems l_acc Hev Hf; [lia|].
    cbn [ff_outer]. destruct elems as [|x t].
    - exists []. rewrite app_nil_r. split; [reflexivity|split; constructor].
    - inversion Hev as [|? ? Hx Ht]; subst.
      destruct (flag_succ x Hx) as [Hhalf Hfl].
      destruct (inner_total (S (length (x :: t))) ((x + 1) :: t) [x / 2]) as [e2 [E1 E2]].
      { unfold U. cbn [filter length]. rewrite Hfl. cbn [negb]. pose proof (U_le t). unfold U in H. lia. }
      rewrite E1.
      inversion E2 as [|? y0 ? e2' [R1 R2] R3]; subst.
      pose proof (R2 Hfl) as Hy0.
      set (rest := filter (fun y => negb (ff_flagged y)) (y0 :: e2')).
      assert (Hrest_even : all_even rest).
      { apply Forall_forall. intros y Hy. apply filter_In in Hy. destruct Hy as [_ Hy]. apply negb_true_iff in Hy. exact Hy. }
      assert (Hrest_len : (length rest < f)%nat).
      { unfold rest. cbn [filter]. rewrite Hy0. cbn [negb].
        pose proof (filter_len (fun y => negb (ff_flagged y)) e2'). pose proof (Rel_length _ _ R3). cbn [length] in Hf. lia. }
      destruct (IH rest (l_acc ++ [map (fun y => ff_from_zuniq maxd (y / 2)) (filter ff_flagged (y0 :: e2'))]) Hrest_even Hrest_len)
        as [comps [C1 [C2 C3]]].
      exists (cellsof (filter ff_flagged (y0 :: e2')) :: comps). split; [|split].
      + fold rest. rewrite C1, <- app_assoc. reflexivity.
      + constructor; [|exact C2]. cbn [filter]. rewrite Hy0. discriminate.
      + cbn [concat].
        eapply Permutation_trans; [apply Permutation_app_head; exact C3|].
        assert (Hc : cellsof (x :: t) = cellsof (y0 :: e2')).
        { rewrite <- (Rel_cellsof _ _ E2). unfold cellsof. cbn [map]. rewrite Hhalf. reflexivity. }
        rewrite Hc. unfold cellsof, rest. rewrite <- map_app. apply Permutation_map.
        apply Permutation_sym. apply filter_split_perm.
  Qed.

  (** decoding a zuniq *)
  Lemma tzeros_pow : forall (j f : nat) i, (j < f)%nat -> tzeros f ((2 * i + 1) * 2 ^ N.of_nat j) = N.of_nat j.
  Proof.
    induction j as [|j IH]; intros f i Hf; (destruct f as [|f]; [lia|]); cbn [tzeros].
    - cbn [N.of_nat]. rewrite N.pow_0_r, N.mul_1_r.
      replace (2 * i + 1) with (1 + i * 2) by lia. rewrite N.mod_add by lia. reflexivity.
    - rewrite Nat2N.inj_succ, N.pow_succ_r'.
      replace ((2 * i + 1) * (2 * 2 ^ N.of_nat j)) with (((2 * i + 1) * 2 ^ N.of_nat j) * 2) by lia.
      rewrite N.mod_mul by lia. cbn [N.eqb]. rewrite N.div_mul by lia. rewrite IH by lia. lia.
  Qed.

  Lemma from_zuniq_zuniq d i : d <= maxd -> maxd <= 64 -> ff_from_zuniq maxd (ff_zuniq maxd d i) = (d, i).
  Proof.
    intros Hd Hm. unfold ff_from_zuniq, ff_zuniq.
    set (k := maxd - d).
    assert (E4 : 4 ^ k = 2 ^ N.of_nat (N.to_nat (2 * k))).
    { rewrite N2Nat.id. change 4 with (2 ^ 2). rewrite <- N.pow_mul_r. reflexivity. }
    rewrite E4. rewrite (tzeros_pow (N.to_nat (2 * k)) 130 i) by lia. rewrite N2Nat.id. cbv zeta.
    f_equal.
    - replace (2 * k) with (k * 2) by lia. rewrite N.div_mul by lia. unfold k. lia.
    - rewrite N.pow_add_r, N.pow_1_r. rewrite <- N.div_div by (try lia; apply N.pow_nonzero; lia).
      rewrite N.div_mul by (apply N.pow_nonzero; lia).
      replace (2 * i + 1) with (1 + i * 2) by lia. rewrite N.div_add by lia. reflexivity.
  Qed.

  Theorem split_partition cells : maxd <= 64 -> Forall (fun c => fst c <= maxd) cells ->
    exists comps, ff_split maxd dmax ext cells = Some comps /\
                  Forall (fun c => c <> []) comps /\ Permutation (concat comps) cells.
  Proof.
    intros Hm Hc. unfold ff_split.
    set (elems := map (fun c : N * N => 2 * ff_zuniq maxd (fst c) (snd c)) cells).
    assert (Hev : all_even elems).
    { unfold elems. apply Forall_forall. intros y Hy. apply in_map_iff in Hy. destruct Hy as [c [<- _]].
      unfold ff_flagged. rewrite N.mul_comm, N.mod_mul by lia. reflexivity. }
    destruct (outer_total (S (length elems)) elems [] Hev (Nat.lt_succ_diag_r _)) as [comps [C1 [C2 C3]]].
    exists comps. split; [exact C1|]. split; [exact C2|].
    assert (E : cellsof elems = cells).
    { unfold cellsof, elems. rewrite map_map. rewrite <- (map_id cells) at 2. apply map_ext_in. intros c Hin.
      rewrite N.mul_comm, N.div_mul by lia. rewrite Forall_forall in Hc. rewrite (from_zuniq_zuniq _ _ (Hc c Hin) Hm).
      destruct c; reflexivity. }
    rewrite <- E. exact C3.
  Qed.
End FF.

(** ---------- why looking at the elements i-1 and i is enough ----------
    (the comment in the code: "The deeper zuniq may be lower or higher than the one's of the larger cells
    containing it").  A cell (d, c) owns the interval [2 c 4^k, 2 (c+1) 4^k), k = maxd - d, of the zuniq
    axis; its own zuniq (2c+1) 4^k lies inside, and so does the zuniq of every cell it contains; cells that
    do not overlap own disjoint intervals.  Hence, in a sorted vector of non-overlapping cells, the only
    element inside the interval of the container of the searched cell is the container itself, and the
    number of elements below the searched key is the container's position or that position plus one. *)
From Coq Require Import Sorted.

Lemma count_lt_app key a b : ff_count_lt key (a ++ b) = (ff_count_lt key a + ff_count_lt key b)%nat.
Proof. unfold ff_count_lt. rewrite filter_app, app_length. reflexivity. Qed.

Lemma count_lt_all key l : Forall (fun y => y < key) l -> ff_count_lt key l = length l.
Proof.
  unfold ff_count_lt. induction 1 as [|y l Hy _ IH]; [reflexivity|]. cbn [filter].
  destruct (N.ltb_spec y key); [cbn [length]; rewrite IH; reflexivity|lia].
Qed.

Lemma count_lt_none key l : Forall (fun y => key <= y) l -> ff_count_lt key l = O.
Proof.
  unfold ff_count_lt. induction 1 as [|y l Hy _ IH]; [reflexivity|]. cbn [filter].
  destruct (N.ltb_spec y key); [lia|exact IH].
Qed.

Theorem lookup_position (before after : list N) (z lo hi key : N) :
  StronglySorted N.lt (before ++ z :: after) ->
  lo <= z < hi -> lo <= key < hi ->
  Forall (fun y => y < lo \/ hi <= y) (before ++ after) ->
  ff_count_lt key (before ++ z :: after) = (if z <? key then S (length before) else length before).
Proof.
  intros Hs Hz Hk Hout.
  apply Forall_app in Hout. destruct Hout as [Hb Ha].
  assert (Hbz : Forall (fun y => y < z) before).
  { clear - Hs. induction before as [|b t IH]; [constructor|].
    cbn [app] in Hs. inversion Hs as [|? ? Hs' Hall]; subst. constructor.
    - rewrite Forall_forall in Hall. apply Hall. apply in_or_app. right. left. reflexivity.
    - apply IH. exact Hs'. }
  assert (Haz : Forall (fun y => z < y) after).
  { clear - Hs. induction before as [|b t IH]; cbn [app] in Hs.
    - inversion Hs; assumption.
    - inversion Hs; subst. apply IH. assumption. }
  assert (Hb' : Forall (fun y => y < key) before).
  { apply Forall_forall. intros y Hy. rewrite Forall_forall in Hb, Hbz. specialize (Hb y Hy). specialize (Hbz y Hy). lia. }
  assert (Ha' : Forall (fun y => key <= y) after).
  { apply Forall_forall. intros y Hy. rewrite Forall_forall in Ha, Haz. specialize (Ha y Hy). specialize (Haz y Hy). lia. }
  rewrite count_lt_app, (count_lt_all _ _ Hb').
  change (z :: after) with ([z] ++ after). rewrite count_lt_app, (count_lt_none _ _ Ha').
  unfold ff_count_lt at 1. cbn [filter]. destruct (z <? key); cbn [length]; lia.
Qed.

(** the interval of a cell on the zuniq axis, and the facts used above *)
Section ZInterval.
  Variable maxd : N.
  Definition zlo (d c : N) : N := 2 * c * 4 ^ (maxd - d).
  Definition zhi (d c : N) : N := 2 * (c + 1) * 4 ^ (maxd - d).

  Lemma zuniq_inside d c : zlo d c <= ff_zuniq maxd d c < zhi d c.
  Proof. unfold zlo, zhi, ff_zuniq. pose proof (N.pow_nonzero 4 (maxd - d) ltac:(lia)). nia. Qed.

  (** a cell x of depth dmax contained in (d, c), d <= dmax <= maxd: its zuniq is inside the interval of (d, c) *)
  Lemma contained_inside d c dmax x : d <= dmax -> dmax <= maxd -> x / 4 ^ (dmax - d) = c ->
    zlo d c <= ff_zuniq maxd dmax x < zhi d c.
  Proof.
    intros Hd Hm Hx. unfold zlo, zhi, ff_zuniq.
    replace (maxd - d) with ((dmax - d) + (maxd - dmax)) by lia. rewrite N.pow_add_r.
    set (a := 4 ^ (dmax - d)). set (b := 4 ^ (maxd - dmax)).
    assert (Ha : a <> 0) by (apply N.pow_nonzero; lia). assert (Hb : b <> 0) by (apply N.pow_nonzero; lia).
    assert (Hdm : x = a * c + x mod a /\ x mod a < a).
    { split; [rewrite <- Hx; apply N.div_mod; exact Ha|apply N.mod_lt; exact Ha]. }
    destruct Hdm as [E Hr]. remember (x mod a) as r. nia.
  Qed.

  (** two cells that do not overlap (their ranges at the deepest level are disjoint) own disjoint intervals *)
  Lemma disjoint_intervals d c d' c' :
    (c + 1) * 4 ^ (maxd - d) <= c' * 4 ^ (maxd - d') \/ (c' + 1) * 4 ^ (maxd - d') <= c * 4 ^ (maxd - d) ->
    ff_zuniq maxd d' c' < zlo d c \/ zhi d c <= ff_zuniq maxd d' c'.
  Proof.
    unfold zlo, zhi, ff_zuniq. pose proof (N.pow_nonzero 4 (maxd - d) ltac:(lia)). pose proof (N.pow_nonzero 4 (maxd - d') ltac:(lia)).
    intros [H1|H1]; [right|left]; nia.
  Qed.
End ZInterval.

(** ---------- one search on a fresh vector finds the cell that contains the searched cell ---------- *)
Section VisitFinds.
  Variable maxd dmax : N.
  Hypothesis Hmaxd : maxd <= 64.
  Hypothesis Hdmax : dmax <= maxd.

  Definition zun (c : N * N) : N := ff_zuniq maxd (fst c) (snd c).
  Definition disj (a b : N * N) : Prop :=
    (snd a + 1) * 4 ^ (maxd - fst a) <= snd b * 4 ^ (maxd - fst b) \/
    (snd b + 1) * 4 ^ (maxd - fst b) <= snd a * 4 ^ (maxd - fst a).
  Definition contains (a : N * N) (x : N) : Prop := x / 4 ^ (dmax - fst a) = snd a.

  Lemma count_lt_double key l : ff_count_lt (2 * key) (map (fun z => 2 * z) l) = ff_count_lt key l.
  Proof.
    unfold ff_count_lt. induction l as [|y t IH]; [reflexivity|]. cbn [map filter].
    destruct (N.ltb_spec (2 * y) (2 * key)), (N.ltb_spec y key); try lia; cbn [length]; rewrite ?IH; reflexivity.
  Qed.

  Lemma not_container a b x : fst a <= dmax -> fst b <= dmax -> disj a b -> contains a x -> ~ contains b x.
  Proof.
    intros Ha Hb Hd Ca Cb. unfold contains in *.
    pose proof (contained_inside maxd (fst a) (snd a) dmax x Ha Hdmax Ca) as [A1 A2].
    pose proof (contained_inside maxd (fst b) (snd b) dmax x Hb Hdmax Cb) as [B1 B2].
    unfold zlo, zhi in *. unfold disj in Hd. destruct Hd as [H|H]; nia.
  Qed.

  Lemma elems_nth cells p c : nth_error cells p = Some c ->
    nth_error (map (fun c : N * N => 2 * zun c) cells) p = Some (2 * zun c).
  Proof. intros H. rewrite nth_error_map, H. reflexivity. Qed.

  Lemma even_unflagged z : ff_flagged (2 * z) = false.
  Proof. unfold ff_flagged. rewrite N.mul_comm, N.mod_mul by lia. reflexivity. Qed.

  Lemma half_double z : 2 * z / 2 = z.
  Proof. rewrite N.mul_comm, N.div_mul by lia. reflexivity. Qed.

  (** try_mark on an unflagged element of a fresh vector: marks exactly when the element contains x *)
  Lemma try_mark_fresh elems stack p c x : nth_error elems p = Some (2 * zun c) -> fst c <= dmax ->
    ff_try_mark maxd dmax x p (elems, stack) =
    if snd c =? x / 4 ^ (dmax - fst c) then (set_flag p elems, stack ++ [zun c]) else (elems, stack).
  Proof.
    intros Hn Hc. unfold ff_try_mark. cbn [fst snd]. rewrite Hn, even_unflagged, half_double.
    unfold zun. rewrite (from_zuniq_zuniq maxd (fst c) (snd c) ltac:(lia) Hmaxd). cbn [fst snd]. reflexivity.
  Qed.

  Lemma set_flag_other : forall elems p q, p <> q -> nth_error (set_flag p elems) q = nth_error elems q.
  Proof.
    induction elems as [|e t IH]; intros p q Hpq; [destruct p; reflexivity|].
    destruct p as [|p], q as [|q]; cbn [set_flag nth_error]; try reflexivity; [congruence|].
    apply IH. congruence.
  Qed.

  Theorem visit_finds_container bc a ac stack x :
    let cells := bc ++ a :: ac in
    let elems := map (fun c : N * N => 2 * zun c) cells in
    Forall (fun c => fst c <= dmax) cells ->
    StronglySorted N.lt (map zun cells) ->
    Forall (disj a) (bc ++ ac) ->
    contains a x ->
    ff_visit maxd dmax (elems, stack) x = (set_flag (length bc) elems, stack ++ [zun a]).
  Proof.
    intros cells elems Hdep Hs Hdis Hc.
    assert (Ha : fst a <= dmax).
    { rewrite Forall_forall in Hdep. apply Hdep. unfold cells. apply in_or_app. right. left. reflexivity. }
    set (p := length bc).
    assert (Hnp : nth_error cells p = Some a).
    { unfold cells, p. rewrite nth_error_app2 by lia. rewrite Nat.sub_diag. reflexivity. }
    pose proof (contained_inside maxd (fst a) (snd a) dmax x Ha Hdmax Hc) as Hkey.
    pose proof (zuniq_inside maxd (fst a) (snd a)) as Hz.
    assert (Hout : Forall (fun y => y < zlo maxd (fst a) (snd a) \/ zhi maxd (fst a) (snd a) <= y) (map zun bc ++ map zun ac)).
    { rewrite <- map_app. rewrite Forall_map. eapply Forall_impl; [|exact Hdis]. intros b Hb.
      apply (disjoint_intervals maxd (fst a) (snd a) (fst b) (snd b)). exact Hb. }
    assert (Hcount : ff_count_lt (2 * ff_zuniq maxd dmax x) elems =
                     (if zun a <? ff_zuniq maxd dmax x then S p else p)).
    { unfold elems. rewrite <- (map_map zun (fun z => 2 * z)), count_lt_double.
      unfold cells. rewrite map_app. cbn [map].
      rewrite (lookup_position (map zun bc) (map zun ac) (zun a) (zlo maxd (fst a) (snd a)) (zhi maxd (fst a) (snd a)) (ff_zuniq maxd dmax x));
        [rewrite map_length; reflexivity| |exact Hz|exact Hkey|exact Hout].
      unfold cells in Hs. rewrite map_app in Hs. exact Hs. }
    (* the other candidates do not contain x *)
    assert (Hother : forall q b, nth_error cells q = Some b -> q <> p -> (snd b =? x / 4 ^ (dmax - fst b)) = false).
    { intros q b Hq Hqp. apply N.eqb_neq. intros E.
      assert (Hin : In b (bc ++ ac)).
      { unfold cells in Hq. destruct (Nat.lt_ge_cases q (length bc)) as [Hl|Hl].
        - rewrite nth_error_app1 in Hq by exact Hl. apply in_or_app. left. eapply nth_error_In. exact Hq.
        - rewrite nth_error_app2 in Hq by exact Hl. destruct (q - length bc)%nat as [|k] eqn:Ek; [unfold p in Hqp; lia|].
          apply in_or_app. right. apply (nth_error_In ac k). exact Hq. }
      rewrite Forall_forall in Hdis, Hdep.
      apply (not_container a b x Ha); [apply Hdep; unfold cells; apply in_or_app; apply in_app_or in Hin; destruct Hin; [left; assumption|right; right; assumption]|apply Hdis; exact Hin|exact Hc|].
      unfold contains. symmetry. exact E. }
    assert (Hself : (snd a =? x / 4 ^ (dmax - fst a)) = true) by (apply N.eqb_eq; symmetry; exact Hc).
    unfold ff_visit. cbv zeta. cbn [fst snd]. rewrite Hcount.
    destruct (N.ltb_spec (zun a) (ff_zuniq maxd dmax x)) as [Hlt|Hge].
    - (* the container is just below the insertion point *)
      pose proof (try_mark_fresh elems stack p a x (elems_nth cells p a Hnp) Ha) as T1. rewrite Hself in T1.
      destruct (nth_error elems (S p)) as [y|] eqn:Ey.
      + unfold elems in Ey. rewrite nth_error_map in Ey. destruct (nth_error cells (S p)) as [b|] eqn:Eb; [|discriminate].
        assert (Ey' : y = 2 * zun b) by (cbn [option_map] in Ey; congruence). subst y. clear Ey.
        assert (Hbne : (2 * zun b =? 2 * ff_zuniq maxd dmax x) = false).
        { apply N.eqb_neq. intros E.
          assert (Hin : In b (bc ++ ac)).
          { unfold cells in Eb. rewrite nth_error_app2 in Eb by (unfold p; lia). replace (S p - length bc)%nat with 1%nat in Eb by (unfold p; lia).
            apply in_or_app. right. apply (nth_error_In ac 0). exact Eb. }
          rewrite Forall_forall in Hout. specialize (Hout (zun b)).
          assert (In (zun b) (map zun bc ++ map zun ac)) by (rewrite <- map_app; apply in_map; exact Hin).
          specialize (Hout H). lia. }
        rewrite Hbne. rewrite T1.
        assert (Hb : fst b <= dmax).
        { rewrite Forall_forall in Hdep. apply Hdep. eapply nth_error_In. exact Eb. }
        rewrite (try_mark_fresh (set_flag p elems) (stack ++ [zun a]) (S p) b x); [|rewrite set_flag_other by lia; apply elems_nth; exact Eb|exact Hb].
        rewrite (Hother (S p) b Eb ltac:(lia)). reflexivity.
      + exact T1.
    - (* the container is at the insertion point *)
      pose proof (elems_nth cells p a Hnp) as En. fold elems in En. rewrite En.
      destruct (N.eqb_spec (2 * zun a) (2 * ff_zuniq maxd dmax x)) as [Heq|Hne].
      + rewrite half_double. reflexivity.
      + assert (T0 : (match p with O => (elems, stack) | S j => ff_try_mark maxd dmax x j (elems, stack) end) = (elems, stack)).
        { destruct p as [|j] eqn:Ep; [reflexivity|].
          destruct (nth_error cells j) as [b|] eqn:Eb.
          - assert (Hb : fst b <= dmax) by (rewrite Forall_forall in Hdep; apply Hdep; eapply nth_error_In; exact Eb).
            rewrite (try_mark_fresh elems stack j b x (elems_nth cells j b Eb) Hb).
            rewrite (Hother j b Eb ltac:(lia)). reflexivity.
          - apply nth_error_None in Eb. assert (length cells > j)%nat; [|lia].
            unfold cells. rewrite app_length. cbn [length]. unfold p in Ep. lia. }
        rewrite T0.
        pose proof (try_mark_fresh elems stack p a x (elems_nth cells p a Hnp) Ha) as T1. rewrite Hself in T1. exact T1.
  Qed.
End VisitFinds.

(** ---------- one search on ANY vector (some elements already flagged) ---------- *)
Section VisitGeneral.
  Variable maxd dmax : N.
  Hypothesis Hmaxd : maxd <= 64.
  Hypothesis Hdmax : dmax <= maxd.

  Notation fcell := ((N * N) * bool)%type.          (* cell, visited flag *)
  Definition enc (e : fcell) : N := 2 * zun maxd (fst e) + (if snd e then 1 else 0).
  Definition fcells_ok (l : list fcell) : Prop :=
    Forall (fun e => fst (fst e) <= dmax) l /\
    StronglySorted N.lt (map (fun e => zun maxd (fst e)) l) /\
    ForallOrdPairs (fun a b => disj maxd (fst a) (fst b)) l.

  Lemma enc_flag e : ff_flagged (enc e) = snd e.
  Proof.
    unfold ff_flagged, enc. destruct (snd e).
    - replace (2 * zun maxd (fst e) + 1) with (1 + zun maxd (fst e) * 2) by lia. rewrite N.mod_add by lia. reflexivity.
    - rewrite N.add_0_r, N.mul_comm, N.mod_mul by lia. reflexivity.
  Qed.

  Lemma enc_half e : enc e / 2 = zun maxd (fst e).
  Proof.
    unfold enc. destruct (snd e).
    - replace (2 * zun maxd (fst e) + 1) with (1 + zun maxd (fst e) * 2) by lia. rewrite N.div_add by lia. reflexivity.
    - rewrite N.add_0_r, N.mul_comm, N.div_mul by lia. reflexivity.
  Qed.

  Lemma count_lt_enc key l : ff_count_lt (2 * key) (map enc l) = ff_count_lt key (map (fun e => zun maxd (fst e)) l).
  Proof.
    unfold ff_count_lt. induction l as [|e t IH]; [reflexivity|]. cbn [map filter].
    assert (Hb : (enc e <? 2 * key) = (zun maxd (fst e) <? key)).
    { unfold enc. destruct (snd e).
      - destruct (N.ltb_spec (2 * zun maxd (fst e) + 1) (2 * key)), (N.ltb_spec (zun maxd (fst e)) key); try reflexivity; lia.
      - destruct (N.ltb_spec (2 * zun maxd (fst e) + 0) (2 * key)), (N.ltb_spec (zun maxd (fst e)) key); try reflexivity; lia. }
    rewrite Hb. destruct (zun maxd (fst e) <? key); cbn [length]; rewrite ?IH; reflexivity.
  Qed.

  Definition mark_at (p : nat) (l : list fcell) : list fcell :=
    firstn p l ++ match skipn p l with [] => [] | e :: t => (fst e, true) :: t end.

  Lemma set_flag_enc : forall l p e, nth_error l p = Some e -> snd e = false ->
    set_flag p (map enc l) = map enc (mark_at p l).
  Proof.
    induction l as [|x t IH]; intros p e Hn Hf; [destruct p; discriminate|].
    destruct p as [|p]; cbn [nth_error] in Hn.
    - inversion Hn; subst x. unfold mark_at. cbn [firstn skipn app map set_flag]. f_equal.
      unfold enc. cbn [fst snd]. rewrite Hf. lia.
    - unfold mark_at in *. cbn [firstn skipn app map set_flag]. f_equal. apply (IH p e Hn Hf).
  Qed.

  (** try_mark on element p of the encoded vector *)
  Lemma try_mark_enc l stack p e x : nth_error l p = Some e -> fst (fst e) <= dmax ->
    ff_try_mark maxd dmax x p (map enc l, stack) =
    if snd e then (map enc l, stack)
    else if snd (fst e) =? x / 4 ^ (dmax - fst (fst e)) then (map enc (mark_at p l), stack ++ [zun maxd (fst e)])
         else (map enc l, stack).
  Proof.
    intros Hn Hc. unfold ff_try_mark. cbn [fst snd]. rewrite nth_error_map, Hn. cbn [option_map].
    rewrite enc_flag. destruct (snd e) eqn:Ef; [reflexivity|].
    rewrite enc_half. unfold zun. rewrite (from_zuniq_zuniq maxd (fst (fst e)) (snd (fst e)) ltac:(lia) Hmaxd). cbn [fst snd].
    destruct (_ =? _); [|reflexivity]. rewrite (set_flag_enc l p e Hn Ef). reflexivity.
  Qed.

  Lemma try_mark_noncont l stack q b x : nth_error l q = Some b -> fst (fst b) <= dmax -> ~ contains dmax (fst b) x ->
    ff_try_mark maxd dmax x q (map enc l, stack) = (map enc l, stack).
  Proof.
    intros Hn Hb Hc. rewrite (try_mark_enc l stack q b x Hn Hb). destruct (snd b); [reflexivity|].
    destruct (N.eqb_spec (snd (fst b)) (x / 4 ^ (dmax - fst (fst b)))) as [E|E]; [|reflexivity].
    exfalso. apply Hc. unfold contains. symmetry. exact E.
  Qed.

  Lemma mark_at_other : forall l p q, p <> q -> nth_error (mark_at p l) q = nth_error l q.
  Proof.
    induction l as [|e t IH]; intros p q Hpq; [unfold mark_at; destruct p; reflexivity|].
    destruct p as [|p], q as [|q]; unfold mark_at in *; cbn [firstn skipn app nth_error]; try reflexivity; [congruence|].
    apply IH. congruence.
  Qed.

  Lemma zun_inj a b : fst a <= maxd -> fst b <= maxd -> zun maxd a = zun maxd b -> a = b.
  Proof.
    intros Ha Hb E. unfold zun in E.
    pose proof (from_zuniq_zuniq maxd (fst a) (snd a) Ha Hmaxd) as Fa.
    pose proof (from_zuniq_zuniq maxd (fst b) (snd b) Hb Hmaxd) as Fb.
    rewrite E in Fa. rewrite Fa in Fb. destruct a, b. cbn [fst snd] in *. congruence.
  Qed.

  (** the result of one search: the unflagged container of x, if any, is flagged and pushed; nothing else changes *)
  Theorem visit_general bc e ac stack x :
    let l := bc ++ e :: ac in
    fcells_ok l -> contains dmax (fst e) x ->
    ff_visit maxd dmax (map enc l, stack) x =
    if snd e then (map enc l, stack) else (map enc (mark_at (length bc) l), stack ++ [zun maxd (fst e)]).
  Proof.
    intros l [Hdep [Hs Hdis]] Hc.
    set (a := fst e) in *. set (p := length bc).
    assert (Ha : fst a <= dmax).
    { rewrite Forall_forall in Hdep. apply (Hdep e). unfold l. apply in_or_app. right. left. reflexivity. }
    assert (Hnp : nth_error l p = Some e).
    { unfold l, p. rewrite nth_error_app2 by lia. rewrite Nat.sub_diag. reflexivity. }
    assert (HdisA : Forall (fun b => disj maxd a (fst b)) (bc ++ ac)).
    { unfold l in Hdis. clear - Hdis. unfold a.
      induction bc as [|b t IH]; cbn [app] in *.
      - inversion Hdis; assumption.
      - inversion Hdis as [|? ? H1 H2]; subst. constructor.
        + rewrite Forall_forall in H1. specialize (H1 e ltac:(apply in_or_app; right; left; reflexivity)).
          unfold disj in *. tauto.
        + apply IH. exact H2. }
    pose proof (contained_inside maxd (fst a) (snd a) dmax x Ha Hdmax Hc) as Hkey.
    pose proof (zuniq_inside maxd (fst a) (snd a)) as Hz.
    set (zf := fun b : (N * N) * bool => zun maxd (fst b)).
    assert (Hout : Forall (fun y => y < zlo maxd (fst a) (snd a) \/ zhi maxd (fst a) (snd a) <= y) (map zf bc ++ map zf ac)).
    { rewrite <- map_app. rewrite Forall_map. eapply Forall_impl; [|exact HdisA]. intros b Hb.
      apply (disjoint_intervals maxd (fst a) (snd a) (fst (fst b)) (snd (fst b))). exact Hb. }
    assert (Hcount : ff_count_lt (2 * ff_zuniq maxd dmax x) (map enc l) =
                     (if zun maxd a <? ff_zuniq maxd dmax x then S p else p)).
    { rewrite count_lt_enc. fold zf. unfold l. rewrite map_app. cbn [map].
      rewrite (lookup_position (map zf bc) (map zf ac) (zf e) (zlo maxd (fst a) (snd a)) (zhi maxd (fst a) (snd a)) (ff_zuniq maxd dmax x));
        [rewrite map_length; reflexivity| |exact Hz|exact Hkey|exact Hout].
      unfold l in Hs. rewrite map_app in Hs. exact Hs. }
    assert (Hin_other : forall q b, nth_error l q = Some b -> q <> p -> In b (bc ++ ac)).
    { intros q b Hq Hqp. unfold l in Hq. destruct (Nat.lt_ge_cases q (length bc)) as [Hl|Hl].
      - rewrite nth_error_app1 in Hq by exact Hl. apply in_or_app. left. eapply nth_error_In. exact Hq.
      - rewrite nth_error_app2 in Hq by exact Hl. destruct (q - length bc)%nat as [|k] eqn:Ek; [unfold p in Hqp; lia|].
        apply in_or_app. right. apply (nth_error_In ac k). exact Hq. }
    assert (Hdepth : forall q b, nth_error l q = Some b -> fst (fst b) <= dmax).
    { intros q b Hq. rewrite Forall_forall in Hdep. apply Hdep. eapply nth_error_In. exact Hq. }
    assert (Hother : forall q b, nth_error l q = Some b -> q <> p -> ~ contains dmax (fst b) x).
    { intros q b Hq Hqp. rewrite Forall_forall in HdisA.
      apply (not_container maxd dmax Hmaxd Hdmax a (fst b) x Ha (Hdepth q b Hq) (HdisA b (Hin_other q b Hq Hqp)) Hc). }
    pose proof (try_mark_enc l stack p e x Hnp Ha) as T1. fold a in T1.
    assert (Hself : (snd a =? x / 4 ^ (dmax - fst a)) = true) by (apply N.eqb_eq; symmetry; exact Hc).
    rewrite Hself in T1.
    unfold ff_visit. cbv zeta. cbn [fst snd]. rewrite Hcount.
    destruct (N.ltb_spec (zun maxd a) (ff_zuniq maxd dmax x)) as [Hlt|Hge].
    - (* the container is just below the insertion point *)
      rewrite nth_error_map. destruct (nth_error l (S p)) as [b|] eqn:Eb; cbn [option_map].
      + assert (Hbne : (enc b =? 2 * ff_zuniq maxd dmax x) = false).
        { apply N.eqb_neq. intros E.
          pose proof (Hin_other (S p) b Eb ltac:(lia)) as Hin.
          rewrite Forall_forall in Hout. specialize (Hout (zf b)).
          assert (In (zf b) (map zf bc ++ map zf ac)) by (rewrite <- map_app; apply in_map; exact Hin).
          specialize (Hout H). unfold enc, zf in *. destruct (snd b); lia. }
        rewrite Hbne. rewrite T1.
        destruct (snd e).
        * apply (try_mark_noncont l stack (S p) b x Eb (Hdepth _ _ Eb) (Hother _ _ Eb ltac:(lia))).
        * apply (try_mark_noncont (mark_at p l) _ (S p) b x); [rewrite mark_at_other by lia; exact Eb|exact (Hdepth _ _ Eb)|exact (Hother _ _ Eb ltac:(lia))].
      + exact T1.
    - (* the container is at the insertion point *)
      rewrite nth_error_map, Hnp. cbn [option_map].
      assert (T0 : (match p with O => (map enc l, stack) | S j => ff_try_mark maxd dmax x j (map enc l, stack) end) = (map enc l, stack)).
      { destruct p as [|j] eqn:Ep; [reflexivity|].
        destruct (nth_error l j) as [b|] eqn:Eb.
        - apply (try_mark_noncont l stack j b x Eb (Hdepth _ _ Eb) (Hother _ _ Eb ltac:(lia))).
        - apply nth_error_None in Eb. assert (length l > j)%nat; [|lia].
          unfold l. rewrite app_length. cbn [length]. unfold p in Ep. lia. }
      destruct (N.eqb_spec (enc e) (2 * ff_zuniq maxd dmax x)) as [Heq|Hne].
      + (* Ok(i): the element is the searched cell itself, not flagged *)
        assert (Hf : snd e = false) by (unfold enc in Heq; destruct (snd e); [lia|reflexivity]).
        rewrite Hf. rewrite (set_flag_enc l p e Hnp Hf), enc_half. reflexivity.
      + rewrite T0. exact T1.
  Qed.

  (** no cell of the vector contains x: nothing changes *)
  Theorem visit_nothing l stack x : fcells_ok l -> (forall e, In e l -> ~ contains dmax (fst e) x) ->
    ff_visit maxd dmax (map enc l, stack) x = (map enc l, stack).
  Proof.
    intros [Hdep [Hs Hdis]] Hno.
    assert (Hdepth : forall q b, nth_error l q = Some b -> fst (fst b) <= dmax).
    { intros q b Hq. rewrite Forall_forall in Hdep. apply Hdep. eapply nth_error_In. exact Hq. }
    assert (Hcand : forall q, ff_try_mark maxd dmax x q (map enc l, stack) = (map enc l, stack)).
    { intros q. destruct (nth_error l q) as [b|] eqn:Eb.
      - apply (try_mark_noncont l stack q b x Eb (Hdepth _ _ Eb)). apply Hno. eapply nth_error_In. exact Eb.
      - unfold ff_try_mark. cbn [fst]. rewrite nth_error_map, Eb. reflexivity. }
    unfold ff_visit. cbv zeta. cbn [fst snd].
    set (i := ff_count_lt (2 * ff_zuniq maxd dmax x) (map enc l)).
    rewrite nth_error_map. destruct (nth_error l i) as [b|] eqn:Eb; cbn [option_map].
    - destruct (N.eqb_spec (enc b) (2 * ff_zuniq maxd dmax x)) as [Heq|Hne].
      + exfalso. apply (Hno b (nth_error_In _ _ Eb)).
        assert (Hz : zun maxd (fst b) = zun maxd (dmax, x)).
        { unfold enc in Heq. unfold zun at 2. cbn [fst snd]. destruct (snd b); lia. }
        apply zun_inj in Hz; [|pose proof (Hdepth _ _ Eb); lia|cbn [fst]; lia].
        unfold contains. rewrite Hz. cbn [fst snd]. rewrite N.sub_diag. cbn. apply N.div_1_r.
      + destruct i as [|j]; [apply Hcand|]. rewrite Hcand. apply Hcand.
    - destruct i as [|j]; [reflexivity|apply Hcand].
  Qed.
End VisitGeneral.

(** ---------- the flood fill computes reachability classes ----------
    For ANY external-edge function [ext]: R a b := some cell of ext a is contained in the cell b of the MOC.
    Every component is exactly the set of cells reachable through R from its first cell among the cells
    that were still there when it was started. *)
Section Components.
  Variable maxd dmax : N.
  Hypothesis Hmaxd : maxd <= 64.
  Hypothesis Hdmax : dmax <= maxd.
  Variable ext : N -> N -> list N.
  Notation fcell := ((N * N) * bool)%type.

  Definition Rel1 (a b : N * N) : Prop := exists x, In x (ext (fst a) (snd a)) /\ contains dmax b x.
  Inductive ReachIn (C : list (N * N)) (a : N * N) : N * N -> Prop :=
  | RI_refl : In a C -> ReachIn C a a
  | RI_step b c : ReachIn C a b -> In c C -> Rel1 b c -> ReachIn C a c.

  Definition flagged_of (l : list fcell) : list (N * N) := map fst (filter (fun e => snd e) l).
  Definition is_flagged (l : list fcell) (c : N * N) : Prop := In (c, true) l.

  Lemma mark_at_fst : forall l p, map fst (mark_at p l) = map fst l.
  Proof.
    induction l as [|e t IH]; intros p; [unfold mark_at; destruct p; reflexivity|].
    destruct p as [|p]; unfold mark_at in *; cbn [firstn skipn app map]; [reflexivity|]. f_equal. apply IH.
  Qed.

  Lemma fop_map (P : N * N -> N * N -> Prop) : forall l : list fcell,
    ForallOrdPairs (fun a b => P (fst a) (fst b)) l <-> ForallOrdPairs P (map fst l).
  Proof.
    induction l as [|e t IH]; cbn [map]; split; intros H; try constructor; inversion H as [|? ? H1 H2]; subst.
    - rewrite Forall_map. exact H1.
    - apply IH. exact H2.
    - rewrite Forall_map in H1. exact H1.
    - apply IH. exact H2.
  Qed.

  Lemma fcells_ok_fst l l' : map fst l = map fst l' -> fcells_ok maxd dmax l -> fcells_ok maxd dmax l'.
  Proof.
    intros E [H1 [H2 H3]]. unfold fcells_ok. split; [|split].
    - rewrite <- (Forall_map fst (fun c => fst c <= dmax)) in *. rewrite <- E. exact H1.
    - rewrite <- (map_map fst (zun maxd)) in *. rewrite <- E. exact H2.
    - apply (fop_map (disj maxd)). rewrite <- E. apply (fop_map (disj maxd)). exact H3.
  Qed.

  (** at most one cell of a valid vector contains a given x *)
  Lemma container_unique l a b x : fcells_ok maxd dmax l -> In a l -> In b l ->
    contains dmax (fst a) x -> contains dmax (fst b) x -> fst a = fst b.
  Proof.
    intros [Hdep [Hs Hdis]] Ha Hb Ca Cb.
    destruct (In_nth_error _ _ Ha) as [i Hi]. destruct (In_nth_error _ _ Hb) as [j Hj].
    rewrite Forall_forall in Hdep.
    assert (Hd : forall i j x y, (i < j)%nat -> nth_error l i = Some x -> nth_error l j = Some y -> disj maxd (fst x) (fst y)).
    { clear - Hdis. induction Hdis as [|e t He Ht IH]; intros i j x y Hij Hx Hy; [destruct i; discriminate|].
      destruct i as [|i]; destruct j as [|j]; try lia; cbn [nth_error] in *.
      - inversion Hx; subst. rewrite Forall_forall in He. apply He. eapply nth_error_In. exact Hy.
      - apply (IH i j); [lia|assumption|assumption]. }
    destruct (Nat.lt_trichotomy i j) as [H|[H|H]].
    - exfalso. apply (not_container maxd dmax Hmaxd Hdmax (fst a) (fst b) x (Hdep a Ha) (Hdep b Hb) (Hd i j a b H Hi Hj) Ca Cb).
    - subst j. rewrite Hi in Hj. inversion Hj. reflexivity.
    - exfalso. apply (not_container maxd dmax Hmaxd Hdmax (fst b) (fst a) x (Hdep b Hb) (Hdep a Ha) (Hd j i b a H Hj Hi) Cb Ca).
  Qed.

  (** effect of one search, in terms of flags: l' has the same cells, every flag of l is kept, a cell is newly
      flagged iff it contains x and was not flagged, and exactly the newly flagged cells are pushed *)
  Definition flags_step (x : N) (l l' : list fcell) (pushed : list N) : Prop :=
    map fst l' = map fst l /\
    (forall c, is_flagged l c -> is_flagged l' c) /\
    (forall c, is_flagged l' c -> is_flagged l c \/ (contains dmax c x /\ In (c, false) l)) /\
    (forall c, In c (map fst l) -> contains dmax c x -> is_flagged l' c) /\
    (forall z, In z pushed <-> exists c, z = zun maxd c /\ is_flagged l' c /\ ~ is_flagged l c).


  Lemma mark_at_in_old : forall l p e y, nth_error l p = Some e -> In y l -> y <> e -> In y (mark_at p l).
  Proof.
    induction l as [|a t IH]; intros p e y Hn Hy Hne; [destruct Hy|].
    destruct p as [|p]; cbn [nth_error] in Hn; unfold mark_at in *; cbn [firstn skipn app].
    - inversion Hn; subst a. destruct Hy as [Hy|Hy]; [congruence|right; exact Hy].
    - destruct Hy as [Hy|Hy]; [left; exact Hy|right; apply (IH p e y Hn Hy Hne)].
  Qed.
  Lemma mark_at_in_new : forall l p e, nth_error l p = Some e -> In (fst e, true) (mark_at p l).
  Proof.
    induction l as [|a t IH]; intros p e Hn; [destruct p; discriminate|].
    destruct p as [|p]; cbn [nth_error] in Hn; unfold mark_at in *; cbn [firstn skipn app].
    - inversion Hn; subst a. left. reflexivity.
    - right. apply (IH p e Hn).
  Qed.
  Lemma mark_at_in_inv : forall l p e y, nth_error l p = Some e -> In y (mark_at p l) -> y = (fst e, true) \/ In y l.
  Proof.
    induction l as [|a t IH]; intros p e y Hn Hy; [destruct p; discriminate|].
    destruct p as [|p]; cbn [nth_error] in Hn; unfold mark_at in *; cbn [firstn skipn app] in Hy.
    - inversion Hn; subst a. destruct Hy as [Hy|Hy]; [left; symmetry; exact Hy|right; right; exact Hy].
    - destruct Hy as [Hy|Hy]; [right; left; exact Hy|]. destruct (IH p e y Hn Hy) as [H|H]; [left; exact H|right; right; exact H].
  Qed.

  Lemma sorted_lt_nodup : forall l : list N, StronglySorted N.lt l -> NoDup l.
  Proof.
    induction 1 as [|a t Ht IH Ha]; constructor; [|exact IH].
    intros Hin. rewrite Forall_forall in Ha. specialize (Ha a Hin). lia.
  Qed.

  Lemma same_cell_same_entry l a b : fcells_ok maxd dmax l -> In a l -> In b l -> fst a = fst b -> a = b.
  Proof.
    intros [_ [Hs _]] Ha Hb E. apply sorted_lt_nodup in Hs.
    assert (G : forall (l : list fcell), NoDup (map (fun e => zun maxd (fst e)) l) -> In a l -> In b l -> a = b).
    { clear - E. induction l as [|x t IH]; intros Hn Ha Hb; [destruct Ha|].
      cbn [map] in Hn. inversion Hn as [|? ? Hx Ht]; subst.
      destruct Ha as [Ha|Ha], Hb as [Hb|Hb].
      - congruence.
      - subst x. exfalso. apply Hx. rewrite E. apply (in_map (fun e => zun maxd (fst e))). exact Hb.
      - subst x. exfalso. apply Hx. rewrite <- E. apply (in_map (fun e => zun maxd (fst e))). exact Ha.
      - apply IH; assumption. }
    apply (G l Hs Ha Hb).
  Qed.

  Lemma find_container (x : N) : forall l : list fcell,
    (exists bc e ac, l = bc ++ e :: ac /\ contains dmax (fst e) x) \/ (forall e, In e l -> ~ contains dmax (fst e) x).
  Proof.
    induction l as [|a t IH]; [right; intros e []|].
    destruct (N.eq_dec (x / 4 ^ (dmax - fst (fst a))) (snd (fst a))) as [E|E].
    - left. exists [], a, t. split; [reflexivity|exact E].
    - destruct IH as [[bc [e [ac [E1 E2]]]]|IH].
      + left. exists (a :: bc), e, ac. split; [rewrite E1; reflexivity|exact E2].
      + right. intros e [<-|He]; [exact E|apply IH; exact He].
  Qed.

  Lemma visit_flags l stack x : fcells_ok maxd dmax l ->
    exists l' pushed, ff_visit maxd dmax (map (enc maxd) l, stack) x = (map (enc maxd) l', stack ++ pushed) /\ flags_step x l l' pushed.
  Proof.
    intros Hok.
    destruct (find_container x l) as [[bc [e [ac [El Hc]]]]|Hno].
    - pose proof (visit_general maxd dmax Hmaxd Hdmax bc e ac stack x) as V. cbv zeta in V. rewrite <- El in V.
      specialize (V Hok Hc).
      assert (Hin : In e l) by (rewrite El; apply in_or_app; right; left; reflexivity).
      assert (Hnp : nth_error l (length bc) = Some e).
      { rewrite El. rewrite nth_error_app2 by lia. rewrite Nat.sub_diag. reflexivity. }
      assert (Huniq : forall c, In c (map fst l) -> contains dmax c x -> c = fst e).
      { intros c Hcin Hcc. apply in_map_iff in Hcin. destruct Hcin as [y [<- Hy]].
        apply (container_unique l y e x Hok Hy Hin Hcc Hc). }
      destruct (snd e) eqn:Ef.
      + exists l, []. rewrite app_nil_r. split; [exact V|]. unfold flags_step. split; [reflexivity|]. split; [auto|]. split; [auto|]. split.
        * intros c Hcin Hcc. rewrite (Huniq c Hcin Hcc). unfold is_flagged. destruct e as [ce fe]. cbn [fst snd] in *. subst fe. exact Hin.
        * intros z. split; [intros []|]. intros [c [_ [H1 H2]]]. contradiction.
      + exists (mark_at (length bc) l), [zun maxd (fst e)]. split; [exact V|].
        assert (Ee : e = (fst e, false)) by (destruct e; cbn [fst snd] in *; subst; reflexivity).
        unfold flags_step. split; [apply mark_at_fst|]. split; [|split; [|split]].
        * intros c Hf. unfold is_flagged in *. apply (mark_at_in_old l _ e _ Hnp Hf). rewrite Ee. intros Z. inversion Z.
        * intros c Hf. unfold is_flagged in *. destruct (mark_at_in_inv l _ e _ Hnp Hf) as [H|H]; [|left; exact H].
          right. inversion H; subst c. split; [exact Hc|]. rewrite <- Ee. exact Hin.
        * intros c Hcin Hcc. rewrite (Huniq c Hcin Hcc). apply (mark_at_in_new l _ e Hnp).
        * intros z. split.
          -- intros [<-|[]]. exists (fst e). split; [reflexivity|]. split; [apply (mark_at_in_new l _ e Hnp)|].
             unfold is_flagged. intros Hf. pose proof (same_cell_same_entry l (fst e, true) e Hok Hf Hin eq_refl) as Z.
             rewrite Ee in Z. inversion Z.
          -- intros [c [-> [H1 H2]]]. unfold is_flagged in *.
             destruct (mark_at_in_inv l _ e _ Hnp H1) as [H|H]; [|contradiction].
             inversion H; subst c. left. reflexivity.
    - exists l, []. rewrite app_nil_r. split; [apply (visit_nothing maxd dmax Hmaxd Hdmax l stack x Hok Hno)|].
      unfold flags_step. split; [reflexivity|]. split; [auto|]. split; [auto|]. split.
      + intros c Hcin Hcc. apply in_map_iff in Hcin. destruct Hcin as [y [<- Hy]]. exfalso. exact (Hno y Hy Hcc).
      + intros z. split; [intros []|]. intros [c [_ [H1 H2]]]. contradiction.
  Qed.

  Definition flags_steps (xs : list N) (l l' : list fcell) (pushed : list N) : Prop :=
    map fst l' = map fst l /\
    (forall c, is_flagged l c -> is_flagged l' c) /\
    (forall c, is_flagged l' c -> is_flagged l c \/ (In c (map fst l) /\ exists x, In x xs /\ contains dmax c x)) /\
    (forall c x, In c (map fst l) -> In x xs -> contains dmax c x -> is_flagged l' c) /\
    (forall z, In z pushed <-> exists c, z = zun maxd c /\ is_flagged l' c /\ ~ is_flagged l c).

  Lemma fcell_eq_dec : forall a b : fcell, {a = b} + {a <> b}.
  Proof. decide equality; [apply Bool.bool_dec|decide equality; apply N.eq_dec]. Qed.
  Lemma flagged_dec l c : {is_flagged l c} + {~ is_flagged l c}.
  Proof. unfold is_flagged. apply in_dec. apply fcell_eq_dec. Qed.

  Lemma visits_flags : forall xs l stack, fcells_ok maxd dmax l ->
    exists l' pushed, fold_left (ff_visit maxd dmax) xs (map (enc maxd) l, stack) = (map (enc maxd) l', stack ++ pushed) /\
                      flags_steps xs l l' pushed.
  Proof.
    induction xs as [|x xs IH]; intros l stack Hok.
    - exists l, []. rewrite app_nil_r. split; [reflexivity|]. unfold flags_steps. split; [reflexivity|]. split; [auto|]. split; [auto|]. split.
      + intros c x _ [].
      + intros z. split; [intros []|]. intros [c [_ [H1 H2]]]. contradiction.
    - cbn [fold_left]. destruct (visit_flags l stack x Hok) as [l1 [p1 [V1 [A1 [A2 [A3 [A4 A5]]]]]]]. rewrite V1.
      assert (Hok1 : fcells_ok maxd dmax l1) by (apply (fcells_ok_fst l l1); [symmetry; exact A1|exact Hok]).
      destruct (IH l1 (stack ++ p1) Hok1) as [l2 [p2 [V2 [B1 [B2 [B3 [B4 B5]]]]]]]. rewrite V2.
      exists l2, (p1 ++ p2). split; [rewrite <- app_assoc; reflexivity|].
      unfold flags_steps. split; [congruence|]. split; [auto|]. split; [|split].
      + intros c Hc. destruct (B3 c Hc) as [H|[H1 [y [Hy1 Hy2]]]].
        * destruct (A3 c H) as [H'|[H1 H2]]; [left; exact H'|].
          right. split; [apply (in_map fst) in H2; exact H2|]. exists x. split; [left; reflexivity|exact H1].
        * right. split; [rewrite <- A1; exact H1|]. exists y. split; [right; exact Hy1|exact Hy2].
      + intros c y Hc [<-|Hy] Hcy.
        * apply B2. apply (A4 c Hc Hcy).
        * apply (B4 c y); [rewrite A1; exact Hc|exact Hy|exact Hcy].
      + intros z. rewrite in_app_iff, A5, B5. split.
        * intros [[c [E [H1 H2]]]|[c [E [H1 H2]]]]; exists c; (split; [exact E|split]); auto.
        * intros [c [E [H1 H2]]]. destruct (flagged_dec l1 c) as [F|F]; [left|right]; exists c; auto.
  Qed.

  Lemma insert_in x l z : In z (ff_insert x l) <-> z = x \/ In z l.
  Proof.
    induction l as [|y t IH]; cbn [ff_insert In]; [split; intros [H|H]; auto|].
    destruct (x <=? y); cbn [In]; [split; intros [H|H]; auto|]. rewrite IH. split; intros H; tauto.
  Qed.
  Lemma sort_in l z : In z (ff_sort l) <-> In z l.
  Proof.
    induction l as [|x t IH]; [reflexivity|]. cbn [ff_sort fold_right]. fold (ff_sort t). rewrite insert_in, IH. cbn [In]. split; intros [H|H]; auto.
  Qed.

  Variable start : N * N.

  Definition Inv (l : list fcell) (stack : list N) : Prop :=
    (forall z, In z stack -> exists c, z = zun maxd c /\ is_flagged l c) /\
    (forall c, is_flagged l c -> ~ In (zun maxd c) stack ->
               forall b, In b (map fst l) -> Rel1 c b -> is_flagged l b) /\
    (forall c, is_flagged l c -> ReachIn (map fst l) start c).

  Lemma flagged_depth l c : fcells_ok maxd dmax l -> is_flagged l c -> fst c <= maxd /\ In c (map fst l).
  Proof.
    intros [Hd _] Hf. unfold is_flagged in Hf. rewrite Forall_forall in Hd. specialize (Hd _ Hf). cbn [fst] in Hd.
    split; [lia|]. apply (in_map fst) in Hf. exact Hf.
  Qed.

  Lemma inner_inv : forall fuel l stack, (length stack + U (map (enc maxd) l) < fuel)%nat ->
    fcells_ok maxd dmax l -> Inv l stack ->
    exists l', ff_inner maxd dmax ext fuel (map (enc maxd) l) stack = Some (map (enc maxd) l') /\
               map fst l' = map fst l /\ Inv l' [] /\ (forall c, is_flagged l c -> is_flagged l' c).
  Proof.
    induction fuel as [|f IH]; intros l stack Hf Hok HI; [lia|].
    cbn [ff_inner]. destruct stack as [|s0 st0] eqn:ES.
    - exists l. split; [reflexivity|]. split; [reflexivity|]. split; [exact HI|auto].
    - rewrite <- ES in *. cbv zeta.
      assert (Hne : stack <> []) by (rewrite ES; discriminate).
      pose proof (app_removelast_last 0 Hne) as Esplit.
      set (z := last stack 0) in *. set (stack' := removelast stack) in *.
      destruct HI as [Ia [Ib Ic]].
      destruct (Ia z ltac:(rewrite Esplit; apply in_or_app; right; left; reflexivity)) as [c [Ez Fc]].
      destruct (flagged_depth l c Hok Fc) as [Hcd HcC].
      assert (Edec : ff_from_zuniq maxd z = c).
      { rewrite Ez. unfold zun. rewrite (from_zuniq_zuniq maxd (fst c) (snd c) Hcd Hmaxd). destruct c; reflexivity. }
      rewrite Edec.
      destruct (visits_flags (ext (fst c) (snd c)) l stack' Hok) as [l1 [pushed [V [A1 [A2 [A3 [A4 A5]]]]]]].
      pose proof (visits_ok maxd dmax (ext (fst c) (snd c)) (map (enc maxd) l, stack')) as [_ Hnum].
      rewrite V in *. cbn [fst snd] in Hnum |- *.
      assert (Hok1 : fcells_ok maxd dmax l1) by (apply (fcells_ok_fst l l1); [symmetry; exact A1|exact Hok]).
      set (s2 := if (length stack' <? length (stack' ++ pushed))%nat then ff_sort (stack' ++ pushed) else stack' ++ pushed).
      assert (Hs2in : forall y, In y s2 <-> In y stack' \/ In y pushed).
      { intros y. unfold s2. destruct (_ <? _)%nat; rewrite ?sort_in, in_app_iff; reflexivity. }
      assert (Hs2len : length s2 = length (stack' ++ pushed)).
      { unfold s2. destruct (_ <? _)%nat; rewrite ?sort_length; reflexivity. }
      assert (Hlen : S (length stack') = length stack).
      { assert (Hl : length stack = length (stack' ++ [z])) by (rewrite <- Esplit; reflexivity). rewrite Hl, app_length. cbn [length]. lia. }
      destruct (IH l1 s2) as [l' [E1 [E2 [E3 E4]]]].
      + rewrite Hs2len. lia.
      + exact Hok1.
      + unfold Inv. rewrite A1. split; [|split].
        * intros y Hy. apply Hs2in in Hy. destruct Hy as [Hy|Hy].
          -- destruct (Ia y ltac:(rewrite Esplit; apply in_or_app; left; exact Hy)) as [c' [E' F']]. exists c'. split; [exact E'|apply A2; exact F'].
          -- apply A5 in Hy. destruct Hy as [c' [E' [F' _]]]. exists c'. split; assumption.
        * intros c0 F0 Hnot b Hb HR.
          assert (Hn1 : ~ In (zun maxd c0) stack') by (intros Z; apply Hnot; apply Hs2in; left; exact Z).
          assert (Hn2 : ~ In (zun maxd c0) pushed) by (intros Z; apply Hnot; apply Hs2in; right; exact Z).
          destruct (flagged_dec l c0) as [Fl|Fl].
          -- destruct (N.eq_dec (zun maxd c0) z) as [Ezz|Ezz].
             ++ (* c0 is the popped cell *)
                assert (c0 = c).
                { destruct (flagged_depth l c0 Hok Fl) as [Hd0 _]. apply (zun_inj maxd Hmaxd c0 c Hd0 Hcd). congruence. }
                subst c0. destruct HR as [x [Hx1 Hx2]]. apply (A4 b x Hb Hx1 Hx2).
             ++ apply A2. apply (Ib c0 Fl); [|exact Hb|exact HR].
                rewrite Esplit. intros Z. apply in_app_or in Z. destruct Z as [Z|[Z|[]]]; [exact (Hn1 Z)|congruence].
          -- exfalso. apply Hn2. apply A5. exists c0. auto.
        * intros c0 F0. destruct (A3 c0 F0) as [Fl|[HC [x [Hx1 Hx2]]]]; [apply Ic; exact Fl|].
          apply (RI_step (map fst l) start c c0); [apply Ic; exact Fc|exact HC|]. exists x. split; assumption.
      + exists l'. split; [exact E1|]. split; [congruence|]. split; [exact E3|]. intros c0 F0. apply E4. apply A2. exact F0.
  Qed.
End Components.

Section Components2.
  Variable maxd dmax : N.
  Hypothesis Hmaxd : maxd <= 64.
  Hypothesis Hdmax : dmax <= maxd.
  Variable ext : N -> N -> list N.
  Notation fcell := ((N * N) * bool)%type.

  Let enc_half := enc_half maxd dmax Hmaxd Hdmax.
  Let enc_flag := enc_flag maxd dmax Hmaxd Hdmax.

  Definition fresh (cells : list (N * N)) : list fcell := map (fun c => (c, false)) cells.

  Lemma fresh_enc cells : map (enc maxd) (fresh cells) = map (fun c : N * N => 2 * ff_zuniq maxd (fst c) (snd c)) cells.
  Proof. unfold fresh. rewrite map_map. apply map_ext. intros c. unfold enc, zun. cbn [fst snd]. lia. Qed.

  Lemma fresh_fst cells : map fst (fresh cells) = cells.
  Proof. unfold fresh. rewrite map_map. cbn [fst]. apply map_id. Qed.

  Lemma filter_flagged_enc (l : list fcell) : filter ff_flagged (map (enc maxd) l) = map (enc maxd) (filter (fun e => snd e) l).
  Proof. induction l as [|e t IH]; [reflexivity|]. cbn [map filter]. rewrite enc_flag. destruct (snd e); cbn [map]; rewrite IH; reflexivity. Qed.
  Lemma filter_unflagged_enc (l : list fcell) :
    filter (fun y => negb (ff_flagged y)) (map (enc maxd) l) = map (enc maxd) (filter (fun e => negb (snd e)) l).
  Proof. induction l as [|e t IH]; [reflexivity|]. cbn [map filter]. rewrite enc_flag. destruct (snd e); cbn [negb map]; rewrite IH; reflexivity. Qed.

  Lemma unflagged_fresh (l : list fcell) : filter (fun e => negb (snd e)) l = fresh (map fst (filter (fun e => negb (snd e)) l)).
  Proof.
    induction l as [|e t IH]; [reflexivity|]. cbn [filter]. destruct e as [c f]. cbn [snd]. destruct f; cbn [negb]; [exact IH|].
    cbn [map fst fresh]. unfold fresh in IH. rewrite <- IH. reflexivity.
  Qed.

  Lemma U_enc (l : list fcell) : U (map (enc maxd) l) = length (filter (fun e => negb (snd e)) l).
  Proof. unfold U. rewrite filter_unflagged_enc, map_length. reflexivity. Qed.

  Lemma decode_cells (l : list fcell) : Forall (fun e => fst (fst e) <= maxd) l ->
    map (fun y => ff_from_zuniq maxd (y / 2)) (map (enc maxd) l) = map fst l.
  Proof.
    induction 1 as [|e t He _ IH]; [reflexivity|]. cbn [map]. rewrite IH, enc_half. unfold zun.
    rewrite (from_zuniq_zuniq maxd _ _ He Hmaxd). destruct (fst e); reflexivity.
  Qed.

  Lemma sorted_filter (f : fcell -> bool) (g : fcell -> N) : forall l, StronglySorted N.lt (map g l) -> StronglySorted N.lt (map g (filter f l)).
  Proof.
    induction l as [|e t IH]; intros H; [constructor|]. cbn [map] in H. inversion H as [|? ? Ht Ha]; subst.
    cbn [filter]. destruct (f e); [|apply IH; exact Ht]. cbn [map]. constructor; [apply IH; exact Ht|].
    rewrite Forall_map in *. rewrite Forall_forall in *. intros y Hy. apply filter_In in Hy. apply Ha. tauto.
  Qed.

  Lemma fop_filter {A} (P : A -> A -> Prop) (f : A -> bool) : forall l, ForallOrdPairs P l -> ForallOrdPairs P (filter f l).
  Proof.
    induction 1 as [|a t Ha Ht IH]; [constructor|]. cbn [filter]. destruct (f a); [|exact IH]. constructor; [|exact IH].
    rewrite Forall_forall in *. intros y Hy. apply filter_In in Hy. apply Ha. tauto.
  Qed.

  Lemma fcells_ok_filter (f : fcell -> bool) l : fcells_ok maxd dmax l -> fcells_ok maxd dmax (filter f l).
  Proof.
    intros [H1 [H2 H3]]. split; [|split].
    - rewrite Forall_forall in *. intros e He. apply filter_In in He. apply H1. tauto.
    - apply sorted_filter. exact H2.
    - apply fop_filter. exact H3.
  Qed.

  Inductive SplitSpec : list (N * N) -> list (list (N * N)) -> Prop :=
  | SS_nil : SplitSpec [] []
  | SS_cons a t (l' : list fcell) comps :
      map fst l' = a :: t ->
      (forall b, is_flagged l' b <-> In b (a :: t) /\ ReachIn dmax ext (a :: t) a b) ->
      SplitSpec (map fst (filter (fun e => negb (snd e)) l')) comps ->
      SplitSpec (a :: t) (map fst (filter (fun e => snd e) l') :: comps).

  Lemma outer_spec : forall fuel cells l_acc, fcells_ok maxd dmax (fresh cells) -> (length cells < fuel)%nat ->
    exists comps, ff_outer maxd dmax ext fuel (map (enc maxd) (fresh cells)) l_acc = Some (l_acc ++ comps) /\ SplitSpec cells comps.
  Proof.
    induction fuel as [|f IH]; intros cells l_acc Hok Hf; [lia|].
    destruct cells as [|a t].
    - exists []. rewrite app_nil_r. split; [reflexivity|constructor].
    - cbn [fresh map ff_outer]. fold (fresh t).
      set (l0 := ((a, true) : fcell) :: fresh t).
      assert (E0 : (enc maxd (a, false) + 1) :: map (enc maxd) (fresh t) = map (enc maxd) l0).
      { unfold l0. cbn [map]. f_equal. unfold enc. cbn [fst snd]. lia. }
      rewrite E0. rewrite enc_half. cbn [fst].
      assert (Hfst0 : map fst l0 = a :: t) by (unfold l0; cbn [map fst]; rewrite fresh_fst; reflexivity).
      assert (Hok0 : fcells_ok maxd dmax l0).
      { apply (fcells_ok_fst maxd dmax (fresh (a :: t)) l0); [rewrite fresh_fst, Hfst0; reflexivity|exact Hok]. }
      assert (HI0 : Inv maxd dmax ext a l0 [zun maxd a]).
      { unfold Inv. split; [|split].
        - intros z [<-|[]]. exists a. split; [reflexivity|]. left. reflexivity.
        - intros c Fc Hn. exfalso. apply Hn. unfold is_flagged, l0 in Fc. destruct Fc as [Fc|Fc]; [inversion Fc; left; reflexivity|].
          unfold fresh in Fc. apply in_map_iff in Fc. destruct Fc as [y [Ey _]]. inversion Ey.
        - intros c Fc. unfold is_flagged, l0 in Fc. destruct Fc as [Fc|Fc].
          + inversion Fc; subst c. constructor. rewrite Hfst0. left. reflexivity.
          + unfold fresh in Fc. apply in_map_iff in Fc. destruct Fc as [y [Ey _]]. inversion Ey. }
      destruct (inner_inv maxd dmax Hmaxd Hdmax ext a (S (length (enc maxd (a, false) :: map (enc maxd) (fresh t)))) l0 [zun maxd a]) as [l' [E1 [E2 [E3 E4]]]].
      + rewrite U_enc. unfold l0. cbn [filter snd negb length]. rewrite map_length.
        pose proof (filter_len (fun e : fcell => negb (snd e)) (fresh t)). unfold fresh in *. rewrite map_length in *. lia.
      + exact Hok0.
      + exact HI0.
      + rewrite E1. rewrite filter_flagged_enc, filter_unflagged_enc.
        assert (Hok' : fcells_ok maxd dmax l') by (apply (fcells_ok_fst maxd dmax l0 l'); [symmetry; exact E2|exact Hok0]).
        assert (Hdec : map (fun y => ff_from_zuniq maxd (y / 2)) (map (enc maxd) (filter (fun e => snd e) l')) = map fst (filter (fun e => snd e) l')).
        { apply decode_cells. destruct (fcells_ok_filter (fun e => snd e) l' Hok') as [Hd _]. eapply Forall_impl; [|exact Hd]. intros e He. cbn beta in He. lia. }
        rewrite Hdec. rewrite (unflagged_fresh l').
        set (rest := map fst (filter (fun e => negb (snd e)) l')).
        assert (Hokr : fcells_ok maxd dmax (fresh rest)).
        { unfold rest. rewrite <- unflagged_fresh. apply fcells_ok_filter. exact Hok'. }
        assert (Hlr : (length rest < f)%nat).
        { unfold rest. rewrite map_length.
          assert (Hfl : is_flagged l' a) by (apply E4; left; reflexivity).
          assert (Hl' : length l' = S (length t)) by (rewrite <- (map_length fst l'), E2, Hfst0; reflexivity).
          assert (Hlt : (length (filter (fun e => negb (snd e)) l') < length l')%nat).
          { clear - Hfl. unfold is_flagged in Hfl. induction l' as [|e r IHr]; [destruct Hfl|].
            cbn [filter]. destruct Hfl as [->|Hfl]; cbn [snd negb length].
            - pose proof (filter_len (fun e : fcell => negb (snd e)) r). lia.
            - specialize (IHr Hfl). destruct (negb (snd e)); cbn [length]; lia. }
          cbn [length] in Hf. lia. }
        destruct (IH rest (l_acc ++ [map fst (filter (fun e => snd e) l')]) Hokr Hlr) as [comps [C1 C2]].
        exists (map fst (filter (fun e => snd e) l') :: comps). split; [rewrite C1, <- app_assoc; reflexivity|].
        assert (Hfst' : map fst l' = a :: t) by (rewrite E2; exact Hfst0).
        apply (SS_cons a t l' comps); [exact Hfst'| |exact C2].
        destruct E3 as [_ [Ib Ic]]. rewrite Hfst' in Ib, Ic. intros b. split.
        * intros Fb. split; [|apply Ic; exact Fb].
          destruct (flagged_depth maxd dmax Hmaxd Hdmax l' b Hok' Fb) as [_ Hin]. rewrite Hfst' in Hin. exact Hin.
        * intros [_ HR]. induction HR as [Ha|b c Hab IHab Hc HRel].
          -- apply E4. left. reflexivity.
          -- apply (Ib b IHab (fun Z => Z) c Hc HRel).
  Qed.

  (** the flood fill of split_into_joint_mocs_gen, for ANY external-edge function: it ends, and every component
      is the set of the cells reachable (through "an external-edge cell of a is inside b") from the first
      remaining cell, in vector order; the next component is computed on the cells that are left *)
  Theorem split_components cells :
    Forall (fun c => fst c <= dmax) cells ->
    StronglySorted N.lt (map (zun maxd) cells) ->
    ForallOrdPairs (disj maxd) cells ->
    exists comps, ff_split maxd dmax ext cells = Some comps /\ SplitSpec cells comps.
  Proof.
    intros H1 H2 H3. unfold ff_split. rewrite <- fresh_enc.
    assert (Hok : fcells_ok maxd dmax (fresh cells)).
    { unfold fcells_ok, fresh. split; [|split].
      - rewrite Forall_map. exact H1.
      - rewrite map_map. exact H2.
      - apply (fop_map (disj maxd)). rewrite map_map. cbn [fst]. rewrite map_id. exact H3. }
    destruct (outer_spec (S (length (map (enc maxd) (fresh cells)))) cells [] Hok) as [comps [C1 C2]].
    { unfold fresh. rewrite !map_length. lia. }
    exists comps. split; [exact C1|exact C2].
  Qed.
End Components2.
