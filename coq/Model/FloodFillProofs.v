(** Model/FloodFillProofs.v — what the flood fill of Model/FloodFill.v guarantees WHATEVER the external
    edges are: both loops end within their fuel, every component is a non-empty list of cells, and the
    components, concatenated, are a permutation of the cells of the MOC (each cell in exactly one
    component).  That the components are the connected components is decided at run time by the verified
    checker of Model/Neigh.v on the implementation's output. *)
From Coq Require Import List NArith Arith Lia Bool Permutation.
From MOC.Model Require Import FloodFill.
Import ListNotations.
Open Scope N_scope.

Section FF.
  Variable maxd : N.
  Variable dmax : N.
  Variable ext : N -> N -> list N.

  Definition rel1 (a b : N) : Prop := a / 2 = b / 2 /\ (ff_flagged a = true -> ff_flagged b = true).
  Definition Rel (e e' : list N) : Prop := Forall2 rel1 e e'.
  Definition U (e : list N) : nat := length (filter (fun y => negb (ff_flagged y)) e).

  Lemma Rel_refl e : Rel e e.
  Proof. induction e; constructor; [split; auto|assumption]. Qed.
  Lemma Rel_trans a b c : Rel a b -> Rel b c -> Rel a c.
  Proof.
    intros H. revert c. induction H as [|x y l l' [H1 H2] _ IH]; intros c Hc; inversion Hc as [|? z ? l'' [H3 H4] Hc']; subst; constructor.
    - split; [congruence|auto].
    - apply IH. exact Hc'.
  Qed.

  Lemma flag_succ zf : ff_flagged zf = false -> (zf + 1) / 2 = zf / 2 /\ ff_flagged (zf + 1) = true.
  Proof.
    unfold ff_flagged. intros H. apply N.eqb_neq in H.
    remember (zf / 2) as k eqn:Ek. remember (zf mod 2) as m eqn:Em.
    assert (Hz : zf = 2 * k + m /\ m < 2) by (subst; split; [apply N.div_mod; lia|apply N.mod_lt; lia]).
    destruct Hz as [Hz Hm]. assert (m = 0) by lia. subst m.
    assert (E : zf + 1 = 1 + k * 2) by lia. rewrite E. split.
    - rewrite N.div_add by lia. reflexivity.
    - rewrite N.mod_add by lia. reflexivity.
  Qed.

  Lemma set_flag_rel : forall e i zf, nth_error e i = Some zf -> ff_flagged zf = false ->
    Rel e (set_flag i e) /\ S (U (set_flag i e)) = U e.
  Proof.
    induction e as [|x t IH]; intros i zf Hn Hf; [destruct i; discriminate|].
    destruct i as [|j]; cbn [nth_error set_flag] in *.
    - inversion Hn; subst x. destruct (flag_succ zf Hf) as [A B]. split.
      + constructor; [split; [symmetry; exact A|intros _; exact B]|apply Rel_refl].
      + unfold U. cbn [filter]. rewrite B, Hf. cbn [negb length]. reflexivity.
    - destruct (IH j zf Hn Hf) as [A B]. split.
      + constructor; [split; auto|exact A].
      + unfold U in *. cbn [filter]. destruct (negb (ff_flagged x)); cbn [length]; lia.
  Qed.

  Definition step_ok (st st' : list N * list N) : Prop :=
    Rel (fst st) (fst st') /\ (length (snd st') + U (fst st') = length (snd st) + U (fst st))%nat.

  Lemma step_ok_refl st : step_ok st st.
  Proof. split; [apply Rel_refl|reflexivity]. Qed.
  Lemma step_ok_trans a b c : step_ok a b -> step_ok b c -> step_ok a c.
  Proof. intros [A1 A2] [B1 B2]. split; [eapply Rel_trans; eassumption|lia]. Qed.

  Lemma try_mark_ok neig i st : step_ok st (ff_try_mark maxd dmax neig i st).
  Proof.
    unfold ff_try_mark. destruct (nth_error (fst st) i) as [zf|] eqn:E; [|apply step_ok_refl].
    destruct (ff_flagged zf) eqn:F; [apply step_ok_refl|].
    destruct (_ =? _); [|apply step_ok_refl].
    destruct (set_flag_rel _ _ _ E F) as [A B]. split; cbn [fst snd]; [exact A|]. rewrite app_length. cbn [length]. lia.
  Qed.

  Lemma visit_ok st neig : step_ok st (ff_visit maxd dmax st neig).
  Proof.
    unfold ff_visit. cbv zeta.
    destruct (nth_error (fst st) (ff_count_lt (2 * ff_zuniq maxd dmax neig) (fst st))) as [x|] eqn:E.
    - destruct (N.eqb_spec x (2 * ff_zuniq maxd dmax neig)) as [Hx|Hx].
      + assert (F : ff_flagged x = false).
        { unfold ff_flagged. rewrite Hx. rewrite N.mul_comm, N.mod_mul by lia. reflexivity. }
        destruct (set_flag_rel _ _ _ E F) as [A B]. split; cbn [fst snd]; [exact A|]. rewrite app_length. cbn [length]. lia.
      + eapply step_ok_trans; [|apply try_mark_ok].
        destruct (ff_count_lt _ _); [apply step_ok_refl|apply try_mark_ok].
    - destruct (ff_count_lt _ _); [apply step_ok_refl|apply try_mark_ok].
  Qed.

  Lemma visits_ok l : forall st, step_ok st (fold_left (ff_visit maxd dmax) l st).
  Proof.
    induction l as [|n l IH]; intros st; [apply step_ok_refl|].
    cbn [fold_left]. eapply step_ok_trans; [apply visit_ok|apply IH].
  Qed.

  Lemma insert_length x l : length (ff_insert x l) = S (length l).
  Proof. induction l as [|y t IH]; [reflexivity|]. cbn [ff_insert]. destruct (x <=? y); cbn [length]; [reflexivity|rewrite IH; reflexivity]. Qed.
  Lemma sort_length l : length (ff_sort l) = length l.
  Proof. induction l as [|x t IH]; [reflexivity|]. cbn [ff_sort fold_right]. fold (ff_sort t). rewrite insert_length, IH. reflexivity. Qed.

  Lemma inner_total : forall fuel elems stack, (length stack + U elems < fuel)%nat ->
    exists e', ff_inner maxd dmax ext fuel elems stack = Some e' /\ Rel elems e'.
  Proof.
    induction fuel as [|f IH]; intros elems stack Hf; [lia|].
    cbn [ff_inner]. destruct stack as [|s0 st0] eqn:ES; [exists elems; split; [reflexivity|apply Rel_refl]|].
    rewrite <- ES in *. cbv zeta.
    set (c := ff_from_zuniq maxd (last stack 0)).
    pose proof (visits_ok (ext (fst c) (snd c)) (elems, removelast stack)) as [A B].
    set (st := fold_left (ff_visit maxd dmax) (ext (fst c) (snd c)) (elems, removelast stack)) in *.
    cbn [fst snd] in A, B.
    assert (Hrl : S (length (removelast stack)) = length stack).
    { rewrite ES. clear. revert s0. induction st0 as [|y t IHt]; intros s0; [reflexivity|].
      change (removelast (s0 :: y :: t)) with (s0 :: removelast (y :: t)). cbn [length]. rewrite IHt. reflexivity. }
    destruct (IH (fst st) (if (length (removelast stack) <? length (snd st))%nat then ff_sort (snd st) else snd st)) as [e' [E1 E2]].
    { destruct (_ <? _)%nat; rewrite ?sort_length; lia. }
    exists e'. split; [exact E1|eapply Rel_trans; eassumption].
  Qed.

  Definition cellsof (e : list N) : list (N * N) := map (fun y => ff_from_zuniq maxd (y / 2)) e.
  Definition all_even (e : list N) : Prop := Forall (fun y => ff_flagged y = false) e.

  Lemma Rel_cellsof e e' : Rel e e' -> cellsof e = cellsof e'.
  Proof. induction 1 as [|x y l l' [H _] _ IH]; [reflexivity|]. unfold cellsof in *. cbn [map]. rewrite H, IH. reflexivity. Qed.

  Lemma Rel_length e e' : Rel e e' -> length e = length e'.
  Proof. induction 1; cbn [length]; congruence. Qed.

  Lemma U_le e : (U e <= length e)%nat.
  Proof. unfold U. induction e as [|x t IH]; [reflexivity|]. cbn [filter]. destruct (negb (ff_flagged x)); cbn [length]; lia. Qed.

  Lemma filter_len {A} (f : A -> bool) (l : list A) : (length (filter f l) <= length l)%nat.
  Proof. induction l as [|x t IH]; [reflexivity|]. cbn [filter]. destruct (f x); cbn [length]; lia. Qed.

  Lemma filter_split_perm {A} (f : A -> bool) (l : list A) : Permutation l (filter f l ++ filter (fun y => negb (f y)) l).
  Proof.
    induction l as [|x t IH]; [constructor|]. cbn [filter]. destruct (f x); cbn [negb app].
    - constructor. exact IH.
    - eapply Permutation_trans; [constructor; exact IH|]. apply Permutation_middle.
  Qed.

  Lemma outer_total : forall fuel elems l_acc, all_even elems -> (length elems < fuel)%nat ->
    exists comps, ff_outer maxd dmax ext fuel elems l_acc = Some (l_acc ++ comps) /\
                  Forall (fun c => c <> []) comps /\ Permutation (concat comps) (cellsof elems).
  Proof.
    induction fuel as [|f IH]; intros elems l_acc Hev Hf; [lia|].
    cbn [ff_outer]. destruct elems as [|x t].
    - exists []. rewrite app_nil_r. split; [reflexivity|split; constructor].
    - inversion Hev as [|? ? Hx Ht]; subst.
      destruct (flag_succ x Hx) as [Hhalf Hfl].
      destruct (inner_total (S (length (x :: t))) ((x + 1) :: t) [x / 2]) as [e2 [E1 E2]].
      { unfold U. cbn [filter length]. rewrite Hfl. cbn [negb]. pose proof (U_le t). unfold U in H. lia. }
      rewrite E1.
      inversion E2 as [|? y0 ? e2' [R1 R2] R3]; subst.
      pose proof (R2 Hfl) as Hy0.
      set (rest := filter (fun y => negb (ff_flagged y)) (y0 :: e2')).
      assert (Hrest_even : all_even rest).
      { apply Forall_forall. intros y Hy. apply filter_In in Hy. destruct Hy as [_ Hy]. apply negb_true_iff in Hy. exact Hy. }
      assert (Hrest_len : (length rest < f)%nat).
      { unfold rest. cbn [filter]. rewrite Hy0. cbn [negb].
        pose proof (filter_len (fun y => negb (ff_flagged y)) e2'). pose proof (Rel_length _ _ R3). cbn [length] in Hf. lia. }
      destruct (IH rest (l_acc ++ [map (fun y => ff_from_zuniq maxd (y / 2)) (filter ff_flagged (y0 :: e2'))]) Hrest_even Hrest_len)
        as [comps [C1 [C2 C3]]].
      exists (cellsof (filter ff_flagged (y0 :: e2')) :: comps). split; [|split].
      + fold rest. rewrite C1, <- app_assoc. reflexivity.
      + constructor; [|exact C2]. cbn [filter]. rewrite Hy0. discriminate.
      + cbn [concat].
        eapply Permutation_trans; [apply Permutation_app_head; exact C3|].
        assert (Hc : cellsof (x :: t) = cellsof (y0 :: e2')).
        { rewrite <- (Rel_cellsof _ _ E2). unfold cellsof. cbn [map]. rewrite Hhalf. reflexivity. }
        rewrite Hc. unfold cellsof, rest. rewrite <- map_app. apply Permutation_map.
        apply Permutation_sym. apply filter_split_perm.
  Qed.

  (** decoding a zuniq *)
  Lemma tzeros_pow : forall (j f : nat) i, (j < f)%nat -> tzeros f ((2 * i + 1) * 2 ^ N.of_nat j) = N.of_nat j.
  Proof.
    induction j as [|j IH]; intros f i Hf; (destruct f as [|f]; [lia|]); cbn [tzeros].
    - cbn [N.of_nat]. rewrite N.pow_0_r, N.mul_1_r.
      replace (2 * i + 1) with (1 + i * 2) by lia. rewrite N.mod_add by lia. reflexivity.
    - rewrite Nat2N.inj_succ, N.pow_succ_r'.
      replace ((2 * i + 1) * (2 * 2 ^ N.of_nat j)) with (((2 * i + 1) * 2 ^ N.of_nat j) * 2) by lia.
      rewrite N.mod_mul by lia. cbn [N.eqb]. rewrite N.div_mul by lia. rewrite IH by lia. lia.
  Qed.

  Lemma from_zuniq_zuniq d i : d <= maxd -> maxd <= 64 -> ff_from_zuniq maxd (ff_zuniq maxd d i) = (d, i).
  Proof.
    intros Hd Hm. unfold ff_from_zuniq, ff_zuniq.
    set (k := maxd - d).
    assert (E4 : 4 ^ k = 2 ^ N.of_nat (N.to_nat (2 * k))).
    { rewrite N2Nat.id. change 4 with (2 ^ 2). rewrite <- N.pow_mul_r. reflexivity. }
    rewrite E4. rewrite (tzeros_pow (N.to_nat (2 * k)) 130 i) by lia. rewrite N2Nat.id. cbv zeta.
    f_equal.
    - replace (2 * k) with (k * 2) by lia. rewrite N.div_mul by lia. unfold k. lia.
    - rewrite N.pow_add_r, N.pow_1_r. rewrite <- N.div_div by (try lia; apply N.pow_nonzero; lia).
      rewrite N.div_mul by (apply N.pow_nonzero; lia).
      replace (2 * i + 1) with (1 + i * 2) by lia. rewrite N.div_add by lia. reflexivity.
  Qed.

  Theorem split_partition cells : maxd <= 64 -> Forall (fun c => fst c <= maxd) cells ->
    exists comps, ff_split maxd dmax ext cells = Some comps /\
                  Forall (fun c => c <> []) comps /\ Permutation (concat comps) cells.
  Proof.
    intros Hm Hc. unfold ff_split.
    set (elems := map (fun c : N * N => 2 * ff_zuniq maxd (fst c) (snd c)) cells).
    assert (Hev : all_even elems).
    { unfold elems. apply Forall_forall. intros y Hy. apply in_map_iff in Hy. destruct Hy as [c [<- _]].
      unfold ff_flagged. rewrite N.mul_comm, N.mod_mul by lia. reflexivity. }
    destruct (outer_total (S (length elems)) elems [] Hev (Nat.lt_succ_diag_r _)) as [comps [C1 [C2 C3]]].
    exists comps. split; [exact C1|]. split; [exact C2|].
    assert (E : cellsof elems = cells).
    { unfold cellsof, elems. rewrite map_map. rewrite <- (map_id cells) at 2. apply map_ext_in. intros c Hin.
      rewrite N.mul_comm, N.div_mul by lia. rewrite Forall_forall in Hc. rewrite (from_zuniq_zuniq _ _ (Hc c Hin) Hm).
      destruct c; reflexivity. }
    rewrite <- E. exact C3.
  Qed.
End FF.
