(** Model/JsonCodec.v — (F, character level) the Aladin JSON writers of src/deser/json.rs as written.
    to_json_aladin: one string bucket per depth, initialised to  <prefix>  "<d>": [ ; every cell appends
    "<idx>, ", preceded by "\n    <prefix>" when fold = Some n and
    len(bucket) - rfind(bucket, '\n').unwrap_or(0) + len("<idx>, ") > n; the document is "{\n", the
    non-empty buckets without their final ", " and closed by "]" (separated by ",\n"), the empty bucket of
    the deepest level as "<...>[]", then "\n<prefix>}".
    cellmoc2d_to_json_aladin: "[\n", per element  {\n  "<p1>": <doc1>,\n  "<p2>": <doc2>\n}  separated by
    ",\n", then  { "<p1>": { "<d1>": [] }, "<p2>": { "<d2>": [] } }  and "\n]\n".
    Characters are byte codes. *)
From Coq Require Import List NArith Arith Lia Bool.
From MOC.Base Require Import RangeSet.
From MOC.Model Require Import Qty Repr AsciiCodec.
Import ListNotations.
Open Scope N_scope.

Definition jbucket0 (prefix : list N) (d : N) : list N :=
  prefix ++ [32; 32; 34] ++ adec d ++ [34; 58; 32; 91].          (*   "d": [  *)

Definition jpush (fold : option N) (prefix : list N) (sd s : list N) : list N :=
  match fold with
  | Some n => (if n <? len sd - rfind_nl sd + len s then sd ++ [10; 32; 32; 32; 32] ++ prefix else sd) ++ s
  | None => sd ++ s
  end.

Definition jfill (fold : option N) (prefix : list N) (cells : list cell) (b : list (list N)) : list (list N) :=
  fold_left (fun b (c : cell) => upd (N.to_nat (fst c)) (fun sd => jpush fold prefix sd (adec (snd c) ++ [44; 32])) b) cells b.

Definition ends_bracket (s : list N) : bool := last s 0 =? 91.

(** (document so far, first?) *)
Fixpoint jemit_all (dmax d : N) (first : bool) (b : list (list N)) : list N :=
  match b with
  | [] => []
  | s :: t =>
    if negb (ends_bracket s) then
      (if first then [] else [44; 10]) ++ removelast (removelast s) ++ [93] ++ jemit_all dmax (d + 1) false t
    else if d =? dmax then
      (if first then [] else [44; 10]) ++ s ++ [93] ++ jemit_all dmax (d + 1) false t
    else jemit_all dmax (d + 1) first t
  end.

Definition to_json (dmax : N) (fold : option N) (prefix : list N) (cells : list cell) : list N :=
  [123; 10]
  ++ jemit_all dmax 0 true (jfill fold prefix cells (map (jbucket0 prefix) (anseq 0 (S (N.to_nat dmax)))))
  ++ [10] ++ prefix ++ [125].

(** every element carries its own depths (an element of a RangeMOC2 may be labelled shallower than the MOC2) *)
Definition st_cells_l := ((N * list cell) * (N * list cell))%type.

Definition st_json_elem_l (p1 p2 : N) (fold : option N) (e : st_cells_l) : list N :=
  [123; 10; 32; 32; 34; p1; 34; 58; 32] ++ to_json (fst (fst e)) fold [32; 32] (snd (fst e))
  ++ [44; 10; 32; 32; 34; p2; 34; 58; 32] ++ to_json (fst (snd e)) fold [32; 32] (snd (snd e)) ++ [10; 125].

Fixpoint st_json_go_l (p1 p2 : N) (fold : option N) (first : bool) (l : list st_cells_l) : list N :=
  match l with
  | [] => if first then [] else [44; 10]
  | e :: t => (if first then [] else [44; 10]) ++ st_json_elem_l p1 p2 fold e ++ st_json_go_l p1 p2 fold false t
  end.

Definition st_json_last (p1 p2 d1 d2 : N) : list N :=
  [123; 32; 34; p1; 34; 58; 32; 123; 32; 34] ++ adec d1 ++ [34; 58; 32; 91; 93; 32; 125; 44; 32; 34; p2; 34; 58; 32; 123; 32; 34]
  ++ adec d2 ++ [34; 58; 32; 91; 93; 32; 125; 32; 125].

Definition st_to_json_l (p1 p2 d1 d2 : N) (fold : option N) (l : list st_cells_l) : list N :=
  [91; 10] ++ st_json_go_l p1 p2 fold true l ++ st_json_last p1 p2 d1 d2 ++ [10; 93; 10].

(** the usual case: every element labelled with the depths of the MOC2 *)
Definition st_label (d1 d2 : N) (e : list cell * list cell) : st_cells_l := ((d1, fst e), (d2, snd e)).
Definition st_to_json (p1 p2 d1 d2 : N) (fold : option N) (l : list (list cell * list cell)) : list N :=
  st_to_json_l p1 p2 d1 d2 fold (map (st_label d1 d2) l).

(** ---------- reader: serde_json::from_str on a SUBSET of JSON, then from_json_aladin_internal ----------
    The subset ([JOut] = outside, no claim): ASCII documents made of the six punctuation characters, the
    JSON white space (space, \t, \n, \r), strings without escape (double quote, characters in 32..127 other than the
    double quote and the backslash, double quote), unsigned integers without leading zero below 2^64, not followed by '.', 'e', 'E';
    nesting of at most 100 containers (serde_json's recursion limit is 128).  Inside the subset the
    grammar is JSON's: a document that is not ONE value is rejected, and so it is by serde_json.
    An object keeps the LAST value of a repeated key (serde_json::Map::insert). *)
Inductive jtok := JLB | JRB | JLK | JRK | JCol | JCom | JStr (s : list N) | JNum (v : N).
Inductive lmode := LIdle | LNum (ds : list N) | LStr (cs : list N).

Definition fin_num (ds : list N) : option jtok :=
  match ds with
  | d :: _ :: _ => if d =? 48 then None else if dval ds <? 2 ^ 64 then Some (JNum (dval ds)) else None
  | _ => if dval ds <? 2 ^ 64 then Some (JNum (dval ds)) else None
  end.

Definition idle_step (c : N) (acc : list jtok) : option (lmode * list jtok) :=
  if is_ws c then Some (LIdle, acc)
  else if is_digit c then Some (LNum [c], acc)
  else if c =? 34 then Some (LStr [], acc)
  else if c =? 123 then Some (LIdle, acc ++ [JLB])
  else if c =? 125 then Some (LIdle, acc ++ [JRB])
  else if c =? 91 then Some (LIdle, acc ++ [JLK])
  else if c =? 93 then Some (LIdle, acc ++ [JRK])
  else if c =? 58 then Some (LIdle, acc ++ [JCol])
  else if c =? 44 then Some (LIdle, acc ++ [JCom])
  else None.

Fixpoint jlex (m : lmode) (s : list N) (acc : list jtok) : option (list jtok) :=
  match s with
  | [] => match m with
          | LIdle => Some acc
          | LNum ds => match fin_num ds with Some t => Some (acc ++ [t]) | None => None end
          | LStr _ => None
          end
  | c :: r =>
    match m with
    | LIdle => match idle_step c acc with Some (m', acc') => jlex m' r acc' | None => None end
    | LNum ds => if is_digit c then jlex (LNum (ds ++ [c])) r acc
                 else if (c =? 46) || (c =? 101) || (c =? 69) then None
                 else match fin_num ds with
                      | Some t => match idle_step c (acc ++ [t]) with Some (m', acc') => jlex m' r acc' | None => None end
                      | None => None
                      end
    | LStr cs => if c =? 34 then jlex LIdle r (acc ++ [JStr cs])
                 else if (c <? 32) || (c =? 92) || (127 <? c) then None
                 else jlex (LStr (cs ++ [c])) r acc
    end
  end.

(** deepest nesting of the token list *)
Definition nest_step (st : N * N) (t : jtok) : N * N :=
  match t with
  | JLB | JLK => (fst st + 1, N.max (snd st) (fst st + 1))
  | JRB | JRK => (fst st - 1, snd st)
  | _ => st
  end.
Definition max_nest (ts : list jtok) : N := snd (fold_left nest_step ts (0, 0)).

(** the value tree and the pushdown parser (explicit stack: structural on the token list) *)
Inductive jv := VNum (n : N) | VStr (s : list N) | VArr (l : list jv) | VObj (l : list (list N * jv)).
Inductive frame := FArr (done : list jv) | FObj (done : list (list N * jv)) (key : list N).
Inductive pmode :=
| PVal | PArr0 | PArrNext (done : list jv)
| PObj0 | PObjKey (done : list (list N * jv)) | PObjColon (done : list (list N * jv)) (key : list N)
| PObjNext (done : list (list N * jv)) | PEnd (v : jv).

Definition deliver (v : jv) (K : list frame) : pmode * list frame :=
  match K with
  | [] => (PEnd v, [])
  | FArr done :: K' => (PArrNext (done ++ [v]), K')
  | FObj done key :: K' => (PObjNext (done ++ [(key, v)]), K')
  end.

Definition pval (t : jtok) (K : list frame) : option (pmode * list frame) :=
  match t with
  | JNum n => Some (deliver (VNum n) K)
  | JStr s => Some (deliver (VStr s) K)
  | JLK => Some (PArr0, K)
  | JLB => Some (PObj0, K)
  | _ => None
  end.

Definition pstep (m : pmode) (K : list frame) (t : jtok) : option (pmode * list frame) :=
  match m with
  | PVal => pval t K
  | PArr0 => match t with JRK => Some (deliver (VArr []) K) | _ => pval t (FArr [] :: K) end
  | PArrNext done => match t with
                     | JCom => Some (PVal, FArr done :: K)
                     | JRK => Some (deliver (VArr done) K)
                     | _ => None end
  | PObj0 => match t with
             | JRB => Some (deliver (VObj []) K)
             | JStr k => Some (PObjColon [] k, K)
             | _ => None end
  | PObjKey done => match t with JStr k => Some (PObjColon done k, K) | _ => None end
  | PObjColon done k => match t with JCol => Some (PVal, FObj done k :: K) | _ => None end
  | PObjNext done => match t with
                     | JCom => Some (PObjKey done, K)
                     | JRB => Some (deliver (VObj done) K)
                     | _ => None end
  | PEnd _ => None
  end.

Fixpoint prun (m : pmode) (K : list frame) (ts : list jtok) : option jv :=
  match ts with
  | [] => match m, K with PEnd v, [] => Some v | _, _ => None end
  | t :: r => match pstep m K t with Some (m', K') => prun m' K' r | None => None end
  end.

Inductive jparsed := JOut | JReject | JVal (v : jv).
Definition jparse (s : list N) : jparsed :=
  match jlex LIdle s [] with
  | None => JOut
  | Some ts => if 100 <? max_nest ts then JOut
               else match prun PVal [] ts with Some v => JVal v | None => JReject end
  end.

(** from_json_aladin_internal *)
Fixpoint jlookup (k : list N) (l : list (list N * jv)) : option jv :=
  match l with
  | [] => None
  | (k', v) :: t => match jlookup k t with
                    | Some x => Some x
                    | None => if list_eqb k k' then Some v else None
                    end
  end.

Definition nums_of (l : list jv) : list N :=
  flat_map (fun v => match v with VNum n => [n] | _ => [] end) l.

Fixpoint jcells (q : qty) (m : list (list N * jv)) (ds : list N) (dmax : N) (l_acc : list aelem) : ares (N * list aelem) :=
  match ds with
  | [] => AOk (dmax, l_acc)
  | d :: t =>
    match jlookup (adec d) m with
    | Some (VArr l) =>
        if forallb (fun v => v <? n_cells q d) (nums_of l)
        then jcells q m t (N.max dmax d) (l_acc ++ map (ECell d) (nums_of l))
        else AErr AEIndex
    | _ => jcells q m t dmax l_acc
    end
  end.

Section JReader.
  Variable sortf : qty -> list aelem -> list aelem.

  Definition json_value_1d (q : qty) (w : N) (v : jv) : ares (N * list aelem) :=
    match v with
    | VObj m =>
      match jcells q m (anseq 0 (S (N.to_nat (max_depth q w)))) 0 [] with
      | AErr e => AErr e
      | AOk (dm, l) => let l' := sortf q l in
                       if adj_ok q w l' then AOk (dm, l') else AErr AENotValid
      end
    | _ => AErr AEParse
    end.

  Inductive jres := JROut | JRRes (r : ares (N * list aelem)).
  Definition from_json (q : qty) (w : N) (s : list N) : jres :=
    match jparse s with
    | JOut => JROut
    | JReject => JRRes (AErr AEParse)
    | JVal v => JRRes (json_value_1d q w v)
    end.

  (** cellmoc2d_from_json_aladin *)
  Inductive j2res := J2Out | J2Err | J2Ok (d1 d2 : N) (l : list st_elem).

  Fixpoint j2loop (q1 : qty) (w1 : N) (q2 : qty) (w2 : N) (p1 p2 : N) (es : list jv) (d1 d2 : N) (l_acc : list st_elem) : j2res :=
    match es with
    | [] => J2Ok d1 d2 l_acc
    | VObj m :: t =>
      match jlookup [p1] m, jlookup [p2] m with
      | Some a, Some b =>
        match json_value_1d q1 w1 a with
        | AErr _ => J2Err
        | AOk (dl, el) =>
          match json_value_1d q2 w2 b with
          | AErr _ => J2Err
          | AOk (dr, er) =>
            j2loop q1 w1 q2 w2 p1 p2 t (N.max d1 dl) (N.max d2 dr)
              (match el, er with _ :: _, _ :: _ => l_acc ++ [(el, er)] | _, _ => l_acc end)
          end
        end
      | _, _ => J2Err
      end
    | _ :: _ => J2Err
    end.

  Definition st_from_json (q1 : qty) (w1 : N) (q2 : qty) (w2 : N) (p1 p2 : N) (s : list N) : j2res :=
    match jparse s with
    | JOut => J2Out
    | JReject => J2Err
    | JVal (VArr es) => j2loop q1 w1 q2 w2 p1 p2 es 0 0 []
    | JVal _ => J2Err
    end.
End JReader.
