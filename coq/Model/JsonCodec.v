(** Model/JsonCodec.v — (F, character level) the Aladin JSON writers of src/deser/json.rs as written.
    to_json_aladin: one string bucket per depth, initialised to  <prefix>  "<d>": [ ; every cell appends
    "<idx>, ", preceded by "\n    <prefix>" when fold = Some n and
    len(bucket) - rfind(bucket, '\n').unwrap_or(0) + len("<idx>, ") > n; the document is "{\n", the
    non-empty buckets without their final ", " and closed by "]" (separated by ",\n"), the empty bucket of
    the deepest level as "<...>[]", then "\n<prefix>}".
    cellmoc2d_to_json_aladin: "[\n", per element  {\n  "<p1>": <doc1>,\n  "<p2>": <doc2>\n}  separated by
    ",\n", then  { "<p1>": { "<d1>": [] }, "<p2>": { "<d2>": [] } }  and "\n]\n".
    Characters are byte codes. *)
From Coq Require Import List NArith Arith Lia Bool.
From MOC.Base Require Import RangeSet.
From MOC.Model Require Import Qty Repr AsciiCodec.
Import ListNotations.
Open Scope N_scope.

Definition jbucket0 (prefix : list N) (d : N) : list N :=
  prefix ++ [32; 32; 34] ++ adec d ++ [34; 58; 32; 91].          (*   "d": [  *)

Definition jpush (fold : option N) (prefix : list N) (sd s : list N) : list N :=
  match fold with
  | Some n => (if n <? len sd - rfind_nl sd + len s then sd ++ [10; 32; 32; 32; 32] ++ prefix else sd) ++ s
  | None => sd ++ s
  end.

Definition jfill (fold : option N) (prefix : list N) (cells : list cell) (b : list (list N)) : list (list N) :=
  fold_left (fun b (c : cell) => upd (N.to_nat (fst c)) (fun sd => jpush fold prefix sd (adec (snd c) ++ [44; 32])) b) cells b.

Definition ends_bracket (s : list N) : bool := last s 0 =? 91.

(** (document so far, first?) *)
Fixpoint jemit_all (dmax d : N) (first : bool) (b : list (list N)) : list N :=
  match b with
  | [] => []
  | s :: t =>
    if negb (ends_bracket s) then
      (if first then [] else [44; 10]) ++ removelast (removelast s) ++ [93] ++ jemit_all dmax (d + 1) false t
    else if d =? dmax then
      (if first then [] else [44; 10]) ++ s ++ [93] ++ jemit_all dmax (d + 1) false t
    else jemit_all dmax (d + 1) first t
  end.

Definition to_json (dmax : N) (fold : option N) (prefix : list N) (cells : list cell) : list N :=
  [123; 10]
  ++ jemit_all dmax 0 true (jfill fold prefix cells (map (jbucket0 prefix) (anseq 0 (S (N.to_nat dmax)))))
  ++ [10] ++ prefix ++ [125].

Definition st_to_json (p1 p2 d1 d2 : N) (fold : option N) (l : list (list cell * list cell)) : list N :=
  let elem (e : list cell * list cell) :=
    [123; 10; 32; 32; 34; p1; 34; 58; 32] ++ to_json d1 fold [32; 32] (fst e)
    ++ [44; 10; 32; 32; 34; p2; 34; 58; 32] ++ to_json d2 fold [32; 32] (snd e) ++ [10; 125] in
  [91; 10]
  ++ (fix go (first : bool) (l : list (list cell * list cell)) : list N :=
        match l with
        | [] => if first then [] else [44; 10]
        | e :: t => (if first then [] else [44; 10]) ++ elem e ++ go false t
        end) true l
  ++ [123; 32; 34; p1; 34; 58; 32; 123; 32; 34] ++ adec d1 ++ [34; 58; 32; 91; 93; 32; 125; 44; 32; 34; p2; 34; 58; 32; 123; 32; 34]
  ++ adec d2 ++ [34; 58; 32; 91; 93; 32; 125; 32; 125]
  ++ [10; 93; 10].
