(** Model/FitsGuards.v — the size arithmetic of the two FITS map readers (C12: decoders are total),
    with machine semantics made explicit: u64 values are naturals below 2^64, a subtraction below
    zero or a multiplication beyond the type PANICS (debug builds) — modelled by the outcome [Panic].
      sky map (src/deser/fits/skymap.rs from_fits_skymap_internal): n_pack = 1 or 1024 values of
        4 or 8 bytes per row; Err unless NAXIS2.checked_mul(n_pack) = number of cells at the depth;
        first_col_byte_size = size * n_pack; Err when NAXIS1 < first_col_byte_size or
        NAXIS1 - first_col_byte_size > u16::MAX; then n_byte_skip = NAXIS1 - size * n_pack and a skip
        buffer of that many bytes is allocated;
      multi-order map (src/deser/fits/multiordermap.rs): n_byte_skip = NAXIS1.checked_sub(16) filtered
        by <= u16::MAX, otherwise Err; skip buffer allocated.
    Theorems: for EVERY header value the outcome is Ok or Err, never Panic, and an accepted header
    allocates at most 65535 bytes for the skip buffer.  (The seeded change S-C12-2 drops [* n_pack]
    from the guard: [skymap_guard_d] below, for which the outcome Panic is reachable.) *)
From Coq Require Import NArith Lia Bool.
Open Scope N_scope.

Inductive outcome := Ok (skip : N) | Err | Panic.

Definition U64 : N := 2 ^ 64.
(** checked / panicking machine operations *)
Definition sub_p (a b : N) : option N := if b <=? a then Some (a - b) else None.   (* None = panic *)
Definition mul_c (a b : N) : option N := if a * b <? U64 then Some (a * b) else None.

Definition skymap_guard (is_f64 : bool) (n_pack naxis1 naxis2 ncells : N) : outcome :=
  match mul_c naxis2 n_pack with
  | None => Err
  | Some tot =>
      if negb (tot =? ncells) then Err
      else
        let size := if is_f64 then 8 else 4 in
        let first_col := size * n_pack in
        (* n_bytes_per_row < first_col || n_bytes_per_row - first_col > u16::MAX : short-circuit *)
        if naxis1 <? first_col then Err
        else match sub_p naxis1 first_col with
             | None => Panic
             | Some d => if 65535 <? d then Err
                         else match sub_p naxis1 (size * n_pack) with None => Panic | Some skip => Ok skip end
             end
  end.

(** the guard of the seeded change: [* n_pack] dropped from first_col_byte_size *)
Definition skymap_guard_d (is_f64 : bool) (n_pack naxis1 naxis2 ncells : N) : outcome :=
  match mul_c naxis2 n_pack with
  | None => Err
  | Some tot =>
      if negb (tot =? ncells) then Err
      else
        let size := if is_f64 then 8 else 4 in
        let first_col := size in
        if naxis1 <? first_col then Err
        else match sub_p naxis1 first_col with
             | None => Panic
             | Some d => if 65535 <? d then Err
                         else match sub_p naxis1 (size * n_pack) with None => Panic | Some skip => Ok skip end
             end
  end.

Definition mom_guard (naxis1 : N) : outcome :=
  match sub_p naxis1 16 with                       (* checked_sub: None is handled, not a panic *)
  | None => Err
  | Some d => if d <=? 65535 then Ok d else Err
  end.

Theorem skymap_guard_total : forall is_f64 n_pack naxis1 naxis2 ncells,
  skymap_guard is_f64 n_pack naxis1 naxis2 ncells <> Panic /\
  forall skip, skymap_guard is_f64 n_pack naxis1 naxis2 ncells = Ok skip ->
    skip <= 65535 /\ skip + (if is_f64 then 8 else 4) * n_pack = naxis1 /\ naxis2 * n_pack = ncells.
Proof.
  intros is_f64 n_pack naxis1 naxis2 ncells. unfold skymap_guard, mul_c, sub_p.
  destruct (N.ltb_spec (naxis2 * n_pack) U64) as [M|M]; [|split; [discriminate|intros s K; discriminate]].
  destruct (N.eqb_spec (naxis2 * n_pack) ncells) as [E|E]; cbn [negb]; [|split; [discriminate|intros s K; discriminate]].
  remember ((if is_f64 then 8 else 4) * n_pack) as fc eqn:Efc.
  destruct (N.ltb_spec naxis1 fc) as [L|L]; [split; [discriminate|intros s K; discriminate]|].
  destruct (N.leb_spec fc naxis1) as [_|?]; [|lia].
  destruct (N.ltb_spec 65535 (naxis1 - fc)) as [B|B]; [split; [discriminate|intros s K; discriminate]|].
  split; [discriminate|]. intros s K. inversion K; subst s. lia.
Qed.

Theorem mom_guard_total : forall naxis1, mom_guard naxis1 <> Panic /\
  forall skip, mom_guard naxis1 = Ok skip -> skip <= 65535 /\ skip + 16 = naxis1.
Proof.
  intros naxis1. unfold mom_guard, sub_p. destruct (N.leb_spec 16 naxis1) as [L|L]; [|split; [discriminate|intros s K; discriminate]].
  destruct (N.leb_spec (naxis1 - 16) 65535) as [B|B]; [|split; [discriminate|intros s K; discriminate]].
  split; [discriminate|]. intros s K. inversion K; subst s. lia.
Qed.

(** the seeded guard panics on a packed sky map whose NAXIS1 is between 4 and 4095 *)
Theorem skymap_guard_d_refuted : skymap_guard_d false 1024 4 12 (12 * 1024) = Panic.
Proof. vm_compute. reflexivity. Qed.
