(** Model/Store.v — (F) the in-memory MOC store of src/storage/u64idx/store.rs:
    a [Slab<(u8, InternalMoc)>] behind a RwLock.  The slab is modelled as the slab
    crate specifies it (vector of entries + LIFO list of vacant keys); stored values
    and library operations are parameters.  (S) the abstract registry: a finite map
    handle -> (count, value) with a non-deterministically chosen FRESH handle.
    Proved: sequential refinement for every call, stability of what a handle denotes,
    no re-issue of a live handle, totality (counts never underflow), and the mover
    lemma behind linearizability of the two-phase calls (read lock, then write lock). *)
From Coq Require Import List NArith Arith Lia Bool.
Import ListNotations.

Section Store.
Variable V : Type.

Definition entry := option (N * V).
Record slab := { ents : list entry; freel : list nat }.

Definition empty_slab : slab := {| ents := []; freel := [] |}.

Definition get (s : slab) (k : nat) : entry := nth k (ents s) None.

Fixpoint set_nth (k : nat) (e : entry) (l : list entry) : list entry :=
  match k, l with
  | O, _ :: t => e :: t
  | S k', x :: t => x :: set_nth k' e t
  | _, [] => []
  end.

Definition insert (s : slab) (v : V) : nat * slab :=
  match freel s with
  | k :: f => (k, {| ents := set_nth k (Some (1%N, v)) (ents s); freel := f |})
  | [] => (length (ents s), {| ents := ents s ++ [Some (1%N, v)]; freel := [] |})
  end.

Definition remove (s : slab) (k : nat) : slab :=
  {| ents := set_nth k None (ents s); freel := k :: freel s |}.

(** calls of the store API, reduced to their effect on the registry *)
Inductive call :=
| Add (v : V)                                      (* insert / create / load / import *)
| Copy (k : nat)
| Drop (k : nat)
| Read (k : nat)                                   (* any query / export on one MOC *)
| Op (ks : list nat) (f : list V -> option V).     (* op1 / op2 / opn: None = error (ill-kinded...) *)

Inductive res := RKey (k : nat) | ROk | RVal (v : V) | RErr.

Fixpoint read_all (s : slab) (ks : list nat) : option (list V) :=
  match ks with
  | [] => Some []
  | k :: t => match get s k, read_all s t with
              | Some (_, v), Some vs => Some (v :: vs)
              | _, _ => None
              end
  end.

(** read phase of a two-phase call (under the read lock) *)
Definition read_phase (s : slab) (ks : list nat) (f : list V -> option V) : option V :=
  match read_all s ks with Some vs => f vs | None => None end.

Definition exec (s : slab) (c : call) : slab * res :=
  match c with
  | Add v => let (k, s') := insert s v in (s', RKey k)
  | Copy k => match get s k with
              | Some (n, v) => if (n =? 255)%N then (s, RErr)
                               else ({| ents := set_nth k (Some (n + 1, v)%N) (ents s); freel := freel s |}, ROk)
              | None => (s, RErr)
              end
  | Drop k => match get s k with
              | Some (n, v) => if (n =? 1)%N then (remove s k, ROk)
                               else ({| ents := set_nth k (Some (n - 1, v)%N) (ents s); freel := freel s |}, ROk)
              | None => (s, RErr)
              end
  | Read k => match get s k with Some (_, v) => (s, RVal v) | None => (s, RErr) end
  | Op ks f => match read_phase s ks f with
               | Some v => let (k, s') := insert s v in (s', RKey k)
               | None => (s, RErr)
               end
  end.

Definition run (s : slab) (h : list call) : slab * list res :=
  fold_left (fun acc c => let (s', r) := exec (fst acc) c in (s', snd acc ++ [r])) h (s, []).

(** ---------- slab invariant ---------- *)
Record Inv (s : slab) : Prop :=
  { inv_free : forall k, In k (freel s) <-> (k < length (ents s) /\ get s k = None);
    inv_nodup : NoDup (freel s);
    inv_count : forall k n v, get s k = Some (n, v) -> (1 <= n <= 255)%N }.

Lemma nth_set_nth l : forall k k' e, k < length l ->
  nth k' (set_nth k e l) None = if Nat.eqb k k' then e else nth k' l None.
Proof.
  induction l as [|x l IH]; intros k k' e Hk; simpl in Hk; [lia|].
  destruct k as [|k]; destruct k' as [|k']; simpl; try reflexivity.
  apply IH. lia.
Qed.

Lemma set_nth_length l : forall k e, length (set_nth k e l) = length l.
Proof. induction l as [|x l IH]; intros [|k] e; simpl; try reflexivity. rewrite IH. reflexivity. Qed.

Lemma get_beyond s k : length (ents s) <= k -> get s k = None.
Proof. intros H. unfold get. apply nth_overflow. exact H. Qed.

Lemma get_some_lt s k e : get s k = Some e -> k < length (ents s).
Proof.
  intros H. destruct (Nat.lt_ge_cases k (length (ents s))) as [Hl|Hg]; [exact Hl|].
  rewrite (get_beyond s k Hg) in H. discriminate.
Qed.

Lemma inv_empty : Inv empty_slab.
Proof.
  constructor; simpl.
  - intros k. split; [intros []|intros [H _]; lia].
  - constructor.
  - intros k n v H. unfold get in H. simpl in H. destruct k; discriminate.
Qed.

(** [insert] returns a key that was vacant (fresh) and only changes that key *)
Lemma insert_spec s v : Inv s ->
  let (k, s') := insert s v in
  get s k = None /\ Inv s' /\ get s' k = Some (1%N, v) /\ forall k', k' <> k -> get s' k' = get s k'.
Proof.
  intros [Hf Hn Hc]. unfold insert. destruct (freel s) as [|k f] eqn:E.
  - (* push at the end *)
    split; [apply get_beyond; lia|]. split; [|split].
    + constructor; simpl.
      * intros k. split; [intros []|]. intros [H1 H2]. rewrite app_length in H1. simpl in H1.
        unfold get in H2. simpl in H2.
        destruct (Nat.eq_dec k (length (ents s))) as [->|Hne].
        -- rewrite app_nth2, Nat.sub_diag in H2 by lia. discriminate.
        -- rewrite app_nth1 in H2 by lia. assert (Hin : In k []) by (apply Hf; split; [lia|exact H2]).
           destruct Hin.
      * constructor.
      * intros k n v' H. unfold get in H. simpl in H.
        destruct (Nat.lt_ge_cases k (length (ents s))) as [Hl|Hg].
        -- rewrite app_nth1 in H by lia. apply (Hc k n v' H).
        -- destruct (Nat.eq_dec k (length (ents s))) as [->|Hne].
           ++ rewrite app_nth2, Nat.sub_diag in H by lia. simpl in H. inversion H. lia.
           ++ rewrite nth_overflow in H; [discriminate|]. rewrite app_length. simpl. lia.
    + unfold get. simpl. rewrite app_nth2, Nat.sub_diag by lia. reflexivity.
    + intros k' Hne. unfold get. simpl.
      destruct (Nat.lt_ge_cases k' (length (ents s))) as [Hl|Hg].
      * rewrite app_nth1 by lia. reflexivity.
      * rewrite (nth_overflow (ents s)) by lia. rewrite nth_overflow; [reflexivity|].
        rewrite app_length. simpl. lia.
  - (* reuse the most recently vacated key *)
    assert (Hk : k < length (ents s) /\ get s k = None) by (apply Hf; left; reflexivity).
    destruct Hk as [Hk1 Hk2]. split; [exact Hk2|]. split; [|split].
    + inversion Hn as [|? ? Hnotin Hnd]; subst.
      constructor; simpl.
      * intros k'. unfold get; simpl. rewrite set_nth_length, nth_set_nth by exact Hk1.
        destruct (Nat.eqb_spec k k') as [<-|Hne].
        -- split; [intros H; contradiction|intros [_ H]; discriminate].
        -- specialize (Hf k'). simpl in Hf. unfold get in Hf. split.
           ++ intros H. apply Hf. right. exact H.
           ++ intros H. apply Hf in H. destruct H as [H|H]; [congruence|exact H].
      * exact Hnd.
      * intros k' n v' H. unfold get in H; simpl in H. rewrite nth_set_nth in H by exact Hk1.
        destruct (Nat.eqb_spec k k') as [<-|Hne]; [inversion H; lia|apply (Hc k' n v' H)].
    + unfold get; simpl. rewrite nth_set_nth, Nat.eqb_refl by exact Hk1. reflexivity.
    + intros k' Hne. unfold get; simpl. rewrite nth_set_nth by exact Hk1.
      destruct (Nat.eqb_spec k k') as [<-|_]; [congruence|reflexivity].
Qed.

Lemma update_spec s k e : Inv s -> (exists n v, get s k = Some (n, v)) ->
  (forall n v, e = Some (n, v) -> (1 <= n <= 255)%N) -> e <> None ->
  let s' := {| ents := set_nth k e (ents s); freel := freel s |} in
  Inv s' /\ get s' k = e /\ forall k', k' <> k -> get s' k' = get s k'.
Proof.
  intros [Hf Hn Hc] (n0 & v0 & Hg) He Hne. pose proof (get_some_lt s k _ Hg) as Hk. simpl.
  split; [|split].
  - constructor; simpl.
    + intros k'. unfold get; simpl. rewrite set_nth_length, nth_set_nth by exact Hk.
      destruct (Nat.eqb_spec k k') as [<-|Hd].
      * split; [|intros [_ H]; congruence]. intros H. apply Hf in H. destruct H as [_ H]. congruence.
      * apply Hf.
    + exact Hn.
    + intros k' n v H. unfold get in H; simpl in H. rewrite nth_set_nth in H by exact Hk.
      destruct (Nat.eqb_spec k k') as [<-|Hd]; [apply (He n v H)|apply (Hc k' n v H)].
  - unfold get; simpl. rewrite nth_set_nth, Nat.eqb_refl by exact Hk. reflexivity.
  - intros k' Hd. unfold get; simpl. rewrite nth_set_nth by exact Hk.
    destruct (Nat.eqb_spec k k') as [<-|_]; [congruence|reflexivity].
Qed.

Lemma remove_spec s k : Inv s -> (exists n v, get s k = Some (n, v)) ->
  Inv (remove s k) /\ get (remove s k) k = None /\ forall k', k' <> k -> get (remove s k) k' = get s k'.
Proof.
  intros [Hf Hn Hc] (n0 & v0 & Hg). pose proof (get_some_lt s k _ Hg) as Hk.
  split; [|split].
  - constructor; simpl.
    + intros k'. unfold get; simpl. rewrite set_nth_length, nth_set_nth by exact Hk.
      destruct (Nat.eqb_spec k k') as [<-|Hd].
      * split; [intros _; split; [exact Hk|reflexivity]|intros _; left; reflexivity].
      * split.
        -- intros [H|H]; [congruence|apply Hf; exact H].
        -- intros H. right. apply Hf. exact H.
    + constructor; [|exact Hn]. intros H. apply Hf in H. destruct H as [_ H]. congruence.
    + intros k' n v H. unfold get in H; simpl in H. rewrite nth_set_nth in H by exact Hk.
      destruct (Nat.eqb_spec k k') as [<-|Hd]; [discriminate|apply (Hc k' n v H)].
  - unfold get, remove; simpl. rewrite nth_set_nth, Nat.eqb_refl by exact Hk. reflexivity.
  - intros k' Hd. unfold get, remove; simpl. rewrite nth_set_nth by exact Hk.
    destruct (Nat.eqb_spec k k') as [<-|_]; [congruence|reflexivity].
Qed.

(** ---------- the abstract registry ---------- *)
Definition reg := nat -> entry.
Definition abs (s : slab) : reg := get s.
Definition upd (r : reg) (k : nat) (e : entry) : reg := fun k' => if Nat.eqb k k' then e else r k'.
Definition same (r r' : reg) : Prop := forall k, r k = r' k.

Fixpoint reg_read_all (r : reg) (ks : list nat) : option (list V) :=
  match ks with
  | [] => Some []
  | k :: t => match r k, reg_read_all r t with
              | Some (_, v), Some vs => Some (v :: vs)
              | _, _ => None
              end
  end.

(** sequential specification: one transition per call; Add / Op pick ANY fresh handle *)
Inductive step_abs (r : reg) : call -> reg -> res -> Prop :=
| SAdd v k : r k = None -> step_abs r (Add v) (upd r k (Some (1%N, v))) (RKey k)
| SCopyOk k n v : r k = Some (n, v) -> n <> 255%N -> step_abs r (Copy k) (upd r k (Some ((n + 1)%N, v))) ROk
| SCopyFull k v : r k = Some (255%N, v) -> step_abs r (Copy k) r RErr
| SCopyDead k : r k = None -> step_abs r (Copy k) r RErr
| SDropLast k v : r k = Some (1%N, v) -> step_abs r (Drop k) (upd r k None) ROk
| SDropMore k n v : r k = Some (n, v) -> n <> 1%N -> step_abs r (Drop k) (upd r k (Some ((n - 1)%N, v))) ROk
| SDropDead k : r k = None -> step_abs r (Drop k) r RErr
| SReadOk k n v : r k = Some (n, v) -> step_abs r (Read k) r (RVal v)
| SReadDead k : r k = None -> step_abs r (Read k) r RErr
| SOpOk ks f vs v k : reg_read_all r ks = Some vs -> f vs = Some v -> r k = None ->
    step_abs r (Op ks f) (upd r k (Some (1%N, v))) (RKey k)
| SOpErr ks f : (match reg_read_all r ks with Some vs => f vs | None => None end) = None ->
    step_abs r (Op ks f) r RErr.

Lemma read_all_abs s ks : read_all s ks = reg_read_all (abs s) ks.
Proof. induction ks as [|k t IH]; simpl; [reflexivity|]. rewrite IH. reflexivity. Qed.

(** Sequential refinement: every call on a well-formed slab is a transition of the registry *)
Theorem exec_refines s c : Inv s ->
  let (s', r) := exec s c in
  Inv s' /\ exists r', step_abs (abs s) c r' r /\ same (abs s') r'.
Proof.
  intros HI. destruct c as [v|k|k|k|ks f]; simpl.
  - pose proof (insert_spec s v HI) as H. destruct (insert s v) as [k s'].
    destruct H as (H1 & H2 & H3 & H4). split; [exact H2|].
    exists (upd (abs s) k (Some (1%N, v))). split; [apply SAdd; exact H1|].
    intros k'. unfold upd, abs. destruct (Nat.eqb_spec k k') as [<-|Hd]; [exact H3|apply H4; congruence].
  - destruct (get s k) as [[n v]|] eqn:G.
    + destruct (N.eqb_spec n 255) as [->|Hn].
      * split; [exact HI|]. exists (abs s). split; [apply (SCopyFull _ k v); exact G|intros k'; reflexivity].
      * assert (Hb := inv_count s HI k n v G).
        destruct (update_spec s k (Some ((n + 1)%N, v)) HI (ex_intro _ n (ex_intro _ v G))) as (U1 & U2 & U3).
        { intros n' v' E. inversion E; subst. lia. }
        { discriminate. }
        split; [exact U1|]. exists (upd (abs s) k (Some ((n + 1)%N, v))).
        split; [apply SCopyOk; assumption|].
        intros k'. unfold upd, abs. destruct (Nat.eqb_spec k k') as [<-|Hd]; [exact U2|apply U3; congruence].
    + split; [exact HI|]. exists (abs s). split; [apply SCopyDead; exact G|intros k'; reflexivity].
  - destruct (get s k) as [[n v]|] eqn:G.
    + destruct (N.eqb_spec n 1) as [->|Hn].
      * destruct (remove_spec s k HI (ex_intro _ 1%N (ex_intro _ v G))) as (R1 & R2 & R3).
        split; [exact R1|]. exists (upd (abs s) k None). split; [apply (SDropLast _ k v); exact G|].
        intros k'. unfold upd, abs. destruct (Nat.eqb_spec k k') as [<-|Hd]; [exact R2|apply R3; congruence].
      * assert (Hb := inv_count s HI k n v G).
        destruct (update_spec s k (Some ((n - 1)%N, v)) HI (ex_intro _ n (ex_intro _ v G))) as (U1 & U2 & U3).
        { intros n' v' E. inversion E; subst. lia. }
        { discriminate. }
        split; [exact U1|]. exists (upd (abs s) k (Some ((n - 1)%N, v))).
        split; [apply SDropMore; assumption|].
        intros k'. unfold upd, abs. destruct (Nat.eqb_spec k k') as [<-|Hd]; [exact U2|apply U3; congruence].
    + split; [exact HI|]. exists (abs s). split; [apply SDropDead; exact G|intros k'; reflexivity].
  - destruct (get s k) as [[n v]|] eqn:G.
    + split; [exact HI|]. exists (abs s). split; [apply (SReadOk _ k n v); exact G|intros k'; reflexivity].
    + split; [exact HI|]. exists (abs s). split; [apply SReadDead; exact G|intros k'; reflexivity].
  - unfold read_phase. rewrite read_all_abs.
    destruct (reg_read_all (abs s) ks) as [vs|] eqn:R.
    + destruct (f vs) as [v|] eqn:F.
      * pose proof (insert_spec s v HI) as H. destruct (insert s v) as [k s'].
        destruct H as (H1 & H2 & H3 & H4). split; [exact H2|].
        exists (upd (abs s) k (Some (1%N, v))). split; [apply (SOpOk _ ks f vs v k); assumption|].
        intros k'. unfold upd, abs. destruct (Nat.eqb_spec k k') as [<-|Hd]; [exact H3|apply H4; congruence].
      * split; [exact HI|]. exists (abs s). split; [apply SOpErr; rewrite R; exact F|intros k'; reflexivity].
    + split; [exact HI|]. exists (abs s). split; [apply SOpErr; rewrite R; reflexivity|intros k'; reflexivity].
Qed.

(** every reachable slab is well formed *)
Lemma exec_inv s c : Inv s -> Inv (fst (exec s c)).
Proof. intros H. pose proof (exec_refines s c H) as R. destruct (exec s c). simpl. tauto. Qed.

Theorem run_inv h : forall s acc, Inv s ->
  Inv (fst (fold_left (fun acc c => let (s', r) := exec (fst acc) c in (s', snd acc ++ [r])) h (s, acc))).
Proof.
  induction h as [|c h IH]; intros s acc HI; simpl; [exact HI|].
  destruct (exec s c) as [s' r] eqn:E. apply IH.
  pose proof (exec_inv s c HI) as H. rewrite E in H. exact H.
Qed.

(** what a live handle denotes never changes: a transition either keeps its value (possibly
    changing the count by the call's own copy / drop) or is the drop that removes it *)
Theorem value_stable r c r' o k n v : step_abs r c r' o -> r k = Some (n, v) ->
  (exists n', r' k = Some (n', v)) \/ (c = Drop k /\ n = 1%N /\ r' k = None).
Proof.
  intros Hs Hk. inversion Hs; subst; unfold upd;
    try (left; exists n; exact Hk);
    try (destruct (Nat.eqb_spec k0 k) as [->|Hd];
         [|left; exists n; exact Hk]).
  - congruence.
  - left. rewrite Hk in H. inversion H; subst. eexists; reflexivity.
  - right. rewrite Hk in H. inversion H; subst. auto.
  - left. rewrite Hk in H. inversion H; subst. eexists; reflexivity.
  - congruence.
Qed.

(** a handle handed out is never a live one *)
Theorem fresh_handle r c r' k : step_abs r c r' (RKey k) -> r k = None.
Proof. intros Hs. inversion Hs; subst; assumption. Qed.

(** ---------- linearizability of the two-phase calls ---------- *)
(** [Op ks f] runs as a read step (read lock) then an insert step (write lock).  Steps of
    other threads may occur in between.  The read step is a mover: executing another
    thread's call first does not change what the read phase computes, provided that call
    does not remove one of the operands (the property's "shared read-only operands"). *)
Definition keeps (s : slab) (c : call) (ks : list nat) : Prop :=
  forall k, In k ks -> (exists n v, get s k = Some (n, v)) /\ (c = Drop k -> exists n v, get s k = Some (n, v) /\ n <> 1%N).

Lemma exec_keeps_value s c k n v : Inv s -> get s k = Some (n, v) ->
  (c = Drop k -> n <> 1%N) -> exists n', get (fst (exec s c)) k = Some (n', v).
Proof.
  intros HI Hk Hd. pose proof (exec_refines s c HI) as R. destruct (exec s c) as [s' o]. simpl.
  destruct R as (_ & r' & Hs & Hsame). unfold same, abs in Hsame. rewrite Hsame.
  destruct (value_stable _ _ _ _ k n v Hs Hk) as [H|(E & E1 & _)]; [exact H|].
  exfalso. apply (Hd E E1).
Qed.

Lemma read_all_mover s c ks : Inv s -> keeps s c ks ->
  read_all (fst (exec s c)) ks = read_all s ks.
Proof.
  intros HI HK. induction ks as [|k t IH]; simpl; [reflexivity|].
  rewrite IH by (intros k' Hk'; apply HK; right; exact Hk').
  destruct (HK k (or_introl eq_refl)) as ((n & v & G) & Hd).
  destruct (exec_keeps_value s c k n v HI G) as [n' G'].
  { intros E. destruct (Hd E) as (n2 & v2 & G2 & Hn). rewrite G in G2. inversion G2; subst. exact Hn. }
  rewrite G, G'. reflexivity.
Qed.

(** Reduction: the read phase can be moved right across any sequence of other threads' calls
    that keep its operands: it computes the same value just before its own write phase. *)
Theorem read_phase_moves_right ks f : forall (others : list call) s, Inv s ->
  (forall pre c post, others = pre ++ c :: post ->
     keeps (fst (fold_left (fun acc c => let (s', r) := exec (fst acc) c in (s', snd acc ++ [r])) pre (s, []))) c ks) ->
  read_phase (fst (fold_left (fun acc c => let (s', r) := exec (fst acc) c in (s', snd acc ++ [r])) others (s, []))) ks f
  = read_phase s ks f.
Proof.
  intros others. unfold read_phase.
  assert (G : forall s acc, Inv s ->
     (forall pre c post, others = pre ++ c :: post ->
        keeps (fst (fold_left (fun acc c => let (s', r) := exec (fst acc) c in (s', snd acc ++ [r])) pre (s, acc))) c ks) ->
     read_all (fst (fold_left (fun acc c => let (s', r) := exec (fst acc) c in (s', snd acc ++ [r])) others (s, acc))) ks
     = read_all s ks).
  { induction others as [|c others IH]; intros s acc HI HK; simpl; [reflexivity|].
    destruct (exec s c) as [s' r] eqn:E.
    assert (E' : s' = fst (exec s c)) by (rewrite E; reflexivity).
    rewrite (IH s' (acc ++ [r])).
    - rewrite E'. apply read_all_mover; [exact HI|]. apply (HK [] c others eq_refl).
    - rewrite E'. apply exec_inv. exact HI.
    - intros pre c' post Eq. specialize (HK (c :: pre) c' post). simpl in HK. rewrite E in HK.
      apply HK. rewrite Eq. reflexivity. }
  intros s HI HK. rewrite (G s [] HI HK). reflexivity.
Qed.

(** ---------- multi-result calls (split, split_indirect) ---------- *)
(** A call that stores n results is the sequence of its n single-result expansions, executed
    in one write phase.  Registry-level facts used by the correspondence check of such calls:
    a result that is created and then dropped leaves every other handle's denotation and
    count unchanged and makes its own handle vacant again (so a batch of transient results
    leaves the registry as it was), and two results of one batch never share a handle. *)
Theorem transient_result_neutral r c r1 k r2 o :
  step_abs r c r1 (RKey k) -> step_abs r1 (Drop k) r2 o ->
  o = ROk /\ forall k', r2 k' = r k'.
Proof.
  intros H1 H2.
  assert (Hk : r k = None) by (eapply fresh_handle; exact H1).
  assert (Hv : exists v, r1 = upd r k (Some (1%N, v))).
  { inversion H1; subst; eexists; reflexivity. }
  destruct Hv as [v ->].
  assert (Hg : upd r k (Some (1%N, v)) k = Some (1%N, v)) by (unfold upd; rewrite Nat.eqb_refl; reflexivity).
  inversion H2; subst.
  - split; [reflexivity|]. intros k'. unfold upd. destruct (Nat.eqb_spec k k') as [<-|Hd]; [symmetry; exact Hk|reflexivity].
  - match goal with Hx : upd r k _ k = Some (?n, _), Hy : ?n <> 1%N |- _ => rewrite Hg in Hx; inversion Hx; subst; congruence end.
  - match goal with Hx : upd r k _ k = None |- _ => rewrite Hg in Hx; discriminate end.
Qed.

Theorem batch_results_distinct r c1 r1 k1 c2 r2 k2 :
  step_abs r c1 r1 (RKey k1) -> step_abs r1 c2 r2 (RKey k2) -> k1 <> k2.
Proof.
  intros H1 H2 E. subst k2.
  assert (Hk : r1 k1 = None) by (eapply fresh_handle; exact H2).
  assert (Hv : exists v, r1 = upd r k1 (Some (1%N, v))) by (inversion H1; subst; eexists; reflexivity).
  destruct Hv as [v ->]. unfold upd in Hk. rewrite Nat.eqb_refl in Hk. discriminate.
Qed.

End Store.
