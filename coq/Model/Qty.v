(** Model/Qty.v — the three quantities, the index widths and the depth arithmetic
    of src/qty.rs (MocableQty / MocQty constants), as unbounded N arithmetic.
    FAITHFUL (F) for the constants: DIM, N_D0_CELLS, N_D0_BITS, N_RESERVED_BITS,
    MAX_DEPTH = (N_BITS - (N_RESERVED_BITS + N_D0_BITS)) / DIM, n_cells_max,
    n_cells, shift_from_depth_max. *)
From Coq Require Import List NArith Lia Bool.
From MOC.Base Require Import RangeSet.
Import ListNotations.
Open Scope N_scope.

Inductive qty := Hpx | Time | Freq.

Definition dim (q : qty) : N := match q with Hpx => 2 | _ => 1 end.
Definition nd0 (q : qty) : N := match q with Hpx => 12 | _ => 2 end.
Definition nd0bits (q : qty) : N := match q with Hpx => 4 | _ => 1 end.
Definition nres (q : qty) : N := match q with Freq => 4 | _ => 2 end.

Definition max_depth (q : qty) (w : N) : N := (w - (nres q + nd0bits q)) / dim q.
Definition n_cells (q : qty) (d : N) : N := nd0 q * 2 ^ (dim q * d).
Definition n_cells_max (q : qty) (w : N) : N := n_cells q (max_depth q w).
Definition shift (q : qty) (w d : N) : N := dim q * (max_depth q w - d).

Definition okw (w : N) : Prop := w = 16 \/ w = 32 \/ w = 64.

Example max_depths :
  (max_depth Hpx 64, max_depth Hpx 32, max_depth Hpx 16,
   max_depth Time 64, max_depth Time 32, max_depth Time 16,
   max_depth Freq 64, max_depth Freq 32, max_depth Freq 16)
  = (29, 13, 5, 61, 29, 13, 59, 27, 11).
Proof. reflexivity. Qed.

(** A valid MOC of quantity [q], width [w], depth [d]. *)
Record ValidMoc (q : qty) (w d : N) (l : list range) : Prop :=
  { vm_depth : d <= max_depth q w;
    vm_valid : Valid (n_cells_max q w) l;
    vm_aligned : Aligned (shift q w d) l }.

Definition valid_mocb (q : qty) (w d : N) (l : list range) : bool :=
  (d <=? max_depth q w) && canonb l && boundedb (n_cells_max q w) l && alignedb (shift q w d) l.

Lemma valid_mocb_spec q w d l : valid_mocb q w d l = true <-> ValidMoc q w d l.
Proof.
  unfold valid_mocb. rewrite !andb_true_iff, N.leb_le, canonb_spec, boundedb_spec, alignedb_spec.
  split.
  - intros [[[H1 H2] H3] H4]. constructor; [exact H1|constructor; assumption|exact H4].
  - intros [H1 [H2 H3] H4]. tauto.
Qed.

Lemma ncm_mult q w d : d <= max_depth q w -> mult2k (shift q w d) (n_cells_max q w).
Proof.
  intros Hd. unfold mult2k, n_cells_max, n_cells, shift.
  assert (E : dim q * max_depth q w = dim q * (max_depth q w - d) + dim q * d) by nia.
  rewrite E, N.pow_add_r.
  rewrite (N.mul_comm (2 ^ (dim q * (max_depth q w - d)))), N.mul_assoc.
  apply N.mod_mul. apply N.pow_nonzero. lia.
Qed.

Lemma shift_mono q w d d' : d <= d' -> shift q w d' <= shift q w d.
Proof. unfold shift. intros. apply N.mul_le_mono_l. lia. Qed.

Lemma validmoc_deeper q w d d' l : d <= d' -> d' <= max_depth q w ->
  ValidMoc q w d l -> ValidMoc q w d' l.
Proof.
  intros Hd Hd' [H1 H2 H3]. constructor; [exact Hd'|exact H2|].
  eapply aligned_le; [|exact H3]. apply shift_mono. exact Hd.
Qed.

Lemma validmoc_empty q w d : d <= max_depth q w -> ValidMoc q w d [].
Proof. intros. constructor; [assumption|constructor; [exact I|constructor]|constructor]. Qed.

Lemma validmoc_full q w d : d <= max_depth q w -> ValidMoc q w d [(0, n_cells_max q w)].
Proof.
  intros Hd. constructor; [assumption| |].
  - constructor.
    + unfold Canon; simpl. split; [lia|]. split; [|exact I].
      unfold n_cells_max, n_cells. simpl fst; simpl snd.
      apply N.mul_pos_pos; [destruct q; reflexivity|apply pow2_pos].
    + constructor; [simpl; lia|constructor].
  - constructor; [|constructor]. simpl. split; [apply mult2k_0|apply ncm_mult; exact Hd].
Qed.
