(** Model/AsciiCodec.v — (F, character level) the IVOA ASCII codec of src/deser/ascii.rs as written.

    Writer  to_ascii_ivoa : one string bucket per depth, initialised to "<d>/"; every element
      (a cell "i ", a cell range "a-b " with b INCLUSIVE or "a+len " with len = number of cells - 1)
      is appended to the bucket of its depth, preceded by "\n " when fold = Some n and
      len(bucket) - rfind(bucket, '\n').unwrap_or(0) + len(element) > n; then the buckets are
      written in depth order: without folding a bucket without element is skipped, except the
      deepest one, written as "<dmax>/ "; with folding each written bucket is followed by "\n".
    Reader  from_ascii_ivoa : the nom tokeniser
        terminated(many1(preceded(multispace0, token)), multispace0)
        token = digit1 parsed in the index type, then optionally '/' (depth), '-' digits (inclusive
        end, CUT: failure if no number follows) or '+' digits (length, CUT)
      followed by the token loop (first token must be a depth; depth <= 255 then <= MAX_DEPTH;
      cell < n_cells(depth); start < end <= n_cells(depth) with saturating additions), the sort by
      flat_cmp and the adjacent-overlap validation.
    Characters are byte codes (N).  Strings are lists of codes.

    Theorems:
      adec / parse_val round trip on every index below 10^20 and below 2^w;
      from_ascii (to_ascii dmax fold use_len es) = AOk (dmax, sortf (regroup es))  for every list of
        well-formed pairwise-disjoint elements of depth <= dmax <= MAX_DEPTH, EVERY fold width and
        both notations  (regroup = stable bucketing by depth, a permutation of es);
      whatever the input string, an AOk result of the reader is a list of well-formed elements,
        ascending and pairwise disjoint, of depth <= the returned depth <= MAX_DEPTH. *)
From Coq Require Import List NArith Arith Lia Bool Permutation Sorted.
From MOC.Base Require Import RangeSet.
From MOC.Model Require Import Qty Query Build Repr.
Import ListNotations.
Open Scope N_scope.

(** ---------- elements and tokens ---------- *)
Inductive aelem := ECell (d i : N) | ERange (d s e : N).      (* e exclusive *)
Definition adepth (x : aelem) : N := match x with ECell d _ => d | ERange d _ _ => d end.

Inductive token := TDepth (v : N) | TCell (v : N) | TRange (s e : N).

Definition is_digit (c : N) : bool := (48 <=? c) && (c <=? 57).
Definition is_ws (c : N) : bool := (c =? 32) || (c =? 9) || (c =? 13) || (c =? 10).

(** ---------- decimal printing (Display of an unsigned integer) ---------- *)
Fixpoint adec_aux (fuel : nat) (x : N) (l_acc : list N) : list N :=
  match fuel with
  | O => l_acc
  | S f => let l_acc' := (48 + x mod 10) :: l_acc in
           if x / 10 =? 0 then l_acc' else adec_aux f (x / 10) l_acc'
  end.
Definition adec (x : N) : list N := adec_aux 20 x [].

(** ---------- writer ---------- *)
Definition fmt_elem (use_len : bool) (x : aelem) : list N :=
  match x with
  | ECell _ i => adec i ++ [32]
  | ERange _ s e => if use_len then adec s ++ [43] ++ adec (e - s - 1) ++ [32]
                    else adec s ++ [45] ++ adec (e - 1) ++ [32]
  end.

Definition len (s : list N) : N := N.of_nat (length s).

(** s.rfind('\n').unwrap_or(0) *)
Definition rfind_nl (s : list N) : N :=
  snd (fold_left (fun (st : N * N) c => (fst st + 1, if c =? 10 then fst st else snd st)) s (0, 0)).

Definition push (fold : option N) (sd s : list N) : list N :=
  match fold with
  | Some n => (if n <? len sd - rfind_nl sd + len s then sd ++ [10; 32] else sd) ++ s
  | None => sd ++ s
  end.

Fixpoint upd {A} (k : nat) (f : A -> A) (l : list A) : list A :=
  match l, k with
  | [], _ => []
  | a :: t, O => f a :: t
  | a :: t, S k' => a :: upd k' f t
  end.

Fixpoint anseq (a : N) (n : nat) : list N :=
  match n with O => [] | S n' => a :: anseq (a + 1) n' end.

Definition init_buckets (dmax : N) : list (list N) :=
  map (fun d => adec d ++ [47]) (anseq 0 (S (N.to_nat dmax))).

Definition fill (fold : option N) (use_len : bool) (es : list aelem) (b : list (list N)) : list (list N) :=
  fold_left (fun b x => upd (N.to_nat (adepth x)) (fun sd => push fold sd (fmt_elem use_len x)) b) es b.

Definition ends_slash (s : list N) : bool := last s 0 =? 47.

Definition aemit (fold : option N) (dmax d : N) (s : list N) : list N :=
  match fold with
  | None => if ends_slash s then (if d =? dmax then s ++ [32] else []) else s
  | Some _ => if negb (ends_slash s) || (d =? dmax) then s ++ [10] else []
  end.

Fixpoint aemit_all (fold : option N) (dmax d : N) (b : list (list N)) : list N :=
  match b with
  | [] => []
  | s :: t => aemit fold dmax d s ++ aemit_all fold dmax (d + 1) t
  end.

Definition to_ascii (dmax : N) (fold : option N) (use_len : bool) (es : list aelem) : list N :=
  aemit_all fold dmax 0 (fill fold use_len es (init_buckets dmax)).

(** ---------- reader: tokeniser ---------- *)
Fixpoint span_digits (s : list N) : list N * list N :=
  match s with
  | c :: t => if is_digit c then let (a, b) := span_digits t in (c :: a, b) else ([], s)
  | [] => ([], [])
  end.
Definition dval (ds : list N) : N := fold_left (fun a c => a * 10 + (c - 48)) ds 0.

(** digit1 then parse::<T>: None = recoverable nom Error (no digit, or the number does not fit T) *)
Definition parse_val (w : N) (s : list N) : option (N * list N) :=
  let (ds, rest) := span_digits s in
  match ds with
  | [] => None
  | _ => if dval ds <? 2 ^ w then Some (dval ds, rest) else None
  end.

Fixpoint skip_ws (s : list N) : list N :=
  match s with c :: t => if is_ws c then skip_ws t else s | [] => [] end.

Inductive tokres := TokOk (t : token) (rest : list N) | TokErr | TokFail.

Definition sat_add (w a b : N) : N := N.min (a + b) (2 ^ w - 1).

Definition parse_token (w : N) (s : list N) : tokres :=
  match parse_val w s with
  | None => TokErr
  | Some (v, r) =>
    match r with
    | 47 :: r' => TokOk (TDepth v) r'
    | 45 :: r' => match parse_val w r' with
                  | Some (e, r'') => TokOk (TRange v (sat_add w e 1)) r''
                  | None => TokFail end
    | 43 :: r' => match parse_val w r' with
                  | Some (l, r'') => TokOk (TRange v (sat_add w (sat_add w v l) 1)) r''
                  | None => TokFail end
    | _ => TokOk (TCell v) r
    end
  end.

Inductive manyres := MDone (toks : list token) (remain : list N) | MFail | MFuel.

(** terminated(many1(preceded(multispace0, token)), multispace0): [remain] is what is left after the
    final multispace0 *)
Fixpoint many (w : N) (fuel : nat) (s : list N) (l_acc : list token) : manyres :=
  match fuel with
  | O => MFuel
  | S f => match parse_token w (skip_ws s) with
           | TokOk t r => many w f r (l_acc ++ [t])
           | TokErr => MDone l_acc (skip_ws s)
           | TokFail => MFail
           end
  end.

Inductive aerr := AEParse | AERemaining | AEFirstToken | AEDepthType | AEDepth | AEIndex | AENotValid | AEFuel.
Inductive ares (A : Type) := AOk (a : A) | AErr (e : aerr).
Arguments AOk {A} a.
Arguments AErr {A} e.

Definition tokenizer (w : N) (s : list N) : ares (list token) :=
  match many w (S (length s)) s [] with
  | MFuel => AErr AEFuel
  | MFail => AErr AEParse
  | MDone [] _ => AErr AEParse                      (* many1: the first application failed *)
  | MDone toks [] => AOk toks
  | MDone _ _ => AErr AERemaining
  end.

(** ---------- reader: token loop ---------- *)
Record lstate := { l_cur : N; l_dmx : N; l_emax : N; l_acc : list aelem }.

Definition check_depth (q : qty) (w v : N) : ares N :=
  if 255 <? v then AErr AEDepthType else if max_depth q w <? v then AErr AEDepth else AOk v.

Definition tstep (q : qty) (w : N) (st : lstate) (t : token) : ares lstate :=
  match t with
  | TDepth v => match check_depth q w v with
                | AErr e => AErr e
                | AOk d => AOk {| l_cur := d; l_dmx := N.max (l_dmx st) d; l_emax := n_cells q d; l_acc := l_acc st |}
                end
  | TCell i => if l_emax st <=? i then AErr AEIndex
               else AOk {| l_cur := l_cur st; l_dmx := l_dmx st; l_emax := l_emax st; l_acc := l_acc st ++ [ECell (l_cur st) i] |}
  | TRange s e => if (l_emax st <? e) || (e <=? s) then AErr AEIndex
                  else AOk {| l_cur := l_cur st; l_dmx := l_dmx st; l_emax := l_emax st; l_acc := l_acc st ++ [ERange (l_cur st) s e] |}
  end.

Fixpoint tloop (q : qty) (w : N) (st : lstate) (ts : list token) : ares lstate :=
  match ts with
  | [] => AOk st
  | t :: r => match tstep q w st t with AErr e => AErr e | AOk st' => tloop q w st' r end
  end.

Definition consume (q : qty) (w : N) (ts : list token) : ares (N * list aelem) :=
  match ts with
  | [] => AOk (0, [])                       (* unreachable after many1 *)
  | TDepth v :: r =>
      match check_depth q w v with
      | AErr e => AErr e
      | AOk d => match tloop q w {| l_cur := d; l_dmx := d; l_emax := n_cells q d; l_acc := [] |} r with
                | AErr e => AErr e
                | AOk st => AOk (l_dmx st, l_acc st)
                end
      end
  | _ :: _ => AErr AEFirstToken
  end.

(** ---------- reader: sort and validation ---------- *)
(** the range of an element at the deepest level (MocRange::from) *)
Definition erange (q : qty) (w : N) (x : aelem) : range :=
  match x with
  | ECell d i => (i * 2 ^ shift q w d, (i + 1) * 2 ^ shift q w d)
  | ERange d s e => (s * 2 ^ shift q w d, e * 2 ^ shift q w d)
  end.
Definition elow (x : aelem) : N * N := match x with ECell d i => (d, i) | ERange d s _ => (d, s) end.

(** flat_cmp as written: the shallower index is shifted to the deeper depth; returns "a <= b" *)
Definition flat_leb (q : qty) (a b : aelem) : bool :=
  let (d1, i1) := elow a in let (d2, i2) := elow b in
  if d1 =? d2 then i1 <=? i2
  else if d1 <? d2 then i1 * 2 ^ (dim q * (d2 - d1)) <=? i2
  else i1 <=? i2 * 2 ^ (dim q * (d1 - d2)).

Definition overlap (q : qty) (w : N) (a b : aelem) : bool :=
  negb ((snd (erange q w a) <=? fst (erange q w b)) || (snd (erange q w b) <=? fst (erange q w a))).

Fixpoint adj_ok (q : qty) (w : N) (l : list aelem) : bool :=
  match l with
  | a :: ((b :: _) as t) => negb (overlap q w a b) && adj_ok q w t
  | _ => true
  end.

Fixpoint insert_e (q : qty) (x : aelem) (l : list aelem) : list aelem :=
  match l with
  | [] => [x]
  | y :: t => if flat_leb q x y then x :: l else y :: insert_e q x t
  end.
Definition isort_e (q : qty) (l : list aelem) : list aelem := fold_right (insert_e q) [] l.

Section Reader.
  Variable sortf : qty -> list aelem -> list aelem.

  Definition from_ascii (q : qty) (w : N) (s : list N) : ares (N * list aelem) :=
    match tokenizer w s with
    | AErr e => AErr e
    | AOk ts => match consume q w ts with
               | AErr e => AErr e
               | AOk (dm, l) => let l' := sortf q l in
                               if adj_ok q w l' then AOk (dm, l') else AErr AENotValid
               end
    end.
End Reader.

(** ---------- the 2-D document (moc2d_to_ascii_ivoa / moc2d_from_ascii_ivoa) ----------
    p1 / p2 are the PREFIX characters of the two quantities ('t' = 116, 's' = 115, 'f' = 102). *)
Definition st_elem := (list aelem * list aelem)%type.

Definition st_to_ascii (p1 p2 d1 d2 : N) (fold : option N) (use_len : bool) (l : list st_elem) : list N :=
  flat_map (fun e : st_elem => [p1] ++ to_ascii d1 fold use_len (fst e) ++ [p2] ++ to_ascii d2 fold use_len (snd e)) l
  ++ [p1] ++ adec d1 ++ [47; 32; p2] ++ adec d2 ++ [47; 10].

(** the same document when every element carries its OWN depths (an element of a RangeMOC2 may be labelled
    shallower than the MOC2): each side is written at the depth of its label, the trailing depth-only
    element at the depths of the MOC2 *)
Definition st_elem_l := ((N * list aelem) * (N * list aelem))%type.
Definition st_to_ascii_l (p1 p2 d1 d2 : N) (fold : option N) (use_len : bool) (l : list st_elem_l) : list N :=
  flat_map (fun e : st_elem_l => [p1] ++ to_ascii (fst (fst e)) fold use_len (snd (fst e))
                                ++ [p2] ++ to_ascii (fst (snd e)) fold use_len (snd (snd e))) l
  ++ [p1] ++ adec d1 ++ [47; 32; p2] ++ adec d2 ++ [47; 10].

(** str::trim on ASCII: U+0009..U+000D and U+0020 *)
Definition is_trim_ws (c : N) : bool := ((9 <=? c) && (c <=? 13)) || (c =? 32).
Fixpoint drop_ws (s : list N) : list N :=
  match s with c :: t => if is_trim_ws c then drop_ws t else s | [] => [] end.
Definition trim (s : list N) : list N := rev (drop_ws (rev (drop_ws s))).

(** str::split(char): always at least one piece *)
Fixpoint split_on (c : N) (s : list N) : list (list N) :=
  match s with
  | [] => [[]]
  | x :: t => if x =? c then [] :: split_on c t
              else match split_on c t with p :: ps => (x :: p) :: ps | [] => [[x]] end
  end.
Fixpoint split_once (c : N) (s : list N) : option (list N * list N) :=
  match s with
  | [] => None
  | x :: t => if x =? c then Some ([], t)
              else match split_once c t with Some (a, b) => Some (x :: a, b) | None => None end
  end.

Inductive sterr := SElemNotFound | SAscii (e : aerr).
Inductive stres := StOk (d1 d2 : N) (l : list st_elem) | StErr (e : sterr).

Section Reader2.
  Variable sortf : qty -> list aelem -> list aelem.
  Variables (q1 : qty) (w1 : N) (q2 : qty) (w2 : N) (p2 : N).

  Fixpoint st_loop (pieces : list (list N)) (d1 d2 : N) (l_acc : list st_elem) : stres :=
    match pieces with
    | [] => StOk d1 d2 l_acc
    | p :: ps =>
      match p with
      | [] => st_loop ps d1 d2 l_acc
      | _ => match split_once p2 p with
             | None => StErr SElemNotFound
             | Some (a, b) =>
               match from_ascii sortf q1 w1 a with
               | AErr e => StErr (SAscii e)
               | AOk (dl, el) =>
                 match from_ascii sortf q2 w2 b with
                 | AErr e => StErr (SAscii e)
                 | AOk (dr, er) =>
                   st_loop ps (N.max d1 dl) (N.max d2 dr)
                     (match el, er with _ :: _, _ :: _ => l_acc ++ [(el, er)] | _, _ => l_acc end)
                 end
               end
             end
      end
    end.

  Definition st_from_ascii (p1 : N) (s : list N) : stres :=
    st_loop (split_on p1 (trim s)) 0 0 [].
End Reader2.

(** ---------- the streaming ASCII variant (to_ascii_stream / from_ascii_stream) ----------
    Writer: "qty=<NAME>\n" "depth=<d>\n" then one line per element: "<d>/<i>", "<d>/<a>-<b>" with b
    EXCLUSIVE, or "<d>/<a>+<len>" with len = number of cells.
    Reader: BufRead::lines (split on '\n', a final empty piece is not a line; the '\r' a line may end
    with is removed by the trim every use starts with), first line "qty = NAME", second "depth = d"
    (u8, <= MAX_DEPTH), then every line is trimmed and parsed (str::parse of an unsigned integer: an
    optional '+', then digits only, no overflow); a line that does not parse or whose depth / index is
    out of the domain is SKIPPED.  No sort, no validation: the elements come out in file order. *)
Definition qname (q : qty) : list N :=
  match q with
  | Hpx => [72; 80; 88]
  | Time => [84; 73; 77; 69]
  | Freq => [70; 82; 69; 81; 85; 69; 78; 67; 89]
  end.

Definition stream_line (use_len : bool) (x : aelem) : list N :=
  match x with
  | ECell d i => adec d ++ [47] ++ adec i ++ [10]
  | ERange d s e => if use_len then adec d ++ [47] ++ adec s ++ [43] ++ adec (e - s) ++ [10]
                    else adec d ++ [47] ++ adec s ++ [45] ++ adec e ++ [10]
  end.

Definition to_ascii_stream (q : qty) (dmax : N) (use_len : bool) (es : list aelem) : list N :=
  [113; 116; 121; 61] ++ qname q ++ [10] ++ [100; 101; 112; 116; 104; 61] ++ adec dmax ++ [10]
  ++ flat_map (stream_line use_len) es.

Definition lines (s : list N) : list (list N) :=
  let ps := split_on 10 s in
  match rev ps with [] :: r => rev r | _ => ps end.

Definition parse_uint (w : N) (s : list N) : option N :=
  let s' := match s with 43 :: t => t | _ => s end in
  match s' with
  | [] => None
  | _ => if forallb is_digit s' then (if dval s' <? 2 ^ w then Some (dval s') else None) else None
  end.

Definition split_eq_trim (line : list N) : option (list N * list N) :=
  match split_once 61 (trim line) with Some (l, r) => Some (trim l, trim r) | None => None end.

Fixpoint list_eqb (a b : list N) : bool :=
  match a, b with
  | [], [] => true
  | x :: a', y :: b' => (x =? y) && list_eqb a' b'
  | _, _ => false
  end.

Definition contains (c : N) (s : list N) : bool := existsb (N.eqb c) s.

Definition parse_item (q : qty) (w : N) (line0 : list N) : option aelem :=
  let line := trim line0 in
  match line with
  | [] => None
  | _ =>
    match split_once 47 line with
    | None => None
    | Some (ds, cr) =>
      match parse_uint 8 ds with
      | None => None
      | Some d =>
        if max_depth q w <? d then None else
        let n := n_cells q d in
        if contains 45 cr then
          match split_once 45 cr with
          | Some (a, b) =>
            match parse_uint w a, parse_uint w b with
            | Some s, Some e => if (s <? e) && (e <=? n) then Some (ERange d s e) else None
            | _, _ => None
            end
          | None => None
          end
        else if contains 43 cr then
          match split_once 43 cr with
          | Some (a, b) =>
            match parse_uint w a, parse_uint w b with
            | Some s, Some l => let e := sat_add w s l in
                                if (s <? e) && (e <=? n) then Some (ERange d s e) else None
            | _, _ => None
            end
          | None => None
          end
        else match parse_uint w cr with
             | Some i => if i <? n then Some (ECell d i) else None
             | None => None
             end
      end
    end
  end.

Fixpoint filter_map {A B} (f : A -> option B) (l : list A) : list B :=
  match l with [] => [] | a :: t => match f a with Some b => b :: filter_map f t | None => filter_map f t end end.

Inductive serr := SEmptyReader | SQtyExpected | SNoData | SDepthExpected | SDepthNotValid.
Inductive sres := SOk (d : N) (l : list aelem) | SErr (e : serr).

Definition from_ascii_stream (q : qty) (w : N) (s : list N) : sres :=
  match lines s with
  | [] => SErr SEmptyReader
  | l1 :: rest =>
    match split_eq_trim l1 with
    | Some (a, b) =>
      if list_eqb a [113; 116; 121] && list_eqb b (qname q) then
        match rest with
        | [] => SErr SNoData
        | l2 :: items =>
          match split_eq_trim l2 with
          | Some (a2, b2) =>
            if list_eqb a2 [100; 101; 112; 116; 104] then
              match parse_uint 8 b2 with
              | Some d => if max_depth q w <? d then SErr SDepthNotValid
                          else SOk d (filter_map (parse_item q w) items)
              | None => SErr SDepthExpected
              end
            else SErr SDepthExpected
          | None => SErr SDepthExpected
          end
        end
      else SErr SQtyExpected
    | None => SErr SQtyExpected
    end
  end.
