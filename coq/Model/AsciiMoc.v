(** Model/AsciiMoc.v — the ASCII round trip at the level of a MOC:
      ranges --cells (normal form)--> cells --cellranges()--> cell-or-cell-ranges --to_ascii_ivoa--> characters
      --from_ascii_ivoa--> cell-or-cell-ranges --ranges()--> ranges
    with the adapters as written: Adapters.cellranges (grouping), AsciiCodec (the codec) and
    RangeMOCIteratorFromCellOrCellRanges (fusion on `rstart <= lend`, `lend = rend`), here fuse_le.
    Theorem ascii_moc_roundtrip: for every valid MOC (d, l) the chain gives back (d, l), for every
    fold width and both notations. *)
From Coq Require Import List NArith Arith Lia Bool Permutation Sorted.
From MOC.Base Require Import RangeSet.
From MOC.Model Require Import Qty Query Build Repr Adapters AsciiCodec AsciiProofs AsciiStreamProofs.
Import ListNotations.
Open Scope N_scope.

Arguments N.add : simpl never.
Arguments N.mul : simpl never.
Arguments N.sub : simpl never.
Arguments N.pow : simpl never.
Arguments N.eqb : simpl never.
Arguments N.leb : simpl never.
Arguments N.ltb : simpl never.

(** a gathered cell range as a codec element: a single cell when n = 1 *)
Definition of_cr (r : cellrange) : aelem :=
  let '(d, i, n) := r in if n =? 1 then ECell d i else ERange d i (i + n).

Definition elems_of_cells (l : list cell) : list aelem := map of_cr (cellranges l).

(** cell-or-cell-ranges -> ranges, as written *)
Fixpoint fuse_le (l_cur : range) (l : list range) : list range :=
  match l with
  | [] => [l_cur]
  | r :: t => if fst r <=? snd l_cur then fuse_le (fst l_cur, snd r) t else l_cur :: fuse_le r t
  end.
Definition ranges_of_elems (q : qty) (w : N) (l : list aelem) : list range :=
  match map (erange q w) l with [] => [] | r :: t => fuse_le r t end.

Lemma fuse_le_asc : forall l l_cur, asc (snd l_cur) l -> fuse_le l_cur l = fuse_r l_cur l.
Proof.
  induction l as [|r t IH]; intros l_cur Ha; [reflexivity|].
  cbn [asc] in Ha. destruct Ha as (A1 & A2 & A3). cbn [fuse_le fuse_r].
  destruct (N.leb_spec (fst r) (snd l_cur)) as [L|L]; destruct (N.eqb_spec (snd l_cur) (fst r)) as [E|E]; try lia.
  - apply IH. exact A3.
  - f_equal. apply IH. exact A3.
Qed.

Theorem ranges_of_elems_spec q w l : asc 0 (map (erange q w) l) ->
  Canon (ranges_of_elems q w l) /\ forall x, cov (ranges_of_elems q w l) x <-> cov (map (erange q w) l) x.
Proof.
  unfold ranges_of_elems. destruct (map (erange q w) l) as [|r t]; intros Ha; [split; [exact I|intros; reflexivity]|].
  cbn [asc] in Ha. destruct Ha as (A1 & A2 & A3). rewrite (fuse_le_asc t r A3).
  destruct (fuse_r_spec t r A2 A3) as [S C].
  split; [apply (sorted_from_weaken _ (fst r)); [lia|exact S]|]. intros x. rewrite C, cov_cons. reflexivity.
Qed.

(** ---------- the gathered cell ranges of an ascending cell list ---------- *)
Lemma erange_of_cr q w d i n : 0 < n ->
  erange q w (of_cr (d, i, n)) = (i * 2 ^ shift q w d, (i + n) * 2 ^ shift q w d).
Proof.
  intros Hn. unfold of_cr. destruct (N.eqb_spec n 1) as [->|N1]; reflexivity.
Qed.

Section Group.
  Variable q : qty.
  Variable w : N.
  Variable dmax : N.

  Definition cell_valid (c : cell) : Prop := fst c <= dmax /\ snd c < n_cells q (fst c).

  Lemma group_asc : forall l d i n lo, 0 < n -> lo <= i * 2 ^ shift q w d ->
    asc ((i + n) * 2 ^ shift q w d) (map (crange q w) l) ->
    asc lo (map (erange q w) (map of_cr (group d i n l))).
  Proof.
    induction l as [|[d' i'] t IH]; intros d i n lo Hn Hlo Ha; cbn [group].
    - cbn [map asc]. rewrite (erange_of_cr q w d i n Hn). cbn [fst snd].
      pose proof (pow2_pos (shift q w d)). repeat split; [exact Hlo|nia].
    - cbn [map asc] in Ha. unfold crange at 1 in Ha. unfold cell_range in Ha. cbn [fst snd] in Ha.
      destruct Ha as (A1 & A2 & A3).
      destruct ((d' =? d) && (i + n =? i')) eqn:Q.
      + apply andb_true_iff in Q. destruct Q as [Q1 Q2]. apply N.eqb_eq in Q1. apply N.eqb_eq in Q2. subst d' i'.
        apply IH; [lia|exact Hlo|]. replace (i + (n + 1)) with (i + n + 1) by lia. exact A3.
      + cbn [map asc]. rewrite (erange_of_cr q w d i n Hn). cbn [fst snd].
        pose proof (pow2_pos (shift q w d)). split; [exact Hlo|]. split; [nia|].
        apply IH; [lia|exact A1|]. replace (i' + 1) with (i' + 1) by lia. exact A3.
  Qed.

  Lemma group_wf : forall l d i n, 0 < n -> d <= dmax -> i + n <= n_cells q d -> Forall cell_valid l ->
    Forall (elem_wf q dmax) (map of_cr (group d i n l)).
  Proof.
    assert (One : forall d i n, 0 < n -> d <= dmax -> i + n <= n_cells q d -> elem_wf q dmax (of_cr (d, i, n))).
    { intros d i n Hn Hd Hi. unfold of_cr. destruct (N.eqb_spec n 1) as [->|N1]; split; cbn [adepth elem_ok]; lia. }
    induction l as [|[d' i'] t IH]; intros d i n Hn Hd Hi Hl; cbn [group].
    - cbn [map]. constructor; [apply One; assumption|constructor].
    - inversion Hl as [|? ? [V1 V2] Hl']; subst. cbn [fst snd] in V1, V2.
      destruct ((d' =? d) && (i + n =? i')) eqn:Q.
      + apply andb_true_iff in Q. destruct Q as [Q1 Q2]. apply N.eqb_eq in Q1. apply N.eqb_eq in Q2. subst d' i'.
        apply IH; [lia|exact Hd|lia|exact Hl'].
      + cbn [map]. constructor; [apply One; assumption|]. apply IH; [lia|exact V1|lia|exact Hl'].
  Qed.

  Lemma group_cov : forall l d i n x, 0 < n ->
    (cov (map (erange q w) (map of_cr (group d i n l))) x <->
     (i * 2 ^ shift q w d <= x < (i + n) * 2 ^ shift q w d) \/ cov (map (crange q w) l) x).
  Proof.
    induction l as [|[d' i'] t IH]; intros d i n x Hn; cbn [group].
    - cbn [map]. rewrite cov_cons, (erange_of_cr q w d i n Hn). unfold inr. cbn [fst snd].
      split; [intros [H|H]; [left; exact H|destruct (cov_nil _ H)]|intros [H|H]; [left; exact H|destruct (cov_nil _ H)]].
    - cbn [map]. rewrite (cov_cons (crange q w (d', i'))). unfold crange at 1. unfold cell_range, inr. cbn [fst snd].
      destruct ((d' =? d) && (i + n =? i')) eqn:Q.
      + apply andb_true_iff in Q. destruct Q as [Q1 Q2]. apply N.eqb_eq in Q1. apply N.eqb_eq in Q2. subst d' i'.
        rewrite (IH d i (n + 1) x ltac:(lia)).
        pose proof (pow2_pos (shift q w d)).
        split.
        * intros [H1|H1]; [|right; right; exact H1].
          destruct (N.lt_ge_cases x ((i + n) * 2 ^ shift q w d)); [left; lia|right; left; nia].
        * intros [H1|[H1|H1]]; [left; nia|left; nia|right; exact H1].
      + cbn [map]. rewrite cov_cons, (erange_of_cr q w d i n Hn). unfold inr. cbn [fst snd].
        rewrite (IH d' i' 1 x ltac:(lia)). tauto.
  Qed.
End Group.

Lemma asc_lower : forall l lo, asc lo l -> Forall (fun r : range => lo <= fst r) l.
Proof.
  induction l as [|r t IH]; intros lo Ha; [constructor|].
  cbn [asc] in Ha. destruct Ha as (A1 & A2 & A3). constructor; [exact A1|].
  eapply Forall_impl; [|apply (IH _ A3)]. intros r' H. cbn beta in H. lia.
Qed.

Lemma asc_disj q w : forall es lo, asc lo (map (erange q w) es) -> Disj q w es.
Proof.
  unfold Disj. induction es as [|a es IH]; intros lo Ha; [constructor|].
  cbn [map asc] in Ha. destruct Ha as (A1 & A2 & A3). constructor; [|apply (IH _ A3)].
  pose proof (asc_lower _ _ A3) as L. rewrite Forall_map in L.
  eapply Forall_impl; [|exact L]. intros b Hb. cbn beta in Hb. unfold overlap.
  apply negb_false_iff. apply orb_true_iff. left. apply N.leb_le. exact Hb.
Qed.

Lemma cells_elems_facts q w d l cells : NormalCells q w d l cells ->
  asc 0 (map (erange q w) (elems_of_cells cells)) /\ Forall (elem_wf q d) (elems_of_cells cells) /\
  forall x, cov (map (erange q w) (elems_of_cells cells)) x <-> cov l x.
Proof.
  intros [N1 N2 N3 _]. split; [|split].
  - unfold elems_of_cells, cellranges. destruct cells as [|[d0 i0] t]; [exact I|].
    cbn [map asc] in N2. unfold crange at 1 in N2. unfold cell_range in N2. cbn [fst snd] in N2.
    destruct N2 as (A1 & A2 & A3). apply group_asc; [lia|exact A1|exact A3].
  - unfold elems_of_cells, cellranges. destruct cells as [|[d0 i0] t]; [constructor|].
    inversion N1 as [|? ? [V1 V2] N1']; subst. cbn [fst snd] in V1, V2.
    apply group_wf; [lia|exact V1|lia|exact N1'].
  - intros x. rewrite <- N3. unfold elems_of_cells, cellranges. destruct cells as [|[d0 i0] t]; [reflexivity|].
    rewrite (group_cov q w t d0 i0 1 x ltac:(lia)). cbn [map]. rewrite cov_cons. unfold crange at 2. unfold cell_range, inr. cbn [fst snd]. reflexivity.
Qed.

(** cells -> cell ranges -> ranges is the identity on the normal form *)
Theorem elems_ranges_roundtrip q w d l cells : Canon l -> NormalCells q w d l cells ->
  ranges_of_elems q w (elems_of_cells cells) = l.
Proof.
  intros Hc HN. destruct (cells_elems_facts q w d l cells HN) as [Hasc [_ Hcov]].
  destruct (ranges_of_elems_spec q w _ Hasc) as [C1 C2].
  apply canon_unique; [exact C1|exact Hc|]. intros x. rewrite C2. apply Hcov.
Qed.

Section MocRoundTrip.
  Variable sortf : qty -> list aelem -> list aelem.
  Hypothesis sortf_perm : forall q l, Permutation (sortf q l) l.
  Hypothesis sortf_sorted : forall q l, Sorted (fun a b => flat_leb q a b = true) (sortf q l).

  Theorem ascii_cells_roundtrip q w d l cells fold ul :
    okw w -> d <= max_depth q w -> Canon l -> NormalCells q w d l cells ->
    exists l', from_ascii sortf q w (to_ascii d fold ul (elems_of_cells cells)) = AOk (d, l') /\
               ranges_of_elems q w l' = l.
  Proof.
    intros Hw Hd Hc HN.
    set (es := elems_of_cells cells).
    destruct (cells_elems_facts q w d l cells HN) as [Hasc [Hwf Hcov]]. fold es in Hasc, Hwf, Hcov.
    pose proof (ascii_roundtrip sortf sortf_perm q w d fold ul es Hw Hd Hwf (asc_disj q w es 0 Hasc)) as RT.
    exists (sortf q (regroup d es)). split; [exact RT|].
    destruct (reader_sound sortf sortf_perm sortf_sorted q w _ _ _ RT) as [_ [_ S3]].
    destruct (ranges_of_elems_spec q w _ S3) as [C1 C2].
    apply canon_unique; [exact C1|exact Hc|].
    intros x. rewrite C2, <- Hcov. apply (ascii_roundtrip_cov sortf sortf_perm q w d es x Hwf).
  Qed.
End MocRoundTrip.

(** the streaming variant: same chain, elements in file order *)
Theorem ascii_stream_cells_roundtrip q w d l cells ul :
  okw w -> d <= max_depth q w -> Canon l -> NormalCells q w d l cells ->
  from_ascii_stream q w (to_ascii_stream q d ul (elems_of_cells cells)) = SOk d (elems_of_cells cells) /\
  ranges_of_elems q w (elems_of_cells cells) = l.
Proof.
  intros Hw Hd Hc HN. split; [|apply (elems_ranges_roundtrip q w d l cells Hc HN)].
  apply ascii_stream_roundtrip; [exact Hw|exact Hd|]. apply (cells_elems_facts q w d l cells HN).
Qed.

Example ascii_example :
  let es := elems_of_cells [(2, 3); (1, 1); (1, 2); (1, 3); (2, 20); (3, 100)] in
  to_ascii 4 None false es = [49; 47; 49; 45; 51; 32; 50; 47; 51; 32; 50; 48; 32; 51; 47; 49; 48; 48; 32; 52; 47; 32] /\
  from_ascii isort_e Hpx 64 (to_ascii 4 (Some 8) true es) = AOk (4, es).
Proof. split; vm_compute; reflexivity. Qed.
