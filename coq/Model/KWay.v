(** Model/KWay.v — (F) the n-ary operators of src/moc/range/op/multi_op.rs as written:
    kway_or / kway_and / kway_xor (and their _it variants, which first collect each group)
    combine the operands BY GROUPS OF FOUR — (i1 op i2) op (i3 op i4), (i1 op i2) op i3,
    i1 op i2, i1 — and recurse on the stream of group results (the KWay4 adapter yields the
    previous group while computing the next one, i.e. the groups in order) until at most
    three MOCs remain.  Theorem: for and / or / xor on valid MOCs this equals the left fold
    of the binary operator (the specification [Build.kway]), depth included, for every
    number of operands.  (The seeded change S-C06-1 replaced the operator of the recursive
    call of kway_xor_it by `or`: that is exactly a [group4]/[kway4] with two different
    operators, for which the theorem is false.) *)
From Coq Require Import List NArith Arith Lia Bool.
From MOC.Base Require Import RangeSet.
From MOC.Model Require Import Qty Ops1D Build.
Import ListNotations.
Open Scope N_scope.

Definition moc := (N * list range)%type.
Definition mo (o : op2) (q : qty) (w : N) (a b : moc) : moc := moc_op2 o q w (fst a) (snd a) (fst b) (snd b).

Section KWay.
Variables (o : op2) (q : qty) (w : N).
Notation "a ** b" := (mo o q w a b) (at level 40, left associativity).

Fixpoint group4 (l : list moc) : list moc :=
  match l with
  | a :: b :: c :: d :: t => ((a ** b) ** (c ** d)) :: group4 t
  | [a; b; c] => [(a ** b) ** c]
  | [a; b] => [a ** b]
  | [a] => [a]
  | [] => []
  end.

Fixpoint kway4 (fuel : nat) (l : list moc) : moc :=
  match l with
  | [] => (0, [])
  | [a] => a
  | [a; b] => a ** b
  | [a; b; c] => (a ** b) ** c
  | _ => match fuel with O => (0, []) | S f => kway4 f (group4 l) end
  end.

(** ---------- boolean semantics of the three associative operators ---------- *)
Definition bop (x y : bool) : bool :=
  match o with OAnd => x && y | OOr => x || y | OXor => xorb x y | OMinus => x && negb y end.
Definition bunit : bool := match o with OAnd => true | _ => false end.
Definition bsem (l : list bool) : bool := fold_right bop bunit l.

Hypothesis Hassoc_op : o <> OMinus.

Lemma bop_assoc x y z : bop (bop x y) z = bop x (bop y z).
Proof. unfold bop. destruct o; try congruence; destruct x, y, z; reflexivity. Qed.
Lemma bop_unit_r x : bop x bunit = x.
Proof. unfold bop, bunit. destruct o; try congruence; destruct x; reflexivity. Qed.
Lemma bop_unit_l x : bop bunit x = x.
Proof. unfold bop, bunit. destruct o; try congruence; destruct x; reflexivity. Qed.
Lemma bsem_app l1 l2 : bsem (l1 ++ l2) = bop (bsem l1) (bsem l2).
Proof.
  induction l1 as [|a l1 IH]; cbn [app bsem fold_right]; [rewrite bop_unit_l; reflexivity|].
  fold (bsem (l1 ++ l2)). fold (bsem l1). rewrite IH, bop_assoc. reflexivity.
Qed.

(** a MOC "means" its depth and its membership function *)
Definition cv (x : N) (m : moc) : bool := covb (snd m) x.
Definition VM (m : moc) : Prop := ValidMoc q w (fst m) (snd m).

Lemma mo_sem a b : VM a -> VM b ->
  VM (a ** b) /\ fst (a ** b) = N.max (fst a) (fst b) /\ forall x, cv x (a ** b) = bop (cv x a) (cv x b).
Proof.
  intros Ha Hb. destruct (moc_op2_correct o q w _ _ _ _ Ha Hb) as (R1 & R2 & R3).
  split; [exact R2|]. split; [exact R1|]. intros x. unfold cv, mo.
  specialize (R3 x). cbv zeta in R3.
  pose proof (covb_spec (snd (moc_op2 o q w (fst a) (snd a) (fst b) (snd b))) x) as S0.
  pose proof (covb_spec (snd a) x) as S1. pose proof (covb_spec (snd b) x) as S2.
  destruct (covb (snd (moc_op2 o q w (fst a) (snd a) (fst b) (snd b))) x) eqn:E0;
  destruct (covb (snd a) x) eqn:E1; destruct (covb (snd b) x) eqn:E2;
  unfold bop, setop in *; destruct o; try congruence; try reflexivity; exfalso;
  (assert (T : forall P : Prop, (true = true <-> P) -> P) by (intros P [K _]; apply K; reflexivity));
  (assert (F : forall P : Prop, (false = true <-> P) -> ~ P) by (intros P [_ K] HP; specialize (K HP); discriminate));
  repeat match goal with
  | H : true = true <-> _ |- _ => apply T in H
  | H : false = true <-> _ |- _ => apply F in H
  end; tauto.
Qed.

Definition dmax (l : list moc) : N := fold_right (fun m a => N.max (fst m) a) 0 l.
Lemma dmax_app l1 l2 : dmax (l1 ++ l2) = N.max (dmax l1) (dmax l2).
Proof. unfold dmax. induction l1 as [|a l1 IH]; cbn [app fold_right]; [lia|]. rewrite IH. lia. Qed.

(** the meaning of a non-empty operand list *)
Record Means (l : list moc) (r : moc) : Prop :=
  { mn_valid : VM r; mn_depth : fst r = dmax l; mn_cov : forall x, cv x r = bsem (map (cv x) l) }.

Lemma means_one a : VM a -> Means [a] a.
Proof. intros H. constructor; [exact H|unfold dmax; cbn [fold_right]; lia|]. intros x. cbn [map bsem fold_right]. rewrite bop_unit_r. reflexivity. Qed.

Lemma means_mo l1 l2 r1 r2 : Means l1 r1 -> Means l2 r2 -> Means (l1 ++ l2) (r1 ** r2).
Proof.
  intros [V1 D1 C1] [V2 D2 C2]. destruct (mo_sem r1 r2 V1 V2) as (V & D & C).
  constructor; [exact V|rewrite D, D1, D2, dmax_app; reflexivity|].
  intros x. rewrite C, C1, C2, map_app, bsem_app. reflexivity.
Qed.

(** [group4] splits the list into consecutive groups, each of which it evaluates *)
Inductive Groups : list moc -> list moc -> Prop :=
| G_nil : Groups [] []
| G_cons g r l gs : g <> [] -> Means g r -> Groups l gs -> Groups (g ++ l) (r :: gs).

Lemma group4_groups : forall n l, (length l <= n)%nat -> Forall VM l -> Groups l (group4 l).
Proof.
  induction n as [|n IH]; intros l Hn HV.
  - destruct l; [constructor|cbn in Hn; lia].
  - destruct l as [|a [|b [|c [|d t]]]]; cbn [group4].
    + constructor.
    + inversion HV; subst. apply (G_cons [a] a [] []); [discriminate|apply means_one; assumption|constructor].
    + inversion HV as [|? ? Va HV1]; inversion HV1 as [|? ? Vb _]; subst.
      apply (G_cons [a; b] _ [] []); [discriminate| |constructor].
      apply (means_mo [a] [b]); apply means_one; assumption.
    + inversion HV as [|? ? Va HV1]; inversion HV1 as [|? ? Vb HV2]; inversion HV2 as [|? ? Vc _]; subst.
      apply (G_cons [a; b; c] _ [] []); [discriminate| |constructor].
      apply (means_mo [a; b] [c]); [apply (means_mo [a] [b])|]; apply means_one; assumption.
    + inversion HV as [|? ? Va HV1]; inversion HV1 as [|? ? Vb HV2]; inversion HV2 as [|? ? Vc HV3];
      inversion HV3 as [|? ? Vd HVt]; subst.
      apply (G_cons [a; b; c; d] _ t (group4 t)); [discriminate| |].
      * apply (means_mo [a; b] [c; d]); apply (means_mo [_] [_]); apply means_one; assumption.
      * apply IH; [cbn in Hn; lia|exact HVt].
Qed.

Lemma groups_valid l gs : Groups l gs -> Forall VM gs.
Proof. induction 1 as [|g r l gs Hne [V _ _] _ IH]; constructor; assumption. Qed.

(** evaluating the groups list means evaluating the flat list *)
Lemma groups_means l gs r : Groups l gs -> Means gs r -> Means l r.
Proof.
  intros HG [V D C]. constructor; [exact V| |].
  - rewrite D. clear D C V. induction HG as [|g r0 l gs Hne [_ D0 _] _ IH]; [reflexivity|].
    cbn [dmax fold_right]. fold (dmax gs). rewrite dmax_app, D0, IH. reflexivity.
  - intros x. rewrite C. clear D C V. induction HG as [|g r0 l gs Hne [_ _ C0] _ IH]; [reflexivity|].
    cbn [map bsem fold_right]. fold (bsem (map (cv x) gs)). rewrite map_app, bsem_app, C0, IH. reflexivity.
Qed.

Lemma groups_length l gs : Groups l gs -> (length gs <= length l)%nat /\ (l <> [] -> gs <> []).
Proof.
  induction 1 as [|g r l gs Hne _ _ [IH1 IH2]]; [split; [lia|congruence]|].
  split; [|discriminate]. rewrite app_length. destruct g; [congruence|]. cbn [length]. lia.
Qed.

Lemma group4_shrinks a b c d t : (length (group4 (a :: b :: c :: d :: t)) < length (a :: b :: c :: d :: t))%nat.
Proof.
  cbn [group4 length].
  assert (H : forall n l, (length l <= n)%nat -> (length (group4 l) <= length l)%nat).
  { induction n as [|n IH]; intros l Hn; [destruct l; cbn in *; lia|].
    destruct l as [|a' [|b' [|c' [|d' t']]]]; cbn [group4 length]; try lia.
    specialize (IH t'). cbn [length] in Hn. lia. }
  specialize (H (length t) t (le_n _)). lia.
Qed.

Theorem kway4_means : forall fuel l, (length l <= fuel)%nat -> l <> [] -> Forall VM l ->
  Means l (kway4 fuel l).
Proof.
  induction fuel as [|fuel IH]; intros l Hn Hne HV; [destruct l; [congruence|cbn in Hn; lia]|].
  destruct l as [|a [|b [|c [|d t]]]]; [congruence| | | |].
  - inversion HV; subst. apply means_one; assumption.
  - inversion HV as [|? ? Va HV1]; inversion HV1 as [|? ? Vb _]; subst.
    apply (means_mo [a] [b]); apply means_one; assumption.
  - inversion HV as [|? ? Va HV1]; inversion HV1 as [|? ? Vb HV2]; inversion HV2 as [|? ? Vc _]; subst.
    apply (means_mo [a; b] [c]); [apply (means_mo [a] [b])|]; apply means_one; assumption.
  - change (kway4 (S fuel) (a :: b :: c :: d :: t)) with (kway4 fuel (group4 (a :: b :: c :: d :: t))).
    pose proof (group4_groups _ _ (le_n _) HV) as HG.
    apply (groups_means _ _ _ HG). apply IH.
    + pose proof (group4_shrinks a b c d t). lia.
    + apply (proj2 (groups_length _ _ HG)). discriminate.
    + apply (groups_valid _ _ HG).
Qed.

(** the specification (left fold) has the same meaning *)
Lemma fold_means t : forall m l0, Means l0 m -> Forall VM t ->
  Means (l0 ++ t) (fold_left (fun acc x => moc_op2 o q w (fst acc) (snd acc) (fst x) (snd x)) t m).
Proof.
  induction t as [|m' t IH]; intros m l0 Hm HV; cbn [fold_left]; [rewrite app_nil_r; exact Hm|].
  inversion HV as [|? ? V' HVt]; subst.
  replace (l0 ++ m' :: t) with ((l0 ++ [m']) ++ t) by (rewrite <- app_assoc; reflexivity).
  apply IH; [|exact HVt]. apply (means_mo l0 [m'] m m' Hm (means_one m' V')).
Qed.

Lemma means_unique l r1 r2 : Means l r1 -> Means l r2 -> r1 = r2.
Proof.
  intros [V1 D1 C1] [V2 D2 C2]. destruct r1 as [d1 A1], r2 as [d2 A2]. cbn [fst snd] in *.
  assert (E : d2 = d1) by congruence. unfold VM in V1, V2. cbn [fst snd] in V1, V2. rewrite E in V2. rewrite E. clear E D1 D2.
  apply f_equal. apply (validmoc_ext q w d1); [exact V1|exact V2|].
  intros x. rewrite <- !covb_spec. specialize (C1 x). specialize (C2 x). unfold cv in *. cbn [snd] in *. rewrite C1, C2. reflexivity.
Qed.

Theorem kway4_eq_spec l : AllValid q w l -> kway4 (length l) l = kway o q w l.
Proof.
  intros HV. destruct l as [|m t]; [reflexivity|].
  apply (means_unique (m :: t)).
  - apply kway4_means; [apply le_n|discriminate|exact HV].
  - unfold kway. inversion HV as [|? ? Vm Vt]; subst.
    apply (fold_means t m [m] (means_one m Vm) Vt).
Qed.
End KWay.

(** the mechanism of S-C06-1: groups combined with xor, then the group results with OR *)
Example kway_xor_then_or_differs :
  let q := Hpx in let w := 64 in
  let c i := (3, [(i * 2 ^ 52, (i + 3) * 2 ^ 52)]) : moc in
  let l := [c 0; c 2; c 4; c 6; c 8] in
  kway4 OXor q w 5 l = kway OXor q w l /\
  mo OOr q w (kway4 OXor q w 4 [c 0; c 2; c 4; c 6]) (c 8) <> kway OXor q w l.
Proof. split; [vm_compute; reflexivity|vm_compute; discriminate]. Qed.
