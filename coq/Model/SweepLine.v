(** Model/SweepLine.v — (F) the streaming ST-MOC builder fed with (time range, space cell) observations
    (src/moc2d/builder/maxdepths_ranges_cells.rs RangesAndFixedDepthCellsSTMocBuilder::buff_to_moc with
    SweepLineMOC2ElemBuilder), as written, when no flush occurs:
      every observation i = ([ts i, te i), cell i) gives a Start and an End event; the events are sorted
      by position, an End before a Start at the same position; the element builder keeps a MULTISET of
      open cells (cell -> count), the position [start_1] since which the SET of open cells has not
      changed, and
        add(start, cell):  cell already open -> count + 1;  no cell open -> open it, start_1 = start;
                           start_1 = start -> insert;  otherwise EMIT ([start_1, start), cells open so
                           far), insert the cell, start_1 = start;
        remove(end, cell): count - 1; when it reaches 0: EMIT ([start_1, end), cells open so far) unless
                           start_1 = end, start_1 = end, drop the cell, start_1 = None when nothing is
                           open any more.
    The multiset is represented by the list of the open observations (count of a cell = number of open
    observations with that cell); the space MOC of a set of cells is any list covering exactly those
    cells ([mk2], as for STBuilder).
    Theorem: the elements cover (t, x) exactly when some observation has t in its time range and x in
    its cell; every element is one non-empty time range with a non-empty space MOC, and the elements
    are increasing and disjoint in time. *)
From Coq Require Import List NArith Arith Lia Bool Sorting.Sorted.
From MOC.Base Require Import RangeSet.
From MOC.Model Require Import Qty Query Build Repr ST Sweep2D.
Import ListNotations.
Open Scope N_scope.

Section SL.
Variable n : nat.
Variables ts te : nat -> N.
Variable cell : nat -> N.
Hypothesis t_nonempty : forall i, (i < n)%nat -> ts i < te i.

Variable in2 : N -> N -> Prop.
Variable mk2 : list N -> list range.
Hypothesis mk2_cov : forall cells x, cov (mk2 cells) x <-> exists c, In c cells /\ in2 c x.
Hypothesis mk2_ne : forall cells, cells <> [] -> mk2 cells <> [].

Definition cells_of (a : list nat) : list N := map cell a.
Definition has_cell (a : list nat) (c : N) : bool := existsb (fun j => cell j =? c) a.

Record sl := { s_act : list nat; s_start : option N; s_out : list entry }.

Definition sl_add (s : sl) (start : N) (i : nat) : sl :=
  if has_cell (s_act s) (cell i) then
    {| s_act := i :: s_act s; s_start := Some (match s_start s with Some v => v | None => start end); s_out := s_out s |}
  else if isnil (s_act s) then
    {| s_act := [i]; s_start := Some (match s_start s with Some v => v | None => start end); s_out := s_out s |}
  else if (match s_start s with Some v => v =? start | None => false end) then
    {| s_act := i :: s_act s; s_start := s_start s; s_out := s_out s |}
  else
    {| s_act := i :: s_act s; s_start := Some start;
       s_out := s_out s ++ (match s_start s with Some ps => [((ps, start), mk2 (cells_of (s_act s)))] | None => [] end) |}.

Definition sl_remove (s : sl) (e : N) (i : nat) : sl :=
  let act' := remove Nat.eq_dec i (s_act s) in
  if has_cell act' (cell i) then {| s_act := act'; s_start := s_start s; s_out := s_out s |}
  else
    let ps := match s_start s with Some v => v | None => e end in
    {| s_act := act';
       s_start := if isnil act' then None else Some e;
       s_out := if ps =? e then s_out s else s_out s ++ [((ps, e), mk2 (cells_of (s_act s)))] |}.

Definition sl_step (s : sl) (b : bound) : sl :=
  if bs_ b then sl_add s (bx b) (bi b) else sl_remove s (bx b) (bi b).

Definition sweep_line (bs : list bound) : list entry :=
  s_out (fold_left sl_step bs {| s_act := []; s_start := None; s_out := [] |}).

(** ---------- the sorted events ---------- *)
Variable bs : list bound.
Hypothesis bs_sorted : StronglySorted ble bs.
Hypothesis bs_start : forall x i, In (x, i, true) bs <-> ((i < n)%nat /\ x = ts i).
Hypothesis bs_end : forall x i, In (x, i, false) bs <-> ((i < n)%nat /\ x = te i).
Hypothesis bs_nodup : NoDup bs.

Definition covObs (t x : N) : Prop := exists i, (i < n)%nat /\ ts i <= t < te i /\ in2 (cell i) x.
(** the set of cells open at instant t *)
Definition open_at (t : N) (c : N) : Prop := exists i, (i < n)%nat /\ ts i <= t < te i /\ cell i = c.

(** emitted elements: increasing and disjoint in time, non-empty in both dimensions *)
Fixpoint sch (lo : N) (l : list entry) : Prop :=
  match l with [] => True | e :: t => lo <= fst (fst e) /\ fst (fst e) < snd (fst e) /\ snd e <> [] /\ sch (snd (fst e)) t end.
Lemma sch_app l1 : forall lo e, sch lo l1 -> (forall a, In a l1 -> snd (fst a) <= fst (fst e)) -> lo <= fst (fst e) ->
  fst (fst e) < snd (fst e) -> snd e <> [] -> sch lo (l1 ++ [e]).
Proof.
  induction l1 as [|a l1 IH]; intros lo e H Hall Hlo H1 H2; cbn [app sch]; [repeat split; assumption|].
  cbn [sch] in H. destruct H as (A & B & C & D). repeat split; try assumption.
  apply IH; try assumption; [intros a' Ha'; apply Hall; right; exact Ha'|apply Hall; left; reflexivity].
Qed.

Record SInv (P : list bound) (pos : N) (s : sl) : Prop :=
  { si_act : forall i, In i (s_act s) <-> ((i < n)%nat /\ In (ts i, i, true) P /\ ~ In (te i, i, false) P);
    si_pos : forall b, In b P -> bx b <= pos;
    si_none : s_start s = None <-> s_act s = [];
    si_start : forall st, s_start s = Some st -> st <= pos /\
                 (forall t c, st <= t < pos -> (open_at t c <-> In c (cells_of (s_act s)))) /\
                 (forall e, In e (s_out s) -> snd (fst e) <= st);
    si_out : forall e, In e (s_out s) -> fst (fst e) < snd (fst e) /\ snd (fst e) <= pos /\ snd e <> [];
    si_cov : forall t x, (match s_start s with Some st => t < st | None => t < pos end) -> (covE (s_out s) t x <-> covObs t x);
    si_sch : sch 0 (s_out s) }.

Lemma has_cell_spec a c : has_cell a c = true <-> In c (cells_of a).
Proof.
  unfold has_cell, cells_of. rewrite existsb_exists, in_map_iff. split.
  - intros [j [Hj E]]. apply N.eqb_eq in E. exists j. split; assumption.
  - intros [j [E Hj]]. exists j. split; [exact Hj|apply N.eqb_eq; exact E].
Qed.

Lemma in_remove_iff' (l : list nat) i j : In i (remove Nat.eq_dec j l) <-> In i l /\ i <> j.
Proof. split; [intros H; apply in_remove in H; exact H|intros [H1 H2]; apply in_in_remove; assumption]. Qed.

Lemma cells_remove_same a i : has_cell (remove Nat.eq_dec i a) (cell i) = true ->
  forall c, In c (cells_of (remove Nat.eq_dec i a)) <-> In c (cells_of a).
Proof.
  intros H c. unfold cells_of. rewrite !in_map_iff. split.
  - intros [j [E Hj]]. apply in_remove_iff' in Hj. exists j. tauto.
  - intros [j [E Hj]]. destruct (Nat.eq_dec j i) as [->|Hd]; [|exists j; split; [exact E|apply in_remove_iff'; tauto]].
    apply has_cell_spec in H. unfold cells_of in H. apply in_map_iff in H. destruct H as [k [Ek Hk]]. exists k. split; [congruence|exact Hk].
Qed.

(** what an element emitted for [st, x) covers *)
Lemma emit_cov a st x : (forall t c, st <= t < x -> (open_at t c <-> In c (cells_of a))) ->
  forall t y, st <= t < x -> (cov (mk2 (cells_of a)) y <-> covObs t y).
Proof.
  intros H t y Ht. rewrite mk2_cov. unfold covObs. split.
  - intros [c [Hc K]]. apply (H t c Ht) in Hc. destruct Hc as [i (A & B & C)]. exists i. subst c. tauto.
  - intros [i (A & B & C)]. exists (cell i). split; [apply (H t (cell i) Ht); exists i; tauto|exact C].
Qed.

Lemma sl_step_inv P pos s b R : SInv P pos s -> In b bs ->
  (forall p, In p P -> ble p b) -> (forall r, In r R -> ble b r) ->
  (forall c, In c bs -> In c P \/ c = b \/ In c R) -> (forall p, In p P -> In p bs) ->
  (P <> [] -> exists p, In p P /\ bx p = pos) -> (P = [] -> pos = 0) -> ~ In b P ->
  SInv (P ++ [b]) (bx b) (sl_step s b).
Proof.
  intros [Act Pos Non St Out Cov Sch] Hb HP HR Hall HPin Hlast Hinit HbP. destruct b as [[x i] stt]. cbn [bx fst snd] in *.
  assert (Hpx : pos <= x).
  { destruct P as [|p0 P0]; [rewrite (Hinit eq_refl); lia|]. destruct (Hlast ltac:(discriminate)) as [p [Hp Ep]].
    specialize (HP p Hp). unfold ble, bx in *. cbn [fst snd] in HP. lia. }
  assert (Hi : (i < n)%nat /\ x = (if stt then ts i else te i)) by (destruct stt; [apply bs_start in Hb|apply bs_end in Hb]; exact Hb).
  destruct Hi as [Hi Ex].
  (* the observations open on [pos, x) are the active ones *)
  assert (Open : forall t j, pos <= t < x -> (In j (s_act s) <-> ((j < n)%nat /\ ts j <= t < te j))).
  { intros t j Ht. rewrite (Act j). split.
    - intros (A & B & C). split; [exact A|]. specialize (Pos _ B). unfold bx in Pos. cbn [fst] in Pos. split; [lia|].
      assert (Hin : In (te j, j, false) bs) by (apply bs_end; split; [exact A|reflexivity]).
      destruct (Hall _ Hin) as [K|[K|K]]; [contradiction| |].
      + inversion K; subst. lia.
      + specialize (HR _ K). unfold ble, bx in HR. cbn [fst snd] in HR. lia.
    - intros (A & B1 & B2). split; [exact A|].
      assert (Hs : In (ts j, j, true) bs) by (apply bs_start; split; [exact A|reflexivity]).
      split.
      + destruct (Hall _ Hs) as [K|[K|K]]; [exact K| |].
        * inversion K; subst. lia.
        * specialize (HR _ K). unfold ble, bx in HR. cbn [fst snd] in HR. lia.
      + intros K. specialize (Pos _ K). unfold bx in Pos. cbn [fst] in Pos. lia. }
  assert (OpenC : forall t c, pos <= t < x -> (open_at t c <-> In c (cells_of (s_act s)))).
  { intros t c Ht. unfold open_at, cells_of. rewrite in_map_iff. split.
    - intros [j (A & B & C)]. exists j. split; [exact C|apply (Open t j Ht); tauto].
    - intros [j [C Hj]]. apply (Open t j Ht) in Hj. exists j. tauto. }
  (* the set of open cells has been the active one since start_1, up to x *)
  assert (Ext : forall st, s_start s = Some st -> forall t c, st <= t < x -> (open_at t c <-> In c (cells_of (s_act s)))).
  { intros st Hst t c Ht. destruct (St st Hst) as (S1 & S2 & _). destruct (N.lt_ge_cases t pos); [apply S2; lia|apply OpenC; lia]. }
  assert (NoneEmpty : s_start s = None -> forall t y, pos <= t < x -> ~ covObs t y).
  { intros Hn t y Ht [j (A & B & C)]. apply Non in Hn. assert (In j (s_act s)) by (apply (Open t j Ht); tauto). rewrite Hn in H. destruct H. }
  assert (OutLe : forall e, In e (s_out s) -> snd (fst e) <= x) by (intros e He; destruct (Out e He) as (_ & B & _); lia).
  (* the settled region is covered correctly, and remains so when start_1 moves to x *)
  assert (CovUpTo : forall st, s_start s = Some st -> forall t y, t < x -> st <= t -> ~ covE (s_out s) t y).
  { intros st Hst t y _ Ht [e [He [[K1 K2] _]]]. destruct (St st Hst) as (_ & _ & S3). specialize (S3 e He). lia. }
  (* membership of the new active list *)
  assert (ActAdd : stt = true -> forall j, In j (i :: s_act s) <-> ((j < n)%nat /\ In (ts j, j, true) (P ++ [(x, i, true)]) /\ ~ In (te j, j, false) (P ++ [(x, i, true)]))).
  { intros -> j. cbn [In]. rewrite (Act j), !in_app_iff. cbn [In]. split.
    - intros [<-|(A & B & C)].
      + split; [exact Hi|]. split; [right; left; rewrite Ex; reflexivity|]. intros [K|[K|[]]]; [|inversion K].
        specialize (HP _ K). unfold ble, bx, bs_ in HP. cbn [fst snd] in HP. pose proof (t_nonempty i Hi). subst x. lia.
      + split; [exact A|]. split; [left; exact B|]. intros [K|[K|[]]]; [exact (C K)|inversion K].
    - intros (A & [B|[B|[]]] & C).
      + right. split; [exact A|]. split; [exact B|]. intros K. apply C. left. exact K.
      + inversion B; subst. left. reflexivity. }
  assert (ActRem : stt = false -> forall j, In j (remove Nat.eq_dec i (s_act s)) <-> ((j < n)%nat /\ In (ts j, j, true) (P ++ [(x, i, false)]) /\ ~ In (te j, j, false) (P ++ [(x, i, false)]))).
  { intros -> j. rewrite in_remove_iff', (Act j), !in_app_iff. cbn [In]. split.
    - intros ((A & B & C) & D). split; [exact A|]. split; [left; exact B|]. intros [K|[K|[]]]; [exact (C K)|]. inversion K; subst. congruence.
    - intros (A & [B|[B|[]]] & C); [|inversion B]. split; [split; [exact A|split; [exact B|]]|].
      + intros K. apply C. left. exact K.
      + intros ->. apply C. right. left. rewrite Ex. reflexivity. }
  assert (PosNew : forall c, In c (P ++ [(x, i, stt)]) -> bx c <= x).
  { intros c Hc. apply in_app_or in Hc. destruct Hc as [Hc|[<-|[]]]; [specialize (Pos c Hc); lia|cbn; lia]. }
  (* the active observation i is in the active list when its end comes *)
  unfold sl_step. cbn [bs_ bx bi fst snd].
  destruct stt.
  - (* ---------- a start ---------- *)
    unfold sl_add. destruct (has_cell (s_act s) (cell i)) eqn:HC.
    + (* the cell is already open *)
      assert (Ne : s_act s <> []) by (intros E; rewrite E in HC; discriminate).
      destruct (s_start s) as [st|] eqn:Sst; [|exfalso; apply Ne; apply Non; reflexivity].
      destruct (St st eq_refl) as (S1 & S2 & S3).
      constructor; cbn [s_act s_start s_out].
      * exact (ActAdd eq_refl).
      * exact PosNew.
      * split; [discriminate|discriminate].
      * intros st' E. inversion E; subst st'. split; [lia|]. split; [|exact S3].
        intros t c Ht. rewrite (Ext st eq_refl t c Ht). unfold cells_of. cbn [map In]. apply has_cell_spec in HC. unfold cells_of in HC. split; [tauto|intros [<-|K]; [exact HC|exact K]].
      * intros e He. destruct (Out e He) as (A & B & C). repeat split; try assumption; lia.
      * intros t y Ht. apply (Cov t y). exact Ht.
      * exact Sch.
    + destruct (isnil (s_act s)) eqn:Nil.
      * (* nothing open: a new element starts at x *)
        assert (Ea : s_act s = []) by (destruct (s_act s); [reflexivity|discriminate]).
        assert (Sn : s_start s = None) by (apply Non; exact Ea). rewrite Sn.
        constructor; cbn [s_act s_start s_out].
        -- intros j. rewrite <- Ea. exact (ActAdd eq_refl j).
        -- exact PosNew.
        -- split; discriminate.
        -- intros st' E. inversion E; subst st'. split; [lia|]. split; [intros t c Ht; lia|exact OutLe].
        -- intros e He. destruct (Out e He) as (A & B & C). repeat split; try assumption; lia.
        -- intros t y Ht. destruct (N.lt_ge_cases t pos) as [L|G]; [apply (Cov t y); rewrite Sn; exact L|].
           split; [intros [e [He [[K1 K2] _]]]; destruct (Out e He) as (_ & B & _); lia|intros K; exfalso; exact (NoneEmpty Sn t y ltac:(lia) K)].
        -- exact Sch.
      * assert (Ne : s_act s <> []) by (intros E; rewrite E in Nil; discriminate).
        destruct (s_start s) as [st|] eqn:Sst; [|exfalso; apply Ne; apply Non; reflexivity].
        destruct (St st eq_refl) as (S1 & S2 & S3).
        destruct (N.eqb_spec st x) as [E|E].
        -- (* same start: insert only *)
           subst st. constructor; cbn [s_act s_start s_out].
           ++ exact (ActAdd eq_refl).
           ++ exact PosNew.
           ++ split; discriminate.
           ++ intros st' E'. inversion E'; subst st'. split; [lia|]. split; [intros t c Ht; lia|exact S3].
           ++ intros e He. destruct (Out e He) as (A & B & C). repeat split; try assumption; lia.
           ++ intros t y Ht. apply (Cov t y). exact Ht.
           ++ exact Sch.
        -- (* the set of cells changes at x: emit [st, x) *)
           assert (Hstx : st < x) by lia.
           constructor; cbn [s_act s_start s_out].
           ++ exact (ActAdd eq_refl).
           ++ exact PosNew.
           ++ split; discriminate.
           ++ intros st' E'. inversion E'; subst st'. split; [lia|]. split; [intros t c Ht; lia|].
              intros e He. apply in_app_or in He. destruct He as [He|[<-|[]]]; [exact (OutLe e He)|cbn; lia].
           ++ intros e He. apply in_app_or in He. destruct He as [He|[<-|[]]]; [destruct (Out e He) as (A & B & C); repeat split; try assumption; lia|].
              cbn [fst snd]. repeat split; [exact Hstx|lia|]. apply mk2_ne. unfold cells_of. destruct (s_act s); [congruence|discriminate].
           ++ intros t y Ht. rewrite covE_app. destruct (N.lt_ge_cases t st) as [L|G].
              ** rewrite <- (Cov t y L). split; [intros [K|[e [[<-|[]] [[K1 K2] _]]]]; [exact K|cbn [fst] in K1; lia]|intros K; left; exact K].
              ** rewrite <- (emit_cov (s_act s) st x (Ext st eq_refl) t y ltac:(lia)). split.
                 --- intros [K|[e [[<-|[]] [_ K]]]]; [exfalso; exact (CovUpTo st eq_refl t y Ht G K)|exact K].
                 --- intros K. right. exists ((st, x), mk2 (cells_of (s_act s))). split; [left; reflexivity|split; [unfold inr; cbn [fst snd]; lia|exact K]].
           ++ apply sch_app; cbn [fst snd]; [exact Sch|exact S3|lia|exact Hstx|]. apply mk2_ne. unfold cells_of. destruct (s_act s); [congruence|discriminate].
  - (* ---------- an end ---------- *)
    assert (Ii : In i (s_act s)).
    { apply Act. split; [exact Hi|]. split.
      - assert (Hs : In (ts i, i, true) bs) by (apply bs_start; split; [exact Hi|reflexivity]).
        destruct (Hall _ Hs) as [K|[K|K]]; [exact K|inversion K|].
        specialize (HR _ K). unfold ble, bx, bs_ in HR. cbn [fst snd] in HR. pose proof (t_nonempty i Hi). subst x. lia.
      - intros K. apply HbP. rewrite Ex. exact K. }
    unfold sl_remove.
    assert (Ne : s_act s <> []) by (intros E; rewrite E in Ii; destruct Ii).
    destruct (s_start s) as [st|] eqn:Sst; [|exfalso; apply Ne; apply Non; reflexivity].
    destruct (St st eq_refl) as (S1 & S2 & S3).
    destruct (has_cell (remove Nat.eq_dec i (s_act s)) (cell i)) eqn:HC.
    + (* another observation with the same cell is still open: the set does not change *)
      assert (Ne' : remove Nat.eq_dec i (s_act s) <> []) by (intros E; rewrite E in HC; discriminate).
      constructor; cbn [s_act s_start s_out].
      * exact (ActRem eq_refl).
      * exact PosNew.
      * split; [discriminate|intros K; contradiction].
      * intros st' E'. inversion E'; subst st'. split; [lia|]. split; [|exact S3].
        intros t c Ht. rewrite (Ext st eq_refl t c Ht). symmetry. apply cells_remove_same. exact HC.
      * intros e He. destruct (Out e He) as (A & B & C). repeat split; try assumption; lia.
      * intros t y Ht. apply (Cov t y). exact Ht.
      * exact Sch.
    + (* the cell disappears: the set changes at x *)
      assert (NewStart : forall st', (if isnil (remove Nat.eq_dec i (s_act s)) then None else Some x) = Some st' -> st' = x)
        by (intros st' K; destruct (isnil (remove Nat.eq_dec i (s_act s))); [discriminate|inversion K; reflexivity]).
      assert (NoneIff : (if isnil (remove Nat.eq_dec i (s_act s)) then None else Some x) = None <-> remove Nat.eq_dec i (s_act s) = [])
        by (destruct (remove Nat.eq_dec i (s_act s)); cbn; split; try reflexivity; discriminate).
      destruct (N.eqb_spec st x) as [E|E].
      * (* start_1 = end: nothing to emit *)
        subst st. constructor; cbn [s_act s_start s_out].
        -- exact (ActRem eq_refl).
        -- exact PosNew.
        -- exact NoneIff.
        -- intros st' K. apply NewStart in K. subst st'. split; [lia|]. split; [intros t c Ht; lia|exact S3].
        -- intros e He. destruct (Out e He) as (A & B & C). repeat split; try assumption; lia.
        -- intros t y Ht. apply (Cov t y).
           destruct (isnil (remove Nat.eq_dec i (s_act s))); exact Ht.
        -- exact Sch.
      * assert (Hstx : st < x) by lia.
        constructor; cbn [s_act s_start s_out].
        -- exact (ActRem eq_refl).
        -- exact PosNew.
        -- exact NoneIff.
        -- intros st' K. apply NewStart in K. subst st'. split; [lia|]. split; [intros t c Ht; lia|].
           intros e He. apply in_app_or in He. destruct He as [He|[<-|[]]]; [exact (OutLe e He)|cbn; lia].
        -- intros e He. apply in_app_or in He. destruct He as [He|[<-|[]]]; [destruct (Out e He) as (A & B & C); repeat split; try assumption; lia|].
           cbn [fst snd]. repeat split; [exact Hstx|lia|]. apply mk2_ne. unfold cells_of. destruct (s_act s); [congruence|discriminate].
        -- intros t y Ht. assert (Htx : t < x) by (destruct (isnil (remove Nat.eq_dec i (s_act s))); exact Ht).
           rewrite covE_app. destruct (N.lt_ge_cases t st) as [L|G].
           ++ rewrite <- (Cov t y L). split; [intros [K|[e [[<-|[]] [[K1 K2] _]]]]; [exact K|cbn [fst] in K1; lia]|intros K; left; exact K].
           ++ rewrite <- (emit_cov (s_act s) st x (Ext st eq_refl) t y ltac:(lia)). split.
              ** intros [K|[e [[<-|[]] [_ K]]]]; [exfalso; exact (CovUpTo st eq_refl t y Htx G K)|exact K].
              ** intros K. right. exists ((st, x), mk2 (cells_of (s_act s))). split; [left; reflexivity|split; [unfold inr; cbn [fst snd]; lia|exact K]].
        -- apply sch_app; cbn [fst snd]; [exact Sch|exact S3|lia|exact Hstx|]. apply mk2_ne. unfold cells_of. destruct (s_act s); [congruence|discriminate].
Qed.


Lemma ss_split' (l1 : list bound) x l2 : StronglySorted ble (l1 ++ x :: l2) ->
  (forall p, In p l1 -> ble p x) /\ (forall r, In r l2 -> ble x r).
Proof.
  induction l1 as [|a l1 IH]; cbn [app]; intros H.
  - apply StronglySorted_inv in H. destruct H as [_ Hall]. split; [intros p []|]. rewrite Forall_forall in Hall. exact Hall.
  - apply StronglySorted_inv in H. destruct H as [Hs Hall]. destruct (IH Hs) as [I1 I2]. split; [|exact I2].
    intros p [<-|Hp]; [|exact (I1 p Hp)]. rewrite Forall_forall in Hall. apply Hall. apply in_or_app. right. left. reflexivity.
Qed.

Lemma fold_sinv : forall R P pos s, SInv P pos s -> bs = P ++ R ->
  (P <> [] -> exists p, In p P /\ bx p = pos) -> (P = [] -> pos = 0) ->
  exists pos', SInv (P ++ R) pos' (fold_left sl_step R s).
Proof.
  induction R as [|b R IH]; intros P pos s I E Hl Hi; cbn [fold_left]; [exists pos; rewrite app_nil_r; exact I|].
  replace (P ++ b :: R) with ((P ++ [b]) ++ R) by (rewrite <- app_assoc; reflexivity).
  pose proof bs_sorted as SS. rewrite E in SS. destruct (ss_split' P b R SS) as [S1 S2].
  assert (HbP : ~ In b P).
  { pose proof bs_nodup as ND. rewrite E in ND. apply NoDup_remove_2 in ND. intros K. apply ND. apply in_or_app. left. exact K. }
  apply (IH (P ++ [b]) (bx b)).
  - apply (sl_step_inv P pos s b R I); try assumption.
    + rewrite E. apply in_or_app. right. left. reflexivity.
    + intros c Hc. rewrite E in Hc. apply in_app_or in Hc. destruct Hc as [Hc|[Hc|Hc]]; [left; exact Hc|right; left; symmetry; exact Hc|right; right; exact Hc].
    + intros p Hp. rewrite E. apply in_or_app. left. exact Hp.
  - rewrite <- app_assoc. exact E.
  - intros _. exists b. split; [apply in_or_app; right; left; reflexivity|reflexivity].
  - intros K. destruct P; discriminate.
Qed.

Theorem sweep_line_spec :
  (forall t x, covE (sweep_line bs) t x <-> covObs t x) /\ sch 0 (sweep_line bs).
Proof.
  unfold sweep_line.
  assert (I0 : SInv [] 0 {| s_act := []; s_start := None; s_out := [] |}).
  { constructor; cbn [s_act s_start s_out].
    - intros i. split; [intros []|intros (_ & [] & _)].
    - intros b [].
    - split; reflexivity.
    - intros st K. discriminate.
    - intros e [].
    - intros t x Ht. lia.
    - exact I. }
  destruct (fold_sinv bs [] 0 _ I0 eq_refl ltac:(congruence) ltac:(reflexivity)) as [pos' IF]. cbn [app] in IF.
  set (sf := fold_left sl_step bs {| s_act := []; s_start := None; s_out := [] |}) in *.
  split; [|exact (si_sch _ _ _ IF)].
  (* at the end nothing is open *)
  assert (Ea : s_act sf = []).
  { destruct (s_act sf) as [|j a] eqn:E; [reflexivity|exfalso].
    assert (Hj : In j (s_act sf)) by (rewrite E; left; reflexivity). apply (si_act _ _ _ IF) in Hj. destruct Hj as (A & _ & C).
    apply C. apply bs_end. split; [exact A|reflexivity]. }
  assert (Sn : s_start sf = None) by (apply (si_none _ _ _ IF); exact Ea).
  intros t x. destruct (N.lt_ge_cases t pos') as [L|G].
  - apply (si_cov _ _ _ IF t x). rewrite Sn. exact L.
  - split.
    + intros [e [He [[K1 K2] _]]]. destruct (si_out _ _ _ IF e He) as (_ & B & _). lia.
    + intros [i (A & B & C)]. exfalso.
      assert (He : In (te i, i, false) bs) by (apply bs_end; split; [exact A|reflexivity]).
      pose proof (si_pos _ _ _ IF _ He) as M. unfold bx in M. cbn [fst] in M. lia.
Qed.
End SL.

(** ---------- the buffer: push with its "easy merge" of the last entry ---------- *)
Definition obsv := (range * N)%type.                 (* degraded time range, space cell *)
Definition mergeable (l o : obsv) : bool :=
  (snd l =? snd o) && negb ((snd (fst o) <? fst (fst l)) || (snd (fst l) <? fst (fst o))).
Definition merged (l o : obsv) : obsv := ((N.min (fst (fst l)) (fst (fst o)), N.max (snd (fst l)) (snd (fst o))), snd l).
(** the last entry of the buffer absorbs the new observation when they have the same cell and their
    (degraded) time ranges overlap or touch *)
Fixpoint push_obs (buff : list obsv) (o : obsv) : list obsv :=
  match buff with
  | [] => [o]
  | [l] => if mergeable l o then [merged l o] else [l; o]
  | a :: t => a :: push_obs t o
  end.
Definition covO (in2 : N -> N -> Prop) (l : list obsv) (t x : N) : Prop := exists o, In o l /\ inr (fst o) t /\ in2 (snd o) x.

Lemma covO_cons in2 a l t x : covO in2 (a :: l) t x <-> (inr (fst a) t /\ in2 (snd a) x) \/ covO in2 l t x.
Proof.
  unfold covO. split.
  - intros [o [[<-|Ho] K]]; [left; exact K|right; exists o; split; assumption].
  - intros [K|[o [Ho K]]]; [exists a; split; [left; reflexivity|exact K]|exists o; split; [right; exact Ho|exact K]].
Qed.

Lemma push_obs_cov in2 : forall buff o t x, fst (fst o) < snd (fst o) -> (forall b, In b buff -> fst (fst b) < snd (fst b)) ->
  (covO in2 (push_obs buff o) t x <-> covO in2 buff t x \/ (inr (fst o) t /\ in2 (snd o) x)) /\
  (forall b, In b (push_obs buff o) -> fst (fst b) < snd (fst b)).
Proof.
  induction buff as [|l buff IH]; intros o t x Ho Hb.
  - cbn [push_obs]. split; [|intros b [<-|[]]; exact Ho]. rewrite covO_cons. unfold covO. split; [intros [K|[o' [[] _]]]; right; exact K|intros [[o' [[] _]]|K]; left; exact K].
  - destruct buff as [|l2 buff].
    + cbn [push_obs]. assert (Hl : fst (fst l) < snd (fst l)) by (apply Hb; left; reflexivity).
      destruct l as [[la lb] lc]. destruct o as [[oa ob] oc]. cbn [fst snd] in *.
      destruct (mergeable (la, lb, lc) (oa, ob, oc)) eqn:Q.
      * unfold mergeable in Q. cbn [fst snd] in Q. apply andb_true_iff in Q. destruct Q as [Q1 Q2]. apply N.eqb_eq in Q1. apply negb_true_iff, orb_false_iff in Q2. destruct Q2 as [Q2 Q3].
        apply N.ltb_ge in Q2. apply N.ltb_ge in Q3. split.
        -- rewrite !covO_cons. unfold merged, inr, covO. cbn [fst snd].
           match goal with |- context [N.min ?a ?b] => destruct (N.min_spec a b) as [[M1 M2]|[M1 M2]]; rewrite M2 end;
           match goal with |- context [N.max ?a ?b] => destruct (N.max_spec a b) as [[X1 X2]|[X1 X2]]; rewrite X2 end; (split;
           [intros [[K1 K2]|[o' [[] _]]]; destruct (N.lt_ge_cases t la) as [L|G]; [right; split; [lia|rewrite <- Q1; exact K2]|];
              destruct (N.lt_ge_cases t lb) as [L2|G2]; [left; left; split; [lia|exact K2]|right; split; [lia|rewrite <- Q1; exact K2]]
           |intros [[[K1 K2]|[o' [[] _]]]|[K1 K2]]; left; (split; [lia|]); [exact K2|rewrite Q1; exact K2]]).
        -- intros b [<-|[]]. unfold merged. cbn [fst snd].
           match goal with |- context [N.min ?a ?b] => destruct (N.min_spec a b) as [[M1 M2]|[M1 M2]]; rewrite M2 end;
           match goal with |- context [N.max ?a ?b] => destruct (N.max_spec a b) as [[X1 X2]|[X1 X2]]; rewrite X2 end; lia.
      * split.
        -- rewrite !covO_cons. unfold covO. split; [intros [K|[K|[o' [[] _]]]]; [left; left; exact K|right; exact K]|intros [[K|[o' [[] _]]]|K]; [left; exact K|right; left; exact K]].
        -- intros b [<-|[<-|[]]]; [exact Hl|exact Ho].
    + change (push_obs (l :: l2 :: buff) o) with (l :: push_obs (l2 :: buff) o).
      destruct (IH o t x Ho (fun b H => Hb b (or_intror H))) as [I1 I2]. split.
      * rewrite covO_cons, I1, (covO_cons in2 l (l2 :: buff)). tauto.
      * intros b [<-|K]; [apply Hb; left; reflexivity|exact (I2 b K)].
Qed.

Definition push_all (obs : list obsv) : list obsv := fold_left push_obs obs [].

Lemma push_all_cov in2 : forall obs buff t x, (forall o, In o obs -> fst (fst o) < snd (fst o)) -> (forall b, In b buff -> fst (fst b) < snd (fst b)) ->
  (covO in2 (fold_left push_obs obs buff) t x <-> covO in2 buff t x \/ covO in2 obs t x) /\
  (forall b, In b (fold_left push_obs obs buff) -> fst (fst b) < snd (fst b)).
Proof.
  induction obs as [|o obs IH]; intros buff t x Ho Hb; cbn [fold_left].
  - split; [|exact Hb]. split; [intros K; left; exact K|intros [K|[o [[] _]]]; exact K].
  - destruct (push_obs_cov in2 buff o t x (Ho o (or_introl eq_refl)) Hb) as [_ P2].
    destruct (IH (push_obs buff o) t x (fun o' H => Ho o' (or_intror H)) P2) as [I1 I2]. split; [|exact I2].
    rewrite I1. destruct (push_obs_cov in2 buff o t x (Ho o (or_introl eq_refl)) Hb) as [P1 _]. rewrite P1. unfold covO at 3 4. split.
    + intros [[K|K]|[o' [Ho' K]]]; [left; exact K|right; exists o; split; [left; reflexivity|exact K]|right; exists o'; split; [right; exact Ho'|exact K]].
    + intros [K|[o' [[<-|Ho'] K]]]; [left; left; exact K|left; right; exact K|right; exists o'; split; [exact Ho'|exact K]].
Qed.

(** ---------- the executable builder ---------- *)
Definition sl_bounds (buff : list obsv) : list bound := isort (bounds_of (map (fun o : obsv => (fst o, [])) buff)).
Definition st_sweep (ds : N) (obs : list obsv) : list entry :=
  let buff := push_all obs in
  sweep_line (fun i => snd (nth i buff ((0, 0), 0))) (build_cells Hpx 64 ds) (sl_bounds buff).

Lemma isort_nodup l : NoDup l -> NoDup (isort l).
Proof.
  induction l as [|a t IH]; intros H; cbn [isort fold_right]; [constructor|]. inversion H as [|? ? Hn Ht]; subst.
  fold (isort t). specialize (IH Ht).
  assert (G : forall l', NoDup l' -> ~ In a l' -> NoDup (insb a l')).
  { induction l' as [|b l' IHl]; intros Hd Hna; cbn [insb]; [constructor; [intros []|constructor]|].
    destruct (bleb a b); [constructor; assumption|]. inversion Hd as [|? ? Hb Hl]; subst.
    constructor; [intros K; apply insb_in in K; destruct K as [K|K]; [subst; apply Hna; left; reflexivity|exact (Hb K)]|].
    apply IHl; [exact Hl|intros K; apply Hna; right; exact K]. }
  apply G; [exact IH|rewrite isort_in; exact Hn].
Qed.

Lemma bounds_of_nodup (es : list entry) : NoDup (bounds_of es).
Proof.
  unfold bounds_of.
  assert (G : forall (l : list entry) k, NoDup (flat_map (fun ie : nat * entry => [(fst (fst (snd ie)), fst ie, true); (snd (fst (snd ie)), fst ie, false)]) (combine (seq k (length l)) l)) /\
              forall b, In b (flat_map (fun ie : nat * entry => [(fst (fst (snd ie)), fst ie, true); (snd (fst (snd ie)), fst ie, false)]) (combine (seq k (length l)) l)) -> (k <= bi b)%nat).
  { induction l as [|e l IH]; intros k; cbn [length seq combine flat_map]; [split; [constructor|intros b []]|].
    destruct (IH (S k)) as [I1 I2]. cbn [fst snd app]. split.
    - constructor; [intros [K|K]; [inversion K|specialize (I2 _ K); cbn in I2; lia]|].
      constructor; [intros K; specialize (I2 _ K); cbn in I2; lia|exact I1].
    - intros b [<-|[<-|K]]; [cbn; lia|cbn; lia|specialize (I2 _ K); lia]. }
  exact (proj1 (G es 0%nat)).
Qed.

Theorem st_sweep_spec ds obs : (forall o, In o obs -> fst (fst o) < snd (fst o)) ->
  (forall t x, covE (st_sweep ds obs) t x <-> exists o, In o obs /\ inr (fst o) t /\ x / 2 ^ shift Hpx 64 ds = snd o) /\
  sch 0 (st_sweep ds obs).
Proof.
  intros Ho. unfold st_sweep. set (buff := push_all obs).
  destruct (push_all_cov (fun c x => x / 2 ^ shift Hpx 64 ds = c) obs [] 0 0 Ho (fun b H => match H with end)) as [_ Hb]. fold buff in Hb.
  set (n := length buff). set (ts := fun i => fst (fst (nth i buff ((0, 0), 0)))). set (te := fun i => snd (fst (nth i buff ((0, 0), 0)))).
  set (cellf := fun i => snd (nth i buff ((0, 0), 0))).
  assert (Hn : forall i, (i < n)%nat -> In (nth i buff ((0, 0), 0)) buff) by (intros i Hi; apply nth_In; exact Hi).
  assert (H1 : forall i, (i < n)%nat -> ts i < te i) by (intros i Hi; exact (Hb _ (Hn i Hi))).
  set (es := map (fun o : obsv => (fst o, @nil range)) buff).
  assert (Les : length es = n) by (unfold es; rewrite map_length; reflexivity).
  assert (Nth : forall i, fst (nth i es dflt) = fst (nth i buff ((0, 0), 0))).
  { unfold es. clear. induction buff as [|o0 bf IHb]; intros i; destruct i; cbn [map nth]; try reflexivity. apply IHb. }
  destruct (sweep_line_spec n ts te cellf H1 (fun c x => x / 2 ^ shift Hpx 64 ds = c) (build_cells Hpx 64 ds)
              (fun cells x => build_cells_covers Hpx 64 ds cells x)
              (fun cells H => ltac:(destruct cells as [|c t]; [congruence|]; intros E;
                 assert (K : cov (build_cells Hpx 64 ds (c :: t)) (c * 2 ^ shift Hpx 64 ds)) by (apply build_cells_covers; exists c; split; [left; reflexivity|apply N.div_mul; apply N.pow_nonzero; lia]);
                 rewrite E in K; destruct (cov_nil _ K)))
              (sl_bounds buff) (isort_sorted _)) as [C S].
  - intros x i. unfold sl_bounds. rewrite isort_in. change (map (fun o : obsv => (fst o, [])) buff) with es. rewrite in_bounds_of. unfold ts. rewrite Nth. rewrite <- Les. reflexivity.
  - intros x i. unfold sl_bounds. rewrite isort_in. change (map (fun o : obsv => (fst o, [])) buff) with es. rewrite in_bounds_of. unfold te. rewrite Nth. rewrite <- Les. reflexivity.
  - unfold sl_bounds. apply isort_nodup. apply bounds_of_nodup.
  - split; [|exact S]. intros t x. fold cellf. rewrite C.
    destruct (push_all_cov (fun c x0 => x0 / 2 ^ shift Hpx 64 ds = c) obs [] t x Ho (fun b H => match H with end)) as [PC _]. fold buff in PC.
    assert (E : covObs n ts te cellf (fun c x0 => x0 / 2 ^ shift Hpx 64 ds = c) t x <-> covO (fun c x0 => x0 / 2 ^ shift Hpx 64 ds = c) buff t x).
    { unfold covObs, covO. split.
      - intros [i (A & B & D)]. exists (nth i buff ((0, 0), 0)). split; [exact (Hn i A)|]. split; [exact B|exact D].
      - intros [o (A & B & D)]. apply In_nth with (d := ((0, 0), 0)) in A. destruct A as [i [Hi <-]]. exists i. split; [exact Hi|split; [exact B|exact D]]. }
    rewrite E. unfold buff, push_all. unfold push_all in PC. rewrite PC. unfold covO. split.
    + intros [[o [[] _]]|K]. exact K.
    + intros K. right. exact K.
Qed.

Example st_sweep_example :
  st_sweep 0 [((10, 20), 5); ((5, 30), 5); ((12, 15), 7); ((30, 31), 7)]
  = [((5, 12), [(5 * 2 ^ 58, 6 * 2 ^ 58)]); ((12, 15), [(5 * 2 ^ 58, 6 * 2 ^ 58); (7 * 2 ^ 58, 8 * 2 ^ 58)]);
     ((15, 30), [(5 * 2 ^ 58, 6 * 2 ^ 58)]); ((30, 31), [(7 * 2 ^ 58, 8 * 2 ^ 58)])].
Proof. vm_compute. reflexivity. Qed.
